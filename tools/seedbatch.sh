#!/bin/bash
# seedbatch.sh C07:C08 C10:C11 C15 ...   (PROP[:EXTRA,EXTRA]) -> tests m1,m2 of each and stores confirmed ones under /verif/seeded
cd /verif
for spec in "$@"; do
  p=${spec%%:*}; extra=""; [[ "$spec" == *:* ]] && extra=$(echo ${spec#*:} | tr ',' ' ')
  for m in m1 m2 m3; do
    [ -d /tmp/seedout-$p/$m ] || continue
    out=/tmp/st-$p-$m.json
    python3 tools/seedtest.py /tmp/seedout-$p/$m ${p:0:3} $extra > $out 2>&1
    python3 - "$out" "$p" "$m" <<'PY'
import json,sys,subprocess
out,p,m=sys.argv[1:4]
try:
    d=json.load(open(out))
except Exception as e:
    print(p,m,'BROKEN RESULT',e); sys.exit(0)
ok = d.get('demo_clean_rc')==0 and d.get('apply_rc')==0 and d.get('demo_patched_rc',0)!=0
if not ok:
    print(p,m,'NOT CONFIRMED', {k:d.get(k) for k in ('demo_clean_rc','apply_rc','demo_patched_rc')}, (d.get('demo_clean_tail') or d.get('apply_out') or '')[-300:])
else:
    subprocess.run(['python3','/verif/tools/keep_seed.py','/tmp/seedout-%s/%s'%(p,m),out,'%s-%s'%(p,m)])
PY
  done
  git -C /repo worktree remove --force /tmp/seedwt-$p 2>/dev/null
done
rm -f /verif/replays/*.fail /verif/replays/*.txt
echo BATCH-DONE
