#!/usr/bin/env python3
"""Records in every seeded/<id>/meta.json the newest /repo commit the patch applies to
("applies_to": {"commit":..., "is_head": bool}). Patches were written against the HEAD of
their day; later fix: commits can touch the same lines."""
import glob, json, os, subprocess
def sh(*a, cwd=None):
    return subprocess.run(a, cwd=cwd, capture_output=True, text=True)
commits = sh('git', '-C', '/repo', 'log', '--format=%h', '-n', '80').stdout.split()
wt = '/tmp/seedapply-wt'
sh('git', '-C', '/repo', 'worktree', 'remove', '--force', wt)
sh('git', '-C', '/repo', 'worktree', 'add', '--detach', wt, commits[0])
cur = commits[0]
stale = []
for d in sorted(glob.glob('/verif/seeded/*/')):
    pf, mf = d + 'patch.diff', d + 'meta.json'
    if not (os.path.exists(pf) and os.path.exists(mf)):
        continue
    found = None
    for c in commits:
        if c != cur:
            sh('git', 'checkout', '-q', '--detach', c, cwd=wt); cur = c
        if sh('git', 'apply', '--check', pf, cwd=wt).returncode == 0:
            found = c; break
    m = json.load(open(mf))
    m['applies_to'] = {'commit': found, 'is_head': found == commits[0]}
    json.dump(m, open(mf, 'w'), indent=1, ensure_ascii=False)
    if found != commits[0]:
        stale.append((os.path.basename(d.rstrip('/')), found))
sh('git', '-C', '/repo', 'worktree', 'remove', '--force', wt)
print('HEAD', commits[0], 'seeds not applying at HEAD:', len(stale))
for s in stale: print(' ', s)
