#!/usr/bin/env python3
"""Regenerates /verif/MANIFEST.json from props/*.json (+ tools/not_applicable.json)."""
import glob, json, os, subprocess
V = os.path.dirname(os.path.dirname(os.path.abspath(__file__)))
checks = []
claimed = set()
ready_path = os.path.join(V, "tools", "ready.txt")
ready = set(open(ready_path).read().split()) if os.path.exists(ready_path) else None
for p in sorted(glob.glob(os.path.join(V, "props", "C*.json"))):
    s = json.load(open(p))
    pid = s["property"]
    if ready is not None and pid not in ready:
        continue
    m = s.get("manifest", {})
    claimed.add(pid)
    checks.append({
        "property_id": pid,
        "quick_cmd": "./check %s --tier quick" % pid,
        "thorough_cmd": "./check %s --tier thorough" % pid,
        "evidence_file": "evidence/%s.json" % pid,
        "replay_cmd_template": "./check %s --replay {path}" % pid,
        "engine": "vf-driver",
        "level_claimed": {"category": s["level"], "text": m.get("text", s.get("rule", "")),
                          "design_ref": m.get("design_ref", "DESIGN.md section 2, " + pid)},
        "level_note": m.get("note", "; ".join(s.get("assumptions", [])) or "harness oracle and generators as described in DESIGN.md"),
        "technique": m.get("technique", "property-based testing (rapid) against an explicit oracle"),
    })
na_path = os.path.join(V, "tools", "not_applicable.json")
na = json.load(open(na_path)) if os.path.exists(na_path) else {}
ids = [json.loads(l)["id"] for l in open(os.path.join(V, "properties.jsonl")) if l.strip()]
not_app = []
for i in ids:
    if i not in claimed:
        not_app.append({"property_id": i, "reason": na.get(i, "check not built yet in this session (planned in DESIGN.md section 2); not claimed until its check exists and is silent on the unchanged tree")})
hooks_commits = []
man = {
    "version": 1,
    "setup_cmd": "./check --setup",
    "hooks": {
        "guard": "verif",
        "enable": "harness test files carry //go:build verif and are injected with go test -overlay/-modfile -tags verif; no source file of /repo is modified by hooks",
        "baseline_off_cmd": "cd /repo && for m in . addons/processors/iceberg-processor addons/processors/skeleton addons/processors/sql-processor; do (cd $m && GOFLAGS=-mod=mod go test -json -vet=off -count=1 -timeout 25m ./...); done",
        "source_commits": hooks_commits,
        "add_only": True,
    },
    "engines": [{"name": "vf-driver", "path": "check", "serves_properties": sorted(claimed),
                 "kind_free_text": "python driver that overlays harness/*_test.go (rapid property tests, stateful models, native go fuzz targets) into /repo packages at build time, runs them and writes evidence"}],
    "checks": checks,
    "notes": "All checks are generated-input searches (pgregory.net/rapid v1.3.0, native go fuzzing in the thorough tier) against explicit oracles; see DESIGN.md. Exit 2 = inconclusive (harness build failure, timeout).",
    "not_applicable": not_app,
}
json.dump(man, open(os.path.join(V, "MANIFEST.json"), "w"), indent=1)
print("claimed", len(claimed), "not claimed", len(not_app))
