#!/usr/bin/env python3
"""mark_fixed.py <finding-id> <commit> : flips a finding in known_findings.d/*.json or known_findings.json to status fixed."""
import glob, json, sys
fid, commit = sys.argv[1], sys.argv[2]
for p in ['/verif/known_findings.json'] + sorted(glob.glob('/verif/known_findings.d/*.json')):
    d = json.load(open(p)); ch = False
    for f in d.get('findings', []):
        if f.get('id') == fid:
            f['status'] = 'fixed'; f['commit'] = commit
            f['line'] = "fixed: property=%s %s %s" % (f['property'], commit, f.get('what', '')[:160])
            ch = True
    if ch:
        json.dump(d, open(p, 'w'), indent=1, ensure_ascii=False); print('updated', p)
