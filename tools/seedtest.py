#!/usr/bin/env python3
"""seedtest.py <seed dir with patch.diff/meta.json/demo> <prop> [<prop>...]
Confirms a seeded change (demo passes clean, fails patched) and runs the given checks against it."""
import json, os, re, shutil, subprocess, sys, glob
d = os.path.abspath(sys.argv[1]); props = sys.argv[2:]
name = re.sub(r'[^A-Za-z0-9]+', '-', d.strip('/'))[-40:]
wt = '/tmp/seedchk-' + name
env = dict(os.environ, GOTOOLCHAIN='local', GOFLAGS='-mod=mod', GOPROXY='off', GOSUMDB='off')
G = '/root/go/pkg/mod/golang.org/toolchain@v0.0.1-go1.25.2.linux-amd64/bin/go'
def sh(cmd, cwd=None, timeout=1800):
    p = subprocess.run(cmd, shell=True, cwd=cwd, env=env, stdout=subprocess.PIPE, stderr=subprocess.STDOUT, text=True, timeout=timeout)
    return p.returncode, p.stdout
subprocess.run(['git', '-C', '/repo', 'worktree', 'remove', '--force', wt], stdout=subprocess.DEVNULL, stderr=subprocess.DEVNULL)
rc, out = sh('git -C /repo worktree add --detach %s' % wt)
if rc != 0:
    print(out); sys.exit(2)
res = {'seed': d}
try:
    meta = json.load(open(os.path.join(d, 'meta.json')))
    demo_rel = meta.get('demo_path_in_repo', '')
    demo_cmd = meta.get('demo_cmd', '')
    demos = [f for f in glob.glob(os.path.join(d, '*')) if os.path.basename(f) not in ('patch.diff', 'meta.json')]
    # rewrite the author's worktree path to ours
    demo_cmd = re.sub(r'/tmp/seedwt-C\d+[a-z]?', wt, demo_cmd)
    demo_cmd = demo_cmd.replace('$G ', G + ' ').replace(' go test', ' ' + G + ' test')
    demo_cmd = re.sub(r'\s{2,}\(.*\)\s*$', '', demo_cmd)  # trailing prose in parentheses
    # some authors chain 'git apply' / 'cp demo' into the command: the script does those steps itself
    segs = [x.strip() for x in demo_cmd.split('&&')]
    segs = [x for x in segs if 'git apply' not in x and not x.startswith('cp ') and not x.startswith('git checkout') and 'git stash' not in x]
    demo_cmd = ' && '.join(segs)
    if demo_cmd.startswith('go test'):
        demo_cmd = G + demo_cmd[2:]
    def place():
        if demo_rel and demos:
            src = demos[0]
            if os.path.isdir(src):
                shutil.copytree(src, os.path.join(wt, demo_rel), dirs_exist_ok=True)
            else:
                os.makedirs(os.path.dirname(os.path.join(wt, demo_rel)), exist_ok=True)
                shutil.copy(src, os.path.join(wt, demo_rel))
    def unplace():
        p = os.path.join(wt, demo_rel)
        if demo_rel and os.path.isdir(p) and not os.path.exists(os.path.join('/repo', demo_rel)):
            shutil.rmtree(p)
        elif demo_rel and os.path.isfile(p):
            os.remove(p)
    place()
    rc, out = sh(demo_cmd, cwd=wt)
    res['demo_clean_rc'] = rc
    if rc != 0:
        res['demo_clean_tail'] = out[-800:]
    rc, out = sh('git apply %s' % os.path.join(d, 'patch.diff'), cwd=wt)
    res['apply_rc'] = rc
    if rc != 0:
        res['apply_out'] = out[-500:]
    rc, out = sh(demo_cmd, cwd=wt)
    res['demo_patched_rc'] = rc
    res['demo_patched_tail'] = out[-400:] if rc == 0 else ''
    unplace()
    res['checks'] = {}
    for p in props:
        e = dict(env, VERIF_REPO=wt)
        pr = subprocess.run(['/verif/check', p], cwd='/verif', env=e, stdout=subprocess.PIPE, stderr=subprocess.STDOUT, text=True)
        lines = [l for l in pr.stdout.splitlines() if 'VIOLATION' in l or 'tier=' in l or 'violated' in l.lower()][:4]
        res['checks'][p] = {'rc': pr.returncode, 'lines': [l[:400] for l in lines]}
finally:
    subprocess.run(['git', '-C', '/repo', 'worktree', 'remove', '--force', wt], stdout=subprocess.DEVNULL, stderr=subprocess.DEVNULL)
print(json.dumps(res, indent=1))
