#!/usr/bin/env python3
"""gen_seedprompts.py <old-suffix> <new-suffix>: derives the next round's seed prompts in /tmp/seedprompts
from the previous round's, listing every stored seed of the property as 'already done'."""
import glob, json, re, sys
old, new = sys.argv[1], sys.argv[2]
for n in range(1, 46):
    pid = 'C%02d' % n
    src = '/tmp/seedprompts/seedprompt_%s%s.txt' % (pid, old)
    s = open(src).read().replace(pid + old, pid + new)
    bullets = []
    for mf in sorted(glob.glob('/verif/seeded/%s*-m*/meta.json' % pid)):
        m = json.load(open(mf))
        if m.get('property') != pid:
            continue
        bullets.append('- ' + ' '.join(m.get('summary', '').split())[:260])
    a = s.index('(not variations of these):\n') + len('(not variations of these):\n')
    b = s.index('Look for other code paths')
    s = s[:a] + '\n'.join(bullets) + '\n' + s[b:]
    open('/tmp/seedprompts/seedprompt_%s%s.txt' % (pid, new), 'w').write(s)
print('ok')
