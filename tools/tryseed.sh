#!/bin/bash
# tryseed.sh <patch.diff> PROP [PROP...] : run quick checks against a scratch worktree with the patch applied
patch=$1; shift
wt=/tmp/trywt-$$
git -C /repo worktree add --detach $wt >/dev/null 2>&1 || exit 3
(cd $wt && git apply $patch) || { git -C /repo worktree remove --force $wt; echo APPLY-FAILED; exit 3; }
for p in "$@"; do
  VERIF_REPO=$wt VERIF_SCRATCH=/tmp/tryscr-$$ /verif/check $p ${TIER:+--tier $TIER} 2>&1 | grep -E "VIOLATION|-> " | head -3
done
git -C /repo worktree remove --force $wt; rm -rf /tmp/tryscr-$$
find /verif/replays -type f -name 'C*' -newer $patch -delete 2>/dev/null
