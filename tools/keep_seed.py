#!/usr/bin/env python3
"""keep_seed.py <seed dir> <seedtest result json> <name> : store a confirmed seeded change under /verif/seeded/<name>/."""
import json, os, shutil, sys
d, res, name = sys.argv[1], json.load(open(sys.argv[2])), sys.argv[3]
dst = os.path.join('/verif/seeded', name)
os.makedirs(dst, exist_ok=True)
for f in os.listdir(d):
    src = os.path.join(d, f)
    if os.path.isdir(src):
        shutil.copytree(src, os.path.join(dst, f), dirs_exist_ok=True)
    else:
        shutil.copy(src, os.path.join(dst, f))
meta = json.load(open(os.path.join(dst, 'meta.json')))
meta['confirmed_by_lead'] = {
    'demo_passes_on_clean_tree': res.get('demo_clean_rc') == 0,
    'patch_applies': res.get('apply_rc') == 0,
    'demo_fails_with_patch': res.get('demo_patched_rc', 0) != 0,
    'what_was_run': 'tools/seedtest.py: fresh worktree of /repo HEAD, demo on clean tree, git apply patch.diff, demo again, then ./check <prop> with VERIF_REPO=<worktree> (quick tier, seed 1)',
}
meta['checks_against_it'] = {p: {'exit': v['rc'], 'verdict': {0: 'MISSED', 1: 'DETECTED', 2: 'INCONCLUSIVE'}.get(v['rc'], '?'), 'first_line': (v['lines'] or [''])[0][:300]} for p, v in res.get('checks', {}).items()}
json.dump(meta, open(os.path.join(dst, 'meta.json'), 'w'), indent=1)
print(name, {p: v['verdict'] for p, v in meta['checks_against_it'].items()})
