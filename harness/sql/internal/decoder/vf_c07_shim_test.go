//go:build verif

package decoder

// Names of pkg/storage used unqualified by the shared vf_c07_log_test.go.

import "github.com/KafScale/platform/pkg/storage"

type (
	ByteRange           = storage.ByteRange
	S3Object            = storage.S3Object
	PartitionLogConfig  = storage.PartitionLogConfig
	SegmentWriterConfig = storage.SegmentWriterConfig
)

var (
	ErrNotFound             = storage.ErrNotFound
	NewPartitionLog         = storage.NewPartitionLog
	NewRecordBatchFromBytes = storage.NewRecordBatchFromBytes
)
