//go:build verif

package decoder

// C34 generator + oracle helpers (identical copies in the iceberg and sql decoder
// packages; only the package clause differs). vfkit + rapid + stdlib only.
//
// Hostile inputs are built structure-aware: a client "Records" blob is a 61-byte batch
// header followed by records, and the broker stores it unchanged (cmd/broker handleProduce
// only reads base offset / lastOffsetDelta / record count from the header and requires
// recordCount == lastOffsetDelta+1). So every
// length / count field below is attacker-controlled in a broker-written segment.

import (
	"bytes"
	"compress/gzip"
	"encoding/binary"
	"fmt"
	"os"
	"runtime"
	"strconv"
	"strings"
	"sync"

	"pgregory.net/rapid"
	"verif.local/vfkit"
)

// ---- oracle ---------------------------------------------------------------------------

type c34Outcome struct {
	Panic string
	Alloc uint64
	Err   error
	N     int
}

// c34Run calls f, recovering a panic and measuring the bytes allocated during the call
// (runtime.MemStats.TotalAlloc is exact after ReadMemStats' stop-the-world flush; the
// harness is single-goroutine at this point).
func c34Run(f func() (int, error)) (out c34Outcome) {
	var m0, m1 runtime.MemStats
	runtime.ReadMemStats(&m0)
	func() {
		defer func() {
			if r := recover(); r != nil {
				out.Panic = fmt.Sprint(r)
			}
		}()
		out.N, out.Err = f()
	}()
	runtime.ReadMemStats(&m1)
	out.Alloc = m1.TotalAlloc - m0.TotalAlloc
	return out
}

// c34Bound is the allocation allowance for an input of n bytes: generous enough for any
// honest decoder (copying every record, one ~120-byte struct per >=7-byte record, slice
// growth) and far below the smallest hostile size the generator plants (2^23).
func c34Bound(n int) uint64 { return 256*uint64(n) + 4<<20 }

// c34Verdict returns "" when the outcome satisfies the property.
func c34Verdict(o c34Outcome, inputLen int) string {
	if o.Panic != "" {
		return "panic: " + o.Panic
	}
	if o.Alloc > c34Bound(inputLen) {
		return fmt.Sprintf("allocated %d bytes for a %d-byte input (allowance %d)", o.Alloc, inputLen, c34Bound(inputLen))
	}
	return ""
}

// sizes whose allocation would neither fit the allowance-based verdict comfortably nor
// fail as a recoverable makeslice panic: a vulnerable decoder would die with a fatal
// out-of-memory instead of producing a verdict. Never executed by the rapid legs.
func c34FatalZone(size, elem int64) bool {
	if size <= 0 {
		return false
	}
	return size > (1<<27)/elem && size < 1<<50
}

// ---- hostile values -------------------------------------------------------------------

// c34HostileLen draws a hostile value for a length/count field whose honest value is
// actual and whose elements are elem bytes each. Returned sizes never fall in the fatal
// zone.
func c34HostileLen(t *rapid.T, label string, actual, elem int64) (int64, string) {
	kind := rapid.SampledFrom([]string{"neg1", "neg-big", "plus1", "minus1", "zero", "big", "big", "huge"}).Draw(t, label+"-hostile")
	switch kind {
	case "neg1":
		return -1, kind
	case "neg-big":
		return rapid.SampledFrom([]int64{-2, -7, -(1 << 31), -(1 << 62)}).Draw(t, label+"-neg"), kind
	case "plus1":
		return actual + 1, kind
	case "minus1":
		if actual > 0 {
			return actual - 1, kind
		}
		return 1, kind
	case "zero":
		return 0, kind
	case "big":
		hi := 27
		for e := int64(1); e < elem; e <<= 1 { // hi = 27 - ceil(log2(elem)): size*elem <= 2^27
			hi--
		}
		return int64(1) << rapid.IntRange(hi-4, hi).Draw(t, label+"-log2"), kind
	default:
		return 1 << 62, kind
	}
}

// c34BatchLenEdges are batchLength wire values around the int32 limits: 12 (the frame header
// length) + v overflows int32 for v in MaxInt32-11..MaxInt32; MinInt32 / -1 as uint32; and
// the neighbours just outside the overflow window.
var c34BatchLenEdges = []int64{0x7FFFFFF2, 0x7FFFFFF3, 0x7FFFFFF4, 0x7FFFFFF5, 0x7FFFFFF8, 0x7FFFFFFE, 0x7FFFFFFF, 0x80000000, 0x80000001, 0xFFFFFFF3, 0xFFFFFFF4, 0xFFFFFFFE, 0xFFFFFFFF}

// c34WithBatchLen returns a copy of a segment whose batch frame at body offset 0 carries the
// given batchLength (fuzz seeds).
func c34WithBatchLen(seg []byte, v uint32) []byte {
	out := append([]byte(nil), seg...)
	if len(out) >= 32+12 {
		binary.BigEndian.PutUint32(out[32+8:], v)
	}
	return out
}

type c34Desc struct {
	Class    string // generator class
	Field    string // mutated field ("" = none)
	ValClass string
	Value    int64
	Batches  int
}

func c34SmallBytes(t *rapid.T, label string) []byte {
	switch rapid.IntRange(0, 3).Draw(t, label+"-kind") {
	case 0:
		return nil
	case 1:
		return []byte{}
	default:
		return rapid.SliceOfN(rapid.Byte(), 1, 9).Draw(t, label)
	}
}

// c34Record encodes one record; when mut != "" that field carries a hostile value.
func c34Record(t *rapid.T, mut string, d *c34Desc) []byte {
	key, val := c34SmallBytes(t, "key"), c34SmallBytes(t, "val")
	nh := rapid.IntRange(0, 2).Draw(t, "nhdr")
	if (mut == "hkeylen" || mut == "hvallen") && nh == 0 {
		nh = 1
	}
	body := []byte{0}
	if mut == "overlong" {
		n := rapid.SampledFrom([]int{5, 6, 10, 11}).Draw(t, "overlong-n")
		for i := 0; i < n; i++ {
			body = append(body, 0x80|byte(rapid.IntRange(0, 127).Draw(t, "overlong-b")))
		}
		body = append(body, 0x01)
		d.Field, d.ValClass = "overlong-varint", strconv.Itoa(n)
	} else {
		body = vfkit.PutVarint(body, int64(rapid.IntRange(-5, 5000).Draw(t, "tsd")))
	}
	body = vfkit.PutVarint(body, int64(rapid.IntRange(0, 3).Draw(t, "od")))
	put := func(field string, actual, elem int64) {
		v := actual
		if mut == field {
			v, d.ValClass = c34HostileLen(t, field, actual, elem)
			d.Field, d.Value = field, v
		}
		body = vfkit.PutVarint(body, v)
	}
	lenOf := func(b []byte) int64 {
		if b == nil {
			return -1
		}
		return int64(len(b))
	}
	put("keylen", lenOf(key), 1)
	body = append(body, key...)
	put("vallen", lenOf(val), 1)
	body = append(body, val...)
	put("hdrcount", int64(nh), 40)
	for h := 0; h < nh; h++ {
		hk := rapid.SliceOfN(rapid.Byte(), 0, 4).Draw(t, "hk")
		hv := c34SmallBytes(t, "hv")
		if h == 0 {
			put("hkeylen", int64(len(hk)), 1)
		} else {
			body = vfkit.PutVarint(body, int64(len(hk)))
		}
		body = append(body, hk...)
		if h == 0 {
			put("hvallen", lenOf(hv), 1)
		} else {
			body = vfkit.PutVarint(body, lenOf(hv))
		}
		body = append(body, hv...)
	}
	if mut == "cut" && len(body) > 1 {
		keep := rapid.IntRange(0, len(body)-1).Draw(t, "cut-at")
		declared := int64(len(body))
		body = body[:keep]
		d.Field, d.ValClass, d.Value = "cut", "declared>present", declared
		return append(vfkit.PutVarint(nil, declared), body...)
	}
	recLen := int64(len(body))
	if mut == "reclen" {
		recLen, d.ValClass = c34HostileLen(t, "reclen", recLen, 1)
		d.Field, d.Value = "reclen", recLen
	}
	return append(vfkit.PutVarint(nil, recLen), body...)
}

// c34Batches draws 1-3 client batches (base offset 0, as sent on the wire); with
// hostile=true exactly one record or one batch header field carries a hostile value.
func c34Batches(t *rapid.T, hostile bool, d *c34Desc) [][]byte {
	nb := rapid.IntRange(1, 3).Draw(t, "batches")
	d.Batches = nb
	hb := rapid.IntRange(0, nb-1).Draw(t, "hostile-batch")
	mut := ""
	if hostile {
		mut = rapid.SampledFrom([]string{"reclen", "reclen", "keylen", "vallen", "hdrcount", "hdrcount", "hkeylen", "hvallen", "overlong", "cut",
			"reccount", "reccount", "batchlen", "compression", "magic"}).Draw(t, "mutation")
	}
	var out [][]byte
	for bi := 0; bi < nb; bi++ {
		n := rapid.IntRange(1, 4).Draw(t, "nrec")
		hr := rapid.IntRange(0, n-1).Draw(t, "hostile-rec")
		var recs []byte
		for i := 0; i < n; i++ {
			m := ""
			if bi == hb && i == hr {
				switch mut {
				case "reclen", "keylen", "vallen", "hdrcount", "hkeylen", "hvallen", "overlong", "cut":
					m = mut
				}
			}
			recs = append(recs, c34Record(t, m, d)...)
		}
		b := &vfkit.Batch{Magic: 2, LastOffsetDelta: int32(n - 1), FirstTimestamp: 1726000000000, MaxTimestamp: 1726000005000,
			ProducerID: -1, ProducerEpoch: -1, BaseSequence: -1, NumRecords: int32(n), RawRecords: recs}
		if bi == hb {
			switch mut {
			case "reccount":
				v, vc := c34HostileLen(t, "reccount", int64(n), 128)
				if v > 1<<31-1 || v < -(1<<31) {
					v = 1 << 20
				}
				b.NumRecords = int32(v)
				if v >= 1 {
					// keep the header self-consistent (lastOffsetDelta == recordCount-1): the produce
					// path rejects anything else, and a client can set both fields
					b.LastOffsetDelta = int32(v - 1)
				}
				d.Field, d.ValClass, d.Value = "reccount", vc, v
			case "compression":
				b.Attributes = int16(rapid.IntRange(1, 7).Draw(t, "codec"))
				d.Field, d.ValClass = "compression", strconv.Itoa(int(b.Attributes))
			case "magic":
				b.Magic = int8(rapid.SampledFrom([]int{0, 1, 3, -1}).Draw(t, "magic"))
				d.Field, d.ValClass = "magic", strconv.Itoa(int(b.Magic))
			}
		}
		enc := b.Encode()
		if bi == hb && mut == "batchlen" {
			actual := int64(len(enc) - 12)
			v := rapid.OneOf(
				rapid.SampledFrom([]int64{0, 1, 48, actual - 1, actual + 1, actual + 61, 1 << 20}),
				rapid.SampledFrom(c34BatchLenEdges),
			).Draw(t, "batchlen")
			binary.BigEndian.PutUint32(enc[8:], uint32(v))
			d.Field, d.ValClass, d.Value = "batchlen", strconv.FormatInt(v-actual, 10), v
		}
		out = append(out, enc)
	}
	return out
}

// c34Flip damages a valid byte string: byte overwrites, a truncation or an insertion.
func c34Flip(t *rapid.T, data []byte, d *c34Desc) []byte {
	out := append([]byte(nil), data...)
	n := rapid.IntRange(1, 4).Draw(t, "flips")
	for i := 0; i < n && len(out) > 0; i++ {
		pos := rapid.IntRange(0, len(out)-1).Draw(t, "flip-pos")
		out[pos] = rapid.SampledFrom([]byte{0x00, 0x01, 0x7f, 0x80, 0xfe, 0xff}).Draw(t, "flip-val")
	}
	switch rapid.IntRange(0, 5).Draw(t, "resize") {
	case 0:
		if len(out) > 0 {
			out = out[:rapid.IntRange(0, len(out)-1).Draw(t, "truncate-to")]
			d.ValClass = "truncated"
		}
	case 1:
		pos := rapid.IntRange(0, len(out)).Draw(t, "insert-at")
		ins := rapid.SliceOfN(rapid.Byte(), 1, 8).Draw(t, "insert")
		out = append(out[:pos:pos], append(ins, out[pos:]...)...)
		d.ValClass = "inserted"
	}
	d.Field = "flip"
	return out
}

func c34Arbitrary(t *rapid.T, maxLen int) []byte {
	return rapid.SliceOfN(rapid.Byte(), 0, maxLen).Draw(t, "arbitrary")
}

// c34WrapSegment frames a body with a syntactically plausible header and footer without
// going through the broker (used for the arbitrary-body class).
func c34WrapSegment(body []byte) []byte {
	seg := make([]byte, 32, 32+len(body)+16)
	copy(seg, "KAFS")
	seg[5] = 1
	seg = append(seg, body...)
	foot := make([]byte, 16)
	binary.BigEndian.PutUint32(foot, vfkit.CRC32C(body))
	copy(foot[12:], "END!")
	return append(seg, foot...)
}

func c34Hex(b []byte, n int) string {
	if len(b) > n {
		return fmt.Sprintf("%x…(+%d)", b[:n], len(b)-n)
	}
	return fmt.Sprintf("%x", b)
}

// ---- native fuzz corpus file ("go test fuzz v1") ---------------------------------------

// c34ReadCorpus returns the []byte arguments of a Go fuzz corpus file.
func c34ReadCorpus(path string) ([][]byte, error) {
	raw, err := os.ReadFile(path)
	if err != nil {
		return nil, err
	}
	lines := strings.Split(strings.ReplaceAll(string(raw), "\r\n", "\n"), "\n")
	if len(lines) == 0 || !strings.HasPrefix(lines[0], "go test fuzz v1") {
		return nil, fmt.Errorf("%s is not a go fuzz corpus file", path)
	}
	var out [][]byte
	for _, ln := range lines[1:] {
		ln = strings.TrimSpace(ln)
		if ln == "" {
			continue
		}
		if !strings.HasPrefix(ln, "[]byte(") || !strings.HasSuffix(ln, ")") {
			return nil, fmt.Errorf("unsupported corpus line %q", ln)
		}
		s, err := strconv.Unquote(ln[len("[]byte(") : len(ln)-1])
		if err != nil {
			return nil, fmt.Errorf("corpus line %q: %v", ln, err)
		}
		out = append(out, []byte(s))
	}
	return out, nil
}

// ---- compressed batches ------------------------------------------------------------------
//
// Kafka compresses the records section of a batch as a whole (attributes bits 0-2: 1 gzip,
// 2 snappy, 3 lz4 frame, 4 zstd) and the broker stores it unchanged, so the inflated size is
// entirely client-chosen. The streams below are valid for their codec and hand-made (no
// third-party encoder needed): "ordinary" ones carry real records, "bombs" inflate to
// megabytes of zeros from a few hundred bytes .. a few KiB.

func c34Gzip(plain []byte) []byte {
	var b bytes.Buffer
	zw, _ := gzip.NewWriterLevel(&b, gzip.BestCompression)
	_, _ = zw.Write(plain)
	_ = zw.Close()
	return b.Bytes()
}

var (
	c34BombMu    sync.Mutex
	c34BombCache = map[string][]byte{}
)

// c34Bomb returns a valid stream of the codec that inflates to about mib MiB of zeros.
func c34Bomb(codec string, mib int) []byte {
	key := fmt.Sprintf("%s/%d", codec, mib)
	c34BombMu.Lock()
	defer c34BombMu.Unlock()
	if b, ok := c34BombCache[key]; ok {
		return b
	}
	n := mib << 20
	var out []byte
	switch codec {
	case "gzip":
		out = c34Gzip(make([]byte, n))
	case "zstd":
		out = c34ZstdRLE(n)
	case "lz4":
		out = c34Lz4Zeros(n)
	case "snappy", "snappy-xerial":
		out = c34SnappyZeros(1 << 20) // snappy cannot exceed ~21:1, a bigger stream only costs time
		if codec == "snappy-xerial" {
			out = c34Xerial(out)
		}
	}
	c34BombCache[key] = out
	return out
}

// zstd: magic, frame header descriptor 0 (no content size, no checksum), window descriptor
// 0x38 (128 KiB), then blocks with a 3-byte header (bit0 last, bits1-2 type: 0 raw 1 RLE).
func c34ZstdHeader() []byte { return []byte{0x28, 0xB5, 0x2F, 0xFD, 0x00, 0x38} }

func c34ZstdBlockHeader(last bool, typ, size int) []byte {
	v := uint32(size)<<3 | uint32(typ)<<1
	if last {
		v |= 1
	}
	return []byte{byte(v), byte(v >> 8), byte(v >> 16)}
}

func c34ZstdRLE(n int) []byte {
	out := c34ZstdHeader()
	for n > 0 {
		sz := min(n, 128<<10)
		n -= sz
		out = append(out, c34ZstdBlockHeader(n == 0, 1, sz)...)
		out = append(out, 0x00)
	}
	return out
}

func c34ZstdRaw(plain []byte) []byte {
	out := c34ZstdHeader()
	if len(plain) == 0 {
		return append(out, c34ZstdBlockHeader(true, 0, 0)...)
	}
	for len(plain) > 0 {
		sz := min(len(plain), 100<<10)
		out = append(out, c34ZstdBlockHeader(sz == len(plain), 0, sz)...)
		out = append(out, plain[:sz]...)
		plain = plain[sz:]
	}
	return out
}

// snappy raw block: uvarint(uncompressed length), then literal / copy elements.
func c34SnappyLiteral(plain []byte) []byte {
	out := binary.AppendUvarint(nil, uint64(len(plain)))
	for len(plain) > 0 {
		sz := min(len(plain), 60)
		out = append(out, byte(sz-1)<<2)
		out = append(out, plain[:sz]...)
		plain = plain[sz:]
	}
	return out
}

func c34SnappyZeros(n int) []byte {
	out := binary.AppendUvarint(nil, uint64(n))
	out = append(out, 0x00, 0x00) // literal of one zero byte
	n--
	for n > 0 {
		sz := min(n, 64)
		out = append(out, byte(sz-1)<<2|2, 0x01, 0x00) // copy sz bytes from offset 1
		n -= sz
	}
	return out
}

// c34Xerial wraps a raw snappy block in the xerial stream framing used by the Java client.
func c34Xerial(block []byte) []byte {
	out := []byte{0x82, 'S', 'N', 'A', 'P', 'P', 'Y', 0x00, 0, 0, 0, 1, 0, 0, 0, 1}
	out = binary.BigEndian.AppendUint32(out, uint32(len(block)))
	return append(out, block...)
}

// xxh32 (seed 0), needed for the lz4 frame header checksum byte.
func c34XXH32(b []byte) uint32 {
	var p1, p2, p3, p4, p5 uint32 = 2654435761, 2246822519, 3266489917, 668265263, 374761393
	rotl := func(x uint32, r uint) uint32 { return x<<r | x>>(32-r) }
	n := len(b)
	var h uint32
	if n >= 16 {
		v1, v2, v3, v4 := p1+p2, p2, uint32(0), -p1
		for len(b) >= 16 {
			v1 = rotl(v1+binary.LittleEndian.Uint32(b[0:])*p2, 13) * p1
			v2 = rotl(v2+binary.LittleEndian.Uint32(b[4:])*p2, 13) * p1
			v3 = rotl(v3+binary.LittleEndian.Uint32(b[8:])*p2, 13) * p1
			v4 = rotl(v4+binary.LittleEndian.Uint32(b[12:])*p2, 13) * p1
			b = b[16:]
		}
		h = rotl(v1, 1) + rotl(v2, 7) + rotl(v3, 12) + rotl(v4, 18)
	} else {
		h = p5
	}
	h += uint32(n)
	for len(b) >= 4 {
		h = rotl(h+binary.LittleEndian.Uint32(b)*p3, 17) * p4
		b = b[4:]
	}
	for _, c := range b {
		h = rotl(h+uint32(c)*p5, 11) * p1
	}
	h ^= h >> 15
	h *= p2
	h ^= h >> 13
	h *= p3
	h ^= h >> 16
	return h
}

// lz4 frame: magic, FLG 0x60 (version 1, independent blocks), BD 0x70 (4 MiB blocks), header
// checksum, blocks (uint32 LE size, high bit = stored), end mark.
func c34Lz4Header() []byte {
	desc := []byte{0x60, 0x70}
	return append([]byte{0x04, 0x22, 0x4D, 0x18}, desc[0], desc[1], byte(c34XXH32(desc)>>8))
}

func c34Lz4Stored(plain []byte) []byte {
	out := c34Lz4Header()
	for len(plain) > 0 {
		sz := min(len(plain), 1<<20)
		out = binary.LittleEndian.AppendUint32(out, uint32(sz)|0x80000000)
		out = append(out, plain[:sz]...)
		plain = plain[sz:]
	}
	return append(out, 0, 0, 0, 0)
}

func c34Lz4Zeros(n int) []byte {
	out := c34Lz4Header()
	for n > 0 {
		sz := min(n, 4<<20)
		n -= sz
		// one sequence: 1 literal, match (offset 1) of sz-6 bytes; then 5 trailing literals
		match := sz - 6
		blk := []byte{0x1F, 0x00, 0x01, 0x00}
		rest := match - 4 - 15
		for rest >= 255 {
			blk = append(blk, 0xFF)
			rest -= 255
		}
		blk = append(blk, byte(rest))
		blk = append(blk, 0x50, 0, 0, 0, 0, 0)
		out = binary.LittleEndian.AppendUint32(out, uint32(len(blk)))
		out = append(out, blk...)
	}
	return append(out, 0, 0, 0, 0)
}

var c34Codecs = []string{"gzip", "snappy", "snappy-xerial", "lz4", "zstd"}

func c34CodecBits(codec string) int16 {
	switch codec {
	case "gzip":
		return 1
	case "snappy", "snappy-xerial":
		return 2
	case "lz4":
		return 3
	default:
		return 4
	}
}

func c34Compress(codec string, plain []byte) []byte {
	switch codec {
	case "gzip":
		return c34Gzip(plain)
	case "snappy":
		return c34SnappyLiteral(plain)
	case "snappy-xerial":
		return c34Xerial(c34SnappyLiteral(plain))
	case "lz4":
		return c34Lz4Stored(plain)
	default:
		return c34ZstdRaw(plain)
	}
}

// c34CompressedBatches draws 1-2 client batches of which one is compressed: an ordinary
// compressed batch of real records, a high-ratio one (4 or 16 MiB of zeros), a damaged
// stream, or a stream of another codec than the attributes announce.
func c34CompressedBatches(t *rapid.T, d *c34Desc) [][]byte {
	codec := rapid.SampledFrom(c34Codecs).Draw(t, "codec")
	kind := rapid.SampledFrom([]string{"ordinary", "bomb", "bomb", "damaged", "codec-mismatch", "bomb-damaged-tail"}).Draw(t, "compressed-kind")
	n := rapid.IntRange(1, 4).Draw(t, "nrec")
	var plain []byte
	for i := 0; i < n; i++ {
		var dd c34Desc
		plain = append(plain, c34Record(t, "", &dd)...)
	}
	var stream []byte
	switch kind {
	case "ordinary":
		stream = c34Compress(codec, plain)
	case "bomb":
		stream = c34Bomb(codec, rapid.SampledFrom([]int{4, 16}).Draw(t, "bomb-mib"))
	case "bomb-damaged-tail":
		b := c34Bomb(codec, 4)
		stream = append([]byte(nil), b[:len(b)-rapid.IntRange(1, min(8, len(b)-1)).Draw(t, "cut-tail")]...)
	case "damaged":
		var dd c34Desc
		stream = c34Flip(t, c34Compress(codec, plain), &dd)
	default:
		other := rapid.SampledFrom(c34Codecs).Draw(t, "actual-codec")
		stream = c34Compress(other, plain)
	}
	b := &vfkit.Batch{Magic: 2, Attributes: c34CodecBits(codec), LastOffsetDelta: int32(n - 1), FirstTimestamp: 1726000000000, MaxTimestamp: 1726000005000,
		ProducerID: -1, ProducerEpoch: -1, BaseSequence: -1, NumRecords: int32(n), RawRecords: stream}
	d.Field, d.ValClass, d.Value, d.Batches = "compressed-"+codec, kind, int64(len(stream)), 1
	out := [][]byte{b.Encode()}
	if rapid.Bool().Draw(t, "plain-batch-too") {
		var dd c34Desc
		pb := c34Batches(t, false, &dd)
		if rapid.Bool().Draw(t, "plain-first") {
			out = append(pb, out...)
		} else {
			out = append(out, pb...)
		}
		d.Batches = len(out)
	}
	return out
}
