//go:build verif

package decoder

const (
	c07Mod = "sql"
	// int32 readVarint is also used for the (varlong) timestamp delta: values outside
	// [-2^30, 2^30-1] are mis-decoded or rejected.
	c07DeltaFinding = "C07-sql-timestamp-delta-int32"
)
