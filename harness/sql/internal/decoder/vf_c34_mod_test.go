//go:build verif

package decoder

import (
	"bytes"
	"encoding/binary"
)

const c34Mod = "sql"

// c34ReadVarint reads a varint exactly as this module's decoder does (int32 arithmetic;
// the walker is only the exclusion predicate / non-triviality classifier, never the oracle).
func c34ReadVarint(r *bytes.Reader) (int64, error) {
	v, err := readVarint(r)
	return int64(v), err
}

// c34IndexSite mirrors this module's parseIndex up to its allocation (entry count read as
// uint32, no version check).
func c34IndexSite(data []byte) (bool, int64) {
	if len(data) < 16 || string(data[:4]) != indexMagic {
		return false, 0
	}
	count := int64(binary.BigEndian.Uint32(data[6:10]))
	if count*12 > int64(len(data)-16) {
		return true, count
	}
	return false, count
}
