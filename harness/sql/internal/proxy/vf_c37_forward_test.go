//go:build verif

package proxy

import (
	"context"
	"fmt"
	"io"
	"log"
	"net"
	"sort"
	"strings"
	"sync"
	"testing"
	"time"

	"github.com/KafScale/platform/pkg/storage"
	"github.com/jackc/pgproto3/v2"
	"pgregory.net/rapid"
	"verif.local/vfkit"

	"github.com/kafscale/platform/addons/processors/sql-processor/internal/config"
	"github.com/kafscale/platform/addons/processors/sql-processor/internal/server"
	kafsql "github.com/kafscale/platform/addons/processors/sql-processor/internal/sql"
)

// C37: every query the SQL proxy forwards reads only topics its ACL allows, where the topics
// are those the upstream server would read for exactly the forwarded text; the forwarded
// text is the client's text; denied queries never reach the upstream.
//
// Under test: proxy.Server.handleConn (pg wire over net.Pipe) with a recording upstream.
// Ground truth for "topics the upstream would read": the forwarded text is executed by the
// REAL upstream (server.New(...).Run over loopback TCP) on top of an in-process S3 holding
// one segment per topic; a topic was read iff one of its segment objects was fetched in
// full. For statements that touch only metadata (describe / show partitions / explain) the
// topics named by the upstream's own parser for the full text are used in addition.

const (
	c37FindingID = "C37-authz-on-truncated-text"
	c37Bucket    = "vfbucket"
	c37NS        = "c37"
)

// Kafka topic names may contain dots: schema-qualified look-alikes of plain names are topics of their own
var c37Topics = []string{"orders", "payments", "secret", "audit_log", "ev", "pii.orders", "audit.log", "a.b.c", "public.orders",
	"tenant-1", "tenant-2", "events.2023", "events.2024"} // siblings that differ only in a numeric segment

var c37Sibling = map[string]string{"tenant-1": "tenant-2", "tenant-2": "tenant-1", "events.2023": "events.2024", "events.2024": "events.2023"}

// ---------------------------------------------------------------- reference ACL

// patterns are restricted to: exact name, "*", "prefix*"
func c37RefMatch(pattern, topic string) bool {
	if pattern == "*" {
		return true
	}
	if strings.HasSuffix(pattern, "*") {
		return strings.HasPrefix(topic, strings.TrimSuffix(pattern, "*"))
	}
	return pattern == topic
}

func c37RefAllows(allow, deny []string, topic string) bool {
	for _, p := range deny {
		if c37RefMatch(p, topic) {
			return false
		}
	}
	if len(allow) == 0 {
		return true
	}
	for _, p := range allow {
		if c37RefMatch(p, topic) {
			return true
		}
	}
	return false
}

// ---------------------------------------------------------------- real upstream

type c37Upstream struct {
	s3     *c37S3
	addr   string
	cancel context.CancelFunc
	done   chan error
	conn   net.Conn
	fe     *pgproto3.Frontend
	memo   map[string]c37Truth
}

type c37Truth struct {
	Read   []string // topics whose segment objects were fetched in full
	Err    string   // upstream answered with an error
	Rows   int
	Listed bool // the answer came from the catalog / show topics path
}

func c37PutTopic(s3 *c37S3, topic string, now int64) error {
	recs := []vfkit.Record{{TsDelta: 0, Key: []byte("k1"), Value: []byte(`{"id":1}`)}, {TsDelta: 1000, Key: []byte("k2"), Value: []byte(`{"id":2}`)}}
	raw := vfkit.NewBatch(0, now-120000, recs).Encode()
	rb, err := storage.NewRecordBatchFromBytes(raw)
	if err != nil {
		return err
	}
	art, err := storage.BuildSegment(storage.SegmentWriterConfig{IndexIntervalMessages: 1}, []storage.RecordBatch{rb}, time.UnixMilli(now))
	if err != nil {
		return err
	}
	s3.Put(c37Bucket, fmt.Sprintf("%s/%s/0/segment-%020d.kfs", c37NS, topic, 0), art.SegmentBytes)
	s3.Put(c37Bucket, fmt.Sprintf("%s/%s/0/segment-%020d.index", c37NS, topic, 0), art.IndexBytes)
	return nil
}

func c37Dial(addr, token string) (net.Conn, *pgproto3.Frontend, error) {
	conn, err := net.DialTimeout("tcp", addr, 2*time.Second)
	if err != nil {
		return nil, nil, err
	}
	_ = conn.SetDeadline(time.Now().Add(30 * time.Second))
	buf, err := (&pgproto3.StartupMessage{ProtocolVersion: pgproto3.ProtocolVersionNumber, Parameters: map[string]string{"user": "vf"}}).Encode(nil)
	if err != nil {
		conn.Close()
		return nil, nil, err
	}
	if _, err := conn.Write(buf); err != nil {
		conn.Close()
		return nil, nil, err
	}
	fe := pgproto3.NewFrontend(pgproto3.NewChunkReader(conn), conn)
	seen := false
	for {
		msg, err := fe.Receive()
		if err != nil {
			conn.Close()
			return nil, nil, err
		}
		switch m := msg.(type) {
		case *pgproto3.ParameterStatus:
			if m.Name == "server_version" && m.Value == token {
				seen = true
			}
		case *pgproto3.ReadyForQuery:
			if !seen {
				conn.Close()
				return nil, nil, fmt.Errorf("somebody else answers on %s", addr)
			}
			return conn, fe, nil
		}
	}
}

// c37StartUpstream runs the real sql-processor server on a loopback port (public API only:
// New + Run). The port is probed first; identity is verified through a unique server_version.
func c37StartUpstream(s3 *c37S3) (*c37Upstream, error) {
	token := fmt.Sprintf("vf-c37-%d", time.Now().UnixNano())
	var lastErr error
	for attempt := 0; attempt < 25; attempt++ {
		l, err := net.Listen("tcp", "127.0.0.1:0")
		if err != nil {
			lastErr = err
			continue
		}
		addr := l.Addr().String()
		l.Close()
		cfg := config.Config{
			S3:     config.S3Config{Bucket: c37Bucket, Namespace: c37NS, Endpoint: s3.URL(), Region: "us-east-1", PathStyle: true},
			Server: config.ServerConfig{Listen: addr, ServerVersion: token, ClientEncoding: "UTF8"},
			Query:  config.QueryConfig{DefaultLimit: 1000, MaxUnbounded: 100000},
		}
		for _, tp := range c37Topics {
			cfg.Metadata.Topics = append(cfg.Metadata.Topics, config.TopicConfig{Name: tp, Partitions: []int32{0}})
		}
		srv := server.New(cfg, log.New(io.Discard, "", 0))
		ctx, cancel := context.WithCancel(context.Background())
		done := make(chan error, 1)
		go func() { done <- srv.Run(ctx) }()
		var conn net.Conn
		var fe *pgproto3.Frontend
		exited := false
		for try := 0; try < 100 && conn == nil && !exited; try++ {
			select {
			case err := <-done:
				lastErr = fmt.Errorf("Run: %v", err)
				exited = true
				continue
			default:
			}
			c, f, err := c37Dial(addr, token)
			if err == nil {
				conn, fe = c, f
				break
			}
			lastErr = err
			time.Sleep(50 * time.Millisecond)
		}
		if conn != nil {
			return &c37Upstream{s3: s3, addr: addr, cancel: cancel, done: done, conn: conn, fe: fe, memo: map[string]c37Truth{}}, nil
		}
		cancel()
		if !exited {
			<-done
		}
	}
	return nil, fmt.Errorf("could not start the upstream server: %v", lastErr)
}

func (u *c37Upstream) Close() {
	if u.conn != nil {
		u.conn.Close()
	}
	u.cancel()
	<-u.done
}

// Truth executes text on the real upstream and reports which topics' segments it fetched.
func (u *c37Upstream) Truth(text string) (c37Truth, error) {
	if tr, ok := u.memo[text]; ok {
		return tr, nil
	}
	var tr c37Truth
	mark := u.s3.Mark()
	_ = u.conn.SetDeadline(time.Now().Add(120 * time.Second))
	if err := u.fe.Send(&pgproto3.Query{String: text}); err != nil {
		return tr, err
	}
	for {
		msg, err := u.fe.Receive()
		if err != nil {
			return tr, err
		}
		done := false
		switch m := msg.(type) {
		case *pgproto3.DataRow:
			tr.Rows++
		case *pgproto3.ErrorResponse:
			tr.Err = m.Message
			if tr.Err == "" {
				tr.Err = "(error)"
			}
		case *pgproto3.ReadyForQuery:
			done = true
		}
		if done {
			break
		}
	}
	set := map[string]bool{}
	for _, op := range u.s3.Since(mark) {
		if op.Method == "GET" && !op.List && !op.Ranged && strings.HasSuffix(op.Key, ".kfs") {
			parts := strings.Split(op.Key, "/")
			if len(parts) >= 4 && parts[0] == c37NS {
				set[parts[1]] = true
			}
		}
	}
	for tp := range set {
		tr.Read = append(tr.Read, tp)
	}
	sort.Strings(tr.Read)
	u.memo[text] = tr
	return tr, nil
}

// ---------------------------------------------------------------- recording upstream (what the proxy dials)

type c37Recorder struct {
	mu    sync.Mutex
	texts []string
	wg    sync.WaitGroup
}

func (r *c37Recorder) dial(ctx context.Context, addr string) (net.Conn, error) {
	sc, cc := net.Pipe()
	r.wg.Add(1)
	go func() {
		defer r.wg.Done()
		defer sc.Close()
		be := pgproto3.NewBackend(pgproto3.NewChunkReader(sc), sc)
		if _, err := be.ReceiveStartupMessage(); err != nil {
			return
		}
		_ = be.Send(&pgproto3.AuthenticationOk{})
		_ = be.Send(&pgproto3.ParameterStatus{Name: "server_version", Value: "15.0"})
		_ = be.Send(&pgproto3.ReadyForQuery{TxStatus: 'I'})
		for {
			msg, err := be.Receive()
			if err != nil {
				return
			}
			switch m := msg.(type) {
			case *pgproto3.Query:
				r.mu.Lock()
				r.texts = append(r.texts, m.String)
				r.mu.Unlock()
				_ = be.Send(&pgproto3.CommandComplete{CommandTag: []byte("SELECT 0")})
				_ = be.Send(&pgproto3.ReadyForQuery{TxStatus: 'I'})
			case *pgproto3.Terminate:
				return
			default:
				r.mu.Lock()
				r.texts = append(r.texts, fmt.Sprintf("<%T>", msg))
				r.mu.Unlock()
				_ = be.Send(&pgproto3.ErrorResponse{Severity: "ERROR", Message: "recorder: unsupported"})
				_ = be.Send(&pgproto3.ReadyForQuery{TxStatus: 'I'})
			}
		}
	}()
	return cc, nil
}

func (r *c37Recorder) take() []string {
	r.mu.Lock()
	defer r.mu.Unlock()
	out := r.texts
	r.texts = nil
	return out
}

// ---------------------------------------------------------------- query generator

func c37Kw(t *rapid.T, s string) string {
	switch rapid.IntRange(0, 3).Draw(t, "kwcase") {
	case 0:
		return strings.ToUpper(s)
	case 1:
		return strings.ToUpper(s[:1]) + s[1:]
	default:
		return s
	}
}

type c37Gen struct {
	Text   string
	Kind   string
	Topics []string // topics the generator meant to name (statistics only)
}

// c37Pad returns padding that moves the text following `before` to byte offset target.
func c37Pad(t *rapid.T, before string, target int, style int) string {
	n := target - len(before)
	if n <= 0 {
		return ""
	}
	switch style {
	case 0:
		return strings.Repeat(" ", n)
	case 1:
		return strings.Repeat(" \n\t ", n/4+1)[:n]
	default:
		return strings.Repeat(" ", n)
	}
}

func c37GenQuery(t *rapid.T) c37Gen {
	topic := func(label string) string {
		return rapid.SampledFrom([]string{"orders", "payments", "secret", "audit_log", "ev", "orders", "secret", "nosuch", "Orders", "SECRET",
			"pii.orders", "audit.log", "a.b.c", "public.orders", "pii.orders", "PII.Orders", ".orders", "orders.", "x.secret", "secret.x", "public.secret",
			"tenant-1", "tenant-2", "events.2023", "events.2024", "tenant-1", "tenant-2", "tenant-3"}).Draw(t, label)
	}
	// where (relative to byte 512 of the trimmed text) the interesting token starts
	target := 0
	switch rapid.IntRange(0, 5).Draw(t, "where512") {
	case 0: // short query
		target = 0
	case 1, 2: // across the cut
		target = 512 + rapid.IntRange(-24, 8).Draw(t, "delta")
	case 3: // just after the cut
		target = 512 + rapid.IntRange(0, 40).Draw(t, "after")
	case 4: // far after
		target = 512 + rapid.IntRange(40, 1500).Draw(t, "far")
	default: // long, but everything interesting before the cut; padding at the very end
		target = -1
	}
	style := rapid.IntRange(0, 2).Draw(t, "padstyle")
	longList := func(n int) string { // a long but valid select list
		cols := []string{"_key", "_value", "_offset", "_partition", "_ts", "_topic", "_headers", "_segment"}
		var sb strings.Builder
		for i := 0; sb.Len() < n; i++ {
			if i > 0 {
				sb.WriteString(", ")
			}
			sb.WriteString(cols[i%len(cols)])
		}
		return sb.String()
	}
	lead := rapid.SampledFrom([]string{"", "", " ", "\n  "}).Draw(t, "lead")
	trail := rapid.SampledFrom([]string{"", ";", " ;", "\n"}).Draw(t, "trail")
	g := c37Gen{}
	kind := rapid.SampledFrom([]string{"join", "join", "join", "select", "select", "explain-join", "explain", "describe", "show-partitions", "show-topics", "set", "catalog", "join-late-from"}).Draw(t, "kind")
	g.Kind = kind
	bounds := " " + c37Kw(t, "within") + " 10m " + c37Kw(t, "last") + " 1h"
	sel := c37Kw(t, "select")
	switch kind {
	case "select", "explain":
		tp := topic("t1")
		g.Topics = []string{tp}
		head := sel + " "
		if kind == "explain" {
			head = c37Kw(t, "explain") + " " + head
		}
		cols := "*"
		if n := rapid.SampledFrom([]int{0, 0, 40, 100, 250}).Draw(t, "listlen"); n > 0 {
			cols = longList(n)
		}
		if style == 2 && target > 0 {
			cols = longList(target - len(head) - 8)
		}
		pre := head + cols + " "
		pad := ""
		if target > 0 {
			pad = c37Pad(t, pre, target, style)
		}
		g.Text = pre + pad + c37Kw(t, "from") + " " + tp + " " + c37Kw(t, "last") + " 1h"
		if target < 0 {
			g.Text += strings.Repeat(" ", 520) + c37Kw(t, "limit") + " 5"
		}
	case "join", "explain-join", "join-late-from":
		t1, t2 := topic("t1"), topic("t2")
		g.Topics = []string{t1, t2}
		head := sel + " "
		if kind == "explain-join" {
			head = c37Kw(t, "explain") + " " + head
		}
		cols := rapid.SampledFrom([]string{"*", "a._key, b._value", "a._key"}).Draw(t, "cols")
		if n := rapid.SampledFrom([]int{0, 0, 40, 100, 250}).Draw(t, "listlen"); n > 0 {
			cols = longList(n)
		}
		jk := c37Kw(t, "join")
		if rapid.IntRange(0, 3).Draw(t, "leftjoin") == 0 {
			jk = c37Kw(t, "left") + " " + jk
		}
		on := ""
		if rapid.Bool().Draw(t, "on") {
			on = " " + c37Kw(t, "on") + " a._key = b._key"
		}
		if kind == "join-late-from" {
			// the FROM itself sits at the target
			if style == 2 && target > 0 {
				cols = longList(target - len(head) - 8)
			}
			pre := head + cols + " "
			pad := ""
			if target > 0 {
				pad = c37Pad(t, pre, target, style)
			}
			g.Text = pre + pad + c37Kw(t, "from") + " " + t1 + " a " + jk + " " + t2 + " b" + on + bounds
		} else {
			// target addresses the JOIN keyword or the joined topic's name
			pre := head + cols + " " + c37Kw(t, "from") + " " + t1 + " a "
			padAt := rapid.IntRange(0, 2).Draw(t, "padat")
			pad := ""
			switch {
			case target <= 0:
			case padAt == 0: // pad before JOIN
				pad = c37Pad(t, pre, target, style)
				g.Text = pre + pad + jk + " " + t2 + " b" + on + bounds
			case padAt == 1: // pad between JOIN and the topic
				pre2 := pre + jk + " "
				pad = c37Pad(t, pre2, target, style)
				g.Text = pre2 + pad + t2 + " b" + on + bounds
			default: // long select list, join right behind it
				cols = longList(target - len(head) - len(t1) - 12)
				g.Text = head + cols + " " + c37Kw(t, "from") + " " + t1 + " a " + jk + " " + t2 + " b" + on + bounds
			}
			if g.Text == "" {
				g.Text = pre + jk + " " + t2 + " b" + on + bounds
			}
		}
		if target < 0 {
			g.Text += strings.Repeat(" ", 520) + c37Kw(t, "limit") + " 5"
		}
	case "describe":
		tp := topic("t1")
		g.Topics = []string{tp}
		pre := c37Kw(t, "describe") + " "
		pad := ""
		if target > 0 {
			pad = c37Pad(t, pre, target, style)
		}
		g.Text = pre + pad + tp
	case "show-partitions":
		tp := topic("t1")
		g.Topics = []string{tp}
		pre := c37Kw(t, "show") + " " + c37Kw(t, "partitions") + " " + c37Kw(t, "from") + " "
		pad := ""
		if target > 0 {
			pad = c37Pad(t, pre, target, style)
		}
		g.Text = pre + pad + tp
	case "show-topics":
		g.Text = c37Kw(t, "show") + " " + c37Kw(t, "topics")
	case "set":
		g.Text = rapid.SampledFrom([]string{"set search_path = public", "SET x = 1", "reset all", "set\tx = 1", "set x = 1; select * from secret last 1h", "set x = 'pg_catalog.pg_tables'", "SET search_path = information_schema.tables"}).Draw(t, "set")
	case "catalog":
		g.Text = rapid.SampledFrom([]string{"select * from information_schema.tables", "select * from pg_catalog.pg_tables",
			"select * from orders information_schema.tables last 1h", "select * from information_schema.columns"}).Draw(t, "catalog")
	}
	// statement terminators in the middle and at the end
	switch rapid.IntRange(0, 9).Draw(t, "semi") {
	case 0, 1: // ';' at a blank inside the statement
		var blanks []int
		for i := 0; i < len(g.Text); i++ {
			if g.Text[i] == ' ' {
				blanks = append(blanks, i)
			}
		}
		if len(blanks) > 0 {
			at := rapid.SampledFrom(blanks).Draw(t, "semiAt")
			g.Text = g.Text[:at] + rapid.SampledFrom([]string{" ; ", "; ", " ;", ";", " ;\n"}).Draw(t, "semiForm") + g.Text[at+1:]
			g.Kind += "+semicolon-inside"
		}
	case 2:
		trail = rapid.SampledFrom([]string{";\n", "; ", ";;", " ; ;", ";\t\n"}).Draw(t, "semiTrail")
		g.Kind += "+semicolon-trail"
	}
	g.Text = lead + g.Text + trail
	return g
}

// c37CommentPair: one token sequence containing a "--" token, rendered twice with the line break at
// different token boundaries behind the "--".
func c37CommentPair(t *rapid.T) (string, string) {
	tp := func(label string) string {
		return rapid.SampledFrom([]string{"orders", "payments", "secret", "audit_log", "ev", "pii.orders", "audit.log", "secret", "orders"}).Draw(t, label)
	}
	toks := []string{c37Kw(t, "select"), "*", c37Kw(t, "from"), tp("c1"), "a"}
	joinAt := len(toks)
	if rapid.IntRange(0, 3).Draw(t, "cleft") == 0 {
		toks = append(toks, c37Kw(t, "left"))
	}
	toks = append(toks, c37Kw(t, "join"), tp("c2"), "b")
	if rapid.Bool().Draw(t, "con") {
		toks = append(toks, c37Kw(t, "on"), "a._key", "=", "b._key")
	}
	afterJoin := len(toks)
	toks = append(toks, c37Kw(t, "within"), "10m", c37Kw(t, "last"), "1h")
	ci := joinAt
	if rapid.IntRange(0, 3).Draw(t, "cpos") == 0 {
		ci = rapid.IntRange(3, len(toks)).Draw(t, "cposr")
	}
	pick := func(label string) int {
		switch rapid.IntRange(0, 3).Draw(t, label) {
		case 0:
			return ci
		case 1:
			if afterJoin >= ci {
				return afterJoin
			}
			return ci
		case 2:
			return len(toks)
		default:
			return rapid.IntRange(ci, len(toks)).Draw(t, label+"r")
		}
	}
	sp := rapid.SampledFrom([]string{" ", " ", "  ", "\t"}).Draw(t, "csp")
	marker := rapid.SampledFrom([]string{"--", "--", "--", ";", ";", "/*", "#", "-- ;"}).Draw(t, "marker")
	render := func(n int) string {
		s := strings.Join(toks[:ci], sp) + sp + marker
		if n > ci {
			s += sp + strings.Join(toks[ci:n], sp)
		}
		if n < len(toks) {
			s += "\n" + strings.Join(toks[n:], sp)
		}
		return s
	}
	return render(pick("cn1")), render(pick("cn2"))
}

// topics the upstream's own parser names for a text (metadata statements included)
func c37ParsedTopics(text string) ([]string, string, error) {
	p, err := kafsql.Parse(text)
	if err != nil {
		return nil, "", err
	}
	for p.Type == kafsql.QueryExplain && p.Explain != nil {
		p = *p.Explain
	}
	switch p.Type {
	case kafsql.QuerySelect:
		out := []string{p.Topic}
		if p.JoinTopic != "" {
			out = append(out, p.JoinTopic)
		}
		return out, "select", nil
	case kafsql.QueryDescribe, kafsql.QueryShowPartitions:
		return []string{p.Topic}, "meta", nil
	case kafsql.QueryShowTopics:
		return nil, "show-topics", nil
	}
	return nil, "other", nil
}

func c37SameSet(a, b []string) bool {
	m := map[string]int{}
	for _, x := range a {
		m[x] |= 1
	}
	for _, x := range b {
		m[x] |= 2
	}
	for _, v := range m {
		if v != 3 {
			return false
		}
	}
	return true
}

// c37InFindingClass: the text is longer than 512 bytes and the proxy's truncated copy
// (first 512 bytes + "...") parses to a different topic set than the full text.
func c37InFindingClass(text string) bool {
	trimmed := strings.TrimSpace(text)
	if len(trimmed) <= 512 {
		return false
	}
	cut := trimmed[:512] + "..."
	tt, _, errT := c37ParsedTopics(cut)
	tf, _, errF := c37ParsedTopics(trimmed)
	if errT != nil {
		return false // the proxy denies what it cannot parse
	}
	if errF != nil {
		return true
	}
	return !c37SameSet(tt, tf)
}

// ---------------------------------------------------------------- one proxy session

type c37Outcome struct {
	Denied    bool
	DenyMsg   string
	Forwarded []string
}

// pipe[i] == true: query i+1 is written to the proxy together with query i, before any answer is read
func c37Session(px *Server, rec *c37Recorder, queries []string, pipe []bool) ([]c37Outcome, error) {
	sc, cc := net.Pipe()
	errCh := make(chan error, 1)
	go func() { errCh <- px.handleConn(context.Background(), sc) }()
	defer func() {
		cc.Close()
		<-errCh
		rec.wg.Wait()
	}()
	_ = cc.SetDeadline(time.Now().Add(120 * time.Second))
	buf, err := (&pgproto3.StartupMessage{ProtocolVersion: pgproto3.ProtocolVersionNumber, Parameters: map[string]string{"user": "vf"}}).Encode(nil)
	if err != nil {
		return nil, err
	}
	if _, err := cc.Write(buf); err != nil {
		return nil, err
	}
	fe := pgproto3.NewFrontend(pgproto3.NewChunkReader(cc), cc)
	ready := func() (bool, string, error) {
		denied, msg := false, ""
		for {
			m, err := fe.Receive()
			if err != nil {
				return false, "", err
			}
			switch mm := m.(type) {
			case *pgproto3.ErrorResponse:
				denied, msg = true, mm.Message
			case *pgproto3.ReadyForQuery:
				return denied, msg, nil
			}
		}
	}
	if _, _, err := ready(); err != nil {
		return nil, err
	}
	rec.take()
	var out []c37Outcome
	for i := 0; i < len(queries); {
		j := i
		for j < len(queries)-1 && j < len(pipe) && pipe[j] {
			j++
		}
		group := queries[i : j+1]
		var wire []byte
		for _, q := range group {
			var err error
			if wire, err = (&pgproto3.Query{String: q}).Encode(wire); err != nil {
				return nil, err
			}
		}
		// net.Pipe is unbuffered: write on the side while the answers are read
		werr := make(chan error, 1)
		go func() { _, err := cc.Write(wire); werr <- err }()
		outs := make([]c37Outcome, len(group))
		for k := range group {
			denied, msg, err := ready()
			if err != nil {
				cc.Close()
				<-werr
				return nil, err
			}
			outs[k] = c37Outcome{Denied: denied, DenyMsg: msg}
		}
		if err := <-werr; err != nil {
			return nil, err
		}
		// the upstream answers in order: its k-th received text belongs to the k-th answered query
		fw := rec.take()
		last := -1
		for k := range outs {
			if !outs[k].Denied {
				last = k
				if len(fw) > 0 {
					outs[k].Forwarded = []string{fw[0]}
					fw = fw[1:]
				}
			}
		}
		if len(fw) > 0 { // more texts than answered queries: attach so that the judge reports it
			if last < 0 {
				last = len(outs) - 1
			}
			outs[last].Forwarded = append(outs[last].Forwarded, fw...)
		}
		out = append(out, outs...)
		i = j + 1
	}
	_ = fe.Send(&pgproto3.Terminate{})
	return out, nil
}

// c37Judge applies the oracle to one (query, outcome) pair; "" = fine.
func c37Judge(up *c37Upstream, allow, deny []string, q string, o c37Outcome, st *vfkit.Stats) (string, error) {
	if o.Denied {
		st.Class("denied")
		if len(o.Forwarded) != 0 {
			return fmt.Sprintf("denied query (%q) still reached the upstream: %q", o.DenyMsg, o.Forwarded), nil
		}
		return "", nil
	}
	st.Class("forwarded")
	if len(o.Forwarded) != 1 {
		return fmt.Sprintf("client got an answer but the upstream received %d messages: %q", len(o.Forwarded), o.Forwarded), nil
	}
	T := o.Forwarded[0]
	if T != q {
		return fmt.Sprintf("forwarded text differs from the client's text:\n client:   %q\n upstream: %q", q, T), nil
	}
	truth, err := up.Truth(T)
	if err != nil {
		return "", err
	}
	if truth.Err != "" {
		st.Class("upstream-rejects-forwarded-text")
	}
	for _, tp := range truth.Read {
		if !c37RefAllows(allow, deny, tp) {
			return fmt.Sprintf("forwarded query makes the upstream READ topic %q, which the ACL (allow=%v deny=%v) does not allow\n forwarded (%d bytes): %q\n upstream fetched segments of %v, returned %d rows",
				tp, allow, deny, len(strings.TrimSpace(T)), T, truth.Read, truth.Rows), nil
		}
	}
	named, kind, perr := c37ParsedTopics(T)
	lower := strings.ToLower(T)
	isCatalog := strings.Contains(lower, "pg_catalog") || strings.Contains(lower, "information_schema")
	isSet := strings.HasPrefix(strings.ToLower(strings.TrimSpace(T)), "set ") || strings.HasPrefix(strings.ToLower(strings.TrimSpace(T)), "reset ")
	switch {
	case isCatalog:
		st.Class("stat:catalog-listing-forwarded")
		if isSet && truth.Rows > 0 {
			// the upstream matches pg_catalog/information_schema before SET handling: topic NAMES are listed
			st.Class("stat:set-prefixed-text-answered-by-catalog-listing")
			if len(deny) > 0 {
				st.Class("stat:set-prefixed-catalog-listing-while-show-topics-is-denied")
			}
		}
		if len(deny) > 0 {
			st.Class("stat:catalog-listing-forwarded-while-show-topics-is-denied")
		}
	case isSet:
		st.Class("forwarded-set")
	case perr == nil:
		st.Class("forwarded-" + kind)
		// metadata statements and EXPLAIN never fetch segments: use the topics the upstream's
		// parser names for exactly this text
		for _, tp := range named {
			if !c37RefAllows(allow, deny, tp) {
				return fmt.Sprintf("forwarded query names topic %q for the upstream (%s statement), which the ACL (allow=%v deny=%v) does not allow\n forwarded (%d bytes): %q",
					tp, kind, allow, deny, len(strings.TrimSpace(T)), T), nil
			}
		}
	default:
		st.Class("forwarded-unparsable(upstream rejects)")
	}
	return "", nil
}

var (
	c37AllowPool = []string{"orders", "pay*", "ev", "audit*", "*", "o*", "payments", "orders", "pii.*", "pii.orders", "a.*", "audit.log", "public.*", "tenant-1", "events.2023", "tenant-*", "", " "}
	c37DenyPool  = []string{"secret", "audit*", "pay*", "payments", "s*", "orders", "pii.*", "audit.log", "a.b.c", "pii.orders", "public.secret", "tenant-2", "events.2024", "tenant-2", "", "\t"}
)

func TestVF_C37_Forward(t *testing.T) {
	st := vfkit.NewStats("C37", "forward")
	defer st.Flush()
	c37AWSEnv()
	s3 := c37NewS3()
	defer s3.Close()
	now := time.Now().UnixMilli()
	for _, tp := range c37Topics {
		if err := c37PutTopic(s3, tp, now); err != nil {
			t.Fatalf("VF-INCONCLUSIVE: cannot build segment: %v", err)
		}
	}
	up, err := c37StartUpstream(s3)
	if err != nil {
		t.Fatalf("VF-INCONCLUSIVE: %v", err)
	}
	defer up.Close()
	// sanity of the ground-truth channel (harness self-check, not the property)
	if tr, err := up.Truth("select * from orders a join secret b within 10m last 1h"); err != nil || strings.Join(tr.Read, ",") != "orders,secret" {
		t.Fatalf("VF-INCONCLUSIVE: ground-truth upstream does not report reads as expected: %+v %v", tr, err)
	}
	known := vfkit.Known(c37FindingID)
	quiet := log.New(io.Discard, "", 0)

	rapid.Check(t, func(t *rapid.T) {
		st.Eval()
		allow := rapid.SliceOfNDistinct(rapid.SampledFrom(c37AllowPool), 0, 2, rapid.ID[string]).Draw(t, "allow")
		deny := rapid.SliceOfNDistinct(rapid.SampledFrom(c37DenyPool), 0, 2, rapid.ID[string]).Draw(t, "deny")
		if rapid.IntRange(0, 9).Draw(t, "blankACL") == 0 {
			// lists that are non-empty but hold only blank entries (templated config that rendered empty):
			// a blank pattern names no topic, so a non-empty allow list of blanks allows nothing
			allow = rapid.SampledFrom([][]string{{""}, {" "}, {"", "\t"}, {}}).Draw(t, "blankAllow")
			deny = rapid.SampledFrom([][]string{{}, {}, {""}, {" ", ""}}).Draw(t, "blankDeny")
			st.Class("acl:blank-only-lists")
		}
		siblingACL := rapid.IntRange(0, 7).Draw(t, "siblingACL") == 0
		if siblingACL {
			// two topics that differ only in a numeric segment get different verdicts
			one := rapid.SampledFrom([]string{"tenant-1", "tenant-2", "events.2023", "events.2024"}).Draw(t, "sibOne")
			if rapid.Bool().Draw(t, "sibDeny") {
				allow, deny = nil, []string{one}
			} else {
				allow, deny = []string{one, "orders"}, nil
			}
			st.Class("acl:numeric-siblings")
		}
		if len(allow) == 0 && len(deny) == 0 && rapid.IntRange(0, 3).Draw(t, "keepOpen") != 0 {
			deny = []string{"secret"}
		}
		pcfg := config.ProxyConfig{Listen: ":0", Upstreams: []string{"recorder"}, ACL: config.ProxyACLConfig{Allow: allow, Deny: deny}}
		if rapid.Bool().Draw(t, "cache") {
			pcfg.CacheTTLSeconds, pcfg.CacheMaxEntries = 3600, rapid.SampledFrom([]int{1000, 1, 2}).Draw(t, "cacheMax")
		}
		px := New(pcfg, quiet)
		rec := &c37Recorder{}
		px.dialer = rec.dial

		n := rapid.IntRange(1, 4).Draw(t, "nqueries")
		var queries []string
		var kinds []string
		for i := 0; i < n; i++ {
			var g c37Gen
			mode := rapid.SampledFrom([]int{0, 1, 2, 2, 3, 4, 5, 2, 6, 6, 7}).Draw(t, "qmode")
			switch {
			case mode == 7 || (siblingACL && i == 0): // one statement shape on two sibling topics (tenant-1 / tenant-2), back to back
				pair := rapid.SampledFrom([][2]string{{"tenant-1", "tenant-2"}, {"tenant-2", "tenant-1"}, {"events.2023", "events.2024"}, {"events.2024", "events.2023"}}).Draw(t, "sibPair")
				shape := rapid.SampledFrom([]string{"select * from %s last 1h", "SELECT _key FROM %s LAST 1h LIMIT 10", "select * from orders a join %s b within 10m last 1h",
					"select * from %s a left join orders b on a._key = b._key within 10m last 1h limit 5", "describe %s", "show partitions from %s", "explain select * from %s last 24h",
					"select * from %s where _partition = 0 and _offset >= 1 limit 3 scan full"}).Draw(t, "sibShape")
				for _, tp := range pair {
					queries = append(queries, strings.Replace(shape, "%s", tp, 1))
					kinds = append(kinds, "sibling-pair")
				}
				continue
			case mode == 6: // same tokens, "--" line comment, line break at two different places (decision cache collapses white space)
				a, b := c37CommentPair(t)
				for _, x := range []string{a, b} {
					if known && c37InFindingClass(x) {
						st.ExcludedCase(c37FindingID)
						continue
					}
					queries = append(queries, x)
					kinds = append(kinds, "comment-pair")
				}
				continue
			case len(queries) > 0 && mode == 0: // same first 512 bytes as an earlier query, different tail (decision cache key)
				prev := strings.TrimSpace(queries[rapid.IntRange(0, len(queries)-1).Draw(t, "prev")])
				if len(prev) < 520 {
					prev = prev + strings.Repeat(" ", 520-len(prev))
				}
				tail := rapid.SampledFrom([]string{" join secret s within 10m last 1h", " join payments p within 10m last 1h", " limit 3", " left join audit_log x on a._key = x._key within 10m last 1h"}).Draw(t, "tail")
				g = c37Gen{Text: strings.TrimSuffix(strings.TrimSpace(prev[:520]), ";") + tail, Kind: "same-prefix"}
			case len(queries) > 0 && mode == 1: // exact repeat / whitespace + case variant (cache hit)
				prev := queries[rapid.IntRange(0, len(queries)-1).Draw(t, "prev2")]
				g = c37Gen{Text: prev, Kind: "repeat"}
				if rapid.Bool().Draw(t, "variant") {
					g.Text = strings.ReplaceAll(prev, " ", "  ")
					g.Kind = "repeat-ws"
				}
			case len(queries) > 0 && mode == 2: // longest possible common prefix: only the last topic name differs
				prev := queries[rapid.IntRange(0, len(queries)-1).Draw(t, "prev3")]
				lp := strings.ToLower(prev)
				at, tl := -1, 0
				for _, tp := range append([]string{"nosuch"}, c37Topics...) {
					if i := strings.LastIndex(lp, tp); i > at {
						at, tl = i, len(tp)
					}
				}
				if at < 0 {
					g = c37GenQuery(t)
					break
				}
				other := rapid.SampledFrom(c37Topics).Draw(t, "other")
				if sib, ok := c37Sibling[lp[at:at+tl]]; ok && rapid.IntRange(0, 3).Draw(t, "sibling") != 0 {
					other = sib
				}
				g = c37Gen{Text: prev[:at] + other + prev[at+tl:], Kind: "swap-last-topic"}
			default:
				g = c37GenQuery(t)
			}
			if known && c37InFindingClass(g.Text) {
				st.ExcludedCase(c37FindingID)
				continue
			}
			queries = append(queries, g.Text)
			kinds = append(kinds, g.Kind)
		}
		if len(queries) == 0 {
			return
		}
		pipe := make([]bool, len(queries))
		for i := 0; i+1 < len(queries); i++ {
			pipe[i] = rapid.IntRange(0, 2).Draw(t, "pipeline") == 0
		}
		outs, err := c37Session(px, rec, queries, pipe)
		if err != nil {
			t.Fatalf("VF-INCONCLUSIVE: proxy session broke: %v", err)
		}
		if bad := s3.Bad(); len(bad) > 0 {
			t.Fatalf("VF-INCONCLUSIVE: S3 fake got a request it does not implement: %v", bad)
		}
		for i, q := range queries {
			st.Class("kind:" + kinds[i])
			if (i < len(pipe) && pipe[i]) || (i > 0 && pipe[i-1]) {
				st.Class("pipelined")
			}
			if nm, _, e := c37ParsedTopics(q); e == nil {
				for _, tp := range nm {
					if strings.Contains(tp, ".") {
						st.Class("dotted-topic")
						if !outs[i].Denied {
							st.Class("dotted-topic-forwarded")
						}
						break
					}
				}
			}
			trimmed := strings.TrimSpace(q)
			if len(trimmed) > 512 {
				st.Class("longer-than-512")
			}
			msg, err := c37Judge(up, allow, deny, q, outs[i], st)
			if err != nil {
				t.Fatalf("VF-INCONCLUSIVE: ground-truth upstream broke: %v", err)
			}
			if msg != "" {
				t.Fatalf("%s\nsession: %d queries, this is #%d", msg, len(queries), i+1)
			}
			// non-trivial: longer than 512 bytes and naming >= 2 topics with different ACL verdicts
			named, _, perr := c37ParsedTopics(trimmed)
			if perr == nil && len(trimmed) > 512 && len(named) >= 2 {
				a0, a1 := c37RefAllows(allow, deny, named[0]), c37RefAllows(allow, deny, named[1])
				if a0 != a1 {
					st.Class("long+mixed-verdicts")
					cutAt := "join-before-cut"
					if c37InFindingClass(q) {
						cutAt = "join-at-or-after-cut"
					}
					st.Class(cutAt)
					if st.NonTrivial(allow, deny, named, len(trimmed), cutAt, outs[i].Denied, kinds[i]) {
						st.Sample(map[string]any{"allow": allow, "deny": deny, "topics": named, "bytes": len(trimmed), "denied": outs[i].Denied, "where": cutAt, "head": trimmed[:60], "tail": trimmed[len(trimmed)-70:]})
					}
				}
			}
		}
	})
}

// Witness of the known finding through the same session + oracle.
func TestVF_C37_Witness(t *testing.T) {
	st := vfkit.NewStats("C37", "witness")
	defer st.Flush()
	c37AWSEnv()
	s3 := c37NewS3()
	defer s3.Close()
	now := time.Now().UnixMilli()
	for _, tp := range c37Topics {
		if err := c37PutTopic(s3, tp, now); err != nil {
			t.Fatalf("VF-INCONCLUSIVE: cannot build segment: %v", err)
		}
	}
	up, err := c37StartUpstream(s3)
	if err != nil {
		t.Fatalf("VF-INCONCLUSIVE: %v", err)
	}
	defer up.Close()
	allow, deny := []string{"orders"}, []string(nil)
	q := "select * from orders a " + strings.Repeat(" ", 500) + "join secret b within 10m last 1h"
	if !c37InFindingClass(q) {
		t.Fatalf("harness: witness is not in the excluded class")
	}
	px := New(config.ProxyConfig{Listen: ":0", Upstreams: []string{"recorder"}, ACL: config.ProxyACLConfig{Allow: allow, Deny: deny}}, log.New(io.Discard, "", 0))
	rec := &c37Recorder{}
	px.dialer = rec.dial
	st.Eval()
	outs, err := c37Session(px, rec, []string{q}, nil)
	if err != nil {
		t.Fatalf("VF-INCONCLUSIVE: proxy session broke: %v", err)
	}
	msg, err := c37Judge(up, allow, deny, q, outs[0], st)
	if err != nil {
		t.Fatalf("VF-INCONCLUSIVE: ground-truth upstream broke: %v", err)
	}
	st.NonTrivial(q)
	st.Sample(map[string]any{"allow": allow, "query_bytes": len(q), "denied": outs[0].Denied, "verdict": msg})
	what := "a join placed after byte 512 is denied (or not forwarded) now"
	if msg != "" {
		what = "allow=[orders]: `select * from orders a <500 spaces> join secret b within 10m last 1h` is forwarded and the upstream reads topic secret"
	}
	st.KnownResult(c37FindingID, msg != "", what)
}
