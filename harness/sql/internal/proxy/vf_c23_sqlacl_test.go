//go:build verif

package proxy

import (
	"encoding/json"
	"fmt"
	"strings"
	"testing"
	"time"

	"pgregory.net/rapid"
	"verif.local/vfkit"
)

// C23, SQL proxy leg: ACL{Allow,Deny} with glob patterns. Deny overrides; otherwise an
// allow match permits; otherwise the default applies, which for this ACL is "allow iff the
// allow list is empty". Monotonicity: adding a deny pattern never grants; adding an allow
// pattern never removes access as long as the default is unchanged by the addition (the
// allow list was already non-empty).
//
// The reference glob matcher is independent of path.Match and three-valued: character
// classes, escapes, padded / empty patterns, and '*' against names containing '/' are left
// open (both outcomes accepted).

type c23sTri int8

const (
	c23sF c23sTri = iota
	c23sT
	c23sU
)

func c23sGlob(p, s string) bool { // '*' any run, '?' any single char
	if p == "" {
		return s == ""
	}
	switch p[0] {
	case '*':
		for i := 0; i <= len(s); i++ {
			if c23sGlob(p[1:], s[i:]) {
				return true
			}
		}
		return false
	case '?':
		return s != "" && c23sGlob(p[1:], s[1:])
	}
	return s != "" && s[0] == p[0] && c23sGlob(p[1:], s[1:])
}

func c23sMatch(pattern, topic string) c23sTri {
	if pattern != strings.TrimSpace(pattern) || pattern == "" {
		return c23sU
	}
	if strings.ContainsAny(pattern, "[]\\") {
		if pattern == topic {
			return c23sT
		}
		return c23sU
	}
	if !strings.ContainsAny(pattern, "*?") {
		if pattern == topic {
			return c23sT
		}
		return c23sF
	}
	if strings.Contains(topic, "/") {
		return c23sU
	}
	if c23sGlob(pattern, topic) {
		return c23sT
	}
	return c23sF
}

func c23sAny(patterns []string, topic string) c23sTri {
	out := c23sF
	for _, p := range patterns {
		switch c23sMatch(p, topic) {
		case c23sT:
			return c23sT
		case c23sU:
			out = c23sU
		}
	}
	return out
}

// c23sAllowListEmpty: is the allow list "empty" in the sense of the default policy?
// A list holding only blank patterns is left open.
func c23sAllowListEmpty(allow []string) c23sTri {
	if len(allow) == 0 {
		return c23sT
	}
	for _, p := range allow {
		if strings.TrimSpace(p) != "" {
			return c23sF
		}
	}
	return c23sU
}

func c23sReference(a ACL, topic string) (canTrue, canFalse, denyT, allowT bool) {
	d := c23sAny(a.Deny, topic)
	if d == c23sT {
		return false, true, true, false
	}
	if d == c23sU {
		canFalse = true
	}
	switch c23sAllowListEmpty(a.Allow) {
	case c23sT:
		canTrue = true
		return
	case c23sU:
		return true, true, false, false
	}
	switch c23sAny(a.Allow, topic) {
	case c23sT:
		canTrue, allowT = true, true
	case c23sF:
		canFalse = true
	case c23sU:
		canTrue, canFalse = true, true
	}
	return
}

var c23sTopics = []string{"orders", "orders-eu", "orders-secret", "payments", "ord", "o", "x", "a/b", "orders/eu", "*", ""}

func c23sPatternGen() *rapid.Generator[string] {
	return rapid.OneOf(
		rapid.SampledFrom([]string{"orders", "orders-*", "ord*", "*", "payments", "orders-secret", "orders-eu", "x"}),
		rapid.SampledFrom([]string{"?rders", "o*s", "*-eu", "o?", "or*-*", "**", "*rd*"}),
		rapid.SampledFrom([]string{"[op]rders", "[", "", " orders ", "a/b", "a/*", "*/*", "orders\\"}),
	)
}

func c23sJSON(v any) string { b, _ := json.Marshal(v); return string(b) }

func TestVF_C23_SQLProxyACL(t *testing.T) {
	st := vfkit.NewStats("C23", "sql")
	defer st.Flush()
	rapid.Check(t, func(t *rapid.T) {
		st.Eval()
		pat := c23sPatternGen()
		acl := ACL{
			Allow: rapid.SliceOfN(pat, 0, 4).Draw(t, "allow"),
			Deny:  rapid.SliceOfN(pat, 0, 3).Draw(t, "deny"),
		}
		both := false
		var bothTopic string
		for _, topic := range c23sTopics {
			got := acl.Allows(topic)
			canTrue, canFalse, denyT, allowT := c23sReference(acl, topic)
			switch {
			case canTrue && canFalse:
				st.Class("pairs:ambiguous")
			case denyT:
				st.Class("pairs:deny-match")
				if c23sAny(acl.Allow, topic) == c23sT || len(acl.Allow) == 0 {
					st.Class("pairs:deny-overrides-an-allow")
					both, bothTopic = true, topic
				}
			case allowT:
				st.Class("pairs:allow-match")
			case len(acl.Allow) == 0:
				st.Class("pairs:default-allow-all")
			default:
				st.Class("pairs:not-in-allow-list")
			}
			if (got && !canTrue) || (!got && !canFalse) {
				t.Fatalf("ACL%s.Allows(%q)=%v, reference: deny-match=%v allow-match=%v allow-list-len=%d", c23sJSON(acl), topic, got, denyT, allowT, len(acl.Allow))
			}
		}
		// monotonicity
		kind := rapid.SampledFrom([]string{"allow", "deny"}).Draw(t, "addKind")
		p := pat.Draw(t, "added")
		pos := rapid.IntRange(0, 4).Draw(t, "pos")
		ins := func(l []string) []string {
			if pos > len(l) {
				pos = len(l)
			}
			out := append([]string(nil), l[:pos]...)
			out = append(out, p)
			return append(out, l[pos:]...)
		}
		acl2 := ACL{Allow: acl.Allow, Deny: acl.Deny}
		if kind == "allow" {
			if c23sAllowListEmpty(acl.Allow) != c23sF {
				// the addition turns "allow everything" into "allow only the list": the default
				// changes, so the law does not apply
				st.Class("add-allow-to-empty-list(skipped)")
				kind = "deny"
			}
		}
		if kind == "allow" {
			acl2.Allow = ins(acl.Allow)
		} else {
			acl2.Deny = ins(acl.Deny)
		}
		st.Class("add-" + kind)
		changed := false
		for _, topic := range c23sTopics {
			before, after := acl.Allows(topic), acl2.Allows(topic)
			if before != after {
				changed = true
			}
			if kind == "allow" && before && !after {
				t.Fatalf("adding allow pattern %q removed access to %q: before %s after %s", p, topic, c23sJSON(acl), c23sJSON(acl2))
			}
			if kind == "deny" && !before && after {
				t.Fatalf("adding deny pattern %q granted access to %q: before %s after %s", p, topic, c23sJSON(acl), c23sJSON(acl2))
			}
		}
		if changed {
			st.Class("added-pattern-changed-some-decision")
		}
		if both {
			if st.NonTrivial(fmt.Sprint(acl.Allow), fmt.Sprint(acl.Deny)) {
				st.Sample(map[string]any{"acl": acl, "topic_denied_although_allowed": bothTopic, "added": map[string]string{"kind": kind, "pattern": p}})
			}
		}
	})
}

// ---- decision cache: one client connection, several statements ----
//
// The proxy keeps a per-connection decision cache (cacheKey -> decision). Whatever is
// cached, the decision replayed for a statement must be the ACL's decision for the topic
// THAT statement names. The connection's procedure (handleConn) is mirrored with the real
// cacheKey / queryCache / authorizeQuery; the expected decision comes from the independent
// reference above. Refusing with "proxy cannot authorize query" is always acceptable.

func c23sConnDecide(cache *queryCache, acl ACL, query string) (allowed bool, reason string, hit bool) {
	key := cacheKey(query)
	decision, hit := cache.get(key)
	if !hit {
		ok, why, topics, show := authorizeQuery(acl, query)
		decision = cacheDecision{created: time.Now(), allowed: ok, reason: why, topics: topics, showTopics: show}
		cache.set(key, decision)
	}
	return decision.allowed, decision.reason, hit
}

func TestVF_C23_SQLProxyCache(t *testing.T) {
	st := vfkit.NewStats("C23", "sqlcache")
	defer st.Flush()
	topics := []string{"tenant-1", "tenant-2", "tenant-10", "events.2023", "events.2024", "orders", "orders_2", "orders-eu"}
	pat := rapid.OneOf(
		rapid.SampledFrom(topics),
		rapid.SampledFrom([]string{"tenant-*", "events.*", "orders*", "*", "tenant-1*", "events.202?"}),
	)
	rapid.Check(t, func(t *rapid.T) {
		st.Eval()
		acl := ACL{Allow: rapid.SliceOfN(pat, 0, 3).Draw(t, "allow"), Deny: rapid.SliceOfN(pat, 0, 2).Draw(t, "deny")}
		cache := newQueryCache(time.Hour, rapid.IntRange(1, 8).Draw(t, "cacheEntries"))
		if rapid.IntRange(0, 5).Draw(t, "cacheOff") == 0 {
			cache = nil
		}
		n := rapid.IntRange(2, 8).Draw(t, "n")
		base := rapid.SampledFrom(topics).Draw(t, "baseTopic") // statements cluster around sibling names
		var trace []string
		flips, hits := 0, 0
		last := -1
		for i := 0; i < n; i++ {
			topic := base
			if rapid.Bool().Draw(t, "otherTopic") {
				topic = rapid.SampledFrom(topics).Draw(t, "topic")
			}
			num := rapid.SampledFrom([]int{1, 5, 10, 2023}).Draw(t, "n")
			q := rapid.SampledFrom([]string{"SELECT * FROM %s LIMIT %d;", "select * from %s tail %d", "SELECT  *  FROM %s   LIMIT %d", "select * from %s limit %d;"}).Draw(t, "shape")
			query := fmt.Sprintf(q, topic, num)
			got, reason, hit := c23sConnDecide(cache, acl, query)
			if hit {
				hits++
			}
			canTrue, canFalse, _, _ := c23sReference(acl, topic)
			trace = append(trace, fmt.Sprintf("%s=>%v", query, got))
			if reason == "proxy cannot authorize query" {
				st.Class("statement-not-parsed(refused)")
				continue
			}
			if (got && !canTrue) || (!got && !canFalse) {
				t.Fatalf("statement %d %q on one connection decided allowed=%v (cache hit=%v, reason %q) but the ACL %s decides topic %q the other way\ntrace %v", i, query, got, hit, reason, c23sJSON(acl), topic, trace)
			}
			d := 0
			if got {
				d = 1
			}
			if last >= 0 && last != d {
				flips++
			}
			last = d
		}
		if hits > 0 {
			st.Class("sequence-with-cache-hits")
		}
		if flips > 0 {
			st.Class("decision-changes-between-statements")
			if st.NonTrivial(fmt.Sprint(acl.Allow), fmt.Sprint(acl.Deny), fmt.Sprint(trace)) {
				st.Sample(map[string]any{"acl": acl, "statements": trace})
			}
		}
	})
}
