//go:build verif

package processor

// C33, sql-processor module: the real Processor.Run loop assembled from fakes that report
// to the c33World, under the synctest fake clock.

import (
	"context"
	"strconv"
	"testing"

	"github.com/kafscale/platform/addons/processors/sql-processor/internal/checkpoint"
	"github.com/kafscale/platform/addons/processors/sql-processor/internal/config"
	"github.com/kafscale/platform/addons/processors/sql-processor/internal/decoder"
	"github.com/kafscale/platform/addons/processors/sql-processor/internal/discovery"
	"github.com/kafscale/platform/addons/processors/sql-processor/internal/sink"
	"pgregory.net/rapid"
	"verif.local/vfkit"
)

const c33Mod = "sql"

type c33Lister struct{ w *c33World }

func (l *c33Lister) ListCompleted(ctx context.Context) ([]discovery.SegmentRef, error) {
	idx, err := l.w.OnList()
	if err != nil {
		return nil, err
	}
	out := make([]discovery.SegmentRef, 0, len(idx))
	for _, i := range idx {
		s := l.w.p.Segs[i]
		out = append(out, discovery.SegmentRef{Topic: c33Topic, Partition: s.Part, BaseOffset: s.Base, SegmentKey: s.Key, IndexKey: s.Key + ".index"})
	}
	return out, nil
}

type c33Decoder struct{ w *c33World }

func (d *c33Decoder) Decode(ctx context.Context, segmentKey, indexKey, topic string, partition int32) ([]decoder.Record, error) {
	s, _, _, _, err := d.w.OnDecode(segmentKey)
	if err != nil {
		return nil, err
	}
	out := make([]decoder.Record, 0, s.N)
	for o := s.Base; o < s.Base+int64(s.N); o++ {
		out = append(out, decoder.Record{Topic: topic, Partition: partition, Offset: o, Timestamp: 1726000000000 + o, Key: []byte("k"), Value: []byte("v-" + strconv.FormatInt(o, 10))})
	}
	return out, nil
}

type c33Store struct {
	w     *c33World
	inner checkpoint.Store // non-nil: the module's shipped store used as-is for offsets
}

func (s *c33Store) ClaimLease(ctx context.Context, topic string, partition int32, ownerID string) (checkpoint.Lease, error) {
	if err := s.w.OnClaim(partition); err != nil {
		return checkpoint.Lease{}, err
	}
	return checkpoint.Lease{Topic: topic, Partition: partition, OwnerID: ownerID}, nil
}
func (s *c33Store) RenewLease(ctx context.Context, lease checkpoint.Lease) error { return s.w.OnRenew() }
func (s *c33Store) ReleaseLease(ctx context.Context, lease checkpoint.Lease) error {
	s.w.OnRelease()
	return nil
}
func (s *c33Store) LoadOffset(ctx context.Context, topic string, partition int32) (checkpoint.OffsetState, error) {
	if s.inner != nil {
		return s.inner.LoadOffset(ctx, topic, partition)
	}
	o, err := s.w.OnLoad(partition)
	if err != nil {
		return checkpoint.OffsetState{}, err
	}
	return checkpoint.OffsetState{Topic: topic, Partition: partition, Offset: o}, nil
}
func (s *c33Store) CommitOffset(ctx context.Context, st checkpoint.OffsetState) error {
	if s.inner != nil {
		return s.inner.CommitOffset(ctx, st)
	}
	return s.w.OnCommit(st.Partition, st.Offset)
}

type c33Sink struct{ w *c33World }

func (s *c33Sink) Write(ctx context.Context, records []sink.Record) error {
	offs := make([]int64, len(records))
	for i, r := range records {
		offs[i] = r.Offset
	}
	if len(records) == 0 {
		return nil
	}
	return s.w.OnSink(records[0].Partition, offs)
}
func (s *c33Sink) Close(ctx context.Context) error { return nil }

func c33Exec(t *testing.T, p *c33Plan, w *c33World) error {
	store := &c33Store{w: w}
	if p.Store == "noop" {
		store.inner = checkpoint.New() // the shipped placeholder store
	}
	proc := &Processor{
		discover: &c33Lister{w: w},
		decode:   &c33Decoder{w: w},
		store:    store,
		sink:     &c33Sink{w: w},
		locks:    newTopicLocker(),
	}
	return c33RunBubble(t, p, w, proc.Run)
}

func TestVF_C33_SQL(t *testing.T) {
	st := vfkit.NewStats("C33", c33Mod)
	defer st.Flush()
	rapid.Check(t, func(rt *rapid.T) {
		p := c33GenPlan(rt, c33Mod, false)
		c33Check(rt, t, st, p, c33Exec)
	})
}

func TestVF_C33_Witness(t *testing.T) {
	st := vfkit.NewStats("C33", c33Mod+"-witness")
	defer st.Flush()
	c33Witnesses(t, st, c33Mod, false, c33Exec)
}

// ---- module-specific hooks used by the shared real-lister / real-decoder legs ----------------

func c33TestSetup(t *testing.T) {}

func c33ListerConfig(ns, endpoint string) config.Config {
	return config.Config{S3: config.S3Config{Bucket: c33ListBucket, Namespace: ns, Endpoint: endpoint, Region: "us-east-1", PathStyle: true}}
}

func c33NewProcessor(l discovery.Lister, d decoder.Decoder, s checkpoint.Store, w sink.Writer) *Processor {
	return &Processor{discover: l, decode: d, store: s, sink: w, locks: newTopicLocker()}
}

func c33DecoderConfig(endpoint string) config.Config {
	return config.Config{S3: config.S3Config{Bucket: c33Bucket, Region: "us-east-1", Endpoint: endpoint, PathStyle: true}}
}

func c33SinkValue(r sink.Record) []byte { return r.Payload }
