//go:build verif

package processor

// C33, "<module>-s3list" leg (iceberg and sql ship the same lister): listing failures are produced by the REAL
// discovery lister (discovery.New, mode s3: ListObjectsV2 pages + one ranged GET per segment
// that probes the "END!" footer) against an in-process S3 endpoint (httptest) whose list
// pages and footer probes fail (503, or a probe body cut short) per the drawn plan, while
// segment objects appear over time. The lister takes no input from the processor, so - real
// sockets and the synctest clock do not mix - it is called once per scheduled polling cycle,
// in order, outside the bubble, and its results are replayed inside the real Run loop.
// Oracle: the shared world (checkpoint never past an unwritten record; everything written
// after the clean cycles).

import (
	"context"
	"encoding/xml"
	"fmt"
	"io"
	"net/http"
	"net/http/httptest"
	"os"
	"sort"
	"strconv"
	"strings"
	"sync"
	"testing"

	"github.com/kafscale/platform/addons/processors/sql-processor/internal/discovery"
	"pgregory.net/rapid"
	"verif.local/vfkit"
)

const c33ListBucket = "vf-bucket"

type c33ListS3 struct {
	mu        sync.Mutex
	objs      map[string][]byte
	pageSize  int
	listFail  int             // fail the k-th list page request from now (1-based), 0 = none
	probeFail map[string]string // key -> "503" | "cut": next ranged GET of that key fails (one shot)
	listReqs  int
	bad       []string
	srv       *httptest.Server
}

type c33ListResult struct {
	XMLName               xml.Name `xml:"ListBucketResult"`
	Name                  string
	Prefix                string
	KeyCount              int
	MaxKeys               int
	IsTruncated           bool
	NextContinuationToken string `xml:",omitempty"`
	Contents              []c33ListEntry
}

type c33ListEntry struct {
	Key          string
	LastModified string
	ETag         string
	Size         int
	StorageClass string
}

func c33S3Error(w http.ResponseWriter, status int, code string) {
	w.Header().Set("Content-Type", "application/xml")
	w.WriteHeader(status)
	fmt.Fprintf(w, `<?xml version="1.0" encoding="UTF-8"?><Error><Code>%s</Code><Message>injected</Message></Error>`, code)
}

func (f *c33ListS3) handle(w http.ResponseWriter, r *http.Request) {
	path := strings.TrimPrefix(r.URL.Path, "/"+c33ListBucket)
	if r.Method != http.MethodGet || !strings.HasPrefix(r.URL.Path, "/"+c33ListBucket) {
		f.mu.Lock()
		f.bad = append(f.bad, r.Method+" "+r.URL.String())
		f.mu.Unlock()
		c33S3Error(w, 400, "BadRequest")
		return
	}
	if path == "" || path == "/" { // ListObjectsV2
		q := r.URL.Query()
		f.mu.Lock()
		f.listReqs++
		fail := f.listFail > 0 && f.listReqs == f.listFail
		prefix, after := q.Get("prefix"), q.Get("continuation-token")
		var keys []string
		for k := range f.objs {
			if strings.HasPrefix(k, prefix) && k > after {
				keys = append(keys, k)
			}
		}
		sort.Strings(keys)
		res := c33ListResult{Name: c33ListBucket, Prefix: prefix, MaxKeys: f.pageSize}
		if len(keys) > f.pageSize {
			keys = keys[:f.pageSize]
			res.IsTruncated, res.NextContinuationToken = true, keys[len(keys)-1]
		}
		for _, k := range keys {
			res.Contents = append(res.Contents, c33ListEntry{Key: k, LastModified: "2026-09-01T00:00:00.000Z", ETag: `"vf"`, Size: len(f.objs[k]), StorageClass: "STANDARD"})
		}
		res.KeyCount = len(keys)
		f.mu.Unlock()
		if fail {
			c33S3Error(w, http.StatusServiceUnavailable, "SlowDown")
			return
		}
		w.Header().Set("Content-Type", "application/xml")
		_, _ = io.WriteString(w, xml.Header)
		_ = xml.NewEncoder(w).Encode(res)
		return
	}
	key := strings.TrimPrefix(path, "/")
	f.mu.Lock()
	body, ok := f.objs[key]
	how := f.probeFail[key]
	delete(f.probeFail, key)
	f.mu.Unlock()
	if how == "503" {
		c33S3Error(w, http.StatusServiceUnavailable, "SlowDown")
		return
	}
	if !ok {
		c33S3Error(w, http.StatusNotFound, "NoSuchKey")
		return
	}
	part, status := body, http.StatusOK
	if rng := r.Header.Get("Range"); strings.HasPrefix(rng, "bytes=-") {
		n, _ := strconv.Atoi(strings.TrimPrefix(rng, "bytes=-"))
		if n > len(body) {
			n = len(body)
		}
		part, status = body[len(body)-n:], http.StatusPartialContent
		w.Header().Set("Content-Range", fmt.Sprintf("bytes %d-%d/%d", len(body)-n, len(body)-1, len(body)))
	} else if rng != "" {
		f.mu.Lock()
		f.bad = append(f.bad, "Range "+rng)
		f.mu.Unlock()
	}
	w.Header().Set("Content-Type", "application/octet-stream")
	w.Header().Set("Content-Length", strconv.Itoa(len(part)))
	w.Header().Set("ETag", `"vf"`)
	w.WriteHeader(status)
	if how == "cut" && len(part) > 1 {
		_, _ = w.Write(part[:len(part)/2])
		if fl, ok := w.(http.Flusher); ok {
			fl.Flush()
		}
		panic(http.ErrAbortHandler)
	}
	_, _ = w.Write(part)
}

func c33ListAWSEnv() {
	for k, v := range map[string]string{
		"AWS_ACCESS_KEY_ID": "vf", "AWS_SECRET_ACCESS_KEY": "vfsecret", "AWS_REGION": "us-east-1",
		"AWS_EC2_METADATA_DISABLED": "true", "AWS_REQUEST_CHECKSUM_CALCULATION": "when_required",
		"AWS_RESPONSE_CHECKSUM_VALIDATION": "when_required", "AWS_CONFIG_FILE": "/nonexistent/vf-aws-config",
		"AWS_SHARED_CREDENTIALS_FILE": "/nonexistent/vf-aws-credentials", "AWS_MAX_ATTEMPTS": "1", "NO_PROXY": "*",
	} {
		os.Setenv(k, v)
	}
	for _, k := range []string{"AWS_PROFILE", "AWS_SESSION_TOKEN", "HTTP_PROXY", "HTTPS_PROXY", "http_proxy", "https_proxy", "ALL_PROXY", "all_proxy"} {
		os.Unsetenv(k)
	}
}

// one finding for both processors that ship this lister (iceberg and sql)
const c33ProbeFinding = "C33-lister-swallows-probe-error"

type c33Listing struct {
	idx    []int
	failed bool
}

type c33ReplayLister struct {
	w     *c33World
	byCyc []c33Listing
	n     int
}

func (l *c33ReplayLister) ListCompleted(ctx context.Context) ([]discovery.SegmentRef, error) {
	r := c33Listing{failed: true}
	if l.n < len(l.byCyc) {
		r = l.byCyc[l.n]
	}
	l.n++
	l.w.OnListReplay(r.idx, r.failed)
	if r.failed {
		return nil, errC33Injected
	}
	out := make([]discovery.SegmentRef, 0, len(r.idx))
	for _, i := range r.idx {
		s := l.w.p.Segs[i]
		out = append(out, discovery.SegmentRef{Topic: c33Topic, Partition: s.Part, BaseOffset: s.Base, SegmentKey: s.Key, IndexKey: strings.TrimSuffix(s.Key, ".kfs") + ".index"})
	}
	return out, nil
}

// c33RealListings calls the real lister once per scheduled cycle against the fake S3.
// probeFaults: (cycle, segment index) -> "503" | "cut".
func c33RealListings(s3 *c33ListS3, ns string, p *c33Plan, probeFaults map[[2]int]string, pageSize int) ([]c33Listing, string) {
	lister, err := discovery.New(c33ListerConfig(ns, s3.srv.URL))
	if err != nil {
		return nil, "harness: discovery.New: " + err.Error()
	}
	keyIdx := map[string]int{}
	for i, s := range p.Segs {
		keyIdx[s.Key] = i
	}
	var out []c33Listing
	ctx := context.Background()
	for c := 0; c < p.Cycles+p.Clean; c++ {
		na := p.NA
		if c < len(p.Visible) {
			na = p.Visible[c]
		}
		s3.mu.Lock()
		s3.pageSize, s3.listReqs, s3.listFail = pageSize, 0, 0
		s3.probeFail = map[string]string{}
		for i, s := range p.Segs {
			if i < p.NA && i >= na {
				continue
			}
			// a completed segment: only its last four bytes matter to the lister
			s3.objs[s.Key] = []byte("KAFS-segment-body-END!")
			s3.objs[strings.TrimSuffix(s.Key, ".kfs")+".index"] = []byte("IDX\x00")
			if c < p.Cycles {
				if how := probeFaults[[2]int{c, i}]; how != "" {
					s3.probeFail[s.Key] = how
				}
			}
		}
		// an object still being uploaded by the broker (no footer yet) and one without index
		s3.objs[ns+"/"+c33Topic+"/3/segment-00000000000000999000.kfs"] = []byte("KAFS-partial")
		s3.objs[ns+"/"+c33Topic+"/3/segment-00000000000000999000.index"] = []byte("IDX\x00")
		s3.objs[ns+"/"+c33Topic+"/3/segment-00000000000000998000.kfs"] = []byte("KAFS-no-index-END!")
		if c < p.Cycles && p.Faults[c33FaultKey{c, -1, "list"}] != "" {
			s3.listFail = 1 + c%2 // first or second page
		}
		s3.mu.Unlock()
		refs, err := lister.ListCompleted(ctx)
		l := c33Listing{failed: err != nil}
		for _, r := range refs {
			i, ok := keyIdx[r.SegmentKey]
			if !ok {
				return nil, fmt.Sprintf("the lister reported %q as a completed segment (it has no footer or no index, or does not exist)", r.SegmentKey)
			}
			if r.Topic != c33Topic || r.Partition != p.Segs[i].Part || r.BaseOffset != p.Segs[i].Base {
				return nil, fmt.Sprintf("the lister reported %+v for object %s", r, r.SegmentKey)
			}
			l.idx = append(l.idx, i)
		}
		out = append(out, l)
	}
	s3.mu.Lock()
	bad := append([]string(nil), s3.bad...)
	s3.mu.Unlock()
	if len(bad) > 0 {
		return nil, fmt.Sprintf("harness: the S3 fake saw requests it does not model: %v", bad)
	}
	return out, ""
}

func c33ListExec(s3 *c33ListS3, caseNo *int, probeFaults map[[2]int]string, pageSize int) func(t *testing.T, p *c33Plan, w *c33World) error {
	return func(t *testing.T, p *c33Plan, w *c33World) error {
		*caseNo++
		ns := fmt.Sprintf("case-%d", *caseNo)
		for i := range p.Segs {
			p.Segs[i].Key = fmt.Sprintf("%s/%s/%d/segment-%020d.kfs", ns, c33Topic, p.Segs[i].Part, p.Segs[i].Base)
		}
		s3.mu.Lock()
		s3.objs = map[string][]byte{}
		s3.mu.Unlock()
		listings, msg := c33RealListings(s3, ns, p, probeFaults, pageSize)
		if msg != "" {
			w.mu.Lock()
			w.violations = append(w.violations, msg)
			w.mu.Unlock()
			listings = nil
		}
		proc := c33NewProcessor(&c33ReplayLister{w: w, byCyc: listings}, &c33Decoder{w: w}, &c33Store{w: w}, &c33Sink{w: w})
		return c33RunBubble(t, p, w, proc.Run)
	}
}

func TestVF_C33_S3List(t *testing.T) {
	c33TestSetup(t)
	st := vfkit.NewStats("C33", c33Mod+"-s3list")
	defer st.Flush()
	c33ListAWSEnv()
	s3 := &c33ListS3{objs: map[string][]byte{}, pageSize: 1000}
	s3.srv = httptest.NewServer(http.HandlerFunc(s3.handle))
	defer s3.srv.Close()
	caseNo := 0
	rapid.Check(t, func(rt *rapid.T) {
		p := c33GenPlan(rt, c33Mod, false)
		p.Store = "real"
		// footer-probe faults: per fault cycle, per listed segment
		probeFaults := map[[2]int]string{}
		for c := 0; c < p.Cycles; c++ {
			na := p.Visible[c]
			lastOf := map[int32]int{}
			for i, s := range p.Segs {
				if i < p.NA && i >= na {
					continue
				}
				lastOf[s.Part] = i
			}
			for i, s := range p.Segs {
				if i < p.NA && i >= na {
					continue
				}
				if rapid.SampledFrom([]string{"", "", "", "", "", "503", "", "cut", "", ""}).Draw(rt, "probe-fault") == "" {
					continue
				}
				how := rapid.SampledFrom([]string{"503", "cut"}).Draw(rt, "probe-fault-kind")
				if lastOf[s.Part] != i && vfkit.Known(c33ProbeFinding) {
					p.Excluded[c33ProbeFinding] = true
					continue
				}
				probeFaults[[2]int{c, i}] = how
				p.Faults[c33FaultKey{c, i, "probe"}] = how
			}
		}
		pageSize := rapid.SampledFrom([]int{1000, 1000, 2, 3}).Draw(rt, "list-page-size")
		c33Check(rt, t, st, p, c33ListExec(s3, &caseNo, probeFaults, pageSize))
	})
}

// TestVF_C33_S3ListWitness: segments [0..1] and [2..3] are both listed; the footer probe of
// the FIRST one fails once (503) in cycle 0.
func TestVF_C33_S3ListWitness(t *testing.T) {
	c33TestSetup(t)
	st := vfkit.NewStats("C33", c33Mod+"-s3list-witness")
	defer st.Flush()
	st.Eval()
	c33ListAWSEnv()
	s3 := &c33ListS3{objs: map[string][]byte{}, pageSize: 1000}
	s3.srv = httptest.NewServer(http.HandlerFunc(s3.handle))
	defer s3.srv.Close()
	p := c33NewPlan(c33Mod, "real")
	p.Cycles = 1
	p.Segs = []c33Seg{{Part: c33PartA, Base: 0, N: 2}, {Part: c33PartA, Base: 2, N: 2}}
	p.NA, p.Visible = 2, []int{2}
	p.Faults[c33FaultKey{0, 0, "probe"}] = "503"
	caseNo := 1 << 20
	w := c33NewWorld(&p)
	if err := c33ListExec(s3, &caseNo, map[[2]int]string{{0, 0}: "503"}, 1000)(t, &p, w); err != nil {
		t.Fatalf("witness: Run returned %v", err)
	}
	v := w.finish()
	for _, m := range v {
		if strings.HasPrefix(m, "harness:") {
			fmt.Println("VF-INCONCLUSIVE: " + m)
			t.Fatalf("%s", m)
		}
	}
	t.Logf("witness -> %v (trace %s)", v, strings.Join(w.trace, " "))
	what := "segments [0..1],[2..3] both listed, the footer probe (ranged GET) of the first one answers 503 once"
	if len(v) > 0 {
		st.KnownResult(c33ProbeFinding, true, what+": "+v[0])
	} else {
		st.KnownResult(c33ProbeFinding, false, what+": no violation")
	}
}
