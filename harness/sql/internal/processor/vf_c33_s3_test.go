//go:build verif

package processor

// C33, "<module>-s3" leg (same file for the iceberg and the sql module): decoding failures and
// decoded offsets are produced by the REAL decoder
// (decoder.New) downloading broker-written segments (storage.BuildSegment) from an
// in-process S3 endpoint (httptest) that can cut a GetObject response in the middle of the
// body (Content-Length announced, connection aborted early) or answer 503.
//
// Real sockets and the synctest fake clock do not mix, so every case runs in two phases:
//  1. outside the bubble, the real decoder is called once per segment on an intact download
//     and once per scheduled download fault; the outcomes (records or error) are recorded;
//  2. the real Processor.Run loop runs under synctest exactly like the "sql" leg, with a
//     decoder that replays those recorded outcomes at the scheduled (cycle, segment).
// Decode is a function of (object bytes, fault), so this is equivalent to calling it in place.
// Oracle: the shared world (checkpoint never past an unwritten record; everything written
// after the clean cycles). A decoder that reports a cut download as success with the
// records that happened to arrive is caught when a later segment's commit passes the hole.
//
// The record bodies of a batch are client-written and stored unchanged, including each
// record's own offsetDelta (the broker only checks recordCount == lastOffsetDelta+1). One case
// in three plants a record whose offsetDelta disagrees with its position in the batch (far
// ahead, slightly ahead, negative, duplicate). Deliveries are therefore identified by the
// record VALUE ("v-<true offset>"), not by the offset label the decoder computed, while the
// checkpoint oracle uses the committed label as is: commit(o) must not pass a record whose true
// offset is <= o and that never reached the sink.

import (
	"context"
	"encoding/binary"
	"fmt"
	"net/http"
	"net/http/httptest"
	"os"
	"sort"
	"strconv"
	"strings"
	"sync"
	"testing"
	"time"

	"github.com/KafScale/platform/pkg/storage"
	"github.com/kafscale/platform/addons/processors/sql-processor/internal/decoder"
	"github.com/kafscale/platform/addons/processors/sql-processor/internal/sink"
	"pgregory.net/rapid"
	"verif.local/vfkit"
)

const c33Bucket = "vf-bucket"

type c33S3Fake struct {
	mu   sync.Mutex
	objs map[string][]byte
	// one-shot directive for the next GET of a key: cut >= 0 -> send that many body bytes then
	// abort the connection; status != 0 -> answer with that status
	cut    map[string]int
	status map[string]int
	bad    []string
	srv    *httptest.Server
}

func c33NewS3Fake() *c33S3Fake {
	f := &c33S3Fake{objs: map[string][]byte{}, cut: map[string]int{}, status: map[string]int{}}
	f.srv = httptest.NewServer(http.HandlerFunc(f.handle))
	return f
}

func (f *c33S3Fake) handle(w http.ResponseWriter, r *http.Request) {
	key := strings.TrimPrefix(r.URL.Path, "/"+c33Bucket+"/")
	f.mu.Lock()
	body, ok := f.objs[key]
	cut, hasCut := f.cut[key]
	status := f.status[key]
	delete(f.cut, key)
	delete(f.status, key)
	if r.Method != http.MethodGet || !strings.HasPrefix(r.URL.Path, "/"+c33Bucket+"/") {
		f.bad = append(f.bad, r.Method+" "+r.URL.String())
	}
	f.mu.Unlock()
	if status != 0 {
		w.Header().Set("Content-Type", "application/xml")
		w.WriteHeader(status)
		fmt.Fprintf(w, `<?xml version="1.0" encoding="UTF-8"?><Error><Code>SlowDown</Code><Message>injected</Message></Error>`)
		return
	}
	if !ok {
		w.Header().Set("Content-Type", "application/xml")
		w.WriteHeader(http.StatusNotFound)
		fmt.Fprintf(w, `<?xml version="1.0" encoding="UTF-8"?><Error><Code>NoSuchKey</Code><Message>missing</Message></Error>`)
		return
	}
	w.Header().Set("Content-Type", "application/octet-stream")
	w.Header().Set("Content-Length", strconv.Itoa(len(body)))
	w.Header().Set("ETag", `"vf"`)
	w.WriteHeader(http.StatusOK)
	if !hasCut {
		_, _ = w.Write(body)
		return
	}
	if cut > len(body) {
		cut = len(body)
	}
	_, _ = w.Write(body[:cut])
	if fl, ok := w.(http.Flusher); ok {
		fl.Flush()
	}
	panic(http.ErrAbortHandler) // drop the connection with the announced body incomplete
}

func c33AWSEnv() {
	for k, v := range map[string]string{
		"AWS_ACCESS_KEY_ID": "vf", "AWS_SECRET_ACCESS_KEY": "vfsecret", "AWS_REGION": "us-east-1",
		"AWS_EC2_METADATA_DISABLED": "true", "AWS_REQUEST_CHECKSUM_CALCULATION": "when_required",
		"AWS_RESPONSE_CHECKSUM_VALIDATION": "when_required", "AWS_CONFIG_FILE": "/nonexistent/vf-aws-config",
		"AWS_SHARED_CREDENTIALS_FILE": "/nonexistent/vf-aws-credentials", "AWS_MAX_ATTEMPTS": "1", "NO_PROXY": "*",
	} {
		os.Setenv(k, v)
	}
	for _, k := range []string{"AWS_PROFILE", "AWS_SESSION_TOKEN", "HTTP_PROXY", "HTTPS_PROXY", "http_proxy", "https_proxy", "ALL_PROXY", "all_proxy"} {
		os.Unsetenv(k)
	}
}

// c33SegmentBytes builds the broker-written segment of s: records "v-<offset>", grouped
// into batches by the split flags (split[i] = record i starts a new batch). deltaAt >= 0
// plants deltaKind on record deltaAt of the segment (its batch header stays consistent:
// recordCount == lastOffsetDelta+1, which is all the produce path checks).
func c33SegmentBytes(s c33Seg, split []bool, deltaAt int, deltaKind string) ([]byte, error) {
	var rbs []storage.RecordBatch
	type rec struct {
		delta int64
		val   string
	}
	flush := func(base int64, recs []rec, mutated bool) error {
		if len(recs) == 0 {
			return nil
		}
		var raw []byte
		for i, r := range recs {
			body := []byte{0}
			body = vfkit.PutVarint(body, int64(i)) // timestamp delta
			body = vfkit.PutVarint(body, r.delta)
			body = vfkit.PutVarint(body, 1)
			body = append(body, 'k')
			body = vfkit.PutVarint(body, int64(len(r.val)))
			body = append(body, r.val...)
			body = vfkit.PutVarint(body, 0)
			raw = append(raw, vfkit.PutVarint(nil, int64(len(body)))...)
			raw = append(raw, body...)
		}
		b := &vfkit.Batch{Magic: 2, LastOffsetDelta: int32(len(recs) - 1), FirstTimestamp: 1726000000000 + base, MaxTimestamp: 1726000000000 + base + int64(len(recs)),
			ProducerID: -1, ProducerEpoch: -1, BaseSequence: -1, NumRecords: int32(len(recs)), RawRecords: raw}
		enc := b.Encode()
		if mutated {
			switch deltaKind {
			case "bl:zero":
				binary.BigEndian.PutUint32(enc[8:], 0)
			case "bl:maxint32":
				binary.BigEndian.PutUint32(enc[8:], 0x7fffffff)
			case "bl:allones":
				binary.BigEndian.PutUint32(enc[8:], 0xffffffff)
			case "bl:plus7":
				binary.BigEndian.PutUint32(enc[8:], uint32(len(enc)-12+7))
			case "trail:2^60", "trail:ahead":
				tb := int64(1) << 60
				if deltaKind == "trail:ahead" {
					tb = base + 1000
				}
				extra := vfkit.NewBatch(tb, 1726000000000, []vfkit.Record{{Key: []byte("k"), Value: []byte("not-a-produced-record")}})
				enc = append(enc, extra.Encode()...)
			}
		}
		rb, err := storage.NewRecordBatchFromBytes(enc)
		if err != nil {
			return err
		}
		if rb.MessageCount != rb.LastOffsetDelta+1 {
			return fmt.Errorf("harness: batch header would be rejected by the produce path")
		}
		storage.PatchRecordBatchBaseOffset(&rb, base)
		rbs = append(rbs, rb)
		return nil
	}
	var cur []rec
	curMut := false
	base := s.Base
	for i := 0; i < s.N; i++ {
		o := s.Base + int64(i)
		if i > 0 && split[i] {
			if err := flush(base, cur, curMut); err != nil {
				return nil, err
			}
			cur, base, curMut = nil, o, false
		}
		d := int64(len(cur))
		if i == deltaAt {
			if c33MutFinding(deltaKind) == c33DeltaFinding {
				d = c33HostileDelta(deltaKind, len(cur))
			} else {
				curMut = true
			}
		}
		cur = append(cur, rec{delta: d, val: "v-" + strconv.FormatInt(o, 10)})
	}
	if err := flush(base, cur, curMut); err != nil {
		return nil, err
	}
	art, err := storage.BuildSegment(storage.SegmentWriterConfig{IndexIntervalMessages: 1}, rbs, time.UnixMilli(1726000000000))
	if err != nil {
		return nil, err
	}
	return art.SegmentBytes, nil
}

type c33Outcome struct {
	recs []decoder.Record
	err  error
}

type c33ReplayDecoder struct {
	w     *c33World
	clean map[int]c33Outcome
	fault map[[2]int]c33Outcome // (cycle, segment)
}

// c33ValueSink identifies every delivered record by its value.
type c33ValueSink struct{ w *c33World }

func (s *c33ValueSink) Write(ctx context.Context, records []sink.Record) error {
	if len(records) == 0 {
		return nil
	}
	offs := make([]int64, 0, len(records))
	for _, r := range records {
		v := string(c33SinkValue(r))
		o, err := strconv.ParseInt(strings.TrimPrefix(v, "v-"), 10, 64)
		if err != nil || !strings.HasPrefix(v, "v-") {
			s.w.Note("sink-got-unknown-value(%q)", v)
			continue
		}
		offs = append(offs, o)
	}
	return s.w.OnSink(records[0].Partition, offs)
}
func (s *c33ValueSink) Close(ctx context.Context) error { return nil }

const (
	c33DeltaFinding    = "C33-record-offset-delta-trusted"
	c33BatchLenFinding = "C33-batchlength-truncates-segment-silently"
	c33TrailFinding    = "C33-trailing-batch-base-offset-trusted"
)

// Mutations of the client-written record set that holds the chosen record (all are accepted
// and stored unchanged by the produce path, which reads only base offset, lastOffsetDelta and
// record count from the first 61 bytes):
//   bl:*    the batchLength field (bytes 8..12) says 0 / 0x7fffffff / 0xffffffff / 7 too many
//   trail:* a second batch is appended to the record set, with a client-written base offset
var c33BlobKinds = []string{"bl:zero", "bl:maxint32", "bl:allones", "bl:plus7", "trail:2^60", "trail:ahead"}

func c33MutFinding(kind string) string {
	switch {
	case strings.HasPrefix(kind, "bl:"):
		return c33BatchLenFinding
	case strings.HasPrefix(kind, "trail:"):
		return c33TrailFinding
	default:
		return c33DeltaFinding
	}
}

// c33DeltaKinds: how the planted record's offsetDelta differs from its index in the batch.
var c33DeltaKinds = []string{"far-ahead", "ahead", "negative", "duplicate", "far-ahead", "ahead-by-one"}

func c33HostileDelta(kind string, index int) int64 {
	switch kind {
	case "far-ahead":
		return 1 << 29 // fits the sql decoder's 32-bit varint as well
	case "ahead":
		return int64(index) + 3
	case "ahead-by-one":
		return int64(index) + 1
	case "negative":
		return int64(index) - 4
	default: // duplicate of the previous record's delta (or of the next one for the first record)
		if index == 0 {
			return 1
		}
		return int64(index) - 1
	}
}

func (d *c33ReplayDecoder) Decode(ctx context.Context, segmentKey, indexKey, topic string, partition int32) ([]decoder.Record, error) {
	_, idx, cycle, fault, err := d.w.OnDecode(segmentKey)
	if err != nil {
		return nil, err
	}
	out := d.clean[idx]
	if fault != "" {
		out = d.fault[[2]int{cycle, idx}]
		if out.err == nil {
			d.w.Note("decode-%s-reported-ok(seg%d,%d records)", fault, idx, len(out.recs))
		}
	}
	if out.err != nil {
		d.w.DecodeFailed(idx, fault)
		return nil, out.err
	}
	return append([]decoder.Record(nil), out.recs...), nil
}

func TestVF_C33_S3Decode(t *testing.T) {
	c33TestSetup(t)
	st := vfkit.NewStats("C33", c33Mod+"-s3")
	defer st.Flush()
	c33AWSEnv()
	s3 := c33NewS3Fake()
	defer s3.srv.Close()
	real, err := decoder.New(c33DecoderConfig(s3.srv.URL))
	if err != nil {
		fmt.Println("VF-INCONCLUSIVE: decoder.New against the in-process S3 endpoint failed:", err)
		t.Fatalf("decoder.New: %v", err)
	}
	caseNo := 0
	rapid.Check(t, func(rt *rapid.T) {
		p := c33GenPlan(rt, c33Mod, false)
		p.Store = "real" // the shipped noop store is covered by the sql leg
		// turn the scheduled decode faults into download faults against the real decoder
		var keys []c33FaultKey
		for k := range p.Faults {
			if k.Site == "decode" {
				keys = append(keys, k)
			}
		}
		sort.Slice(keys, func(i, j int) bool {
			if keys[i].Cycle != keys[j].Cycle {
				return keys[i].Cycle < keys[j].Cycle
			}
			return keys[i].Seg < keys[j].Seg
		})
		// make sure the interesting shape is frequent: a download fault on a segment that is
		// not the last one listed in that cycle
		if len(p.Segs) > 1 && rapid.Bool().Draw(rt, "force-download-fault") {
			c := rapid.IntRange(0, p.Cycles-1).Draw(rt, "forced-cycle")
			if p.Visible[c] > 1 {
				k := c33FaultKey{c, rapid.IntRange(0, p.Visible[c]-2).Draw(rt, "forced-seg"), "decode"} // a partition-A segment that is not the last one listed
				if _, ok := p.Faults[k]; !ok {
					for _, site := range []string{"load", "sink", "commit"} {
						delete(p.Faults, c33FaultKey{k.Cycle, k.Seg, site})
					}
					keys = append(keys, k)
				}
			}
		}
		cuts := map[c33FaultKey]int{}
		for _, k := range keys {
			kind := rapid.SampledFrom([]string{"truncate", "truncate", "truncate", "http503", "before"}).Draw(rt, "download-fault")
			p.Faults[k] = kind
			if kind == "truncate" {
				cuts[k] = rapid.IntRange(0, 1000).Draw(rt, "cut-permille")
			}
		}
		// a record whose own offsetDelta disagrees with its position in the batch
		deltaSeg, deltaAt, deltaKind := -1, -1, ""
		if rapid.IntRange(0, 2).Draw(rt, "plant-offset-delta") == 0 {
			deltaKind = rapid.SampledFrom(append(append([]string(nil), c33DeltaKinds...), c33BlobKinds...)).Draw(rt, "mutation-kind")
			if id := c33MutFinding(deltaKind); vfkit.Known(id) {
				p.Excluded[id] = true
				deltaKind = ""
			} else {
				deltaSeg = rapid.IntRange(0, len(p.Segs)-1).Draw(rt, "delta-segment")
				if p.Segs[deltaSeg].N > 8 {
					deltaAt = rapid.SampledFrom([]int{0, 1, p.Segs[deltaSeg].N - 1}).Draw(rt, "delta-record-large")
				} else {
					deltaAt = rapid.IntRange(0, p.Segs[deltaSeg].N-1).Draw(rt, "delta-record")
				}
				st.Class("mutation:" + deltaKind)
			}
		}
		caseNo++
		prefix := fmt.Sprintf("case-%d/", caseNo)
		splits := make([][]bool, len(p.Segs))
		objLen := make([]int, len(p.Segs))
		for i := range p.Segs {
			p.Segs[i].Key = prefix + p.Segs[i].Key
			splits[i] = make([]bool, p.Segs[i].N)
			for j := 1; j < p.Segs[i].N; j++ {
				if p.Segs[i].N > 8 {
					splits[i][j] = j%512 == 0
				} else {
					splits[i][j] = rapid.Bool().Draw(rt, "new-batch")
				}
			}
			at, kind := -1, ""
			if i == deltaSeg {
				at, kind = deltaAt, deltaKind
			}
			b, err := c33SegmentBytes(p.Segs[i], splits[i], at, kind)
			if err != nil {
				rt.Fatalf("harness: BuildSegment: %v", err)
			}
			objLen[i] = len(b)
			s3.mu.Lock()
			s3.objs[p.Segs[i].Key] = b
			s3.mu.Unlock()
		}
		defer func() {
			s3.mu.Lock()
			for i := range p.Segs {
				delete(s3.objs, p.Segs[i].Key)
			}
			s3.mu.Unlock()
		}()

		// phase 1: the real decoder against the endpoint
		rd := &c33ReplayDecoder{clean: map[int]c33Outcome{}, fault: map[[2]int]c33Outcome{}}
		ctx := context.Background()
		for i, s := range p.Segs {
			recs, err := real.Decode(ctx, s.Key, s.Key+".index", c33Topic, s.Part)
			if i == deltaSeg && c33MutFinding(deltaKind) != c33DeltaFinding {
				// a hostile record set: whatever the real decoder makes of it is replayed; a decoder
				// that fails loudly blocks the partition at this segment instead of losing records
				rd.clean[i] = c33Outcome{recs: recs, err: err}
				if err != nil {
					st.Class("hostile-record-set-rejected-loudly")
					if cur, ok := p.LoudFrom[s.Part]; !ok || s.Base < cur {
						p.LoudFrom[s.Part] = s.Base
					}
				}
				continue
			}
			if err != nil {
				fmt.Println("VF-INCONCLUSIVE: intact download through the in-process S3 endpoint failed:", err)
				rt.Fatalf("harness: clean Decode(%s): %v", s.Key, err)
			}
			if len(recs) != s.N {
				rt.Fatalf("real decoder returned %d records for an intact download of a %d-record segment", len(recs), s.N)
			}
			for j, r := range recs {
				if string(r.Value) != "v-"+strconv.FormatInt(s.Base+int64(j), 10) {
					rt.Fatalf("real decoder returned value %q at position %d of segment base %d", r.Value, j, s.Base)
				}
				if i != deltaSeg && r.Offset != s.Base+int64(j) {
					rt.Fatalf("real decoder returned offset %d at position %d of segment base %d", r.Offset, j, s.Base)
				}
			}
			rd.clean[i] = c33Outcome{recs: recs}
		}
		truncOK := 0
		for k, kind := range p.Faults {
			if k.Site != "decode" || kind == "before" {
				continue
			}
			s := p.Segs[k.Seg]
			s3.mu.Lock()
			if kind == "truncate" {
				s3.cut[s.Key] = 1 + cuts[k]*(objLen[k.Seg]-2)/1000
			} else {
				s3.status[s.Key] = http.StatusServiceUnavailable
			}
			s3.mu.Unlock()
			recs, err := real.Decode(ctx, s.Key, s.Key+".index", c33Topic, s.Part)
			rd.fault[[2]int{k.Cycle, k.Seg}] = c33Outcome{recs: recs, err: err}
			if err == nil {
				truncOK++
			}
		}
		s3.mu.Lock()
		bad := append([]string(nil), s3.bad...)
		s3.mu.Unlock()
		if len(bad) > 0 {
			fmt.Println("VF-INCONCLUSIVE: the S3 fake saw requests it does not model:", bad)
			rt.Fatalf("harness: unexpected S3 requests %v", bad)
		}
		if truncOK > 0 {
			st.Class("faulty-download-reported-as-success")
		}

		// phase 2: the polling loop under the fake clock, replaying the recorded outcomes
		c33Check(rt, t, st, p, func(t *testing.T, p *c33Plan, w *c33World) error {
			rd.w = w
			proc := c33NewProcessor(&c33Lister{w: w}, rd, &c33Store{w: w}, &c33ValueSink{w: w})
			return c33RunBubble(t, p, w, proc.Run)
		})
	})
}

// TestVF_C33_S3DeltaWitness: one minimal plan per finding of this leg. Segments [0..1] and
// [2..3], both listed, no failure injected anywhere; the record set holding record 1 (resp. 0)
// of the first segment carries the mutation.
func TestVF_C33_S3DeltaWitness(t *testing.T) {
	c33TestSetup(t)
	st := vfkit.NewStats("C33", c33Mod+"-s3-witness")
	defer st.Flush()
	c33AWSEnv()
	s3 := c33NewS3Fake()
	defer s3.srv.Close()
	real, err := decoder.New(c33DecoderConfig(s3.srv.URL))
	if err != nil {
		fmt.Println("VF-INCONCLUSIVE: decoder.New against the in-process S3 endpoint failed:", err)
		t.Fatalf("decoder.New: %v", err)
	}
	for wi, wit := range []struct {
		id, kind, what string
		at         int
	}{
		{c33DeltaFinding, "far-ahead", "record 1 of the first segment carries offsetDelta 2^29 (batch header consistent)", 1},
		{c33BatchLenFinding, "bl:zero", "the record set of the first segment has batchLength 0 in bytes 8..12", 0},
		{c33BatchLenFinding, "bl:maxint32", "the record set of the first segment has batchLength 0x7fffffff", 0},
		{c33TrailFinding, "trail:2^60", "the record set of the first segment is followed by a second batch with base offset 2^60", 0},
	} {
		st.Eval()
		p := c33NewPlan(c33Mod, "real")
		p.Cycles = 1
		pre := fmt.Sprintf("witness-%d/", wi)
		p.Segs = []c33Seg{{Part: c33PartA, Base: 0, N: 2, Key: pre + c33SegKey(c33PartA, 0)}, {Part: c33PartA, Base: 2, N: 2, Key: pre + c33SegKey(c33PartA, 2)}}
		p.NA, p.Visible = 2, []int{2}
		rd := &c33ReplayDecoder{clean: map[int]c33Outcome{}, fault: map[[2]int]c33Outcome{}}
		for i, sg := range p.Segs {
			at, kind := -1, ""
			if i == 0 {
				at, kind = wit.at, wit.kind
			}
			b, err := c33SegmentBytes(sg, make([]bool, sg.N), at, kind)
			if err != nil {
				t.Fatalf("harness: %v", err)
			}
			s3.mu.Lock()
			s3.objs[sg.Key] = b
			s3.mu.Unlock()
			recs, err := real.Decode(context.Background(), sg.Key, sg.Key+".index", c33Topic, sg.Part)
			rd.clean[i] = c33Outcome{recs: recs, err: err}
			if err != nil && i == 0 {
				p.LoudFrom[sg.Part] = sg.Base
			}
		}
		w := c33NewWorld(&p)
		rd.w = w
		proc := c33NewProcessor(&c33Lister{w: w}, rd, &c33Store{w: w}, &c33ValueSink{w: w})
		if err := c33RunBubble(t, &p, w, proc.Run); err != nil {
			t.Fatalf("witness: Run returned %v", err)
		}
		v := w.finish()
		for _, m := range v {
			if strings.HasPrefix(m, "harness:") {
				fmt.Println("VF-INCONCLUSIVE: " + m)
				t.Fatalf("%s", m)
			}
		}
		t.Logf("%s [%s] -> %v (trace %s)", wit.id, wit.kind, v, strings.Join(w.trace, " "))
		what := "segments [0..1],[2..3], no failures; " + wit.what
		if len(v) > 0 {
			st.KnownResult(wit.id, true, what+": "+v[0])
		} else if _, failing := st.Known[wit.id]; !failing {
			st.KnownResult(wit.id, false, what+": no violation")
		}
	}
}
