//go:build verif

package processor

// C33 core (identical copies in the iceberg, sql and skeleton processor packages; only
// stdlib + rapid + vfkit). It owns the plan (partitions, segments, per-cycle visibility,
// fault schedule incl. lease renewal failures and refused claims), the world the fakes
// report to, and the oracle:
//
//	safety, at every effective CommitOffset(partition, o): every record of that partition
//	  with offset <= o has been part of a successful sink.Write;
//	bounded completeness: after the clean cycles every record of every completed segment of
//	  the partition the worker holds has been written at least once (including offset 0).
//
// The per-module file builds the real Processor from fakes that call the On* methods.

import (
	"context"
	"fmt"
	"net/url"
	"sort"
	"strings"
	"sync"
	"testing"
	"testing/synctest"
	"time"

	"pgregory.net/rapid"
	"verif.local/vfkit"
)

type c33Seg struct {
	Part int32
	Base int64
	N    int
	Key  string
}

type c33FaultKey struct {
	Cycle int
	Seg   int // index into Plan.Segs; -1 for cycle-level sites
	Site  string
}

type c33Plan struct {
	Mod       string
	Store     string // "real": fake store with etcd-store semantics (-1 when nothing committed); "noop": the module's shipped noopStore as-is
	Start     int64
	Segs      []c33Seg // partition A's segments (base order), then partition B's
	NA        int      // number of segments of partition A
	Visible   []int    // per fault cycle: number of listed segments of partition A; afterwards all. Partition B is always fully listed.
	Cycles    int      // cycles that may carry faults
	Clean     int      // fault-free cycles afterwards
	Faults    map[c33FaultKey]string
	Lfs       map[[2]int64]bool   // (partition, offset) whose value is an LFS envelope (iceberg only)
	LfsFaults map[[3]int64]string // (cycle, partition, offset) -> kind of error the blob fetch returns (see c33LfsErr)
	SinkCall  map[[2]int]bool     // (cycle, k): the k-th sink.Write call of that polling cycle fails (whatever it carries)
	RenewFail map[int]bool        // ordinal (1-based) of the RenewLease calls that fail
	Blocked   map[[2]int]bool     // (cycle, partition): ClaimLease refused, the lease is held by another worker
	LoudFrom  map[int32]int64     // partition -> base offset of a segment the real decoder rejects with an error (hostile record set): the partition is blocked there, which is allowed; completeness is only required below it
	Excluded  map[string]bool     // known-finding ids this plan was steered away from
	StickyF1  bool                // after a segment-level failure, fail the rest of the cycle (exclusion of the skip-failed-segment finding)
}

const (
	c33Topic = "orders"
	c33PartA = int32(3)
	c33PartB = int32(5)
)

func c33SkipID(mod string) string { return "C33-" + mod + "-skip-failed-segment" }
func c33NoopID(mod string) string { return "C33-" + mod + "-noop-store-offset0" }
func c33LfsID(mod string) string  { return "C33-" + mod + "-lfs-failure-drops-record" }

// Kinds of error a blob download can fail with while the processor's own context is alive:
// a plain S3 error, a client-side timeout (context.DeadlineExceeded, bare, wrapped the way
// the SDK / net/http wrap it) and an interrupted attempt (context.Canceled, bare or wrapped).
// All of them are transient: the record must be retried, not dropped.
var c33LfsKinds = []string{"plain", "deadline", "canceled", "wrapped-deadline", "wrapped-canceled", "url-timeout", "plain", "deadline"}

func c33LfsErr(kind string) error {
	switch kind {
	case "deadline":
		return context.DeadlineExceeded
	case "canceled":
		return context.Canceled
	case "wrapped-deadline":
		return fmt.Errorf("operation error S3: GetObject, https response error StatusCode: 0, RequestID: , request send failed: %w", context.DeadlineExceeded)
	case "wrapped-canceled":
		return fmt.Errorf("operation error S3: GetObject, canceled attempt: %w", context.Canceled)
	case "url-timeout":
		return &url.Error{Op: "Get", URL: "http://s3.local/b/blob", Err: context.DeadlineExceeded}
	default:
		return errC33Injected
	}
}

// weighted choices (rapid favours early entries a little, hence "none" first)
var (
	c33CycleFaults = []string{"none", "none", "none", "none", "none", "none", "none", "none", "list", "claim", "none", "none"}
	c33SinkCallChoice = []int{0, 0, 2, 1, 2, 3, 0, 2}
	c33BigChoice   = []string{"normal", "normal", "normal", "normal", "normal", "normal", "normal", "normal", "normal", "normal", "normal", "normal", "normal", "normal", "normal", "normal", "normal", "normal", "normal", "large", "normal", "normal", "normal", "normal"}
	c33SegFaults   = []string{"none", "none", "none", "none", "none", "none", "decode", "sink", "load", "commit-before", "commit-after", "sink", "decode", "none", "none", "none"}
)

func c33SegKey(part int32, base int64) string { return fmt.Sprintf("p%d/seg-%020d", part, base) }

func c33NewPlan(mod, store string) c33Plan {
	return c33Plan{Mod: mod, Store: store, Faults: map[c33FaultKey]string{}, Lfs: map[[2]int64]bool{}, LfsFaults: map[[3]int64]string{},
		SinkCall: map[[2]int]bool{}, RenewFail: map[int]bool{}, LoudFrom: map[int32]int64{}, Blocked: map[[2]int]bool{}, Excluded: map[string]bool{}, Clean: 2}
}

// c33GenPlan draws a plan. withLfs enables LFS envelopes (iceberg).
func c33GenPlan(t *rapid.T, mod string, withLfs bool) c33Plan {
	p := c33NewPlan(mod, rapid.SampledFrom([]string{"real", "real", "real", "real", "real", "noop"}).Draw(t, "store"))
	p.Start = rapid.SampledFrom([]int64{0, 0, 0, 1, 7, 1000}).Draw(t, "start")
	if p.Store == "noop" && p.Start == 0 && vfkit.Known(c33NoopID(mod)) {
		p.Start = 1
		p.Excluded[c33NoopID(mod)] = true
	}
	p.StickyF1 = vfkit.Known(c33SkipID(mod))
	// a few cases per run carry one LARGE segment, sized just above the row counts at which a
	// processor might split the hand-over to the sink (1000, 1024, 2048, 4096, 5000, 8192, 10000)
	big := rapid.SampledFrom(c33BigChoice).Draw(t, "large-segment") == "large"
	ns := rapid.IntRange(1, 5).Draw(t, "segments")
	bigAt := -1
	if big {
		ns = rapid.IntRange(1, 3).Draw(t, "segments-large-case")
		bigAt = rapid.IntRange(0, ns-1).Draw(t, "large-at")
	}
	off := p.Start
	for i := 0; i < ns; i++ {
		n := rapid.IntRange(1, 4).Draw(t, "records")
		if i == bigAt {
			n = rapid.SampledFrom([]int{1001, 1025, 2049, 4097, 5001, 5001, 8193, 10001, 12000}).Draw(t, "large-records")
		}
		p.Segs = append(p.Segs, c33Seg{Part: c33PartA, Base: off, N: n, Key: c33SegKey(c33PartA, off)})
		off += int64(n)
	}
	p.NA = ns
	// lease movement: a second partition of the same topic, lease renewal failures and claims
	// refused because another worker holds the lease
	lease := rapid.SampledFrom([]string{"none", "none", "none", "renew", "two-partitions", "handoff", "handoff"}).Draw(t, "lease-scenario")
	if p.Store == "noop" {
		lease = "none"
	}
	if lease == "two-partitions" || lease == "handoff" {
		nb := rapid.IntRange(1, 6).Draw(t, "segments-b")
		offB := rapid.SampledFrom([]int64{p.Start, p.Start, 0, p.Start + 2}).Draw(t, "start-b")
		for i := 0; i < nb; i++ {
			n := rapid.IntRange(1, 4).Draw(t, "records-b")
			p.Segs = append(p.Segs, c33Seg{Part: c33PartB, Base: offB, N: n, Key: c33SegKey(c33PartB, offB)})
			offB += int64(n)
		}
	}
	p.Cycles = rapid.IntRange(1, 4).Draw(t, "fault-cycles")
	if lease == "handoff" {
		p.Cycles = rapid.IntRange(3, 4).Draw(t, "fault-cycles-handoff")
	}
	vis := rapid.IntRange(1, ns).Draw(t, "visible0")
	lfsMode := withLfs && rapid.Bool().Draw(t, "lfs")
	if lfsMode {
		for _, s := range p.Segs {
			if s.N > 8 {
				continue
			}
			for o := s.Base; o < s.Base+int64(s.N); o++ {
				if rapid.IntRange(0, 3).Draw(t, "is-lfs") == 0 {
					p.Lfs[[2]int64{int64(s.Part), o}] = true
				}
			}
		}
	}
	for c := 0; c < p.Cycles; c++ {
		p.Visible = append(p.Visible, vis)
		switch rapid.SampledFrom(c33CycleFaults).Draw(t, "cycle-fault") {
		case "list":
			p.Faults[c33FaultKey{c, -1, "list"}] = "before"
		case "claim":
			p.Faults[c33FaultKey{c, -1, "claim"}] = "before"
		}
		for s := range p.Segs {
			if s < p.NA && s >= vis {
				continue
			}
			switch f := rapid.SampledFrom(c33SegFaults).Draw(t, "seg-fault"); f {
			case "load", "decode", "sink":
				p.Faults[c33FaultKey{c, s, f}] = "before"
			case "commit-before":
				p.Faults[c33FaultKey{c, s, "commit"}] = "before"
			case "commit-after":
				p.Faults[c33FaultKey{c, s, "commit"}] = "after"
			}
			if lfsMode {
				seg := p.Segs[s]
				for o := seg.Base; o < seg.Base+int64(seg.N); o++ {
					if p.Lfs[[2]int64{int64(seg.Part), o}] && rapid.IntRange(0, 5).Draw(t, "lfs-fault") == 0 {
						if vfkit.Known(c33LfsID(mod)) {
							p.Excluded[c33LfsID(mod)] = true
						} else {
							p.LfsFaults[[3]int64{int64(c), int64(seg.Part), o}] = rapid.SampledFrom(c33LfsKinds).Draw(t, "lfs-error-kind")
						}
					}
				}
			}
		}
		if vis < ns {
			vis += rapid.IntRange(0, ns-vis).Draw(t, "newly-completed")
		}
		// a sink failure addressed by call number within the cycle, not by segment
		if k := rapid.SampledFrom(c33SinkCallChoice).Draw(t, "sink-call-fails"); k > 0 && (big || rapid.IntRange(0, 3).Draw(t, "sink-call-any") == 0) {
			p.SinkCall[[2]int{c, k}] = true
		}
		if lease != "none" {
			for _, part := range []int32{c33PartA, c33PartB} {
				if rapid.IntRange(0, 7).Draw(t, "claim-refused") == 0 {
					p.Blocked[[2]int{c, int(part)}] = true
				}
			}
		}
	}
	switch lease {
	case "renew", "two-partitions":
		for k := 1; k <= 3; k++ {
			if rapid.IntRange(0, 3).Draw(t, "renew-fails") == 0 {
				p.RenewFail[k] = true
			}
		}
	case "handoff":
		// the worker advances partition A, a renewal fails, A is then held by another worker
		// for the rest of the fault cycles, so the next successful claim is partition B
		k := rapid.IntRange(1, 2).Draw(t, "renew-fail-ordinal")
		p.RenewFail[k] = true
		for c := 1; c < p.Cycles; c++ {
			p.Blocked[[2]int{c, int(c33PartA)}] = true
			delete(p.Blocked, [2]int{c, int(c33PartB)})
		}
		delete(p.Blocked, [2]int{0, int(c33PartA)})
		delete(p.Faults, c33FaultKey{0, -1, "list"})
		delete(p.Faults, c33FaultKey{0, -1, "claim"})
	}
	return p
}

// ---- world -------------------------------------------------------------------------------

type c33World struct {
	mu           sync.Mutex
	p            *c33Plan
	cycle        int   // index of the current polling cycle (-1 before the first list)
	visible      []int // segment indices listed in the current cycle
	loadCalls    int
	claimCalls   int
	sinkCalls    int
	renewCalls   int
	failedCycle  bool // a segment-level failure happened in this cycle
	firstFailSeg int
	committed    map[int32]int64
	hasCommit    map[int32]bool
	delivered    map[[2]int64]int
	attempted    map[int]int // segment index -> first cycle in which it failed
	leased       int32       // partition currently leased, -1 none
	lastHeld     int32
	finalLease   int32
	violations   []string
	trace        []string
	f1Shape      bool // failure on seg i, later successful write of seg j>i in the same cycle
	retried      bool // a segment that failed in one cycle was written in a later one
	stickyFired  bool
	zeroEmpty    bool // offset 0 delivered while nothing had been committed
	leaseMoved   bool // a lease for another partition than the one held before was claimed
	leaseLost    bool
}

func c33NewWorld(p *c33Plan) *c33World {
	return &c33World{p: p, cycle: -1, delivered: map[[2]int64]int{}, attempted: map[int]int{}, firstFailSeg: -1,
		committed: map[int32]int64{}, hasCommit: map[int32]bool{}, leased: -1, lastHeld: -1, finalLease: -2}
}

func (w *c33World) fault(seg int, site string) string {
	if w.cycle >= w.p.Cycles {
		return ""
	}
	return w.p.Faults[c33FaultKey{w.cycle, seg, site}]
}

func (w *c33World) note(format string, a ...any) {
	w.trace = append(w.trace, fmt.Sprintf("c%d:", w.cycle)+fmt.Sprintf(format, a...))
}

func (w *c33World) segFailed(seg int, site string) {
	if !w.failedCycle || seg < w.firstFailSeg {
		w.firstFailSeg = seg
	}
	w.failedCycle = true
	if _, ok := w.attempted[seg]; !ok {
		w.attempted[seg] = w.cycle
	}
	w.note("%s-fail(seg%d)", site, seg)
}

var errC33Injected = fmt.Errorf("injected transient failure")

func (w *c33World) segIndex(part int32, o int64) int {
	for i, s := range w.p.Segs {
		if s.Part == part && o >= s.Base && o < s.Base+int64(s.N) {
			return i
		}
	}
	return -1
}

// OnList starts a polling cycle and returns the indices of the listed segments (partition
// order, then base offset order, as the S3 lister sorts them).
func (w *c33World) OnList() ([]int, error) {
	w.mu.Lock()
	defer w.mu.Unlock()
	w.cycle++
	w.loadCalls, w.claimCalls, w.sinkCalls, w.failedCycle, w.firstFailSeg = 0, 0, 0, false, -1
	w.visible = nil
	if w.fault(-1, "list") != "" {
		w.note("list-fail")
		return nil, errC33Injected
	}
	na := w.p.NA
	if w.cycle < len(w.p.Visible) {
		na = w.p.Visible[w.cycle]
	}
	for i := range w.p.Segs {
		if i < w.p.NA && i >= na {
			continue
		}
		w.visible = append(w.visible, i)
	}
	return append([]int(nil), w.visible...), nil
}

func (w *c33World) OnClaim(part int32) error {
	w.mu.Lock()
	defer w.mu.Unlock()
	w.claimCalls++
	if w.claimCalls == 1 && w.fault(-1, "claim") != "" {
		w.note("claim-fail(p%d)", part)
		return errC33Injected
	}
	if w.cycle < w.p.Cycles && w.p.Blocked[[2]int{w.cycle, int(part)}] {
		w.note("claim-refused(p%d)", part)
		return fmt.Errorf("lease already held")
	}
	if w.lastHeld >= 0 && w.lastHeld != part {
		w.leaseMoved = true
	}
	w.leased, w.lastHeld = part, part
	w.note("claim(p%d)", part)
	return nil
}

func (w *c33World) OnRenew() error {
	w.mu.Lock()
	defer w.mu.Unlock()
	w.renewCalls++
	if w.p.RenewFail[w.renewCalls] {
		w.leaseLost = true
		w.note("renew-fail#%d", w.renewCalls)
		return errC33Injected
	}
	return nil
}

func (w *c33World) OnRelease() {
	w.mu.Lock()
	defer w.mu.Unlock()
	if w.finalLease == -2 { // a release after the snapshot is the shutdown path
		w.note("release(p%d)", w.leased)
	}
	w.leased = -1
}

// snapshotLease records which partition the worker holds when the scheduled cycles are over.
func (w *c33World) snapshotLease() {
	w.mu.Lock()
	defer w.mu.Unlock()
	w.finalLease = w.leased
}

// OnLoad is LoadOffset of the fake store with real semantics.
func (w *c33World) OnLoad(part int32) (int64, error) {
	w.mu.Lock()
	defer w.mu.Unlock()
	// the k-th LoadOffset of a cycle belongs to the k-th listed segment of that partition
	seg, k := -1, 0
	for _, i := range w.visible {
		if w.p.Segs[i].Part == part {
			if k == w.loadCalls {
				seg = i
				break
			}
			k++
		}
	}
	w.loadCalls++
	if seg >= 0 {
		if w.p.StickyF1 && w.failedCycle {
			if w.fault(seg, "load") == "" {
				w.stickyFired = true
			}
			w.note("load-fail-sticky(seg%d)", seg)
			return 0, errC33Injected
		}
		if w.fault(seg, "load") != "" {
			w.segFailed(seg, "load")
			return 0, errC33Injected
		}
	}
	if !w.hasCommit[part] {
		return -1, nil
	}
	return w.committed[part], nil
}

// OnDecode reports a Decode call. A "before" fault fails here (the fake decoder just returns
// the error). Any other fault kind (e.g. "truncate", "http503": faults that are played against
// a real decoder) is handed back to the module's decoder, which calls DecodeFailed if the real
// decoder reported an error.
func (w *c33World) OnDecode(key string) (seg c33Seg, idx int, cycle int, fault string, err error) {
	w.mu.Lock()
	defer w.mu.Unlock()
	for i, s := range w.p.Segs {
		if s.Key == key {
			f := w.fault(i, "decode")
			if f == "before" {
				w.segFailed(i, "decode")
				return s, i, w.cycle, f, errC33Injected
			}
			return s, i, w.cycle, f, nil
		}
	}
	w.violations = append(w.violations, "harness: decode of unknown segment key "+key)
	return c33Seg{}, -1, w.cycle, "", fmt.Errorf("unknown segment")
}

func (w *c33World) DecodeFailed(idx int, how string) {
	w.mu.Lock()
	defer w.mu.Unlock()
	w.segFailed(idx, "decode-"+how)
}

func (w *c33World) Note(format string, a ...any) {
	w.mu.Lock()
	defer w.mu.Unlock()
	w.note(format, a...)
}

func (w *c33World) OnLfsFetch(part int32, offset int64) error {
	w.mu.Lock()
	defer w.mu.Unlock()
	if w.cycle < w.p.Cycles {
		if kind := w.p.LfsFaults[[3]int64{int64(w.cycle), int64(part), offset}]; kind != "" {
			w.note("lfs-fail-%s(p%d/%d)", kind, part, offset)
			return c33LfsErr(kind)
		}
	}
	return nil
}

func (w *c33World) OnSink(part int32, offsets []int64) error {
	w.mu.Lock()
	defer w.mu.Unlock()
	if len(offsets) == 0 {
		return nil
	}
	seg := w.segIndex(part, offsets[0])
	w.sinkCalls++
	if w.fault(seg, "sink") != "" {
		w.segFailed(seg, "sink")
		return errC33Injected
	}
	if w.cycle < w.p.Cycles && w.p.SinkCall[[2]int{w.cycle, w.sinkCalls}] {
		w.segFailed(seg, fmt.Sprintf("sink-call#%d", w.sinkCalls))
		return errC33Injected
	}
	for _, o := range offsets {
		if o == 0 && !w.hasCommit[part] && w.delivered[[2]int64{int64(part), o}] == 0 {
			w.zeroEmpty = true
		}
		w.delivered[[2]int64{int64(part), o}]++
	}
	if w.failedCycle && w.firstFailSeg >= 0 && seg > w.firstFailSeg {
		w.f1Shape = true
	}
	if c, ok := w.attempted[seg]; ok && c < w.cycle {
		w.retried = true
	}
	w.note("write(p%d:%d..%d)", part, offsets[0], offsets[len(offsets)-1])
	return nil
}

// OnCommit is CommitOffset of the fake store; the safety oracle runs whenever the commit
// takes effect (also when the caller is told it failed afterwards).
func (w *c33World) OnCommit(part int32, offset int64) error {
	w.mu.Lock()
	defer w.mu.Unlock()
	seg := w.segIndex(part, offset)
	kind := w.fault(seg, "commit")
	if kind == "before" {
		w.note("commit-fail-before(p%d:%d)", part, offset)
		return errC33Injected
	}
	w.committed[part], w.hasCommit[part] = offset, true
	w.note("commit(p%d:%d)", part, offset)
	var missing []string
	for _, s := range w.p.Segs {
		if s.Part != part {
			continue
		}
		for o := s.Base; o < s.Base+int64(s.N) && o <= offset; o++ {
			if w.delivered[[2]int64{int64(part), o}] == 0 {
				missing = append(missing, fmt.Sprint(o))
			}
		}
	}
	if len(missing) > 0 {
		w.violations = append(w.violations, fmt.Sprintf("cycle %d: checkpoint of partition %d committed at offset %d but offsets [%s] of that partition were never part of a successful sink write", w.cycle, part, offset, c33Short(missing)))
	}
	if kind == "after" {
		w.note("commit-fail-after(p%d:%d)", part, offset)
		return errC33Injected
	}
	return nil
}

func c33Short(xs []string) string {
	if len(xs) > 8 {
		return strings.Join(xs[:8], ",") + fmt.Sprintf(",... (%d offsets)", len(xs))
	}
	return strings.Join(xs, ",")
}

// OnListReplay starts a polling cycle whose listing result was produced elsewhere (a real
// lister run against a fake object store outside the bubble): idx are the listed segments.
func (w *c33World) OnListReplay(idx []int, failed bool) {
	w.mu.Lock()
	defer w.mu.Unlock()
	w.cycle++
	w.loadCalls, w.claimCalls, w.sinkCalls, w.failedCycle, w.firstFailSeg = 0, 0, 0, false, -1
	w.visible = append([]int(nil), idx...)
	if failed {
		w.note("list-fail")
	}
}

func (p *c33Plan) leaseFaults() bool { return len(p.RenewFail)+len(p.Blocked) > 0 }

// finish runs the bounded-completeness oracle and returns all violations.
func (w *c33World) finish() []string {
	w.mu.Lock()
	defer w.mu.Unlock()
	out := append([]string(nil), w.violations...)
	if want := w.p.Cycles + w.p.Clean; w.cycle+1 != want {
		out = append(out, fmt.Sprintf("harness: %d polling cycles ran, %d were scheduled", w.cycle+1, want))
		return out
	}
	held := w.finalLease
	if held < 0 {
		if !w.p.leaseFaults() {
			out = append(out, fmt.Sprintf("after %d fault-free cycles the worker holds no partition lease although no claim was refused and no renewal failed", w.p.Clean))
		}
		return out
	}
	var missing []string
	for _, s := range w.p.Segs {
		if s.Part != held {
			continue
		}
		for o := s.Base; o < s.Base+int64(s.N); o++ {
			if lf, ok := w.p.LoudFrom[held]; ok && o >= lf {
				continue
			}
			if w.delivered[[2]int64{int64(held), o}] == 0 {
				missing = append(missing, fmt.Sprint(o))
			}
		}
	}
	if len(missing) > 0 {
		out = append(out, fmt.Sprintf("after %d fault-free cycles offsets [%s] of completed segments of the leased partition %d were never written to the sink (store=%s)", w.p.Clean, c33Short(missing), held, w.p.Store))
	}
	return out
}

func (p *c33Plan) describe() map[string]any {
	var fs []string
	for k, v := range p.Faults {
		fs = append(fs, fmt.Sprintf("c%d/seg%d/%s/%s", k.Cycle, k.Seg, k.Site, v))
	}
	for k, v := range p.LfsFaults {
		fs = append(fs, fmt.Sprintf("c%d/lfs@p%d:%d/%s", k[0], k[1], k[2], v))
	}
	for k := range p.RenewFail {
		fs = append(fs, fmt.Sprintf("renew#%d", k))
	}
	for k := range p.SinkCall {
		fs = append(fs, fmt.Sprintf("c%d/sink-call#%d", k[0], k[1]))
	}
	for k := range p.Blocked {
		fs = append(fs, fmt.Sprintf("c%d/claim-refused-p%d", k[0], k[1]))
	}
	sort.Strings(fs)
	var segs []string
	for _, s := range p.Segs {
		segs = append(segs, fmt.Sprintf("p%d:%d+%d", s.Part, s.Base, s.N))
	}
	return map[string]any{"store": p.Store, "segments": segs, "visible_a": p.Visible, "fault_cycles": p.Cycles, "faults": fs, "lfs_records": len(p.Lfs)}
}

// c33RunBubble runs the processor (run blocks until ctx is cancelled) for the scheduled
// number of polling cycles under the synctest fake clock. A panic of the Run goroutine is
// returned as an error.
func c33RunBubble(t *testing.T, p *c33Plan, w *c33World, run func(ctx context.Context) error) (runErr error) {
	synctest.Test(t, func(t *testing.T) {
		ctx, cancel := context.WithCancel(context.Background())
		done := make(chan error, 1)
		go func() {
			defer func() {
				if r := recover(); r != nil {
					done <- fmt.Errorf("panic in Processor.Run: %v", r)
				}
			}()
			done <- run(ctx)
		}()
		for i := 0; i < p.Cycles+p.Clean; i++ {
			time.Sleep(5 * time.Second)
			synctest.Wait()
		}
		w.snapshotLease()
		cancel()
		runErr = <-done
	})
	return runErr
}

// c33Check is the body shared by the rapid leg of every module.
func c33Check(rt *rapid.T, t *testing.T, st *vfkit.Stats, p c33Plan, exec func(t *testing.T, p *c33Plan, w *c33World) error) {
	st.Eval()
	w := c33NewWorld(&p)
	err := exec(t, &p, w)
	v := w.finish()
	for id := range p.Excluded {
		st.ExcludedCase(id)
	}
	if w.stickyFired {
		st.ExcludedCase(c33SkipID(p.Mod))
	}
	st.Class("store:" + p.Store)
	if len(p.Faults)+len(p.LfsFaults)+len(p.RenewFail)+len(p.Blocked)+len(p.SinkCall) == 0 {
		st.Class("no-faults")
	}
	for k, v := range p.Faults {
		if k.Site == "decode" && v != "before" {
			st.Class("fault:decode-" + v)
		} else {
			st.Class("fault:" + k.Site)
		}
	}
	for _, kind := range p.LfsFaults {
		st.Class("fault:lfs-" + kind)
	}
	if len(p.RenewFail) > 0 {
		st.Class("fault:renew")
	}
	if len(p.SinkCall) > 0 {
		st.Class("fault:sink-call-k")
	}
	for _, sg := range p.Segs {
		if sg.N > 1000 {
			st.Class("large-segment")
			break
		}
	}
	if len(p.Blocked) > 0 {
		st.Class("fault:claim-refused")
	}
	if len(p.Segs) > p.NA {
		st.Class("two-partitions")
	}
	if w.leaseLost {
		st.Class("lease-lost")
	}
	if w.leaseMoved {
		st.Class("lease-moved-to-other-partition")
	}
	if w.f1Shape {
		st.Class("failure-then-later-segment-written")
	}
	if w.retried {
		st.Class("failed-segment-written-in-later-cycle")
	}
	if w.zeroEmpty {
		st.Class("offset0-with-empty-checkpoint")
	}
	if err != nil {
		rt.Fatalf("processor Run returned %v (plan %v)\ntrace: %s", err, p.describe(), strings.Join(w.trace, " "))
	}
	for _, m := range v {
		if strings.HasPrefix(m, "harness:") {
			fmt.Println("VF-INCONCLUSIVE: " + m)
		}
	}
	if len(v) > 0 {
		rt.Fatalf("%s\nplan: %v\ntrace: %s", strings.Join(v, "\n"), p.describe(), strings.Join(w.trace, " "))
	}
	if w.f1Shape || w.retried || w.zeroEmpty || w.leaseMoved {
		if st.NonTrivial(p.Store, p.Start, fmt.Sprint(p.describe()["segments"]), strings.Join(w.trace, " ")) {
			d := p.describe()
			d["trace"] = strings.Join(w.trace, " ")
			st.Sample(d)
		}
	}
}

// c33Witnesses replays one minimal hard-coded plan per (now fixed) finding through the same
// world / oracle (no steering) and records whether it still fails.
func c33Witnesses(t *testing.T, st *vfkit.Stats, mod string, withLfs bool, exec func(t *testing.T, p *c33Plan, w *c33World) error) {
	mk := func(store string, sizes ...int) c33Plan {
		p := c33NewPlan(mod, store)
		p.Cycles = 1
		off := int64(0)
		for _, n := range sizes {
			p.Segs = append(p.Segs, c33Seg{Part: c33PartA, Base: off, N: n, Key: c33SegKey(c33PartA, off)})
			off += int64(n)
		}
		p.NA = len(sizes)
		p.Visible = []int{len(sizes)}
		return p
	}
	run := func(id string, p c33Plan, what string) {
		st.Eval()
		w := c33NewWorld(&p)
		if err := exec(t, &p, w); err != nil {
			t.Fatalf("witness %s: Run returned %v", id, err)
		}
		v := w.finish()
		for _, m := range v {
			if strings.HasPrefix(m, "harness:") {
				fmt.Println("VF-INCONCLUSIVE: " + m)
				t.Fatalf("witness %s: %s", id, m)
			}
		}
		t.Logf("%s: %s -> %v (trace: %s)", id, what, v, strings.Join(w.trace, " "))
		if len(v) > 0 {
			st.KnownResult(id, true, what+": "+v[0])
		} else {
			st.KnownResult(id, false, what+": no violation")
		}
	}
	// a decode failure on the first of two segments, everything else healthy
	p1 := mk("real", 2, 2)
	p1.Faults[c33FaultKey{0, 0, "decode"}] = "before"
	run(c33SkipID(mod), p1, "segments [0..1],[2..3]; cycle 0: decode of the first segment fails once")
	// the shipped noop checkpoint store, one segment starting at offset 0, no failures at all
	p2 := mk("noop", 2)
	run(c33NoopID(mod), p2, "shipped noopStore, one segment [0..1], no failures")
	if withLfs {
		p3 := mk("real", 3)
		p3.Lfs[[2]int64{int64(c33PartA), 1}] = true
		p3.LfsFaults[[3]int64{0, int64(c33PartA), 1}] = "plain"
		run(c33LfsID(mod), p3, "segment [0..2], record 1 is an LFS envelope whose blob fetch fails once in cycle 0")
	}
}
