//go:build verif

package sql

import (
	"bufio"
	"fmt"
	"os"
	"reflect"
	"strconv"
	"strings"
	"testing"
	"unicode"
	"unicode/utf8"

	"pgregory.net/rapid"
	"verif.local/vfkit"
)

// C35: Parse(any text) returns (query|error), never panics; re-casing ASCII keywords of a
// query never changes the parsed query.
//
// Legs: nocrash (grammar + mutations + raw bytes), case (metamorphic keyword re-casing),
// witness (known finding), fuzz (thorough, native).

const c35FindingID = "C35-tolower-index-on-raw"     // crash: lower-cased copy longer than raw
const c35FindingCase = "C35-tolower-misslice-case" // same root cause, no crash: shifted slice puts keyword text into case-preserving fields

// ---------------------------------------------------------------- hazard runes

var (
	c35Grow   []rune // lower-case form is LONGER in UTF-8 than the rune itself
	c35Shrink []rune // lower-case form is shorter
)

func init() {
	for r := rune(0x80); r <= 0x1FFFF; r++ {
		if r >= 0xD800 && r <= 0xDFFF {
			continue
		}
		l := unicode.ToLower(r)
		if l == r {
			continue
		}
		a, b := utf8.RuneLen(r), utf8.RuneLen(l)
		if b > a {
			c35Grow = append(c35Grow, r)
		} else if b < a {
			c35Shrink = append(c35Shrink, r)
		}
	}
}

// c35Hazard is the input class of the known finding: at some explain-nesting level the
// text the parser lower-cases becomes LONGER (growing runes or invalid UTF-8 bytes, which
// strings.ToLower replaces by U+FFFD), so byte indices computed on the lower-cased copy can
// point past the end of the raw text.
func c35Hazard(q string) bool {
	for depth := 0; depth < 64; depth++ {
		t := strings.TrimSuffix(strings.TrimSpace(q), ";")
		l := strings.ToLower(t)
		if len(l) > len(t) {
			return true
		}
		f := strings.Fields(l)
		if len(f) == 0 || f[0] != "explain" {
			return false
		}
		tt := strings.TrimSpace(t)
		if !strings.HasPrefix(strings.ToLower(tt), "explain") || len(tt) < len("explain") {
			return false
		}
		q = tt[len("explain"):]
	}
	return false
}

func c35HasLenChanging(q string) bool {
	for i := 0; i < len(q); {
		r, w := utf8.DecodeRuneInString(q[i:])
		if r == utf8.RuneError && w == 1 {
			return true
		}
		if utf8.RuneLen(unicode.ToLower(r)) != w {
			return true
		}
		i += w
	}
	return false
}

// ---------------------------------------------------------------- query grammar

type c35Piece struct {
	S  string
	KW bool // ASCII keyword (re-casable without changing the meaning)
}

type c35B struct {
	t      *rapid.T
	p      []c35Piece
	hazard int // 0 none, 1 light mix, 2 heavy mix, 3 shrinking runes only
}

func (b *c35B) kw(s string)  { b.p = append(b.p, c35Piece{S: s, KW: true}) }
func (b *c35B) raw(s string) { b.p = append(b.p, c35Piece{S: s}) }

var c35Spaces = []string{" ", " ", " ", " ", "  ", "\t", "\n", " \n ", "\r\n"}
var c35OddSpaces = []string{" ", " ", "\u0085", "　"}

func (b *c35B) ws() {
	if rapid.IntRange(0, 39).Draw(b.t, "oddws") == 0 {
		b.raw(rapid.SampledFrom(c35OddSpaces).Draw(b.t, "odd"))
		return
	}
	b.raw(rapid.SampledFrom(c35Spaces).Draw(b.t, "ws"))
}

func (b *c35B) hazardRunes(label string) string {
	if b.hazard == 0 {
		return ""
	}
	max := 3
	if b.hazard == 2 {
		max = 12
	}
	n := rapid.IntRange(0, max).Draw(b.t, label+"n")
	var sb strings.Builder
	for i := 0; i < n; i++ {
		// weight growing runes: only they can push an index past the end
		if b.hazard != 3 && rapid.IntRange(0, 3).Draw(b.t, label+"g") != 0 {
			sb.WriteRune(rapid.SampledFrom(c35Grow).Draw(b.t, label+"gr"))
		} else {
			sb.WriteRune(rapid.SampledFrom(c35Shrink).Draw(b.t, label+"sr"))
		}
	}
	return sb.String()
}

var c35Names = []string{"orders", "payments", "t", "a1", "user_events", "o", "p", "x", "Orders", "T2", "amount", "status"}

func (b *c35B) ident() string {
	base := rapid.SampledFrom(c35Names).Draw(b.t, "name")
	if b.hazard == 0 {
		return base
	}
	h := b.hazardRunes("id")
	switch rapid.IntRange(0, 2).Draw(b.t, "idpos") {
	case 0:
		return h + base
	case 1:
		return base + h
	default:
		m := len(base) / 2
		return base[:m] + h + base[m:]
	}
}

func (b *c35B) jsonPath() string {
	p := rapid.SampledFrom([]string{"$.a", "$.status", "$.meta.id", "$.Items[0]", "$.x y"}).Draw(b.t, "path")
	return "'" + p + b.hazardRunes("jp") + "'"
}

var c35Implicit = []string{"_topic", "_partition", "_offset", "_ts", "_key", "_value", "_headers", "_segment"}

func (b *c35B) colRef() string {
	var c string
	if rapid.Bool().Draw(b.t, "implicit") {
		c = rapid.SampledFrom(c35Implicit).Draw(b.t, "icol")
	} else {
		c = b.ident()
	}
	if rapid.IntRange(0, 3).Draw(b.t, "qualified") == 0 {
		return b.ident() + "." + c
	}
	return c
}

func (b *c35B) optWS() {
	if rapid.IntRange(0, 2).Draw(b.t, "optws") == 0 {
		b.raw(" ")
	}
}

func (b *c35B) jsonFunc() {
	b.kw(rapid.SampledFrom([]string{"json_value", "json_query", "json_exists"}).Draw(b.t, "jf"))
	b.optWS()
	b.raw("(")
	b.optWS()
	if rapid.IntRange(0, 3).Draw(b.t, "jq") == 0 {
		b.raw(rapid.SampledFrom([]string{"o", "p", "orders"}).Draw(b.t, "jsrc") + "._value")
	} else {
		b.raw("_value")
	}
	b.optWS()
	b.raw(",")
	b.optWS()
	b.raw(b.jsonPath())
	b.optWS()
	b.raw(")")
}

func (b *c35B) column() {
	switch rapid.IntRange(0, 5).Draw(b.t, "colkind") {
	case 0, 1:
		b.raw(b.colRef())
	case 2:
		b.kw(rapid.SampledFrom([]string{"count", "min", "max", "sum", "avg"}).Draw(b.t, "agg"))
		b.optWS()
		b.raw("(")
		switch rapid.IntRange(0, 2).Draw(b.t, "aggarg") {
		case 0:
			b.raw("*")
		case 1:
			b.raw(b.colRef())
		default:
			b.kw("json_value")
			b.raw("(_value, " + b.jsonPath() + ")")
		}
		b.raw(")")
	case 3, 4:
		b.jsonFunc()
	default:
		b.raw("*")
	}
	switch rapid.IntRange(0, 3).Draw(b.t, "alias") {
	case 0:
		b.ws()
		b.kw("as")
		b.ws()
		b.raw(b.ident())
	case 1:
		b.ws()
		b.raw(b.ident()) // bare alias
	}
}

func (b *c35B) duration() string {
	return rapid.SampledFrom([]string{"5m", "1h", "24h", "7d", "10M", "1H", "90s", "x"}).Draw(b.t, "dur")
}

func (b *c35B) tsLiteral() string {
	return rapid.SampledFrom([]string{"1700000000000", "0", "'2024-01-02T03:04:05Z'", "'2024-01-02 03:04:05'", "'2024-01-02 03:04:05.123'", "'nonsense'", "-5"}).Draw(b.t, "tslit")
}

func (b *c35B) joinExpr() {
	if rapid.IntRange(0, 2).Draw(b.t, "jek") == 0 {
		b.kw("json_value")
		b.raw("(" + rapid.SampledFrom([]string{"o", "p", "orders", "payments"}).Draw(b.t, "jes") + "._value, " + b.jsonPath() + ")")
		return
	}
	b.raw(rapid.SampledFrom([]string{"o._key", "p._key", "_key", "orders._key", "x._value"}).Draw(b.t, "jec"))
}

func (b *c35B) selectStmt() {
	t := b.t
	b.kw("select")
	b.ws()
	switch rapid.IntRange(0, 5).Draw(t, "list") {
	case 0:
		b.raw("*")
		b.ws()
	case 1:
		// empty list: "select from t"
	default:
		n := rapid.IntRange(1, 4).Draw(t, "ncols")
		for i := 0; i < n; i++ {
			if i > 0 {
				b.optWS()
				b.raw(",")
				b.optWS()
			}
			b.column()
		}
		b.ws()
	}
	b.kw("from")
	b.ws()
	b.raw(b.ident())
	if rapid.IntRange(0, 2).Draw(t, "falias") == 0 {
		b.ws()
		b.raw(rapid.SampledFrom([]string{"o", "p", "x"}).Draw(t, "fa"))
	}
	if rapid.IntRange(0, 3).Draw(t, "join") == 0 {
		b.ws()
		if rapid.Bool().Draw(t, "left") {
			b.kw("left")
			b.ws()
		}
		b.kw("join")
		b.ws()
		b.raw(b.ident())
		if rapid.Bool().Draw(t, "jalias") {
			b.ws()
			b.raw(rapid.SampledFrom([]string{"o", "p", "x"}).Draw(t, "ja"))
		}
		if rapid.IntRange(0, 3).Draw(t, "on") != 0 {
			b.ws()
			b.kw("on")
			b.ws()
			b.joinExpr()
			b.optWS()
			b.raw("=")
			b.optWS()
			b.joinExpr()
		}
	}
	if rapid.IntRange(0, 2).Draw(t, "where") == 0 {
		b.ws()
		b.kw("where")
		n := rapid.IntRange(1, 3).Draw(t, "nf")
		for i := 0; i < n; i++ {
			if i > 0 {
				b.ws()
				b.kw("and")
			}
			b.ws()
			switch rapid.IntRange(0, 4).Draw(t, "fk") {
			case 0:
				b.raw("_partition")
				b.ws()
				b.raw("=")
				b.ws()
				b.raw(strconv.Itoa(rapid.IntRange(-1, 5).Draw(t, "part")))
			case 1:
				b.raw("_offset")
				b.ws()
				b.raw(">=")
				b.ws()
				b.raw(strconv.Itoa(rapid.IntRange(0, 1000).Draw(t, "omin")))
			case 2:
				b.raw("_offset")
				b.ws()
				b.raw("<=")
				b.ws()
				b.raw(strconv.Itoa(rapid.IntRange(0, 1000).Draw(t, "omax")))
			case 3:
				b.raw("_ts")
				b.ws()
				b.raw(rapid.SampledFrom([]string{">=", "<="}).Draw(t, "tsop"))
				b.ws()
				b.raw(b.tsLiteral())
			default:
				b.raw("_partition=1")
			}
		}
	}
	// trailing clauses in a generated order
	type clause func()
	clauses := []clause{
		func() {
			b.kw("group")
			b.raw(rapid.SampledFrom([]string{" ", " ", " ", "  ", "\n"}).Draw(t, "gbws"))
			b.kw("by")
			b.ws()
			n := rapid.IntRange(1, 3).Draw(t, "ngb")
			for i := 0; i < n; i++ {
				if i > 0 {
					b.raw(",")
					b.optWS()
				}
				b.raw(b.colRef())
			}
		},
		func() {
			b.kw("order")
			b.raw(rapid.SampledFrom([]string{" ", " ", " ", "  ", "\t"}).Draw(t, "obws"))
			b.kw("by")
			b.ws()
			b.raw(rapid.SampledFrom([]string{"_ts", "_ts", "_offset", "_TS"}).Draw(t, "obcol"))
			switch rapid.IntRange(0, 2).Draw(t, "dir") {
			case 0:
				b.ws()
				b.kw("desc")
			case 1:
				b.ws()
				b.kw("asc")
			}
		},
		func() { b.kw("limit"); b.ws(); b.raw(strconv.Itoa(rapid.IntRange(0, 100000).Draw(t, "lim"))) },
		func() { b.kw("last"); b.ws(); b.raw(b.duration()) },
		func() { b.kw("tail"); b.ws(); b.raw(strconv.Itoa(rapid.IntRange(0, 100).Draw(t, "tail"))) },
		func() { b.kw("within"); b.ws(); b.raw(b.duration()) },
		func() { b.kw("scan"); b.ws(); b.kw("full") },
		func() {
			if rapid.Bool().Draw(t, "tsbetween") {
				b.raw("_ts")
				b.ws()
				b.kw("between")
				b.ws()
				b.raw(b.tsLiteral())
				b.ws()
				b.kw("and")
				b.ws()
				b.raw(b.tsLiteral())
			} else {
				b.raw("_ts")
				b.optWS()
				b.raw(rapid.SampledFrom([]string{">=", "<="}).Draw(t, "tsop2"))
				b.optWS()
				b.raw(b.tsLiteral())
			}
		},
	}
	perm := rapid.Permutation([]int{0, 1, 2, 3, 4, 5, 6, 7}).Draw(t, "perm")
	k := rapid.IntRange(0, 4).Draw(t, "nclauses")
	for _, ci := range perm[:k] {
		b.ws()
		clauses[ci]()
	}
}

func (b *c35B) statement() string {
	t := b.t
	// rapid favours the ends of a range: keep select at both ends
	kind := rapid.SampledFrom([]int{5, 6, 3, 0, 1, 2, 4, 7, 8, 9}).Draw(t, "stmt")
	if rapid.IntRange(0, 5).Draw(t, "leadws") == 0 {
		b.ws()
	}
	name := "select"
	switch kind {
	case 0:
		name = "show-topics"
		b.kw("show")
		b.ws()
		b.kw("topics")
	case 1:
		name = "show-partitions"
		b.kw("show")
		b.ws()
		b.kw("partitions")
		b.ws()
		b.kw("from")
		b.ws()
		b.raw(b.ident())
	case 2:
		name = "describe"
		b.kw("describe")
		b.ws()
		b.raw(b.ident())
	case 3, 4:
		name = "explain"
		b.kw("explain")
		b.ws()
		if rapid.IntRange(0, 9).Draw(t, "explain2") == 0 {
			b.kw("explain")
			b.ws()
		}
		b.selectStmt()
	default:
		b.selectStmt()
	}
	switch rapid.IntRange(0, 3).Draw(t, "semi") {
	case 0:
		b.raw(";")
	case 1:
		b.raw(" ;\n")
	}
	return name
}

// Non-ASCII characters that strings.ToLower / unicode.SimpleFold / (?i) regexps relate to ASCII
// letters in different ways: U+0130 lower-cases to 'i' but does not fold with it, U+0131 upper-cases
// to 'I', U+017F folds with 's', U+212A lower-cases to and folds with 'k', fullwidth letters look
// like ASCII but never fold to it.
func c35FoldChar(t *rapid.T, c byte) string {
	lc := c | 0x20
	if lc < 'a' || lc > 'z' {
		return string(c)
	}
	switch rapid.IntRange(0, 5).Draw(t, "foldpick") {
	case 0, 1:
		switch lc {
		case 'i':
			return rapid.SampledFrom([]string{"İ", "ı", "İ"}).Draw(t, "foldi")
		case 's':
			return "ſ"
		case 'k':
			return "K"
		}
		return string(c)
	case 2:
		if rapid.IntRange(0, 2).Draw(t, "fullwidth") == 0 {
			if c >= 'a' {
				return string(rune(0xFF41 + int(c-'a')))
			}
			return string(rune(0xFF21 + int(c-'A')))
		}
		return string(c)
	case 3:
		return strings.ToUpper(string(c))
	}
	return string(c)
}

func c35FoldWord(t *rapid.T, s string) string {
	var sb strings.Builder
	for i := 0; i < len(s); i++ {
		if s[i] < 0x80 {
			sb.WriteString(c35FoldChar(t, s[i]))
		} else {
			sb.WriteByte(s[i])
		}
	}
	return sb.String()
}

// c35RenderFold re-spells most keywords and a few other pieces (implicit columns, names).
func c35RenderFold(t *rapid.T, p []c35Piece) string {
	var sb strings.Builder
	for _, x := range p {
		switch {
		case x.KW && rapid.IntRange(0, 2).Draw(t, "foldkw") != 0:
			sb.WriteString(c35FoldWord(t, x.S))
		case !x.KW && rapid.IntRange(0, 7).Draw(t, "foldother") == 0:
			sb.WriteString(c35FoldWord(t, x.S))
		default:
			sb.WriteString(x.S)
		}
	}
	return sb.String()
}

func c35Render(p []c35Piece) string {
	var sb strings.Builder
	for _, x := range p {
		sb.WriteString(x.S)
	}
	return sb.String()
}

var c35Junk = []string{"(", ")", ",", "'", "=", ">=", "<=", ";", ".", "*", " select ", " from ", " join ", " left join ", " on ",
	" group by ", " order by ", " where ", " as ", " explain ", " limit ", " last ", " tail ", " within ", " scan full ",
	"_ts >= ", "_ts between '", "' and '", "count(", "json_value(", "\xff", "\xc3", "\x00", "$1", "--", "/*", "pg_catalog."}

func c35Mutate(t *rapid.T, p []c35Piece) []c35Piece {
	n := rapid.IntRange(1, 4).Draw(t, "nmut")
	out := append([]c35Piece(nil), p...)
	for i := 0; i < n && len(out) > 0; i++ {
		at := rapid.IntRange(0, len(out)-1).Draw(t, "mat")
		switch rapid.IntRange(0, 4).Draw(t, "mkind") {
		case 0: // delete
			out = append(out[:at], out[at+1:]...)
		case 1: // duplicate
			out = append(out[:at+1], out[at:]...)
		case 2: // swap
			o := rapid.IntRange(0, len(out)-1).Draw(t, "mswap")
			out[at], out[o] = out[o], out[at]
		case 3: // insert junk
			j := rapid.SampledFrom(c35Junk).Draw(t, "junk")
			out = append(out[:at+1], append([]c35Piece{{S: j}}, out[at+1:]...)...)
		default: // insert a run of growing runes (index pressure)
			var sb strings.Builder
			k := rapid.IntRange(1, 40).Draw(t, "run")
			r := rapid.SampledFrom(c35Grow).Draw(t, "runr")
			for x := 0; x < k; x++ {
				sb.WriteRune(r)
			}
			out = append(out[:at+1], append([]c35Piece{{S: sb.String()}}, out[at+1:]...)...)
		}
	}
	return out
}

// ---------------------------------------------------------------- oracle helpers

func c35SafeParse(q string) (res Query, err error, panicked any) {
	defer func() {
		if r := recover(); r != nil {
			panicked = r
		}
	}()
	res, err = Parse(q)
	return
}

func c35ASCIILower(s string) string {
	b := []byte(s)
	for i, c := range b {
		if c >= 'A' && c <= 'Z' {
			b[i] = c + 32
		}
	}
	return string(b)
}

// c35Norm blanks the one field that quotes the query text verbatim (keywords included).
func c35Norm(q Query) Query {
	out := q
	if q.Select != nil {
		out.Select = make([]SelectColumn, len(q.Select))
		for i, c := range q.Select {
			c.Raw = c35ASCIILower(c.Raw)
			out.Select[i] = c
		}
	}
	if q.Explain != nil {
		inner := c35Norm(*q.Explain)
		out.Explain = &inner
	}
	return out
}

func c35Recase(t *rapid.T, p []c35Piece) (string, int) {
	var sb strings.Builder
	touched := 0
	for _, x := range p {
		if !x.KW {
			sb.WriteString(x.S)
			continue
		}
		var s string
		switch rapid.IntRange(0, 3).Draw(t, "case") {
		case 0:
			s = strings.ToLower(x.S)
		case 1:
			s = strings.ToUpper(x.S)
		case 2:
			s = strings.ToUpper(x.S[:1]) + x.S[1:]
		default:
			bs := []byte(x.S)
			for i := range bs {
				if bs[i] >= 'a' && bs[i] <= 'z' && rapid.Bool().Draw(t, "up") {
					bs[i] -= 32
				}
			}
			s = string(bs)
		}
		if s != x.S {
			touched++
		}
		sb.WriteString(s)
	}
	return sb.String(), touched
}

func c35Trunc(s string) string {
	if len(s) > 300 {
		return s[:300] + "…"
	}
	return s
}

// ---------------------------------------------------------------- legs

func TestVF_C35_NoCrash(t *testing.T) {
	st := vfkit.NewStats("C35", "nocrash")
	defer st.Flush()
	known := vfkit.Known(c35FindingID)
	rapid.Check(t, func(t *rapid.T) {
		var q, class string
		switch rapid.SampledFrom([]int{0, 1, 2, 3, 4, 5, 6, 7, 8, 9, 10, 10, 10}).Draw(t, "mode") {
		case 0: // arbitrary unicode text
			q = rapid.String().Draw(t, "text")
			class = "raw-unicode"
		case 1: // arbitrary bytes (invalid UTF-8) behind a statement prefix
			pre := rapid.SampledFrom([]string{"", "select ", "select * from ", "explain select ", "show ", "describe ", "select a from t group by ", "select * from a join b on "}).Draw(t, "prefix")
			q = pre + string(rapid.SliceOfN(rapid.Byte(), 0, 48).Draw(t, "bytes")) + rapid.SampledFrom([]string{"", " from t", " from t order by _ts", " limit 1"}).Draw(t, "suffix")
			class = "raw-bytes"
		case 2, 3: // ASCII grammar, mutated
			b := &c35B{t: t}
			class = "mut-ascii:" + b.statement()
			q = c35Render(c35Mutate(t, b.p))
		case 4, 5, 6: // grammar with hazard runes
			b := &c35B{t: t, hazard: rapid.IntRange(1, 3).Draw(t, "hz")}
			class = "grammar-hazard:" + b.statement()
			q = c35Render(b.p)
		case 7: // grammar with hazard runes, mutated
			b := &c35B{t: t, hazard: rapid.IntRange(1, 3).Draw(t, "hz")}
			class = "mut-hazard:" + b.statement()
			q = c35Render(c35Mutate(t, b.p))
		case 8: // truncated grammar query (bare keywords, dangling clauses)
			b := &c35B{t: t, hazard: rapid.SampledFrom([]int{0, 0, 3}).Draw(t, "hz")}
			class = "truncated:" + b.statement()
			if rapid.Bool().Draw(t, "cutpieces") {
				k := rapid.IntRange(0, len(b.p)).Draw(t, "keep")
				if rapid.IntRange(0, 3).Draw(t, "tailcut") == 0 {
					q = c35Render(b.p[len(b.p)-k:])
				} else {
					q = c35Render(b.p[:k])
				}
			} else {
				full := c35Render(b.p)
				q = full[:rapid.IntRange(0, len(full)).Draw(t, "cutbyte")]
			}
		case 10: // keywords (and sometimes names) spelt with non-ASCII characters that case-fold to ASCII letters
			b := &c35B{t: t, hazard: rapid.SampledFrom([]int{0, 0, 0, 1, 3}).Draw(t, "hz")}
			class = "fold-spelled:" + b.statement()
			p := b.p
			if rapid.IntRange(0, 4).Draw(t, "foldmut") == 0 {
				p = c35Mutate(t, p)
			}
			q = c35RenderFold(t, p)
		default: // plain grammar
			b := &c35B{t: t}
			class = "grammar-ascii:" + b.statement()
			q = c35Render(b.p)
		}
		hz := c35Hazard(q)
		if hz {
			st.Class("lower-grows")
		}
		if known && hz {
			st.ExcludedCase(c35FindingID)
			return
		}
		st.Eval()
		st.Class(class)
		res, err, p := c35SafeParse(q)
		if p != nil {
			t.Fatalf("Parse panicked: %v\nquery (%d bytes): %q", p, len(q), q)
		}
		if err != nil {
			st.Class("result-error")
		} else {
			st.Class("result-" + string(res.Type))
			for _, c := range res.Select {
				if !utf8.ValidString(c.Column) || !utf8.ValidString(c.Raw) {
					st.Class("stat-missliced-invalid-utf8-column") // statistic only
					break
				}
			}
		}
		if c35HasLenChanging(q) {
			st.Class("has-length-changing-rune")
			if st.NonTrivial(q) {
				st.Sample(map[string]any{"class": class, "query": c35Trunc(q), "err": fmt.Sprint(err)})
			}
		}
	})
}

// c35CaseOracle: q1 and q2 differ only in the ASCII case of keywords. Returns whether both
// were accepted, the parse of q1, and a failure text ("" = property holds for the pair).
func c35CaseOracle(q1, q2 string, st *vfkit.Stats) (bool, Query, string) {
	r1, e1, p1 := c35SafeParse(q1)
	r2, e2, p2 := c35SafeParse(q2)
	if p1 != nil || p2 != nil {
		return false, r1, fmt.Sprintf("Parse panicked: %v / %v\nq1=%q\nq2=%q", p1, p2, q1, q2)
	}
	switch {
	case e1 != nil && e2 != nil:
		st.Class("both-rejected")
		if e1.Error() != e2.Error() {
			st.Class("stat-different-error-text")
		}
		return false, r1, ""
	case (e1 == nil) != (e2 == nil):
		return false, r1, fmt.Sprintf("keyword case decides acceptance:\nq1=%q -> err=%v\nq2=%q -> err=%v", q1, e1, q2, e2)
	}
	st.Class("both-accepted")
	n1, n2 := c35Norm(r1), c35Norm(r2)
	if !reflect.DeepEqual(n1, n2) {
		return true, r1, fmt.Sprintf("keyword case changes the parsed query:\nq1=%q\n   -> %s\nq2=%q\n   -> %s", q1, c35Dump(n1), q2, c35Dump(n2))
	}
	return true, r1, ""
}

func TestVF_C35_Case(t *testing.T) {
	st := vfkit.NewStats("C35", "case")
	defer st.Flush()
	known := vfkit.Known(c35FindingID)
	knownCase := vfkit.Known(c35FindingCase)
	rapid.Check(t, func(t *rapid.T) {
		b := &c35B{t: t, hazard: rapid.SampledFrom([]int{0, 0, 1, 2, 3, 0}).Draw(t, "hz")}
		kind := b.statement()
		q1 := c35Render(b.p) // all keywords lower case
		q2, touched := c35Recase(t, b.p)
		// q1 and q2 differ only in ASCII case, so both predicates agree on them
		if knownCase && c35HasLenChanging(q1) {
			st.ExcludedCase(c35FindingCase)
			return
		}
		if known && c35Hazard(q1) {
			st.ExcludedCase(c35FindingID)
			return
		}
		st.Eval()
		st.Class("stmt:" + kind)
		accepted, r1, fail := c35CaseOracle(q1, q2, st)
		if fail != "" {
			t.Fatalf("%s", fail)
		}
		if !accepted {
			return
		}
		lc := c35HasLenChanging(q1)
		if touched >= 3 {
			st.Class("recased>=3")
		}
		if lc {
			st.Class("has-length-changing-rune")
		}
		if touched >= 3 || lc {
			if st.NonTrivial(q1, q2) {
				st.Sample(map[string]any{"q1": c35Trunc(q1), "q2": c35Trunc(q2), "type": string(r1.Type)})
			}
		}
	})
}

func c35Dump(q Query) string {
	s := fmt.Sprintf("%+v", q)
	if q.Explain != nil {
		s += " explain=" + c35Dump(*q.Explain)
	}
	if q.JoinOn != nil {
		s += fmt.Sprintf(" joinOn=%+v", *q.JoinOn)
	}
	for _, p := range []*int64{q.OffsetMin, q.OffsetMax, q.TsMin, q.TsMax} {
		if p != nil {
			s += fmt.Sprintf(" %d", *p)
		} else {
			s += " nil"
		}
	}
	return s
}

// Witnesses of the known findings, through the same oracles.
func TestVF_C35_Witness(t *testing.T) {
	st := vfkit.NewStats("C35", "witness")
	defer st.Flush()
	crash := []string{
		"select ȺȺȺȺȺȺȺ from t",            // growing runes before FROM
		"select \xff\xff\xff\xff from t", // invalid UTF-8 grows to U+FFFD
		"select a from t group by ȾȾȾȾȾȾȾȾȾ",
	}
	still, what := false, ""
	for _, w := range crash {
		st.Eval()
		if !c35Hazard(w) {
			t.Fatalf("harness: witness %q is not in the excluded class", w)
		}
		_, _, p := c35SafeParse(w)
		if p != nil {
			still = true
			if what == "" {
				what = fmt.Sprintf("Parse(%q) panics: %v", w, p)
			}
			st.Class("witness-panics")
		} else {
			st.Class("witness-ok")
		}
		st.NonTrivial(w)
		st.Sample(map[string]any{"witness": w, "panic": fmt.Sprint(p)})
	}
	if !still {
		what = "no crash witness panics any more"
	}
	st.KnownResult(c35FindingID, still, what)

	pairs := [][2]string{
		{"select İİİ, count(*) as x from t", "select İİİ, count(*) AS x from t"}, // shrinking runes: cut ends right after AS
		{"select count(*) as aȺ from t", "select count(*) as aȺ FROM t"},         // growing rune: FROM leaks into the alias
	}
	still, what = false, ""
	for _, pr := range pairs {
		st.Eval()
		if !c35HasLenChanging(pr[0]) {
			t.Fatalf("harness: witness %q is not in the excluded class", pr[0])
		}
		_, _, fail := c35CaseOracle(pr[0], pr[1], st)
		if fail != "" {
			still = true
			if what == "" {
				what = fail
			}
			st.Class("case-witness-differs")
		} else {
			st.Class("case-witness-ok")
		}
		st.NonTrivial(pr[0], pr[1])
		st.Sample(map[string]any{"q1": pr[0], "q2": pr[1], "result": fail})
	}
	if !still {
		what = "no case witness differs any more"
	}
	st.KnownResult(c35FindingCase, still, what)
}

// ---------------------------------------------------------------- native fuzz (thorough)

func c35FuzzOne(t *testing.T, q string) {
	if vfkit.Known(c35FindingID) && c35Hazard(q) {
		return
	}
	_, _ = Parse(q) // a panic is the crasher
}

func FuzzVF_C35_Parse(f *testing.F) {
	for _, s := range []string{
		"select * from orders tail 10",
		"select _partition, count(*), max(_ts) as latest from orders last 5m group by _partition;",
		"select o._key, p._value from orders o join payments p on o._key = p._key within 10m last 1h",
		"explain select * from orders last 24h",
		"select json_value(_value, '$.a') as a from t order by _ts desc limit 3",
		"show partitions from t", "describe t", "show topics",
		"select Ⱥ from t", "select İ from K group by ẞ order by _ts",
		"select \xff from t", "select a from t where _partition = 1 and _offset >= 2 scan full _ts >= 5",
	} {
		f.Add(s)
	}
	f.Fuzz(func(t *testing.T, q string) { c35FuzzOne(t, q) })
}

func TestVF_C35_ReplayFuzz(t *testing.T) {
	path := os.Getenv("VF_REPLAY_FILE")
	if path == "" {
		t.Skip("no VF_REPLAY_FILE")
	}
	fh, err := os.Open(path)
	if err != nil {
		t.Fatalf("VF-INCONCLUSIVE: cannot open replay file: %v", err)
	}
	defer fh.Close()
	sc := bufio.NewScanner(fh)
	sc.Buffer(make([]byte, 1<<20), 1<<26)
	for sc.Scan() {
		line := strings.TrimSpace(sc.Text())
		if !strings.HasPrefix(line, "string(") || !strings.HasSuffix(line, ")") {
			continue
		}
		s, err := strconv.Unquote(line[len("string(") : len(line)-1])
		if err != nil {
			t.Fatalf("VF-INCONCLUSIVE: bad corpus line: %v", err)
		}
		c35FuzzOne(t, s)
	}
}
