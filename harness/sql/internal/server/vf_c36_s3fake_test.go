//go:build verif

package server

import (
	"bufio"
	"bytes"
	"encoding/xml"
	"fmt"
	"io"
	"net/http"
	"net/http/httptest"
	"net/url"
	"os"
	"sort"
	"strconv"
	"strings"
	"sync"
	"time"
)

// Minimal in-process S3 (path style) for the real discovery lister / time-index reader /
// decoder / builders of the sql-processor: ListObjectsV2 (paged), GetObject (with Range),
// PutObject. Every request is logged so the test can see which segments a query fetched.

type c36Op struct {
	Method string
	Key    string
	Ranged bool
	List   bool
}

type c36S3 struct {
	mu       sync.Mutex
	objs     map[string][]byte // "<bucket>/<key>" -> body
	mod      map[string]time.Time
	ops      []c36Op
	pageSize int
	srv      *httptest.Server
	bad      []string // requests the fake did not understand (harness problem, never a violation)
	// fault plan: full (non-ranged) GETs of faultKey fail in faultMode ("500", "404", "corrupt")
	faultKey  string
	faultMode string
	faultHits int
}

func (s *c36S3) SetFault(key, mode string) {
	s.mu.Lock()
	s.faultKey, s.faultMode, s.faultHits = key, mode, 0
	s.mu.Unlock()
}

func (s *c36S3) ClearFault() int {
	s.mu.Lock()
	defer s.mu.Unlock()
	n := s.faultHits
	s.faultKey, s.faultMode, s.faultHits = "", "", 0
	return n
}

func c36NewS3() *c36S3 {
	s := &c36S3{objs: map[string][]byte{}, mod: map[string]time.Time{}, pageSize: 1000}
	s.srv = httptest.NewServer(http.HandlerFunc(s.handle))
	return s
}

func (s *c36S3) Close() { s.srv.Close() }

func (s *c36S3) URL() string { return s.srv.URL }

func c36AWSEnv() {
	for k, v := range map[string]string{
		"AWS_ACCESS_KEY_ID": "vf", "AWS_SECRET_ACCESS_KEY": "vfsecret", "AWS_REGION": "us-east-1",
		"AWS_EC2_METADATA_DISABLED": "true", "AWS_REQUEST_CHECKSUM_CALCULATION": "when_required",
		"AWS_RESPONSE_CHECKSUM_VALIDATION": "when_required", "AWS_CONFIG_FILE": "/nonexistent/vf-aws-config",
		"AWS_SHARED_CREDENTIALS_FILE": "/nonexistent/vf-aws-credentials", "AWS_PROFILE": "", "AWS_SESSION_TOKEN": "",
		"AWS_MAX_ATTEMPTS": "1",
	} {
		if v == "" {
			os.Unsetenv(k)
		} else {
			os.Setenv(k, v)
		}
	}
	for _, k := range []string{"HTTP_PROXY", "HTTPS_PROXY", "http_proxy", "https_proxy", "ALL_PROXY", "all_proxy"} {
		os.Unsetenv(k)
	}
	os.Setenv("NO_PROXY", "*")
}

func (s *c36S3) Put(bucket, key string, body []byte) {
	s.mu.Lock()
	defer s.mu.Unlock()
	s.objs[bucket+"/"+key] = append([]byte(nil), body...)
	s.mod[bucket+"/"+key] = time.Unix(1700000000, 0).UTC()
}

func (s *c36S3) Has(bucket, key string) bool {
	s.mu.Lock()
	defer s.mu.Unlock()
	_, ok := s.objs[bucket+"/"+key]
	return ok
}

func (s *c36S3) DeletePrefix(bucket, prefix string) {
	s.mu.Lock()
	defer s.mu.Unlock()
	for k := range s.objs {
		if strings.HasPrefix(k, bucket+"/"+prefix) {
			delete(s.objs, k)
			delete(s.mod, k)
		}
	}
}

func (s *c36S3) SetPageSize(n int) { s.mu.Lock(); s.pageSize = n; s.mu.Unlock() }

func (s *c36S3) Mark() int { s.mu.Lock(); defer s.mu.Unlock(); return len(s.ops) }

func (s *c36S3) Since(mark int) []c36Op {
	s.mu.Lock()
	defer s.mu.Unlock()
	return append([]c36Op(nil), s.ops[mark:]...)
}

func (s *c36S3) ResetLog() { s.mu.Lock(); s.ops = s.ops[:0]; s.mu.Unlock() }

func (s *c36S3) Bad() []string {
	s.mu.Lock()
	defer s.mu.Unlock()
	return append([]string(nil), s.bad...)
}

type c36ListResult struct {
	XMLName               xml.Name     `xml:"ListBucketResult"`
	Xmlns                 string       `xml:"xmlns,attr"`
	Name                  string       `xml:"Name"`
	Prefix                string       `xml:"Prefix"`
	KeyCount              int          `xml:"KeyCount"`
	MaxKeys               int          `xml:"MaxKeys"`
	IsTruncated           bool         `xml:"IsTruncated"`
	Contents              []c36ListObj `xml:"Contents"`
	ContinuationToken     string       `xml:"ContinuationToken,omitempty"`
	NextContinuationToken string       `xml:"NextContinuationToken,omitempty"`
}

type c36ListObj struct {
	Key          string `xml:"Key"`
	LastModified string `xml:"LastModified"`
	ETag         string `xml:"ETag"`
	Size         int    `xml:"Size"`
	StorageClass string `xml:"StorageClass"`
}

func (s *c36S3) fail(w http.ResponseWriter, code int, s3code, msg string) {
	w.Header().Set("Content-Type", "application/xml")
	w.WriteHeader(code)
	fmt.Fprintf(w, `<?xml version="1.0" encoding="UTF-8"?><Error><Code>%s</Code><Message>%s</Message></Error>`, s3code, msg)
}

func (s *c36S3) handle(w http.ResponseWriter, r *http.Request) {
	p := strings.TrimPrefix(r.URL.Path, "/")
	bucket, key := p, ""
	if i := strings.IndexByte(p, '/'); i >= 0 {
		bucket, key = p[:i], p[i+1:]
	}
	q := r.URL.Query()
	switch {
	case r.Method == http.MethodGet && key == "" && q.Get("list-type") == "2":
		s.list(w, bucket, q)
	case r.Method == http.MethodGet && key != "":
		s.get(w, r, bucket, key)
	case r.Method == http.MethodHead && key != "":
		s.mu.Lock()
		body, ok := s.objs[bucket+"/"+key]
		s.ops = append(s.ops, c36Op{Method: "HEAD", Key: key})
		s.mu.Unlock()
		if !ok {
			w.WriteHeader(404)
			return
		}
		w.Header().Set("Content-Length", strconv.Itoa(len(body)))
		w.WriteHeader(200)
	case r.Method == http.MethodPut && key != "":
		s.put(w, r, bucket, key)
	default:
		s.mu.Lock()
		s.bad = append(s.bad, r.Method+" "+r.URL.String())
		s.mu.Unlock()
		s.fail(w, 400, "InvalidRequest", "vf fake: unsupported request")
	}
}

func (s *c36S3) list(w http.ResponseWriter, bucket string, q url.Values) {
	prefix := q.Get("prefix")
	token := q.Get("continuation-token")
	s.mu.Lock()
	s.ops = append(s.ops, c36Op{Method: "GET", Key: prefix, List: true})
	var keys []string
	for k := range s.objs {
		if !strings.HasPrefix(k, bucket+"/") {
			continue
		}
		kk := k[len(bucket)+1:]
		if strings.HasPrefix(kk, prefix) && (token == "" || kk > token) {
			keys = append(keys, kk)
		}
	}
	sort.Strings(keys)
	page := s.pageSize
	if mk, err := strconv.Atoi(q.Get("max-keys")); err == nil && mk > 0 && mk < page {
		page = mk
	}
	res := c36ListResult{Xmlns: "http://s3.amazonaws.com/doc/2006-03-01/", Name: bucket, Prefix: prefix, MaxKeys: page, ContinuationToken: token}
	if len(keys) > page {
		keys = keys[:page]
		res.IsTruncated = true
		res.NextContinuationToken = keys[len(keys)-1]
	}
	for _, k := range keys {
		res.Contents = append(res.Contents, c36ListObj{Key: k, LastModified: s.mod[bucket+"/"+k].Format("2006-01-02T15:04:05.000Z"),
			ETag: `"vf"`, Size: len(s.objs[bucket+"/"+k]), StorageClass: "STANDARD"})
	}
	res.KeyCount = len(keys)
	s.mu.Unlock()
	out, _ := xml.Marshal(res)
	w.Header().Set("Content-Type", "application/xml")
	w.WriteHeader(200)
	w.Write([]byte(xml.Header))
	w.Write(out)
}

func (s *c36S3) get(w http.ResponseWriter, r *http.Request, bucket, key string) {
	rng := r.Header.Get("Range")
	s.mu.Lock()
	body, ok := s.objs[bucket+"/"+key]
	s.ops = append(s.ops, c36Op{Method: "GET", Key: key, Ranged: rng != ""})
	mod := s.mod[bucket+"/"+key]
	fault := ""
	if ok && rng == "" && s.faultKey != "" && key == s.faultKey {
		fault = s.faultMode
		s.faultHits++
	}
	s.mu.Unlock()
	switch fault {
	case "500":
		s.fail(w, 500, "InternalError", "We encountered an internal error. Please try again.")
		return
	case "404":
		ok = false
	case "corrupt":
		body = make([]byte, len(body)) // same size, no segment magic
	}
	if !ok {
		s.fail(w, 404, "NoSuchKey", "The specified key does not exist.")
		return
	}
	w.Header().Set("ETag", `"vf"`)
	w.Header().Set("Last-Modified", mod.Format(http.TimeFormat))
	w.Header().Set("Accept-Ranges", "bytes")
	w.Header().Set("Content-Type", "application/octet-stream")
	if rng == "" {
		w.Header().Set("Content-Length", strconv.Itoa(len(body)))
		w.WriteHeader(200)
		w.Write(body)
		return
	}
	spec := strings.TrimPrefix(rng, "bytes=")
	var from, to int
	n := len(body)
	switch {
	case strings.HasPrefix(spec, "-"):
		k, err := strconv.Atoi(spec[1:])
		if err != nil || k <= 0 {
			s.fail(w, 416, "InvalidRange", "bad suffix range")
			return
		}
		if k > n {
			k = n
		}
		from, to = n-k, n-1
	default:
		parts := strings.SplitN(spec, "-", 2)
		a, err := strconv.Atoi(parts[0])
		if err != nil || len(parts) != 2 {
			s.fail(w, 416, "InvalidRange", "bad range")
			return
		}
		b := n - 1
		if parts[1] != "" {
			if b, err = strconv.Atoi(parts[1]); err != nil {
				s.fail(w, 416, "InvalidRange", "bad range")
				return
			}
		}
		if b > n-1 {
			b = n - 1
		}
		from, to = a, b
	}
	if n == 0 || from > to || from >= n {
		s.fail(w, 416, "InvalidRange", "The requested range is not satisfiable")
		return
	}
	w.Header().Set("Content-Range", fmt.Sprintf("bytes %d-%d/%d", from, to, n))
	w.Header().Set("Content-Length", strconv.Itoa(to-from+1))
	w.WriteHeader(206)
	w.Write(body[from : to+1])
}

func (s *c36S3) put(w http.ResponseWriter, r *http.Request, bucket, key string) {
	raw, err := io.ReadAll(r.Body)
	if err != nil {
		s.fail(w, 400, "IncompleteBody", err.Error())
		return
	}
	if strings.HasPrefix(r.Header.Get("X-Amz-Content-Sha256"), "STREAMING-") || strings.Contains(r.Header.Get("Content-Encoding"), "aws-chunked") {
		raw = c36DecodeAWSChunked(raw)
	}
	s.mu.Lock()
	s.objs[bucket+"/"+key] = raw
	s.mod[bucket+"/"+key] = time.Unix(1700000100, 0).UTC()
	s.ops = append(s.ops, c36Op{Method: "PUT", Key: key})
	s.mu.Unlock()
	w.Header().Set("ETag", `"vf"`)
	w.WriteHeader(200)
}

func c36DecodeAWSChunked(raw []byte) []byte {
	rd := bufio.NewReader(bytes.NewReader(raw))
	var out []byte
	for {
		line, err := rd.ReadString('\n')
		if err != nil {
			return out
		}
		line = strings.TrimRight(line, "\r\n")
		if i := strings.IndexByte(line, ';'); i >= 0 {
			line = line[:i]
		}
		n, err := strconv.ParseInt(line, 16, 64)
		if err != nil || n == 0 {
			return out
		}
		buf := make([]byte, n)
		if _, err := io.ReadFull(rd, buf); err != nil {
			return out
		}
		out = append(out, buf...)
		rd.ReadString('\n')
	}
}
