//go:build verif

package server

import (
	"context"
	"encoding/hex"
	"fmt"
	"io"
	"log"
	"net"
	"sort"
	"strconv"
	"strings"
	"sync/atomic"
	"testing"
	"time"

	"github.com/KafScale/platform/pkg/storage"
	"github.com/jackc/pgproto3/v2"
	"pgregory.net/rapid"
	"verif.local/vfkit"

	"github.com/kafscale/platform/addons/processors/sql-processor/internal/config"
	"github.com/kafscale/platform/addons/processors/sql-processor/internal/discovery"
	kafsql "github.com/kafscale/platform/addons/processors/sql-processor/internal/sql"
)

// C36: a single-topic SELECT returns exactly the rows obtained by applying its partition /
// offset / time filters (and limit / tail / ordering) to all records of the topic's completed
// segments; pruning by offset/time statistics never drops a matching row.
//
// Real code under test: Server.handleConnection (pg wire over net.Pipe), discovery.New
// (S3 lister, time-index reader, manifest lister, cache), decoder.New, TimeIndexBuilder and
// ManifestBuilder, all talking to an in-process S3 fake. Reference: plain filtering of the
// generated records.

const c36Bucket = "vfbucket"

type c36Rec struct {
	Part  int32
	Off   int64
	Ts    int64
	Key   []byte
	Value []byte
	HKey  string // optional single header
	HVal  string
	Seg   string
	JSON  map[string]string // json_value text per path (without "$."); nil when the value is not JSON
}

type c36Seg struct {
	Topic    string
	Part     int32
	Base     int64
	Recs     []c36Rec
	Complete bool // .index uploaded
	Sidecar  bool // .kfst time index present
	Key      string
	IdxKey   string
	idx      []byte
}

type c36Data struct {
	ns     string
	topics []string
	parts  map[string]int
	segs   []*c36Seg // sorted by (topic, part, base)
	next   map[string]int64
	now0   int64 // wall clock (ms) at the start of the case; record timestamps are now0 - age
}

func (d *c36Data) completed(topic string) []*c36Seg {
	var out []*c36Seg
	for _, s := range d.segs {
		if s.Topic == topic && s.Complete {
			out = append(out, s)
		}
	}
	sort.SliceStable(out, func(i, j int) bool {
		if out[i].Part != out[j].Part {
			return out[i].Part < out[j].Part
		}
		return out[i].Base < out[j].Base
	})
	return out
}

// ---- time zones: record ages (relative to the case's start) never come within 3 minutes
// of a LAST boundary, so wall-clock progress during the case cannot change a verdict.

var c36LastDurations = []struct {
	text string
	ms   int64
}{{"10m", 10 * 60000}, {"1h", 3600000}, {"6h", 6 * 3600000}, {"1d", 24 * 3600000}, {"48h", 48 * 3600000}, {"600s", 600000}}

var c36AgeZones = [][2]int64{ // minutes
	{-120, -3}, {3, 7}, {13, 57}, {63, 357}, {363, 1437}, {1443, 2877}, {2883, 5760},
}

func c36Age(t *rapid.T) int64 {
	z := rapid.SampledFrom(c36AgeZones).Draw(t, "zone")
	return rapid.Int64Range(z[0]*60000, z[1]*60000).Draw(t, "age")
}

var c36Counter int64

func c36SegKey(ns, topic string, part int32, base int64, ext string) string {
	return fmt.Sprintf("%s/%s/%d/segment-%020d.%s", ns, topic, part, base, ext)
}

func c36BuildSegment(t *rapid.T, s3 *c36S3, d *c36Data, topic string, part int32, now0 int64, monotone bool) *c36Seg {
	pk := fmt.Sprintf("%s/%d", topic, part)
	base := d.next[pk] + int64(rapid.SampledFrom([]int{0, 0, 0, 1, 3}).Draw(t, "seggap"))
	seg := &c36Seg{Topic: topic, Part: part, Base: base, Key: c36SegKey(d.ns, topic, part, base, "kfs"), IdxKey: c36SegKey(d.ns, topic, part, base, "index")}
	nb := rapid.IntRange(1, 3).Draw(t, "nbatches")
	off := base
	var batches []storage.RecordBatch
	for b := 0; b < nb; b++ {
		if b > 0 {
			off += int64(rapid.SampledFrom([]int{0, 0, 0, 2}).Draw(t, "batchgap"))
		}
		nr := rapid.IntRange(1, 4).Draw(t, "nrecs")
		ages := make([]int64, nr)
		for i := range ages {
			ages[i] = c36Age(t)
		}
		if monotone {
			sort.Slice(ages, func(i, j int) bool { return ages[i] > ages[j] })
		}
		recs := make([]vfkit.Record, nr)
		first := now0 - ages[0]
		for i := 0; i < nr; i++ {
			r := c36Rec{Part: part, Off: off + int64(i), Ts: now0 - ages[i], Seg: seg.Key}
			switch rapid.IntRange(0, 3).Draw(t, "keykind") {
			case 0:
				r.Key = nil
			default:
				r.Key = []byte(fmt.Sprintf("k%d", rapid.IntRange(0, 5).Draw(t, "key")))
			}
			switch rapid.IntRange(0, 6).Draw(t, "valkind") {
			case 0:
				r.Value = nil
			case 1:
				r.Value = []byte{}
			case 2:
				r.Value = []byte{0x00, 0xff, 0x10}
			default:
				// keys that differ only in letter case / inner white space hold different values
				r.Value = []byte(fmt.Sprintf(`{"id":%d,"ID":"U%d","Id":"M%d","p":%d,"a b":"one-%d","a  b":"two-%d","n":{"x":%d,"X":"nx%d"},"N":{"x":"Nx%d"}}`,
					r.Off, r.Off, r.Off, part, r.Off, r.Off, r.Off, r.Off, r.Off))
				o := strconv.FormatInt(r.Off, 10)
				r.JSON = map[string]string{"id": o, "ID": "U" + o, "Id": "M" + o, "p": strconv.Itoa(int(part)), "a b": "one-" + o, "a  b": "two-" + o,
					"n.x": o, "n.X": "nx" + o, "N.x": "Nx" + o}
			}
			vr := vfkit.Record{TsDelta: r.Ts - first, Key: r.Key, Value: r.Value}
			if rapid.IntRange(0, 5).Draw(t, "hdr") == 0 {
				r.HKey, r.HVal = "src", fmt.Sprintf("h%d", i)
				vr.Headers = []vfkit.RecHeader{{Key: r.HKey, Value: []byte(r.HVal)}}
			}
			recs[i] = vr
			seg.Recs = append(seg.Recs, r)
		}
		raw := vfkit.NewBatch(off, first, recs).Encode()
		rb, err := storage.NewRecordBatchFromBytes(raw)
		if err != nil {
			t.Fatalf("harness: NewRecordBatchFromBytes: %v", err)
		}
		batches = append(batches, rb)
		off += int64(nr)
	}
	art, err := storage.BuildSegment(storage.SegmentWriterConfig{IndexIntervalMessages: int32(rapid.IntRange(1, 4).Draw(t, "idxint"))}, batches, time.UnixMilli(now0))
	if err != nil {
		t.Fatalf("harness: BuildSegment: %v", err)
	}
	seg.idx = art.IndexBytes
	s3.Put(c36Bucket, seg.Key, art.SegmentBytes)
	d.next[pk] = off
	d.segs = append(d.segs, seg)
	return seg
}

func c36Complete(s3 *c36S3, seg *c36Seg) {
	s3.Put(c36Bucket, seg.IdxKey, seg.idx)
	seg.Complete = true
}

// subset lister handed to the repo's TimeIndexBuilder so that only some segments get a sidecar
type c36SubsetLister struct{ refs []discovery.SegmentRef }

func (l c36SubsetLister) ListCompleted(ctx context.Context) ([]discovery.SegmentRef, error) {
	return l.refs, nil
}

func c36BuildSidecars(cfg config.Config, segs []*c36Seg) error {
	if len(segs) == 0 {
		return nil
	}
	var refs []discovery.SegmentRef
	for _, s := range segs {
		refs = append(refs, discovery.SegmentRef{Topic: s.Topic, Partition: s.Part, BaseOffset: s.Base, SegmentKey: s.Key, IndexKey: s.IdxKey})
	}
	b, err := discovery.NewTimeIndexBuilder(cfg, c36SubsetLister{refs})
	if err != nil {
		return err
	}
	if err := b.Build(context.Background()); err != nil {
		return err
	}
	for _, s := range segs {
		s.Sidecar = true
	}
	return nil
}

// ---------------------------------------------------------------- queries

type c36Query struct {
	Text      string
	Topic     string
	Cols      []string // resolved output columns
	Part      *int32
	OffMin    *int64
	OffMax    *int64
	TsMin     *int64
	TsMax     *int64
	LastText  string
	LastMs    int64
	Limit     int // 0 = not given (unless LimitZero)
	Tail      int
	LimitZero bool // explicit LIMIT 0
	TailZero  bool // explicit TAIL 0
	Order     bool
	Desc      bool
	ScanFull  bool
	Shape     string
	ListText  string // the select list as written (for building variants)
}

// a column spec is an implicit column name or "json\x00<path>\x00<alias>" for json_value(_value, '<path>') [AS <alias>]
func c36JSONSpec(path, alias string) string { return "json\x00" + path + "\x00" + alias }

func c36IsJSON(spec string) (string, string, bool) {
	if !strings.HasPrefix(spec, "json\x00") {
		return "", "", false
	}
	parts := strings.SplitN(spec, "\x00", 3)
	return parts[1], parts[2], true
}

func c36ColName(spec string) string {
	if _, alias, ok := c36IsJSON(spec); ok {
		if alias == "" {
			return "json_value"
		}
		return alias
	}
	return spec
}

func c36ColText(spec string) string {
	if path, alias, ok := c36IsJSON(spec); ok {
		s := "json_value(_value, '" + path + "')"
		if alias != "" {
			s += " as " + alias
		}
		return s
	}
	return spec
}

func c36ListText(cols []string) string {
	parts := make([]string, len(cols))
	for i, c := range cols {
		parts[i] = c36ColText(c)
	}
	return strings.Join(parts, ", ")
}

var c36JSONPaths = []string{"$.id", "$.ID", "$.Id", "$.p", "$.a b", "$.a  b", "$.n.x", "$.n.X", "$.N.x", "$.missing"}
var c36JSONAliases = []string{"", "", "v", "V", "Val", "val", "VAL"}

// c36Variant: the same query with one JSON path / alias changed only in letter case or inner white space
var c36PathSiblings = map[string][]string{"$.id": {"$.ID", "$.Id"}, "$.ID": {"$.id", "$.Id"}, "$.Id": {"$.id", "$.ID"}, "$.a b": {"$.a  b"}, "$.a  b": {"$.a b"},
	"$.n.x": {"$.n.X", "$.N.x"}, "$.n.X": {"$.n.x"}, "$.N.x": {"$.n.x"}, "$.p": {"$.P"}, "$.P": {"$.p"}, "$.missing": {"$.MISSING"}, "$.MISSING": {"$.missing"}}
var c36AliasSiblings = map[string][]string{"v": {"V"}, "V": {"v"}, "Val": {"val", "VAL"}, "val": {"Val", "VAL"}, "VAL": {"val", "Val"}}

func c36Variant(t *rapid.T, q c36Query) (c36Query, bool) {
	var idx []int
	for i, c := range q.Cols {
		if _, _, ok := c36IsJSON(c); ok {
			idx = append(idx, i)
		}
	}
	if len(idx) == 0 || q.ListText == "" {
		return q, false
	}
	i := rapid.SampledFrom(idx).Draw(t, "varcol")
	path, alias, _ := c36IsJSON(q.Cols[i])
	if sib := c36AliasSiblings[alias]; len(sib) > 0 && rapid.IntRange(0, 2).Draw(t, "varalias") == 0 {
		alias = rapid.SampledFrom(sib).Draw(t, "alias2")
	} else if sib := c36PathSiblings[path]; len(sib) > 0 {
		path = rapid.SampledFrom(sib).Draw(t, "path2")
	} else {
		return q, false
	}
	v := q
	v.Cols = append([]string(nil), q.Cols...)
	v.Cols[i] = c36JSONSpec(path, alias)
	v.ListText = c36ListText(v.Cols)
	v.Text = strings.Replace(q.Text, q.ListText, v.ListText, 1)
	v.Shape = q.Shape
	return v, v.Text != q.Text
}

// c36FoldOutsideQuotes mirrors what the result cache may legitimately fold: text outside single/double
// quotes is lower-cased and white-space-collapsed, quoted text is kept verbatim.
func c36FoldOutsideQuotes(text string) string {
	var b strings.Builder
	var quote rune
	space := false
	for _, r := range text {
		switch {
		case quote != 0:
			b.WriteRune(r)
			if r == quote {
				quote = 0
			}
		case r == ' ' || r == '\t' || r == '\n' || r == '\r' || r == '\v' || r == '\f':
			space = b.Len() > 0
		default:
			if space {
				b.WriteByte(' ')
				space = false
			}
			if r == '\'' || r == '"' {
				quote = r
				b.WriteRune(r)
			} else {
				b.WriteString(strings.ToLower(string(r)))
			}
		}
	}
	return b.String()
}

// c36AliasKey: the unquoted, case-preserving part of a statement (column aliases as written)
func c36AliasKey(q c36Query) string {
	var parts []string
	for _, c := range q.Cols {
		if _, alias, ok := c36IsJSON(c); ok {
			parts = append(parts, alias)
		}
	}
	return strings.Join(parts, "\x1e")
}

func c36CaseKey(q c36Query) string {
	var parts []string
	for _, c := range q.Cols {
		if _, _, ok := c36IsJSON(c); ok {
			parts = append(parts, c)
		}
	}
	return strings.Join(parts, "\x1e")
}

var c36AllCols = []string{"_topic", "_partition", "_offset", "_ts", "_key", "_value", "_headers", "_segment"}

func c36Kw(t *rapid.T, s string) string {
	switch rapid.IntRange(0, 3).Draw(t, "kwcase") {
	case 0:
		return strings.ToUpper(s)
	default:
		return s
	}
}

func c36TsText(t *rapid.T, ms int64) (string, int64) {
	switch rapid.IntRange(0, 2).Draw(t, "tsform") {
	case 0: // RFC3339, second precision (floor)
		s := ms / 1000 * 1000
		if ms < 0 {
			return strconv.FormatInt(ms, 10), ms
		}
		return "'" + time.UnixMilli(s).UTC().Format("2006-01-02T15:04:05Z") + "'", s
	default:
		return strconv.FormatInt(ms, 10), ms
	}
}

func c36GenQuery(t *rapid.T, d *c36Data, allTs []int64, allOffs []int64) c36Query {
	q := c36Query{}
	topics := append([]string(nil), d.topics...)
	topics = append(topics, "nosuchtopic")
	q.Topic = rapid.SampledFrom(topics).Draw(t, "qtopic")
	var sb strings.Builder
	shape := []string{}
	sb.WriteString(c36Kw(t, "select") + " ")
	switch rapid.IntRange(0, 3).Draw(t, "cols") {
	case 0:
		sb.WriteString("*")
		q.Cols = c36AllCols
		shape = append(shape, "star")
	case 1:
		q.Cols = []string{"_partition", "_offset", "_ts"}
		sb.WriteString("_partition, _offset, _ts")
	default:
		q.Cols = []string{"_partition", "_offset"}
		extra := rapid.SliceOfNDistinct(rapid.SampledFrom([]string{"_topic", "_ts", "_key", "_value", "_headers", "_segment"}), 0, 4, rapid.ID[string]).Draw(t, "extra")
		q.Cols = append(q.Cols, extra...)
		if rapid.IntRange(0, 2).Draw(t, "wjson") == 0 {
			nj := rapid.IntRange(1, 2).Draw(t, "njson")
			for j := 0; j < nj; j++ {
				alias := rapid.SampledFrom(c36JSONAliases).Draw(t, "jalias")
				if j > 0 && alias != "" {
					alias += "2"
				}
				q.Cols = append(q.Cols, c36JSONSpec(rapid.SampledFrom(c36JSONPaths).Draw(t, "jpath"), alias))
			}
			shape = append(shape, "json")
		}
		q.ListText = c36ListText(q.Cols)
		sb.WriteString(q.ListText)
	}
	sb.WriteString(" " + c36Kw(t, "from") + " " + q.Topic)

	// WHERE partition / offset filters
	nparts := d.parts[q.Topic]
	var wh []string
	if rapid.IntRange(0, 2).Draw(t, "wpart") == 0 {
		p := int32(rapid.IntRange(0, nparts).Draw(t, "part")) // nparts = one past the last: empty
		q.Part = &p
		wh = append(wh, fmt.Sprintf("_partition = %d", p))
		shape = append(shape, "part")
	}
	pickOff := func(label string) int64 {
		if len(allOffs) > 0 && rapid.IntRange(0, 4).Draw(t, label+"k") != 0 {
			return rapid.SampledFrom(allOffs).Draw(t, label) + int64(rapid.IntRange(-1, 1).Draw(t, label+"d"))
		}
		return int64(rapid.IntRange(0, 1200).Draw(t, label+"r"))
	}
	if rapid.IntRange(0, 2).Draw(t, "womin") == 0 {
		v := pickOff("omin")
		if v < 0 {
			v = 0
		}
		q.OffMin = &v
		wh = append(wh, fmt.Sprintf("_offset >= %d", v))
		shape = append(shape, "omin")
	}
	if rapid.IntRange(0, 2).Draw(t, "womax") == 0 {
		v := pickOff("omax")
		if v < 0 {
			v = 0
		}
		q.OffMax = &v
		wh = append(wh, fmt.Sprintf("_offset <= %d", v))
		shape = append(shape, "omax")
	}
	if len(wh) > 0 {
		if rapid.Bool().Draw(t, "whrev") {
			for i, j := 0, len(wh)-1; i < j; i, j = i+1, j-1 {
				wh[i], wh[j] = wh[j], wh[i]
			}
		}
		sb.WriteString(" " + c36Kw(t, "where") + " " + strings.Join(wh, " "+c36Kw(t, "and")+" "))
	}

	// stop-keyword clauses
	var stops []string
	mode := rapid.IntRange(0, 5).Draw(t, "bound") // how the query is time-bounded
	if mode == 0 || mode == 1 {
		l := rapid.SampledFrom(c36LastDurations).Draw(t, "last")
		q.LastText, q.LastMs = l.text, l.ms
		stops = append(stops, c36Kw(t, "last")+" "+l.text)
		shape = append(shape, "last")
	}
	if mode == 2 {
		q.Tail = rapid.SampledFrom([]int{1, 2, 3, 5, 50, 0}).Draw(t, "tail")
		q.TailZero = q.Tail == 0
		stops = append(stops, c36Kw(t, "tail")+" "+strconv.Itoa(q.Tail))
		shape = append(shape, "tail")
	}
	if mode == 3 || mode == 4 {
		q.ScanFull = true
		stops = append(stops, c36Kw(t, "scan")+" "+c36Kw(t, "full"))
		shape = append(shape, "scanfull")
	}
	hasTail := mode == 2
	if !hasTail && rapid.IntRange(0, 1).Draw(t, "wlimit") == 0 {
		q.Limit = rapid.SampledFrom([]int{1, 2, 3, 5, 1000, 0}).Draw(t, "limit")
		q.LimitZero = q.Limit == 0
		stops = append(stops, c36Kw(t, "limit")+" "+strconv.Itoa(q.Limit))
		shape = append(shape, "limit")
	}
	if len(stops) > 1 && rapid.Bool().Draw(t, "stoprev") {
		stops[0], stops[len(stops)-1] = stops[len(stops)-1], stops[0]
	}
	for _, s := range stops {
		sb.WriteString(" " + s)
	}
	if !hasTail && rapid.IntRange(0, 2).Draw(t, "worder") == 0 {
		q.Order = true
		sb.WriteString(" " + c36Kw(t, "order by") + " _ts")
		switch rapid.IntRange(0, 2).Draw(t, "dir") {
		case 0:
			q.Desc = true
			sb.WriteString(" " + c36Kw(t, "desc"))
			shape = append(shape, "desc")
		case 1:
			sb.WriteString(" " + c36Kw(t, "asc"))
			shape = append(shape, "asc")
		default:
			shape = append(shape, "order")
		}
	}
	// explicit timestamp filters (the dialect only reads them outside the WHERE scan)
	pickTs := func(label string) int64 {
		if len(allTs) > 0 {
			return rapid.SampledFrom(allTs).Draw(t, label) + int64(rapid.SampledFrom([]int{-1, 0, 0, 1, 999, -999}).Draw(t, label+"d"))
		}
		return 1700000000000
	}
	switch rapid.IntRange(0, 5).Draw(t, "tsf") {
	case 0:
		txt, v := c36TsText(t, pickTs("tsmin"))
		q.TsMin = &v
		sb.WriteString(" " + c36Kw(t, "and") + " _ts >= " + txt)
		shape = append(shape, "tsmin")
	case 1:
		txt, v := c36TsText(t, pickTs("tsmax"))
		q.TsMax = &v
		sb.WriteString(" " + c36Kw(t, "and") + " _ts <= " + txt)
		shape = append(shape, "tsmax")
	case 2:
		a, b := pickTs("tsa"), pickTs("tsb")
		if a > b && rapid.IntRange(0, 4).Draw(t, "keepinv") != 0 {
			a, b = b, a
		}
		if a >= 0 && b >= 0 {
			q.TsMin, q.TsMax = &a, &b
			fa := time.UnixMilli(a).UTC().Format("2006-01-02 15:04:05.000")
			fb := time.UnixMilli(b).UTC().Format("2006-01-02 15:04:05.000")
			sb.WriteString(" " + c36Kw(t, "and") + " _ts " + c36Kw(t, "between") + " '" + fa + "' " + c36Kw(t, "and") + " '" + fb + "'")
			shape = append(shape, "tsbetween")
		}
	case 3:
		ta, a := c36TsText(t, pickTs("tsa2"))
		tb, b := c36TsText(t, pickTs("tsb2"))
		q.TsMin, q.TsMax = &a, &b
		sb.WriteString(" _ts >= " + ta + " " + c36Kw(t, "and") + " _ts <= " + tb)
		shape = append(shape, "tsrange")
	}
	if rapid.Bool().Draw(t, "semi") {
		sb.WriteString(";")
	}
	q.Text = sb.String()
	q.Shape = strings.Join(shape, "+")
	return q
}

func c36EqI32(a, b *int32) bool { return (a == nil) == (b == nil) && (a == nil || *a == *b) }
func c36EqI64(a, b *int64) bool { return (a == nil) == (b == nil) && (a == nil || *a == *b) }

// c36ParserAgrees: the dialect reads the text the way the generator meant it. Used only to
// DROP cases (C36 is about execution, not about the parser).
func c36ParserAgrees(q c36Query) (bool, bool) {
	p, err := kafsql.Parse(q.Text)
	if err != nil {
		return false, true
	}
	lim := ""
	if q.Limit > 0 || q.LimitZero {
		lim = strconv.Itoa(q.Limit)
	}
	tail := ""
	if q.Tail > 0 || q.TailZero {
		tail = strconv.Itoa(q.Tail)
	}
	ob := ""
	if q.Order {
		ob = "_ts"
	}
	ok := p.Type == kafsql.QuerySelect && p.Topic == q.Topic && p.JoinTopic == "" && c36EqI32(p.Partition, q.Part) &&
		c36EqI64(p.OffsetMin, q.OffMin) && c36EqI64(p.OffsetMax, q.OffMax) && c36EqI64(p.TsMin, q.TsMin) && c36EqI64(p.TsMax, q.TsMax) &&
		p.Limit == lim && p.Tail == tail && p.Last == q.LastText && p.OrderBy == ob && p.OrderDesc == q.Desc && p.ScanFull == q.ScanFull &&
		p.TimeWindow == "" && len(p.GroupBy) == 0
	if ok {
		if q.ListText == "" {
			ok = len(p.Select) == 1 && p.Select[0].Kind == kafsql.SelectColumnStar
		} else {
			ok = len(p.Select) == len(q.Cols)
			for i := range q.Cols {
				if path, _, isJSON := c36IsJSON(q.Cols[i]); isJSON {
					ok = ok && p.Select[i].Kind == kafsql.SelectColumnJSONValue && p.Select[i].JSONPath == path
					continue
				}
				ok = ok && p.Select[i].Kind == kafsql.SelectColumnField && p.Select[i].Column == q.Cols[i] && p.Select[i].Source == ""
			}
		}
	}
	return ok, false
}

// ---------------------------------------------------------------- reference

const c36Null = "\x00NULL"

func c36Cell(r c36Rec, topic, col string) string {
	if path, _, ok := c36IsJSON(col); ok {
		if r.JSON == nil {
			return c36Null
		}
		v, present := r.JSON[strings.TrimPrefix(strings.TrimSpace(path), "$.")]
		if !present {
			return c36Null
		}
		return v
	}
	switch col {
	case "_topic":
		return topic
	case "_partition":
		return strconv.Itoa(int(r.Part))
	case "_offset":
		return strconv.FormatInt(r.Off, 10)
	case "_ts":
		return time.UnixMilli(r.Ts).UTC().Format("2006-01-02 15:04:05.000")
	case "_key":
		if r.Key == nil {
			return c36Null
		}
		return `\x` + hex.EncodeToString(r.Key)
	case "_value":
		if r.Value == nil {
			return c36Null
		}
		return `\x` + hex.EncodeToString(r.Value)
	case "_headers":
		if r.HKey == "" {
			return "{}"
		}
		return `{"` + r.HKey + `":"` + r.HVal + `"}`
	case "_segment":
		return r.Seg
	}
	return "?"
}

func c36Row(r c36Rec, topic string, cols []string) string {
	parts := make([]string, len(cols))
	for i, c := range cols {
		parts[i] = c36Cell(r, topic, c)
	}
	return strings.Join(parts, "\x1f")
}

type c36Expect struct {
	matches    []c36Rec // in scan order (partition, base offset, position)
	cap        int      // max rows returned
	prunable   int      // completed segments of the selected partitions whose true stats exclude them
	candidates int
}

func c36Reference(d *c36Data, q c36Query, defaultLimit int) c36Expect {
	var e c36Expect
	for _, s := range d.completed(q.Topic) {
		if q.Part != nil && s.Part != *q.Part {
			continue
		}
		e.candidates++
		segMatches := 0
		for _, r := range s.Recs {
			if q.OffMin != nil && r.Off < *q.OffMin {
				continue
			}
			if q.OffMax != nil && r.Off > *q.OffMax {
				continue
			}
			if q.TsMin != nil && r.Ts < *q.TsMin {
				continue
			}
			if q.TsMax != nil && r.Ts > *q.TsMax {
				continue
			}
			if q.LastMs > 0 {
				// now-last <= ts <= now (unless an explicit upper bound replaces "now"); ages keep a
				// 3 minute distance from every boundary, see c36AgeZones
				age := d.now0 - r.Ts
				if age >= q.LastMs {
					continue
				}
				if q.TsMax == nil && age <= 0 {
					continue
				}
			}
			segMatches++
			e.matches = append(e.matches, r)
		}
		if segMatches == 0 {
			e.prunable++
		}
	}
	e.cap = defaultLimit
	if q.Limit > 0 {
		e.cap = q.Limit
	}
	if q.Tail > 0 {
		e.cap = q.Tail
	}
	if q.LimitZero || q.TailZero {
		e.cap = 0 // an explicit LIMIT 0 / TAIL 0 asks for no rows
	}
	return e
}

// ---------------------------------------------------------------- wire

type c36Resp struct {
	fields []string
	rows   [][]string
	tag    string
	errMsg string
	ioErr  error
}

func c36RunQuery(fe *pgproto3.Frontend, conn net.Conn, text string) c36Resp {
	var r c36Resp
	_ = conn.SetDeadline(time.Now().Add(120 * time.Second))
	if err := fe.Send(&pgproto3.Query{String: text}); err != nil {
		r.ioErr = err
		return r
	}
	for {
		msg, err := fe.Receive()
		if err != nil {
			r.ioErr = err
			return r
		}
		switch m := msg.(type) {
		case *pgproto3.RowDescription:
			r.fields = r.fields[:0]
			for _, f := range m.Fields {
				r.fields = append(r.fields, string(f.Name))
			}
		case *pgproto3.DataRow:
			row := make([]string, len(m.Values))
			for i, v := range m.Values {
				if v == nil {
					row[i] = c36Null
				} else {
					row[i] = string(v)
				}
			}
			r.rows = append(r.rows, row)
		case *pgproto3.CommandComplete:
			r.tag = string(m.CommandTag)
		case *pgproto3.ErrorResponse:
			r.errMsg = m.Message
			if r.errMsg == "" {
				r.errMsg = "(empty error)"
			}
		case *pgproto3.ReadyForQuery:
			return r
		}
	}
}

func c36Startup(conn net.Conn, fe *pgproto3.Frontend) error {
	_ = conn.SetDeadline(time.Now().Add(120 * time.Second))
	buf, err := (&pgproto3.StartupMessage{ProtocolVersion: pgproto3.ProtocolVersionNumber, Parameters: map[string]string{"user": "vf"}}).Encode(nil)
	if err != nil {
		return err
	}
	if _, err := conn.Write(buf); err != nil {
		return err
	}
	for {
		msg, err := fe.Receive()
		if err != nil {
			return err
		}
		if _, ok := msg.(*pgproto3.ReadyForQuery); ok {
			return nil
		}
	}
}

// ---------------------------------------------------------------- the check

func c36Multiset(rows []string) map[string]int {
	m := map[string]int{}
	for _, r := range rows {
		m[r]++
	}
	return m
}

func c36ErrClass(msg string) string {
	for _, k := range []string{"unbounded query", "unsupported where clause", "time window is invalid", "scan full limit exceeds", "limit exceeds", "scan segments exceeds", "scan bytes exceeds", "queue", "tail cannot be combined", "invalid timestamp", "select requires"} {
		if strings.Contains(msg, k) {
			return k
		}
	}
	return "other"
}

const (
	c36FindingCacheKey  = "C36-result-cache-key-folds-literals" // fixed by 0cf7913: no exclusion, witness kept
	c36FindingAliasCase = "C36-result-cache-alias-case"
	c36FindingTopicCase = "C36-topic-name-lowercased"
	c36FindingLimitZero = "C36-limit-zero-returns-default"
)

func c36VariantOfSome(t *rapid.T, prev []c36Query) (c36Query, bool) {
	var cands []c36Query
	for _, p := range prev {
		if c36CaseKey(p) != "" {
			cands = append(cands, p)
		}
	}
	if len(cands) == 0 || rapid.IntRange(0, 1).Draw(t, "variant") != 0 {
		return c36Query{}, false
	}
	return c36Variant(t, rapid.SampledFrom(cands).Draw(t, "varof"))
}

type c36Fail string

// c36Judge is the oracle for one answered query: "" = the reply equals direct filtering.
func c36Judge(d *c36Data, q c36Query, exp c36Expect, resp c36Resp, st *vfkit.Stats, ctx string) (verdict string) {
	defer func() {
		if r := recover(); r != nil {
			if f, ok := r.(c36Fail); ok {
				verdict = string(f)
				return
			}
			panic(r)
		}
	}()
	got := make([]string, len(resp.rows))
	for i, r := range resp.rows {
		got[i] = strings.Join(r, "\x1f")
	}
	want := make([]string, len(exp.matches))
	for i, r := range exp.matches {
		want[i] = c36Row(r, q.Topic, q.Cols)
	}
	fail := func(format string, a ...any) {
		panic(c36Fail(fmt.Sprintf("%s\nquery: %s\nserver rows (%d): %q\nreference matches (%d, cap %d): %q\n%s\ndataset: %s",
			fmt.Sprintf(format, a...), q.Text, len(got), c36Show(got), len(want), exp.cap, c36Show(want), ctx, c36Describe(d, q.Topic))))
	}
	names := make([]string, len(q.Cols))
	for i, c := range q.Cols {
		names[i] = c36ColName(c)
	}
	if strings.Join(resp.fields, "\x1f") != strings.Join(names, "\x1f") {
		fail("columns %q, expected %q", resp.fields, names)
	}
	wantN := len(want)
	if wantN > exp.cap {
		wantN = exp.cap
	}
	if len(got) != wantN {
		fail("row count %d, expected %d", len(got), wantN)
	}
	if resp.tag != "SELECT "+strconv.Itoa(len(got)) {
		fail("command tag %q does not match %d rows", resp.tag, len(got))
	}
	wm := c36Multiset(want)
	gm := c36Multiset(got)
	for row, n := range gm {
		if n > wm[row] {
			fail("row %q returned %d times but matches the filters %d times", row, n, wm[row])
		}
	}
	if len(want) <= exp.cap {
		st.Class("complete-result")
		for row, n := range wm {
			if gm[row] != n {
				fail("matching row %q missing (returned %d of %d)", row, gm[row], n)
			}
		}
	} else {
		st.Class("truncated-result")
	}
	tsOf := map[string]int64{}
	for i, r := range exp.matches {
		tsOf[want[i]] = r.Ts
	}
	switch {
	case q.Order:
		// sorted; nothing omitted sorts strictly before something included
		for i := 1; i < len(got); i++ {
			a, b := tsOf[got[i-1]], tsOf[got[i]]
			if (!q.Desc && a > b) || (q.Desc && a < b) {
				fail("rows not ordered by _ts at position %d", i)
			}
		}
		if len(want) > exp.cap && len(got) > 0 {
			rest := map[string]int{}
			for k, v := range wm {
				rest[k] = v - gm[k]
			}
			edge := tsOf[got[len(got)-1]]
			for row, n := range rest {
				if n > 0 && ((!q.Desc && tsOf[row] < edge) || (q.Desc && tsOf[row] > edge)) {
					fail("omitted row %q sorts before the last returned row", row)
				}
			}
		}
	case q.Tail > 0:
		single := q.Part != nil || d.parts[q.Topic] == 1
		if single {
			// "last N records" of one partition is unambiguous
			tailWant := want
			if len(tailWant) > q.Tail {
				tailWant = tailWant[len(tailWant)-q.Tail:]
			}
			if strings.Join(got, "\x1e") != strings.Join(tailWant, "\x1e") {
				fail("tail %d of a single partition is not its last records", q.Tail)
			}
			st.Class("tail-single-partition")
		} else {
			st.Class("tail-multi-partition(stat only)")
		}
	default:
		firstN := want
		if len(firstN) > exp.cap {
			firstN = firstN[:exp.cap]
		}
		if strings.Join(got, "\x1e") == strings.Join(firstN, "\x1e") {
			st.Class("stat:scan-order-prefix")
		} else {
			st.Class("stat:other-order")
		}
	}

	return ""
}

func TestVF_C36_Select(t *testing.T) {
	st := vfkit.NewStats("C36", "select")
	defer st.Flush()
	c36AWSEnv()
	s3 := c36NewS3()
	defer s3.Close()
	quiet := log.New(io.Discard, "", 0)
	knownAliasCase := vfkit.Known(c36FindingAliasCase)
	knownTopicCase := vfkit.Known(c36FindingTopicCase)
	knownLimitZero := vfkit.Known(c36FindingLimitZero)

	rapid.Check(t, func(t *rapid.T) {
		st.Eval()
		caseStart := time.Now()
		now0 := caseStart.UnixMilli()
		ns := fmt.Sprintf("ns%d", atomic.AddInt64(&c36Counter, 1))
		defer s3.DeletePrefix(c36Bucket, ns+"/")
		defer s3.srv.CloseClientConnections()
		s3.ResetLog()
		s3.SetPageSize(rapid.SampledFrom([]int{1000, 1000, 2, 3, 7}).Draw(t, "pagesize"))

		// ---- configuration of the server under test
		cfg := config.Config{
			S3:     config.S3Config{Bucket: c36Bucket, Namespace: ns, Endpoint: s3.URL(), Region: "us-east-1", PathStyle: true},
			Server: config.ServerConfig{ServerVersion: "15.0", ClientEncoding: "UTF8"},
			Query: config.QueryConfig{DefaultLimit: rapid.SampledFrom([]int{1000, 1000, 2, 5}).Draw(t, "defaultLimit"),
				RequireTimeBound: rapid.IntRange(0, 3).Draw(t, "requireBound") == 0, MaxUnbounded: 10000},
		}
		// the remaining query guardrails of config.QueryConfig: they may reject a query, never change a result
		cfg.Query.MaxRows = rapid.SampledFrom([]int{0, 0, 100000, 2, 3, 5}).Draw(t, "maxRows")
		if cfg.Query.MaxRows > 0 && cfg.Query.MaxRows < cfg.Query.DefaultLimit && rapid.IntRange(0, 3).Draw(t, "fitDefault") != 0 {
			cfg.Query.DefaultLimit = cfg.Query.MaxRows // otherwise every query without LIMIT is rejected
		}
		cfg.Query.MaxUnbounded = rapid.SampledFrom([]int{10000, 10000, 10000, 3}).Draw(t, "maxUnbounded")
		cfg.Query.MaxScanSegments = rapid.SampledFrom([]int{0, 0, 0, 0, 0, 2, 5}).Draw(t, "maxScanSegments")
		cfg.Query.MaxScanBytes = int64(rapid.SampledFrom([]int{0, 0, 0, 0, 0, 400, 100000}).Draw(t, "maxScanBytes"))
		cfg.Query.TimeoutSeconds = rapid.SampledFrom([]int{0, 30}).Draw(t, "timeout")
		cfg.Query.MaxConcurrent = rapid.SampledFrom([]int{0, 0, 1, 20}).Draw(t, "maxConcurrent")
		cfg.Query.QueueSize = rapid.SampledFrom([]int{0, 5}).Draw(t, "queueSize")
		cfg.Query.QueueTimeoutSec = rapid.SampledFrom([]int{0, 10}).Draw(t, "queueTimeout")
		statsMode := rapid.SampledFrom([]string{"timeindex", "timeindex", "timeindex", "none", "manifest", "manifest+timeindex"}).Draw(t, "statsMode")
		cfg.TimeIndex.Enabled = strings.Contains(statsMode, "timeindex")
		if rapid.Bool().Draw(t, "suffix") {
			cfg.TimeIndex.KeySuffix = ".tix"
		}
		caches := rapid.IntRange(0, 2).Draw(t, "caches") == 0
		if caches {
			cfg.DiscoveryCache = config.DiscoveryCacheConfig{TTLSeconds: 3600, MaxEntries: rapid.SampledFrom([]int{10000, 2}).Draw(t, "dcMax")}
		}
		resultCache := caches || rapid.IntRange(0, 2).Draw(t, "resultCache") == 0
		if resultCache {
			cfg.ResultCache = config.ResultCacheConfig{TTLSeconds: 3600, MaxEntries: 8, MaxRows: rapid.SampledFrom([]int{1000, 1000, 2}).Draw(t, "rcRows")}
		}

		// ---- data set
		d := &c36Data{ns: ns, parts: map[string]int{}, next: map[string]int64{}, now0: now0}
		d.topics = rapid.SliceOfNDistinct(rapid.SampledFrom([]string{"orders", "pay", "ev_1"}), 1, 3, rapid.ID[string]).Draw(t, "topics")
		// topic names are case sensitive: sometimes add names with upper-case letters and pairs that differ only in case
		switch rapid.IntRange(0, 8).Draw(t, "caseTopics") {
		case 0:
			d.topics = append(d.topics, "userEvents")
		case 1:
			d.topics = append(d.topics, "userEvents", "userevents")
		case 2:
			d.topics = append(d.topics, "Orders") // "orders" may exist as well
		}
		monotone := rapid.IntRange(0, 2).Draw(t, "monotone") != 0
		for _, topic := range d.topics {
			np := rapid.IntRange(1, 3).Draw(t, "nparts")
			d.parts[topic] = np
			for p := 0; p < np; p++ {
				d.next[fmt.Sprintf("%s/%d", topic, p)] = int64(rapid.SampledFrom([]int{0, 0, 7, 1000}).Draw(t, "firstbase"))
				nsegs := rapid.IntRange(0, 5).Draw(t, "nsegs")
				for i := 0; i < nsegs; i++ {
					seg := c36BuildSegment(t, s3, d, topic, int32(p), now0, monotone)
					// only the newest segment of a partition may still lack its index (upload in progress)
					if i < nsegs-1 || rapid.IntRange(0, 5).Draw(t, "incomplete") != 0 {
						c36Complete(s3, seg)
					}
				}
			}
		}
		// sidecars for a generated subset (built by the repo's TimeIndexBuilder)
		buildCfg := cfg
		buildCfg.Manifest.Enabled = false
		var side []*c36Seg
		sidePolicy := rapid.SampledFrom([]string{"all", "some", "some", "none"}).Draw(t, "sidecars")
		for _, s := range d.segs {
			if !s.Complete {
				continue
			}
			if sidePolicy == "all" || (sidePolicy == "some" && rapid.Bool().Draw(t, "side")) {
				side = append(side, s)
			}
		}
		if err := c36BuildSidecars(buildCfg, side); err != nil {
			t.Fatalf("VF-INCONCLUSIVE: time index build against the S3 fake failed: %v", err)
		}
		if strings.Contains(statsMode, "manifest") {
			cfg.Manifest = config.ManifestConfig{Enabled: true, Key: "manifest.json", TTLSeconds: rapid.SampledFrom([]int{0, 3600}).Draw(t, "manTTL")}
			base, err := discovery.New(func() config.Config { c := buildCfg; c.DiscoveryCache = config.DiscoveryCacheConfig{}; return c }())
			if err != nil {
				t.Fatalf("VF-INCONCLUSIVE: discovery.New: %v", err)
			}
			mb, err := discovery.NewManifestBuilder(buildCfg, base)
			if err != nil {
				t.Fatalf("VF-INCONCLUSIVE: manifest builder: %v", err)
			}
			if err := mb.Build(context.Background()); err != nil {
				t.Fatalf("VF-INCONCLUSIVE: manifest build against the S3 fake failed: %v", err)
			}
		}
		mutable := !caches && !resultCache && !cfg.Manifest.Enabled

		var allTs, allOffs []int64
		collect := func() {
			allTs, allOffs = allTs[:0], allOffs[:0]
			for _, s := range d.segs {
				for _, r := range s.Recs {
					allTs = append(allTs, r.Ts)
					allOffs = append(allOffs, r.Off)
				}
			}
		}
		collect()

		// ---- server + client
		srv := New(cfg, quiet)
		sc, cc := net.Pipe()
		ctx, cancel := context.WithCancel(context.Background())
		done := make(chan struct{})
		go func() { defer close(done); srv.handleConnection(ctx, sc) }()
		defer func() { cc.Close(); cancel(); <-done }()
		fe := pgproto3.NewFrontend(pgproto3.NewChunkReader(cc), cc)
		if err := c36Startup(cc, fe); err != nil {
			t.Fatalf("VF-INCONCLUSIVE: startup: %v", err)
		}

		shape := fmt.Sprintf("%s/%s/c=%v", statsMode, sidePolicy, caches)
		for _, topic := range d.topics {
			for p := 0; p < d.parts[topic]; p++ {
				n, sc := 0, 0
				for _, s := range d.segs {
					if s.Topic == topic && int(s.Part) == p {
						n++
						if s.Sidecar {
							sc++
						}
					}
				}
				shape += fmt.Sprintf(",%d:%d", n, sc)
			}
		}

		var prev []c36Query
		var cachedJSON []c36Query // answered, cacheable queries with JSON columns on a cache-enabled server (weighted as variant sources)
		var seen [][2]string      // (text folded outside quotes, aliases as written) of every query sent to this server
		nq := rapid.IntRange(3, 8).Draw(t, "nqueries")
		for qi := 0; qi < nq; qi++ {
			// history step: a segment becomes complete / a new segment (and maybe its sidecar) appears
			if mutable && rapid.IntRange(0, 3).Draw(t, "mutate") == 0 {
				topic := rapid.SampledFrom(d.topics).Draw(t, "mtopic")
				part := int32(rapid.IntRange(0, d.parts[topic]-1).Draw(t, "mpart"))
				for _, s := range d.segs {
					if s.Topic == topic && s.Part == part && !s.Complete {
						c36Complete(s3, s)
					}
				}
				seg := c36BuildSegment(t, s3, d, topic, part, now0, monotone)
				c36Complete(s3, seg)
				if rapid.Bool().Draw(t, "mside") {
					if err := c36BuildSidecars(buildCfg, []*c36Seg{seg}); err != nil {
						t.Fatalf("VF-INCONCLUSIVE: time index build: %v", err)
					}
				}
				collect()
				st.Class("history:segment-added")
			}
			var q c36Query
			if len(prev) > 0 && rapid.IntRange(0, 4).Draw(t, "repeat") == 0 {
				q = rapid.SampledFrom(prev).Draw(t, "again")
				st.Class("repeat-query")
			} else if v, ok := c36VariantOfSome(t, append(append([]c36Query(nil), prev...), cachedJSON...)); ok {
				q = v // differs from an earlier query only in letter case / white space inside a JSON path or alias
				st.Class("case-variant-query")
			} else {
				q = c36GenQuery(t, d, allTs, allOffs)
			}
			prev = append(prev, q)

			if strings.ToLower(q.Topic) != q.Topic {
				st.Class("topic-with-upper-case")
				if knownTopicCase {
					st.ExcludedCase(c36FindingTopicCase)
					continue
				}
			}
			if q.LimitZero || q.TailZero {
				st.Class("limit-or-tail-zero")
				if knownLimitZero {
					st.ExcludedCase(c36FindingLimitZero)
					continue
				}
			}
			cacheable := q.Tail == 0 && !q.TailZero && !q.ScanFull && (q.LastText != "" || (q.TsMin != nil && q.TsMax != nil))
			if resultCache && cacheable {
				// known finding: unquoted aliases that differ only in letter case share a cache entry
				clash := false
				for _, e := range seen {
					if e[0] == c36FoldOutsideQuotes(q.Text) && e[1] != c36AliasKey(q) {
						clash = true
					}
				}
				if clash {
					st.Class("alias-case-cache-key-clash")
					if knownAliasCase {
						st.ExcludedCase(c36FindingAliasCase)
						continue
					}
				}
			}
			seen = append(seen, [2]string{c36FoldOutsideQuotes(q.Text), c36AliasKey(q)})

			agrees, parseErr := c36ParserAgrees(q)
			exp := c36Reference(d, q, cfg.Query.DefaultLimit)
			// fault on ONE segment object of the topic while this query runs (store error, object
			// gone between list and get, unreadable body): the reply must then be an error, or a
			// success whose rows still equal direct filtering (e.g. the segment was not needed)
			faultMode := ""
			if cs := d.completed(q.Topic); len(cs) > 0 && rapid.IntRange(0, 4).Draw(t, "fault") == 0 {
				fs := rapid.SampledFrom(cs).Draw(t, "faultSeg")
				faultMode = rapid.SampledFrom([]string{"500", "404", "corrupt"}).Draw(t, "faultMode")
				s3.SetFault(fs.Key, faultMode)
			}
			mark := s3.Mark()
			resp := c36RunQuery(fe, cc, q.Text)
			faultHits := s3.ClearFault()
			if faultMode != "" {
				st.Class("fault:" + faultMode)
				if faultHits > 0 {
					if resp.errMsg != "" {
						st.Class("fault-hit->error")
					} else {
						st.Class("fault-hit->success")
					}
				}
			}
			if resp.ioErr != nil {
				t.Fatalf("VF-INCONCLUSIVE: connection to the server under test broke on %q: %v", q.Text, resp.ioErr)
			}
			if bad := s3.Bad(); len(bad) > 0 {
				t.Fatalf("VF-INCONCLUSIVE: S3 fake got a request it does not implement: %v", bad)
			}
			if time.Since(caseStart) > 90*time.Second {
				st.Class("dropped:case-too-slow-for-time-margins")
				return
			}
			if resp.errMsg != "" {
				st.Class("rejected:" + c36ErrClass(resp.errMsg))
				continue // rejecting is always acceptable
			}
			if parseErr || !agrees {
				// statistic only: the filters of the statement are what its text says (documented
				// WHERE/LIMIT/TAIL/LAST/ORDER BY syntax), however the dialect happened to read it
				st.Class("stat:parser-reads-text-differently")
			}
			st.Class("answered")
			if resultCache && cacheable && c36CaseKey(q) != "" && len(resp.rows) > 0 {
				cachedJSON = append(cachedJSON, q, q, q)
			}
			if q.Shape == "" {
				st.Class("f:plain")
			}
			for _, f := range strings.Split(q.Shape, "+") {
				if f != "" {
					st.Class("f:" + f)
				}
			}
			st.Class("stats:" + statsMode + "/" + sidePolicy)
			if cfg.Query.MaxRows > 0 && cfg.Query.MaxRows <= 5 {
				st.Class("cfg:small-max_rows")
				if q.Order && len(exp.matches) > cfg.Query.MaxRows {
					st.Class("order-by+matches>max_rows")
				}
			}
			if cfg.Query.MaxScanSegments > 0 || cfg.Query.MaxScanBytes > 0 {
				st.Class("cfg:scan-limits")
			}

			// which segments of the topic were actually fetched?
			fetched := map[string]bool{}
			for _, op := range s3.Since(mark) {
				if op.Method == "GET" && !op.List && !op.Ranged && strings.HasSuffix(op.Key, ".kfs") {
					fetched[op.Key] = true
				}
			}
			skipped := 0
			for _, s := range d.completed(q.Topic) {
				if (q.Part == nil || s.Part == *q.Part) && !fetched[s.Key] {
					skipped++
				}
			}

			ctxText := fmt.Sprintf("stats mode %s, sidecars %s, caches %v, segments skipped %d, injected fault %q (hits %d)", statsMode, sidePolicy, caches, skipped, faultMode, faultHits)
			if v := c36Judge(d, q, exp, resp, st, ctxText); v != "" {
				t.Fatalf("%s", v)
			}
			got := resp.rows
			want := exp.matches
			if skipped > 0 {
				st.Class("pruned>=1-segment")
			}
			if exp.prunable > 0 {
				st.Class("prunable>=1-segment")
			}
			if exp.candidates >= 2 && skipped >= 1 && len(got) >= 1 {
				if st.NonTrivial(shape, q.Shape, exp.candidates, skipped, len(got), len(want)) {
					st.Sample(map[string]any{"query": q.Text, "dataset": c36Describe(d, q.Topic), "stats": statsMode + "/" + sidePolicy, "rows": len(got), "matches": len(want), "segments": exp.candidates, "skipped": skipped})
				}
			}
		}
	})
}

func c36Show(rows []string) []string {
	out := make([]string, 0, len(rows))
	for i, r := range rows {
		if i >= 12 {
			out = append(out, "…")
			break
		}
		out = append(out, strings.ReplaceAll(r, "\x1f", "|"))
	}
	return out
}

func c36Describe(d *c36Data, topic string) string {
	var sb strings.Builder
	for _, s := range d.segs {
		if s.Topic != topic {
			continue
		}
		fmt.Fprintf(&sb, "[p%d base=%d complete=%v sidecar=%v:", s.Part, s.Base, s.Complete, s.Sidecar)
		for _, r := range s.Recs {
			fmt.Fprintf(&sb, " %d@%d", r.Off, r.Ts)
		}
		sb.WriteString("] ")
	}
	return sb.String()
}

// Witness of C36-result-cache-key-folds-literals through the same wire path and oracle: two
// cacheable queries on one server that differ only in the letter case of a JSON path.
func TestVF_C36_Witness(t *testing.T) {
	st := vfkit.NewStats("C36", "witness")
	defer st.Flush()
	c36AWSEnv()
	s3 := c36NewS3()
	defer s3.Close()
	now0 := time.Now().UnixMilli()
	d := &c36Data{ns: "c36w", topics: []string{"orders"}, parts: map[string]int{"orders": 1}, next: map[string]int64{}, now0: now0}
	seg := &c36Seg{Topic: "orders", Part: 0, Base: 0, Key: c36SegKey(d.ns, "orders", 0, 0, "kfs"), IdxKey: c36SegKey(d.ns, "orders", 0, 0, "index")}
	var recs []vfkit.Record
	first := now0 - 5*60000
	for i := 0; i < 2; i++ {
		o := strconv.Itoa(i)
		val := []byte(fmt.Sprintf(`{"ID":"upper-%d","id":"lower-%d"}`, i, i))
		seg.Recs = append(seg.Recs, c36Rec{Part: 0, Off: int64(i), Ts: first + int64(i), Value: val, Seg: seg.Key, JSON: map[string]string{"ID": "upper-" + o, "id": "lower-" + o}})
		recs = append(recs, vfkit.Record{TsDelta: int64(i), Value: val})
	}
	rb, err := storage.NewRecordBatchFromBytes(vfkit.NewBatch(0, first, recs).Encode())
	if err != nil {
		t.Fatalf("VF-INCONCLUSIVE: %v", err)
	}
	art, err := storage.BuildSegment(storage.SegmentWriterConfig{IndexIntervalMessages: 1}, []storage.RecordBatch{rb}, time.UnixMilli(now0))
	if err != nil {
		t.Fatalf("VF-INCONCLUSIVE: %v", err)
	}
	s3.Put(c36Bucket, seg.Key, art.SegmentBytes)
	seg.idx = art.IndexBytes
	c36Complete(s3, seg)
	d.segs = []*c36Seg{seg}
	{ // a topic whose name has an upper-case letter
		d.topics = append(d.topics, "userEvents")
		d.parts["userEvents"] = 1
		us := &c36Seg{Topic: "userEvents", Part: 0, Base: 0, Key: c36SegKey(d.ns, "userEvents", 0, 0, "kfs"), IdxKey: c36SegKey(d.ns, "userEvents", 0, 0, "index")}
		var urecs []vfkit.Record
		for i := 0; i < 3; i++ {
			us.Recs = append(us.Recs, c36Rec{Part: 0, Off: int64(i), Ts: first + int64(i), Key: []byte("u"), Seg: us.Key})
			urecs = append(urecs, vfkit.Record{TsDelta: int64(i), Key: []byte("u")})
		}
		urb, err := storage.NewRecordBatchFromBytes(vfkit.NewBatch(0, first, urecs).Encode())
		if err != nil {
			t.Fatalf("VF-INCONCLUSIVE: %v", err)
		}
		uart, err := storage.BuildSegment(storage.SegmentWriterConfig{IndexIntervalMessages: 1}, []storage.RecordBatch{urb}, time.UnixMilli(now0))
		if err != nil {
			t.Fatalf("VF-INCONCLUSIVE: %v", err)
		}
		s3.Put(c36Bucket, us.Key, uart.SegmentBytes)
		us.idx = uart.IndexBytes
		c36Complete(s3, us)
		d.segs = append(d.segs, us)
	}
	cfg := config.Config{
		S3:          config.S3Config{Bucket: c36Bucket, Namespace: d.ns, Endpoint: s3.URL(), Region: "us-east-1", PathStyle: true},
		Server:      config.ServerConfig{ServerVersion: "15.0", ClientEncoding: "UTF8"},
		Query:       config.QueryConfig{DefaultLimit: 1000, MaxUnbounded: 10000, RequireTimeBound: true},
		ResultCache: config.ResultCacheConfig{TTLSeconds: 3600, MaxEntries: 8, MaxRows: 1000},
	}
	srv := New(cfg, log.New(io.Discard, "", 0))
	sc, cc := net.Pipe()
	ctx, cancel := context.WithCancel(context.Background())
	done := make(chan struct{})
	go func() { defer close(done); srv.handleConnection(ctx, sc) }()
	defer func() { cc.Close(); cancel(); <-done }()
	fe := pgproto3.NewFrontend(pgproto3.NewChunkReader(cc), cc)
	if err := c36Startup(cc, fe); err != nil {
		t.Fatalf("VF-INCONCLUSIVE: startup: %v", err)
	}
	mk := func(path, alias string) c36Query {
		q := c36Query{Topic: "orders", Cols: []string{"_offset", c36JSONSpec(path, alias)}, LastText: "1h", LastMs: 3600000}
		q.ListText = c36ListText(q.Cols)
		q.Text = "SELECT " + q.ListText + " FROM orders LAST 1h"
		return q
	}
	run := func(id string, pair [2]c36Query, whatStill, whatGone string) {
		still, what := false, whatGone
		for i, q := range pair {
			st.Eval()
			resp := c36RunQuery(fe, cc, q.Text)
			if resp.ioErr != nil || resp.errMsg != "" {
				t.Fatalf("VF-INCONCLUSIVE: witness query %q failed: %v %s", q.Text, resp.ioErr, resp.errMsg)
			}
			v := c36Judge(d, q, c36Reference(d, q, cfg.Query.DefaultLimit), resp, st, "witness")
			st.NonTrivial(q.Text)
			st.Sample(map[string]any{"query": q.Text, "columns": resp.fields, "rows": resp.rows, "verdict": strings.SplitN(v, "\n", 2)[0]})
			if v != "" {
				if i == 0 {
					t.Fatalf("VF-INCONCLUSIVE: the first witness query is already wrong: %s", v)
				}
				still, what = true, whatStill
			}
		}
		st.KnownResult(id, still, what)
	}
	run(c36FindingCacheKey, [2]c36Query{mk("$.ID", ""), mk("$.id", "")},
		"result cache on: `SELECT _offset, json_value(_value, '$.ID') FROM orders LAST 1h` then the same with '$.id' returns upper-0, upper-1 (the first query's cache entry)",
		"the '$.id' query is answered with its own rows after the '$.ID' query")
	run(c36FindingAliasCase, [2]c36Query{mk("$.p", "VAL"), mk("$.p", "val")},
		"result cache on: `SELECT _offset, json_value(_value, '$.p') as VAL FROM orders LAST 1h` then the same with `as val` is answered with column header VAL (the first query's cache entry)",
		"the `as val` query gets its own column header after the `as VAL` query")
	runOne := func(id string, q c36Query, whatStill, whatGone string) {
		st.Eval()
		resp := c36RunQuery(fe, cc, q.Text)
		if resp.ioErr != nil {
			t.Fatalf("VF-INCONCLUSIVE: witness query %q failed: %v", q.Text, resp.ioErr)
		}
		v := ""
		if resp.errMsg == "" { // rejecting would be acceptable
			v = c36Judge(d, q, c36Reference(d, q, cfg.Query.DefaultLimit), resp, st, "witness")
		}
		st.NonTrivial(q.Text)
		st.Sample(map[string]any{"query": q.Text, "rows": len(resp.rows), "error": resp.errMsg, "verdict": strings.SplitN(v, "\n", 2)[0]})
		if v != "" {
			st.KnownResult(id, true, whatStill)
		} else {
			st.KnownResult(id, false, whatGone)
		}
	}
	runOne(c36FindingTopicCase, c36Query{Text: "SELECT _offset, _key FROM userEvents SCAN FULL", Topic: "userEvents", Cols: []string{"_offset", "_key"}, ScanFull: true, ListText: "_offset, _key"},
		"`SELECT _offset, _key FROM userEvents SCAN FULL` returns 0 rows although topic userEvents has 3 records (the parser reads the lower-cased name)",
		"the query on userEvents returns the topic's rows (or is rejected)")
	runOne(c36FindingLimitZero, c36Query{Text: "SELECT _offset FROM orders LIMIT 0 SCAN FULL", Topic: "orders", Cols: []string{"_offset"}, ScanFull: true, LimitZero: true, ListText: "_offset"},
		"`SELECT _offset FROM orders LIMIT 0 SCAN FULL` returns the topic's 2 rows instead of none",
		"LIMIT 0 returns no rows (or is rejected)")
}
