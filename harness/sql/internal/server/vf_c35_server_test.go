//go:build verif

package server

import (
	"context"
	"fmt"
	"io"
	"log"
	"net"
	"runtime/debug"
	"strconv"
	"strings"
	"testing"
	"time"
	"unicode/utf8"

	"github.com/jackc/pgproto3/v2"
	"pgregory.net/rapid"
	"verif.local/vfkit"

	"github.com/kafscale/platform/addons/processors/sql-processor/internal/config"
	"github.com/kafscale/platform/addons/processors/sql-processor/internal/decoder"
	"github.com/kafscale/platform/addons/processors/sql-processor/internal/discovery"
)

// C35, server leg: "one client cannot take the SQL server down". Whatever query text is
// sent over the pg wire (simple query, or Parse/Bind/Describe/Execute/Sync), the real
// Server.handleConnection answers with a result or an error, and a following trivial query on
// the same connection is answered. handleConnection runs on a goroutine owned by the harness
// with a recover, so a panic anywhere on the query path (parser, logging, catalog, executor)
// is reported to rapid (and shrunk) instead of killing the process.

type c35sLister struct{ segs []discovery.SegmentRef }

func (l c35sLister) ListCompleted(ctx context.Context) ([]discovery.SegmentRef, error) {
	return l.segs, nil
}

type c35sDecoder struct{ now int64 }

func (d c35sDecoder) Decode(ctx context.Context, segmentKey, indexKey, topic string, partition int32) ([]decoder.Record, error) {
	return []decoder.Record{
		{Topic: topic, Partition: partition, Offset: 0, Timestamp: d.now - 60000, Key: []byte("k1"), Value: []byte(`{"id":1,"名":"é"}`)},
		{Topic: topic, Partition: partition, Offset: 1, Timestamp: d.now - 30000, Key: nil, Value: []byte("\xff\x00raw")},
	}, nil
}

func c35sServer(requireBound, cache bool) *Server {
	cfg := config.Config{
		Server: config.ServerConfig{ServerVersion: "15.0", ClientEncoding: "UTF8"},
		Query:  config.QueryConfig{DefaultLimit: 1000, MaxUnbounded: 10000, RequireTimeBound: requireBound},
	}
	for _, tp := range []string{"orders", "payments", "t"} {
		cfg.Metadata.Topics = append(cfg.Metadata.Topics, config.TopicConfig{Name: tp, Partitions: []int32{0},
			Schema: config.SchemaConfig{Columns: []config.SchemaColumn{{Name: "amount", Type: "double", Path: "$.id"}}}})
	}
	if cache {
		cfg.ResultCache = config.ResultCacheConfig{TTLSeconds: 60, MaxEntries: 4, MaxRows: 100}
	}
	srv := New(cfg, log.New(io.Discard, "", 0))
	var segs []discovery.SegmentRef
	for _, tp := range []string{"orders", "payments", "t"} {
		segs = append(segs, discovery.SegmentRef{Topic: tp, Partition: 0, BaseOffset: 0, SegmentKey: tp + "/0/segment-0.kfs", IndexKey: tp + "/0/segment-0.index", SizeBytes: 100})
	}
	srv.lister, srv.listerInit = c35sLister{segs}, true
	srv.decoder, srv.decoderInit = c35sDecoder{now: time.Now().UnixMilli()}, true
	return srv
}

// ---------------------------------------------------------------- query texts

var c35sWide = []struct {
	name string
	s    string
}{{"ascii", "a"}, {"2byte", "é"}, {"2byte-cyr", "ж"}, {"3byte", "日"}, {"3byte-mix", "日本語"}, {"4byte", "😀"}, {"grow", "Ⱥ"}, {"shrink", "İ"}, {"kelvin", "K"}, {"mixed", "aé日😀"}}

// c35sRun returns n repetitions' worth of filler whose BYTE length is close to bytes.
func c35sFiller(unit string, bytes int) string {
	if bytes <= 0 {
		return ""
	}
	n := bytes / len(unit)
	if n < 1 {
		n = 1
	}
	return strings.Repeat(unit, n)
}

var c35sTemplates = []string{ // %s = filler
	"select '%s'", "select '%s' from orders tail 3", "select %s from orders last 1h", "select _key as %s from orders tail 2",
	"select * from %s tail 5", "select * from orders o join %s p within 10m last 1h", "describe %s", "show partitions from %s",
	"delete from заказы where примечание = '%s'", "explain select * from orders last 1h _ts >= '%s'",
	"select json_value(_value, '$.%s') from orders scan full limit 3", "select * from orders tail 1 -- %s", "%s",
	"set application_name = '%s'", "select * from information_schema.tables where x = '%s'", "select count(*) from orders last 1h group by %s",
	"select * from orders where _partition = 0 limit 2 _ts between '%s' and '%s'", "explain %s", "select * from orders order by _ts desc limit 2 %s",
}

var c35sShort = []string{
	"select * from orders tail 3", "SELECT _partition, count(*), max(_ts) AS latest FROM orders LAST 5m GROUP BY _partition;",
	"select o._key, p._value from orders o join payments p on o._key = p._key within 10m last 1h", "explain select * from orders last 24h",
	"select json_value(_value, '$.id') as a, amount from orders order by _ts desc limit 3 last 1h", "show topics", "show partitions from t", "describe orders",
	"select * from pg_catalog.pg_tables", "select * from information_schema.columns", "set x = 1", "reset all", "select", "explain", "select from", ";", " ",
	"select * from orders", "select * from nosuch scan full limit 5", "select sum(amount), avg(amount) from orders last 1h", "select * from orders tail 0",
	"select $1 from orders", "select * from orders limit 99999999999999999999", "select _key from orders last 99999999999d",
}

func c35sQuery(t *rapid.T) (string, string) {
	switch rapid.IntRange(0, 5).Draw(t, "qkind") {
	case 0:
		return rapid.SampledFrom(c35sShort).Draw(t, "short"), "short"
	case 1: // short statement decorated with wide characters
		w := rapid.SampledFrom(c35sWide).Draw(t, "w")
		tpl := rapid.SampledFrom(c35sTemplates).Draw(t, "tpl")
		f := c35sFiller(w.s, rapid.IntRange(1, 40).Draw(t, "fb"))
		return strings.ReplaceAll(tpl, "%s", f), "decorated-" + w.name
	case 2: // arbitrary bytes (no NUL: the wire format is a C string)
		pre := rapid.SampledFrom([]string{"", "select ", "select * from ", "explain select ", "describe "}).Draw(t, "pre")
		b := rapid.SliceOfN(rapid.Byte(), 0, 700).Draw(t, "bytes")
		for i := range b {
			if b[i] == 0 {
				b[i] = 0xff
			}
		}
		return pre + string(b), "raw-bytes"
	default: // byte length steered around 512 (and far beyond) with characters of a chosen width
		w := rapid.SampledFrom(c35sWide).Draw(t, "w")
		tpl := rapid.SampledFrom(c35sTemplates).Draw(t, "tpl")
		var total int
		switch rapid.IntRange(0, 3).Draw(t, "len") {
		case 0:
			total = rapid.IntRange(480, 560).Draw(t, "around512")
		case 1:
			total = rapid.IntRange(513, 900).Draw(t, "over512")
		case 2:
			total = rapid.IntRange(900, 4000).Draw(t, "long")
		default:
			total = rapid.IntRange(100, 512).Draw(t, "under512")
		}
		holes := strings.Count(tpl, "%s")
		fill := (total - (len(tpl) - 2*holes)) / holes
		f := c35sFiller(w.s, fill)
		if rapid.IntRange(0, 3).Draw(t, "mixascii") == 0 {
			f = c35sFiller("x", fill/2) + c35sFiller(w.s, fill/2)
		}
		q := strings.ReplaceAll(tpl, "%s", f)
		if rapid.IntRange(0, 5).Draw(t, "pad") == 0 {
			q = "  \n" + q + " ;  "
		}
		return q, "sized-" + w.name
	}
}

// ---------------------------------------------------------------- wire helpers

type c35sConn struct {
	cc     net.Conn
	fe     *pgproto3.Frontend
	crash  chan string
	done   chan struct{}
	cancel context.CancelFunc
}

func c35sOpen(srv *Server) (*c35sConn, error) {
	sc, cc := net.Pipe()
	c := &c35sConn{cc: cc, crash: make(chan string, 1), done: make(chan struct{})}
	ctx, cancel := context.WithCancel(context.Background())
	c.cancel = cancel
	go func() {
		defer close(c.done)
		defer func() {
			if r := recover(); r != nil {
				c.crash <- fmt.Sprintf("%v\n%s", r, c35sTopFrames(string(debug.Stack())))
				sc.Close()
			}
		}()
		srv.handleConnection(ctx, sc)
	}()
	c.fe = pgproto3.NewFrontend(pgproto3.NewChunkReader(cc), cc)
	_ = cc.SetDeadline(time.Now().Add(60 * time.Second))
	buf, err := (&pgproto3.StartupMessage{ProtocolVersion: pgproto3.ProtocolVersionNumber, Parameters: map[string]string{"user": "vf"}}).Encode(nil)
	if err != nil {
		return nil, err
	}
	if _, err := cc.Write(buf); err != nil {
		return nil, err
	}
	if _, err := c.untilReady(); err != nil {
		return nil, err
	}
	return c, nil
}

func c35sTopFrames(stack string) string {
	var keep []string
	for _, l := range strings.Split(stack, "\n") {
		if strings.Contains(l, "sql-processor/internal/") && !strings.Contains(l, "vf_c35_") {
			keep = append(keep, strings.TrimSpace(l))
			if len(keep) >= 6 {
				break
			}
		}
	}
	return strings.Join(keep, "\n")
}

type c35sAnswer struct {
	errs, rows, completes int
}

func (c *c35sConn) untilReady() (c35sAnswer, error) {
	var a c35sAnswer
	for {
		m, err := c.fe.Receive()
		if err != nil {
			return a, err
		}
		switch m.(type) {
		case *pgproto3.ErrorResponse:
			a.errs++
		case *pgproto3.DataRow:
			a.rows++
		case *pgproto3.CommandComplete:
			a.completes++
		case *pgproto3.ReadyForQuery:
			return a, nil
		}
	}
}

func (c *c35sConn) close() {
	c.cc.Close()
	c.cancel()
	<-c.done
}

// send one statement; extended = Parse/Bind/Describe/Execute/Sync
func (c *c35sConn) exchange(q string, extended bool) (c35sAnswer, error) {
	_ = c.cc.SetDeadline(time.Now().Add(120 * time.Second))
	if !extended {
		if err := c.fe.Send(&pgproto3.Query{String: q}); err != nil {
			return c35sAnswer{}, err
		}
		return c.untilReady()
	}
	// net.Pipe is unbuffered: the server may answer Parse while we are still writing Bind
	var buf []byte
	for _, m := range []pgproto3.FrontendMessage{&pgproto3.Parse{Name: "s", Query: q}, &pgproto3.Bind{PreparedStatement: "s"},
		&pgproto3.Describe{ObjectType: 'S', Name: "s"}, &pgproto3.Execute{}, &pgproto3.Sync{}} {
		var err error
		if buf, err = m.Encode(buf); err != nil {
			return c35sAnswer{}, err
		}
	}
	werr := make(chan error, 1)
	go func() { _, err := c.cc.Write(buf); werr <- err }()
	a, err := c.untilReady()
	if err != nil {
		c.cc.Close() // unblock the writer
		<-werr
		return a, err
	}
	if err := <-werr; err != nil {
		return a, err
	}
	return a, nil
}

func TestVF_C35_Server(t *testing.T) {
	st := vfkit.NewStats("C35", "server")
	defer st.Flush()
	rapid.Check(t, func(t *rapid.T) {
		st.Eval()
		srv := c35sServer(rapid.Bool().Draw(t, "requireBound"), rapid.Bool().Draw(t, "cache"))
		conn, err := c35sOpen(srv)
		if err != nil {
			t.Fatalf("VF-INCONCLUSIVE: startup: %v", err)
		}
		defer func() { conn.close() }()
		n := rapid.IntRange(1, 4).Draw(t, "nq")
		for i := 0; i < n; i++ {
			q, class := c35sQuery(t)
			extended := rapid.IntRange(0, 3).Draw(t, "extended") == 0
			q = strings.ReplaceAll(q, "\x00", "\xff")
			bytes, runes := len(strings.TrimSpace(q)), utf8.RuneCountInString(strings.TrimSpace(q))
			lenClass := "bytes<=512"
			switch {
			case bytes > 512 && runes <= 512:
				lenClass = "bytes>512,runes<=512"
			case bytes > 512:
				lenClass = "bytes>512,runes>512"
			}
			st.Class(class)
			st.Class(lenClass)
			if extended {
				st.Class("extended-protocol")
			}
			fail := func(what string, err error) {
				select {
				case p := <-conn.crash:
					t.Fatalf("the server's connection goroutine panicked on a query (%d bytes, %d characters, extended=%v): %s\nquery: %q", bytes, runes, extended, p, q)
				case <-time.After(2 * time.Second):
				}
				t.Fatalf("%s: %v (%d bytes, %d characters, extended=%v)\nquery: %q", what, err, bytes, runes, extended, q)
			}
			ans, err := conn.exchange(q, extended)
			if err != nil {
				fail("connection broke instead of an answer", err)
			}
			switch {
			case ans.errs > 0:
				st.Class("answer-error")
			case ans.completes > 0:
				st.Class("answer-result")
			default:
				st.Class("answer-empty") // e.g. empty statement; ReadyForQuery arrived
			}
			// the server must still be usable
			probe, err := conn.exchange("describe orders", false)
			if err != nil {
				fail("connection unusable after the query", err)
			}
			if probe.rows == 0 || probe.errs > 0 {
				t.Fatalf("follow-up `describe orders` answered with %d rows / %d errors after %q", probe.rows, probe.errs, q)
			}
			if bytes > 512 || !utf8.ValidString(q) {
				if st.NonTrivial(class, lenClass, extended, strconv.Itoa(bytes/64), strconv.Itoa(runes/64), ans.errs > 0) {
					qq := q
					if len(qq) > 160 {
						qq = qq[:160] + "…"
					}
					st.Sample(map[string]any{"class": class, "bytes": bytes, "runes": runes, "extended": extended, "error": ans.errs > 0, "query": qq})
				}
			}
		}
	})
}
