//go:build verif

package metadata

// In-package shim for the C21 check, which lives in the external test package
// (metadata_test) because it must import pkg/operator (which imports this package).

// C21StopSnapshotWatcher stops the store's background snapshot watcher without closing
// its etcd client, so that the harness decides when a "watch fired" refresh is delivered
// (by calling the exported RefreshSnapshot).
func C21StopSnapshotWatcher(s *EtcdStore) {
	if s.cancel != nil {
		s.cancel()
	}
}
