//go:build verif

package metadata_test

// C21: once a topic creation or partition increase has been acknowledged, later operations
// (admin operations on other brokers, snapshot refreshes, operator publishes) never make
// the topic disappear or its partition count shrink; only an explicit delete removes it.
//
// 2-3 real EtcdStore "brokers" share one embedded etcd. Their background snapshot watcher
// is stopped; the harness delivers "watch fired" to a chosen broker as an explicit
// schedule step (RefreshSnapshot). Steps: CreateTopic / CreatePartitions / DeleteTopic on a
// chosen broker, refresh of a chosen broker, and an operator publish
// (operator.PublishMetadataSnapshot(BuildClusterMetadata(cluster, topic CRs))) with
// generated topic resources.
//
// Model: acknowledged topic -> highest acknowledged partition count; an acknowledged
// delete removes the entry. Oracle: after every step the etcd snapshot (what every broker
// converges to when changes stop) holds every model topic with at least that many
// partitions; at the end every broker is refreshed and its Metadata() must too.

import (
	"context"
	"encoding/json"
	"fmt"
	"net"
	"sort"
	"sync"
	"sync/atomic"
	"testing"
	"time"

	pb "go.etcd.io/etcd/api/v3/etcdserverpb"
	"google.golang.org/grpc"

	"github.com/twmb/franz-go/pkg/kmsg"
	clientv3 "go.etcd.io/etcd/client/v3"
	metav1 "k8s.io/apimachinery/pkg/apis/meta/v1"
	"pgregory.net/rapid"
	"verif.local/vfkit"

	kafscalev1alpha1 "github.com/KafScale/platform/api/v1alpha1"
	"github.com/KafScale/platform/internal/testutil"
	"github.com/KafScale/platform/pkg/metadata"
	"github.com/KafScale/platform/pkg/operator"
	"github.com/KafScale/platform/pkg/protocol"
)

const (
	c21FindingStale  = "C21-stale-broker-overwrites-snapshot"
	c21FindingShrink = "C21-operator-shrinks-acknowledged-partitions"
	c21SnapshotKey   = "/kafscale/metadata/snapshot"
)

var errC21Inconclusive = fmt.Errorf("vf c21: inconclusive")

type c21Env struct {
	endpoints []string
	admin     *clientv3.Client
	// gating gRPC front for the operator's own etcd client (PublishMetadataSnapshot dials the
	// endpoints it is given): Range and Txn park while armed, so that broker operations can be
	// scheduled between the operator's read and its write.
	proxyEndpoints []string
	gate           *c21GateKV
}

type c21GateKV struct {
	pb.UnimplementedKVServer
	inner   pb.KVClient
	armed   atomic.Bool
	arrived chan string
	release chan struct{}
}

func (g *c21GateKV) park(what string) {
	if !g.armed.Load() {
		return
	}
	g.arrived <- what
	<-g.release
}

func (g *c21GateKV) Range(ctx context.Context, r *pb.RangeRequest) (*pb.RangeResponse, error) {
	g.park("range")
	return g.inner.Range(ctx, r)
}
func (g *c21GateKV) Txn(ctx context.Context, r *pb.TxnRequest) (*pb.TxnResponse, error) {
	g.park("txn")
	return g.inner.Txn(ctx, r)
}
func (g *c21GateKV) Put(ctx context.Context, r *pb.PutRequest) (*pb.PutResponse, error) {
	g.park("put")
	return g.inner.Put(ctx, r)
}
func (g *c21GateKV) DeleteRange(ctx context.Context, r *pb.DeleteRangeRequest) (*pb.DeleteRangeResponse, error) {
	return g.inner.DeleteRange(ctx, r)
}
func (g *c21GateKV) Compact(ctx context.Context, r *pb.CompactionRequest) (*pb.CompactionResponse, error) {
	return g.inner.Compact(ctx, r)
}

func c21NewEnv(t *testing.T) *c21Env {
	endpoints := testutil.StartEmbeddedEtcd(t)
	cli, err := clientv3.New(clientv3.Config{Endpoints: endpoints, DialTimeout: 5 * time.Second})
	if err != nil {
		fmt.Println("VF-INCONCLUSIVE: cannot create etcd client:", err)
		t.Fatalf("etcd client: %v", err)
	}
	t.Cleanup(func() { _ = cli.Close() })
	ctx, cancel := context.WithTimeout(context.Background(), 20*time.Second)
	defer cancel()
	if _, err := cli.Get(ctx, "ping"); err != nil {
		fmt.Println("VF-INCONCLUSIVE: embedded etcd does not answer:", err)
		t.Fatalf("etcd ping: %v", err)
	}
	e := &c21Env{endpoints: endpoints, admin: cli}
	ln, err := net.Listen("tcp", "127.0.0.1:0")
	if err != nil {
		fmt.Println("VF-INCONCLUSIVE: cannot listen for the gating etcd front:", err)
		t.Fatalf("listen: %v", err)
	}
	e.gate = &c21GateKV{inner: pb.NewKVClient(cli.ActiveConnection()), arrived: make(chan string, 16), release: make(chan struct{})}
	srv := grpc.NewServer()
	pb.RegisterKVServer(srv, e.gate)
	go func() { _ = srv.Serve(ln) }()
	t.Cleanup(srv.Stop)
	e.proxyEndpoints = []string{"http://" + ln.Addr().String()}
	return e
}

// same shape as cmd/broker metadataForBroker: the broker itself and the default topic
func c21BrokerMeta(id int32) metadata.ClusterMetadata {
	clusterID := "kafscale-cluster"
	return metadata.ClusterMetadata{
		ControllerID: id,
		ClusterID:    &clusterID,
		Brokers:      []protocol.MetadataBroker{{NodeID: id, Host: fmt.Sprintf("broker-%d", id), Port: 9092}},
		Topics: []protocol.MetadataTopic{{
			Topic:   kmsg.StringPtr("orders"),
			TopicID: metadata.TopicIDForName("orders"),
			Partitions: []protocol.MetadataPartition{{Partition: 0, Leader: id, Replicas: []int32{id}, ISR: []int32{id}}},
		}},
	}
}

type c21World struct {
	env     *c21Env
	brokers []*metadata.EtcdStore
	acked   map[string]int    // model
	owner   map[string]int    // broker that last acknowledged a create/grow of the topic
	version int               // number of successful writes to the etcd snapshot
	seen    []int             // version each broker's local snapshot corresponds to
	trace   []string
	// observations
	staleMutation   bool
	publishOverAck  bool
	crossBroker     bool
	excludedStale   bool
	excludedShrink  bool
	splitPublish    bool // broker operations ran between the operator's read and its write
	nestedOp        func() error // another broker's operation to run inside the next admin operation
	nestedAt        int
	nestedErr       error
	nestedRan       bool
	refreshAt       int  // next admin operation: a refresh of the same broker is issued at its k-th context check
	refreshDuring   bool
	refreshInside   bool
}

func (e *c21Env) newWorld(nb int) (*c21World, error) {
	ctx, cancel := context.WithTimeout(context.Background(), 30*time.Second)
	defer cancel()
	if _, err := e.admin.Delete(ctx, "/kafscale/", clientv3.WithPrefix()); err != nil {
		return nil, fmt.Errorf("%w: cleanup: %v", errC21Inconclusive, err)
	}
	w := &c21World{env: e, acked: map[string]int{}, owner: map[string]int{}, seen: make([]int, nb)}
	for i := 0; i < nb; i++ {
		s, err := metadata.NewEtcdStore(ctx, c21BrokerMeta(int32(i)), metadata.EtcdStoreConfig{Endpoints: e.endpoints})
		if err != nil {
			w.close()
			return nil, fmt.Errorf("%w: NewEtcdStore: %v", errC21Inconclusive, err)
		}
		metadata.C21StopSnapshotWatcher(s)
		w.brokers = append(w.brokers, s)
	}
	return w, nil
}

func (w *c21World) close() {
	for _, s := range w.brokers {
		_ = s.Close()
	}
}

func c21Counts(m *metadata.ClusterMetadata) map[string]int {
	out := map[string]int{}
	for _, t := range m.Topics {
		if t.Topic == nil || t.ErrorCode != 0 {
			continue
		}
		out[*t.Topic] = len(t.Partitions)
	}
	return out
}

func (w *c21World) etcdCounts() (map[string]int, bool, error) {
	ctx, cancel := context.WithTimeout(context.Background(), 30*time.Second)
	defer cancel()
	resp, err := w.env.admin.Get(ctx, c21SnapshotKey)
	if err != nil {
		return nil, false, fmt.Errorf("%w: read snapshot: %v", errC21Inconclusive, err)
	}
	if len(resp.Kvs) == 0 {
		return map[string]int{}, false, nil
	}
	var snap metadata.ClusterMetadata
	if err := json.Unmarshal(resp.Kvs[0].Value, &snap); err != nil {
		return nil, true, fmt.Errorf("etcd snapshot is not decodable: %v", err)
	}
	return c21Counts(&snap), true, nil
}

func (w *c21World) local(b int) map[string]int {
	m, err := w.brokers[b].Metadata(context.Background(), nil)
	if err != nil {
		return map[string]int{}
	}
	return c21Counts(m)
}

func c21SortedNames(m map[string]int) []string {
	out := make([]string, 0, len(m))
	for k := range m {
		out = append(out, k)
	}
	sort.Strings(out)
	return out
}

// checkEtcd: every acknowledged topic is in the etcd snapshot with at least the acknowledged count.
func (w *c21World) checkEtcd(after string) (string, error) {
	if len(w.acked) == 0 {
		return "", nil
	}
	counts, present, err := w.etcdCounts()
	if err != nil {
		if present {
			return err.Error(), nil
		}
		return "", err
	}
	for _, name := range c21SortedNames(w.acked) {
		want := w.acked[name]
		got, ok := counts[name]
		if !ok {
			return fmt.Sprintf("after %s: acknowledged topic %q (%d partitions) is missing from the etcd snapshot %v; trace=%v", after, name, want, counts, w.trace), nil
		}
		if got < want {
			return fmt.Sprintf("after %s: topic %q has %d partitions in the etcd snapshot, %d were acknowledged; trace=%v", after, name, got, want, w.trace), nil
		}
	}
	return "", nil
}

func (w *c21World) refresh(b int) error {
	ctx, cancel := context.WithTimeout(context.Background(), 30*time.Second)
	defer cancel()
	if err := w.brokers[b].RefreshSnapshot(ctx); err != nil {
		return fmt.Errorf("%w: RefreshSnapshot: %v", errC21Inconclusive, err)
	}
	w.seen[b] = w.version
	return nil
}

// beforeMutation handles staleness of broker b (exclusion of the listed finding, statistics).
func (w *c21World) beforeMutation(b int, knownStale bool) error {
	if w.seen[b] == w.version {
		return nil
	}
	if knownStale {
		w.excludedStale = true
		w.trace = append(w.trace, fmt.Sprintf("refresh(b%d)[forced]", b))
		return w.refresh(b)
	}
	w.staleMutation = true
	return nil
}

func (w *c21World) wrote(b int) {
	w.version++
	w.seen[b] = w.version
}

func (w *c21World) create(b int, name string, n int, knownStale bool) error {
	if err := w.beforeMutation(b, knownStale); err != nil {
		return err
	}
	ctx, join := w.opCtx(b)
	_, err := w.brokers[b].CreateTopic(ctx, metadata.TopicSpec{Name: name, NumPartitions: int32(n), ReplicationFactor: 1})
	join()
	w.trace = append(w.trace, fmt.Sprintf("create(b%d,%s,%d)=%v", b, name, n, err))
	if err == nil {
		if o, ok := w.owner[name]; ok && o != b {
			w.crossBroker = true
		}
		if n > w.acked[name] {
			w.acked[name] = n
		}
		w.owner[name] = b
		w.wrote(b)
	}
	return nil
}

// c21HookCtx is a request context whose k-th Done() check starts a RefreshSnapshot of the same
// broker in another goroutine ("the snapshot watcher fires while the admin operation runs") and
// gives it up to 20 ms to finish. On a store that serialises refreshes with admin operations
// the refresh simply waits until the operation is over.
type c21HookCtx struct {
	context.Context
	mu    sync.Mutex
	calls int
	at    int
	fire  func()
}

func (c *c21HookCtx) Done() <-chan struct{} {
	c.mu.Lock()
	c.calls++
	hit := c.calls == c.at
	c.mu.Unlock()
	if hit && c.fire != nil {
		c.fire()
	}
	return c.Context.Done()
}

// opCtx returns the context for an admin operation on broker b; with w.refreshAt > 0 it is a
// c21HookCtx. join must be called after the operation.
func (w *c21World) opCtx(b int) (ctx context.Context, join func()) {
	base, cancel := context.WithTimeout(context.Background(), 30*time.Second)
	at := w.refreshAt
	w.refreshAt = 0
	if nested := w.nestedOp; nested != nil && w.nestedAt > 0 {
		// another broker's admin operation is carried out completely while this one is between
		// two of its steps (at its k-th context check) - two brokers racing
		w.nestedOp = nil
		k := w.nestedAt
		w.nestedAt = 0
		h := &c21HookCtx{Context: base, at: k}
		h.fire = func() {
			w.trace = append(w.trace, fmt.Sprintf("[while b%d's operation is at its context check %d:", b, k))
			w.nestedErr = nested()
			w.trace = append(w.trace, "]")
			w.nestedRan = true
		}
		return h, cancel
	}
	if at == 0 {
		return base, cancel
	}
	done := make(chan struct{})
	started := false
	h := &c21HookCtx{Context: base, at: at}
	h.fire = func() {
		started = true
		go func() {
			defer close(done)
			rctx, rcancel := context.WithTimeout(context.Background(), 30*time.Second)
			defer rcancel()
			_ = w.brokers[b].RefreshSnapshot(rctx)
		}()
		select {
		case <-done:
			w.refreshInside = true // it did not have to wait for the operation
		case <-time.After(20 * time.Millisecond):
		}
	}
	return h, func() {
		if started {
			<-done
			w.refreshDuring = true
			w.trace = append(w.trace, fmt.Sprintf("[refresh(b%d) issued during the operation]", b))
		}
		cancel()
	}
}

func (w *c21World) grow(b int, name string, n int, knownStale bool) error {
	if err := w.beforeMutation(b, knownStale); err != nil {
		return err
	}
	ctx, join := w.opCtx(b)
	err := w.brokers[b].CreatePartitions(ctx, name, int32(n))
	join()
	w.trace = append(w.trace, fmt.Sprintf("grow(b%d,%s,%d)=%v", b, name, n, err))
	if err == nil {
		if o, ok := w.owner[name]; ok && o != b {
			w.crossBroker = true
		}
		if n > w.acked[name] {
			w.acked[name] = n
		}
		w.owner[name] = b
		w.wrote(b)
	}
	return nil
}

func (w *c21World) del(b int, name string, knownStale bool) error {
	if err := w.beforeMutation(b, knownStale); err != nil {
		return err
	}
	ctx, join := w.opCtx(b)
	err := w.brokers[b].DeleteTopic(ctx, name)
	join()
	w.trace = append(w.trace, fmt.Sprintf("delete(b%d,%s)=%v", b, name, err))
	if err == nil {
		if o, ok := w.owner[name]; ok && o != b {
			w.crossBroker = true
		}
		delete(w.acked, name)
		delete(w.owner, name)
		w.wrote(b)
	}
	return nil
}

type c21CR struct {
	Name       string
	Partitions int
}

// publish runs one operator publish. With between != nil the operator's etcd client goes
// through the gating front: its read is let through, then - before its write transaction is
// sent - between() runs (broker operations), then the write and any retries proceed.
func (w *c21World) publish(replicas int, crs []c21CR, knownShrink bool, between func() error) error {
	r := int32(replicas)
	cluster := &kafscalev1alpha1.KafscaleCluster{
		ObjectMeta: metav1.ObjectMeta{Name: "kc", Namespace: "ns", UID: "uid-1"},
		Spec:       kafscalev1alpha1.KafscaleClusterSpec{Brokers: kafscalev1alpha1.BrokerSpec{Replicas: &r}},
	}
	var topics []kafscalev1alpha1.KafscaleTopic
	var shown []string
	for _, cr := range crs {
		n := cr.Partitions
		if acked, ok := w.acked[cr.Name]; ok && n < acked && knownShrink {
			// listed finding: the operator renders the resource's partition count verbatim
			w.excludedShrink = true
			n = acked
		}
		topics = append(topics, kafscalev1alpha1.KafscaleTopic{
			ObjectMeta: metav1.ObjectMeta{Name: cr.Name, Namespace: "ns"},
			Spec:       kafscalev1alpha1.KafscaleTopicSpec{ClusterRef: "kc", Partitions: int32(n)},
		})
		shown = append(shown, fmt.Sprintf("%s:%d", cr.Name, n))
	}
	if len(w.acked) > 0 {
		w.publishOverAck = true
	}
	ctx, cancel := context.WithTimeout(context.Background(), 60*time.Second)
	defer cancel()
	var err error
	if between == nil {
		err = operator.PublishMetadataSnapshot(ctx, w.env.endpoints, operator.BuildClusterMetadata(cluster, topics))
	} else {
		g := w.env.gate
		done := make(chan error, 1)
		g.armed.Store(true)
		go func() {
			done <- operator.PublishMetadataSnapshot(ctx, w.env.proxyEndpoints, operator.BuildClusterMetadata(cluster, topics))
		}()
		finished := false
		// whatever happens below (a failing oracle inside between panics through rapid), the
		// operator goroutine is let run to its end
		owed := false // an arrival was taken but its release not yet given
		defer func() {
			g.armed.Store(false)
			if owed {
				g.release <- struct{}{}
			}
			for !finished {
				select {
				case err = <-done:
					finished = true
				case <-g.arrived:
					g.release <- struct{}{}
				}
			}
		}()
		w.trace = append(w.trace, fmt.Sprintf("publish-begins(%v)", shown))
		var berr error
		ranBetween := false
		deadline := time.After(60 * time.Second)
		for !finished {
			select {
			case err = <-done:
				finished = true
			case what := <-g.arrived:
				owed = true
				if what == "txn" && !ranBetween {
					ranBetween = true
					w.splitPublish = true
					berr = between()
				}
				g.release <- struct{}{}
				owed = false
			case <-deadline:
				return fmt.Errorf("%w: operator publish did not finish", errC21Inconclusive)
			}
		}
		if berr != nil {
			return berr
		}
	}
	w.trace = append(w.trace, fmt.Sprintf("publish(%v)=%v", shown, err))
	if err != nil {
		return fmt.Errorf("%w: PublishMetadataSnapshot: %v", errC21Inconclusive, err)
	}
	w.version++
	return nil
}

// finalCheck: changes have stopped; every broker receives its refresh and must show the model.
func (w *c21World) finalCheck() (string, error) {
	if v, err := w.checkEtcd("the last step"); v != "" || err != nil {
		return v, err
	}
	for b := range w.brokers {
		if err := w.refresh(b); err != nil {
			return "", err
		}
		counts := w.local(b)
		for _, name := range c21SortedNames(w.acked) {
			want := w.acked[name]
			got, ok := counts[name]
			if !ok {
				return fmt.Sprintf("at quiescence broker b%d does not list acknowledged topic %q (%d partitions); it has %v; trace=%v", b, name, want, counts, w.trace), nil
			}
			if got < want {
				return fmt.Sprintf("at quiescence broker b%d lists topic %q with %d partitions, %d were acknowledged; trace=%v", b, name, got, want, w.trace), nil
			}
		}
	}
	return "", nil
}

func TestVF_C21_Histories(t *testing.T) {
	st := vfkit.NewStats("C21", "histories")
	defer st.Flush()
	env := c21NewEnv(t)
	knownStale := vfkit.Known(c21FindingStale)
	knownShrink := vfkit.Known(c21FindingShrink)
	// mostly three plain names (so that operations collide), plus other classes of legal topic
	// names: Kafka-style internal ("__"), single underscore, dots, dashes
	names := []string{"a", "a", "b", "b", "c", "__lfs_ops_state", "__consumer_offsets", "_tmp", "pay.v1", "x-y"}
	rapid.Check(t, func(rt *rapid.T) {
		st.Eval()
		nb := rapid.IntRange(2, 3).Draw(rt, "brokers")
		w, err := env.newWorld(nb)
		fail := func(v string, err error) {
			if err != nil {
				fmt.Println("VF-INCONCLUSIVE:", err)
				rt.Fatalf("inconclusive: %v", err)
			}
			if v != "" {
				rt.Fatalf("%s", v)
			}
		}
		fail("", err)
		defer w.close()
		nops := rapid.IntRange(3, 12).Draw(rt, "nops")
		inNested := false
		var doOp func(op string)
		doOp = func(op string) {
			b := rapid.IntRange(0, nb-1).Draw(rt, "broker")
			if (op == "create" || op == "grow" || op == "delete") && rapid.IntRange(0, 3).Draw(rt, "refreshDuring") == 0 {
				w.refreshAt = rapid.IntRange(1, 8).Draw(rt, "refreshAtCheck")
			} else if (op == "create" || op == "grow") && nb > 1 && w.nestedOp == nil && !inNested && rapid.IntRange(0, 3).Draw(rt, "raceOther") == 0 {
				// two brokers race: another broker creates a topic while this operation is under way
				ob := (b + 1 + rapid.IntRange(0, nb-2).Draw(rt, "otherBroker")) % nb
				oname := rapid.SampledFrom(names).Draw(rt, "otherName")
				on := rapid.IntRange(1, 4).Draw(rt, "otherPartitions")
				w.nestedAt = rapid.IntRange(1, 6).Draw(rt, "raceAtCheck")
				w.nestedOp = func() error {
					inNested = true
					defer func() { inNested = false }()
					return w.create(ob, oname, on, knownStale)
				}
			}
			switch op {
			case "create":
				name := rapid.SampledFrom(names).Draw(rt, "name")
				n := rapid.IntRange(1, 4).Draw(rt, "partitions")
				fail("", w.create(b, name, n, knownStale))
				st.Class("op-create")
			case "grow":
				// mostly a topic the broker knows, grown by 1-3
				local := w.local(b)
				delete(local, "orders")
				var name string
				cur := 0
				if known := c21SortedNames(local); len(known) > 0 && rapid.IntRange(0, 9).Draw(rt, "growKnown") > 0 {
					name = known[rapid.IntRange(0, len(known)-1).Draw(rt, "knownIdx")]
					cur = local[name]
				} else {
					name = rapid.SampledFrom(names).Draw(rt, "name")
					cur = local[name]
				}
				n := cur + rapid.IntRange(1, 3).Draw(rt, "by")
				fail("", w.grow(b, name, n, knownStale))
				st.Class("op-grow")
			case "delete":
				name := rapid.SampledFrom(names).Draw(rt, "name")
				fail("", w.del(b, name, knownStale))
				st.Class("op-delete")
			case "refresh":
				w.trace = append(w.trace, fmt.Sprintf("refresh(b%d)", b))
				fail("", w.refresh(b))
				st.Class("op-refresh")
			case "publish":
				k := rapid.IntRange(0, 3).Draw(rt, "crs")
				var crs []c21CR
				used := map[string]bool{}
				for j := 0; j < k; j++ {
					name := rapid.SampledFrom([]string{"a", "b", "c", "orders", "a", "b", "pay.v1", "_tmp", "x-y"}).Draw(rt, "crName")
					if used[name] {
						continue
					}
					used[name] = true
					crs = append(crs, c21CR{Name: name, Partitions: rapid.IntRange(1, 4).Draw(rt, "crPartitions")})
				}
				replicas := rapid.IntRange(1, 3).Draw(rt, "replicas")
				// about 1 publish in 3 is split: 1-2 broker operations are scheduled between the
				// operator's read of the snapshot and its write (a conflict costs the operator a
				// 200 ms real sleep before it retries, hence the rationing)
				var between func() error
				if rapid.IntRange(0, 2).Draw(rt, "splitPublish") == 1 {
					nin := rapid.IntRange(1, 2).Draw(rt, "between")
					between = func() error {
						for j := 0; j < nin; j++ {
							doOp(rapid.SampledFrom([]string{"create", "create", "grow", "grow", "refresh"}).Draw(rt, "betweenOp"))
							fail(w.checkEtcd(w.trace[len(w.trace)-1]))
						}
						return nil
					}
				}
				fail("", w.publish(replicas, crs, knownShrink, between))
				st.Class("op-publish")
			}
			if e := w.nestedErr; e != nil {
				w.nestedErr = nil
				fail("", e)
			}
		}
		for i := 0; i < nops; i++ {
			doOp(rapid.SampledFrom([]string{"create", "create", "create", "grow", "grow", "grow", "delete", "refresh", "refresh", "refresh", "publish", "publish"}).Draw(rt, "op"))
			fail(w.checkEtcd(w.trace[len(w.trace)-1]))
		}
		fail(w.finalCheck())

		if w.excludedStale {
			st.ExcludedCase(c21FindingStale)
		}
		if w.excludedShrink {
			st.ExcludedCase(c21FindingShrink)
		}
		nt := false
		if w.staleMutation {
			st.Class("mutation-on-stale-broker")
			nt = true
		}
		if w.publishOverAck {
			st.Class("operator-publish-over-acknowledged-topics")
			nt = true
		}
		if w.crossBroker {
			st.Class("mutation-of-a-topic-acknowledged-by-another-broker")
			nt = true
		}
		if w.splitPublish {
			st.Class("broker-operation-between-operator-read-and-write")
			nt = true
		}
		if w.refreshDuring {
			st.Class("refresh-of-the-same-broker-issued-during-an-admin-operation")
			nt = true
		}
		if w.nestedRan {
			st.Class("another-brokers-create-carried-out-inside-an-admin-operation")
			nt = true
		}
		if w.refreshInside {
			st.Class("that-refresh-ran-inside-the-operation(not serialised)")
		}
		if nt {
			if st.NonTrivial(nb, w.trace) {
				st.Sample(map[string]any{"brokers": nb, "trace": w.trace})
			}
		} else {
			st.Class("trivial")
		}
	})
}

// TestVF_C21_ConcurrentRefresh: snapshot refreshes of ONE broker (what its watcher does on
// every snapshot change, and what RefreshSnapshot callers do) run truly concurrently with that
// broker's admin operations, on a snapshot big enough for the operations to take a while.
// After every acknowledged growth the etcd snapshot must show it. Real goroutine concurrency:
// which interleavings occur is up to the Go scheduler, so this leg only adds evidence (a store
// that serialises refreshes with admin operations cannot fail it).
func TestVF_C21_ConcurrentRefresh(t *testing.T) {
	st := vfkit.NewStats("C21", "concurrent-refresh")
	defer st.Flush()
	env := c21NewEnv(t)
	rapid.Check(t, func(rt *rapid.T) {
		st.Eval()
		ntopics := rapid.IntRange(20, 60).Draw(rt, "topics")
		nparts := rapid.IntRange(4, 12).Draw(rt, "partitions")
		refreshers := rapid.IntRange(2, 6).Draw(rt, "refreshers")
		ngrow := rapid.IntRange(20, 50).Draw(rt, "grows")
		w, err := env.newWorld(1)
		if err != nil {
			fmt.Println("VF-INCONCLUSIVE:", err)
			rt.Fatalf("inconclusive: %v", err)
		}
		defer w.close()
		s := w.brokers[0]
		ctx, cancel := context.WithTimeout(context.Background(), 120*time.Second)
		defer cancel()
		counts := map[string]int{}
		for i := 0; i < ntopics; i++ {
			name := fmt.Sprintf("t%02d", i)
			if _, err := s.CreateTopic(ctx, metadata.TopicSpec{Name: name, NumPartitions: int32(nparts), ReplicationFactor: 1}); err != nil {
				fmt.Println("VF-INCONCLUSIVE: set-up CreateTopic:", err)
				rt.Fatalf("inconclusive: %v", err)
			}
			counts[name] = nparts
		}
		stop := make(chan struct{})
		var wg sync.WaitGroup
		var refreshes atomic.Int64
		for r := 0; r < refreshers; r++ {
			wg.Add(1)
			go func() {
				defer wg.Done()
				for {
					select {
					case <-stop:
						return
					default:
					}
					if s.RefreshSnapshot(ctx) == nil {
						refreshes.Add(1)
					}
				}
			}()
		}
		var violation string
		func() {
			defer func() {
				if r := recover(); r != nil {
					violation = fmt.Sprintf("CreatePartitions panicked while snapshot refreshes of the same broker were running: %v", r)
				}
			}()
			for i := 0; i < ngrow && violation == ""; i++ {
				name := fmt.Sprintf("t%02d", rapid.IntRange(0, ntopics-1).Draw(rt, "topic"))
				want := counts[name] + 1
				if err := s.CreatePartitions(ctx, name, int32(want)); err != nil {
					continue // rejected: nothing acknowledged
				}
				counts[name] = want
				w.acked[name] = want
				if v, err := w.checkEtcd(fmt.Sprintf("grow(%s,%d) with %d concurrent refreshers", name, want, refreshers)); err != nil {
					fmt.Println("VF-INCONCLUSIVE:", err)
					violation = "inconclusive"
				} else if v != "" {
					violation = v
				}
			}
		}()
		close(stop)
		wg.Wait()
		if violation == "inconclusive" {
			rt.Fatalf("inconclusive")
		}
		if violation != "" {
			rt.Fatalf("%s", violation)
		}
		st.ClassN("refreshes-completed", int(refreshes.Load()))
		st.ClassN("acknowledged-growths", len(w.acked))
		if st.NonTrivial(ntopics, nparts, refreshers, ngrow, refreshes.Load() > 0) {
			st.Sample(map[string]any{"topics": ntopics, "partitions": nparts, "refreshers": refreshers, "grows": ngrow, "refreshes_completed": refreshes.Load()})
		}
	})
}

func TestVF_C21_Witness(t *testing.T) {
	st := vfkit.NewStats("C21", "witness")
	defer st.Flush()
	env := c21NewEnv(t)
	run := func(id, what string, script func(w *c21World) error) {
		st.Eval()
		w, err := env.newWorld(2)
		if err == nil {
			defer w.close()
			err = script(w)
		}
		var v string
		if err == nil {
			v, err = w.finalCheck()
		}
		if err != nil {
			fmt.Println("VF-INCONCLUSIVE:", err)
			t.Fatalf("inconclusive: %v", err)
		}
		if v != "" {
			st.NonTrivial(id)
			st.Sample(map[string]any{"finding": id, "violation": v})
			what = v
		}
		st.KnownResult(id, v != "", what)
	}
	run(c21FindingStale, "broker b1 creates a topic without having refreshed broker b0's creation and overwrites the snapshot", func(w *c21World) error {
		if err := w.create(0, "a", 2, false); err != nil {
			return err
		}
		return w.create(1, "b", 1, false)
	})
	run(c21FindingShrink, "operator publish renders the topic resource's partition count over a broker-acknowledged growth", func(w *c21World) error {
		if err := w.publish(1, []c21CR{{"a", 2}}, false, nil); err != nil {
			return err
		}
		if err := w.refresh(0); err != nil {
			return err
		}
		if err := w.grow(0, "a", 4, false); err != nil {
			return err
		}
		return w.publish(1, []c21CR{{"a", 2}}, false, nil)
	})
}
