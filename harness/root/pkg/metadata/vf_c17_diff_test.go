//go:build verif

package metadata

import (
	"context"
	"errors"
	"fmt"
	"net"
	"net/url"
	"os"
	"path/filepath"
	"sort"
	"strings"
	"testing"
	"time"

	clientv3 "go.etcd.io/etcd/client/v3"
	"go.etcd.io/etcd/server/v3/embed"
	"google.golang.org/protobuf/proto"
	"pgregory.net/rapid"
	"verif.local/vfkit"

	"github.com/KafScale/platform/internal/testutil"
	metadatapb "github.com/KafScale/platform/pkg/gen/metadata"
	"github.com/KafScale/platform/pkg/protocol"
)

// C17: the in-memory and the etcd-backed metadata store return the same observable results
// for the same operation sequence. Differential: every generated operation is applied to
// both stores (started from the same snapshot) and the canonical rendering of
// (error class, returned value) is compared; at the end everything is read back.
//
// The EtcdStore is built without its snapshot watcher goroutine (the watcher only re-reads
// the snapshot this store wrote itself, asynchronously); what the watcher would do is a
// generated, synchronous "refresh" operation instead, so the comparison is deterministic.

const (
	c17FindTimeouts = "C17-mem-group-timeouts-dropped"
	c17FindDelete   = "C17-delete-topic-consumer-offsets-diverge"
	c17FindSepChars = "C17-group-id-separator-chars"
	c17FindAlias    = "C17-group-id-aliases-offset-key"
)

type c17Member struct {
	ID          string             `json:"id"`
	ClientID    string             `json:"client_id,omitempty"`
	ClientHost  string             `json:"client_host,omitempty"`
	HeartbeatAt string             `json:"heartbeat_at,omitempty"`
	Subs        []string           `json:"subs,omitempty"`
	Assign      map[string][]int32 `json:"assign,omitempty"`
	AssignOrder []string           `json:"assign_order,omitempty"`
	SessionMs   int32              `json:"session_ms,omitempty"`
}

type c17Group struct {
	ID           string      `json:"id"`
	State        string      `json:"state,omitempty"`
	ProtocolType string      `json:"protocol_type,omitempty"`
	Protocol     string      `json:"protocol,omitempty"`
	Leader       string      `json:"leader,omitempty"`
	Generation   int32       `json:"generation,omitempty"`
	RebalanceMs  int32       `json:"rebalance_ms,omitempty"`
	Members      []c17Member `json:"members,omitempty"`
}

func (g c17Group) pb() *metadatapb.ConsumerGroup {
	out := &metadatapb.ConsumerGroup{GroupId: g.ID, State: g.State, ProtocolType: g.ProtocolType, Protocol: g.Protocol,
		Leader: g.Leader, GenerationId: g.Generation, RebalanceTimeoutMs: g.RebalanceMs}
	if len(g.Members) > 0 {
		out.Members = map[string]*metadatapb.GroupMember{}
	}
	for _, m := range g.Members {
		pm := &metadatapb.GroupMember{ClientId: m.ClientID, ClientHost: m.ClientHost, HeartbeatAt: m.HeartbeatAt,
			Subscriptions: append([]string(nil), m.Subs...), SessionTimeoutMs: m.SessionMs}
		for _, tp := range m.AssignOrder {
			pm.Assignments = append(pm.Assignments, &metadatapb.Assignment{Topic: tp, Partitions: append([]int32(nil), m.Assign[tp]...)})
		}
		out.Members[m.ID] = pm
	}
	return out
}

type c17Op struct {
	Kind   string    `json:"kind"`
	Topic  string    `json:"topic,omitempty"`
	Topics []string  `json:"topics,omitempty"`
	N      int32     `json:"n,omitempty"`
	RF     int16     `json:"rf,omitempty"`
	Part   int32     `json:"part,omitempty"`
	Off    int64     `json:"off,omitempty"`
	Group  string    `json:"group,omitempty"`
	Meta   string    `json:"meta,omitempty"`
	CG     *c17Group `json:"cg,omitempty"`
}

// ---- canonical rendering (independent of the stores' own clone/codec code) ----

func c17ErrClass(err error) string {
	switch {
	case err == nil:
		return "ok"
	case errors.Is(err, ErrTopicExists):
		return "ErrTopicExists"
	case errors.Is(err, ErrInvalidTopic):
		return "ErrInvalidTopic"
	case errors.Is(err, ErrUnknownTopic):
		return "ErrUnknownTopic"
	}
	msg := err.Error()
	for _, env := range []string{"context deadline exceeded", "context canceled", "etcdserver:", "rpc error", "connection refused", "transport"} {
		if strings.Contains(msg, env) {
			return "ENV(" + msg + ")"
		}
	}
	return "other-error"
}

func c17RenderGroup(g *metadatapb.ConsumerGroup) string {
	if g == nil {
		return "<nil>"
	}
	var sb strings.Builder
	fmt.Fprintf(&sb, "group{id=%q state=%q ptype=%q proto=%q leader=%q gen=%d rebalance_ms=%d members=[", g.GroupId, g.State, g.ProtocolType, g.Protocol, g.Leader, g.GenerationId, g.RebalanceTimeoutMs)
	ids := make([]string, 0, len(g.Members))
	for id := range g.Members {
		ids = append(ids, id)
	}
	sort.Strings(ids)
	for _, id := range ids {
		m := g.Members[id]
		if m == nil {
			fmt.Fprintf(&sb, "%q:<nil> ", id)
			continue
		}
		fmt.Fprintf(&sb, "%q:{cid=%q host=%q hb=%q session_ms=%d subs=%q assign=[", id, m.ClientId, m.ClientHost, m.HeartbeatAt, m.SessionTimeoutMs, m.Subscriptions)
		for _, a := range m.Assignments {
			if a == nil {
				sb.WriteString("<nil> ")
				continue
			}
			fmt.Fprintf(&sb, "%q%v ", a.Topic, append([]int32{}, a.Partitions...))
		}
		sb.WriteString("]} ")
	}
	sb.WriteString("]}")
	return sb.String()
}

func c17RenderTopic(t *protocol.MetadataTopic) string {
	if t == nil {
		return "<nil>"
	}
	name := "<nil>"
	if t.Topic != nil {
		name = *t.Topic
	}
	var sb strings.Builder
	fmt.Fprintf(&sb, "topic{%q err=%d id=%x internal=%v parts=[", name, t.ErrorCode, t.TopicID, t.IsInternal)
	for _, p := range t.Partitions {
		fmt.Fprintf(&sb, "{%d err=%d leader=%d epoch=%d r=%v isr=%v off=%v} ", p.Partition, p.ErrorCode, p.Leader, p.LeaderEpoch,
			append([]int32{}, p.Replicas...), append([]int32{}, p.ISR...), append([]int32{}, p.OfflineReplicas...))
	}
	sb.WriteString("]}")
	return sb.String()
}

func c17RenderMeta(m *ClusterMetadata, ordered bool) string {
	if m == nil {
		return "<nil>"
	}
	tops := make([]string, 0, len(m.Topics))
	for i := range m.Topics {
		tops = append(tops, c17RenderTopic(&m.Topics[i]))
	}
	if !ordered {
		sort.Strings(tops)
	}
	str := func(p *string) string {
		if p == nil {
			return "<nil>"
		}
		return *p
	}
	return fmt.Sprintf("meta{brokers=%v controller=%d cluster=%s/%s topics=%v}", m.Brokers, m.ControllerID, str(m.ClusterName), str(m.ClusterID), tops)
}

// c17Apply runs one operation on one store and renders what a caller can observe.
// cfgOnly results (topic config ops) expose only the error class (see DESIGN: interference).
func c17Apply(ctx context.Context, s Store, op c17Op) string {
	switch op.Kind {
	case "createTopic":
		tp, err := s.CreateTopic(ctx, TopicSpec{Name: op.Topic, NumPartitions: op.N, ReplicationFactor: op.RF})
		if err != nil {
			return c17ErrClass(err)
		}
		return "ok " + c17RenderTopic(tp)
	case "deleteTopic":
		return c17ErrClass(s.DeleteTopic(ctx, op.Topic))
	case "createPartitions":
		return c17ErrClass(s.CreatePartitions(ctx, op.Topic, op.N))
	case "updateOffsets":
		return c17ErrClass(s.UpdateOffsets(ctx, op.Topic, op.Part, op.Off))
	case "nextOffset":
		v, err := s.NextOffset(ctx, op.Topic, op.Part)
		return fmt.Sprintf("%s %d", c17ErrClass(err), v)
	case "commit":
		return c17ErrClass(s.CommitConsumerOffset(ctx, op.Group, op.Topic, op.Part, op.Off, op.Meta))
	case "fetchOffset":
		v, meta, err := s.FetchConsumerOffset(ctx, op.Group, op.Topic, op.Part)
		return fmt.Sprintf("%s %d %q", c17ErrClass(err), v, meta)
	case "listOffsets":
		l, err := s.ListConsumerOffsets(ctx)
		rows := make([]string, 0, len(l))
		for _, o := range l {
			rows = append(rows, fmt.Sprintf("%q/%q/%d=%d", o.Group, o.Topic, o.Partition, o.Offset))
		}
		sort.Strings(rows)
		return fmt.Sprintf("%s %v", c17ErrClass(err), rows)
	case "putGroup":
		return c17ErrClass(s.PutConsumerGroup(ctx, op.CG.pb()))
	case "fetchGroup":
		g, err := s.FetchConsumerGroup(ctx, op.Group)
		return fmt.Sprintf("%s %s", c17ErrClass(err), c17RenderGroup(g))
	case "listGroups":
		l, err := s.ListConsumerGroups(ctx)
		rows := make([]string, 0, len(l))
		for _, g := range l {
			rows = append(rows, c17RenderGroup(g))
		}
		sort.Strings(rows)
		return fmt.Sprintf("%s %v", c17ErrClass(err), rows)
	case "deleteGroup":
		return c17ErrClass(s.DeleteConsumerGroup(ctx, op.Group))
	case "metadata":
		m, err := s.Metadata(ctx, op.Topics)
		return fmt.Sprintf("%s %s", c17ErrClass(err), c17RenderMeta(m, len(op.Topics) > 0))
	case "updateConfig":
		return c17ErrClass(s.UpdateTopicConfig(ctx, &metadatapb.TopicConfig{Name: op.Topic, Partitions: op.N, RetentionMs: op.Off, Config: map[string]string{"k": op.Meta}}))
	case "fetchConfig":
		_, err := s.FetchTopicConfig(ctx, op.Topic)
		return c17ErrClass(err)
	case "refresh":
		if es, ok := s.(*EtcdStore); ok {
			return c17ErrClass(es.refreshSnapshot(ctx))
		}
		return "ok"
	}
	return "?"
}

type c17Script struct {
	Initial []string `json:"initial_topics"`
	Ops     []c17Op  `json:"ops"`
}

func c17Snapshot(initial []string) ClusterMetadata {
	cm := ClusterMetadata{Brokers: []protocol.MetadataBroker{{NodeID: 1, Host: "b0", Port: 9092}}, ControllerID: 1}
	for i, name := range initial {
		n := name
		parts := make([]protocol.MetadataPartition, i+1)
		for p := range parts {
			parts[p] = protocol.MetadataPartition{Partition: int32(p), Leader: 1, Replicas: []int32{1}, ISR: []int32{1}}
		}
		cm.Topics = append(cm.Topics, protocol.MetadataTopic{Topic: &n, TopicID: TopicIDForName(n), Partitions: parts})
	}
	return cm
}

// c17Run executes the script on both stores; returns the first divergence ("" if none) and
// whether an environment problem made the run unusable.
func c17Run(cli *clientv3.Client, sc c17Script) (diverge string, env string) {
	ctx, cancel := context.WithTimeout(context.Background(), 60*time.Second)
	defer cancel()
	if _, err := cli.Delete(ctx, "", clientv3.WithPrefix()); err != nil {
		return "", "wipe: " + err.Error()
	}
	mem := NewInMemoryStore(c17Snapshot(sc.Initial))
	etcd := &EtcdStore{client: cli, metadata: NewInMemoryStore(c17Snapshot(sc.Initial)), available: 1}
	ops := append([]c17Op(nil), sc.Ops...)
	// final full read-back
	ops = append(ops, c17Op{Kind: "refresh"}, c17Op{Kind: "metadata"}, c17Op{Kind: "listOffsets"}, c17Op{Kind: "listGroups"})
	seenT, seenG := map[string]bool{}, map[string]bool{}
	type gt struct{ g, t string }
	seenGT := map[gt]bool{}
	for _, op := range sc.Ops {
		if op.Topic != "" {
			seenT[op.Topic] = true
		}
		if op.Group != "" {
			seenG[op.Group] = true
		}
		if op.CG != nil && op.CG.ID != "" {
			seenG[op.CG.ID] = true
		}
		if op.Kind == "commit" {
			seenGT[gt{op.Group, op.Topic}] = true
		}
	}
	for _, n := range sc.Initial {
		seenT[n] = true
	}
	var ts, gs []string
	for t := range seenT {
		ts = append(ts, t)
	}
	for g := range seenG {
		gs = append(gs, g)
	}
	sort.Strings(ts)
	sort.Strings(gs)
	for _, t := range ts {
		for p := int32(0); p < 5; p++ {
			ops = append(ops, c17Op{Kind: "nextOffset", Topic: t, Part: p})
		}
		for _, g := range gs {
			if seenGT[gt{g, t}] {
				for p := int32(0); p < 3; p++ {
					ops = append(ops, c17Op{Kind: "fetchOffset", Group: g, Topic: t, Part: p})
				}
			}
		}
	}
	for _, g := range gs {
		ops = append(ops, c17Op{Kind: "fetchGroup", Group: g})
	}
	for i, op := range ops {
		rm := c17Apply(ctx, mem, op)
		re := c17Apply(ctx, etcd, op)
		if strings.Contains(re, "ENV(") {
			return "", fmt.Sprintf("op %d %+v: %s", i, op, re)
		}
		if rm != re {
			phase := "op"
			if i >= len(sc.Ops) {
				phase = "final read-back op"
			}
			return fmt.Sprintf("%s %d %s diverges:\n  in-memory: %s\n  etcd     : %s", phase, i, c17ShowOp(op), rm, re), ""
		}
		if op.Kind == "fetchGroup" {
			// belt and braces: proto.Equal on the two returned messages
			gm, _ := mem.FetchConsumerGroup(ctx, op.Group)
			ge, err := etcd.FetchConsumerGroup(ctx, op.Group)
			if err == nil && !proto.Equal(gm, ge) {
				return fmt.Sprintf("op %d fetchGroup %q: proto.Equal false:\n  in-memory: %v\n  etcd     : %v", i, op.Group, gm, ge), ""
			}
		}
	}
	return "", ""
}

func c17ShowOp(op c17Op) string {
	s := fmt.Sprintf("%+v", op)
	if op.CG != nil {
		s += fmt.Sprintf(" cg=%+v", *op.CG)
	}
	return s
}

// ---- generator ----

type c17Gen struct {
	script   c17Script
	classes  map[string]bool
	excluded map[string]bool
	trace    []string
}

func c17Generate(t *rapid.T) c17Gen {
	g := c17Gen{classes: map[string]bool{}, excluded: map[string]bool{}}
	// two name families: unrelated names, and legal names that are string prefixes of each
	// other (a key-prefix delete or a HasPrefix scan on the shorter one must not touch the longer)
	topicPool := rapid.SampledFrom([][]string{
		{"t", "t-eu", "t.v2", "tt", "t_1"},
		{"a", "b", "a.b", "T_2"},
		{"orders", "orders-eu", "orders.v2", "order"},
	}).Draw(t, "family")
	offsetsOn := map[string]bool{} // topics with recorded partition offsets or a stored config
	lastCommit := map[string]c17Op{}
	// group ids are free-form: besides unrelated ids, ids equal to a topic name of this sequence
	// (a common naming habit) and ids that extend / are extended by one
	groupPool := []string{topicPool[0], "g", topicPool[1], "grp-2", topicPool[0] + ".g", "g-" + topicPool[1], "offsets", "metadata"}
	// group ids are never validated: ids containing characters the stores use as key separators
	sep := rapid.SampledFrom([][]string{
		{"team:app", "team/app"},
		{"team app", "team#app", "team%2Fapp"},
		{"a:" + topicPool[0], "a/offsets/" + topicPool[0], topicPool[0] + ":0"},
		{"offsets/" + topicPool[1], "x/offsets/" + topicPool[0], "/offsets/" + topicPool[0], "x/offsets/" + topicPool[0] + "/y"},
		{"team|app", "team,app", "team\\app", "team=app"},
		{"/team", "team/", ":team", "team:", "team/offsets", "team/metadata"},
	}).Draw(t, "separator-ids")
	for _, id := range sep {
		if strings.ContainsAny(id, ":/") {
			g.classes["group-id-with-store-separator"] = true
		} else {
			g.classes["group-id-with-other-separator"] = true
		}
		groupPool = append([]string{id}, groupPool...)
	}
	memberPool := []string{"m1", "m2", "g-123", "consumer-1-abc"}
	topic := rapid.SampledFrom(topicPool)
	group := rapid.SampledFrom(groupPool)
	ninit := rapid.SampledFrom([]int{2, 1, 0}).Draw(t, "ninitial")
	exists := map[string]bool{}
	for i := 0; i < ninit; i++ {
		g.script.Initial = append(g.script.Initial, topicPool[i])
		exists[topicPool[i]] = true
	}
	everDeleted := map[string]bool{}
	committedOn := map[string]bool{}
	// pick draws a topic, half of the time from the preferred subset (sorted for determinism)
	pick := func(label string, preferred map[string]bool, want bool) string {
		var pref []string
		for _, n := range topicPool {
			if preferred[n] == want {
				pref = append(pref, n)
			}
		}
		if len(pref) > 0 && rapid.Bool().Draw(t, label+"-preferred") {
			return rapid.SampledFrom(pref).Draw(t, label)
		}
		return topic.Draw(t, label)
	}
	deletedNow := func() map[string]bool {
		m := map[string]bool{}
		for n := range everDeleted {
			if !exists[n] {
				m[n] = true
			}
		}
		return m
	}
	// rapid favours early elements: the operations the statement names come first
	kinds := []string{"deleteTopic", "commit", "putGroup", "createTopic", "prefixScenario", "staleOffsetScenario", "groupNamedLikeTopic", "fetchOffset", "fetchGroup", "nextOffset", "updateOffsets",
		"createPartitions", "listOffsets", "listGroups", "deleteGroup", "metadata", "refresh", "createTopic", "deleteTopic", "commit",
		"putGroup", "updateConfig", "fetchConfig"}
	nops := rapid.IntRange(3, 28).Draw(t, "nops")
	for i := 0; i < nops; i++ {
		op := c17Op{Kind: rapid.SampledFrom(kinds).Draw(t, "kind")}
		switch op.Kind {
		case "groupNamedLikeTopic":
			// a group record (and offsets) under an id that is also a topic name, then that topic is deleted
			tp := topic.Draw(t, "topic")
			if committedOn[tp] && vfkit.Known(c17FindDelete) {
				g.excluded[c17FindDelete] = true
				op = c17Op{Kind: "listGroups"}
				break
			}
			emit := func(m c17Op) {
				g.script.Ops = append(g.script.Ops, m)
				g.trace = append(g.trace, c17ShowOp(m))
			}
			if !exists[tp] {
				emit(c17Op{Kind: "createTopic", Topic: tp, N: int32(rapid.IntRange(1, 3).Draw(t, "n")), RF: 1})
				exists[tp] = true
			}
			gid := rapid.SampledFrom([]string{tp, "x/offsets/" + tp, tp + ".g", "g-" + tp, "offsets/" + tp, "g:" + tp, "g/" + tp}).Draw(t, "gid")
			emit(c17Op{Kind: "putGroup", CG: &c17Group{ID: gid, State: "stable", ProtocolType: "consumer", Protocol: "range", Generation: int32(rapid.IntRange(1, 5).Draw(t, "gen")), Leader: "m1",
				Members: []c17Member{{ID: "m1", Subs: []string{tp}, AssignOrder: []string{tp}, Assign: map[string][]int32{tp: {0}}}}}})
			if rapid.Bool().Draw(t, "withcommit") {
				other := topic.Draw(t, "othertopic")
				emit(c17Op{Kind: "commit", Group: gid, Topic: other, Part: 0, Off: rapid.Int64Range(0, 1000).Draw(t, "off"), Meta: "m"})
				committedOn[other] = true
			}
			emit(c17Op{Kind: "deleteTopic", Topic: tp})
			delete(exists, tp)
			everDeleted[tp] = true
			g.classes["group-id-related-to-deleted-topic"] = true
			g.classes["group-with-assignments"] = true
			emit(c17Op{Kind: "fetchGroup", Group: gid})
			op = c17Op{Kind: "listGroups"}
		case "staleOffsetScenario":
			// a next-offset recorded for a partition the topic does not have (UpdateOffsets does not
			// validate it), delete, re-create / grow so that the partition exists, read it
			tp := topic.Draw(t, "topic")
			if committedOn[tp] && vfkit.Known(c17FindDelete) {
				g.excluded[c17FindDelete] = true
				op = c17Op{Kind: "listOffsets"}
				break
			}
			emit := func(m c17Op) {
				g.script.Ops = append(g.script.Ops, m)
				g.trace = append(g.trace, c17ShowOp(m))
			}
			if !exists[tp] {
				emit(c17Op{Kind: "createTopic", Topic: tp, N: int32(rapid.IntRange(1, 2).Draw(t, "n")), RF: 1})
				exists[tp] = true
			}
			beyond := int32(rapid.IntRange(2, 4).Draw(t, "part-beyond")) // initial / created topics here have at most 2 partitions... or more: harmless
			emit(c17Op{Kind: "updateOffsets", Topic: tp, Part: beyond, Off: rapid.Int64Range(0, 1000).Draw(t, "last")})
			emit(c17Op{Kind: "deleteTopic", Topic: tp})
			everDeleted[tp] = true
			if rapid.Bool().Draw(t, "recreate-wide") {
				emit(c17Op{Kind: "createTopic", Topic: tp, N: beyond + 1, RF: 1})
			} else {
				emit(c17Op{Kind: "createTopic", Topic: tp, N: 1, RF: 1})
				emit(c17Op{Kind: "createPartitions", Topic: tp, N: beyond + 1})
			}
			g.classes["delete-then-recreate"] = true
			g.classes["offset-on-missing-partition-then-recreate"] = true
			op = c17Op{Kind: "nextOffset", Topic: tp, Part: beyond}
		case "prefixScenario":
			// state on a longer name, then delete a topic whose name is a proper prefix of it
			var pairs [][2]string
			for _, short := range topicPool {
				for _, longer := range topicPool {
					if longer != short && strings.HasPrefix(longer, short) {
						pairs = append(pairs, [2]string{short, longer})
					}
				}
			}
			pr := rapid.SampledFrom(pairs).Draw(t, "pair")
			short, longer := pr[0], pr[1]
			var macro []c17Op
			for _, n := range []string{short, longer} {
				if !exists[n] {
					macro = append(macro, c17Op{Kind: "createTopic", Topic: n, N: int32(rapid.IntRange(1, 3).Draw(t, "n")), RF: 1})
					exists[n] = true
				}
			}
			statePart := int32(rapid.IntRange(0, 2).Draw(t, "part"))
			macro = append(macro, c17Op{Kind: "updateOffsets", Topic: longer, Part: statePart, Off: rapid.Int64Range(0, 1000).Draw(t, "last")})
			if rapid.Bool().Draw(t, "withconfig") {
				macro = append(macro, c17Op{Kind: "updateConfig", Topic: longer, Off: rapid.Int64Range(1, 1000).Draw(t, "retention"), Meta: "v"})
			}
			if rapid.Bool().Draw(t, "withcommit") {
				macro = append(macro, c17Op{Kind: "commit", Group: group.Draw(t, "group"), Topic: longer, Part: 0, Off: rapid.Int64Range(0, 1000).Draw(t, "off"), Meta: "m"})
				committedOn[longer] = true
			}
			offsetsOn[longer] = true
			if committedOn[short] && vfkit.Known(c17FindDelete) {
				g.excluded[c17FindDelete] = true
			} else {
				macro = append(macro, c17Op{Kind: "deleteTopic", Topic: short})
				delete(exists, short)
				everDeleted[short] = true
				g.classes["delete-of-a-name-prefix-of-a-topic-with-state"] = true
			}
			macro = append(macro, c17Op{Kind: "nextOffset", Topic: longer, Part: statePart})
			for _, m := range macro[:len(macro)-1] {
				g.script.Ops = append(g.script.Ops, m)
				g.trace = append(g.trace, c17ShowOp(m))
			}
			op = macro[len(macro)-1]
		case "createTopic":
			op.Topic = pick("topic", deletedNow(), true)
			op.N = int32(rapid.SampledFrom([]int{1, 2, 3, 4, 1, 2, 0, -1}).Draw(t, "n"))
			op.RF = int16(rapid.SampledFrom([]int{1, 1, 0, -1, 2}).Draw(t, "rf"))
			if !exists[op.Topic] && op.N > 0 && op.RF <= 1 {
				exists[op.Topic] = true
				if everDeleted[op.Topic] {
					g.classes["delete-then-recreate"] = true
				}
			}
		case "deleteTopic":
			shadowing := map[string]bool{} // existing names that are a proper prefix of an existing topic with state
			for _, short := range topicPool {
				for _, longer := range topicPool {
					if exists[short] && exists[longer] && offsetsOn[longer] && longer != short && strings.HasPrefix(longer, short) {
						shadowing[short] = true
					}
				}
			}
			if len(shadowing) > 0 {
				op.Topic = pick("topic", shadowing, true)
			} else {
				op.Topic = pick("topic", exists, true)
			}
			if exists[op.Topic] {
				for longer := range offsetsOn {
					if longer != op.Topic && strings.HasPrefix(longer, op.Topic) && exists[longer] {
						g.classes["delete-of-a-name-prefix-of-a-topic-with-state"] = true
					}
				}
			}
			if exists[op.Topic] && committedOn[op.Topic] && vfkit.Known(c17FindDelete) {
				g.excluded[c17FindDelete] = true
				op = c17Op{Kind: "listOffsets"}
				break
			}
			if exists[op.Topic] {
				delete(exists, op.Topic)
				everDeleted[op.Topic] = true
			}
		case "createPartitions":
			op.Topic = topic.Draw(t, "topic")
			op.N = int32(rapid.IntRange(1, 6).Draw(t, "count")) // the handler rejects count <= 0 itself
		case "updateOffsets":
			op.Topic = pick("topic", exists, true)
			offsetsOn[op.Topic] = true
			op.Part = int32(rapid.IntRange(0, 4).Draw(t, "part"))
			op.Off = rapid.OneOf(rapid.Int64Range(-1, 5), rapid.Int64Range(0, 1<<40)).Draw(t, "last")
		case "nextOffset":
			op.Topic = pick("topic", everDeleted, true)
			op.Part = int32(rapid.IntRange(-1, 5).Draw(t, "part"))
			if everDeleted[op.Topic] {
				g.classes["read-after-topic-deletion"] = true
			}
		case "commit":
			op.Group, op.Topic = group.Draw(t, "group"), topic.Draw(t, "topic")
			op.Part = int32(rapid.IntRange(0, 2).Draw(t, "part"))
			op.Off = rapid.OneOf(rapid.Int64Range(0, 5), rapid.Int64Range(0, 1<<62)).Draw(t, "off")
			op.Meta = rapid.SampledFrom([]string{"", "m", " m ", "meta é", "{\"x\":1}", "\t", "<&>\u2028", "A\x00b"}).Draw(t, "meta")
			if len(lastCommit) > 0 && rapid.Bool().Draw(t, "commit-on-committed-key") {
				keys := make([]string, 0, len(lastCommit))
				for k := range lastCommit {
					keys = append(keys, k)
				}
				sort.Strings(keys)
				prev := lastCommit[rapid.SampledFrom(keys).Draw(t, "ckey")]
				op.Group, op.Topic, op.Part = prev.Group, prev.Topic, prev.Part
				if rapid.Bool().Draw(t, "recommit-same-offset") {
					// the position did not move but the metadata string may have (new owner, cleared metadata)
					op.Off = prev.Off
					if op.Meta != prev.Meta {
						g.classes["recommit-same-offset-other-metadata"] = true
					}
				}
			}
			ck := fmt.Sprintf("%s/%s/%d", op.Group, op.Topic, op.Part)
			lastCommit[ck] = op
			committedOn[op.Topic] = true
		case "fetchOffset":
			op.Group, op.Topic = group.Draw(t, "group"), pick("topic", everDeleted, true)
			op.Part = int32(rapid.IntRange(0, 2).Draw(t, "part"))
			if everDeleted[op.Topic] {
				g.classes["read-after-topic-deletion"] = true
			}
		case "putGroup":
			cg := &c17Group{ID: group.Draw(t, "gid")}
			if rapid.IntRange(0, 19).Draw(t, "emptyid") == 0 {
				cg.ID = ""
			}
			cg.State = rapid.SampledFrom([]string{"stable", "empty", "preparing_rebalance", "completing_rebalance", "dead", "", "Stable"}).Draw(t, "state")
			cg.ProtocolType = rapid.SampledFrom([]string{"consumer", "", "connect"}).Draw(t, "ptype")
			cg.Protocol = rapid.SampledFrom([]string{"range", "roundrobin", ""}).Draw(t, "proto")
			cg.Generation = int32(rapid.IntRange(0, 9).Draw(t, "gen"))
			cg.RebalanceMs = int32(rapid.SampledFrom([]int{0, 30000, 45000, 1}).Draw(t, "rebalance_ms"))
			nm := rapid.IntRange(0, 3).Draw(t, "nmembers")
			used := map[string]bool{}
			for j := 0; j < nm; j++ {
				m := c17Member{ID: rapid.SampledFrom(memberPool).Draw(t, "mid")}
				if used[m.ID] {
					continue
				}
				used[m.ID] = true
				m.ClientID = rapid.SampledFrom([]string{"", "client-1"}).Draw(t, "cid")
				m.ClientHost = rapid.SampledFrom([]string{"", "/10.0.0.1"}).Draw(t, "host")
				m.HeartbeatAt = rapid.SampledFrom([]string{"", "2026-01-02T03:04:05.000000006Z"}).Draw(t, "hb")
				m.SessionMs = int32(rapid.SampledFrom([]int{0, 10000, 30000, 45000}).Draw(t, "session_ms"))
				m.Subs = rapid.SliceOfN(topic, 0, 2).Draw(t, "subs")
				m.Assign = map[string][]int32{}
				for _, tp := range rapid.SliceOfNDistinct(topic, 0, 2, func(s string) string { return s }).Draw(t, "assigned") {
					m.AssignOrder = append(m.AssignOrder, tp)
					m.Assign[tp] = rapid.SliceOfN(rapid.Int32Range(0, 5), 0, 3).Draw(t, "parts")
				}
				if len(m.AssignOrder) > 0 {
					g.classes["group-with-assignments"] = true
				}
				cg.Members = append(cg.Members, m)
			}
			if len(cg.Members) > 0 {
				cg.Leader = cg.Members[0].ID
			}
			hasTimeouts := cg.RebalanceMs != 0
			for _, m := range cg.Members {
				hasTimeouts = hasTimeouts || m.SessionMs != 0
			}
			if hasTimeouts && vfkit.Known(c17FindTimeouts) {
				g.excluded[c17FindTimeouts] = true
				cg.RebalanceMs = 0
				for j := range cg.Members {
					cg.Members[j].SessionMs = 0
				}
				hasTimeouts = false
			}
			if hasTimeouts {
				g.classes["group-with-timeouts"] = true
			}
			op.CG = cg
		case "fetchGroup", "deleteGroup":
			op.Group = group.Draw(t, "group")
		case "metadata":
			op.Topics = rapid.SliceOfN(topic, 0, 3).Draw(t, "subset")
		case "updateConfig":
			op.Topic = pick("topic", exists, true)
			if exists[op.Topic] {
				offsetsOn[op.Topic] = true
			}
			op.N = int32(rapid.IntRange(0, 3).Draw(t, "cfgparts"))
			op.Off = rapid.Int64Range(-1, 1000).Draw(t, "retention")
			op.Meta = "v"
		case "fetchConfig":
			op.Topic = pick("topic", exists, true)
		}
		g.script.Ops = append(g.script.Ops, op)
		g.trace = append(g.trace, c17ShowOp(op))
	}
	c17SteerAlias(&g)
	return g
}

// c17AliasesOffsetKey: the etcd key of the METADATA of group id, /kafscale/consumers/<id>/metadata,
// reads as an entry of the offsets directory .../offsets/<topic>/ exactly when id is
// "offsets/<topic>" or ends in "/offsets/<topic>"; deleting that topic then purges it.
func c17AliasesOffsetKey(id, topic string) bool {
	return id == "offsets/"+topic || strings.HasSuffix(id, "/offsets/"+topic)
}

// c17SteerAlias replays the generated script symbolically. A successful DeleteTopic(T) while a
// group record whose id aliases T's offsets directory is stored is the listed finding
// C17-group-id-aliases-offset-key: only while it is listed, that delete is replaced.
func c17SteerAlias(g *c17Gen) {
	exists := map[string]bool{}
	for _, n := range g.script.Initial {
		exists[n] = true
	}
	stored := map[string]bool{}
	for i, op := range g.script.Ops {
		switch op.Kind {
		case "createTopic":
			if !exists[op.Topic] && op.N > 0 && op.RF <= 1 && ValidTopicName(op.Topic) {
				exists[op.Topic] = true
			}
		case "putGroup":
			if op.CG != nil && op.CG.ID != "" {
				stored[op.CG.ID] = true
			}
		case "deleteGroup":
			delete(stored, op.Group)
		case "deleteTopic":
			if !exists[op.Topic] {
				continue
			}
			hit := false
			for id := range stored {
				if c17AliasesOffsetKey(id, op.Topic) {
					hit = true
				}
			}
			if hit && vfkit.Known(c17FindAlias) {
				g.excluded[c17FindAlias] = true
				g.script.Ops[i] = c17Op{Kind: "listGroups"}
				g.trace[i] = c17ShowOp(g.script.Ops[i])
				continue
			}
			if hit {
				g.classes["topic-delete-while-aliasing-group-record-stored"] = true
			}
			delete(exists, op.Topic)
		}
	}
}

func c17Etcd(t *testing.T) *clientv3.Client {
	endpoints := c17StartFastEtcd(t)
	cli, err := clientv3.New(clientv3.Config{Endpoints: endpoints, DialTimeout: 5 * time.Second})
	if err != nil {
		fmt.Println("VF-INCONCLUSIVE: cannot connect to embedded etcd:", err)
		t.Fatalf("etcd client: %v", err)
	}
	t.Cleanup(func() { _ = cli.Close() })
	return cli
}

func TestVF_C17_Diff(t *testing.T) {
	st := vfkit.NewStats("C17", "diff")
	defer st.Flush()
	cli := c17Etcd(t)
	rapid.Check(t, func(t *rapid.T) {
		st.Eval()
		g := c17Generate(t)
		div, env := c17Run(cli, g.script)
		if env != "" {
			fmt.Println("VF-INCONCLUSIVE: embedded etcd misbehaved:", env)
			t.Fatalf("environment: %s", env)
		}
		for id := range g.excluded {
			st.ExcludedCase(id)
		}
		for c := range g.classes {
			st.Class(c)
		}
		for _, op := range g.script.Ops {
			st.Class("op-" + op.Kind)
		}
		if len(g.classes) > 0 {
			st.NonTrivial(g.script.Initial, g.trace)
			st.Sample(g.script)
		}
		if div != "" {
			t.Fatalf("%s", div)
		}
	})
}

func TestVF_C17_Witness(t *testing.T) {
	st := vfkit.NewStats("C17", "witness")
	defer st.Flush()
	cli := c17Etcd(t)
	wits := map[string]c17Script{
		c17FindTimeouts: {Ops: []c17Op{
			{Kind: "putGroup", CG: &c17Group{ID: "g", State: "stable", Generation: 1, RebalanceMs: 45000, Leader: "m1",
				Members: []c17Member{{ID: "m1", SessionMs: 10000, Subs: []string{"a"}}}}},
			{Kind: "fetchGroup", Group: "g"}}},
		c17FindDelete: {Initial: []string{"a"}, Ops: []c17Op{
			{Kind: "commit", Group: "g", Topic: "a", Part: 0, Off: 5, Meta: "m"},
			{Kind: "deleteTopic", Topic: "a"},
			{Kind: "fetchOffset", Group: "g", Topic: "a", Part: 0}}},
	}
	wits[c17FindSepChars+"#colon"] = c17Script{Initial: []string{"orders"}, Ops: []c17Op{
		{Kind: "commit", Group: "team:app", Topic: "orders", Part: 0, Off: 42, Meta: "m"},
		{Kind: "listOffsets"},
		{Kind: "deleteTopic", Topic: "orders"},
		{Kind: "fetchOffset", Group: "team:app", Topic: "orders", Part: 0}}}
	wits[c17FindSepChars+"#slash"] = c17Script{Initial: []string{"orders"}, Ops: []c17Op{
		{Kind: "commit", Group: "team/app", Topic: "orders", Part: 0, Off: 42, Meta: "m"},
		{Kind: "putGroup", CG: &c17Group{ID: "team/app", State: "stable", Generation: 1}},
		{Kind: "listGroups"},
		{Kind: "listOffsets"}}}
	wits[c17FindAlias] = c17Script{Initial: []string{"a"}, Ops: []c17Op{
		{Kind: "putGroup", CG: &c17Group{ID: "x/offsets/a", State: "stable", Generation: 1}},
		{Kind: "deleteTopic", Topic: "a"},
		{Kind: "fetchGroup", Group: "x/offsets/a"},
		{Kind: "listGroups"}}}
	results := map[string]string{}
	defer func() {
		for id, what := range results {
			st.KnownResult(id, what != "", what)
		}
	}()
	for id, sc := range wits {
		st.Eval()
		div, env := c17Run(cli, sc)
		if env != "" {
			fmt.Println("VF-INCONCLUSIVE: embedded etcd misbehaved:", env)
			t.Fatalf("environment: %s", env)
		}
		base := strings.SplitN(id, "#", 2)[0]
		if div != "" {
			results[base] = div + " [" + id + "]"
		} else if _, ok := results[base]; !ok {
			results[base] = ""
		}
		t.Logf("witness %s: %s", id, div)
		st.NonTrivial("witness", id)
		st.Sample(map[string]any{"witness": id, "script": sc, "divergence": div})
	}
}

// c17StartFastEtcd is internal/testutil.StartEmbeddedEtcd with UnsafeNoFsync (the checks
// never restart etcd, so durability of its WAL is irrelevant and the shared machine's disk
// latency stays out of the 3 s operation timeouts of EtcdStore). Falls back to the repo's
// own starter if this one cannot start.
func c17StartFastEtcd(t *testing.T) []string {
	for attempt := 0; attempt < 4; attempt++ {
		cfg := embed.NewConfig()
		cfg.Dir = t.TempDir()
		cfg.Logger = "zap"
		cfg.LogLevel = "error"
		cfg.LogOutputs = []string{filepath.Join(os.TempDir(), fmt.Sprintf("etcd-vf-c17-%d.log", attempt))}
		cfg.UnsafeNoFsync = true
		ports := [2]int{}
		ok := true
		for i := range ports {
			ln, err := net.Listen("tcp", "127.0.0.1:0")
			if err != nil {
				ok = false
				break
			}
			ports[i] = ln.Addr().(*net.TCPAddr).Port
			_ = ln.Close()
		}
		if !ok {
			continue
		}
		cu, _ := url.Parse(fmt.Sprintf("http://127.0.0.1:%d", ports[0]))
		pu, _ := url.Parse(fmt.Sprintf("http://127.0.0.1:%d", ports[1]))
		cfg.ListenClientUrls, cfg.AdvertiseClientUrls = []url.URL{*cu}, []url.URL{*cu}
		cfg.ListenPeerUrls, cfg.AdvertisePeerUrls = []url.URL{*pu}, []url.URL{*pu}
		cfg.InitialCluster = cfg.InitialClusterFromName(cfg.Name)
		e, err := embed.StartEtcd(cfg)
		if err != nil {
			continue
		}
		select {
		case <-e.Server.ReadyNotify():
		case <-time.After(20 * time.Second):
			e.Server.Stop()
			e.Close()
			continue
		}
		t.Cleanup(func() { e.Close() })
		return []string{"http://" + e.Clients[0].Addr().String()}
	}
	return testutil.StartEmbeddedEtcd(t)
}
