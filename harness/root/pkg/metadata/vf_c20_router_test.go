//go:build verif

package metadata

// C20: after any sequence of lease changes and watch-stream interruptions, once changes
// stop, the proxy's partition / group routing table equals the owners recorded in etcd.
//
// The real PartitionRouter / GroupRouter run against an embedded etcd through a client
// whose KV.Get (loadAll) and Watcher.Watch calls park at a gate owned by the harness, and
// whose watch stream can be cut by the harness (the router then sleeps 1 s, reloads and
// re-watches, exactly its reconnect path). The harness therefore decides where lease
// puts/deletes land: before the initial load, between the load and the start of the watch
// ("gap"), while the watch is live, during an outage (after the cut, before the reload),
// in the gap after the reload, and so on.
//
// Quiescence is a barrier, not a timeout: when the history is over and the watch is
// established (etcd "created" notification), a sentinel lease key is written; etcd
// delivers a watch stream in revision order, so once the router reports the sentinel it
// has applied everything before it. Then AllRoutes/LookupOwner must equal etcd's content.

import (
	"bytes"
	"context"
	"errors"
	"runtime/pprof"
	"sync/atomic"
	"fmt"
	"io"
	"log/slog"
	"os"
	"sort"
	"strconv"
	"strings"
	"testing"
	"time"

	clientv3 "go.etcd.io/etcd/client/v3"
	"go.etcd.io/etcd/client/v3/namespace"
	"pgregory.net/rapid"
	"verif.local/vfkit"

	"github.com/KafScale/platform/internal/testutil"
)

const c20Finding = "C20-watch-gap-after-load"
const c20FindingInvalidate = "C20-invalidate-removes-current-owner"

var c20Quiet = slog.New(slog.NewTextHandler(io.Discard, nil))

// ---------------------------------------------------------------- gated client

type c20Ctl struct {
	arrived chan string   // "get" | "watch": the router parked at that call
	release chan struct{} // one token lets one parked call continue
	created chan struct{} // the etcd watch has been established
	stream  chan *c20Stream
	// delivered: key lists of the watch responses the router has taken from its (unbuffered)
	// watch channel, in order. The router handles one response completely before it takes
	// the next one, so "response N+1 taken" implies "response N applied".
	delivered chan []string
	// failNextGet: the next read the router issues fails once (etcd unavailable for a moment)
	failNextGet atomic.Bool
}

type c20Stream struct {
	cut     chan struct{}
	created chan struct{} // etcd confirmed this watch
	ended   chan struct{} // the stream is over (cut by the harness, cancelled, or closed by etcd, e.g. compacted)
}

func c20NewCtl() *c20Ctl {
	return &c20Ctl{arrived: make(chan string, 8), release: make(chan struct{}), created: make(chan struct{}, 8), stream: make(chan *c20Stream, 8),
		delivered: make(chan []string, 4096)}
}

// park returns false when ctx ended while waiting (router stopped).
func (c *c20Ctl) park(ctx context.Context, what string) bool {
	if ctx.Err() != nil {
		return false
	}
	select {
	case c.arrived <- what:
	case <-ctx.Done():
		return false
	}
	select {
	case <-c.release:
		return true
	case <-ctx.Done():
		return false
	}
}

type c20KV struct {
	clientv3.KV
	ctl *c20Ctl
}

func (k *c20KV) Get(ctx context.Context, key string, opts ...clientv3.OpOption) (*clientv3.GetResponse, error) {
	if !k.ctl.park(ctx, "get") {
		return nil, ctx.Err()
	}
	if k.ctl.failNextGet.CompareAndSwap(true, false) {
		return nil, errors.New("vf c20: injected etcd read failure (etcdserver: request timed out)")
	}
	return k.KV.Get(ctx, key, opts...)
}

type c20Watcher struct {
	clientv3.Watcher
	ctl *c20Ctl
}

func (w *c20Watcher) Watch(ctx context.Context, key string, opts ...clientv3.OpOption) clientv3.WatchChan {
	out := make(chan clientv3.WatchResponse) // unbuffered on purpose, see c20Ctl.delivered
	if !w.ctl.park(ctx, "watch") {
		close(out)
		return out
	}
	ictx, cancel := context.WithCancel(ctx)
	in := w.Watcher.Watch(ictx, key, append(append([]clientv3.OpOption{}, opts...), clientv3.WithCreatedNotify())...)
	s := &c20Stream{cut: make(chan struct{}), created: make(chan struct{}, 1), ended: make(chan struct{})}
	w.ctl.stream <- s
	go func() {
		defer cancel()
		defer close(out)
		defer close(s.ended)
		for {
			select {
			case resp, ok := <-in:
				if !ok {
					return
				}
				if resp.Created && len(resp.Events) == 0 && resp.Err() == nil {
					select {
					case s.created <- struct{}{}:
					default:
					}
					continue
				}
				select {
				case out <- resp:
					keys := make([]string, 0, len(resp.Events))
					for _, ev := range resp.Events {
						keys = append(keys, string(ev.Kv.Key))
					}
					select {
					case w.ctl.delivered <- keys:
					default:
					}
				case <-s.cut:
					return
				case <-ctx.Done():
					return
				}
			case <-s.cut:
				return
			case <-ctx.Done():
				return
			}
		}
	}()
	return out
}

func (w *c20Watcher) Close() error { return nil }

// ---------------------------------------------------------------- the two router flavours behind one face

type c20Entry struct {
	EtcdKey string
	Name    string // what the router is asked for: "topic:partition" or group id
	topic   string
	part    int32
}

type c20Flavour struct {
	name     string
	universe []c20Entry
	sentinel c20Entry
	sentinel2 c20Entry
	start    func(ctx context.Context, cli *clientv3.Client) (lookup func(c20Entry) string, all func() map[string]string, stop func(), err error)
	// invalidate is set by start: what the proxy calls after NOT_LEADER / NOT_COORDINATOR for that key
	invalidate *func(c20Entry)
	prefix   string
	bulk     func(i int) c20Entry // i-th lease of the large population (sorts before the universe)
}

func c20PartitionFlavour() c20Flavour {
	f := c20Flavour{name: "partition", prefix: partitionLeasePrefix + "/", invalidate: new(func(c20Entry))}
	for _, t := range []string{"orders", "pay.v1"} {
		for p := int32(0); p < 2; p++ {
			f.universe = append(f.universe, c20Entry{EtcdKey: partitionLeaseKey(t, p), Name: fmt.Sprintf("%s:%d", t, p), topic: t, part: p})
		}
	}
	f.sentinel = c20Entry{EtcdKey: partitionLeaseKey("vf-sentinel", 0), Name: "vf-sentinel:0", topic: "vf-sentinel", part: 0}
	f.sentinel2 = c20Entry{EtcdKey: partitionLeaseKey("vf-sentinel", 1), Name: "vf-sentinel:1", topic: "vf-sentinel", part: 1}
	f.bulk = func(i int) c20Entry {
		return c20Entry{EtcdKey: partitionLeaseKey("bulk", int32(i)), Name: fmt.Sprintf("bulk:%d", i), topic: "bulk", part: int32(i)}
	}
	f.start = func(ctx context.Context, cli *clientv3.Client) (func(c20Entry) string, func() map[string]string, func(), error) {
		r, err := NewPartitionRouter(ctx, cli, c20Quiet)
		if err != nil {
			return nil, nil, nil, err
		}
		*f.invalidate = func(e c20Entry) { r.Invalidate(e.topic, e.part) }
		return func(e c20Entry) string { return r.LookupOwner(e.topic, e.part) },
			func() map[string]string {
				m := map[string]string{}
				for _, rt := range r.AllRoutes() {
					m[fmt.Sprintf("%s:%d", rt.Topic, rt.Partition)] = rt.BrokerID
				}
				return m
			}, r.Stop, nil
	}
	return f
}

func c20GroupFlavour() c20Flavour {
	f := c20Flavour{name: "group", prefix: groupLeasePrefix + "/", invalidate: new(func(c20Entry))}
	for _, g := range []string{"g0", "team/app", "g:1", "orders", "payments-consumer"} {
		f.universe = append(f.universe, c20Entry{EtcdKey: groupLeasePrefix + "/" + g, Name: g})
	}
	f.sentinel = c20Entry{EtcdKey: groupLeasePrefix + "/vf-sentinel", Name: "vf-sentinel"}
	f.sentinel2 = c20Entry{EtcdKey: groupLeasePrefix + "/vf-sentinel2", Name: "vf-sentinel2"}
	f.bulk = func(i int) c20Entry {
		return c20Entry{EtcdKey: fmt.Sprintf("%s/bulk-%04d", groupLeasePrefix, i), Name: fmt.Sprintf("bulk-%04d", i)}
	}
	f.start = func(ctx context.Context, cli *clientv3.Client) (func(c20Entry) string, func() map[string]string, func(), error) {
		r, err := NewGroupRouter(ctx, cli, c20Quiet)
		if err != nil {
			return nil, nil, nil, err
		}
		*f.invalidate = func(e c20Entry) { r.Invalidate(e.Name) }
		return func(e c20Entry) string { return r.LookupOwner(e.Name) },
			func() map[string]string {
				m := map[string]string{}
				for _, rt := range r.AllRoutes() {
					m[rt.GroupID] = rt.BrokerID
				}
				return m
			}, r.Stop, nil
	}
	return f
}

// expected routing table computed from etcd by the harness' own key parsing
func c20Expected(f c20Flavour, kvs map[string]string) map[string]string {
	out := map[string]string{}
	for k, v := range kvs {
		if !strings.HasPrefix(k, f.prefix) {
			continue
		}
		rest := k[len(f.prefix):]
		if f.name == "group" {
			if rest != "" {
				out[rest] = v
			}
			continue
		}
		i := strings.LastIndex(rest, "/")
		if i <= 0 || i == len(rest)-1 {
			continue
		}
		p, err := strconv.ParseInt(rest[i+1:], 10, 32)
		if err != nil {
			continue
		}
		out[fmt.Sprintf("%s:%d", rest[:i], p)] = v
	}
	return out
}

// ---------------------------------------------------------------- one case

type c20Write struct {
	Phase string `json:"phase"`
	Key   string `json:"key"`
	Val   string `json:"val"` // "" = delete
}

type c20Case struct {
	f       c20Flavour
	admin   clientv3.KV
	cli     *clientv3.Client
	ctl     *c20Ctl
	hist    []c20Write
	current *c20Stream
	pendingWatch bool
	watcherDead  bool // the router's watch goroutine exited although the router was not stopped
	barrier       func() (string, error)
	lookup        func(c20Entry) string
	known         bool            // the Invalidate finding is listed: its predicate is excluded
	sent          map[int]string  // proxy requests under way: universe index -> broker the request went to
	invalidated   bool
	staleInvalidate bool          // an Invalidate hit a table entry that had already moved on
	excludedInv   bool
	failReloads   int
	failedReload  bool
	betweenDone   bool
	compacted     bool
	streamRefused bool
	lease       clientv3.Lease
	leases      []clientv3.LeaseID
	multi       bool // some revision changed several lease keys
	multiRevoke bool // a lease holding >= 2 keys was revoked
}

var errC20Inconclusive = fmt.Errorf("vf c20: inconclusive")

func (c *c20Case) write(phase string, e c20Entry, val string) error {
	ctx, cancel := context.WithTimeout(context.Background(), 30*time.Second)
	defer cancel()
	var err error
	if val == "" {
		_, err = c.admin.Delete(ctx, e.EtcdKey)
	} else {
		_, err = c.admin.Put(ctx, e.EtcdKey, val)
	}
	if err != nil {
		return fmt.Errorf("%w: admin write: %v", errC20Inconclusive, err)
	}
	c.hist = append(c.hist, c20Write{Phase: phase, Key: e.Name, Val: val})
	return nil
}

// c20Op is one step of the history. Kind "one": a single put/delete. "txn": 2-3 puts/deletes of
// distinct keys in ONE etcd revision (multi-op transaction). "lease-put": 2-3 keys put in one
// revision and attached to a fresh etcd lease (a broker owning several partitions/groups).
// "revoke": the oldest such lease is revoked - etcd deletes all its keys in ONE revision
// (session expiry / ReleaseAll of a broker that owns several leases).
type c20Op struct {
	Kind  string
	Items [][2]int // (universe index, value index; value 0 = delete)
}

func (c *c20Case) applyOp(phase string, op c20Op, brokers []string) error {
	ctx, cancel := context.WithTimeout(context.Background(), 30*time.Second)
	defer cancel()
	switch op.Kind {
	case "proxy-handover":
		// a request is forwarded, the key changes hands, then the answer arrives
		if err := c.applyOp(phase, c20Op{Kind: "proxy-send", Items: op.Items}, brokers); err != nil {
			return err
		}
		to, ok := c.sent[op.Items[0][0]]
		if !ok {
			return nil
		}
		next := brokers[1+op.Items[0][1]%3]
		if next == to {
			next = brokers[1+(op.Items[0][1]+1)%3]
		}
		if err := c.write(phase, c.f.universe[op.Items[0][0]], next); err != nil {
			return err
		}
		return c.applyOp(phase, c20Op{Kind: "proxy-reply", Items: op.Items}, brokers)
	case "proxy-send", "proxy-reply":
		// The proxy forwards a request for a key to the broker its table names (any broker if the
		// table has no entry); when the answer is NOT_LEADER / NOT_COORDINATOR it calls
		// Invalidate(key). Both halves happen only while a watch is established, each after a
		// barrier, so that what the table says at that moment is well defined.
		// During an outage (stream cut, router asleep or parked at its reload) the table is
		// frozen and possibly stale - the proxy keeps using it; no barrier is needed or possible.
		inOutage := strings.HasPrefix(phase, "outage")
		if c.barrier == nil || c.lookup == nil || c.current == nil || c.watcherDead || !(strings.HasPrefix(phase, "live") || inOutage) {
			return nil
		}
		if !inOutage {
			if _, err := c.barrier(); err != nil {
				return err
			}
			if c.watcherDead {
				return nil
			}
		}
		e := c.f.universe[op.Items[0][0]]
		if op.Kind == "proxy-send" {
			to := c.lookup(e)
			if to == "" {
				to = brokers[1+op.Items[0][1]%3] // no route: the proxy picks some broker
			}
			if c.sent == nil {
				c.sent = map[int]string{}
			}
			c.sent[op.Items[0][0]] = to
			c.hist = append(c.hist, c20Write{Phase: phase + "/proxy-forwards-to", Key: e.Name, Val: to})
			return nil
		}
		idx := op.Items[0][0]
		to, ok := c.sent[idx]
		if !ok {
			// no request under way for the drawn key: the answer of the oldest other one arrives
			for i := range c.f.universe {
				if t, has := c.sent[i]; has {
					idx, to, ok = i, t, true
					break
				}
			}
		}
		if !ok {
			return nil
		}
		e = c.f.universe[idx]
		delete(c.sent, idx)
		kvs, err := c.etcdContent()
		if err != nil {
			return err
		}
		if kvs[e.EtcdKey] == to {
			return nil // that broker still owns it: the request succeeds, nothing is invalidated
		}
		if cur := c.lookup(e); cur != to {
			// the table entry is no longer the broker that answered: it already moved on
			if c.known {
				c.excludedInv = true
				return nil
			}
			c.staleInvalidate = true
		}
		(*c.f.invalidate)(e)
		c.invalidated = true
		c.hist = append(c.hist, c20Write{Phase: phase + "/NOT_LEADER-from-" + to + "-proxy-invalidates", Key: e.Name, Val: ""})
		return nil
	case "bulk":
		// one of the first keys (in key order) of the large population changes hands
		return c.write(phase, c.f.bulk(op.Items[0][0]), brokers[op.Items[0][1]])
	case "one":
		return c.write(phase, c.f.universe[op.Items[0][0]], brokers[op.Items[0][1]])
	case "txn", "lease-put":
		var lease clientv3.LeaseID
		if op.Kind == "lease-put" {
			g, err := c.lease.Grant(ctx, 600)
			if err != nil {
				return fmt.Errorf("%w: grant: %v", errC20Inconclusive, err)
			}
			lease = g.ID
			c.leases = append(c.leases, lease)
		}
		var ops []clientv3.Op
		for _, it := range op.Items {
			e, val := c.f.universe[it[0]], brokers[it[1]]
			switch {
			case op.Kind == "lease-put":
				if val == "" {
					val = "1"
				}
				ops = append(ops, clientv3.OpPut(e.EtcdKey, val, clientv3.WithLease(lease)))
				c.hist = append(c.hist, c20Write{Phase: phase + "/same-rev(lease)", Key: e.Name, Val: val})
			case val == "":
				ops = append(ops, clientv3.OpDelete(e.EtcdKey))
				c.hist = append(c.hist, c20Write{Phase: phase + "/same-rev", Key: e.Name, Val: val})
			default:
				ops = append(ops, clientv3.OpPut(e.EtcdKey, val))
				c.hist = append(c.hist, c20Write{Phase: phase + "/same-rev", Key: e.Name, Val: val})
			}
		}
		if _, err := c.admin.Txn(ctx).Then(ops...).Commit(); err != nil {
			return fmt.Errorf("%w: admin txn: %v", errC20Inconclusive, err)
		}
		c.multi = true
	case "revoke":
		if len(c.leases) == 0 {
			return nil
		}
		id := c.leases[0]
		c.leases = c.leases[1:]
		// how many keys does it still hold?
		ttl, err := c.lease.TimeToLive(ctx, id, clientv3.WithAttachedKeys())
		if err != nil {
			return fmt.Errorf("%w: ttl: %v", errC20Inconclusive, err)
		}
		if _, err := c.lease.Revoke(ctx, id); err != nil {
			return fmt.Errorf("%w: revoke: %v", errC20Inconclusive, err)
		}
		c.hist = append(c.hist, c20Write{Phase: phase + "/lease-revoked", Key: fmt.Sprintf("%d keys", len(ttl.Keys)), Val: ""})
		if len(ttl.Keys) >= 2 {
			c.multiRevoke = true
		}
	}
	return nil
}

// waitArrive waits until the router parks at one of its etcd calls and says which one.
// The harness does not assume the router's call sequence: whatever it parks at is handled.
func (c *c20Case) waitArrive() (string, error) {
	deadline := time.After(60 * time.Second)
	tick := time.NewTicker(200 * time.Millisecond)
	defer tick.Stop()
	gone := 0
	for {
		select {
		case got := <-c.ctl.arrived:
			return got, nil
		case <-tick.C:
			// Not a timeout: is there still a goroutine running this router flavour's watch loop?
			// (A stopped router of an earlier case may linger for about a second and only makes
			// us wait longer.) Two observations in a row without one = the watcher has exited.
			if c20WatcherAlive(c.f.name) {
				gone = 0
			} else if gone++; gone >= 2 {
				return "dead", nil
			}
		case <-deadline:
			return "", fmt.Errorf("%w: router never reached its next etcd call", errC20Inconclusive)
		}
	}
}

func c20WatcherAlive(flavour string) bool {
	var buf bytes.Buffer
	_ = pprof.Lookup("goroutine").WriteTo(&buf, 1)
	frame := "metadata.(*PartitionRouter).watch"
	if flavour == "group" {
		frame = "metadata.(*GroupRouter).watch"
	}
	return strings.Contains(buf.String(), frame)
}

func (c *c20Case) letGo() error {
	select {
	case c.ctl.release <- struct{}{}:
		return nil
	case <-time.After(60 * time.Second):
		return fmt.Errorf("%w: parked call did not take its release", errC20Inconclusive)
	}
}

// waitCreated waits for the watch the router just issued: true = etcd confirmed it, false = the
// stream ended without ever being established (e.g. its start revision has been compacted).
func (c *c20Case) waitCreated() (bool, error) {
	var st *c20Stream
	select {
	case st = <-c.ctl.stream:
	case <-time.After(60 * time.Second):
		return false, fmt.Errorf("%w: no stream handle", errC20Inconclusive)
	}
	select {
	case <-st.created:
		c.current = st
		return true, nil
	case <-st.ended:
		select {
		case <-st.created: // both happened: confirmed first, then closed right away
		default:
		}
		return false, nil
	case <-time.After(60 * time.Second):
		return false, fmt.Errorf("%w: etcd neither confirmed nor ended the watch", errC20Inconclusive)
	}
}

func (c *c20Case) etcdContent() (map[string]string, error) {
	ctx, cancel := context.WithTimeout(context.Background(), 30*time.Second)
	defer cancel()
	resp, err := c.admin.Get(ctx, "/kafscale/", clientv3.WithPrefix())
	if err != nil {
		return nil, fmt.Errorf("%w: admin get: %v", errC20Inconclusive, err)
	}
	out := map[string]string{}
	for _, kv := range resp.Kvs {
		out[string(kv.Key)] = string(kv.Value)
	}
	return out, nil
}

type c20Env struct {
	base  *clientv3.Client
	admin *clientv3.Client
	seq   int
}

func c20NewEnv(t *testing.T) *c20Env {
	endpoints := testutil.StartEmbeddedEtcd(t)
	mk := func() *clientv3.Client {
		cli, err := clientv3.New(clientv3.Config{Endpoints: endpoints, DialTimeout: 5 * time.Second})
		if err != nil {
			fmt.Println("VF-INCONCLUSIVE: cannot create etcd client:", err)
			t.Fatalf("etcd client: %v", err)
		}
		t.Cleanup(func() { _ = cli.Close() })
		return cli
	}
	e := &c20Env{base: mk(), admin: mk()}
	ctx, cancel := context.WithTimeout(context.Background(), 20*time.Second)
	defer cancel()
	if _, err := e.admin.Get(ctx, "ping"); err != nil {
		fmt.Println("VF-INCONCLUSIVE: embedded etcd does not answer:", err)
		t.Fatalf("etcd ping: %v", err)
	}
	return e
}

func (e *c20Env) newCase(f c20Flavour) (*c20Case, func()) {
	e.seq++
	pfx := fmt.Sprintf("c20-%d-%d/", os.Getpid(), e.seq)
	ctl := c20NewCtl()
	ctx, cancel := context.WithCancel(context.Background())
	cli := clientv3.NewCtxClient(ctx)
	cli.KV = &c20KV{KV: namespace.NewKV(e.base.KV, pfx), ctl: ctl}
	cli.Watcher = &c20Watcher{Watcher: namespace.NewWatcher(e.base.Watcher, pfx), ctl: ctl}
	cli.Lease = e.base.Lease
	c := &c20Case{f: f, admin: namespace.NewKV(e.admin.KV, pfx), cli: cli, ctl: ctl, lease: e.admin.Lease}
	return c, func() {
		cancel()
		dctx, dcancel := context.WithTimeout(context.Background(), 10*time.Second)
		for _, id := range c.leases {
			_, _ = c.lease.Revoke(dctx, id)
		}
		_, _ = c.admin.Delete(dctx, "/", clientv3.WithPrefix())
		dcancel()
	}
}

// c20Plan is the generated history. Each phase is a list of (entry index, value) writes.
type c20Plan struct {
	Pre      []c20Op // before the router's initial load
	Gap1     []c20Op // between initial load and watch start
	Live1    []c20Op // watch established
	Cut      bool
	Outage   []c20Op // after the cut, before the reload
	Gap2     []c20Op // between reload and watch restart
	Live2    []c20Op
	FailReloads  int  // this many reload reads after the first cut fail (0-2)
	FailReloads2 int
	Compact      bool // etcd compacts its history during the first outage
	Bulk         int  // > 0: that many extra leases exist from the start (more than one page of 1000)
	Between      []c20Op // writes placed between two reads of ONE load, if the router loads in pages
	SecondCut bool
	Outage2  []c20Op
	Live3    []c20Op
}

// run executes a plan against the real router and returns a violation text ("" if none).
func (c *c20Case) run(p c20Plan) (string, error) {
	brokers := []string{"", "0", "1", "2"}
	apply := func(phase string, ops []c20Op) error {
		for _, op := range ops {
			if err := c.applyOp(phase, op, brokers); err != nil {
				return err
			}
		}
		return nil
	}
	if p.Bulk > 0 {
		// a large lease population, put once (100 keys per transaction)
		for lo := 0; lo < p.Bulk; lo += 100 {
			var ops []clientv3.Op
			for i := lo; i < lo+100 && i < p.Bulk; i++ {
				ops = append(ops, clientv3.OpPut(c.f.bulk(i).EtcdKey, "0"))
			}
			ctx, cancel := context.WithTimeout(context.Background(), 30*time.Second)
			_, err := c.admin.Txn(ctx).Then(ops...).Commit()
			cancel()
			if err != nil {
				return "", fmt.Errorf("%w: bulk put: %v", errC20Inconclusive, err)
			}
		}
		c.hist = append(c.hist, c20Write{Phase: "pre/bulk", Key: fmt.Sprintf("%d leases", p.Bulk), Val: "0"})
	}
	if err := apply("pre", p.Pre); err != nil {
		return "", err
	}
	// onRead handles one read the router parked at. reads counts the reads of the current load:
	// a SECOND read of one load means the table is loaded page by page, and the plan's
	// "between pages" writes are placed there. A read can be made to fail (etcd unavailable).
	reads := 0
	onRead := func(phase string) error {
		reads++
		if reads == 2 && len(p.Between) > 0 && !c.betweenDone {
			c.betweenDone = true
			if err := apply(phase+"/between-two-reads-of-one-load", p.Between); err != nil {
				return err
			}
		}
		if c.failReloads > 0 {
			c.failReloads--
			c.failedReload = true
			c.ctl.failNextGet.Store(true)
			c.hist = append(c.hist, c20Write{Phase: phase + "/reload-read-fails", Key: "-", Val: ""})
			reads = 0
		}
		return c.letGo()
	}
	type started struct {
		lookup func(c20Entry) string
		all    func() map[string]string
		stop   func()
		err    error
	}
	ctx, cancel := context.WithCancel(context.Background())
	defer cancel()
	stc := make(chan started, 1)
	go func() {
		l, a, s, err := c.f.start(ctx, c.cli)
		stc <- started{l, a, s, err}
	}()
	// constructor: any number of reads (normally exactly one loadAll) until it returns
	var r started
	for done := false; !done; {
		select {
		case r = <-stc:
			done = true
		case got := <-c.ctl.arrived:
			if got == "watch" {
				// the watch goroutine got there before the constructor returned
				c.pendingWatch = true
				continue
			}
			if err := onRead("start"); err != nil {
				return "", err
			}
		case <-time.After(60 * time.Second):
			return "", fmt.Errorf("%w: router constructor did not return", errC20Inconclusive)
		}
	}
	if r.err != nil {
		return "", fmt.Errorf("%w: router start: %v", errC20Inconclusive, r.err)
	}
	defer r.stop()
	// reconnect: let reads through (writes of the "outage" phase were already applied) until
	// the router parks at Watch; apply the gap writes there; let the watch start; live writes.
	reconnect := func(gap, live []c20Op, gapName, liveName string) error {
		gapDone := false
		for {
			for !c.pendingWatch && !c.watcherDead {
				got, err := c.waitArrive()
				if err != nil {
					return err
				}
				if got == "dead" {
					c.watcherDead = true
					break
				}
				if got == "watch" {
					c.pendingWatch = true
					break
				}
				if err := onRead(gapName); err != nil {
					return err
				}
			}
			c.pendingWatch = false
			reads = 0
			if c.watcherDead {
				// nobody is watching any more; the remaining history still happens in etcd
				if !gapDone {
					if err := apply(gapName, gap); err != nil {
						return err
					}
				}
				return apply(liveName, live)
			}
			if !gapDone {
				gapDone = true
				if err := apply(gapName, gap); err != nil {
					return err
				}
			}
			if err := c.letGo(); err != nil {
				return err
			}
			ok, err := c.waitCreated()
			if err != nil {
				return err
			}
			if ok {
				break
			}
			// etcd closed the stream before it was established (compacted start revision): the
			// router goes round its reconnect loop again
			c.streamRefused = true
		}
		return apply(liveName, live)
	}
	// barrier through the established watch, independent of how the router applies events:
	// sentinel A is written and we wait until the router has TAKEN the response carrying it;
	// then sentinel B, same wait. The router takes a response only after it has completely
	// handled the previous one, so by then everything up to and including A is applied.
	barrier := func() (string, error) {
	// waitTaken: true = the router took the response carrying key; false = the current stream
	// ended under us (etcd closed it after confirming it, e.g. compacted start revision).
	waitTaken := func(key string) (bool, error) {
		deadline := time.After(60 * time.Second)
		for {
			select {
			case keys := <-c.ctl.delivered:
				for _, k := range keys {
					if k == key {
						return true, nil
					}
				}
			case <-c.current.ended:
				return false, nil
			case <-deadline:
				return false, fmt.Errorf("%w: the router did not take the watch response carrying %s from an established watch", errC20Inconclusive, key)
			}
		}
	}
	prefix := ""
	for attempt := 0; ; attempt++ {
		if c.watcherDead {
			// no goroutine of this router runs its watch loop any more although the router was not
			// stopped: nothing will ever apply the sentinel (or any later lease change)
			prefix = "the router's watcher goroutine exited after a watch-stream closure (router not stopped); "
			if err := c.write("sentinel", c.f.sentinel, "S"); err != nil {
				return "", err
			}
			break
		}
		if attempt >= 6 {
			return "", fmt.Errorf("%w: the watch stream kept ending", errC20Inconclusive)
		}
		if err := c.write("sentinel", c.f.sentinel, "S"); err != nil {
			return "", err
		}
		ok, err := waitTaken(c.f.sentinel.EtcdKey)
		if err != nil {
			return "", err
		}
		if ok {
			if err := c.write("sentinel2", c.f.sentinel2, "S2"); err != nil {
				return "", err
			}
			if ok, err = waitTaken(c.f.sentinel2.EtcdKey); err != nil {
				return "", err
			}
		}
		if ok {
			break
		}
		// the stream ended on its own: the router goes through its reconnect path once more
		c.streamRefused = true
		if err := reconnect(nil, nil, "gap-after-refusal", "live-after-refusal"); err != nil {
			return "", err
		}
	}
	return prefix, nil
	}
	c.barrier = barrier
	c.lookup = r.lookup
	if err := reconnect(p.Gap1, p.Live1, "gap", "live"); err != nil {
		return "", err
	}
	cut := func(outage, gap, live []c20Op, n string, failReloads int, compact bool) error {
		if c.watcherDead {
			if err := apply("outage"+n, outage); err != nil {
				return err
			}
			return reconnect(gap, live, "gap"+n, "live"+n)
		}
		c.failReloads = failReloads
		close(c.current.cut)
		if err := apply("outage"+n, outage); err != nil {
			return err
		}
		if compact {
			// etcd compacts its history up to now: the revision the router would resume from is gone
			ctx, cancel := context.WithTimeout(context.Background(), 30*time.Second)
			resp, err := c.admin.Get(ctx, "/vf-rev")
			if err == nil {
				_, err = c.admin.Compact(ctx, resp.Header.Revision)
			}
			cancel()
			if err != nil {
				return fmt.Errorf("%w: compact: %v", errC20Inconclusive, err)
			}
			c.compacted = true
			c.hist = append(c.hist, c20Write{Phase: "outage" + n + "/etcd-compacted", Key: "-", Val: ""})
		}
		// the router sleeps 1 s (real time), then reloads and re-watches
		return reconnect(gap, live, "gap"+n, "live"+n)
	}
	if p.Cut {
		if err := cut(p.Outage, p.Gap2, p.Live2, "2", p.FailReloads, p.Compact); err != nil {
			return "", err
		}
		if p.SecondCut {
			if err := cut(p.Outage2, nil, p.Live3, "3", p.FailReloads2, false); err != nil {
				return "", err
			}
		}
	}
	prefix, err := barrier()
	if err != nil {
		return "", err
	}
	kvs, err := c.etcdContent()
	if err != nil {
		return "", err
	}
	want := c20Expected(c.f, kvs)
	got := r.all()
	delete(want, c.f.sentinel2.Name) // the second sentinel may or may not have been applied yet
	delete(got, c.f.sentinel2.Name)
	var diffs []string
	for k, v := range want {
		if got[k] != v {
			diffs = append(diffs, fmt.Sprintf("%s: etcd owner %q, AllRoutes has %q", k, v, got[k]))
		}
	}
	for k, v := range got {
		if _, ok := want[k]; !ok {
			diffs = append(diffs, fmt.Sprintf("%s: not in etcd, AllRoutes has %q", k, v))
		}
	}
	for _, e := range append(append([]c20Entry{}, c.f.universe...), c.f.sentinel) {
		if lo := r.lookup(e); lo != want[e.Name] {
			diffs = append(diffs, fmt.Sprintf("%s: etcd owner %q, LookupOwner says %q", e.Name, want[e.Name], lo))
		}
	}
	if len(diffs) > 0 {
		sort.Strings(diffs)
		return fmt.Sprintf("%s%s routing table differs from etcd after quiescence: %v; history=%+v", prefix, c.f.name, diffs, c.hist), nil
	}
	return "", nil
}

// ---------------------------------------------------------------- generator

func c20Writes(rt *rapid.T, n int, label string, max int) []c20Op {
	k := rapid.IntRange(0, max).Draw(rt, label+"N")
	out := make([]c20Op, 0, k)
	for i := 0; i < k; i++ {
		kinds := []string{"one", "one", "one", "one", "txn", "txn", "lease-put", "lease-put", "revoke", "revoke"}
		if strings.HasPrefix(label, "live") || strings.HasPrefix(label, "outage") {
			kinds = append(kinds, "proxy-send", "proxy-send", "proxy-reply", "proxy-reply", "proxy-handover", "proxy-handover", "proxy-handover")
		}
		kind := rapid.SampledFrom(kinds).Draw(rt, label+"Kind")
		if strings.HasPrefix(kind, "proxy") {
			{
				// send targets any key; a reply goes to a request under way (drawn key, no-op if none)
				out = append(out, c20Op{Kind: kind, Items: [][2]int{{rapid.IntRange(0, n-1).Draw(rt, label+"ProxyKey"), rapid.IntRange(0, 2).Draw(rt, label+"ProxyAny")}}})
				continue
			}
		}
		op := c20Op{Kind: kind}
		items := 1
		if kind == "txn" || kind == "lease-put" {
			items = rapid.IntRange(2, 3).Draw(rt, label+"Items")
		}
		if kind == "revoke" {
			items = 0
		}
		used := map[int]bool{}
		for j := 0; j < items; j++ {
			e := rapid.IntRange(0, n-1).Draw(rt, label+"Key")
			if used[e] {
				continue // one revision cannot touch a key twice
			}
			used[e] = true
			// value 0 = delete (1 in 4), else broker id
			v := rapid.IntRange(0, 3).Draw(rt, label+"Val")
			op.Items = append(op.Items, [2]int{e, v})
		}
		if items > 0 && len(op.Items) == 0 {
			continue
		}
		if len(op.Items) == 1 && kind == "txn" {
			op.Kind = "one"
		}
		out = append(out, op)
	}
	return out
}

func c20One(key, val int) c20Op { return c20Op{Kind: "one", Items: [][2]int{{key, val}}} }

func c20Property(t *testing.T, leg string, f c20Flavour) {
	st := vfkit.NewStats("C20", leg)
	defer st.Flush()
	env := c20NewEnv(t)
	knownGap := vfkit.Known(c20Finding)
	known := vfkit.Known(c20FindingInvalidate)
	rapid.Check(t, func(rt *rapid.T) {
		st.Eval()
		n := len(f.universe)
		var p c20Plan
		p.Pre = c20Writes(rt, n, "pre", 4)
		p.Gap1 = c20Writes(rt, n, "gap1", 2)
		p.Live1 = c20Writes(rt, n, "live1", 6)
		// 1 case in 4: more than one page (1000) of leases exists; if the router reads the table in
		// several reads, some of the first keys change hands between two of them
		if rapid.IntRange(0, 3).Draw(rt, "bulk") == 2 {
			p.Bulk = 1001 + rapid.IntRange(0, 40).Draw(rt, "bulkExtra")
			for i, k := 0, rapid.IntRange(1, 2).Draw(rt, "betweenN"); i < k; i++ {
				p.Between = append(p.Between, c20Op{Kind: "bulk", Items: [][2]int{{rapid.IntRange(0, 3).Draw(rt, "bulkKey"), rapid.IntRange(0, 3).Draw(rt, "bulkVal")}}})
			}
		}
		// a cut costs 1 s of real sleep inside the router: ration them (about 1 case in 5)
		p.Cut = rapid.IntRange(0, 5).Draw(rt, "cut") == 3
		if p.Cut {
			p.Outage = c20Writes(rt, n, "outage", 3)
			p.Gap2 = c20Writes(rt, n, "gap2", 2)
			p.Live2 = c20Writes(rt, n, "live2", 3)
			p.Compact = rapid.Bool().Draw(rt, "compact")
			if p.Compact {
				// compaction is interesting together with reload reads that fail and with several
				// changes during the outage
				p.FailReloads = rapid.SampledFrom([]int{0, 1, 2, 2, 2}).Draw(rt, "failReloads")
				p.Outage = append(p.Outage, c20Writes(rt, n, "outageMore", 3)...)
				for len(p.Outage) < 2 {
					p.Outage = append(p.Outage, c20One(rapid.IntRange(0, n-1).Draw(rt, "outageKey"), rapid.IntRange(0, 3).Draw(rt, "outageVal")))
				}
			} else {
				p.FailReloads = rapid.SampledFrom([]int{0, 0, 1, 1, 2}).Draw(rt, "failReloads")
			}
			p.SecondCut = rapid.IntRange(0, 5).Draw(rt, "cut2") == 3
			if p.SecondCut {
				p.Outage2 = c20Writes(rt, n, "outage2", 2)
				p.Live3 = c20Writes(rt, n, "live3", 2)
				p.FailReloads2 = rapid.IntRange(0, 1).Draw(rt, "failReloads2")
			}
		}
		if knownGap && (len(p.Gap1) > 0 || len(p.Gap2) > 0) {
			// listed finding: a change between loadAll's read and the start of the watch is never
			// observed. Exclude exactly those writes (they are moved to just before the load).
			st.ExcludedCase(c20Finding)
			p.Pre = append(p.Pre, p.Gap1...)
			p.Outage = append(p.Outage, p.Gap2...)
			p.Gap1, p.Gap2 = nil, nil
		}
		c, done := env.newCase(f)
		defer done()
		c.known = known
		v, err := c.run(p)
		if err != nil {
			fmt.Println("VF-INCONCLUSIVE:", err)
			rt.Fatalf("inconclusive: %v", err)
		}
		if v != "" {
			rt.Fatalf("%s", v)
		}
		// statistics
		touchedLoaded := false
		loaded := map[int]bool{}
		for _, op := range p.Pre {
			for _, w := range op.Items {
				loaded[w[0]] = true
			}
		}
		for _, op := range p.Live1 {
			if strings.HasPrefix(op.Kind, "proxy") {
				continue
			}
			for _, w := range op.Items {
				if loaded[w[0]] {
					touchedLoaded = true
				}
			}
			if op.Kind == "revoke" {
				touchedLoaded = true
			}
		}
		nt := false
		if len(p.Gap1)+len(p.Gap2) > 0 {
			st.Class("write-in-gap-between-load-and-watch")
			nt = true
		}
		if p.Cut {
			st.Class("stream-cut")
			if len(p.Outage)+len(p.Outage2) > 0 {
				st.Class("write-during-outage")
				nt = true
			}
		}
		if p.SecondCut {
			st.Class("second-cut")
		}
		if c.failedReload {
			st.Class("reload-read-failed-after-a-cut")
			nt = true
		}
		if p.Bulk > 0 {
			st.Class("more-than-1000-leases")
		}
		if c.betweenDone {
			st.Class("write-between-two-reads-of-one-load(paged load)")
		}
		if c.compacted {
			st.Class("etcd-compacted-during-outage")
			nt = true
		}
		if c.invalidated {
			st.Class("proxy-invalidates-a-route-after-NOT_LEADER")
			nt = true
		}
		if c.staleInvalidate {
			st.Class("invalidate-after-the-table-had-moved-on")
		}
		if c.excludedInv {
			st.ExcludedCase(c20FindingInvalidate)
		}
		if c.streamRefused {
			st.Class("resumed-watch-refused(compacted)")
		}
		if touchedLoaded {
			st.Class("watched-change-of-a-loaded-route")
			nt = true
		}
		if c.multi {
			st.Class("several-lease-keys-changed-in-one-revision")
			nt = true
		}
		if c.multiRevoke {
			st.Class("lease-holding-several-keys-revoked")
			nt = true
		}
		for _, w := range c.hist {
			if w.Val == "" {
				st.Class("op-delete")
			} else {
				st.Class("op-put")
			}
		}
		if nt {
			if st.NonTrivial(f.name, fmt.Sprintf("%+v", c.hist)) {
				st.Sample(map[string]any{"flavour": f.name, "history": c.hist})
			}
		} else {
			st.Class("trivial")
		}
	})
}

func TestVF_C20_Partition(t *testing.T) { c20Property(t, "partition", c20PartitionFlavour()) }
func TestVF_C20_Group(t *testing.T)     { c20Property(t, "group", c20GroupFlavour()) }

// ---------------------------------------------------------------- witness

func TestVF_C20_Witness(t *testing.T) {
	st := vfkit.NewStats("C20", "witness")
	defer st.Flush()
	env := c20NewEnv(t)
	var all []string
	for _, f := range []c20Flavour{c20PartitionFlavour(), c20GroupFlavour()} {
		for _, afterCut := range []bool{false, true} {
			st.Eval()
			// owner "0" loaded, changes to "1" in the gap between the load and the watch; nothing else happens
			p := c20Plan{Pre: []c20Op{c20One(0, 1)}, Gap1: []c20Op{c20One(0, 2)}}
			if afterCut {
				p = c20Plan{Pre: []c20Op{c20One(0, 1)}, Cut: true, Gap2: []c20Op{c20One(0, 0), c20One(1, 3)}}
			}
			c, done := env.newCase(f)
			v, err := c.run(p)
			done()
			if err != nil {
				fmt.Println("VF-INCONCLUSIVE:", err)
				t.Fatalf("inconclusive: %v", err)
			}
			st.Class(fmt.Sprintf("witness-%s-afterCut=%v-violation=%v", f.name, afterCut, v != ""))
			if v != "" {
				st.NonTrivial(f.name, afterCut)
				st.Sample(map[string]any{"flavour": f.name, "after_reconnect": afterCut, "violation": v})
				all = append(all, v)
			}
		}
	}
	what := "a lease change between loadAll's read and the start of the watch is never observed"
	if len(all) > 0 {
		what = all[0]
	}
	st.KnownResult(c20Finding, len(all) > 0, what)

	// Invalidate after the table has already moved on: a owns key 0 and the proxy forwards a
	// request to a; a hands over to b and the watch updates the table; a's NOT_LEADER answer
	// arrives and the proxy invalidates the key; no further lease change.
	var inv []string
	for _, f := range []c20Flavour{c20PartitionFlavour(), c20GroupFlavour()} {
		st.Eval()
		p := c20Plan{Pre: []c20Op{c20One(0, 1)}, Live1: []c20Op{
			{Kind: "proxy-send", Items: [][2]int{{0, 0}}},
			c20One(0, 2),
			{Kind: "proxy-reply", Items: [][2]int{{0, 0}}},
		}}
		c, done := env.newCase(f)
		v, err := c.run(p)
		done()
		if err != nil {
			fmt.Println("VF-INCONCLUSIVE:", err)
			t.Fatalf("inconclusive: %v", err)
		}
		st.Class(fmt.Sprintf("witness-invalidate-%s-violation=%v", f.name, v != ""))
		if v != "" {
			st.NonTrivial("invalidate", f.name)
			st.Sample(map[string]any{"flavour": f.name, "violation": v})
			inv = append(inv, v)
		}
	}
	whatInv := "Invalidate after the watch already moved the table on removes the current owner's route"
	if len(inv) > 0 {
		whatInv = inv[0]
	}
	st.KnownResult(c20FindingInvalidate, len(inv) > 0, whatInv)
}
