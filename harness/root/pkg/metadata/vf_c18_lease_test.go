//go:build verif

package metadata

// C18: a partition or group lease has at most one live owner, for every interleaving of
// acquire / release / releaseAll / session expiry / crash+restart at etcd-operation
// granularity.
//
// 2-3 real LeaseManagers (through PartitionLeaseManager or GroupLeaseManager) run against
// one embedded etcd. Each manager talks through a clientv3.Client whose KV and Lease
// interfaces are wrapped: every KV call parks before it is sent ("pre") and again after
// the answer arrived ("post"); Grant/Revoke park before they are sent. A rapid-drawn plan
// decides which parked call proceeds next or which operation is started next, so the whole
// execution is a function of the drawn values (real time never decides anything).
//
// Oracle (only what the statement says):
//  (1) at every quiescent point at most one live manager has Owns(r)==true;
//  (3) a Release by X never deletes a key that holds another broker's id;
//  (2->1) if a manager owns r while the etcd key is absent, a fresh "probe" broker tries
//      to acquire r; if it succeeds while the first still believes it owns r, that is a
//      witnessed double ownership (1). Owner/key mismatches that cannot be turned into (1)
//      are only counted.

import (
	"context"
	"errors"
	"fmt"
	"io"
	"log/slog"
	"os"
	"sort"
	"strings"
	"sync"
	"sync/atomic"
	"testing"
	"time"

	pb "go.etcd.io/etcd/api/v3/etcdserverpb"
	clientv3 "go.etcd.io/etcd/client/v3"
	"go.etcd.io/etcd/client/v3/concurrency"
	"go.etcd.io/etcd/client/v3/namespace"
	"pgregory.net/rapid"
	"verif.local/vfkit"

	"github.com/KafScale/platform/internal/testutil"
	"github.com/KafScale/platform/pkg/protocol"
)

const c18Finding = "C18-stale-release-delete"

var (
	errC18Crashed      = errors.New("vf c18: process crashed, call never returns to it")
	errC18Inconclusive = errors.New("vf c18: harness could not reach quiescence / etcd unavailable")
)

// ---------------------------------------------------------------- gates

type c18Gate struct {
	id      int
	mgr     *c18Mgr
	kind    string // txn-create txn-value txn delete get put grant revoke
	phase   string // pre post
	key     string // un-namespaced etcd key ("" for lease calls)
	ch      chan struct{}
	err     error // set when the call is abandoned because its process crashed
	deleted int64 // delete/post: number of keys removed
	txnOK   bool  // txn/post: Succeeded
	callErr bool  // post: the etcd call returned an error
}

func (g *c18Gate) label() string {
	return fmt.Sprintf("%s.%d:%s/%s:%s", g.mgr.id, g.mgr.gen, g.kind, g.phase, c18ShortKey(g.key))
}

// c18IsDel: the call removes a lease key (Release's plain Delete, or its guarded delete txn).
func c18IsDel(g *c18Gate) bool { return g.kind == "delete" || g.kind == "txn-delete" }

// c18IsWrite: the call may (re)write a lease key (acquire / reacquire, txn or plain put).
func c18IsWrite(g *c18Gate) bool {
	return g.kind == "txn-create" || g.kind == "txn-value" || g.kind == "txn-put" || g.kind == "put"
}

func c18ShortKey(k string) string {
	if i := strings.LastIndex(k, "leases/"); i >= 0 {
		return k[i+len("leases/"):]
	}
	return k
}

type c18World struct {
	mu       sync.Mutex
	cond     *sync.Cond
	active   int
	parked   []*c18Gate
	nextGate int
	stuck    bool
	panicMsg string
	trace    []string

	kind     string // "partition" | "group"
	pfx      string
	bases    []*clientv3.Client
	adminCli *clientv3.Client
	adminKV  clientv3.KV
	mgrs     []*c18Mgr // live manager per slot
	zombies  []*c18Mgr // superseded processes (same broker id as their slot's current manager) that still run
	dead     []*c18Mgr
	allGrant []clientv3.LeaseID
	known    bool
	st       *vfkit.Stats

	// per-case observations
	excluded       bool
	contended      bool
	staleWinNoPut  bool
	staleWinPut    bool
	postGateExpire bool
	mismatchOther  int
	unnoticed      bool
	overtaken      bool
	rotated        bool
	sessionRaced   bool
	disconnected   bool

	adminStore       *EtcdStore
	adminStoreCancel context.CancelFunc
	topicDeletes     int
}

type c18Mgr struct {
	w      *c18World
	slot   int
	id     string
	gen    int
	dead   atomic.Bool
	cancel context.CancelFunc
	plm    *PartitionLeaseManager
	glm    *GroupLeaseManager
	grants []clientv3.LeaseID
	inAcq  map[int]bool // resource -> an Acquire is in flight (singleflight would merge a second one)
	inRel  map[int]bool
	closed bool // ReleaseAll was called
	unnoticed bool // did not let go of an ended session within 5 s (see awaitNoticed)
	reqCancels []context.CancelFunc // contexts of finished Acquire calls, still alive
}

func (m *c18Mgr) lm() *LeaseManager {
	if m.plm != nil {
		return m.plm.lm
	}
	return m.glm.lm
}

func (w *c18World) key(r int) string {
	if w.kind == "partition" {
		return partitionLeaseKey("orders", int32(r))
	}
	return fmt.Sprintf("%s/g%d", groupLeasePrefix, r)
}

func (m *c18Mgr) owns(r int) bool {
	if m.plm != nil {
		return m.plm.Owns("orders", int32(r))
	}
	return m.glm.Owns(fmt.Sprintf("g%d", r))
}

// acquire runs under its own cancellable context (in the broker: the connection's context);
// the context stays alive after the call and is cancelled by a later "client disconnects".
func (m *c18Mgr) acquire(r int) error {
	ctx, cancel := context.WithCancel(context.Background())
	defer func() {
		m.w.mu.Lock()
		m.reqCancels = append(m.reqCancels, cancel)
		m.w.mu.Unlock()
	}()
	if m.plm != nil {
		return m.plm.Acquire(ctx, "orders", int32(r))
	}
	return m.glm.Acquire(ctx, fmt.Sprintf("g%d", r))
}

// disconnect cancels the contexts of this manager's finished Acquire calls.
func (m *c18Mgr) disconnect() int {
	m.w.mu.Lock()
	cs := m.reqCancels
	m.reqCancels = nil
	m.w.mu.Unlock()
	for _, c := range cs {
		c()
	}
	return len(cs)
}

func (m *c18Mgr) release(r int) {
	if m.plm != nil {
		m.plm.Release("orders", int32(r))
		return
	}
	m.glm.Release(fmt.Sprintf("g%d", r))
}

func (m *c18Mgr) releaseAll() {
	if m.plm != nil {
		m.plm.ReleaseAll()
		return
	}
	m.glm.ReleaseAll()
}

// gate parks the calling operation goroutine until the controller lets it continue.
func (m *c18Mgr) gate(kind, phase, key string, fill func(*c18Gate)) error {
	w := m.w
	g := &c18Gate{mgr: m, kind: kind, phase: phase, key: key, ch: make(chan struct{})}
	if fill != nil {
		fill(g)
	}
	w.mu.Lock()
	if m.dead.Load() {
		w.mu.Unlock()
		return errC18Crashed
	}
	g.id = w.nextGate
	w.nextGate++
	w.parked = append(w.parked, g)
	w.active--
	w.cond.Broadcast()
	w.mu.Unlock()
	<-g.ch
	return g.err
}

func (w *c18World) waitQuiet() error {
	timer := time.AfterFunc(90*time.Second, func() {
		w.mu.Lock()
		w.stuck = true
		w.cond.Broadcast()
		w.mu.Unlock()
	})
	defer timer.Stop()
	w.mu.Lock()
	defer w.mu.Unlock()
	for w.active > 0 && !w.stuck {
		w.cond.Wait()
	}
	if w.stuck {
		return errC18Inconclusive
	}
	return nil
}

// launch starts one operation in its own goroutine and waits until it parks or returns.
func (w *c18World) launch(fn func()) error {
	w.mu.Lock()
	w.active++
	w.mu.Unlock()
	go func() {
		defer func() {
			r := recover()
			w.mu.Lock()
			if r != nil && w.panicMsg == "" {
				w.panicMsg = fmt.Sprint(r)
			}
			w.active--
			w.cond.Broadcast()
			w.mu.Unlock()
		}()
		fn()
	}()
	return w.waitQuiet()
}

func (w *c18World) parkedNow() []*c18Gate {
	w.mu.Lock()
	defer w.mu.Unlock()
	out := make([]*c18Gate, len(w.parked))
	copy(out, w.parked)
	return out
}

func (w *c18World) unpark(g *c18Gate, err error) {
	w.mu.Lock()
	for i, q := range w.parked {
		if q == g {
			w.parked = append(w.parked[:i], w.parked[i+1:]...)
			break
		}
	}
	w.active++
	w.mu.Unlock()
	g.err = err
	close(g.ch)
}

// ---------------------------------------------------------------- gated etcd client

type c18KV struct {
	m     *c18Mgr
	inner clientv3.KV
}

func c18Ctx() (context.Context, context.CancelFunc) {
	// The code under test arms 5 s timeouts before the call; while a call is parked real
	// time passes, so the wrapper uses its own generous deadline: wall-clock time must
	// not decide the outcome of a schedule.
	return context.WithTimeout(context.Background(), 60*time.Second)
}

func (k *c18KV) Put(_ context.Context, key, val string, opts ...clientv3.OpOption) (*clientv3.PutResponse, error) {
	if err := k.m.gate("put", "pre", key, nil); err != nil {
		return nil, err
	}
	ctx, cancel := c18Ctx()
	resp, err := k.inner.Put(ctx, key, val, opts...)
	cancel()
	if gerr := k.m.gate("put", "post", key, func(g *c18Gate) { g.callErr = err != nil; g.txnOK = err == nil }); gerr != nil {
		return nil, gerr
	}
	return resp, err
}

func (k *c18KV) Get(_ context.Context, key string, opts ...clientv3.OpOption) (*clientv3.GetResponse, error) {
	if err := k.m.gate("get", "pre", key, nil); err != nil {
		return nil, err
	}
	ctx, cancel := c18Ctx()
	resp, err := k.inner.Get(ctx, key, opts...)
	cancel()
	if gerr := k.m.gate("get", "post", key, func(g *c18Gate) { g.callErr = err != nil }); gerr != nil {
		return nil, gerr
	}
	return resp, err
}

func (k *c18KV) Delete(_ context.Context, key string, opts ...clientv3.OpOption) (*clientv3.DeleteResponse, error) {
	if err := k.m.gate("delete", "pre", key, nil); err != nil {
		return nil, err
	}
	ctx, cancel := c18Ctx()
	resp, err := k.inner.Delete(ctx, key, opts...)
	cancel()
	if gerr := k.m.gate("delete", "post", key, func(g *c18Gate) {
		g.callErr = err != nil
		if resp != nil {
			g.deleted = resp.Deleted
		}
	}); gerr != nil {
		return nil, gerr
	}
	return resp, err
}

func (k *c18KV) Compact(ctx context.Context, rev int64, opts ...clientv3.CompactOption) (*clientv3.CompactResponse, error) {
	return k.inner.Compact(ctx, rev, opts...)
}

func (k *c18KV) Do(ctx context.Context, op clientv3.Op) (clientv3.OpResponse, error) {
	return k.inner.Do(ctx, op)
}

func (k *c18KV) Txn(_ context.Context) clientv3.Txn { return &c18Txn{k: k} }

type c18Txn struct {
	k     *c18KV
	cmps  []clientv3.Cmp
	thens []clientv3.Op
	elses []clientv3.Op
}

func (t *c18Txn) If(cs ...clientv3.Cmp) clientv3.Txn   { t.cmps = append(t.cmps, cs...); return t }
func (t *c18Txn) Then(ops ...clientv3.Op) clientv3.Txn { t.thens = append(t.thens, ops...); return t }
func (t *c18Txn) Else(ops ...clientv3.Op) clientv3.Txn { t.elses = append(t.elses, ops...); return t }

func (t *c18Txn) Commit() (*clientv3.TxnResponse, error) {
	// classified by what the transaction can do, then by how it is guarded
	kind, key := "txn", ""
	if len(t.cmps) > 0 {
		key = string(t.cmps[0].KeyBytes())
	}
	isDel, isPut := false, false
	for _, op := range t.thens {
		if op.IsDelete() {
			isDel = true
			key = string(op.KeyBytes())
		}
		if op.IsPut() {
			isPut = true
			key = string(op.KeyBytes())
		}
	}
	switch {
	case isDel:
		kind = "txn-delete"
	case isPut && len(t.cmps) > 0 && t.cmps[0].Target == pb.Compare_CREATE:
		kind = "txn-create"
	case isPut && len(t.cmps) > 0 && t.cmps[0].Target == pb.Compare_VALUE:
		kind = "txn-value"
	case isPut:
		kind = "txn-put"
	}
	if err := t.k.m.gate(kind, "pre", key, nil); err != nil {
		return nil, err
	}
	ctx, cancel := c18Ctx()
	x := t.k.inner.Txn(ctx)
	if len(t.cmps) > 0 {
		x = x.If(t.cmps...)
	}
	if len(t.thens) > 0 {
		x = x.Then(t.thens...)
	}
	if len(t.elses) > 0 {
		x = x.Else(t.elses...)
	}
	resp, err := x.Commit()
	cancel()
	if gerr := t.k.m.gate(kind, "post", key, func(g *c18Gate) {
		g.callErr = err != nil
		g.txnOK = resp != nil && resp.Succeeded
		if resp != nil && resp.Succeeded {
			for _, r := range resp.Responses {
				if d := r.GetResponseDeleteRange(); d != nil {
					g.deleted += d.Deleted
				}
			}
		}
	}); gerr != nil {
		return nil, gerr
	}
	return resp, err
}

type c18Lease struct {
	clientv3.Lease
	m *c18Mgr
}

func (l *c18Lease) Grant(_ context.Context, ttl int64) (*clientv3.LeaseGrantResponse, error) {
	if err := l.m.gate("grant", "pre", "", nil); err != nil {
		return nil, err
	}
	ctx, cancel := c18Ctx()
	defer cancel()
	resp, err := l.Lease.Grant(ctx, ttl)
	if err == nil {
		l.m.w.mu.Lock()
		l.m.grants = append(l.m.grants, resp.ID)
		l.m.w.allGrant = append(l.m.w.allGrant, resp.ID)
		l.m.w.mu.Unlock()
	}
	return resp, err
}

func (l *c18Lease) Revoke(_ context.Context, id clientv3.LeaseID) (*clientv3.LeaseRevokeResponse, error) {
	if err := l.m.gate("revoke", "pre", "", nil); err != nil {
		return nil, err
	}
	ctx, cancel := c18Ctx()
	resp, err := l.Lease.Revoke(ctx, id)
	cancel()
	// the lease (and every key on it) is gone on the server; the caller does not know yet
	if gerr := l.m.gate("revoke", "post", "", func(g *c18Gate) { g.callErr = err != nil }); gerr != nil {
		return nil, gerr
	}
	return resp, err
}

func (l *c18Lease) Close() error { return nil } // the underlying lessor is shared

// ---------------------------------------------------------------- world

var c18Quiet = slog.New(slog.NewTextHandler(io.Discard, nil))

func (w *c18World) newMgr(slot, gen int) *c18Mgr {
	m := &c18Mgr{w: w, slot: slot, id: fmt.Sprintf("b%d", slot), gen: gen, inAcq: map[int]bool{}, inRel: map[int]bool{}}
	base := w.bases[slot]
	ctx, cancel := context.WithCancel(context.Background())
	cli := clientv3.NewCtxClient(ctx)
	cli.KV = &c18KV{m: m, inner: namespace.NewKV(base.KV, w.pfx)}
	cli.Lease = &c18Lease{Lease: base.Lease, m: m}
	cli.Watcher = namespace.NewWatcher(base.Watcher, w.pfx)
	m.cancel = cancel
	if w.kind == "partition" {
		m.plm = NewPartitionLeaseManager(cli, PartitionLeaseConfig{BrokerID: m.id, LeaseTTLSeconds: 60, Logger: c18Quiet})
	} else {
		m.glm = NewGroupLeaseManager(cli, GroupLeaseConfig{BrokerID: m.id, LeaseTTLSeconds: 60, Logger: c18Quiet})
	}
	return m
}

func (w *c18World) readKeys() (map[string]string, error) {
	ctx, cancel := c18Ctx()
	defer cancel()
	resp, err := w.adminKV.Get(ctx, "/kafscale/", clientv3.WithPrefix())
	if err != nil {
		return nil, fmt.Errorf("%w: admin get: %v", errC18Inconclusive, err)
	}
	out := map[string]string{}
	for _, kv := range resp.Kvs {
		out[string(kv.Key)] = string(kv.Value)
	}
	return out, nil
}

// eligible implements the exclusion of the listed finding: while a Release's delete for
// key k has not been sent yet, a transaction that would (re)write k is not let through.
func (w *c18World) eligible(g *c18Gate, parked []*c18Gate, keys map[string]string) bool {
	if !w.known || g.phase != "pre" || !c18IsWrite(g) {
		return true
	}
	pending := false
	for _, h := range parked {
		if h != g && c18IsDel(h) && h.phase == "pre" && h.key == g.key {
			pending = true
		}
	}
	if !pending {
		return true
	}
	val, present := keys[g.key]
	wouldPut := (g.kind == "txn-create" && !present) || (g.kind == "txn-value" && present && val == g.mgr.id) || g.kind == "put" || g.kind == "txn-put"
	if wouldPut {
		w.excluded = true
		return false
	}
	return true
}

func (w *c18World) eligibleNow() ([]*c18Gate, error) {
	parked := w.parkedNow()
	if len(parked) == 0 {
		return nil, nil
	}
	var keys map[string]string
	if w.known {
		var err error
		if keys, err = w.readKeys(); err != nil {
			return nil, err
		}
	}
	var out []*c18Gate
	for _, g := range parked {
		if w.eligible(g, parked, keys) {
			out = append(out, g)
		}
	}
	return out, nil
}

// step lets one parked call proceed; returns a violation text ("" if none).
func (w *c18World) step(g *c18Gate) (string, error) {
	parked := w.parkedNow()
	for _, h := range parked {
		if h != g && h.key != "" && h.key == g.key {
			w.contended = true
		}
	}
	var preVal string
	var prePresent bool
	if c18IsDel(g) && g.phase == "pre" {
		keys, err := w.readKeys()
		if err != nil {
			return "", err
		}
		preVal, prePresent = keys[g.key]
	}
	w.mu.Lock()
	w.trace = append(w.trace, g.label())
	w.mu.Unlock()
	w.unpark(g, nil)
	if err := w.waitQuiet(); err != nil {
		return "", err
	}
	if w.panicMsg != "" {
		return "panic in lease manager: " + w.panicMsg, nil
	}
	now := w.parkedNow()
	if c18IsWrite(g) && g.phase == "pre" {
		// the write has been executed; was a Release's delete for the same key waiting?
		for _, h := range now {
			if c18IsDel(h) && h.phase == "pre" && h.key == g.key {
				put := false
				for _, p := range now {
					if p.mgr == g.mgr && p.kind == g.kind && p.phase == "post" && p.key == g.key && p.txnOK {
						put = true
					}
				}
				if put {
					w.staleWinPut = true
				} else {
					w.staleWinNoPut = true
				}
			}
		}
	}
	if c18IsDel(g) && g.phase == "pre" && prePresent && preVal != g.mgr.id {
		for _, p := range now {
			if p.mgr == g.mgr && p.kind == g.kind && p.phase == "post" && p.key == g.key && p.deleted > 0 {
				return fmt.Sprintf("Release by %s deleted lease key %s that held broker id %q (a lease another broker has since acquired)",
					g.mgr.id, g.key, preVal), nil
			}
		}
	}
	return "", nil
}

// check evaluates the ownership invariant at a quiescent point.
func (w *c18World) check(nres int) (string, error) {
	keys, err := w.readKeys()
	if err != nil {
		return "", err
	}
	for r := 0; r < nres; r++ {
		var owners []*c18Mgr
		for _, m := range w.mgrs {
			if m.owns(r) {
				owners = append(owners, m)
			}
		}
		if len(owners) > 1 {
			var still []*c18Mgr
			for _, m := range owners {
				if w.stillOwnsAfterGrace(m, r) {
					still = append(still, m)
				}
			}
			if len(still) < 2 {
				return "", fmt.Errorf("%w: a manager dropped its ownership only after seconds", errC18Inconclusive)
			}
			ids := []string{}
			for _, m := range owners {
				ids = append(ids, fmt.Sprintf("%s(gen %d)", m.id, m.gen))
			}
			return fmt.Sprintf("two live brokers believe they own %s: %v (etcd key holds %q)", w.key(r), ids, keys[w.key(r)]), nil
		}
		if len(owners) == 1 {
			val, present := keys[w.key(r)]
			if present && val != owners[0].id {
				w.mismatchOther++
			}
			if !present {
				// the owner's key is gone: any other broker may now take the lease
				ok, perr := w.probe(r)
				if perr != nil {
					return "", perr
				}
				if ok && w.stillOwnsAfterGrace(owners[0], r) {
					return fmt.Sprintf("two live brokers believe they own %s: %s still reports Owns()==true although its etcd key had vanished, and a fresh broker acquired the lease",
						w.key(r), owners[0].id), nil
				}
			}
		}
	}
	return "", nil
}

func (w *c18World) probe(r int) (bool, error) {
	ctx, cancel := context.WithCancel(context.Background())
	defer cancel()
	cli := clientv3.NewCtxClient(ctx)
	cli.KV = w.adminKV
	cli.Lease = &c18NoCloseLease{w.adminCli.Lease}
	var err error
	var rel func()
	if w.kind == "partition" {
		p := NewPartitionLeaseManager(cli, PartitionLeaseConfig{BrokerID: "probe", LeaseTTLSeconds: 60, Logger: c18Quiet})
		err = p.Acquire(context.Background(), "orders", int32(r))
		rel = p.ReleaseAll
	} else {
		p := NewGroupLeaseManager(cli, GroupLeaseConfig{BrokerID: "probe", LeaseTTLSeconds: 60, Logger: c18Quiet})
		err = p.Acquire(context.Background(), fmt.Sprintf("g%d", r))
		rel = p.ReleaseAll
	}
	defer rel()
	if err == nil {
		return true, nil
	}
	if errors.Is(err, ErrNotOwner) {
		return false, nil
	}
	return false, fmt.Errorf("%w: probe acquire: %v", errC18Inconclusive, err)
}

type c18NoCloseLease struct{ clientv3.Lease }

func (c18NoCloseLease) Close() error { return nil }

// expire makes the manager's etcd lease disappear on the server (what TTL expiry does) and
// ends the client-side keep-alive stream, then waits until the manager has noticed
// (assumption of the property: a broker notices the loss of its session before another
// broker is scheduled; the clock-skew window of any lease scheme is not counted).
func (w *c18World) expire(m *c18Mgr) (bool, error) {
	lm := m.lm()
	lm.mu.RLock()
	sess := lm.session
	lm.mu.RUnlock()
	if sess == nil {
		return false, nil
	}
	for _, g := range w.parkedNow() {
		if g.mgr == m && g.phase == "post" && c18IsWrite(g) {
			w.postGateExpire = true
		}
	}
	ctx, cancel := c18Ctx()
	_, err := w.adminCli.Revoke(ctx, sess.Lease())
	cancel()
	if err != nil && !strings.Contains(err.Error(), "lease not found") {
		return false, fmt.Errorf("%w: revoke: %v", errC18Inconclusive, err)
	}
	sess.Orphan()
	w.awaitNoticed(m, sess)
	w.trace = append(w.trace, fmt.Sprintf("expire(%s.%d)", m.id, m.gen))
	return true, nil
}

// awaitNoticed waits until the manager has let go of the ended session (session.Done() is
// already closed; what remains is its own goroutine taking the manager's mutex, which needs
// microseconds). A manager that has not reacted after 5 s with the harness idle is recorded as
// "does not notice by itself"; nothing is concluded from that alone - only a later double
// ownership counts, and check() gives such a manager another 10 s before reporting it.
func (w *c18World) awaitNoticed(m *c18Mgr, sess *concurrency.Session) {
	lm := m.lm()
	deadline := time.Now().Add(5 * time.Second)
	for {
		lm.mu.RLock()
		cur := lm.session
		lm.mu.RUnlock()
		if cur != sess {
			return
		}
		if time.Now().After(deadline) {
			m.unnoticed = true
			w.unnoticed = true
			return
		}
		time.Sleep(50 * time.Microsecond)
	}
}

// stillOwnsAfterGrace: a manager flagged by awaitNoticed gets 10 more seconds to drop r.
func (w *c18World) stillOwnsAfterGrace(m *c18Mgr, r int) bool {
	if !m.unnoticed {
		return m.owns(r)
	}
	deadline := time.Now().Add(10 * time.Second)
	for m.owns(r) {
		if time.Now().After(deadline) {
			return true
		}
		time.Sleep(time.Millisecond)
	}
	return false
}

// expireOvertake is session loss with one specific order inside the manager: an Acquire of a
// resource the manager does not own yet reaches the manager's locked "is my session still
// alive" check BEFORE the session monitor goroutine gets the mutex. The harness holds a read
// lock on the manager's mutex, starts the Acquire and waits until it queues for the write
// lock (TryRLock fails while a writer is pending), then ends the session (lease revoked on
// the server, keep-alive stream ended) and lets go: writers get the mutex in arrival order.
func (w *c18World) expireOvertake(m *c18Mgr, r int) (bool, error) {
	lm := m.lm()
	lm.mu.RLock()
	sess := lm.session
	if sess == nil || m.inAcq[r] {
		lm.mu.RUnlock()
		return false, nil
	}
	done := make(chan struct{})
	m.inAcq[r] = true
	w.mu.Lock()
	w.active++
	w.mu.Unlock()
	go func() {
		defer func() {
			rec := recover()
			w.mu.Lock()
			if rec != nil && w.panicMsg == "" {
				w.panicMsg = fmt.Sprint(rec)
			}
			delete(m.inAcq, r)
			w.active--
			w.cond.Broadcast()
			w.mu.Unlock()
			close(done)
		}()
		_ = m.acquire(r)
	}()
	queued := false
	deadline := time.Now().Add(30 * time.Second)
wait:
	for time.Now().Before(deadline) {
		if lm.mu.TryRLock() {
			lm.mu.RUnlock()
		} else {
			queued = true
			break
		}
		select {
		case <-done:
			break wait
		default:
		}
		w.mu.Lock()
		a := w.active
		w.mu.Unlock()
		if a == 0 {
			break // parked at a gate or finished without reaching the write lock
		}
		time.Sleep(20 * time.Microsecond)
	}
	ctx, cancel := c18Ctx()
	_, err := w.adminCli.Revoke(ctx, sess.Lease())
	cancel()
	if err != nil && !strings.Contains(err.Error(), "lease not found") {
		lm.mu.RUnlock()
		_ = w.waitQuiet()
		return false, fmt.Errorf("%w: revoke: %v", errC18Inconclusive, err)
	}
	sess.Orphan()
	lm.mu.RUnlock()
	if err := w.waitQuiet(); err != nil {
		return false, err
	}
	w.awaitNoticed(m, sess)
	w.trace = append(w.trace, fmt.Sprintf("expire(%s.%d) with acquire(%d) overtaking the session monitor [queued=%v]", m.id, m.gen, r, queued))
	return queued, nil
}

// kill ends a broker process: in-flight calls never return to it, keep-alives stop, its etcd
// lease lingers until lapse.
func (w *c18World) kill(old *c18Mgr) error {
	w.mu.Lock()
	old.dead.Store(true)
	var mine []*c18Gate
	for _, g := range w.parked {
		if g.mgr == old {
			mine = append(mine, g)
		}
	}
	w.mu.Unlock()
	old.cancel()
	for _, g := range mine {
		w.unpark(g, errC18Crashed)
	}
	if err := w.waitQuiet(); err != nil {
		return err
	}
	w.dead = append(w.dead, old)
	return nil
}

// crashRestart kills the broker process in the slot and starts a new manager with the same
// broker id.
func (w *c18World) crashRestart(slot int) error {
	old := w.mgrs[slot]
	if err := w.kill(old); err != nil {
		return err
	}
	w.mgrs[slot] = w.newMgr(slot, old.gen+1)
	w.trace = append(w.trace, fmt.Sprintf("crash-restart(%s)", old.id))
	return nil
}

// takeover starts a replacement process with the same broker id while the old process is
// still alive (rescheduled pod, old one draining / partitioned but its etcd session healthy).
// The old process ("zombie") starts no new acquires; its pending releases continue and it may
// still call Release / ReleaseAll; it ends with zombieExit. Both instances are the same broker
// to the lease scheme, so the oracle looks at the slot's current instance only.
func (w *c18World) takeover(slot int) error {
	old := w.mgrs[slot]
	if len(old.inAcq) > 0 {
		return w.crashRestart(slot)
	}
	w.zombies = append(w.zombies, old)
	w.mgrs[slot] = w.newMgr(slot, old.gen+1)
	w.trace = append(w.trace, fmt.Sprintf("takeover(%s: gen %d keeps running, gen %d starts)", old.id, old.gen, old.gen+1))
	return nil
}

func (w *c18World) zombieExit(i int) error {
	z := w.zombies[i]
	w.zombies = append(w.zombies[:i], w.zombies[i+1:]...)
	w.trace = append(w.trace, fmt.Sprintf("old-process-exits(%s.%d)", z.id, z.gen))
	return w.kill(z)
}

// sessionRace: the manager's current session ends while ANOTHER Acquire of the same manager,
// which found no session earlier and is still creating its own (its Grant call g is parked),
// gets to the manager's second locked block before the session monitor does. The harness holds
// a read lock on the manager's mutex, lets the Grant through (the new session is created and
// the goroutine queues for the write lock), ends the current session, and lets go.
func (w *c18World) sessionRace(m *c18Mgr, g *c18Gate) (bool, error) {
	lm := m.lm()
	lm.mu.RLock()
	sess := lm.session
	if sess == nil {
		lm.mu.RUnlock()
		return false, nil
	}
	w.mu.Lock()
	w.trace = append(w.trace, g.label())
	w.mu.Unlock()
	w.unpark(g, nil)
	queued := false
	deadline := time.Now().Add(30 * time.Second)
	for time.Now().Before(deadline) {
		if lm.mu.TryRLock() {
			lm.mu.RUnlock()
		} else {
			queued = true
			break
		}
		w.mu.Lock()
		a := w.active
		w.mu.Unlock()
		if a == 0 {
			break
		}
		time.Sleep(20 * time.Microsecond)
	}
	ctx, cancel := c18Ctx()
	_, err := w.adminCli.Revoke(ctx, sess.Lease())
	cancel()
	if err == nil || strings.Contains(err.Error(), "lease not found") {
		sess.Orphan()
		err = nil
	}
	lm.mu.RUnlock()
	if werr := w.waitQuiet(); werr != nil {
		return false, werr
	}
	if err != nil {
		return false, fmt.Errorf("%w: revoke: %v", errC18Inconclusive, err)
	}
	w.awaitNoticed(m, sess)
	w.trace = append(w.trace, fmt.Sprintf("session of %s.%d ended while a concurrent acquire was installing its own session [queued before the monitor=%v]", m.id, m.gen, queued))
	return queued, nil
}

// adminDeleteTopic: an operator deletes (and re-creates) the topic the partition leases belong
// to, through a real EtcdStore on the same etcd. Topic administration is not lease
// administration: the owners' sessions live on, so their lease keys must survive.
func (w *c18World) adminDeleteTopic() error {
	ctx, cancel := c18Ctx()
	defer cancel()
	if w.adminStore == nil {
		cctx, ccancel := context.WithCancel(context.Background())
		w.adminStoreCancel = ccancel
		cli := clientv3.NewCtxClient(cctx)
		cli.KV = w.adminKV
		cli.Lease = &c18NoCloseLease{w.adminCli.Lease}
		w.adminStore = &EtcdStore{client: cli, available: 1, metadata: NewInMemoryStore(ClusterMetadata{
			Brokers: []protocol.MetadataBroker{{NodeID: 0, Host: "b0", Port: 9092}}})}
	}
	if _, err := w.adminStore.CreateTopic(ctx, TopicSpec{Name: "orders", NumPartitions: 2, ReplicationFactor: 1}); err != nil && !errors.Is(err, ErrTopicExists) {
		return fmt.Errorf("%w: admin CreateTopic: %v", errC18Inconclusive, err)
	}
	if err := w.adminStore.DeleteTopic(ctx, "orders"); err != nil {
		return fmt.Errorf("%w: admin DeleteTopic: %v", errC18Inconclusive, err)
	}
	w.topicDeletes++
	w.trace = append(w.trace, "admin: DeleteTopic(orders)")
	return nil
}

func (w *c18World) lapsePending() bool {
	for _, m := range w.dead {
		if len(m.grants) > 0 {
			return true
		}
	}
	return false
}

// lapse lets the etcd leases of crashed processes run out.
func (w *c18World) lapse() (int, error) {
	n := 0
	for _, m := range w.dead {
		for _, id := range m.grants {
			ctx, cancel := c18Ctx()
			_, err := w.adminCli.Revoke(ctx, id)
			cancel()
			if err == nil {
				n++
			} else if !strings.Contains(err.Error(), "lease not found") {
				return n, fmt.Errorf("%w: revoke: %v", errC18Inconclusive, err)
			}
		}
		m.grants = nil
	}
	w.trace = append(w.trace, "lapse-dead-leases")
	return n, nil
}

// finish lets every pending call run (FIFO, respecting the exclusion) and checks after each.
func (w *c18World) finish(nres int) (string, error) {
	for {
		el, err := w.eligibleNow()
		if err != nil {
			return "", err
		}
		if len(el) == 0 {
			if len(w.parkedNow()) != 0 {
				return "", fmt.Errorf("%w: parked calls but none eligible", errC18Inconclusive)
			}
			break
		}
		v, err := w.step(el[0])
		if err != nil || v != "" {
			return v, err
		}
		if v, err = w.check(nres); err != nil || v != "" {
			return v, err
		}
	}
	return w.check(nres)
}

func (w *c18World) cleanup() {
	// abandon whatever is still parked, stop the managers, drop leases and keys
	for _, m := range append(append([]*c18Mgr{}, w.mgrs...), w.zombies...) {
		m.dead.Store(true)
	}
	for _, g := range w.parkedNow() {
		w.unpark(g, errC18Crashed)
	}
	_ = w.waitQuiet()
	for _, m := range append(append(append([]*c18Mgr{}, w.mgrs...), w.dead...), w.zombies...) {
		m.cancel()
		m.disconnect()
	}
	if w.adminStoreCancel != nil {
		w.adminStoreCancel()
	}
	w.mu.Lock()
	ids := append([]clientv3.LeaseID{}, w.allGrant...)
	w.mu.Unlock()
	for _, id := range ids {
		ctx, cancel := context.WithTimeout(context.Background(), 10*time.Second)
		_, _ = w.adminCli.Revoke(ctx, id)
		cancel()
	}
	ctx, cancel := context.WithTimeout(context.Background(), 10*time.Second)
	_, _ = w.adminKV.Delete(ctx, "/", clientv3.WithPrefix())
	cancel()
}

// ---------------------------------------------------------------- environment (one etcd per test function)

type c18Env struct {
	bases []*clientv3.Client
	admin *clientv3.Client
	seq   int
}

func c18NewEnv(t *testing.T, slots int) *c18Env {
	endpoints := testutil.StartEmbeddedEtcd(t)
	mk := func() *clientv3.Client {
		cli, err := clientv3.New(clientv3.Config{Endpoints: endpoints, DialTimeout: 5 * time.Second})
		if err != nil {
			fmt.Println("VF-INCONCLUSIVE: cannot create etcd client:", err)
			t.Fatalf("etcd client: %v", err)
		}
		t.Cleanup(func() { _ = cli.Close() })
		return cli
	}
	e := &c18Env{admin: mk()}
	for i := 0; i < slots; i++ {
		e.bases = append(e.bases, mk())
	}
	ctx, cancel := context.WithTimeout(context.Background(), 20*time.Second)
	defer cancel()
	if _, err := e.admin.Get(ctx, "ping"); err != nil {
		fmt.Println("VF-INCONCLUSIVE: embedded etcd does not answer:", err)
		t.Fatalf("etcd ping: %v", err)
	}
	return e
}

func (e *c18Env) world(st *vfkit.Stats, kind string, nm int, known bool) *c18World {
	e.seq++
	w := &c18World{kind: kind, pfx: fmt.Sprintf("c18-%d-%d/", os.Getpid(), e.seq), bases: e.bases, adminCli: e.admin, known: known, st: st}
	w.cond = sync.NewCond(&w.mu)
	w.adminKV = namespace.NewKV(e.admin.KV, w.pfx)
	for i := 0; i < nm; i++ {
		w.mgrs = append(w.mgrs, w.newMgr(i, 0))
	}
	return w
}

// ---------------------------------------------------------------- the property

func c18Slow(mode string, g *c18Gate) bool {
	switch mode {
	case "delete":
		return c18IsDel(g) && g.phase == "pre"
	case "rewrite":
		// the second step of a re-acquire (guarded txn or plain put on a key that already exists)
		return (g.kind == "txn-value" || g.kind == "put" || g.kind == "txn-put") && g.phase == "pre"
	case "post":
		return g.phase == "post"
	case "b0":
		return g.mgr.slot == 0
	case "txn-pre":
		return c18IsWrite(g) && g.phase == "pre"
	}
	return false
}

type c18Sample struct {
	Kind     string   `json:"kind"`
	Managers int      `json:"managers"`
	Ops      []string `json:"ops"`
	Trace    []string `json:"trace"`
}

func TestVF_C18_Schedules(t *testing.T) {
	st := vfkit.NewStats("C18", "schedules")
	defer st.Flush()
	env := c18NewEnv(t, 3)
	known := vfkit.Known(c18Finding)
	st.Note("assumption", "session expiry is noticed by the owning broker before another broker is scheduled")
	rapid.Check(t, func(rt *rapid.T) {
		st.Eval()
		kind := rapid.SampledFrom([]string{"partition", "group"}).Draw(rt, "kind")
		nm := rapid.IntRange(2, 3).Draw(rt, "managers")
		nres := rapid.SampledFrom([]int{1, 1, 2, 2}).Draw(rt, "resources")
		nops := rapid.IntRange(4, 10).Draw(rt, "nops")
		slow := rapid.SampledFrom([]string{"none", "delete", "delete", "rewrite", "rewrite", "rewrite", "post", "b0", "txn-pre"}).Draw(rt, "slow")
		w := env.world(st, kind, nm, known)
		defer w.cleanup()
		var ops []string
		fail := func(v string, err error) {
			if err != nil {
				fmt.Println("VF-INCONCLUSIVE:", err)
				rt.Fatalf("inconclusive: %v", err)
			}
			if v != "" {
				rt.Fatalf("%s\nops=%v\ntrace=%v", v, ops, w.trace)
			}
		}
		launched := 0
		results := map[string]int{}
		var resMu sync.Mutex
		startAcquire := func(slot, r int) {
			m := w.mgrs[slot]
			m.inAcq[r] = true
			ops = append(ops, fmt.Sprintf("acquire(b%d,%d)", slot, r))
			w.trace = append(w.trace, fmt.Sprintf("start acquire(b%d,%d)", slot, r))
			fail("", w.launch(func() {
				err := m.acquire(r)
				resMu.Lock()
				switch {
				case err == nil:
					results["acquire-ok"]++
				case errors.Is(err, ErrNotOwner):
					results["acquire-notowner"]++
				case errors.Is(err, ErrShuttingDown):
					results["acquire-shutdown"]++
				default:
					results["acquire-error"]++
				}
				resMu.Unlock()
				w.mu.Lock()
				delete(m.inAcq, r)
				w.mu.Unlock()
			}))
		}
		launchOne := func() {
			launched++
			opk := rapid.SampledFrom([]string{"acquire", "acquire", "acquire", "acquire", "acquire", "acquire", "release", "release", "release", "release",
				"expire", "expire", "expire-overtake", "expire-overtake", "rotate", "rotate", "session-race", "session-race", "releaseAll", "crash", "crash", "takeover"}).Draw(rt, "op")
			// a lease key is free while another broker's write for it is still on its way: that is
			// the moment a competing acquire is most interesting, so it is usually started now
			racing := false
			if keys, err := w.readKeys(); err == nil {
				for _, g := range w.parkedNow() {
					if _, present := keys[g.key]; !present && g.key != "" && g.phase == "pre" && c18IsWrite(g) {
						racing = true
					}
				}
			}
			if racing && rapid.IntRange(0, 3).Draw(rt, "raceAcquire") > 0 {
				opk = "acquire-race"
			}
			switch opk {
			case "acquire", "acquire-race":
				// an Acquire that is not already in flight for that manager (singleflight merges those)
				type mr struct{ slot, r int }
				var free []mr
				for s, m := range w.mgrs {
					for r := 0; r < nres; r++ {
						if !m.inAcq[r] {
							free = append(free, mr{s, r})
						}
					}
				}
				if len(free) == 0 {
					ops = append(ops, "skip-acquire")
					return
				}
				// half of the time prefer the interesting re-acquire shapes: the etcd key already holds
				// this broker's id (restart / takeover), or a Release of it is still in flight
				// ... or the key is free while ANOTHER broker's write for it is still on its way
				var hot []mr
				if keys, err := w.readKeys(); err == nil {
					parked := w.parkedNow()
					for _, c := range free {
						m := w.mgrs[c.slot]
						_, present := keys[w.key(c.r)]
						race := false
						for _, g := range parked {
							if !present && g.mgr != m && g.key == w.key(c.r) && g.phase == "pre" && c18IsWrite(g) {
								race = true
							}
						}
						if race {
							hot = append(hot, c, c)
						}
						// session rotation: this manager has an answered-but-undelivered acquire for
						// ANOTHER key and no session any more - an Acquire now puts it on a new session
						lm := m.lm()
						lm.mu.RLock()
						noSession := lm.session == nil
						lm.mu.RUnlock()
						if noSession {
							for _, g := range parked {
								if g.mgr == m && g.phase == "post" && c18IsWrite(g) && g.txnOK && g.key != w.key(c.r) {
									hot = append(hot, c, c)
								}
							}
						}
						if m.inRel[c.r] || (keys[w.key(c.r)] == m.id && !m.owns(c.r)) {
							hot = append(hot, c)
						}
					}
				}
				var pk mr
				if len(hot) > 0 && (opk == "acquire-race" || rapid.Bool().Draw(rt, "reacquireShape")) {
					pk = hot[rapid.IntRange(0, len(hot)-1).Draw(rt, "hotIdx")]
				} else {
					pk = free[rapid.IntRange(0, len(free)-1).Draw(rt, "freeIdx")]
				}
				startAcquire(pk.slot, pk.r)
			case "session-race":
				// two acquires of one manager start without a session; the second one's session is
				// installed and used, then ends exactly while the first one installs its own
				if nres < 2 {
					ops = append(ops, "skip-session-race")
					return
				}
				var cands []int
				for sl, c := range w.mgrs {
					if !c.closed && len(c.inAcq) == 0 {
						busy := false
						for _, g := range w.parkedNow() {
							if g.mgr == c {
								busy = true
							}
						}
						if !busy {
							cands = append(cands, sl)
						}
					}
				}
				if len(cands) == 0 {
					ops = append(ops, "skip-session-race")
					return
				}
				m := w.mgrs[cands[rapid.IntRange(0, len(cands)-1).Draw(rt, "raceIdx")]]
				if _, err := w.expire(m); err != nil { // start from "no session"
					fail("", err)
				}
				v, err := w.check(nres)
				fail(v, err)
				x := rapid.IntRange(0, nres-1).Draw(rt, "raceFirst")
				y := (x + 1) % nres
				startAcquire(m.slot, x) // T1: parks at its Grant
				var t1 *c18Gate
				for _, g := range w.parkedNow() {
					if g.mgr == m && g.kind == "grant" && g.phase == "pre" {
						t1 = g
					}
				}
				startAcquire(m.slot, y) // T2
				if t1 == nil {
					ops = append(ops, "skip-session-race")
					return
				}
				for i := 0; i < 6; i++ { // T2 runs to the end: own session, acquires y
					var next *c18Gate
					for _, g := range w.parkedNow() {
						if g.mgr == m && g != t1 {
							next = g
							break
						}
					}
					if next == nil {
						break
					}
					v, err := w.step(next)
					fail(v, err)
					v, err = w.check(nres)
					fail(v, err)
				}
				queued, err := w.sessionRace(m, t1)
				fail("", err)
				ops = append(ops, fmt.Sprintf("session-race(b%d: acquire %d creates its session late, acquire %d's session ends meanwhile, queued=%v)", m.slot, x, y, queued))
				if queued {
					w.sessionRaced = true
					w.contended = true
				}
			case "rotate":
				// "the session is rotated by an Acquire of another resource while the answer to an
				// acquire transaction for X is still undelivered": if no manager is in that position
				// yet, one acquire is driven up to its undelivered answer first
				if nres < 2 {
					ops = append(ops, "skip-rotate")
					return
				}
				var answered []*c18Gate
				for _, g := range w.parkedNow() {
					if g.phase == "post" && c18IsWrite(g) && g.txnOK && w.mgrs[g.mgr.slot] == g.mgr && !g.mgr.closed {
						answered = append(answered, g)
					}
				}
				var m *c18Mgr
				x := -1
				if len(answered) > 0 {
					g := answered[rapid.IntRange(0, len(answered)-1).Draw(rt, "answeredIdx")]
					m = g.mgr
					for r := 0; r < nres; r++ {
						if w.key(r) == g.key {
							x = r
						}
					}
				} else {
					keys, err := w.readKeys()
					fail("", err)
					type mr struct{ slot, r int }
					var cands []mr
					for sl, c := range w.mgrs {
						for r := 0; r < nres; r++ {
							if _, present := keys[w.key(r)]; !present && !c.closed && len(c.inAcq) == 0 && !c.owns(r) {
								cands = append(cands, mr{sl, r})
							}
						}
					}
					if len(cands) == 0 {
						ops = append(ops, "skip-rotate")
						return
					}
					pk := cands[rapid.IntRange(0, len(cands)-1).Draw(rt, "rotateIdx")]
					m, x = w.mgrs[pk.slot], pk.r
					startAcquire(pk.slot, x)
					for i := 0; i < 6; i++ {
						var next *c18Gate
						for _, g := range w.parkedNow() {
							if g.mgr == m && g.phase == "pre" && (g.kind == "grant" || g.key == w.key(x)) {
								next = g
								break
							}
						}
						if next == nil {
							break
						}
						v, err := w.step(next)
						fail(v, err)
						v, err = w.check(nres)
						fail(v, err)
					}
				}
				y := -1
				for r := 0; r < nres; r++ {
					if r != x && !m.inAcq[r] {
						y = r
					}
				}
				stillAnswered := false
				for _, g := range w.parkedNow() {
					if g.mgr == m && g.phase == "post" && c18IsWrite(g) && g.txnOK && x >= 0 && g.key == w.key(x) {
						stillAnswered = true
					}
				}
				if y < 0 || !stillAnswered {
					ops = append(ops, "skip-rotate")
					return
				}
				did, err := w.expire(m)
				fail("", err)
				v, err := w.check(nres)
				fail(v, err)
				startAcquire(m.slot, y)
				for _, g := range w.parkedNow() {
					if g.mgr == m && g.kind == "grant" && g.phase == "pre" {
						v, err := w.step(g) // the new session exists once Grant is answered
						fail(v, err)
						break
					}
				}
				ops = append(ops, fmt.Sprintf("rotate(b%d: answer for %d undelivered, session ended=%v, acquire %d on a new session)", m.slot, x, did, y))
				if did {
					w.rotated = true
					w.contended = true
				}
			case "release":
				// prefer a (process, resource) that is owned right now; superseded processes count
				type mr struct {
					m *c18Mgr
					r int
				}
				var owned []mr
				for _, m := range append(append([]*c18Mgr{}, w.mgrs...), w.zombies...) {
					for r := 0; r < nres; r++ {
						if m.owns(r) && !m.inRel[r] {
							owned = append(owned, mr{m, r})
						}
					}
				}
				var pick mr
				if len(owned) > 0 && rapid.IntRange(0, 9).Draw(rt, "releaseOwned") > 0 {
					pick = owned[rapid.IntRange(0, len(owned)-1).Draw(rt, "ownedIdx")]
				} else {
					pick = mr{w.mgrs[rapid.IntRange(0, nm-1).Draw(rt, "slot")], rapid.IntRange(0, nres-1).Draw(rt, "res")}
				}
				m := pick.m
				if m.inRel[pick.r] {
					ops = append(ops, "skip-release")
					return
				}
				m.inRel[pick.r] = true
				ops = append(ops, fmt.Sprintf("release(%s.%d,%d)", m.id, m.gen, pick.r))
				w.trace = append(w.trace, fmt.Sprintf("start release(%s.%d,%d)", m.id, m.gen, pick.r))
				fail("", w.launch(func() {
					m.release(pick.r)
					w.mu.Lock()
					delete(m.inRel, pick.r)
					w.mu.Unlock()
				}))
			case "releaseAll":
				procs := append(append([]*c18Mgr{}, w.mgrs...), w.zombies...)
				m := procs[rapid.IntRange(0, len(procs)-1).Draw(rt, "proc")]
				ops = append(ops, fmt.Sprintf("releaseAll(%s.%d)", m.id, m.gen))
				w.trace = append(w.trace, fmt.Sprintf("start releaseAll(%s.%d)", m.id, m.gen))
				m.closed = true
				fail("", w.launch(m.releaseAll))
			case "expire-overtake":
				// a manager that holds something and a resource it does not hold yet
				type mr struct{ slot, r int }
				var cands []mr
				for s, m := range w.mgrs {
					holds := false
					for r := 0; r < nres; r++ {
						if m.owns(r) {
							holds = true
						}
					}
					if !holds || m.closed {
						continue
					}
					for r := 0; r < nres; r++ {
						if !m.owns(r) && !m.inAcq[r] {
							cands = append(cands, mr{s, r})
						}
					}
				}
				if len(cands) == 0 {
					ops = append(ops, "skip-expire-overtake")
					return
				}
				pk := cands[rapid.IntRange(0, len(cands)-1).Draw(rt, "overtakeIdx")]
				queued, err := w.expireOvertake(w.mgrs[pk.slot], pk.r)
				fail("", err)
				ops = append(ops, fmt.Sprintf("expire-overtake(b%d,acquire %d)", pk.slot, pk.r))
				if queued {
					w.overtaken = true
					w.contended = true
				}
			case "expire":
				var withSess []int
				for s, m := range w.mgrs {
					lm := m.lm()
					lm.mu.RLock()
					if lm.session != nil {
						withSess = append(withSess, s)
					}
					lm.mu.RUnlock()
				}
				// half of the time: a manager whose acquire has been answered by etcd but whose
				// answer is still undelivered (the session ends under a committed transaction)
				var answered []int
				for _, g := range w.parkedNow() {
					if g.phase == "post" && c18IsWrite(g) && g.txnOK && w.mgrs[g.mgr.slot] == g.mgr {
						answered = append(answered, g.mgr.slot)
					}
				}
				slot := 0
				if len(answered) > 0 && rapid.Bool().Draw(rt, "expireAnswered") {
					slot = answered[rapid.IntRange(0, len(answered)-1).Draw(rt, "answeredIdx")]
				} else if len(withSess) > 0 {
					slot = withSess[rapid.IntRange(0, len(withSess)-1).Draw(rt, "sessIdx")]
				} else {
					slot = rapid.IntRange(0, nm-1).Draw(rt, "slot")
				}
				if rapid.Bool().Draw(rt, "disconnectFirst") {
					// the clients whose requests made this broker acquire its leases have gone away
					if n := w.mgrs[slot].disconnect(); n > 0 {
						ops = append(ops, fmt.Sprintf("clients-disconnect(b%d,%d contexts)", slot, n))
						w.trace = append(w.trace, fmt.Sprintf("request contexts of b%d cancelled", slot))
						w.disconnected = true
					}
				}
				did, err := w.expire(w.mgrs[slot])
				fail("", err)
				if did {
					ops = append(ops, fmt.Sprintf("expire(b%d)", slot))
				} else {
					ops = append(ops, fmt.Sprintf("expire-noop(b%d)", slot))
				}
			case "crash", "takeover":
				// mostly a broker that holds something
				var holders []int
				for s, m := range w.mgrs {
					for r := 0; r < nres; r++ {
						if m.owns(r) {
							holders = append(holders, s)
							break
						}
					}
				}
				slot := 0
				if len(holders) > 0 && rapid.IntRange(0, 4).Draw(rt, "crashHolder") > 0 {
					slot = holders[rapid.IntRange(0, len(holders)-1).Draw(rt, "holderIdx")]
				} else {
					slot = rapid.IntRange(0, nm-1).Draw(rt, "slot")
				}
				if opk == "crash" {
					ops = append(ops, fmt.Sprintf("crash-restart(b%d)", slot))
					fail("", w.crashRestart(slot))
				} else {
					ops = append(ops, fmt.Sprintf("takeover(b%d)", slot))
					fail("", w.takeover(slot))
				}
			}
		}
		for steps := 0; steps < 80; steps++ {
			el, err := w.eligibleNow()
			fail("", err)
			n := len(el)
			canLaunch := launched < nops
			envLapse := w.lapsePending()
			if n == 0 && !canLaunch && !envLapse && len(w.zombies) == 0 {
				break
			}
			// weighted choice: the case's "slow" class of calls is 5x less likely to be picked,
			// which is what makes stale calls (a delayed Delete, a delayed answer) common
			var choice []int // index into el, or -1 = start the next operation
			for gi, g := range el {
				wgt := 6
				if c18Slow(slow, g) {
					wgt = 1
				}
				for k := 0; k < wgt; k++ {
					choice = append(choice, gi)
				}
			}
			if canLaunch {
				for k := 0; k < 5; k++ {
					choice = append(choice, -1)
				}
			}
			// environment events are always on offer: the etcd leases of crashed processes run
			// out (-2), a superseded process finally exits (-3-k)
			if envLapse {
				for k := 0; k < 4; k++ {
					choice = append(choice, -2)
				}
			}
			for zi := range w.zombies {
				choice = append(choice, -3-zi)
			}
			// an operator deletes and re-creates the topic (partition flavour, at most twice)
			const evTopic = -1000
			if kind == "partition" && w.topicDeletes < 2 && (n > 0 || canLaunch) {
				choice = append(choice, evTopic)
			}
			i := choice[rapid.IntRange(0, len(choice)-1).Draw(rt, "pick")]
			if i >= 0 {
				v, err := w.step(el[i])
				fail(v, err)
			} else if i == -1000 {
				fail("", w.adminDeleteTopic())
				ops = append(ops, "admin-delete-topic")
			} else if i == -2 {
				nl, err := w.lapse()
				fail("", err)
				ops = append(ops, fmt.Sprintf("lapse(%d)", nl))
				lapseWhileAcquire, lapseBeforeRewrite := false, false
				for _, g := range w.parkedNow() {
					if c18IsWrite(g) {
						lapseWhileAcquire = true
					}
					if (g.phase == "pre" && (g.kind == "txn-value" || g.kind == "put" || g.kind == "txn-put")) || (g.phase == "post" && g.kind == "txn-create" && !g.txnOK && !g.callErr) {
						lapseBeforeRewrite = true
					}
				}
				if nl > 0 && lapseWhileAcquire {
					w.contended = true
					st.Class("dead-lease-lapses-while-an-acquire-is-in-flight")
				}
				if nl > 0 && lapseBeforeRewrite {
					st.Class("dead-lease-lapses-between-reacquire-read-and-write")
				}
			} else if i <= -3 {
				ops = append(ops, "old-process-exits")
				fail("", w.zombieExit(-3-i))
			} else {
				launchOne()
				if w.panicMsg != "" {
					fail("panic in lease manager: "+w.panicMsg, nil)
				}
			}
			v, err := w.check(nres)
			fail(v, err)
		}
		v, err := w.finish(nres)
		fail(v, err)

		// statistics / non-triviality
		for k, n := range results {
			st.ClassN(k, n)
		}
		for _, o := range ops {
			st.Class("op-" + o[:strings.IndexAny(o+"(", "(")])
		}
		if w.excluded {
			st.ExcludedCase(c18Finding)
		}
		if w.staleWinNoPut {
			st.Class("release-delete-parked-while-txn-completed(no put)")
		}
		if w.staleWinPut {
			st.Class("release-delete-parked-while-txn-completed(put)")
		}
		if w.postGateExpire {
			st.Class("expire-while-acquire-answer-in-flight")
		}
		if w.mismatchOther > 0 {
			st.Class("owner-key-holds-other-id(not asserted)")
		}
		if w.overtaken {
			st.Class("session-lost-and-an-acquire-overtakes-the-session-monitor")
		}
		if w.rotated {
			st.Class("session-rotated-while-an-acquire-answer-is-undelivered")
		}
		if w.disconnected {
			st.Class("request-contexts-cancelled-before-a-session-loss")
		}
		if w.sessionRaced {
			st.Class("session-ends-while-a-concurrent-acquire-installs-its-own-session")
		}
		if w.unnoticed {
			st.Class("manager-did-not-notice-session-loss-by-itself")
		}
		if w.contended || w.postGateExpire {
			st.Class("contended")
			if st.NonTrivial(kind, nm, nres, w.trace) {
				st.Sample(c18Sample{Kind: kind, Managers: nm, Ops: ops, Trace: w.trace})
			}
		} else {
			st.Class("uncontended")
		}
	})
}

// ---------------------------------------------------------------- witness of the listed finding

func c18Find(w *c18World, m *c18Mgr, kind, phase string) *c18Gate {
	for _, g := range w.parkedNow() {
		if g.mgr == m && g.kind == kind && g.phase == phase {
			return g
		}
	}
	return nil
}

func c18FindDel(w *c18World, m *c18Mgr) *c18Gate {
	for _, g := range w.parkedNow() {
		if g.mgr == m && c18IsDel(g) && g.phase == "pre" {
			return g
		}
	}
	return nil
}

// c18DrainExcept lets everything run except the given gate.
func c18DrainExcept(w *c18World, keep *c18Gate, nres int) (string, error) {
	for {
		var next *c18Gate
		for _, g := range w.parkedNow() {
			if g != keep {
				next = g
				break
			}
		}
		if next == nil {
			return "", nil
		}
		if v, err := w.step(next); err != nil || v != "" {
			return v, err
		}
		if v, err := w.check(nres); err != nil || v != "" {
			return v, err
		}
	}
}

func c18Witness(env *c18Env, st *vfkit.Stats, kind string, sameBroker bool) (violations []string, err error) {
	w := env.world(st, kind, 2, false)
	defer w.cleanup()
	a, b := w.mgrs[0], w.mgrs[1]
	do := func(v string, e error) bool {
		if e != nil {
			err = e
			return false
		}
		if v != "" {
			violations = append(violations, v)
		}
		return true
	}
	if !do("", w.launch(func() { _ = a.acquire(0) })) {
		return
	}
	if !do(c18DrainExcept(w, nil, 1)) {
		return
	}
	if !a.owns(0) {
		return nil, fmt.Errorf("%w: witness set-up: first acquire did not succeed", errC18Inconclusive)
	}
	if !do("", w.launch(func() { a.release(0) })) {
		return
	}
	del := c18FindDel(w, a)
	if del == nil {
		// Release no longer issues a plain Delete call: the finding's mechanism is gone
		_, e := c18DrainExcept(w, nil, 1)
		return nil, e
	}
	if sameBroker {
		if !do("", w.launch(func() { _ = a.acquire(0) })) {
			return
		}
	} else {
		if _, e := w.expire(a); e != nil {
			return nil, e
		}
		if !do("", w.launch(func() { _ = b.acquire(0) })) {
			return
		}
	}
	if !do(c18DrainExcept(w, del, 1)) {
		return
	}
	if still := c18FindDel(w, a); still != nil {
		if !do(w.step(still)) {
			return
		}
	}
	if !do(w.check(1)) {
		return
	}
	do(w.finish(1))
	sort.Strings(violations)
	return
}

func TestVF_C18_Witness(t *testing.T) {
	st := vfkit.NewStats("C18", "witness")
	defer st.Flush()
	env := c18NewEnv(t, 3)
	var all []string
	for _, kind := range []string{"partition", "group"} {
		for _, same := range []bool{false, true} {
			st.Eval()
			v, err := c18Witness(env, st, kind, same)
			if err != nil {
				fmt.Println("VF-INCONCLUSIVE:", err)
				t.Fatalf("inconclusive: %v", err)
			}
			st.Class(fmt.Sprintf("witness-%s-sameBroker=%v-violations=%d", kind, same, len(v)))
			if len(v) > 0 {
				st.NonTrivial(kind, same)
				st.Sample(map[string]any{"kind": kind, "same_broker_reacquire": same, "violations": v})
				all = append(all, v...)
			}
		}
	}
	what := "a Release whose etcd Delete is overtaken by an acquire (other broker after expiry, or the same broker re-acquiring) removes the new lease key"
	if len(all) > 0 {
		what = all[0]
	}
	st.KnownResult(c18Finding, len(all) > 0, what)
}
