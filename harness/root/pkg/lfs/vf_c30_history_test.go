//go:build verif

package lfs

// C30 (histories): the readers are long-lived objects (one Resolver / Consumer per
// processor), so a case here is a short HISTORY on ONE Resolver and ONE Consumer: 2-4
// resolves of 1-2 envelopes while the object under the envelope's key changes in storage
// between the resolves (honest -> bit flipped / truncated / extended / replaced / empty /
// error, and back). Every payload that is handed out is judged by the same independent
// oracle as in the single-shot legs (c30Allowed), against the envelope it was resolved for.

import (
	"bytes"
	"context"
	"fmt"
	"io"
	"strings"
	"testing"

	"pgregory.net/rapid"
	"verif.local/vfkit"
)

type c30MapStore struct {
	objs  map[string][]byte
	errs  map[string]error
	calls int
}

func (s *c30MapStore) Fetch(ctx context.Context, key string) ([]byte, error) {
	s.calls++
	if err := s.errs[key]; err != nil {
		return nil, err
	}
	b, ok := s.objs[key]
	if !ok {
		return nil, fmt.Errorf("c30: NoSuchKey %s", key)
	}
	return append([]byte(nil), b...), nil
}

func (s *c30MapStore) Stream(ctx context.Context, key string) (io.ReadCloser, int64, error) {
	b, err := s.Fetch(ctx, key)
	if err != nil {
		return nil, 0, err
	}
	return io.NopCloser(bytes.NewReader(b)), int64(len(b)), nil
}

type c30HistEnv struct {
	env  Envelope
	raw  []byte
	blob []byte
}

// c30HistEnvelope builds an honest-or-not envelope for blob under key.
func c30HistEnvelope(key string, blob []byte, alg, ckKind string) c30HistEnv {
	norm, valid := c30NormAlg(alg)
	algForCk := norm
	if !valid || norm == "none" {
		algForCk = "sha256"
	}
	correct := c30Digest(algForCk, blob)
	ck := ""
	switch ckKind {
	case "correct":
		ck = correct
	case "upper":
		ck = strings.ToUpper(correct)
	case "wrong":
		ck = c30Wrong(correct)
	case "empty":
	}
	env := Envelope{Version: 1, Bucket: "bkt", Key: key, Size: int64(len(blob)), SHA256: c30Digest("sha256", blob), Checksum: ck, ChecksumAlg: alg}
	raw, err := EncodeEnvelope(env)
	if err != nil {
		panic("c30 harness: EncodeEnvelope: " + err.Error())
	}
	return c30HistEnv{env: env, raw: raw, blob: blob}
}

var c30HistStates = []string{"exact", "bitflip", "truncated", "extended", "empty", "other", "error"}

func c30HistApply(store *c30MapStore, key string, blob []byte, state string) {
	delete(store.errs, key)
	switch state {
	case "exact":
		store.objs[key] = append([]byte(nil), blob...)
	case "bitflip":
		b := append([]byte(nil), blob...)
		if len(b) == 0 {
			b = []byte{1}
		} else {
			b[len(b)/2] ^= 0x04
		}
		store.objs[key] = b
	case "truncated":
		store.objs[key] = append([]byte(nil), blob[:len(blob)/2]...)
	case "extended":
		store.objs[key] = append(append([]byte(nil), blob...), 'x')
	case "empty":
		store.objs[key] = []byte{}
	case "other":
		store.objs[key] = []byte("object written later by somebody else")
	case "error":
		store.errs[key] = c30ErrInject
	}
}

type c30HistStep struct {
	Env   int    `json:"envelope"`
	State string `json:"storage"`
}

// c30RunHistory replays the steps on one Resolver and one Consumer. It returns a
// violation text and whether some step resolved an envelope whose object had been
// accepted before and has changed since (the interesting shape).
func c30RunHistory(st *vfkit.Stats, envs []c30HistEnv, steps []c30HistStep, maxSize int64) (string, bool) {
	ctx := context.Background()
	storeR := &c30MapStore{objs: map[string][]byte{}, errs: map[string]error{}}
	storeC := &c30MapStore{objs: map[string][]byte{}, errs: map[string]error{}}
	resolver := NewResolver(ResolverConfig{MaxSize: maxSize, ValidateChecksum: true}, storeR)
	consumer := NewConsumer(storeC)
	acceptedBefore := map[int]bool{}
	changedAfterAccept := false
	for si, s := range steps {
		e := envs[s.Env]
		c30HistApply(storeR, e.env.Key, e.blob, s.State)
		c30HistApply(storeC, e.env.Key, e.blob, s.State)
		stored := storeR.objs[e.env.Key]
		differs := s.State == "error" || !bytes.Equal(stored, e.blob)
		if acceptedBefore[s.Env] && differs {
			changedAfterAccept = true
		}
		where := fmt.Sprintf("step %d/%d (envelope %d, storage now %q; history %+v)", si+1, len(steps), s.Env, s.State, steps)

		res, isEnv, err := resolver.Resolve(ctx, e.raw)
		if !isEnv {
			return fmt.Sprintf("%s: Resolver did not treat a produced envelope as an envelope", where), changedAfterAccept
		}
		if err == nil {
			if s.State == "error" {
				return fmt.Sprintf("%s: Resolver returned a payload although storage failed", where), changedAfterAccept
			}
			if !bytes.Equal(res.Payload, stored) {
				return fmt.Sprintf("%s: Resolver returned %d bytes that are not what storage holds now (%d bytes)", where, len(res.Payload), len(stored)), changedAfterAccept
			}
			if ok, why := c30Allowed(st, e.env, res.Payload, maxSize); !ok {
				return fmt.Sprintf("%s: the same Resolver returned a blob although %s (envelope %s)", where, why, e.raw), changedAfterAccept
			}
			acceptedBefore[s.Env] = true
			st.Class("history-step:accepted")
		} else {
			st.Class("history-step:rejected")
		}

		e2, blob, err := consumer.Unwrap(ctx, e.raw)
		if err == nil {
			if e2 == nil || s.State == "error" {
				return fmt.Sprintf("%s: Consumer returned a payload without envelope / although storage failed", where), changedAfterAccept
			}
			if !bytes.Equal(blob, storeC.objs[e.env.Key]) {
				return fmt.Sprintf("%s: Consumer returned %d bytes that are not what storage holds now", where, len(blob)), changedAfterAccept
			}
			if ok, why := c30Allowed(st, e.env, blob, 0); !ok {
				return fmt.Sprintf("%s: the same Consumer returned a blob although %s (envelope %s)", where, why, e.raw), changedAfterAccept
			}
			acceptedBefore[s.Env] = true
		} else if blob != nil {
			return fmt.Sprintf("%s: Consumer returned both an error (%v) and %d payload bytes", where, err, len(blob)), changedAfterAccept
		}
	}
	return "", changedAfterAccept
}

func TestVF_C30_History(t *testing.T) {
	st := vfkit.NewStats("C30", "history")
	defer st.Flush()
	rapid.Check(t, func(t *rapid.T) {
		st.Eval()
		nenv := rapid.IntRange(1, 2).Draw(t, "nEnvelopes")
		envs := make([]c30HistEnv, nenv)
		var desc []string
		for i := range envs {
			n := rapid.OneOf(rapid.IntRange(0, 3), rapid.IntRange(1, 64), rapid.IntRange(1, 3000)).Draw(t, "blobLen")
			blob := rapid.SliceOfN(rapid.Byte(), n, n).Draw(t, "blob")
			key := fmt.Sprintf("default/topic/lfs/2026/01/02/obj-%d", i)
			if i == 1 && rapid.IntRange(0, 2).Draw(t, "sameKey") == 0 {
				key = envs[0].env.Key // two records pointing at the same key with different digests
			}
			alg := rapid.SampledFrom([]string{"", "", "sha256", "SHA256", "md5", "md5", "crc32", "crc32", "none", "sha1"}).Draw(t, "alg")
			ck := rapid.SampledFrom([]string{"correct", "correct", "correct", "empty", "upper", "wrong"}).Draw(t, "checksum")
			envs[i] = c30HistEnvelope(key, blob, alg, ck)
			desc = append(desc, fmt.Sprintf("%q/%s/%d", alg, ck, n))
			st.Class("alg:" + fmt.Sprintf("%q", alg))
		}
		nsteps := rapid.IntRange(2, 4).Draw(t, "nSteps")
		steps := make([]c30HistStep, nsteps)
		for i := range steps {
			steps[i] = c30HistStep{Env: rapid.IntRange(0, nenv-1).Draw(t, "env"),
				State: rapid.SampledFrom([]string{"exact", "exact", "exact", "bitflip", "truncated", "extended", "empty", "other", "error"}).Draw(t, "state")}
		}
		maxSize := rapid.SampledFrom([]int64{0, 0, 0, 1, 64, 4000}).Draw(t, "maxSize")
		viol, interesting := c30RunHistory(st, envs, steps, maxSize)
		if viol != "" {
			t.Fatalf("%s", viol)
		}
		if interesting {
			st.Class("object-changed-after-it-was-accepted-once")
			st.NonTrivial(desc, steps, maxSize, envs[0].raw)
			st.Sample(map[string]any{"envelopes(alg/checksum/len)": desc, "steps": steps, "max_size": maxSize})
		}
	})
}

// TestVF_C30_HistoryEnum enumerates every storage history of length 1..3 for one
// envelope, per algorithm and checksum-field kind.
func TestVF_C30_HistoryEnum(t *testing.T) {
	st := vfkit.NewStats("C30", "history-enum")
	defer st.Flush()
	blob := []byte("hello large file payload 0123456789")
	var seqs [][]string
	var gen func(prefix []string, depth int)
	gen = func(prefix []string, depth int) {
		if len(prefix) > 0 {
			seqs = append(seqs, append([]string(nil), prefix...))
		}
		if depth == 0 {
			return
		}
		for _, s := range c30HistStates {
			gen(append(prefix, s), depth-1)
		}
	}
	gen(nil, 3)
	for _, alg := range []string{"", "SHA256", "md5", "crc32", "none", "sha1"} {
		for _, ck := range []string{"correct", "empty", "upper", "wrong"} {
			env := c30HistEnvelope("default/topic/lfs/2026/01/02/obj-enum", blob, alg, ck)
			for _, seq := range seqs {
				st.Eval()
				steps := make([]c30HistStep, len(seq))
				for i, s := range seq {
					steps[i] = c30HistStep{Env: 0, State: s}
				}
				viol, interesting := c30RunHistory(st, []c30HistEnv{env}, steps, 0)
				if viol != "" {
					t.Fatalf("%s", viol)
				}
				if interesting {
					st.NonTrivial(alg, ck, seq)
					st.Sample(map[string]any{"alg": alg, "checksum": ck, "storage_history": seq})
				}
			}
		}
	}
	st.Note("enumerated", "all storage histories of length 1..3 over 7 states x 6 algorithm spellings x 4 checksum-field kinds on one Resolver and one Consumer")
}
