//go:build verif

package lfs

// C29: every envelope the proxy produces decodes back to the same fields and is
// recognised by the Go, Python and JavaScript SDKs; all three agree on whether any byte
// string is an envelope.
//
// The Python SDK (lfs_sdk/envelope.py, loaded by path) and the JS SDK (js/src/envelope.ts,
// type annotations stripped by a small rewriter whose output node must compile) run as
// long-lived line-oriented subprocesses that are fed the same bytes from inside the rapid
// property, so shrinking works across languages.

import (
	"bufio"
	"bytes"
	"context"
	"encoding/hex"
	"encoding/json"
	"fmt"
	"io"
	"os"
	"os/exec"
	"path/filepath"
	"reflect"
	"regexp"
	"sort"
	"strconv"
	"strings"
	"testing"
	"unicode/utf8"

	"pgregory.net/rapid"
	"verif.local/vfkit"
)

const (
	c29KnownJSMinLen  = "C29-js-no-min-length"
	c29KnownPyIgnore  = "C29-py-ignores-invalid-utf8"
	c29KnownMangled   = "C29-non-utf8-header-values-mangled"
	c29MarkerLiteral  = `"kfs_lfs"`
	c29DetectWindow   = 50
	c29DetectMinBytes = 15
)

const c29PyScript = `
import sys, json, importlib.util, dataclasses
spec = importlib.util.spec_from_file_location("vf_c29_envelope", sys.argv[1])
mod = importlib.util.module_from_spec(spec)
sys.modules["vf_c29_envelope"] = mod
spec.loader.exec_module(mod)
sys.stdout.write("READY\n"); sys.stdout.flush()
for line in sys.stdin:
    line = line.strip()
    if line == "":
        b = b""
    else:
        b = bytes.fromhex(line)
    res = {}
    try:
        res["is"] = bool(mod.is_lfs_envelope(b))
    except Exception as e:
        res["is_err"] = type(e).__name__ + ": " + str(e)[:200]
    try:
        res["is_view"] = [bool(mod.is_lfs_envelope(bytearray(b)))]
    except Exception as e:
        res["is_view_err"] = type(e).__name__ + ": " + str(e)[:200]
    try:
        env = mod.decode_envelope(b)
        res["dec"] = {k: v for k, v in dataclasses.asdict(env).items() if v is not None}
    except Exception as e:
        res["err"] = type(e).__name__ + ": " + str(e)[:200]
    sys.stdout.write(json.dumps(res) + "\n"); sys.stdout.flush()
`

const c29JSDriver = `
;(function () {
  if (typeof isLfsEnvelope !== 'function' || typeof decodeEnvelope !== 'function') {
    process.stdout.write('MISSING-FUNCTIONS\n');
    process.exit(3);
  }
  process.stdout.write('READY\n');
  const rl = require('readline').createInterface({ input: process.stdin, terminal: false });
  rl.on('line', (line) => {
    line = line.trim();
    const value = new Uint8Array(Buffer.from(line, 'hex'));
    const res = {};
    try { res.is = !!isLfsEnvelope(value); } catch (e) { res.is_err = String(e).slice(0, 200); }
    try { res.dec = decodeEnvelope(value); } catch (e) { res.err = String(e).slice(0, 200); }
    // the same bytes in the representations Kafka clients hand out: a (pooled) Buffer and
    // views with a non-zero byteOffset into a larger ArrayBuffer (zero bytes in front / a
    // marker-bearing look-alike in front, junk behind)
    try {
      const views = [Buffer.from(line, 'hex')];
      for (const front of [Buffer.alloc(7), Buffer.from('{"kfs_lfs":1,"bucket":"front","key":"k","sha256":"s","pad":"................"}')]) {
        const ab = new ArrayBuffer(front.length + value.length + 9);
        const all = new Uint8Array(ab);
        all.set(front, 0); all.set(value, front.length); all.fill(0x7b, front.length + value.length);
        views.push(new Uint8Array(ab, front.length, value.length));
      }
      res.is_view = views.map((v) => !!isLfsEnvelope(v));
      if (res.dec !== undefined) {
        res.dec_view_same = views.every((v) => JSON.stringify(decodeEnvelope(v)) === JSON.stringify(res.dec));
      }
    } catch (e) { res.is_view_err = String(e).slice(0, 200); }
    process.stdout.write(JSON.stringify(res) + '\n');
  });
  rl.on('close', () => process.exit(0));
})();
`

// c29StripTS turns the (tiny) TypeScript SDK file into plain JavaScript: interface blocks,
// "export", parameter/return type annotations and "as T" casts are removed. The result is
// only trusted if node compiles it and finds both functions (checked by the driver).
func c29StripTS(src string) (string, error) {
	out := regexp.MustCompile(`(?s)export\s+interface\s+\w+\s*\{.*?\n\}\s*\n`).ReplaceAllString(src, "\n")
	out = regexp.MustCompile(`(?m)^export\s+function\s+`).ReplaceAllString(out, "function ")
	sig := regexp.MustCompile(`(?m)^function\s+(\w+)\s*\(\s*(\w+)\s*:[^)]*\)\s*:\s*[^{]+\{`)
	out = sig.ReplaceAllString(out, "function $1($2) {")
	out = regexp.MustCompile(`\s+as\s+[A-Z]\w*`).ReplaceAllString(out, "")
	if strings.Contains(out, "interface ") || strings.Contains(out, "export ") || strings.Contains(out, "import ") {
		return "", fmt.Errorf("TypeScript constructs left after rewriting")
	}
	if !strings.Contains(out, "function isLfsEnvelope(") || !strings.Contains(out, "function decodeEnvelope(") {
		return "", fmt.Errorf("isLfsEnvelope/decodeEnvelope not found after rewriting")
	}
	return out, nil
}

type c29Answer struct {
	Is          *bool           `json:"is"`
	IsView      []bool          `json:"is_view"` // same bytes handed over in other representations (offset views, Buffer, bytearray)
	IsViewErr   string          `json:"is_view_err"`
	DecViewSame *bool           `json:"dec_view_same"`
	IsErr       string          `json:"is_err"`
	Dec         json.RawMessage `json:"dec"`
	Err         string          `json:"err"`
}

type c29Worker struct {
	name string
	cmd  *exec.Cmd
	in   io.WriteCloser
	out  *bufio.Reader
	errb *bytes.Buffer
}

func (w *c29Worker) ask(value []byte) (c29Answer, error) {
	var a c29Answer
	if _, err := io.WriteString(w.in, hex.EncodeToString(value)+"\n"); err != nil {
		return a, fmt.Errorf("%s worker write: %v (stderr: %s)", w.name, err, w.errb.String())
	}
	line, err := w.out.ReadString('\n')
	if err != nil {
		return a, fmt.Errorf("%s worker read: %v (stderr: %s)", w.name, err, w.errb.String())
	}
	dec := json.NewDecoder(strings.NewReader(line))
	dec.UseNumber()
	if err := dec.Decode(&a); err != nil {
		return a, fmt.Errorf("%s worker answered %q: %v", w.name, line, err)
	}
	if a.Is == nil {
		return a, fmt.Errorf("%s worker: detection raised: %s", w.name, a.IsErr)
	}
	return a, nil
}

// representationViolation: an SDK must give the same answer for the same bytes whatever
// container they arrive in.
func (a c29Answer) representationViolation(name string, value []byte) string {
	if a.IsViewErr != "" {
		return fmt.Sprintf("%s SDK raised on an equivalent representation of %q: %s", name, value, a.IsViewErr)
	}
	for i, v := range a.IsView {
		if a.Is != nil && v != *a.Is {
			return fmt.Sprintf("%s SDK answers %v for %q (hex %x) as a standalone array but %v for the same bytes in representation #%d (pooled Buffer / view with non-zero byteOffset / bytearray)", name, *a.Is, value, value, v, i)
		}
	}
	if a.DecViewSame != nil && !*a.DecViewSame {
		return fmt.Sprintf("%s SDK decodes %q differently when it is passed as an offset view", name, value)
	}
	return ""
}

func (w *c29Worker) stop() {
	if w == nil {
		return
	}
	_ = w.in.Close()
	done := make(chan struct{})
	go func() { _ = w.cmd.Wait(); close(done) }()
	<-done
}

func c29Start(name string, argv ...string) (*c29Worker, error) {
	cmd := exec.Command(argv[0], argv[1:]...)
	in, err := cmd.StdinPipe()
	if err != nil {
		return nil, err
	}
	outp, err := cmd.StdoutPipe()
	if err != nil {
		return nil, err
	}
	errb := &bytes.Buffer{}
	cmd.Stderr = errb
	if err := cmd.Start(); err != nil {
		return nil, err
	}
	w := &c29Worker{name: name, cmd: cmd, in: in, out: bufio.NewReaderSize(outp, 1<<20), errb: errb}
	line, err := w.out.ReadString('\n')
	if err != nil || strings.TrimSpace(line) != "READY" {
		_ = in.Close()
		_ = cmd.Process.Kill()
		_ = cmd.Wait()
		return nil, fmt.Errorf("%s worker did not start: %q %v stderr=%s", name, line, err, errb.String())
	}
	return w, nil
}

type c29SDKs struct {
	py, js *c29Worker
}

func (s *c29SDKs) stop() { s.py.stop(); s.js.stop() }

func c29RepoRoot() string {
	if r := os.Getenv("VF_REPO"); r != "" {
		return r
	}
	return "/repo"
}

// c29StartSDKs starts the workers. A missing interpreter is recorded as a skipped
// sub-leg; an SDK source the harness cannot load is inconclusive (never a violation).
func c29StartSDKs(t *testing.T, st *vfkit.Stats) *c29SDKs {
	t.Helper()
	s := &c29SDKs{}
	dir, err := os.MkdirTemp("", "vf-c29-")
	if err != nil {
		fmt.Println("VF-INCONCLUSIVE: cannot create temp dir:", err)
		t.Fatalf("temp dir: %v", err)
	}
	t.Cleanup(func() { _ = os.RemoveAll(dir) })
	root := c29RepoRoot()

	if py, err := exec.LookPath("python3"); err != nil {
		st.Note("python", "skipped: python3 not found")
	} else {
		script := filepath.Join(dir, "worker.py")
		_ = os.WriteFile(script, []byte(c29PyScript), 0o644)
		w, err := c29Start("python", py, "-u", script, filepath.Join(root, "lfs-client-sdk/python/lfs_sdk/envelope.py"))
		if err != nil {
			fmt.Println("VF-INCONCLUSIVE: python SDK worker:", err)
			t.Fatalf("python worker: %v", err)
		}
		s.py = w
		st.Note("python", "running "+py)
	}
	if node, err := exec.LookPath("node"); err != nil {
		st.Note("js", "skipped: node not found")
	} else {
		src, err := os.ReadFile(filepath.Join(root, "lfs-client-sdk/js/src/envelope.ts"))
		if err != nil {
			fmt.Println("VF-INCONCLUSIVE: cannot read JS SDK:", err)
			t.Fatalf("read envelope.ts: %v", err)
		}
		js, err := c29StripTS(string(src))
		if err != nil {
			fmt.Println("VF-INCONCLUSIVE: JS SDK source does not fit the type-stripping rewriter:", err)
			t.Fatalf("strip ts: %v", err)
		}
		script := filepath.Join(dir, "worker.cjs")
		_ = os.WriteFile(script, []byte(js+"\n"+c29JSDriver), 0o644)
		w, err := c29Start("js", node, script)
		if err != nil {
			s.py.stop()
			fmt.Println("VF-INCONCLUSIVE: JS SDK worker:", err)
			t.Fatalf("js worker: %v", err)
		}
		s.js = w
		st.Note("js", "running "+node)
	}
	return s
}

// --- helpers shared by the legs ---------------------------------------------------------

// c29Sanitize is what a JSON text can carry of a Go string: every byte that is not part
// of a valid UTF-8 sequence becomes U+FFFD (JSON strings are Unicode).
func c29Sanitize(s string) string {
	if utf8.ValidString(s) {
		return s
	}
	var b strings.Builder
	for i := 0; i < len(s); {
		r, n := utf8.DecodeRuneInString(s[i:])
		if r == utf8.RuneError && n == 1 {
			b.WriteRune(utf8.RuneError)
		} else {
			b.WriteString(s[i : i+n])
		}
		i += n
	}
	return b.String()
}

func c29SanitizeEnv(e Envelope) Envelope {
	o := e
	o.Bucket, o.Key, o.SHA256 = c29Sanitize(e.Bucket), c29Sanitize(e.Key), c29Sanitize(e.SHA256)
	o.Checksum, o.ChecksumAlg, o.ContentType = c29Sanitize(e.Checksum), c29Sanitize(e.ChecksumAlg), c29Sanitize(e.ContentType)
	o.CreatedAt, o.ProxyID = c29Sanitize(e.CreatedAt), c29Sanitize(e.ProxyID)
	if e.OriginalHeaders != nil {
		o.OriginalHeaders = map[string]string{}
		for k, v := range e.OriginalHeaders {
			o.OriginalHeaders[c29Sanitize(k)] = c29Sanitize(v)
		}
	}
	return o
}

// c29ExpectMap is the field assignment an SDK must see, built by hand (not by
// json.Marshal) from the envelope.
func c29ExpectMap(e Envelope) map[string]any {
	m := map[string]any{
		"kfs_lfs": json.Number(strconv.Itoa(e.Version)),
		"bucket":  e.Bucket, "key": e.Key,
		"size":   json.Number(strconv.FormatInt(e.Size, 10)),
		"sha256": e.SHA256,
	}
	opt := func(k, v string) {
		if v != "" {
			m[k] = v
		}
	}
	opt("checksum", e.Checksum)
	opt("checksum_alg", e.ChecksumAlg)
	opt("content_type", e.ContentType)
	opt("created_at", e.CreatedAt)
	opt("proxy_id", e.ProxyID)
	if len(e.OriginalHeaders) > 0 {
		h := map[string]any{}
		for k, v := range e.OriginalHeaders {
			h[k] = v
		}
		m["original_headers"] = h
	}
	return m
}

func c29DecodedMap(raw json.RawMessage) (map[string]any, error) {
	var m map[string]any
	d := json.NewDecoder(bytes.NewReader(raw))
	d.UseNumber()
	if err := d.Decode(&m); err != nil {
		return nil, err
	}
	return m, nil
}

func c29HasNonASCII(e Envelope) bool {
	all := e.Bucket + e.Key + e.SHA256 + e.Checksum + e.ChecksumAlg + e.ContentType + e.CreatedAt + e.ProxyID
	for k, v := range e.OriginalHeaders {
		all += k + v
	}
	for i := 0; i < len(all); i++ {
		if all[i] >= 0x80 {
			return true
		}
	}
	return false
}

var c29TextAlphabet = []string{"a", "Z", "0", "-", "_", ".", "/", " ", "\"", "\\", "<", ">", "&", "'", "\n", "\t", "\x00", "\x7f",
	"\u00e9", "\u00df", "\u0416", "\u4e2d", "\u65e5\u672c", "\U0001F600", "\u2028", "\u00a0", "\ufeff", "\u0130", "e\u0301", "\ufffd", "{", "}", ":", ",", "kfs_lfs", "\"kfs_lfs\""}

func c29Text(min, max int) *rapid.Generator[string] {
	return rapid.Custom(func(t *rapid.T) string {
		n := rapid.IntRange(min, max).Draw(t, "n")
		var b strings.Builder
		for i := 0; i < n; i++ {
			b.WriteString(rapid.SampledFrom(c29TextAlphabet).Draw(t, "ch"))
		}
		return b.String()
	})
}

// c29DirtyText additionally contains bytes that are not valid UTF-8 (Kafka header values
// and HTTP header values are byte strings).
func c29DirtyText(min, max int) *rapid.Generator[string] {
	alpha := append(append([]string{}, c29TextAlphabet...), "\xff", "\xc3", "\xe2\x82", "\x80", "\xed\xa0\x80", "\xf0\x9f")
	return rapid.Custom(func(t *rapid.T) string {
		n := rapid.IntRange(min, max).Draw(t, "n")
		var b strings.Builder
		for i := 0; i < n; i++ {
			b.WriteString(rapid.SampledFrom(alpha).Draw(t, "ch"))
		}
		return b.String()
	})
}

var c29AllowedHeaderNames = []string{"content-type", "Content-Type", "CONTENT-ENCODING", "correlation-id", "message-id",
	"X-Correlation-Id", "x-request-id", "traceparent", "TraceState", "message-İd"}

func c29HexN(t *rapid.T, n int, label string) string {
	bs := rapid.SliceOfN(rapid.Byte(), n, n).Draw(t, label)
	return hex.EncodeToString(bs)
}

// c29GenEnvelope draws an envelope shaped like the ones built in cmd/proxy
// (lfs_rewrite.go, lfs_http.go): version 1, bucket, namespaced key with the topic inside,
// measured size, lower-case hex digests, optional content type / headers / proxy id.
func c29GenEnvelope(t *rapid.T) Envelope {
	var e Envelope
	e.Version = rapid.SampledFrom([]int{1, 1, 1, 1, 2, 7}).Draw(t, "version")
	switch rapid.IntRange(0, 3).Draw(t, "bucketKind") {
	case 0:
		e.Bucket = "my-bucket"
	case 1:
		e.Bucket = strings.Repeat("b", rapid.IntRange(1, 63).Draw(t, "blen"))
	case 2:
		e.Bucket = "b" + c29Text(0, 6).Draw(t, "bucketU")
	default:
		e.Bucket = strings.Repeat("long-bucket.", rapid.IntRange(1, 20).Draw(t, "brep"))
	}
	ns := rapid.SampledFrom([]string{"default", "prod", "ns-é", "n/s"}).Draw(t, "ns")
	var topic string
	switch rapid.IntRange(0, 3).Draw(t, "topicKind") {
	case 0:
		topic = "orders"
	case 1:
		topic = strings.Repeat("t", rapid.IntRange(1, 249).Draw(t, "tlen"))
	case 2:
		topic = "t" + c29Text(0, 8).Draw(t, "topicU")
	default:
		topic = strings.Repeat("very.long_topic-", rapid.IntRange(1, 60).Draw(t, "trep"))
	}
	e.Key = fmt.Sprintf("%s/%s/lfs/%04d/%02d/%02d/obj-%s", ns, topic, rapid.IntRange(2024, 2030).Draw(t, "y"),
		rapid.IntRange(1, 12).Draw(t, "mo"), rapid.IntRange(1, 28).Draw(t, "d"), c29HexN(t, 8, "uuid"))
	e.Size = rapid.OneOf(rapid.Int64Range(0, 1024), rapid.Int64Range(0, 5<<30), rapid.Int64Range(1<<31, 1<<53-1)).Draw(t, "size")
	e.SHA256 = c29HexN(t, 32, "sha")
	switch rapid.IntRange(0, 4).Draw(t, "algKind") {
	case 0:
		e.ChecksumAlg, e.Checksum = "sha256", e.SHA256
	case 1:
		e.ChecksumAlg, e.Checksum = "md5", c29HexN(t, 16, "md5")
	case 2:
		e.ChecksumAlg, e.Checksum = "crc32", c29HexN(t, 4, "crc")
	case 3:
		e.ChecksumAlg, e.Checksum = "none", ""
	default: // older envelopes: neither field
	}
	switch rapid.IntRange(0, 3).Draw(t, "ctKind") {
	case 0:
	case 1:
		e.ContentType = rapid.SampledFrom([]string{"application/json", "application/octet-stream", "text/plain; charset=utf-8"}).Draw(t, "ct")
	case 2:
		e.ContentType = c29Text(1, 6).Draw(t, "ctU")
	default:
		e.ContentType = c29DirtyText(1, 6).Draw(t, "ctDirty")
	}
	if nh := rapid.IntRange(0, 4).Draw(t, "nh"); nh > 0 && rapid.Bool().Draw(t, "hasHeaders") {
		e.OriginalHeaders = map[string]string{}
		for i := 0; i < nh; i++ {
			k := rapid.SampledFrom(c29AllowedHeaderNames).Draw(t, "hk")
			e.OriginalHeaders[k] = rapid.OneOf(c29Text(0, 5), c29DirtyText(0, 5)).Draw(t, "hv")
		}
	}
	if rapid.Bool().Draw(t, "hasCreated") {
		e.CreatedAt = fmt.Sprintf("%04d-%02d-%02dT%02d:%02d:%02dZ", rapid.IntRange(2024, 2030).Draw(t, "cy"), rapid.IntRange(1, 12).Draw(t, "cm"),
			rapid.IntRange(1, 28).Draw(t, "cd"), rapid.IntRange(0, 23).Draw(t, "ch"), rapid.IntRange(0, 59).Draw(t, "cmi"), rapid.IntRange(0, 59).Draw(t, "cs"))
	}
	switch rapid.IntRange(0, 2).Draw(t, "proxyKind") {
	case 1:
		e.ProxyID = "proxy-1"
	case 2:
		e.ProxyID = c29Text(1, 5).Draw(t, "proxyU")
	}
	return e
}

func c29DiffMaps(want, got map[string]any) string {
	var diffs []string
	keys := map[string]bool{}
	for k := range want {
		keys[k] = true
	}
	for k := range got {
		keys[k] = true
	}
	ks := make([]string, 0, len(keys))
	for k := range keys {
		ks = append(ks, k)
	}
	sort.Strings(ks)
	for _, k := range ks {
		if !reflect.DeepEqual(want[k], got[k]) {
			diffs = append(diffs, fmt.Sprintf("%s: want %#v got %#v", k, want[k], got[k]))
		}
	}
	return strings.Join(diffs, "; ")
}

// TestVF_C29_Envelopes: proxy-shaped envelopes round-trip in Go and are recognised and
// decoded to the same fields by the Python and JS SDKs.
func TestVF_C29_Envelopes(t *testing.T) {
	st := vfkit.NewStats("C29", "envelopes")
	defer st.Flush()
	sdks := c29StartSDKs(t, st)
	defer sdks.stop()
	rapid.Check(t, func(t *rapid.T) {
		st.Eval()
		// The proxy encodes one envelope per flagged record of a batch before any of them is
		// written out, so several envelopes are encoded first and consumed afterwards.
		n := rapid.SampledFrom([]int{1, 2, 2, 3}).Draw(t, "envelopesInFlight")
		envs := make([]Envelope, n)
		raws := make([][]byte, n)
		for i := range envs {
			envs[i] = c29GenEnvelope(t)
			r, err := EncodeEnvelope(envs[i])
			if err != nil {
				if !reflect.DeepEqual(c29SanitizeEnv(envs[i]), envs[i]) {
					// refusing to encode text that JSON cannot carry is a clean rejection
					st.Class("encode-rejected(invalid UTF-8 field)")
					continue
				}
				t.Fatalf("EncodeEnvelope rejected a proxy-shaped envelope %+v: %v", envs[i], err)
			}
			raws[i] = r
		}
		st.Class(fmt.Sprintf("envelopes-encoded-before-any-is-consumed:%d", n))
		for i := range envs {
			e, raw := envs[i], raws[i]
			if raw == nil {
				continue
			}
			// Header values are byte strings; the envelope must give back what was assigned.
			// While the lossy U+FFFD substitution is a listed finding, such envelopes are
			// compared after the substitution (and counted); otherwise exactly.
			want := e
			lossy := !reflect.DeepEqual(c29SanitizeEnv(e), e)
			if lossy {
				st.Class("invalid-utf8-field")
				if vfkit.Known(c29KnownMangled) {
					st.ExcludedCase(c29KnownMangled)
					want = c29SanitizeEnv(e)
				}
			}
			nonASCII := c29HasNonASCII(e)
			if nonASCII {
				st.Class("non-ascii")
			} else {
				st.Class("ascii-only")
			}
			if len(raw) > 1024 {
				st.Class("long(>1KiB)")
			}
			if len(e.OriginalHeaders) > 0 {
				st.Class("with-original-headers")
			}
			if e.Size > 1<<31 {
				st.Class("size>2^31")
			}
			// Go
			if !IsLfsEnvelope(raw) {
				t.Fatalf("Go IsLfsEnvelope=false for a produced envelope: %q", raw)
			}
			got, err := DecodeEnvelope(raw)
			if err != nil {
				t.Fatalf("Go DecodeEnvelope failed on a produced envelope %q: %v", raw, err)
			}
			if !reflect.DeepEqual(got, want) {
				t.Fatalf("Go round trip changed fields:\n in  %+v\n out %+v\n raw %q", want, got, raw)
			}
			expect := c29ExpectMap(want)
			for _, w := range []*c29Worker{sdks.py, sdks.js} {
				if w == nil {
					continue
				}
				a, err := w.ask(raw)
				if err != nil {
					fmt.Println("VF-INCONCLUSIVE:", err)
					t.Fatalf("%v", err)
				}
				if v := a.representationViolation(w.name, raw); v != "" {
					t.Fatalf("%s", v)
				}
				if !*a.Is {
					t.Fatalf("%s SDK does not recognise a produced envelope: %q", w.name, raw)
				}
				if a.Err != "" || len(a.Dec) == 0 {
					t.Fatalf("%s SDK failed to decode a produced envelope %q: %s", w.name, raw, a.Err)
				}
				m, err := c29DecodedMap(a.Dec)
				if err != nil {
					t.Fatalf("%s SDK decode result unreadable: %v (%s)", w.name, err, a.Dec)
				}
				if d := c29DiffMaps(expect, m); d != "" {
					t.Fatalf("%s SDK decoded different fields: %s\n raw %q", w.name, d, raw)
				}
			}
			if nonASCII || len(raw) > 1024 {
				st.NonTrivial(string(raw))
				st.Sample(map[string]any{"envelope": string(raw)})
			}
		}
	})
}

// --- detection agreement ----------------------------------------------------------------

var c29Filler = []byte{' ', 'a', '"', ':', '1', ',', 0x00, 0xff, 0xc3, 0xa9, 0xe2, 0x82, 0xac, 0xef, 0xbb, 0xbf, '{', '}', 'k', '_', 0x80, 0xf0, 0x9f, 0x98, '\n'}

func c29Fill(t *rapid.T, n int, label string) []byte {
	return rapid.SliceOfN(rapid.SampledFrom(c29Filler), n, n).Draw(t, label)
}

func c29MarkerVariant(t *rapid.T) ([]byte, string) {
	m := []byte(c29MarkerLiteral)
	switch rapid.IntRange(0, 9).Draw(t, "markerKind") {
	case 0, 1, 2:
		return m, "exact"
	case 3: // one invalid byte inside or adjacent
		p := rapid.IntRange(0, len(m)).Draw(t, "insAt")
		b := rapid.SampledFrom([]byte{0xff, 0x80, 0xc3, 0xe2, 0xf0, 0xbf}).Draw(t, "insByte")
		out := append(append(append([]byte{}, m[:p]...), b), m[p:]...)
		return out, "invalid-byte-inserted"
	case 4: // truncated multi-byte sequence inside
		p := rapid.IntRange(1, len(m)-1).Draw(t, "insAt")
		seq := rapid.SampledFrom([][]byte{{0xe2, 0x82}, {0xf0, 0x9f, 0x98}, {0xed, 0xa0, 0x80}, {0xc0, 0xaf}}).Draw(t, "insSeq")
		out := append(append(append([]byte{}, m[:p]...), seq...), m[p:]...)
		return out, "invalid-seq-inserted"
	case 5: // valid multi-byte character inside (must NOT match anywhere)
		p := rapid.IntRange(1, len(m)-1).Draw(t, "insAt")
		out := append(append(append([]byte{}, m[:p]...), []byte("é")...), m[p:]...)
		return out, "valid-char-inserted"
	case 6:
		return bytes.ToUpper(m), "upper"
	case 7:
		p := rapid.IntRange(0, len(m)-1).Draw(t, "dropAt")
		return append(append([]byte{}, m[:p]...), m[p+1:]...), "one-byte-dropped"
	case 8:
		return []byte(`'kfs_lfs'`), "single-quoted"
	default:
		return nil, "none"
	}
}

// c29DropInvalid removes every byte that is not part of a valid UTF-8 sequence (what
// bytes.decode("utf-8", errors="ignore") does).
func c29DropInvalid(b []byte) []byte {
	out := make([]byte, 0, len(b))
	for i := 0; i < len(b); {
		r, n := utf8.DecodeRune(b[i:])
		if !(r == utf8.RuneError && n == 1) {
			out = append(out, b[i:i+n]...)
		}
		i += n
	}
	return out
}

func c29Window(v []byte) []byte {
	if len(v) > c29DetectWindow {
		return v[:c29DetectWindow]
	}
	return v
}

// predicates of the two known findings (exactly the inputs that are excluded when listed)
func c29IsJSMinLenCase(v []byte) bool {
	return len(v) > 0 && len(v) < c29DetectMinBytes && v[0] == '{' && bytes.Contains(v, []byte(c29MarkerLiteral))
}

func c29IsPyIgnoreCase(v []byte) bool {
	if len(v) < c29DetectMinBytes || v[0] != '{' {
		return false
	}
	w := c29Window(v)
	return !bytes.Contains(w, []byte(c29MarkerLiteral)) && bytes.Contains(c29DropInvalid(w), []byte(c29MarkerLiteral))
}

func c29GenBytes(t *rapid.T) ([]byte, string) {
	switch rapid.IntRange(0, 9).Draw(t, "shape") {
	case 0: // short arbitrary bytes
		n := rapid.IntRange(0, 16).Draw(t, "n")
		return rapid.SliceOfN(rapid.Byte(), n, n).Draw(t, "raw"), "short-random"
	case 1: // arbitrary bytes around the window size
		n := rapid.IntRange(45, 55).Draw(t, "n")
		b := rapid.SliceOfN(rapid.Byte(), n, n).Draw(t, "raw")
		if rapid.Bool().Draw(t, "brace") && n > 0 {
			b[0] = '{'
		}
		return b, "window-random"
	case 2: // truncated real envelope
		e := c29GenEnvelope(t)
		raw, err := EncodeEnvelope(e)
		if err != nil {
			return []byte("{}"), "truncated-envelope"
		}
		n := rapid.IntRange(0, 60).Draw(t, "cut")
		if n > len(raw) {
			n = len(raw)
		}
		return raw[:n], "truncated-envelope"
	case 3: // other JSON documents
		return []byte(rapid.SampledFrom([]string{`{}`, `{"a":1}`, `{"kfs_lfs":1}`, `{"kfs_lfs"}`, `{"kfs_lfs":1,"b":1}`, `{"kfs_lfs":12,"b":1}`,
			`{ "kfs_lfs" : 1, "bucket": "b", "key": "k", "sha256": "s" }`, `[{"kfs_lfs":1,"bucket":"b"}]`, `"kfs_lfs" {"kfs_lfs":1,"bucket":"b"}`,
			`{"kfs_lfs_v2":1,"bucket":"bucket"}`, `{"x":"\"kfs_lfs\"","bucket":"bucket"}`, `{"kfs_lfs":1,"bucket":"bb"}`}).Draw(t, "json")), "json-literal"
	default: // first byte + padding + marker variant + tail, marker placed around both boundaries
		first := rapid.SampledFrom([]string{"{", "{", "{", "{", "{", "", " {", "\xef\xbb\xbf{", "[", "\x00{"}).Draw(t, "first")
		pad := rapid.OneOf(rapid.IntRange(0, 6), rapid.IntRange(30, 44), rapid.IntRange(38, 52), rapid.IntRange(0, 60)).Draw(t, "pad")
		padding := c29Fill(t, pad, "padding")
		if rapid.IntRange(0, 2).Draw(t, "cleanPad") > 0 { // mostly marker-free ASCII padding so the marker position decides
			for i := range padding {
				padding[i] = ' '
			}
		}
		m, kind := c29MarkerVariant(t)
		tail := c29Fill(t, rapid.OneOf(rapid.IntRange(0, 4), rapid.IntRange(0, 20)).Draw(t, "tailLen"), "tail")
		v := append(append(append([]byte(first), padding...), m...), tail...)
		return v, "built/" + kind
	}
}

type c29CountingFetcher struct{ calls int }

func (f *c29CountingFetcher) Fetch(ctx context.Context, key string) ([]byte, error) {
	f.calls++
	return nil, fmt.Errorf("c29: storage must not be consulted for a non-envelope value")
}
func (f *c29CountingFetcher) Stream(ctx context.Context, key string) (io.ReadCloser, int64, error) {
	f.calls++
	return nil, 0, fmt.Errorf("c29: storage must not be consulted for a non-envelope value")
}

// c29CheckDetect runs one byte string through the three SDKs; returns a violation text.
func c29CheckDetect(st *vfkit.Stats, sdks *c29SDKs, v []byte, honourKnown bool) (violation string, inconclusive error, answers map[string]bool) {
	v0 := v
	goIs := IsLfsEnvelope(v)
	answers = map[string]bool{"go": goIs}
	// Go readers pass a non-envelope value through unchanged and do not touch storage.
	if !goIs {
		f := &c29CountingFetcher{}
		res, ok, err := NewResolver(ResolverConfig{ValidateChecksum: true}, f).Resolve(context.Background(), v)
		if ok || err != nil || !bytes.Equal(res.Payload, v) || f.calls != 0 {
			return fmt.Sprintf("Go Resolver did not pass the non-envelope value %q through unchanged: ok=%v err=%v payload=%q storageCalls=%d", v, ok, err, res.Payload, f.calls), nil, answers
		}
		env, out, err := NewConsumer(f).Unwrap(context.Background(), v)
		if env != nil || err != nil || !bytes.Equal(out, v) || f.calls != 0 {
			return fmt.Sprintf("Go Consumer did not pass the non-envelope value %q through unchanged: env=%v err=%v out=%q", v, env, err, out), nil, answers
		}
	}
	for _, w := range []*c29Worker{sdks.py, sdks.js} {
		if w == nil {
			continue
		}
		a, err := w.ask(v)
		if err != nil {
			return "", err, answers
		}
		answers[w.name] = *a.Is
		if v := a.representationViolation(w.name, v0); v != "" {
			return v, nil, answers
		}
	}
	skipJS := honourKnown && vfkit.Known(c29KnownJSMinLen) && c29IsJSMinLenCase(v)
	skipPy := honourKnown && vfkit.Known(c29KnownPyIgnore) && c29IsPyIgnoreCase(v)
	if skipJS {
		st.ExcludedCase(c29KnownJSMinLen)
	}
	if skipPy {
		st.ExcludedCase(c29KnownPyIgnore)
	}
	if pyIs, ok := answers["python"]; ok && !skipPy && pyIs != goIs {
		return fmt.Sprintf("SDKs disagree on %q (hex %x): go=%v python=%v js=%v", v, v, goIs, pyIs, answers["js"]), nil, answers
	}
	if jsIs, ok := answers["js"]; ok && !skipJS && jsIs != goIs {
		return fmt.Sprintf("SDKs disagree on %q (hex %x): go=%v python=%v js=%v", v, v, goIs, answers["python"], jsIs), nil, answers
	}
	return "", nil, answers
}

// TestVF_C29_Detect: all three SDKs give the same answer for every byte string.
func TestVF_C29_Detect(t *testing.T) {
	st := vfkit.NewStats("C29", "detect")
	defer st.Flush()
	sdks := c29StartSDKs(t, st)
	defer sdks.stop()
	rapid.Check(t, func(t *rapid.T) {
		st.Eval()
		v, shape := c29GenBytes(t)
		st.Class("shape:" + shape)
		viol, inc, ans := c29CheckDetect(st, sdks, v, true)
		if inc != nil {
			fmt.Println("VF-INCONCLUSIVE:", inc)
			t.Fatalf("%v", inc)
		}
		if ans["go"] {
			st.Class("go-says-envelope")
		} else {
			st.Class("go-says-plain")
		}
		w := c29Window(v)
		idx := bytes.Index(v, []byte(c29MarkerLiteral))
		switch {
		case idx < 0:
			st.Class("marker:absent")
		case idx+len(c29MarkerLiteral) <= c29DetectWindow:
			st.Class("marker:inside-window")
		case idx < c29DetectWindow:
			st.Class("marker:straddles-window-end")
		default:
			st.Class("marker:after-window")
		}
		if len(v) < c29DetectMinBytes {
			st.Class("len<15")
		}
		if !utf8.Valid(w) {
			st.Class("window-has-invalid-utf8")
		}
		if viol != "" {
			t.Fatalf("%s", viol)
		}
		if len(v) > 0 && v[0] == '{' {
			st.NonTrivial(hex.EncodeToString(v))
			st.Sample(map[string]any{"bytes": fmt.Sprintf("%q", v), "go": ans["go"], "python": ans["python"], "js": ans["js"]})
		}
	})
}

// TestVF_C29_Witness replays the minimal witnesses of the listed findings.
func TestVF_C29_Witness(t *testing.T) {
	st := vfkit.NewStats("C29", "witness")
	defer st.Flush()
	sdks := c29StartSDKs(t, st)
	defer sdks.stop()
	cases := []struct {
		id    string
		value []byte
		sdk   string
	}{
		{c29KnownJSMinLen, []byte(`{"kfs_lfs":1}`), "js"},
		{c29KnownPyIgnore, []byte("{\"kfs\xff_lfs\":1,\"bucket\":\"b\",\"key\":\"k\",\"sha256\":\"s\"}"), "python"},
	}
	for _, c := range cases {
		st.Eval()
		viol, inc, ans := c29CheckDetect(st, sdks, c.value, false)
		if inc != nil {
			fmt.Println("VF-INCONCLUSIVE:", inc)
			t.Fatalf("%v", inc)
		}
		if _, ran := ans[c.sdk]; !ran {
			st.Note("witness-"+c.id, "not evaluated: "+c.sdk+" interpreter missing")
			continue
		}
		st.NonTrivial(c.id)
		st.Sample(map[string]any{"witness": fmt.Sprintf("%q", c.value), "go": ans["go"], "python": ans["python"], "js": ans["js"]})
		st.KnownResult(c.id, viol != "", fmt.Sprintf("%q: go=%v python=%v js=%v", c.value, ans["go"], ans["python"], ans["js"]))
	}
}
