//go:build verif

package lfs

// C30 (readers part): with checksum validation on, Resolver.Resolve, Consumer.Unwrap,
// Record.Value (and a fully read + closed Record.ValueStream) hand out a blob only if its
// digest matches the checksum the envelope declares, and only within ResolverConfig.MaxSize.
// The oracle recomputes digests with the standard library and never calls
// EnvelopeChecksum / ComputeChecksum.

import (
	"bytes"
	"context"
	"crypto/md5"
	"crypto/sha256"
	"encoding/hex"
	"errors"
	"fmt"
	"hash/crc32"
	"io"
	"os"
	"strconv"
	"strings"
	"testing"

	"pgregory.net/rapid"
	"verif.local/vfkit"
)

var (
	c30Algs      = []string{"", "sha256", "SHA256", " sha256 ", "md5", "MD5", "crc32", "none", "NONE", " none", "sha1", "unknown", "sha-256"}
	c30CkKinds   = []string{"correct", "wrong", "empty", "upper", "other-alg", "prefix", "suffix-junk"}
	c30ShaKinds  = []string{"correct", "wrong", "upper", "prefix"}
	c30Storage   = []string{"exact", "bitflip", "truncated", "extended", "empty", "error", "other"}
	c30MaxKinds  = []string{"none", "below", "at", "above"}
	c30ErrInject = errors.New("c30: injected storage error")
)

type c30Case struct {
	Alg     string `json:"alg"`
	Ck      string `json:"checksum"`
	Sha     string `json:"sha256"`
	Storage string `json:"storage"`
	Max     string `json:"max"`
	Blob    []byte `json:"-"`
	BlobLen int    `json:"blob_len"`
	SizeOK  bool   `json:"declared_size_ok"`
}

func c30NormAlg(raw string) (string, bool) {
	v := strings.ToLower(strings.TrimSpace(raw))
	if v == "" {
		return "sha256", true
	}
	switch v {
	case "sha256", "md5", "crc32", "none":
		return v, true
	}
	return v, false
}

func c30Digest(alg string, b []byte) string {
	switch alg {
	case "md5":
		s := md5.Sum(b)
		return hex.EncodeToString(s[:])
	case "crc32":
		return fmt.Sprintf("%08x", crc32.ChecksumIEEE(b))
	default:
		s := sha256.Sum256(b)
		return hex.EncodeToString(s[:])
	}
}

func c30Wrong(h string) string {
	if h == "" {
		return "00"
	}
	b := []byte(h)
	if b[len(b)-1] == '0' {
		b[len(b)-1] = '1'
	} else {
		b[len(b)-1] = '0'
	}
	return string(b)
}

type c30Store struct {
	body  []byte
	err   error
	calls []string
}

func (s *c30Store) Fetch(ctx context.Context, key string) ([]byte, error) {
	s.calls = append(s.calls, key)
	if s.err != nil {
		return nil, s.err
	}
	return append([]byte(nil), s.body...), nil
}

func (s *c30Store) Stream(ctx context.Context, key string) (io.ReadCloser, int64, error) {
	s.calls = append(s.calls, key)
	if s.err != nil {
		return nil, 0, s.err
	}
	// one byte at a time through iotest-like reader would be slow; hand out small chunks
	return io.NopCloser(&c30ChunkReader{b: append([]byte(nil), s.body...)}), int64(len(s.body)), nil
}

type c30ChunkReader struct {
	b []byte
	p int
}

func (r *c30ChunkReader) Read(p []byte) (int, error) {
	if r.p >= len(r.b) {
		return 0, io.EOF
	}
	n := 7
	if n > len(p) {
		n = len(p)
	}
	if n > len(r.b)-r.p {
		n = len(r.b) - r.p
	}
	copy(p, r.b[r.p:r.p+n])
	r.p += n
	return n, nil
}

// c30Build materialises a case: the envelope bytes, what storage returns and MaxSize.
func c30Build(c c30Case) (env Envelope, raw []byte, stored []byte, storeErr error, maxSize int64) {
	norm, valid := c30NormAlg(c.Alg)
	algForCk := norm
	if !valid || norm == "none" {
		algForCk = "sha256"
	}
	correct := c30Digest(algForCk, c.Blob)
	var ck string
	switch c.Ck {
	case "correct":
		ck = correct
	case "wrong":
		ck = c30Wrong(correct)
	case "empty":
		ck = ""
	case "upper":
		ck = strings.ToUpper(correct)
	case "other-alg":
		if algForCk == "sha256" {
			ck = c30Digest("md5", c.Blob)
		} else {
			ck = c30Digest("sha256", c.Blob)
		}
	case "prefix":
		ck = correct[:len(correct)/2]
	case "suffix-junk":
		ck = correct + "00"
	}
	shaOK := c30Digest("sha256", c.Blob)
	var sha string
	switch c.Sha {
	case "correct":
		sha = shaOK
	case "wrong":
		sha = c30Wrong(shaOK)
	case "upper":
		sha = strings.ToUpper(shaOK)
	case "prefix":
		sha = shaOK[:32]
	}
	size := int64(len(c.Blob))
	if !c.SizeOK {
		size += 3
	}
	env = Envelope{Version: 1, Bucket: "bkt", Key: "default/topic/lfs/2026/01/02/obj-" + strconv.Itoa(len(c.Blob)), Size: size, SHA256: sha,
		Checksum: ck, ChecksumAlg: c.Alg, ContentType: "application/octet-stream"}
	raw, err := EncodeEnvelope(env)
	if err != nil {
		panic("c30 harness: EncodeEnvelope: " + err.Error())
	}
	switch c.Storage {
	case "exact":
		stored = append([]byte(nil), c.Blob...)
	case "bitflip":
		stored = append([]byte(nil), c.Blob...)
		if len(stored) == 0 {
			stored = []byte{1}
		} else {
			stored[len(stored)/2] ^= 0x10
		}
	case "truncated":
		stored = append([]byte(nil), c.Blob[:len(c.Blob)/2]...)
		if len(c.Blob) == 0 {
			stored = []byte{}
		}
	case "extended":
		stored = append(append([]byte(nil), c.Blob...), 0x00)
	case "empty":
		stored = []byte{}
	case "error":
		storeErr = c30ErrInject
	case "other":
		stored = []byte("completely different object content")
	}
	switch c.Max {
	case "none":
		maxSize = 0
	case "below":
		maxSize = int64(len(stored)) - 1
		if maxSize <= 0 { // MaxSize<=0 means "no limit"; keep the class meaningful
			maxSize = 0
		}
	case "at":
		maxSize = int64(len(stored))
	case "above":
		maxSize = int64(len(stored)) + 1
	}
	return
}

const c30KnownNone = "C30-alg-none-skips-declared-sha256"

// c30AllowedRaw decides, independently of the code under test, whether handing out payload p
// is permitted by the envelope (and why not). noneSha reports that the only reason is:
// checksum_alg is "none" but the payload fails the sha256 the envelope declares.
func c30AllowedRaw(env Envelope, p []byte, maxSize int64) (ok bool, why string, noneSha bool) {
	norm, valid := c30NormAlg(env.ChecksumAlg)
	if !valid {
		return false, "unsupported checksum algorithm " + strconv.Quote(env.ChecksumAlg) + " must be rejected", false
	}
	if maxSize > 0 && int64(len(p)) > maxSize {
		return false, fmt.Sprintf("payload of %d bytes exceeds MaxSize %d", len(p), maxSize), false
	}
	if norm == "none" {
		// "none" means the producer asked for no EXTRA checksum; the mandatory sha256 field is
		// still a checksum the envelope declares
		if env.SHA256 != "" {
			if got := c30Digest("sha256", p); !strings.EqualFold(got, env.SHA256) {
				return false, fmt.Sprintf("checksum_alg is none but the envelope declares sha256 %s and the payload hashes to %s", env.SHA256, got), true
			}
		}
		return true, "", false
	}
	alg, declared := norm, env.Checksum
	if declared == "" {
		alg, declared = "sha256", env.SHA256
	}
	if declared == "" {
		return true, "", false
	}
	if got := c30Digest(alg, p); !strings.EqualFold(got, declared) {
		return false, fmt.Sprintf("%s digest of the payload is %s but the envelope declares %s", alg, got, declared), false
	}
	return true, "", false
}

// c30Allowed applies the oracle; the predicate of the listed finding (alg none + payload failing
// the declared sha256) is excluded only while it is listed.
func c30Allowed(st *vfkit.Stats, env Envelope, p []byte, maxSize int64) (bool, string) {
	ok, why, noneSha := c30AllowedRaw(env, p, maxSize)
	if !ok && noneSha && vfkit.Known(c30KnownNone) {
		st.ExcludedCase(c30KnownNone)
		return true, ""
	}
	return ok, why
}

// c30RunReaders drives every reader over one case; returns a violation text or "".
func c30RunReaders(st *vfkit.Stats, c c30Case) string {
	env, raw, stored, storeErr, maxSize := c30Build(c)
	ctx := context.Background()
	tampered := storeErr == nil && !bytes.Equal(stored, c.Blob)
	accepted := 0

	check := func(who string, payload []byte, limit int64) string {
		accepted++
		if !bytes.Equal(payload, stored) {
			return fmt.Sprintf("%s returned %d bytes that are not what storage returned (%d bytes)", who, len(payload), len(stored))
		}
		if ok, why := c30Allowed(st, env, payload, limit); !ok {
			return fmt.Sprintf("%s returned a blob although %s (case %+v, envelope %s)", who, why, c, raw)
		}
		return ""
	}

	// Resolver
	s1 := &c30Store{body: stored, err: storeErr}
	res, isEnv, err := NewResolver(ResolverConfig{MaxSize: maxSize, ValidateChecksum: true}, s1).Resolve(ctx, raw)
	if !isEnv {
		return fmt.Sprintf("Resolver did not treat a produced envelope as an envelope: %s", raw)
	}
	if err == nil {
		if v := check("Resolver.Resolve", res.Payload, maxSize); v != "" {
			return v
		}
		if res.BlobSize != int64(len(res.Payload)) {
			return fmt.Sprintf("Resolver BlobSize %d != len(payload) %d", res.BlobSize, len(res.Payload))
		}
	} else if storeErr != nil && !errors.Is(err, c30ErrInject) {
		st.Class("resolver-masks-storage-error")
	}
	// Consumer (validation is on by default and also when requested explicitly)
	for i, cons := range []*Consumer{NewConsumer(&c30Store{body: stored, err: storeErr}), NewConsumer(&c30Store{body: stored, err: storeErr}, WithChecksumValidation(true))} {
		e2, blob, err := cons.Unwrap(ctx, raw)
		if err == nil {
			if e2 == nil {
				return "Consumer.Unwrap returned a blob without the envelope"
			}
			if v := check(fmt.Sprintf("Consumer.Unwrap[%d]", i), blob, 0); v != "" {
				return v
			}
		} else if blob != nil {
			return fmt.Sprintf("Consumer.Unwrap returned both an error (%v) and %d payload bytes", err, len(blob))
		}
	}
	// Record.Value (cached: ask twice)
	rec := NewRecord(raw, NewConsumer(&c30Store{body: stored, err: storeErr}))
	for i := 0; i < 2; i++ {
		v, err := rec.Value(ctx)
		if err == nil {
			if msg := check("Record.Value", v, 0); msg != "" {
				return msg
			}
		} else if v != nil {
			return fmt.Sprintf("Record.Value returned both an error (%v) and %d payload bytes", err, len(v))
		}
	}
	// Record.ValueStream: the contract is "validated on Close". Whatever way the caller
	// pulls the complete payload out of the stream - read to EOF, read exactly the length
	// the stream announced, copy exactly the size the envelope declares - a Close() that
	// reports no error means the payload in the caller's hands passed validation.
	for _, style := range []string{"ReadAll", "ReadFull(announced length)", "CopyN(envelope size)", "small reads to announced length"} {
		rec2 := NewRecord(raw, nil, WithStreamFetcher(&c30Store{body: stored, err: storeErr}))
		rd, announced, err := rec2.ValueStream(ctx)
		if err != nil {
			continue
		}
		var got []byte
		var rerr error
		complete := true
		switch style {
		case "ReadAll":
			got, rerr = io.ReadAll(rd)
		case "ReadFull(announced length)":
			got = make([]byte, announced)
			_, rerr = io.ReadFull(rd, got)
		case "CopyN(envelope size)":
			var buf bytes.Buffer
			_, rerr = io.CopyN(&buf, rd, env.Size)
			got = buf.Bytes()
			// only a copy that covers the whole stored object is "the payload"
			complete = int64(len(got)) == int64(len(stored))
		default:
			got = make([]byte, 0, announced)
			tmp := make([]byte, 3)
			for int64(len(got)) < announced && rerr == nil {
				want := announced - int64(len(got))
				if want > 3 {
					want = 3
				}
				var k int
				k, rerr = rd.Read(tmp[:want])
				got = append(got, tmp[:k]...)
			}
			if rerr == io.EOF {
				rerr = nil
			}
		}
		cerr := rd.Close()
		if rerr == nil && cerr == nil && complete {
			if msg := check("Record.ValueStream("+style+", Close()==nil)", got, 0); msg != "" {
				return msg
			}
		}
	}

	if accepted > 0 {
		st.Class("outcome:accepted")
	} else {
		st.Class("outcome:rejected")
	}
	if tampered {
		st.Class("storage-differs-from-envelope")
	}
	return ""
}

func c30NonTrivial(c c30Case) bool {
	return c.Storage != "exact" || c.Ck != "correct" || c.Sha != "correct" || !c.SizeOK
}

func TestVF_C30_Readers(t *testing.T) {
	st := vfkit.NewStats("C30", "readers")
	defer st.Flush()
	rapid.Check(t, func(t *rapid.T) {
		st.Eval()
		c := c30Case{
			Alg:     rapid.SampledFrom(c30Algs).Draw(t, "alg"),
			Ck:      rapid.SampledFrom(c30CkKinds).Draw(t, "checksum"),
			Sha:     rapid.SampledFrom(c30ShaKinds).Draw(t, "sha256"),
			Storage: rapid.SampledFrom(c30Storage).Draw(t, "storage"),
			Max:     rapid.SampledFrom(c30MaxKinds).Draw(t, "max"),
			SizeOK:  rapid.IntRange(0, 3).Draw(t, "sizeOK") > 0,
		}
		n := rapid.OneOf(rapid.IntRange(0, 4), rapid.IntRange(0, 64), rapid.IntRange(0, 5000)).Draw(t, "blobLen")
		c.Blob = rapid.SliceOfN(rapid.Byte(), n, n).Draw(t, "blob")
		c.BlobLen = n
		st.Class("alg:" + strconv.Quote(c.Alg))
		st.Class("checksum:" + c.Ck)
		st.Class("storage:" + c.Storage)
		st.Class("max:" + c.Max)
		if v := c30RunReaders(st, c); v != "" {
			t.Fatalf("%s", v)
		}
		if c30NonTrivial(c) {
			st.NonTrivial(c.Alg, c.Ck, c.Sha, c.Storage, c.Max, c.SizeOK, hex.EncodeToString(c.Blob))
			st.Sample(c)
		}
	})
}

// TestVF_C30_ReadersEnum enumerates the full product of the generator classes for a few
// fixed blobs (no sampling gaps in the class space).
func TestVF_C30_ReadersEnum(t *testing.T) {
	st := vfkit.NewStats("C30", "readers-enum")
	defer st.Flush()
	blobs := [][]byte{{}, []byte("x"), []byte("hello large file payload 0123456789"), bytes.Repeat([]byte{0xab, 0x00, 0xff}, 100)}
	if os.Getenv("VERIF_TIER") == "thorough" {
		blobs = append(blobs, bytes.Repeat([]byte("0123456789abcdef"), 256), []byte{0}, []byte("\x00\x00"))
	}
	for _, blob := range blobs {
		for _, alg := range c30Algs {
			for _, ck := range c30CkKinds {
				for _, sha := range c30ShaKinds {
					for _, stg := range c30Storage {
						for _, mx := range c30MaxKinds {
							for _, sizeOK := range []bool{len(blob)%2 == 0} { // readers ignore the declared size; both values appear across blobs
								st.Eval()
								c := c30Case{Alg: alg, Ck: ck, Sha: sha, Storage: stg, Max: mx, SizeOK: sizeOK, Blob: blob, BlobLen: len(blob)}
								if v := c30RunReaders(st, c); v != "" {
									t.Fatalf("%s", v)
								}
								if c30NonTrivial(c) {
									st.NonTrivial(alg, ck, sha, stg, mx, sizeOK, len(blob))
									st.Sample(c)
								}
							}
						}
					}
				}
			}
		}
	}
	st.Note("enumerated", "blobs x algs x checksum kinds x sha256 kinds x storage outcomes x MaxSize kinds x declared size ok/wrong")
}

// TestVF_C30_WitnessLfs replays the witness of the listed reader finding.
func TestVF_C30_WitnessLfs(t *testing.T) {
	st := vfkit.NewStats("C30", "witness-lfs")
	defer st.Flush()
	st.Eval()
	blob := []byte("the bytes the producer uploaded")
	env := Envelope{Version: 1, Bucket: "bkt", Key: "default/topic/lfs/2026/01/02/obj-w", Size: int64(len(blob)), SHA256: c30Digest("sha256", blob), ChecksumAlg: "none"}
	raw, err := EncodeEnvelope(env)
	if err != nil {
		t.Fatalf("encode: %v", err)
	}
	tampered := []byte("an object somebody put there later")
	res, _, rerr := NewResolver(ResolverConfig{ValidateChecksum: true}, &c30Store{body: tampered}).Resolve(context.Background(), raw)
	_, blob2, cerr := NewConsumer(&c30Store{body: tampered}, WithChecksumValidation(true)).Unwrap(context.Background(), raw)
	still := false
	what := ""
	if rerr == nil {
		if ok, why, _ := c30AllowedRaw(env, res.Payload, 0); !ok {
			still, what = true, "Resolver: "+why
		}
	}
	if cerr == nil && blob2 != nil {
		if ok, why, _ := c30AllowedRaw(env, blob2, 0); !ok {
			still, what = true, what+" Consumer: "+why
		}
	}
	st.NonTrivial("witness-none")
	st.Sample(map[string]any{"envelope": string(raw), "stored": string(tampered), "resolver_err": fmt.Sprint(rerr), "consumer_err": fmt.Sprint(cerr)})
	st.KnownResult(c30KnownNone, still, "checksum_alg none + sha256 declared, object replaced -> "+what)
}
