//go:build verif

package storage

// C07, root-module legs.
//
//	structure: client batches (independent vfkit encoder, base offset 0) go through the
//	  broker's own path NewRecordBatchFromBytes -> PatchRecordBatchBaseOffset -> BuildSegment;
//	  the resulting segment / index bytes are checked with the independent codec: header
//	  fields, footer last offset, CRC-32C over the body, body == independently encoded
//	  batches, index entries strictly increasing and pointing at batch starts.
//	pitr: the restore scanner (collectRecoverableBatches / scanRecord) over the same
//	  segments recovers exactly the batches (cutoff = +inf) or an exact record prefix
//	  (cutoff inside the segment), compared record by record with what was generated.

import (
	"bytes"
	"context"
	"encoding/binary"
	"fmt"
	"math"
	"sort"
	"strings"
	"testing"
	"time"

	"pgregory.net/rapid"
	"verif.local/vfkit"
)

// c07Build runs the broker's serialization path over the generated client batches.
func c07Build(c c07Case, interval int32, created time.Time) (*SegmentArtifact, error) {
	rbs := make([]RecordBatch, 0, len(c.Client))
	for i, enc := range c.Client {
		rb, err := NewRecordBatchFromBytes(enc)
		if err != nil {
			return nil, fmt.Errorf("NewRecordBatchFromBytes(batch %d): %v", i, err)
		}
		PatchRecordBatchBaseOffset(&rb, c.Bases[i])
		rbs = append(rbs, rb)
	}
	return BuildSegment(SegmentWriterConfig{IndexIntervalMessages: interval}, rbs, created)
}

func c07RecEq(got vfkit.Record, base, firstTs int64, want c07Rec) string {
	if base+int64(got.OffsetDelta) != want.Offset {
		return fmt.Sprintf("offset %d want %d", base+int64(got.OffsetDelta), want.Offset)
	}
	if firstTs+got.TsDelta != want.Timestamp {
		return fmt.Sprintf("timestamp %d want %d", firstTs+got.TsDelta, want.Timestamp)
	}
	if !c07BytesEq(got.Key, want.Key) {
		return fmt.Sprintf("key %s want %s", c07Show(got.Key), c07Show(want.Key))
	}
	if !c07BytesEq(got.Value, want.Value) {
		return fmt.Sprintf("value %s want %s", c07Show(got.Value), c07Show(want.Value))
	}
	if len(got.Headers) != len(want.Headers) {
		return fmt.Sprintf("%d headers want %d", len(got.Headers), len(want.Headers))
	}
	for i := range got.Headers {
		if got.Headers[i].Key != want.Headers[i].Key || !c07BytesEq(got.Headers[i].Value, want.Headers[i].Value) {
			return fmt.Sprintf("header %d = (%q,%s) want (%q,%s)", i, got.Headers[i].Key, c07Show(got.Headers[i].Value), want.Headers[i].Key, c07Show(want.Headers[i].Value))
		}
	}
	return ""
}

func TestVF_C07_Structure(t *testing.T) {
	st := vfkit.NewStats("C07", "structure")
	defer st.Flush()
	rapid.Check(t, func(t *rapid.T) {
		st.Eval()
		c := c07GenCase(t, false)
		interval := rapid.SampledFrom([]int32{0, 1, 7, 100}).Draw(t, "interval")
		created := time.UnixMilli(rapid.Int64Range(0, 1<<42).Draw(t, "createdMs"))
		art, err := c07Build(c, interval, created)
		if err != nil {
			t.Fatalf("BuildSegment rejected well-formed batches: %v", err)
		}
		for _, f := range c07FlagList(c) {
			st.Class(f)
		}
		st.Class(fmt.Sprintf("interval-%d", interval))
		st.Class(fmt.Sprintf("batches-%d", len(c.Client)))

		nb := len(c.Client)
		var total int32
		var wantBody []byte
		starts := map[int32]int64{} // file position of a batch start -> its base offset
		for i := range c.Want {
			starts[int32(32+len(wantBody))] = c.Bases[i]
			wantBody = append(wantBody, c.Want[i]...)
			total += c.Counts[i]
		}
		wantLast := c.Bases[nb-1] + int64(c.Counts[nb-1]) - 1
		seg := art.SegmentBytes

		// ---- artifact metadata
		if art.BaseOffset != c.Bases[0] || art.LastOffset != wantLast || art.MessageCount != total {
			t.Fatalf("artifact metadata base=%d last=%d count=%d, want base=%d last=%d count=%d", art.BaseOffset, art.LastOffset, art.MessageCount, c.Bases[0], wantLast, total)
		}
		// ---- segment bytes, independent reader
		if len(seg) != 32+len(wantBody)+16 {
			t.Fatalf("segment is %d bytes, want 32+%d+16", len(seg), len(wantBody))
		}
		info, err := vfkit.DecodeSegment(seg)
		if err != nil {
			t.Fatalf("independent segment reader rejects the broker-written segment: %v", err)
		}
		if info.Version != 1 {
			t.Fatalf("header version %d, want 1", info.Version)
		}
		if info.BaseOffset != c.Bases[0] {
			t.Fatalf("header base offset %d, want %d", info.BaseOffset, c.Bases[0])
		}
		if info.MessageCount != total {
			t.Fatalf("header message count %d, want %d", info.MessageCount, total)
		}
		if info.CreatedMs != created.UnixMilli() {
			t.Fatalf("header created %d, want %d", info.CreatedMs, created.UnixMilli())
		}
		if info.LastOffset != wantLast {
			t.Fatalf("footer last offset %d, want %d", info.LastOffset, wantLast)
		}
		if !bytes.Equal(info.Body, wantBody) {
			t.Fatalf("segment body differs from the independently encoded batches (len %d vs %d)", len(info.Body), len(wantBody))
		}
		// records as decoded by the independent codec == generated records
		k := 0
		for bi, b := range info.Batches {
			for _, r := range b.Records {
				if k >= len(c.Recs) {
					t.Fatalf("segment holds more records than were produced")
				}
				if d := c07RecEq(r, b.BaseOffset, b.FirstTimestamp, c.Recs[k]); d != "" {
					t.Fatalf("batch %d record %d: %s", bi, k, d)
				}
				k++
			}
		}
		if k != len(c.Recs) {
			t.Fatalf("segment holds %d records, %d were produced", k, len(c.Recs))
		}
		// the broker's own footer / header readers agree
		if lo, err := parseSegmentFooter(seg[len(seg)-segmentFooterLen:]); err != nil || lo != wantLast {
			t.Fatalf("parseSegmentFooter = %d,%v want %d", lo, err, wantLast)
		}
		if ct, err := parseSegmentHeaderCreatedAt(seg[:segmentHeaderLen]); err != nil || ct.UnixMilli() != created.UnixMilli() {
			t.Fatalf("parseSegmentHeaderCreatedAt = %v,%v want %v", ct, err, created.UTC())
		}

		// ---- index
		idx := art.IndexBytes
		if len(idx) < 16 || string(idx[:4]) != "IDX\x00" {
			t.Fatalf("index header magic wrong: % x", idx[:min(len(idx), 16)])
		}
		if v := binary.BigEndian.Uint16(idx[4:]); v != 1 {
			t.Fatalf("index version %d, want 1", v)
		}
		cnt := int(int32(binary.BigEndian.Uint32(idx[6:])))
		if cnt < 1 || len(idx) != 16+12*cnt {
			t.Fatalf("index count %d does not match %d index bytes", cnt, len(idx))
		}
		parsed, err := ParseIndex(idx)
		if err != nil {
			t.Fatalf("ParseIndex rejects the broker-written index: %v", err)
		}
		if len(parsed) != cnt || len(art.RelativeIndex) != cnt {
			t.Fatalf("index entry counts differ: header %d parsed %d artifact %d", cnt, len(parsed), len(art.RelativeIndex))
		}
		var prevOff int64
		var prevPos int32
		for i := 0; i < cnt; i++ {
			off := int64(binary.BigEndian.Uint64(idx[16+12*i:]))
			pos := int32(binary.BigEndian.Uint32(idx[16+12*i+8:]))
			if parsed[i].Offset != off || parsed[i].Position != pos || art.RelativeIndex[i].Offset != off || art.RelativeIndex[i].Position != pos {
				t.Fatalf("index entry %d: bytes say (%d,%d), ParseIndex (%d,%d), artifact (%d,%d)", i, off, pos, parsed[i].Offset, parsed[i].Position, art.RelativeIndex[i].Offset, art.RelativeIndex[i].Position)
			}
			base, ok := starts[pos]
			if !ok {
				t.Fatalf("index entry %d position %d is not the start of a batch (starts: %v)", i, pos, starts)
			}
			if base != off {
				t.Fatalf("index entry %d says offset %d at position %d but the batch there has base offset %d", i, off, pos, base)
			}
			if i > 0 && (off <= prevOff || pos <= prevPos) {
				t.Fatalf("index entries not strictly increasing: (%d,%d) after (%d,%d)", off, pos, prevOff, prevPos)
			}
			prevOff, prevPos = off, pos
		}
		if parsed[0].Offset != c.Bases[0] || parsed[0].Position != 32 {
			t.Fatalf("first index entry (%d,%d) does not point at the first batch (%d,32)", parsed[0].Offset, parsed[0].Position, c.Bases[0])
		}
		st.ClassN("index-entries", cnt)

		if c07NonTrivial(c) {
			st.NonTrivial(c.Shape, c.Bases[0], c07FlagList(c), interval)
			st.Sample(c07Sample(c, map[string]any{"interval": interval, "index_entries": cnt, "segment_bytes": len(seg)}))
		}
	})
}

func TestVF_C07_PITR(t *testing.T) {
	st := vfkit.NewStats("C07", "pitr")
	defer st.Flush()
	rapid.Check(t, func(t *rapid.T) {
		st.Eval()
		c := c07GenCase(t, false)
		interval := rapid.SampledFrom([]int32{1, 7, 100}).Draw(t, "interval")
		art, err := c07Build(c, interval, time.UnixMilli(1726000000000))
		if err != nil {
			t.Fatalf("BuildSegment rejected well-formed batches: %v", err)
		}
		for _, f := range c07FlagList(c) {
			st.Class(f)
		}
		seg := art.SegmentBytes

		// (a) scanRecord on every record as encoded by the independent codec
		for i, enc := range c.RecEnc {
			rd := bytes.NewReader(enc)
			td, od, err := scanRecord(rd)
			if err != nil {
				t.Fatalf("scanRecord(record %d): %v", i, err)
			}
			if td != c.RecDelta[i][0] || int64(od) != c.RecDelta[i][1] {
				t.Fatalf("scanRecord(record %d) = (tsDelta %d, offsetDelta %d), produced (%d,%d)", i, td, od, c.RecDelta[i][0], c.RecDelta[i][1])
			}
			if rd.Len() != 0 {
				t.Fatalf("scanRecord(record %d) left %d bytes unread", i, rd.Len())
			}
		}

		// (b) cutoff = +inf keeps every batch byte for byte
		all, err := collectRecoverableBatches(seg, math.MaxInt64)
		if err != nil {
			t.Fatalf("collectRecoverableBatches(+inf): %v", err)
		}
		if len(all) != len(c.Want) {
			t.Fatalf("restore scanner found %d batches, %d were written", len(all), len(c.Want))
		}
		for i, b := range all {
			if !bytes.Equal(b.Bytes, c.Want[i]) {
				t.Fatalf("restore scanner batch %d differs from what was written", i)
			}
			if b.BaseOffset != c.Bases[i] || b.MessageCount != c.Counts[i] || b.LastOffsetDelta != c.Counts[i]-1 {
				t.Fatalf("restore scanner batch %d metadata base=%d count=%d lastDelta=%d, want base=%d count=%d", i, b.BaseOffset, b.MessageCount, b.LastOffsetDelta, c.Bases[i], c.Counts[i])
			}
		}

		// (c) cutoff at / next to a record timestamp: whatever is kept must decode strictly
		// with the independent codec and be a field-exact prefix of the produced records
		pick := rapid.IntRange(0, len(c.Recs)-1).Draw(t, "cutoff-record")
		cutoff := c.Recs[pick].Timestamp
		if rapid.Bool().Draw(t, "cutoff-running-max") {
			for _, r := range c.Recs[:pick] {
				cutoff = max(cutoff, r.Timestamp)
			}
		}
		cutoff += int64(rapid.IntRange(-1, 1).Draw(t, "cutoff-adj"))
		part, err := collectRecoverableBatches(seg, cutoff)
		if err != nil {
			t.Fatalf("collectRecoverableBatches(cutoff %d): %v", cutoff, err)
		}
		var kept []byte
		for _, b := range part {
			kept = append(kept, b.Bytes...)
		}
		dec, err := vfkit.DecodeBatches(kept)
		if err != nil {
			t.Fatalf("batches kept by the restore scanner (cutoff %d) do not decode: %v", cutoff, err)
		}
		k := 0
		for bi, b := range dec {
			for _, r := range b.Records {
				if k >= len(c.Recs) {
					t.Fatalf("restore scanner kept more records than were produced")
				}
				if d := c07RecEq(r, b.BaseOffset, b.FirstTimestamp, c.Recs[k]); d != "" {
					t.Fatalf("cutoff %d: kept batch %d record %d is not the produced record: %s", cutoff, bi, k, d)
				}
				k++
			}
		}
		switch {
		case k == 0:
			st.Class("cutoff-keeps-nothing")
		case k == len(c.Recs):
			st.Class("cutoff-keeps-all")
		default:
			st.Class("cutoff-keeps-prefix")
			if len(part) > 0 && part[len(part)-1].MessageCount != c.Counts[len(part)-1] {
				st.Class("cutoff-truncates-batch")
			}
		}
		if c07NonTrivial(c) {
			st.NonTrivial(c.Shape, c.Bases[0], c07FlagList(c), k)
			st.Sample(c07Sample(c, map[string]any{"cutoff": cutoff, "kept_records": k}))
		}
	})
}

// TestVF_C07_Log: segments written by a real PartitionLog under upload faults with appends
// arriving during the in-flight upload (see vf_c07_log_test.go), read back with the independent
// codec and the restore scanner.
func TestVF_C07_Log(t *testing.T) {
	st := vfkit.NewStats("C07", "log")
	defer st.Flush()
	rapid.Check(t, func(t *rapid.T) {
		st.Eval()
		c := c07GenCase(t, false)
		interval := rapid.SampledFrom([]int32{1, 3, 100}).Draw(t, "interval")
		run, msg := c07RunLog(t, c, interval)
		if msg == "" {
			msg = c07CheckLogRun(c, run)
		}
		if msg != "" {
			t.Fatalf("%s\nbatches %s bases %v\ntrace: %v", msg, c.Shape, c.Bases, run.Trace)
		}
		for _, s := range run.Stored {
			all, err := collectRecoverableBatches(s.Seg, math.MaxInt64)
			if err != nil {
				t.Fatalf("restore scanner rejects stored segment %d: %v", s.Base, err)
			}
			var cat []byte
			for _, b := range all {
				cat = append(cat, b.Bytes...)
			}
			if !bytes.Equal(cat, s.Seg[32:len(s.Seg)-16]) {
				t.Fatalf("restore scanner does not return the batches of stored segment %d byte for byte", s.Base)
			}
		}
		st.Class(fmt.Sprintf("segments-%d", min(len(run.Stored), 4)))
		if run.Failed > 0 {
			st.Class("flush-failed")
		}
		if run.Injected > 0 {
			st.Class("append-during-upload")
		}
		if run.Failed > 0 && run.Injected > 0 {
			st.Class("append-during-failing-upload")
			if st.NonTrivial(c.Shape, c.Bases[0], interval, run.Trace) {
				st.Sample(map[string]any{"shape": c.Shape, "bases": c.Bases, "trace": run.Trace, "segments": len(run.Stored)})
			}
		}
	})
}

// TestVF_C07_Restore: the restore driver (RecoverTopicToTimestamp) over a partition whose
// segments carry NON-MONOTONIC creation times (clock skew between brokers, failover). Record
// timestamps never exceed the creation time of the segment that holds them (a record is
// produced before it is flushed). Oracle on the segments the restore writes: each is a well
// formed segment/index pair (independent reader), together they hold a field-exact PREFIX of
// the produced records, and none of them holds a record newer than the restore point.
func TestVF_C07_Restore(t *testing.T) {
	st := vfkit.NewStats("C07", "restore")
	defer st.Flush()
	rapid.Check(t, func(t *rapid.T) {
		st.Eval()
		restoreTo := int64(1726000000000) + int64(rapid.IntRange(0, 1000000).Draw(t, "restore-point"))
		nseg := rapid.IntRange(1, 6).Draw(t, "segments")
		store := vfkit.NewObjStore()
		s3 := newVfS3(store)
		ctx := context.Background()
		type prodRec struct {
			off, ts int64
			val     string
		}
		var produced []prodRec
		var pattern []string
		next := int64(rapid.SampledFrom([]int{0, 0, 17}).Draw(t, "first-offset"))
		monotonic, prevCreated := true, int64(math.MinInt64)
		for s := 0; s < nseg; s++ {
			// creation time relative to the restore point, independent per segment
			created := restoreTo + rapid.SampledFrom([]int64{-500000, -2000, -1, 0, 1, 300, 2000, 500000}).Draw(t, "created-minus-restore-point")
			if created < prevCreated {
				monotonic = false
			}
			prevCreated = created
			if created > restoreTo {
				pattern = append(pattern, "after")
			} else {
				pattern = append(pattern, "before")
			}
			nb := rapid.IntRange(1, 3).Draw(t, "batches")
			var rbs []RecordBatch
			base := next
			for b := 0; b < nb; b++ {
				n := rapid.IntRange(1, 3).Draw(t, "records")
				// batch timestamps: non-decreasing inside the segment, all <= created
				first := created - int64(rapid.IntRange(0, 1500).Draw(t, "age"))
				recs := make([]vfkit.Record, n)
				for i := range recs {
					d := int64(rapid.IntRange(0, int(created-first)).Draw(t, "delta"))
					v := fmt.Sprintf("v-%d", next+int64(i))
					recs[i] = vfkit.Record{TsDelta: d, Key: []byte("k"), Value: []byte(v)}
					produced = append(produced, prodRec{off: next + int64(i), ts: first + d, val: v})
				}
				rb, err := NewRecordBatchFromBytes(vfkit.NewBatch(0, first, recs).Encode())
				if err != nil {
					t.Fatalf("harness: %v", err)
				}
				PatchRecordBatchBaseOffset(&rb, next)
				rbs = append(rbs, rb)
				next += int64(n)
			}
			art, err := BuildSegment(SegmentWriterConfig{IndexIntervalMessages: 1}, rbs, time.UnixMilli(created))
			if err != nil {
				t.Fatalf("harness: %v", err)
			}
			_ = s3.UploadSegment(ctx, segmentObjectKey("ns", "orders", 0, base), art.SegmentBytes)
			_ = s3.UploadIndex(ctx, segmentIndexKey("ns", "orders", 0, base), art.IndexBytes)
		}
		res, err := RecoverTopicToTimestamp(ctx, s3, TopicRecoveryConfig{SourceNamespace: "ns", SourceTopic: "orders", TargetNamespace: "ns", TargetTopic: "restored", RestoreTo: time.UnixMilli(restoreTo)})
		if err != nil {
			t.Fatalf("RecoverTopicToTimestamp failed on well-formed segments (creation pattern %v): %v", pattern, err)
		}
		objs, _ := s3.ListSegments(ctx, "ns/restored/")
		var stored []c07Stored
		for _, o := range objs {
			if !strings.HasSuffix(o.Key, ".kfs") {
				continue
			}
			var base int64
			if _, err := fmt.Sscanf(o.Key[strings.LastIndex(o.Key, "/")+1:], "segment-%d.kfs", &base); err != nil {
				t.Fatalf("restore wrote an object with an unexpected key %q", o.Key)
			}
			seg, _ := s3.DownloadSegment(ctx, o.Key, nil)
			idx, err := s3.DownloadIndex(ctx, strings.TrimSuffix(o.Key, ".kfs")+".index")
			if err != nil {
				t.Fatalf("restored segment %s has no index object", o.Key)
			}
			stored = append(stored, c07Stored{Base: base, Seg: seg, Idx: idx})
		}
		sort.Slice(stored, func(a, b int) bool { return stored[a].Base < stored[b].Base })
		k := 0
		for _, sgm := range stored {
			bs, msg := c07CheckStored(sgm)
			if msg != "" {
				t.Fatalf("restored %s (creation pattern %v)", msg, pattern)
			}
			for _, b := range bs {
				for _, r := range b.Records {
					if k >= len(produced) {
						t.Fatalf("the restored topic holds more records than the source")
					}
					p := produced[k]
					off, ts := b.BaseOffset+int64(r.OffsetDelta), b.FirstTimestamp+r.TsDelta
					if off != p.off || ts != p.ts || string(r.Value) != p.val || string(r.Key) != "k" {
						t.Fatalf("restored record #%d is (offset %d, ts %d, value %q), the producer sent (offset %d, ts %d, value %q); creation pattern %v", k, off, ts, r.Value, p.off, p.ts, p.val, pattern)
					}
					if ts > restoreTo {
						t.Fatalf("the restored topic holds offset %d with timestamp %d, %d ms after the restore point %d (segment creation times relative to the restore point, in offset order: %v; restored segments %d)",
							off, ts, ts-restoreTo, restoreTo, pattern, res.SegmentsCopied)
					}
					k++
				}
			}
		}
		st.Class(fmt.Sprintf("segments-%d", nseg))
		switch {
		case k == 0:
			st.Class("restored-nothing")
		case k == len(produced):
			st.Class("restored-everything")
		default:
			st.Class("restored-prefix")
		}
		if !monotonic {
			st.Class("non-monotonic-creation-times")
			if st.NonTrivial(strings.Join(pattern, ","), nseg, k, len(produced)) {
				st.Sample(map[string]any{"creation_vs_restore_point": pattern, "records": len(produced), "restored": k})
			}
		}
	})
}
