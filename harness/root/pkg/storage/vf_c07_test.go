//go:build verif

package storage

// C07, root-module legs.
//
//	structure: client batches (independent vfkit encoder, base offset 0) go through the
//	  broker's own path NewRecordBatchFromBytes -> PatchRecordBatchBaseOffset -> BuildSegment;
//	  the resulting segment / index bytes are checked with the independent codec: header
//	  fields, footer last offset, CRC-32C over the body, body == independently encoded
//	  batches, index entries strictly increasing and pointing at batch starts.
//	pitr: the restore scanner (collectRecoverableBatches / scanRecord) over the same
//	  segments recovers exactly the batches (cutoff = +inf) or an exact record prefix
//	  (cutoff inside the segment), compared record by record with what was generated.

import (
	"bytes"
	"encoding/binary"
	"fmt"
	"math"
	"testing"
	"time"

	"pgregory.net/rapid"
	"verif.local/vfkit"
)

// c07Build runs the broker's serialization path over the generated client batches.
func c07Build(c c07Case, interval int32, created time.Time) (*SegmentArtifact, error) {
	rbs := make([]RecordBatch, 0, len(c.Client))
	for i, enc := range c.Client {
		rb, err := NewRecordBatchFromBytes(enc)
		if err != nil {
			return nil, fmt.Errorf("NewRecordBatchFromBytes(batch %d): %v", i, err)
		}
		PatchRecordBatchBaseOffset(&rb, c.Bases[i])
		rbs = append(rbs, rb)
	}
	return BuildSegment(SegmentWriterConfig{IndexIntervalMessages: interval}, rbs, created)
}

func c07RecEq(got vfkit.Record, base, firstTs int64, want c07Rec) string {
	if base+int64(got.OffsetDelta) != want.Offset {
		return fmt.Sprintf("offset %d want %d", base+int64(got.OffsetDelta), want.Offset)
	}
	if firstTs+got.TsDelta != want.Timestamp {
		return fmt.Sprintf("timestamp %d want %d", firstTs+got.TsDelta, want.Timestamp)
	}
	if !c07BytesEq(got.Key, want.Key) {
		return fmt.Sprintf("key %s want %s", c07Show(got.Key), c07Show(want.Key))
	}
	if !c07BytesEq(got.Value, want.Value) {
		return fmt.Sprintf("value %s want %s", c07Show(got.Value), c07Show(want.Value))
	}
	if len(got.Headers) != len(want.Headers) {
		return fmt.Sprintf("%d headers want %d", len(got.Headers), len(want.Headers))
	}
	for i := range got.Headers {
		if got.Headers[i].Key != want.Headers[i].Key || !c07BytesEq(got.Headers[i].Value, want.Headers[i].Value) {
			return fmt.Sprintf("header %d = (%q,%s) want (%q,%s)", i, got.Headers[i].Key, c07Show(got.Headers[i].Value), want.Headers[i].Key, c07Show(want.Headers[i].Value))
		}
	}
	return ""
}

func TestVF_C07_Structure(t *testing.T) {
	st := vfkit.NewStats("C07", "structure")
	defer st.Flush()
	rapid.Check(t, func(t *rapid.T) {
		st.Eval()
		c := c07GenCase(t, false)
		interval := rapid.SampledFrom([]int32{0, 1, 7, 100}).Draw(t, "interval")
		created := time.UnixMilli(rapid.Int64Range(0, 1<<42).Draw(t, "createdMs"))
		art, err := c07Build(c, interval, created)
		if err != nil {
			t.Fatalf("BuildSegment rejected well-formed batches: %v", err)
		}
		for _, f := range c07FlagList(c) {
			st.Class(f)
		}
		st.Class(fmt.Sprintf("interval-%d", interval))
		st.Class(fmt.Sprintf("batches-%d", len(c.Client)))

		nb := len(c.Client)
		var total int32
		var wantBody []byte
		starts := map[int32]int64{} // file position of a batch start -> its base offset
		for i := range c.Want {
			starts[int32(32+len(wantBody))] = c.Bases[i]
			wantBody = append(wantBody, c.Want[i]...)
			total += c.Counts[i]
		}
		wantLast := c.Bases[nb-1] + int64(c.Counts[nb-1]) - 1
		seg := art.SegmentBytes

		// ---- artifact metadata
		if art.BaseOffset != c.Bases[0] || art.LastOffset != wantLast || art.MessageCount != total {
			t.Fatalf("artifact metadata base=%d last=%d count=%d, want base=%d last=%d count=%d", art.BaseOffset, art.LastOffset, art.MessageCount, c.Bases[0], wantLast, total)
		}
		// ---- segment bytes, independent reader
		if len(seg) != 32+len(wantBody)+16 {
			t.Fatalf("segment is %d bytes, want 32+%d+16", len(seg), len(wantBody))
		}
		info, err := vfkit.DecodeSegment(seg)
		if err != nil {
			t.Fatalf("independent segment reader rejects the broker-written segment: %v", err)
		}
		if info.Version != 1 {
			t.Fatalf("header version %d, want 1", info.Version)
		}
		if info.BaseOffset != c.Bases[0] {
			t.Fatalf("header base offset %d, want %d", info.BaseOffset, c.Bases[0])
		}
		if info.MessageCount != total {
			t.Fatalf("header message count %d, want %d", info.MessageCount, total)
		}
		if info.CreatedMs != created.UnixMilli() {
			t.Fatalf("header created %d, want %d", info.CreatedMs, created.UnixMilli())
		}
		if info.LastOffset != wantLast {
			t.Fatalf("footer last offset %d, want %d", info.LastOffset, wantLast)
		}
		if !bytes.Equal(info.Body, wantBody) {
			t.Fatalf("segment body differs from the independently encoded batches (len %d vs %d)", len(info.Body), len(wantBody))
		}
		// records as decoded by the independent codec == generated records
		k := 0
		for bi, b := range info.Batches {
			for _, r := range b.Records {
				if k >= len(c.Recs) {
					t.Fatalf("segment holds more records than were produced")
				}
				if d := c07RecEq(r, b.BaseOffset, b.FirstTimestamp, c.Recs[k]); d != "" {
					t.Fatalf("batch %d record %d: %s", bi, k, d)
				}
				k++
			}
		}
		if k != len(c.Recs) {
			t.Fatalf("segment holds %d records, %d were produced", k, len(c.Recs))
		}
		// the broker's own footer / header readers agree
		if lo, err := parseSegmentFooter(seg[len(seg)-segmentFooterLen:]); err != nil || lo != wantLast {
			t.Fatalf("parseSegmentFooter = %d,%v want %d", lo, err, wantLast)
		}
		if ct, err := parseSegmentHeaderCreatedAt(seg[:segmentHeaderLen]); err != nil || ct.UnixMilli() != created.UnixMilli() {
			t.Fatalf("parseSegmentHeaderCreatedAt = %v,%v want %v", ct, err, created.UTC())
		}

		// ---- index
		idx := art.IndexBytes
		if len(idx) < 16 || string(idx[:4]) != "IDX\x00" {
			t.Fatalf("index header magic wrong: % x", idx[:min(len(idx), 16)])
		}
		if v := binary.BigEndian.Uint16(idx[4:]); v != 1 {
			t.Fatalf("index version %d, want 1", v)
		}
		cnt := int(int32(binary.BigEndian.Uint32(idx[6:])))
		if cnt < 1 || len(idx) != 16+12*cnt {
			t.Fatalf("index count %d does not match %d index bytes", cnt, len(idx))
		}
		parsed, err := ParseIndex(idx)
		if err != nil {
			t.Fatalf("ParseIndex rejects the broker-written index: %v", err)
		}
		if len(parsed) != cnt || len(art.RelativeIndex) != cnt {
			t.Fatalf("index entry counts differ: header %d parsed %d artifact %d", cnt, len(parsed), len(art.RelativeIndex))
		}
		var prevOff int64
		var prevPos int32
		for i := 0; i < cnt; i++ {
			off := int64(binary.BigEndian.Uint64(idx[16+12*i:]))
			pos := int32(binary.BigEndian.Uint32(idx[16+12*i+8:]))
			if parsed[i].Offset != off || parsed[i].Position != pos || art.RelativeIndex[i].Offset != off || art.RelativeIndex[i].Position != pos {
				t.Fatalf("index entry %d: bytes say (%d,%d), ParseIndex (%d,%d), artifact (%d,%d)", i, off, pos, parsed[i].Offset, parsed[i].Position, art.RelativeIndex[i].Offset, art.RelativeIndex[i].Position)
			}
			base, ok := starts[pos]
			if !ok {
				t.Fatalf("index entry %d position %d is not the start of a batch (starts: %v)", i, pos, starts)
			}
			if base != off {
				t.Fatalf("index entry %d says offset %d at position %d but the batch there has base offset %d", i, off, pos, base)
			}
			if i > 0 && (off <= prevOff || pos <= prevPos) {
				t.Fatalf("index entries not strictly increasing: (%d,%d) after (%d,%d)", off, pos, prevOff, prevPos)
			}
			prevOff, prevPos = off, pos
		}
		if parsed[0].Offset != c.Bases[0] || parsed[0].Position != 32 {
			t.Fatalf("first index entry (%d,%d) does not point at the first batch (%d,32)", parsed[0].Offset, parsed[0].Position, c.Bases[0])
		}
		st.ClassN("index-entries", cnt)

		if c07NonTrivial(c) {
			st.NonTrivial(c.Shape, c.Bases[0], c07FlagList(c), interval)
			st.Sample(c07Sample(c, map[string]any{"interval": interval, "index_entries": cnt, "segment_bytes": len(seg)}))
		}
	})
}

func TestVF_C07_PITR(t *testing.T) {
	st := vfkit.NewStats("C07", "pitr")
	defer st.Flush()
	rapid.Check(t, func(t *rapid.T) {
		st.Eval()
		c := c07GenCase(t, false)
		interval := rapid.SampledFrom([]int32{1, 7, 100}).Draw(t, "interval")
		art, err := c07Build(c, interval, time.UnixMilli(1726000000000))
		if err != nil {
			t.Fatalf("BuildSegment rejected well-formed batches: %v", err)
		}
		for _, f := range c07FlagList(c) {
			st.Class(f)
		}
		seg := art.SegmentBytes

		// (a) scanRecord on every record as encoded by the independent codec
		for i, enc := range c.RecEnc {
			rd := bytes.NewReader(enc)
			td, od, err := scanRecord(rd)
			if err != nil {
				t.Fatalf("scanRecord(record %d): %v", i, err)
			}
			if td != c.RecDelta[i][0] || int64(od) != c.RecDelta[i][1] {
				t.Fatalf("scanRecord(record %d) = (tsDelta %d, offsetDelta %d), produced (%d,%d)", i, td, od, c.RecDelta[i][0], c.RecDelta[i][1])
			}
			if rd.Len() != 0 {
				t.Fatalf("scanRecord(record %d) left %d bytes unread", i, rd.Len())
			}
		}

		// (b) cutoff = +inf keeps every batch byte for byte
		all, err := collectRecoverableBatches(seg, math.MaxInt64)
		if err != nil {
			t.Fatalf("collectRecoverableBatches(+inf): %v", err)
		}
		if len(all) != len(c.Want) {
			t.Fatalf("restore scanner found %d batches, %d were written", len(all), len(c.Want))
		}
		for i, b := range all {
			if !bytes.Equal(b.Bytes, c.Want[i]) {
				t.Fatalf("restore scanner batch %d differs from what was written", i)
			}
			if b.BaseOffset != c.Bases[i] || b.MessageCount != c.Counts[i] || b.LastOffsetDelta != c.Counts[i]-1 {
				t.Fatalf("restore scanner batch %d metadata base=%d count=%d lastDelta=%d, want base=%d count=%d", i, b.BaseOffset, b.MessageCount, b.LastOffsetDelta, c.Bases[i], c.Counts[i])
			}
		}

		// (c) cutoff at / next to a record timestamp: whatever is kept must decode strictly
		// with the independent codec and be a field-exact prefix of the produced records
		pick := rapid.IntRange(0, len(c.Recs)-1).Draw(t, "cutoff-record")
		cutoff := c.Recs[pick].Timestamp
		if rapid.Bool().Draw(t, "cutoff-running-max") {
			for _, r := range c.Recs[:pick] {
				cutoff = max(cutoff, r.Timestamp)
			}
		}
		cutoff += int64(rapid.IntRange(-1, 1).Draw(t, "cutoff-adj"))
		part, err := collectRecoverableBatches(seg, cutoff)
		if err != nil {
			t.Fatalf("collectRecoverableBatches(cutoff %d): %v", cutoff, err)
		}
		var kept []byte
		for _, b := range part {
			kept = append(kept, b.Bytes...)
		}
		dec, err := vfkit.DecodeBatches(kept)
		if err != nil {
			t.Fatalf("batches kept by the restore scanner (cutoff %d) do not decode: %v", cutoff, err)
		}
		k := 0
		for bi, b := range dec {
			for _, r := range b.Records {
				if k >= len(c.Recs) {
					t.Fatalf("restore scanner kept more records than were produced")
				}
				if d := c07RecEq(r, b.BaseOffset, b.FirstTimestamp, c.Recs[k]); d != "" {
					t.Fatalf("cutoff %d: kept batch %d record %d is not the produced record: %s", cutoff, bi, k, d)
				}
				k++
			}
		}
		switch {
		case k == 0:
			st.Class("cutoff-keeps-nothing")
		case k == len(c.Recs):
			st.Class("cutoff-keeps-all")
		default:
			st.Class("cutoff-keeps-prefix")
			if len(part) > 0 && part[len(part)-1].MessageCount != c.Counts[len(part)-1] {
				st.Class("cutoff-truncates-batch")
			}
		}
		if c07NonTrivial(c) {
			st.NonTrivial(c.Shape, c.Bases[0], c07FlagList(c), k)
			st.Sample(c07Sample(c, map[string]any{"cutoff": cutoff, "kept_records": k}))
		}
	})
}
