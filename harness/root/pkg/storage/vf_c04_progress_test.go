//go:build verif

package storage

import (
	"context"
	"fmt"
	"strings"
	"testing"

	"github.com/KafScale/platform/pkg/cache"
	"pgregory.net/rapid"
	"verif.local/vfkit"
)

// C04: a read at an offset below the end offset with a positive byte limit returns bytes
// that reach the start of the batch holding the offset; never only earlier batches.
// Generated: segment layouts (batch counts, records per batch, value sizes), index
// interval {1,10,100}, flush points (1..n segments), cached path (segment in the cache
// after its upload) and cold range-read path (restart with an empty cache / cache off),
// every offset class, byte limits from 1 byte up to several batches.

func TestVF_C04_Progress(t *testing.T) {
	st := vfkit.NewStats("C04", "progress")
	defer st.Flush()
	known := vfkit.Known("C04-sparse-index-livelock")
	rapid.Check(t, func(t *rapid.T) {
		st.Eval()
		ctx := context.Background()
		interval := rapid.SampledFrom([]int32{1, 10, 100}).Draw(t, "interval")
		nb := rapid.IntRange(3, 60).Draw(t, "batches")
		flushEvery := rapid.SampledFrom([]int{1000, 1000, 7, 20}).Draw(t, "flushEvery")
		path := rapid.SampledFrom([]string{"cached", "cold-range", "cache-off", "buffered-tail", "cold-hole"}).Draw(t, "path")
		// buffered-tail: the second half of the batches is never flushed and is served from
		// the write buffer (what a consumer sees with acks=0 / flush-on-ack off)
		firstBuffered := nb
		if path == "buffered-tail" {
			firstBuffered = nb / 2
		}
		// cold-hole: a middle segment (both objects) is gone from S3 when the log is re-opened
		// (retention, manual clean-up): offsets inside it fall in a gap and the answer must
		// start at the first batch after the gap
		if path == "cold-hole" {
			if nb < 6 {
				nb = 6
			}
			flushEvery = rapid.IntRange(1, nb/3).Draw(t, "flushEveryHole")
		}
		var segFirst []int // index of the first batch of every flushed segment
		obj := vfkit.NewObjStore()
		mk := func(start int64, cacheOn bool) *PartitionLog {
			var c *cache.SegmentCache
			if cacheOn {
				c = cache.NewSegmentCache(64 << 20)
			}
			return NewPartitionLog("default", "orders", 0, start, newVfS3(obj), c,
				PartitionLogConfig{Segment: SegmentWriterConfig{IndexIntervalMessages: interval}, CacheEnabled: cacheOn}, nil, nil, nil)
		}
		plog := mk(0, path == "cached" || path == "buffered-tail")
		ref := &c03Ref{}
		indexed := map[int]bool{} // batches that start an index entry (reference recomputation of the documented rule)
		sinceEntry := int32(0)
		segStart := true
		for i := 0; i < nb; i++ {
			recs := rapid.IntRange(1, 20).Draw(t, "recs")
			vs := rapid.SampledFrom([]int{10, 10, 100, 2000}).Draw(t, "valsize")
			raw := c03Batch(fmt.Sprintf("b%d", i), recs, vs)
			batch, err := NewRecordBatchFromBytes(raw)
			if err != nil {
				t.Fatalf("harness: %v", err)
			}
			res, err := plog.AppendBatch(ctx, batch)
			if err != nil {
				t.Fatalf("harness: append: %v", err)
			}
			ref.add(res.BaseOffset, recs, raw)
			if segStart {
				segFirst = append(segFirst, i)
			}
			if segStart || sinceEntry >= interval {
				indexed[i] = true
				sinceEntry = 0
				segStart = false
			}
			sinceEntry += int32(recs)
			if ((i+1)%flushEvery == 0 && i+1 < firstBuffered) || i+1 == firstBuffered {
				if err := plog.Flush(ctx); err != nil {
					t.Fatalf("harness: flush: %v", err)
				}
				segStart = true
				sinceEntry = 0
			}
		}
		if path != "buffered-tail" {
			if err := plog.Flush(ctx); err != nil {
				t.Fatalf("harness: flush: %v", err)
			}
		}
		holeLo, holeHi := -1, -1 // batch indices [holeLo, holeHi) are in the removed segment
		if path == "cold-hole" && len(segFirst) >= 3 {
			k := rapid.IntRange(1, len(segFirst)-2).Draw(t, "holeseg")
			holeLo, holeHi = segFirst[k], segFirst[k+1]
			base := ref.Batches[holeLo].Base
			for _, key := range obj.Keys() {
				if strings.Contains(key, fmt.Sprintf("segment-%020d.", base)) {
					obj.Delete("delete", key)
				}
			}
		}
		if path == "cold-range" || path == "cache-off" || path == "cold-hole" {
			plog = mk(ref.end(), path != "cache-off")
			if _, err := plog.RestoreFromS3(ctx); err != nil {
				t.Fatalf("restore failed: %v", err)
			}
		}
		nreads := rapid.IntRange(4, 16).Draw(t, "nreads")
		nt := false
		var sample []string
		for k := 0; k < nreads; k++ {
			hi := rapid.IntRange(0, nb-1).Draw(t, "holder")
			if path == "buffered-tail" && hi < firstBuffered && rapid.Bool().Draw(t, "intail") {
				hi = firstBuffered + hi%(nb-firstBuffered)
			}
			if holeLo >= 0 && rapid.Bool().Draw(t, "inhole") {
				hi = holeLo + hi%(holeHi-holeLo)
			}
			hb := ref.Batches[hi]
			o := hb.Base + int64(rapid.IntRange(0, int(hb.Last-hb.Base)).Draw(t, "within"))
			inHole := hi >= holeLo && hi < holeHi
			if inHole {
				// the offset is in the gap: the holder is the first batch after it
				hi = holeHi
				hb = ref.Batches[hi]
			}
			// distance from the preceding indexed batch start to this batch's start
			lo := hi
			for lo > 0 && !indexed[lo] {
				lo--
			}
			dist := hb.Pos - ref.Batches[lo].Pos
			if hi >= firstBuffered {
				dist = 0 // served from the write buffer, which starts at the holder
			}
			var m int32
			switch rapid.IntRange(0, 5).Draw(t, "mclass") {
			case 0:
				m = 1
			case 1:
				m = int32(rapid.IntRange(1, 200).Draw(t, "msmall"))
			case 2:
				m = int32(dist) // exactly up to (not including) the holder
			case 3:
				m = int32(dist + 1)
			case 4:
				m = int32(len(hb.Bytes))
			default:
				m = int32(rapid.IntRange(1, 3*len(hb.Bytes)+dist+10).Draw(t, "many"))
			}
			if m <= 0 {
				m = 1
			}
			sparseShort := dist > 0 && int(m) <= dist
			if sparseShort && known {
				st.ExcludedCase("C04-sparse-index-livelock")
				m = int32(dist + 1)
				sparseShort = false
			}
			// a ranged GET fails once (S3 rejects/throttles Range requests) in a fifth of the
			// cold reads; an error answer is fine (the consumer retries), an answer is judged
			rangeFault := path != "cached" && path != "buffered-tail" && rapid.IntRange(0, 4).Draw(t, "rangefault") == 0
			if rangeFault {
				armed := true
				obj.Fault = func(op vfkit.ObjOp) vfkit.FaultKind {
					if armed && op.Kind == "get-segment-range" {
						armed = false
						return vfkit.FaultBefore
					}
					return vfkit.FaultNone
				}
			}
			got, err := plog.Read(ctx, o, m)
			obj.Fault = nil
			if err != nil && rangeFault {
				st.Class("ranged-get-failed-read-answered-error")
				continue
			}
			if rangeFault {
				st.Class("ranged-get-fault-armed-read-answered-data")
			}
			if err != nil {
				t.Fatalf("read(offset=%d,maxBytes=%d) below the end offset %d failed: %v (path %s, interval %d)", o, m, ref.end(), err, path, interval)
			}
			oCheck := o
			if inHole {
				oCheck = hb.Base
				st.Class("offset-in-gap")
				nt = true
				sample = append(sample, fmt.Sprintf("gap o=%d -> first batch after the gap at %d, m=%d got=%d", o, hb.Base, m, len(got)))
			}
			v3, v4, _, complete := c03CheckRead(ref, oCheck, m, got)
			st.Class("path-" + path)
			if complete {
				st.Class("holder-batch-complete")
			} else {
				st.Class("holder-batch-partial")
			}
			if v3 != "" {
				// not this property's claim, but it means the reference is out of sync: report as harness problem
				t.Fatalf("harness/C03: %s", v3)
			}
			if hi > firstBuffered && int(m) < len(hb.Bytes) {
				st.Class("buffered-holder-not-first-and-larger-than-limit")
				nt = true
				sample = append(sample, fmt.Sprintf("buffered o=%d m=%d batch=%dB got=%d", o, m, len(hb.Bytes), len(got)))
			}
			if dist > 0 && hi < firstBuffered {
				st.Class("sparse-entry-before-holder")
				nt = true
				sample = append(sample, fmt.Sprintf("o=%d m=%d dist=%d got=%d", o, m, dist, len(got)))
			}
			if v4 != "" {
				t.Fatalf("C04 violated: %s (path %s, index interval %d, distance from index entry to holder %d bytes)", v4, path, interval, dist)
			}
		}
		if nt {
			if st.NonTrivial(interval, nb, flushEvery, path, sample) {
				st.Sample(map[string]any{"interval": interval, "batches": nb, "flushEvery": flushEvery, "path": path, "reads": sample})
			}
		}
	})
}
