//go:build verif

package storage

// C07 generator (identical copies live in the iceberg and sql decoder packages; only the
// package clause differs). It depends on vfkit + rapid only: well-formed Kafka v2 batches
// are produced with the independent vfkit codec, never with code from /repo.

import (
	"bytes"
	"fmt"

	"pgregory.net/rapid"
	"verif.local/vfkit"
)

// c07Rec is what a producer sent, in absolute terms (what every decoder must recover).
type c07Rec struct {
	Offset    int64
	Timestamp int64
	Key       []byte // nil = null
	Value     []byte // nil = null
	Headers   []vfkit.RecHeader
}

type c07Case struct {
	// Client[i] is the batch as a client would send it (base offset 0); the broker
	// patches the base offset to Bases[i]. Want[i] is the independent encoding of the same
	// batch with the assigned base offset (what must end up in the segment body).
	Client [][]byte
	Bases  []int64
	Want   [][]byte
	Counts []int32
	Recs   []c07Rec // all records in order
	// RecEnc[i] is the wire encoding of record i (length varint + body) and RecDelta[i] its
	// (timestampDelta, offsetDelta): used by the PITR scanRecord comparison.
	RecEnc   [][]byte
	RecDelta [][2]int64
	FirstTs  []int64
	Flags    map[string]bool
	Shape    string
	Excluded bool // some timestamp delta was clamped into [minDelta,maxDelta]
}

const (
	c07MinInt32Zig = -(int64(1) << 30)    // smallest value whose zig-zag form fits 31 bits
	c07MaxInt32Zig = (int64(1) << 30) - 1 // largest value whose zig-zag form fits 31 bits
)

func c07Bytes(t *rapid.T, label string) []byte {
	switch rapid.IntRange(0, 9).Draw(t, label+"-kind") {
	case 0, 1:
		return nil
	case 2, 3:
		return []byte{}
	case 4, 5, 6, 7:
		return rapid.SliceOfN(rapid.Byte(), 1, 12).Draw(t, label)
	default:
		// lengths around the 1-byte / 2-byte varint boundaries (zig-zag: 63|64, 8191|8192)
		n := rapid.SampledFrom([]int{63, 64, 65, 127, 128, 300, 8191, 8192}).Draw(t, label+"-len")
		seed := rapid.Byte().Draw(t, label+"-fill")
		b := make([]byte, n)
		for i := range b {
			b[i] = seed + byte(i*13)
		}
		return b
	}
}

func c07Delta(t *rapid.T) int64 {
	switch rapid.IntRange(0, 9).Draw(t, "delta-kind") {
	case 0, 1:
		return 0
	case 2, 3, 4:
		return int64(rapid.IntRange(-1000, 100000).Draw(t, "delta-small"))
	case 5, 6:
		return rapid.SampledFrom([]int64{
			1<<30 - 1, 1 << 30, -(1 << 30), -(1 << 30) - 1,
			1<<31 - 1, 1 << 31, 1<<31 + 1, -(1 << 31), -(1 << 31) - 1,
			1 << 32, 1<<34 - 1, 1 << 34, -(1 << 34) - 1, 1 << 35, 1 << 40, -(1 << 40), 1 << 56,
		}).Draw(t, "delta-boundary")
	case 7:
		return rapid.Int64Range(-(1 << 31), 1<<31).Draw(t, "delta-32")
	default:
		return rapid.Int64Range(-(1 << 62), 1<<62).Draw(t, "delta-wide")
	}
}

// c07GenCase draws a list of well-formed batches. When limitDelta is true every timestamp
// delta is clamped into [c07MinInt32Zig, c07MaxInt32Zig] (and Excluded is set if a clamp
// happened): used only to steer around a listed known finding.
func c07GenCase(t *rapid.T, limitDelta bool) c07Case {
	c := c07Case{Flags: map[string]bool{}}
	nb := rapid.IntRange(1, 5).Draw(t, "batches")
	base := rapid.OneOf(
		rapid.Just(int64(0)),
		rapid.Int64Range(0, 1000),
		rapid.Int64Range(0, 1<<40),
	).Draw(t, "base")
	shape := fmt.Sprintf("b%d", nb)
	for bi := 0; bi < nb; bi++ {
		var n int
		if rapid.IntRange(0, 3).Draw(t, "size-kind") == 0 {
			n = rapid.IntRange(1, 50).Draw(t, "nrec-large")
		} else {
			n = rapid.IntRange(1, 4).Draw(t, "nrec")
		}
		firstTs := rapid.OneOf(
			rapid.Just(int64(0)),
			rapid.Just(int64(1726000000000)),
			rapid.Int64Range(0, 1<<41),
		).Draw(t, "firstTs")
		recs := make([]vfkit.Record, n)
		for i := range recs {
			d := c07Delta(t)
			if limitDelta {
				if d < c07MinInt32Zig {
					d, c.Excluded = c07MinInt32Zig, true
				} else if d > c07MaxInt32Zig {
					d, c.Excluded = c07MaxInt32Zig, true
				}
			}
			r := vfkit.Record{TsDelta: d, Key: c07Bytes(t, "key"), Value: c07Bytes(t, "val")}
			nh := 0
			if rapid.IntRange(0, 2).Draw(t, "hdr-kind") == 0 {
				nh = rapid.IntRange(1, 5).Draw(t, "nhdr")
			}
			for h := 0; h < nh; h++ {
				hk := rapid.SampledFrom([]string{"", "k", "trace-id", "ключ", "a\x00b"}).Draw(t, "hkey")
				hv := c07Bytes(t, "hval")
				r.Headers = append(r.Headers, vfkit.RecHeader{Key: hk, Value: hv})
				c.Flags["header"] = true
				if hv == nil {
					c.Flags["header-null-value"] = true
				}
				if hk == "" {
					c.Flags["header-empty-key"] = true
				}
			}
			switch {
			case r.Key == nil:
				c.Flags["null-key"] = true
			case len(r.Key) == 0:
				c.Flags["empty-key"] = true
			}
			switch {
			case r.Value == nil:
				c.Flags["null-value"] = true
			case len(r.Value) == 0:
				c.Flags["empty-value"] = true
			}
			if d < 0 {
				c.Flags["negative-delta"] = true
			}
			if d > 1<<31 || d < -(1<<31) {
				c.Flags["delta-beyond-2^31"] = true
			}
			if d > c07MaxInt32Zig || d < c07MinInt32Zig {
				c.Flags["delta-beyond-2^30"] = true
			}
			recs[i] = r
		}
		b := vfkit.NewBatch(0, firstTs, recs)
		b.LeaderEpoch = int32(rapid.IntRange(-1, 7).Draw(t, "epoch"))
		if rapid.Bool().Draw(t, "idempotent") {
			b.ProducerID, b.ProducerEpoch, b.BaseSequence = int64(rapid.IntRange(0, 1<<20).Draw(t, "pid")), 3, int32(rapid.IntRange(0, 1000).Draw(t, "seq"))
		}
		c.Client = append(c.Client, b.Encode())
		wb := *b
		wb.BaseOffset = base
		c.Want = append(c.Want, wb.Encode())
		c.Bases = append(c.Bases, base)
		c.Counts = append(c.Counts, int32(n))
		c.FirstTs = append(c.FirstTs, firstTs)
		for i, r := range b.Records {
			c.Recs = append(c.Recs, c07Rec{Offset: base + int64(i), Timestamp: firstTs + r.TsDelta, Key: r.Key, Value: r.Value, Headers: r.Headers})
			c.RecEnc = append(c.RecEnc, vfkit.EncodeRecord(r))
			c.RecDelta = append(c.RecDelta, [2]int64{r.TsDelta, int64(r.OffsetDelta)})
		}
		shape += fmt.Sprintf("/%d", n)
		base += int64(n)
	}
	c.Shape = shape
	return c
}

// c07NonTrivial is the stated rule: >=2 batches and at least one of null key/value, a
// header, a negative or > 2^31 timestamp delta.
func c07NonTrivial(c c07Case) bool {
	if len(c.Client) < 2 {
		return false
	}
	f := c.Flags
	return f["null-key"] || f["null-value"] || f["header"] || f["negative-delta"] || f["delta-beyond-2^31"]
}

func c07FlagList(c c07Case) []string {
	var out []string
	for _, k := range []string{"null-key", "empty-key", "null-value", "empty-value", "header", "header-null-value", "header-empty-key", "negative-delta", "delta-beyond-2^30", "delta-beyond-2^31"} {
		if c.Flags[k] {
			out = append(out, k)
		}
	}
	return out
}

func c07Sample(c c07Case, extra map[string]any) map[string]any {
	m := map[string]any{"shape": c.Shape, "bases": c.Bases, "flags": c07FlagList(c), "records": len(c.Recs)}
	for k, v := range extra {
		m[k] = v
	}
	return m
}

// c07BytesEq distinguishes nil (null) from empty.
func c07BytesEq(a, b []byte) bool {
	if (a == nil) != (b == nil) {
		return false
	}
	return bytes.Equal(a, b)
}

func c07Show(b []byte) string {
	if b == nil {
		return "null"
	}
	if len(b) > 16 {
		return fmt.Sprintf("%d bytes %x…", len(b), b[:16])
	}
	return fmt.Sprintf("%q", b)
}
