//go:build verif

package storage

import (
	"bytes"
	"context"
	"encoding/binary"
	"errors"
	"fmt"
	"sort"
	"strconv"
	"strings"
	"testing"
	"time"

	"pgregory.net/rapid"
	"verif.local/vfkit"
)

// C08: RecoverTopicToTimestamp(source -> target, T).
//
// Reference (computed from the generated records, not from the code): per partition the
// source segments in offset order up to and including the first one created after T (or
// the last one); the earlier ones whole, the final one cut before its first record whose
// timestamp is later than T. Success => the target objects decode (vfkit's own codec) to
// exactly those records at the same offsets, byte for byte, and every batch has a valid
// length / count / CRC (and lastOffsetDelta / maxTimestamp, which the Kafka batch format
// ties to the records). Failure => no object under the target prefix unless a delete
// failed too.

const (
	c08NS        = "default"
	c08Src       = "src"
	c08Dst       = "dst"
	c08T         = int64(1_700_000_000_000)
	c08OrphanID  = "C08-upload-acked-late-orphan"
	c08DstPrefix = c08NS + "/" + c08Dst + "/"
)

// ---- S3 adapter over the object-store model

type c08S3 struct{ o *vfkit.ObjStore }

func (s *c08S3) mapErr(err error) error {
	if errors.Is(err, vfkit.ErrObjNotFound) {
		return fmt.Errorf("object: %w", ErrNotFound)
	}
	return err
}
func (s *c08S3) UploadSegment(ctx context.Context, key string, body []byte) error {
	return s.o.Put("put-segment", key, body)
}
func (s *c08S3) UploadIndex(ctx context.Context, key string, body []byte) error {
	return s.o.Put("put-index", key, body)
}
func (s *c08S3) DeleteSegment(ctx context.Context, key string) error {
	return s.o.Delete("delete-segment", key)
}
func (s *c08S3) DeleteIndex(ctx context.Context, key string) error {
	return s.o.Delete("delete-index", key)
}
func (s *c08S3) DownloadSegment(ctx context.Context, key string, rng *ByteRange) ([]byte, error) {
	var r *[2]int64
	if rng != nil {
		r = &[2]int64{rng.Start, rng.End}
	}
	b, err := s.o.Get("get-segment", key, r)
	return b, s.mapErr(err)
}
func (s *c08S3) DownloadIndex(ctx context.Context, key string) ([]byte, error) {
	b, err := s.o.Get("get-index", key, nil)
	return b, s.mapErr(err)
}
func (s *c08S3) ListSegments(ctx context.Context, prefix string) ([]S3Object, error) {
	objs, err := s.o.List("list", prefix)
	if err != nil {
		return nil, err
	}
	out := make([]S3Object, 0, len(objs))
	for _, o := range objs {
		out = append(out, S3Object{Key: o.Key, Size: o.Size})
	}
	return out, nil
}
func (s *c08S3) EnsureBucket(ctx context.Context) error { return nil }

// ---- generated source

type c08Rec struct {
	Off   int64
	Ts    int64
	Bytes []byte // encoded record (varint length + body) as it sits in the source batch
}

type c08Batch struct {
	Base       int64
	First      int64
	Compressed bool
	Recs       []c08Rec // logical records (for a compressed batch: timestamps/offsets only)
	Section    []byte   // records section of the source batch
	Raw        []byte   // whole source batch
}

type c08Seg struct {
	Base      int64
	CreatedMs int64
	Interval  int32
	Batches   []c08Batch
	NoIndex   bool
}

type c08Part struct {
	ID   int32
	Segs []c08Seg
}

type c08Source struct {
	Parts   []c08Part
	Subset  []int32
	SubMs   bool
	Sibling bool
	Objects map[string][]byte
	Shape   string
}

func c08Key(topic string, part int32, base int64, ext string) string {
	return fmt.Sprintf("%s/%s/%d/segment-%020d.%s", c08NS, topic, part, base, ext)
}

func c08Class(t *rapid.T, label string, i, cut int) string {
	// records / segments before the cut position lean "before T", after it "after T";
	// noise makes non-monotone layouts.
	if rapid.IntRange(0, 5).Draw(t, label+"-noise") == 0 {
		return rapid.SampledFrom([]string{"b", "e", "a"}).Draw(t, label+"-cls")
	}
	if i < cut {
		return "b"
	}
	if i == cut {
		return rapid.SampledFrom([]string{"e", "a", "b"}).Draw(t, label+"-at")
	}
	return "a"
}

func c08Time(t *rapid.T, label, cls string) int64 {
	switch cls {
	case "b":
		return c08T - int64(rapid.IntRange(1, 5000).Draw(t, label))
	case "e":
		return c08T
	}
	return c08T + int64(rapid.IntRange(1, 5000).Draw(t, label))
}

func c08GenSource(t *rapid.T, st *vfkit.Stats) *c08Source {
	src := &c08Source{Objects: map[string][]byte{}}
	nparts := rapid.IntRange(1, 3).Draw(t, "nparts")
	ids := []int32{0, 1, 2, 3, 11}
	var shape []string
	for p := 0; p < nparts; p++ {
		part := c08Part{ID: ids[p]}
		if p == nparts-1 && rapid.Bool().Draw(t, "highid") {
			part.ID = 11
		}
		nseg := rapid.IntRange(1, 4).Draw(t, "nseg")
		off := int64(rapid.SampledFrom([]int{0, 0, 7, 1000}).Draw(t, "startoff"))
		// structure first
		type bshape struct {
			n          int
			compressed bool
		}
		segShapes := make([][]bshape, nseg)
		total := 0
		for s := range segShapes {
			nb := rapid.IntRange(1, 3).Draw(t, "nbatch")
			for b := 0; b < nb; b++ {
				n := rapid.IntRange(1, 4).Draw(t, "nrec")
				segShapes[s] = append(segShapes[s], bshape{n: n, compressed: rapid.IntRange(0, 11).Draw(t, "compressed") == 0})
				total += n
			}
		}
		recCut := rapid.IntRange(0, total).Draw(t, "reccut")
		segCut := rapid.IntRange(0, nseg).Draw(t, "segcut")
		ri := 0
		pshape := fmt.Sprintf("p%d@%d[", part.ID, off)
		for s := range segShapes {
			seg := c08Seg{Base: off, Interval: int32(rapid.SampledFrom([]int{1, 2, 100}).Draw(t, "interval"))}
			ccls := c08Class(t, "created", s, segCut)
			seg.CreatedMs = c08Time(t, "createdms", ccls)
			if ccls == "b" && rapid.IntRange(0, 3).Draw(t, "created-eq") == 0 {
				seg.CreatedMs = c08T // created exactly at T is not "after T"
				ccls = "e"
			}
			pshape += "S" + ccls + "("
			var rbs []RecordBatch
			for _, bs := range segShapes[s] {
				b := c08Batch{Base: off, Compressed: bs.compressed}
				var recs []vfkit.Record
				var cls string
				for i := 0; i < bs.n; i++ {
					c := c08Class(t, "rec", ri, recCut)
					ts := c08Time(t, "ts", c)
					cls += c
					if i == 0 {
						b.First = ts
					}
					val := []byte(fmt.Sprintf("p%d-o%d", part.ID, off+int64(i)))
					if rapid.IntRange(0, 7).Draw(t, "bigval") == 0 {
						val = append(val, bytes.Repeat([]byte{'x'}, rapid.IntRange(100, 300).Draw(t, "vlen"))...)
					}
					r := vfkit.Record{TsDelta: ts - b.First, OffsetDelta: int32(i), Key: []byte(fmt.Sprintf("k%d", off+int64(i))), Value: val}
					if rapid.IntRange(0, 5).Draw(t, "hdr") == 0 {
						r.Headers = []vfkit.RecHeader{{Key: "h", Value: []byte("v")}}
					}
					recs = append(recs, r)
					b.Recs = append(b.Recs, c08Rec{Off: off + int64(i), Ts: ts, Bytes: vfkit.EncodeRecord(r)})
					ri++
				}
				vb := vfkit.NewBatch(off, b.First, recs)
				if bs.compressed {
					// the broker never looks inside a compressed batch: opaque payload, real header
					vb.Attributes = int16(rapid.IntRange(1, 4).Draw(t, "codec"))
					vb.RawRecords = []byte(fmt.Sprintf("<compressed %d records of p%d from %d>", bs.n, part.ID, off))
					cls = "Z" + cls
				}
				b.Raw = vb.Encode()
				b.Section = append([]byte(nil), b.Raw[vfkit.BatchHeaderLen:]...)
				rb, err := NewRecordBatchFromBytes(b.Raw)
				if err != nil {
					t.Fatalf("harness: NewRecordBatchFromBytes: %v", err)
				}
				rbs = append(rbs, rb)
				seg.Batches = append(seg.Batches, b)
				off += int64(bs.n)
				pshape += cls + ","
			}
			art, err := BuildSegment(SegmentWriterConfig{IndexIntervalMessages: seg.Interval}, rbs, time.UnixMilli(seg.CreatedMs))
			if err != nil {
				t.Fatalf("harness: BuildSegment: %v", err)
			}
			if si, err := vfkit.DecodeSegment(art.SegmentBytes); err != nil || si.CreatedMs != seg.CreatedMs || si.BaseOffset != seg.Base {
				t.Fatalf("harness: generated source segment does not decode: %v", err)
			}
			src.Objects[c08Key(c08Src, part.ID, seg.Base, "kfs")] = art.SegmentBytes
			if s > 0 && rapid.IntRange(0, 39).Draw(t, "noindex") == 0 {
				seg.NoIndex = true
				pshape += "!idx"
			} else {
				src.Objects[c08Key(c08Src, part.ID, seg.Base, "index")] = art.IndexBytes
			}
			pshape += ")"
			part.Segs = append(part.Segs, seg)
			if rapid.IntRange(0, 9).Draw(t, "gap") == 0 {
				off += int64(rapid.IntRange(1, 5).Draw(t, "gaplen")) // offsets are not dense across segments (compaction / skipped orphan)
				pshape += "g"
			}
		}
		shape = append(shape, pshape+"]")
		src.Parts = append(src.Parts, part)
	}
	switch rapid.IntRange(0, 3).Draw(t, "subsetmode") {
	case 0:
		for _, p := range src.Parts {
			if rapid.Bool().Draw(t, "insubset") {
				src.Subset = append(src.Subset, p.ID)
			}
		}
		if len(src.Subset) == 0 {
			src.Subset = []int32{src.Parts[0].ID}
		}
		if rapid.Bool().Draw(t, "subset-extra") {
			src.Subset = append(src.Subset, 5) // a partition that has no segments
		}
	}
	src.SubMs = rapid.Bool().Draw(t, "subms")
	src.Sibling = rapid.Bool().Draw(t, "sibling")
	if src.Sibling {
		// sibling topics sharing a name prefix with source / target must play no part
		sb := vfkit.SimpleBatch(0, c08T-10, 2, "sibling")
		rb, _ := NewRecordBatchFromBytes(sb)
		art, err := BuildSegment(SegmentWriterConfig{IndexIntervalMessages: 1}, []RecordBatch{rb}, time.UnixMilli(c08T-5))
		if err != nil {
			t.Fatalf("harness: BuildSegment sibling: %v", err)
		}
		for _, topic := range []string{c08Src + "-2", c08Dst + "-old"} {
			src.Objects[c08Key(topic, 0, 0, "kfs")] = art.SegmentBytes
			src.Objects[c08Key(topic, 0, 0, "index")] = art.IndexBytes
		}
	}
	src.Shape = fmt.Sprintf("%s subset=%v subms=%v sib=%v", strings.Join(shape, " "), src.Subset, src.SubMs, src.Sibling)
	return src
}

func (src *c08Source) restoreTo() time.Time {
	t := time.UnixMilli(c08T)
	if src.SubMs {
		t = t.Add(500 * time.Microsecond)
	}
	return t
}

// ---- reference

type c08Unit struct { // one expected record, or one expected whole compressed batch
	Off        int64
	Ts         int64
	Bytes      []byte
	Compressed bool
	N          int
	First      int64
}

type c08Expect struct {
	Units       map[int32][]c08Unit
	CutInside   bool // some partition's cut falls strictly inside an uncompressed batch
	MustReject  bool // the cut falls strictly inside a compressed batch: cannot be cut exactly
	NeedsIndex  bool // a segment that has to be copied lacks its index: cannot be copied as a pair
	AnyTruncate bool
}

func c08Reference(src *c08Source) *c08Expect {
	exp := &c08Expect{Units: map[int32][]c08Unit{}}
	allowed := map[int32]bool{}
	for _, p := range src.Subset {
		allowed[p] = true
	}
	for _, part := range src.Parts {
		if len(src.Subset) > 0 && !allowed[part.ID] {
			continue
		}
		segs := append([]c08Seg(nil), part.Segs...)
		sort.Slice(segs, func(i, j int) bool { return segs[i].Base < segs[j].Base })
		final := len(segs) - 1
		for i, s := range segs {
			if s.CreatedMs > c08T {
				final = i
				break
			}
		}
		var units []c08Unit
		for i := 0; i <= final; i++ {
			stop := false
			var segUnits []c08Unit
			for _, b := range segs[i].Batches {
				cutAt := len(b.Recs)
				if i == final {
					for k, r := range b.Recs {
						if r.Ts > c08T {
							cutAt = k
							break
						}
					}
				}
				if cutAt < len(b.Recs) {
					stop = true
					exp.AnyTruncate = true
					if cutAt > 0 {
						if b.Compressed {
							exp.MustReject = true
						} else {
							exp.CutInside = true
						}
					}
				}
				if b.Compressed {
					if cutAt == len(b.Recs) {
						segUnits = append(segUnits, c08Unit{Off: b.Base, Compressed: true, N: len(b.Recs), Bytes: b.Section, First: b.First})
					}
				} else {
					for _, r := range b.Recs[:cutAt] {
						segUnits = append(segUnits, c08Unit{Off: r.Off, Ts: r.Ts, Bytes: r.Bytes})
					}
				}
				if stop {
					break
				}
			}
			if len(segUnits) > 0 && segs[i].NoIndex {
				exp.NeedsIndex = true
			}
			units = append(units, segUnits...)
		}
		exp.Units[part.ID] = units
	}
	return exp
}

// ---- running the code under test

type c08Plan struct {
	At     map[int]vfkit.FaultKind // by operation sequence number
	DelAll vfkit.FaultKind         // applied to every delete (rollback) when != FaultNone
	DelNth map[int]vfkit.FaultKind // by ordinal among delete operations
}

type c08Run struct {
	store      *vfkit.ObjStore
	res        *TopicRecoveryResult
	err        error
	delFailed  bool
	putsBefore int // uploads that took effect before the first injected fault
	faultOp    *vfkit.ObjOp
}

func c08Execute(src *c08Source, plan *c08Plan) *c08Run {
	run := &c08Run{store: vfkit.NewObjStore()}
	for k, v := range src.Objects {
		run.store.PokeRaw(k, v)
	}
	ndel := 0
	puts := 0
	run.store.Fault = func(op vfkit.ObjOp) vfkit.FaultKind {
		isDel := strings.HasPrefix(op.Kind, "delete")
		k := vfkit.FaultNone
		if plan != nil {
			if f, ok := plan.At[op.Seq]; ok {
				k = f
			}
			if isDel {
				if plan.DelAll != vfkit.FaultNone {
					k = plan.DelAll
				}
				if f, ok := plan.DelNth[ndel]; ok {
					k = f
				}
			}
		}
		if isDel {
			ndel++
			if k == vfkit.FaultBefore {
				run.delFailed = true
			}
		} else if k != vfkit.FaultNone && run.faultOp == nil {
			o := op
			o.Fault = k
			run.faultOp = &o
			run.putsBefore = puts
		}
		if strings.HasPrefix(op.Kind, "put") && k != vfkit.FaultBefore {
			puts++
		}
		return k
	}
	cfg := TopicRecoveryConfig{SourceNamespace: c08NS, SourceTopic: c08Src, TargetNamespace: c08NS, TargetTopic: c08Dst,
		RestoreTo: src.restoreTo(), Partitions: append([]int32(nil), src.Subset...)}
	run.res, run.err = RecoverTopicToTimestamp(context.Background(), &c08S3{o: run.store}, cfg)
	return run
}

// ---- oracles

func c08ParseIndex(data []byte) ([][2]int64, error) {
	if len(data) < 16 || string(data[:4]) != "IDX\x00" {
		return nil, fmt.Errorf("bad index header (%d bytes)", len(data))
	}
	if v := binary.BigEndian.Uint16(data[4:]); v != 1 {
		return nil, fmt.Errorf("index version %d", v)
	}
	n := int(int32(binary.BigEndian.Uint32(data[6:])))
	if n < 0 || len(data) != 16+12*n {
		return nil, fmt.Errorf("index declares %d entries in %d bytes", n, len(data))
	}
	out := make([][2]int64, n)
	for i := 0; i < n; i++ {
		e := data[16+12*i:]
		out[i] = [2]int64{int64(binary.BigEndian.Uint64(e)), int64(int32(binary.BigEndian.Uint32(e[8:])))}
	}
	return out, nil
}

// c08CheckSuccess compares the target objects with the reference. "" = fine.
func c08CheckSuccess(src *c08Source, exp *c08Expect, run *c08Run) string {
	snap := run.store.Snapshot()
	// source (and siblings) untouched
	for k, v := range src.Objects {
		if !bytes.Equal(snap[k], v) {
			return fmt.Sprintf("source/sibling object %q was modified or removed by the restore", k)
		}
	}
	type tseg struct {
		base int64
		key  string
	}
	byPart := map[int32][]tseg{}
	for k := range snap {
		if !strings.HasPrefix(k, c08DstPrefix) {
			continue
		}
		parts := strings.Split(strings.TrimPrefix(k, c08DstPrefix), "/")
		if len(parts) != 2 {
			return fmt.Sprintf("unexpected object %q under the target topic", k)
		}
		pid, err := strconv.ParseInt(parts[0], 10, 32)
		if err != nil {
			return fmt.Sprintf("unexpected object %q under the target topic", k)
		}
		name := parts[1]
		switch {
		case strings.HasPrefix(name, "segment-") && strings.HasSuffix(name, ".kfs"):
			base, err := strconv.ParseInt(strings.TrimSuffix(strings.TrimPrefix(name, "segment-"), ".kfs"), 10, 64)
			if err != nil || c08Key(c08Dst, int32(pid), base, "kfs") != k {
				return fmt.Sprintf("unexpected object name %q under the target topic", k)
			}
			if _, ok := snap[c08Key(c08Dst, int32(pid), base, "index")]; !ok {
				return fmt.Sprintf("restored segment %q has no index object", k)
			}
			byPart[int32(pid)] = append(byPart[int32(pid)], tseg{base: base, key: k})
		case strings.HasPrefix(name, "segment-") && strings.HasSuffix(name, ".index"):
			if _, ok := snap[strings.TrimSuffix(k, ".index")+".kfs"]; !ok {
				return fmt.Sprintf("index object %q has no segment under the target topic", k)
			}
		default:
			return fmt.Sprintf("unexpected object %q under the target topic", k)
		}
	}
	for pid := range byPart {
		if _, ok := exp.Units[pid]; !ok {
			return fmt.Sprintf("partition %d was restored although it is not in the requested subset %v", pid, src.Subset)
		}
	}
	resLast := map[int32]int64{}
	if run.res != nil {
		for _, p := range run.res.Partitions {
			resLast[p.Partition] = p.LastOffset
		}
	}
	pids := make([]int32, 0, len(exp.Units))
	for pid := range exp.Units {
		pids = append(pids, pid)
	}
	sort.Slice(pids, func(i, j int) bool { return pids[i] < pids[j] })
	for _, pid := range pids {
		want := exp.Units[pid]
		segs := byPart[pid]
		sort.Slice(segs, func(i, j int) bool { return segs[i].base < segs[j].base })
		ui := 0
		lastOff := int64(-1)
		for _, ts := range segs {
			si, err := vfkit.DecodeSegment(snap[ts.key])
			if err != nil {
				return fmt.Sprintf("partition %d: restored segment %q is not valid: %v", pid, ts.key, err)
			}
			if len(si.Batches) == 0 {
				return fmt.Sprintf("partition %d: restored segment %q holds no batch", pid, ts.key)
			}
			if si.BaseOffset != ts.base || si.Batches[0].BaseOffset != ts.base {
				return fmt.Sprintf("partition %d: segment %q: key base %d, header base %d, first batch base %d", pid, ts.key, ts.base, si.BaseOffset, si.Batches[0].BaseOffset)
			}
			pos := int64(32)
			starts := map[int64]int64{}
			nrec := int32(0)
			for bi, b := range si.Batches {
				starts[pos] = b.BaseOffset
				pos += int64(len(b.Raw))
				nrec += b.NumRecords
				if b.NumRecords <= 0 {
					return fmt.Sprintf("partition %d: segment %q batch %d has record count %d", pid, ts.key, bi, b.NumRecords)
				}
				if b.LastOffsetDelta != b.NumRecords-1 {
					return fmt.Sprintf("partition %d: segment %q batch %d (base %d): lastOffsetDelta %d with %d records", pid, ts.key, bi, b.BaseOffset, b.LastOffsetDelta, b.NumRecords)
				}
				if b.Attributes&7 != 0 {
					if ui >= len(want) || !want[ui].Compressed {
						return fmt.Sprintf("partition %d: segment %q batch %d (base %d) is a compressed batch the reference does not expect here (expected unit %d of %d)", pid, ts.key, bi, b.BaseOffset, ui, len(want))
					}
					u := want[ui]
					if b.BaseOffset != u.Off || int(b.NumRecords) != u.N || !bytes.Equal(b.RawRecords, u.Bytes) || b.FirstTimestamp != u.First {
						return fmt.Sprintf("partition %d: compressed batch at offset %d differs from the source batch at offset %d", pid, b.BaseOffset, u.Off)
					}
					ui++
					lastOff = u.Off + int64(u.N) - 1
					continue
				}
				maxTs := int64(-1 << 62)
				for ri, r := range b.Records {
					off := b.BaseOffset + int64(r.OffsetDelta)
					if int(r.OffsetDelta) != ri {
						return fmt.Sprintf("partition %d: batch base %d record %d has offsetDelta %d", pid, b.BaseOffset, ri, r.OffsetDelta)
					}
					if ui >= len(want) {
						return fmt.Sprintf("partition %d: restored record at offset %d (ts %+d ms vs T) lies beyond the expected prefix of %d units ending at offset %d", pid, off, b.FirstTimestamp+r.TsDelta-c08T, len(want), lastOff)
					}
					u := want[ui]
					if u.Compressed || u.Off != off {
						return fmt.Sprintf("partition %d: restored record at offset %d where the source prefix continues at offset %d", pid, off, u.Off)
					}
					ts := b.FirstTimestamp + r.TsDelta
					if ts != u.Ts || !bytes.Equal(vfkit.EncodeRecord(r), u.Bytes) {
						return fmt.Sprintf("partition %d: record at offset %d differs from the source record (ts %d vs %d, %d vs %d bytes)", pid, off, ts, u.Ts, len(vfkit.EncodeRecord(r)), len(u.Bytes))
					}
					if ts > maxTs {
						maxTs = ts
					}
					ui++
					lastOff = off
				}
				if b.MaxTimestamp != maxTs {
					return fmt.Sprintf("partition %d: batch base %d: maxTimestamp %d but the records' maximum is %d", pid, b.BaseOffset, b.MaxTimestamp, maxTs)
				}
			}
			if si.LastOffset != lastOff {
				return fmt.Sprintf("partition %d: segment %q footer lastOffset %d, last record offset %d", pid, ts.key, si.LastOffset, lastOff)
			}
			if si.MessageCount != nrec {
				return fmt.Sprintf("partition %d: segment %q header messageCount %d, batches hold %d", pid, ts.key, si.MessageCount, nrec)
			}
			entries, err := c08ParseIndex(snap[strings.TrimSuffix(ts.key, ".kfs")+".index"])
			if err != nil {
				return fmt.Sprintf("partition %d: index of %q: %v", pid, ts.key, err)
			}
			for _, e := range entries {
				if b, ok := starts[e[1]]; !ok || b != e[0] {
					return fmt.Sprintf("partition %d: index of %q has entry (offset %d, position %d) that is not the start of that batch", pid, ts.key, e[0], e[1])
				}
			}
		}
		if ui != len(want) {
			u := want[ui]
			return fmt.Sprintf("partition %d: restored prefix ends at offset %d after %d units; the reference prefix has %d units, next one at offset %d (ts %+d ms vs T)", pid, lastOff, ui, len(want), u.Off, u.Ts-c08T)
		}
		if got, ok := resLast[pid]; len(want) > 0 && (!ok || got != lastOff) {
			return fmt.Sprintf("partition %d: result reports LastOffset %d (present=%v), restored data ends at %d", pid, got, ok, lastOff)
		} else if len(want) == 0 && ok && got != -1 {
			return fmt.Sprintf("partition %d: result reports LastOffset %d although nothing was restored", pid, got)
		}
	}
	return ""
}

// c08CheckFailure: after a failed restore nothing may remain under the target prefix
// unless a delete failed as well; the source must be untouched.
func c08CheckFailure(src *c08Source, run *c08Run) string {
	snap := run.store.Snapshot()
	for k, v := range src.Objects {
		if !bytes.Equal(snap[k], v) {
			return fmt.Sprintf("source/sibling object %q was modified or removed by the failed restore", k)
		}
	}
	if run.delFailed {
		return ""
	}
	var left []string
	for k := range snap {
		if strings.HasPrefix(k, c08DstPrefix) {
			left = append(left, k)
		}
	}
	sort.Strings(left)
	if len(left) > 0 {
		return fmt.Sprintf("failed restore (%v) left %d object(s) under the target topic although no delete failed: %v", run.err, len(left), left)
	}
	return ""
}

func c08Judge(src *c08Source, exp *c08Expect, run *c08Run) string {
	if run.err != nil {
		return c08CheckFailure(src, run)
	}
	if exp.MustReject {
		// the cut lies strictly inside a compressed batch: keeping the batch returns records
		// later than T, dropping it loses records before T; the code cannot re-compress.
		return "restore succeeded although the cut falls strictly inside a compressed batch (docs/operations.md: the restore fails)"
	}
	return c08CheckSuccess(src, exp, run)
}

func c08FaultName(k vfkit.FaultKind) string {
	switch k {
	case vfkit.FaultBefore:
		return "fail-before"
	case vfkit.FaultAfter:
		return "fail-after-effect"
	}
	return "none"
}

func c08DescribeOps(run *c08Run) string {
	var s []string
	for _, op := range run.store.Ops {
		x := op.Kind + " " + strings.TrimPrefix(op.Key, c08NS+"/")
		if op.Fault != vfkit.FaultNone {
			x += " <" + c08FaultName(op.Fault) + ">"
		}
		s = append(s, x)
	}
	return strings.Join(s, "; ")
}

func TestVF_C08_Restore(t *testing.T) {
	st := vfkit.NewStats("C08", "restore")
	defer st.Flush()
	orphanKnown := vfkit.Known(c08OrphanID)
	rapid.Check(t, func(t *rapid.T) {
		src := c08GenSource(t, st)
		exp := c08Reference(src)
		// fault-free run
		st.Eval()
		base := c08Execute(src, nil)
		switch {
		case base.err != nil:
			st.Class("nofault:rejected")
		case exp.CutInside:
			st.Class("nofault:cut-inside-batch")
		case exp.AnyTruncate:
			st.Class("nofault:cut-at-batch-boundary")
		default:
			st.Class("nofault:whole-segments")
		}
		if exp.MustReject {
			st.Class("cut-inside-compressed-batch")
		}
		if exp.NeedsIndex {
			st.Class("needed-segment-without-index")
		}
		if len(src.Subset) > 0 {
			st.Class("partition-subset")
		}
		if msg := c08Judge(src, exp, base); msg != "" {
			t.Fatalf("%s\nsource: %s\nops: %s", msg, src.Shape, c08DescribeOps(base))
		}
		if base.err == nil && exp.CutInside {
			st.NonTrivial("cut", src.Shape)
			st.Sample(map[string]any{"source": src.Shape, "kind": "cut inside a batch"})
		}
		if base.err != nil && base.putsBefore == 0 {
			// a non-injected failure (compressed cut / missing index): count uploads before it
			n := 0
			for _, op := range base.store.Ops {
				if strings.HasPrefix(op.Kind, "put") {
					n++
				}
			}
			if n > 0 {
				st.Class("rejected-after-uploads")
				st.NonTrivial("reject", src.Shape)
			}
		}
		// every single failure position of the fault-free operation sequence
		ops := append([]vfkit.ObjOp(nil), base.store.Ops...)
		for _, op := range ops {
			if strings.HasPrefix(op.Kind, "delete") {
				continue // rollback of a natural rejection; covered by the delete plans below
			}
			kinds := []vfkit.FaultKind{vfkit.FaultBefore}
			if strings.HasPrefix(op.Kind, "put") {
				kinds = append(kinds, vfkit.FaultAfter)
			}
			for _, k := range kinds {
				if k == vfkit.FaultAfter && op.Kind == "put-segment" && orphanKnown {
					st.ExcludedCase(c08OrphanID)
					continue
				}
				st.Eval()
				run := c08Execute(src, &c08Plan{At: map[int]vfkit.FaultKind{op.Seq: k}})
				cls := "fault:" + op.Kind + ":" + c08FaultName(k)
				st.Class(cls)
				if msg := c08Judge(src, exp, run); msg != "" {
					t.Fatalf("%s\nfault: operation #%d %s %s -> %s\nsource: %s\nops: %s", msg, op.Seq, op.Kind, op.Key, c08FaultName(k), src.Shape, c08DescribeOps(run))
				}
				if run.err != nil && run.putsBefore > 0 {
					st.Class("failure-after-uploads")
					if st.NonTrivial("fault", src.Shape, op.Seq, int(k)) {
						st.Sample(map[string]any{"source": src.Shape, "fault_at": fmt.Sprintf("#%d %s %s", op.Seq, op.Kind, op.Key), "kind": c08FaultName(k), "uploads_before": run.putsBefore})
					}
				}
				if run.err == nil {
					st.Class("fault-but-success")
				}
			}
		}
		// a few double-fault plans: a failure in the copy plus failing deletes in the rollback
		var putSeqs []int
		for _, op := range ops {
			if strings.HasPrefix(op.Kind, "put") || strings.HasPrefix(op.Kind, "get") {
				putSeqs = append(putSeqs, op.Seq)
			}
		}
		if len(putSeqs) > 0 {
			for n := 0; n < 3; n++ {
				at := putSeqs[rapid.IntRange(0, len(putSeqs)-1).Draw(t, "dbl-at")]
				plan := &c08Plan{At: map[int]vfkit.FaultKind{at: vfkit.FaultBefore}, DelNth: map[int]vfkit.FaultKind{}}
				switch rapid.IntRange(0, 2).Draw(t, "dbl-mode") {
				case 0:
					plan.DelAll = vfkit.FaultAfter // deletes take effect but report failure
				case 1:
					plan.DelNth[rapid.IntRange(0, 5).Draw(t, "dbl-nth")] = vfkit.FaultBefore
				case 2:
					plan.DelNth[rapid.IntRange(0, 5).Draw(t, "dbl-nth")] = vfkit.FaultAfter
				}
				st.Eval()
				run := c08Execute(src, plan)
				st.Class("double-fault")
				if msg := c08Judge(src, exp, run); msg != "" {
					t.Fatalf("%s\nfault: operation #%d fail-before + delete plan %+v\nsource: %s\nops: %s", msg, at, plan, src.Shape, c08DescribeOps(run))
				}
				if run.delFailed {
					st.Class("double-fault:delete-failed")
				}
			}
		}
	})
}

// Witness of C08-upload-acked-late-orphan: the segment upload takes effect but reports a
// failure (response lost / timeout after the PUT landed). The rollback list only learns
// about a pair after UploadSegment returned nil, so that object stays under the target.
func TestVF_C08_Witness(t *testing.T) {
	st := vfkit.NewStats("C08", "witness")
	defer st.Flush()
	st.Eval()
	recs := []vfkit.Record{{TsDelta: 0, Key: []byte("k0"), Value: []byte("v0")}, {TsDelta: 10, Key: []byte("k1"), Value: []byte("v1")}}
	raw := vfkit.NewBatch(0, c08T-100, recs).Encode()
	rb, err := NewRecordBatchFromBytes(raw)
	if err != nil {
		t.Fatalf("harness: %v", err)
	}
	art, err := BuildSegment(SegmentWriterConfig{IndexIntervalMessages: 1}, []RecordBatch{rb}, time.UnixMilli(c08T-50))
	if err != nil {
		t.Fatalf("harness: %v", err)
	}
	src := &c08Source{Objects: map[string][]byte{
		c08Key(c08Src, 0, 0, "kfs"):   art.SegmentBytes,
		c08Key(c08Src, 0, 0, "index"): art.IndexBytes,
	}, Shape: "one partition, one segment of one batch, all records before T"}
	// find the put-segment operation of the fault-free run
	base := c08Execute(src, nil)
	if base.err != nil {
		t.Fatalf("harness: fault-free witness restore failed: %v", base.err)
	}
	seq := -1
	for _, op := range base.store.Ops {
		if op.Kind == "put-segment" {
			seq = op.Seq
			break
		}
	}
	if seq < 0 {
		t.Fatalf("harness: no put-segment in the fault-free run")
	}
	run := c08Execute(src, &c08Plan{At: map[int]vfkit.FaultKind{seq: vfkit.FaultAfter}})
	msg := ""
	if run.err != nil {
		msg = c08CheckFailure(src, run)
	}
	st.Note("witness", msg)
	st.KnownResult(c08OrphanID, msg != "", "UploadSegment that stored the object but returned an error (ack lost) is not rolled back: "+msg)
	st.NonTrivial("witness")
	st.Sample(map[string]any{"witness": "put-segment fail-after-effect on the only segment", "result": msg})
}
