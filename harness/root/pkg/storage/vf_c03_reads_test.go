//go:build verif

package storage

import (
	"bytes"
	"context"
	"encoding/binary"
	"errors"
	"fmt"
	"strings"
	"testing"
	"testing/synctest"

	"github.com/KafScale/platform/pkg/cache"
	"pgregory.net/rapid"
	"verif.local/vfkit"
)

// C03 / C04 at PartitionLog level: a stateful history (append, flush, flush-window
// reads, restart, reads) against a reference log = concatenation of the appended batches
// with their assigned base offsets.

type c03RefBatch struct {
	Base, Last int64
	Pos        int // byte position in the reference log
	Bytes      []byte
}

type c03Ref struct {
	Batches []c03RefBatch
	Log     []byte
}

func (r *c03Ref) add(base int64, n int, raw []byte) {
	b := append([]byte(nil), raw...)
	binary.BigEndian.PutUint64(b[0:8], uint64(base))
	r.Batches = append(r.Batches, c03RefBatch{Base: base, Last: base + int64(n) - 1, Pos: len(r.Log), Bytes: b})
	r.Log = append(r.Log, b...)
}

func (r *c03Ref) end() int64 {
	if len(r.Batches) == 0 {
		return 0
	}
	return r.Batches[len(r.Batches)-1].Last + 1
}

// holder returns the index of the batch holding offset o (o must be < end()).
func (r *c03Ref) holder(o int64) int {
	for i, b := range r.Batches {
		if o <= b.Last {
			return i
		}
	}
	return -1
}

// c03CheckRead validates a successful read result against the reference. It returns
// (violation of C03, violation of C04, classes).
func c03CheckRead(r *c03Ref, o int64, maxBytes int32, got []byte) (v3, v4 string, crossed int, complete bool) {
	hi := r.holder(o)
	if hi < 0 {
		return fmt.Sprintf("read(%d) succeeded with %d bytes beyond the end of the log (%d)", o, len(got), r.end()), "", 0, false
	}
	if len(got) == 0 {
		return "", fmt.Sprintf("read(offset=%d,maxBytes=%d) below the end offset %d returned no bytes", o, maxBytes, r.end()), 0, false
	}
	if len(got) < 8 {
		// too short to carry a base offset: accept when it can be the start of the holder
		// itself; otherwise it must be the start of an earlier batch (no progress)
		if bytes.HasPrefix(r.Batches[hi].Bytes, got) {
			return "", "", 0, false
		}
		for i := 0; i <= hi; i++ {
			if bytes.HasPrefix(r.Batches[i].Bytes, got) {
				if i < hi {
					v4 = fmt.Sprintf("read(offset=%d,maxBytes=%d) returned only %d bytes of the batch at %d, before the batch holding the offset (base %d)", o, maxBytes, len(got), r.Batches[i].Base, r.Batches[hi].Base)
				}
				return "", v4, 0, false
			}
		}
		return fmt.Sprintf("read(%d) returned %d bytes that are not the start of any batch at or before offset %d", o, len(got), o), "", 0, false
	}
	first := int64(binary.BigEndian.Uint64(got[0:8]))
	si := -1
	for i := 0; i <= hi; i++ {
		if r.Batches[i].Base == first {
			si = i
		}
	}
	if si < 0 {
		return fmt.Sprintf("read(offset=%d,maxBytes=%d) starts with base offset %d which is not a batch boundary at or before the batch holding the offset (that batch starts at %d)", o, maxBytes, first, r.Batches[hi].Base), "", 0, false
	}
	pos := r.Batches[si].Pos
	if pos+len(got) > len(r.Log) || !bytes.Equal(r.Log[pos:pos+len(got)], got) {
		n := len(got)
		if pos+n > len(r.Log) {
			n = len(r.Log) - pos
		}
		d := 0
		for d < n && r.Log[pos+d] == got[d] {
			d++
		}
		return fmt.Sprintf("read(offset=%d,maxBytes=%d) returned %d bytes that are not a contiguous run of the appended log starting at batch %d (first difference at byte %d, log has %d bytes after that boundary)", o, maxBytes, len(got), first, d, len(r.Log)-pos), "", 0, false
	}
	endPos := pos + len(got)
	if endPos <= r.Batches[hi].Pos {
		v4 = fmt.Sprintf("read(offset=%d,maxBytes=%d) returned %d bytes covering only batches %d..%d, all before the batch holding the offset (base %d): a client discarding records below its position gets nothing and re-sends the same fetch", o, maxBytes, len(got), r.Batches[si].Base, o-1, r.Batches[hi].Base)
	}
	for i := si; i < len(r.Batches) && r.Batches[i].Pos+len(r.Batches[i].Bytes) <= endPos; i++ {
		crossed++
	}
	complete = endPos >= r.Batches[hi].Pos+len(r.Batches[hi].Bytes)
	return "", v4, crossed, complete
}

type c03Cfg struct {
	CacheOn   bool
	CacheCap  int
	Interval  int32
	ReadAhead int
	MaxBytes  int
}

func c03DrawCfg(t *rapid.T) c03Cfg {
	return c03Cfg{
		CacheOn:   rapid.Bool().Draw(t, "cache"),
		CacheCap:  rapid.SampledFrom([]int{200, 2000, 1 << 20}).Draw(t, "cachecap"),
		Interval:  rapid.SampledFrom([]int32{1, 3, 100}).Draw(t, "interval"),
		ReadAhead: rapid.SampledFrom([]int{0, 2}).Draw(t, "readahead"),
		MaxBytes:  rapid.SampledFrom([]int{0, 0, 300, 1500}).Draw(t, "bufmax"),
	}
}

type c03Step struct {
	Kind     string // append flush window restart read
	Records  int
	ValSize  int
	Reads    [][2]int64 // (offset selector, maxBytes selector) resolved at run time
	Selector []int
}

func c03DrawSteps(t *rapid.T) []c03Step {
	n := rapid.IntRange(2, 14).Draw(t, "nsteps")
	out := make([]c03Step, n)
	for i := range out {
		k := rapid.SampledFrom([]string{"append", "append", "append", "flush", "window", "restart", "read", "read", "read"}).Draw(t, "kind")
		s := c03Step{Kind: k}
		switch k {
		case "append":
			s.Records = rapid.IntRange(1, 6).Draw(t, "records")
			s.ValSize = rapid.SampledFrom([]int{1, 10, 60, 400}).Draw(t, "valsize")
		case "read", "window":
			s.Selector = rapid.SliceOfN(rapid.IntRange(0, 1<<20), 2, 8).Draw(t, "sel")
		}
		out[i] = s
	}
	return out
}

func c03Batch(tag string, n, valSize int) []byte {
	rs := make([]vfkit.Record, n)
	for i := range rs {
		v := bytes.Repeat([]byte{byte('a' + i%26)}, valSize)
		copy(v, tag)
		rs[i] = vfkit.Record{TsDelta: int64(i), Key: []byte(fmt.Sprintf("%s/%d", tag, i)), Value: v}
	}
	return vfkit.NewBatch(0, 1_700_000_000_000, rs).Encode()
}

// c03PickRead resolves selectors into an (offset, maxBytes) pair relative to the
// current reference log, covering the boundary classes.
func c03PickRead(r *c03Ref, a, b int) (int64, int32, string) {
	end := r.end()
	var o int64
	class := ""
	nb := len(r.Batches)
	switch a % 6 {
	case 0: // batch start
		if nb > 0 {
			o = r.Batches[(a/6)%nb].Base
		}
		class = "batch-start"
	case 1: // mid/last of batch
		if nb > 0 {
			o = r.Batches[(a/6)%nb].Last
		}
		class = "batch-last"
	case 2:
		if end > 0 {
			o = int64(a/6) % end
		}
		class = "any-below-end"
	case 3:
		o = end - 1
		if o < 0 {
			o = 0
		}
		class = "end-1"
	case 4:
		o = end
		class = "at-end"
	default:
		o = end + int64(a/6)%3 + 1
		class = "beyond-end"
	}
	var m int32
	switch b % 6 {
	case 0:
		m = 0
	case 1:
		m = 1
	case 2:
		m = int32(20 + (b/6)%100)
	case 3:
		if nb > 0 {
			m = int32(len(r.Batches[(b/6)%nb].Bytes))
		} else {
			m = 100
		}
	case 4:
		m = int32(300 + (b/6)%3000)
	default:
		m = 1 << 24
	}
	return o, m, class
}

type c03Out struct {
	V3, V4   []string
	Trace    []string
	Classes  map[string]int
	NT3, NT4 bool
}

func c03Run(t *testing.T, cfg c03Cfg, steps []c03Step) (out c03Out) {
	out.Classes = map[string]int{}
	synctest.Test(t, func(t *testing.T) {
		ctx := context.Background()
		obj := vfkit.NewObjStore()
		sched := vfkit.NewSched()
		gated := false
		obj.OnOp = func(op vfkit.ObjOp) {
			if gated && strings.HasPrefix(op.Kind, "put-") {
				sched.Gate("s3", op.Kind+" "+op.Key)
			}
		}
		mk := func(start int64) *PartitionLog {
			var c *cache.SegmentCache
			if cfg.CacheOn {
				c = cache.NewSegmentCache(cfg.CacheCap)
			}
			pc := PartitionLogConfig{Buffer: WriteBufferConfig{MaxBytes: cfg.MaxBytes}, Segment: SegmentWriterConfig{IndexIntervalMessages: cfg.Interval},
				ReadAheadSegments: cfg.ReadAhead, CacheEnabled: cfg.CacheOn}
			return NewPartitionLog("default", "orders", 0, start, newVfS3(obj), c, pc, nil, nil, nil)
		}
		plog := mk(0)
		ref := &c03Ref{}
		restarted := false
		doReads := func(sel []int, where string) {
			for i := 0; i+1 < len(sel); i += 2 {
				o, m, class := c03PickRead(ref, sel[i], sel[i+1])
				got, err := plog.Read(ctx, o, m)
				synctest.Wait()
				out.Trace = append(out.Trace, fmt.Sprintf("read(%d,%d)@%s=%d,%v", o, m, where, len(got), err))
				out.Classes["read-"+class]++
				if err != nil {
					if errors.Is(err, ErrOffsetOutOfRange) && (o >= ref.end() || o < 0) {
						continue
					}
					if o >= ref.end() {
						continue // any error beyond the end is acceptable
					}
					if m > 0 {
						out.V4 = append(out.V4, fmt.Sprintf("read(offset=%d,maxBytes=%d) below the end offset %d failed: %v", o, m, ref.end(), err))
					}
					continue
				}
				if o >= ref.end() {
					if len(got) != 0 {
						out.V3 = append(out.V3, fmt.Sprintf("read(%d) at/after the end offset %d returned %d bytes", o, ref.end(), len(got)))
					}
					continue
				}
				v3, v4, crossed, _ := c03CheckRead(ref, o, m, got)
				if v3 != "" {
					out.V3 = append(out.V3, v3+" ["+where+"]")
				}
				if v4 != "" && m > 0 {
					out.V4 = append(out.V4, v4+" ["+where+"]")
				}
				if crossed >= 2 || where != "steady" || restarted {
					out.NT3 = true
				}
				if crossed >= 2 {
					out.Classes["read-crossing-2+-batches"]++
				}
				if cfg.Interval > 1 && m > 0 && m < 1<<20 {
					out.NT4 = true
				}
			}
		}
		nb := 0
		for _, s := range steps {
			switch s.Kind {
			case "append":
				raw := c03Batch(fmt.Sprintf("b%d", nb), s.Records, s.ValSize)
				nb++
				batch, err := NewRecordBatchFromBytes(raw)
				if err != nil {
					out.V3 = append(out.V3, "harness: "+err.Error())
					return
				}
				res, err := plog.AppendBatch(ctx, batch)
				synctest.Wait()
				if err != nil {
					out.V3 = append(out.V3, "harness: append failed without faults: "+err.Error())
					return
				}
				if res.BaseOffset != ref.end() {
					out.V3 = append(out.V3, fmt.Sprintf("harness: append got base %d, reference end %d", res.BaseOffset, ref.end()))
					return
				}
				ref.add(res.BaseOffset, s.Records, raw)
				out.Trace = append(out.Trace, fmt.Sprintf("append(%d recs,%dB)->%d", s.Records, len(raw), res.BaseOffset))
			case "flush":
				if err := plog.Flush(ctx); err != nil {
					out.V3 = append(out.V3, "harness: flush failed without faults: "+err.Error())
					return
				}
				synctest.Wait()
				out.Trace = append(out.Trace, "flush")
			case "window":
				// start a flush, hold its uploads, read during the flush window
				gated = true
				sched.Go("flusher", func() { _ = plog.Flush(ctx) })
				ps := sched.ParkedNow()
				if len(ps) > 0 {
					out.Classes["flush-window-with-parked-uploads"]++
					if len(s.Selector) >= 4 && s.Selector[0]%2 == 0 {
						// a producer appends while the flush is still uploading: the new batch goes
						// to the write buffer while the drained ones sit in the flush window
						raw := c03Batch(fmt.Sprintf("b%d", nb), 1+s.Selector[1]%4, 10)
						nb++
						batch, err := NewRecordBatchFromBytes(raw)
						if err != nil {
							out.V3 = append(out.V3, "harness: "+err.Error())
							return
						}
						res, err := plog.AppendBatch(ctx, batch)
						if err != nil {
							out.V3 = append(out.V3, "harness: append during flush window failed: "+err.Error())
							return
						}
						ref.add(res.BaseOffset, 1+s.Selector[1]%4, raw)
						out.Classes["append-during-flush-window"]++
						out.Trace = append(out.Trace, fmt.Sprintf("append-in-window->%d", res.BaseOffset))
					}
					doReads(s.Selector, "flush-window")
				}
				gated = false
				sched.Drain()
				out.Trace = append(out.Trace, "window-flush")
			case "restart":
				if err := plog.Flush(ctx); err != nil {
					out.V3 = append(out.V3, "harness: flush failed without faults: "+err.Error())
					return
				}
				synctest.Wait()
				plog = mk(ref.end())
				if _, err := plog.RestoreFromS3(ctx); err != nil {
					out.V3 = append(out.V3, "restart: RestoreFromS3 failed: "+err.Error())
					return
				}
				restarted = true
				out.Trace = append(out.Trace, "restart")
			case "read":
				doReads(s.Selector, "steady")
			}
		}
		synctest.Wait()
	})
	return out
}

func c03Check(t *testing.T, focus string) {
	st := vfkit.NewStats(focus, "logreads")
	defer st.Flush()
	rapid.Check(t, func(rt *rapid.T) {
		cfg := c03DrawCfg(rt)
		steps := c03DrawSteps(rt)
		st.Eval()
		out := c03Run(t, cfg, steps)
		for k, n := range out.Classes {
			st.ClassN(k, n)
		}
		for _, v := range append(append([]string{}, out.V3...), out.V4...) {
			if strings.HasPrefix(v, "harness:") {
				rt.Fatalf("%s\ntrace %v", v, out.Trace)
			}
		}
		if focus == "C03" {
			if out.NT3 {
				if st.NonTrivial(cfg, out.Trace) {
					st.Sample(map[string]any{"cfg": cfg, "trace": out.Trace})
				}
			}
			if len(out.V3) > 0 {
				rt.Fatalf("C03 violated: %s\ncfg %+v\ntrace %v", strings.Join(out.V3, "\n"), cfg, out.Trace)
			}
		}
	})
}

func TestVF_C03_LogReads(t *testing.T) { c03Check(t, "C03") }
