//go:build verif

package storage

import (
	"bytes"
	"context"
	"fmt"
	"os"
	"sort"
	"strings"
	"sync"
	"testing"
	"testing/synctest"

	"pgregory.net/rapid"
	"verif.local/vfkit"
)

// C01 / C05 (PartitionLog level): concurrent producers (append, then Flush = the
// flush-on-ack path of the broker) on ONE real PartitionLog, S3 uploads and the
// end-offset callback gated by a deterministic scheduler, upload faults from a plan.
//
// C01 oracle: at the moment Append+Flush have both returned nil for a batch (that is when
// the broker would answer code 0), a .kfs object that has its .index exists in the S3
// model and decodes (own codec) to a batch with the assigned base offset and the same
// records; and after a restart (fresh PartitionLog + RestoreFromS3) a Read at that offset
// returns that batch.
// C05 oracle: after every scheduler step the published end offset (value applied by the
// onFlush callback exactly as both metadata stores apply it: next = LastOffset+1,
// unconditional) never decreases and never exceeds 1 + the highest last offset over
// complete segments in S3.

type c01Op struct {
	Records int  // records in the batch
	Ack     bool // true: append then Flush (acks=1/-1 with flush-on-ack); false: append only (acks=0 traffic)
}

type c01Plan struct {
	Workers   [][]c01Op
	MaxBytes  int // WriteBuffer.MaxBytes (0 = no size-triggered flush)
	SegFaults []vfkit.FaultKind
	IdxFaults []vfkit.FaultKind
	Picks     []int
	Interval  int32
	// Cancels[k] = w+1 means: before the k-th scheduling step the context of worker w's
	// current operation is cancelled (a client that disconnects mid-request); 0 = nothing.
	Cancels []int
}

func c01DrawPlan(t *rapid.T) c01Plan {
	var p c01Plan
	maxW := 4
	if os.Getenv("VF_WORKERS_MAX") == "2" {
		// exactly two producers: at most one Flush waiter exists at any time, so the
		// run does not depend on which of several woken waiters wins the mutex and every
		// failure replays deterministically
		maxW = 2
	}
	nw := rapid.IntRange(2, maxW).Draw(t, "workers")
	for w := 0; w < nw; w++ {
		n := rapid.IntRange(1, 3).Draw(t, "nops")
		ops := make([]c01Op, n)
		for i := range ops {
			ops[i] = c01Op{Records: rapid.IntRange(1, 4).Draw(t, "records"), Ack: rapid.IntRange(0, 9).Draw(t, "ackdie") > 0}
		}
		p.Workers = append(p.Workers, ops)
	}
	p.MaxBytes = rapid.SampledFrom([]int{0, 120, 120, 300, 700}).Draw(t, "maxbytes")
	fk := rapid.SampledFrom([]vfkit.FaultKind{vfkit.FaultNone, vfkit.FaultNone, vfkit.FaultNone, vfkit.FaultBefore, vfkit.FaultAfter})
	p.SegFaults = rapid.SliceOfN(fk, 0, 8).Draw(t, "segfaults")
	p.IdxFaults = rapid.SliceOfN(fk, 0, 8).Draw(t, "idxfaults")
	p.Picks = rapid.SliceOfN(rapid.IntRange(0, 5), 0, 40).Draw(t, "picks")
	p.Interval = rapid.SampledFrom([]int32{1, 3, 100}).Draw(t, "interval")
	p.Cancels = rapid.SliceOfN(rapid.SampledFrom([]int{0, 0, 0, 0, 0, 0, 1, 2, 3, 4}), 0, 24).Draw(t, "cancels")
	return p
}

type c01Ack struct {
	Worker, Op int
	Base       int64
	Tag        string
	Records    int
}

type c01Result struct {
	Violations01      []string // C01
	Violations05      []string // C05
	Violations02      []string // C02: stored offsets unique / increasing, ack base == first stored offset
	Acks              []c01Ack
	Published         []int64 // sequence of published values (next offset)
	Trace             []string
	FailedFlush       bool // some upload failed
	WaiterBehind      bool // a Flush caller was parked/waiting while another flush failed (approximation: >=2 producers in flight at failure)
	TwoPubParked      bool // two publish callbacks parked at the same time
	PubWithConcurrent bool // a publish callback parked while another producer is between Append and end of Flush
	EmptyFlush        bool
	EmptyAfterFail    bool
	Cancelled         bool // some operation's context was cancelled while it was in flight
	Uploads           int
}

const c01Prefix = "default/orders/0/"

func c01BatchBytes(tag string, n int) []byte {
	return vfkit.SimpleBatch(0, 1_700_000_000_000, n, tag)
}

// c01FindAcked looks for the acked batch in complete S3 segments.
func c01FindAcked(o *vfkit.ObjStore, a c01Ack) string {
	segs, bad := vfCompleteSegments(o, c01Prefix)
	if len(bad) > 0 {
		return fmt.Sprintf("complete segment does not decode: %v", bad)
	}
	want := c01BatchBytes(a.Tag, a.Records)
	wb, _, err := vfkit.DecodeBatch(want)
	if err != nil {
		return "harness: own batch does not decode: " + err.Error()
	}
	for _, s := range segs {
		for _, b := range s.Batches {
			if b.BaseOffset != a.Base {
				continue
			}
			if len(b.Records) != len(wb.Records) {
				continue
			}
			same := true
			for i := range b.Records {
				if !bytes.Equal(b.Records[i].Value, wb.Records[i].Value) || !bytes.Equal(b.Records[i].Key, wb.Records[i].Key) {
					same = false
				}
			}
			if same {
				return ""
			}
		}
	}
	return fmt.Sprintf("acked batch %s (base offset %d, %d records) is in no S3 segment that has its index; S3 keys: %v", a.Tag, a.Base, a.Records, o.Keys())
}

func c01Run(t *testing.T, p c01Plan) (res c01Result) {
	synctest.Test(t, func(t *testing.T) {
		ctx := context.Background()
		obj := vfkit.NewObjStore()
		sched := vfkit.NewSched()
		var mu sync.Mutex
		segN, idxN := 0, 0
		obj.Fault = func(op vfkit.ObjOp) vfkit.FaultKind {
			// called under the store lock; per-kind counters are deterministic because
			// flushes of one partition are serialized by PartitionLog.flushing
			switch op.Kind {
			case "put-segment":
				segN++
				if segN-1 < len(p.SegFaults) {
					return p.SegFaults[segN-1]
				}
			case "put-index":
				idxN++
				if idxN-1 < len(p.IdxFaults) {
					return p.IdxFaults[idxN-1]
				}
			}
			return vfkit.FaultNone
		}
		inFlight := 0                                         // producers between start of Append and end of Flush
		cancels := make([]context.CancelFunc, len(p.Workers)) // cancel func of each worker's current op
		obj.OnOp = func(op vfkit.ObjOp) {
			if strings.HasPrefix(op.Kind, "put-") {
				if op.Fault != vfkit.FaultNone {
					mu.Lock()
					res.FailedFlush = true
					if inFlight >= 2 {
						res.WaiterBehind = true
					}
					mu.Unlock()
				}
				sched.Gate("s3", op.Kind+" "+op.Key)
			}
		}
		published := int64(0)
		lastFlushFailed := false
		onFlush := func(_ context.Context, art *SegmentArtifact) {
			if art.SegmentBytes == nil {
				mu.Lock()
				res.EmptyFlush = true
				if lastFlushFailed {
					res.EmptyAfterFail = true
				}
				mu.Unlock()
			}
			sched.Gate("cb", fmt.Sprintf("publish %020d", art.LastOffset))
			mu.Lock()
			published = art.LastOffset + 1
			res.Published = append(res.Published, published)
			mu.Unlock()
		}
		cfg := PartitionLogConfig{Buffer: WriteBufferConfig{MaxBytes: p.MaxBytes}, Segment: SegmentWriterConfig{IndexIntervalMessages: p.Interval}}
		plog := NewPartitionLog("default", "orders", 0, 0, newVfS3(obj), nil, cfg, onFlush, nil, nil)

		for w, ops := range p.Workers {
			w, ops := w, ops
			sched.Go(fmt.Sprintf("w%d", w), func() {
				for i, op := range ops {
					tag := fmt.Sprintf("w%d-%d", w, i)
					raw := c01BatchBytes(tag, op.Records)
					batch, err := NewRecordBatchFromBytes(raw)
					if err != nil {
						mu.Lock()
						res.Violations01 = append(res.Violations01, "harness: NewRecordBatchFromBytes rejected a well-formed batch: "+err.Error())
						mu.Unlock()
						return
					}
					// worker start is itself a scheduling point so that appends interleave
					sched.Gate(fmt.Sprintf("w%d", w), fmt.Sprintf("append %s", tag))
					opCtx, cancel := context.WithCancel(ctx)
					mu.Lock()
					inFlight++
					cancels[w] = cancel
					mu.Unlock()
					ar, err := plog.AppendBatch(opCtx, batch)
					ok := err == nil
					if !ok {
						mu.Lock()
						lastFlushFailed = true
						mu.Unlock()
					}
					if ok && op.Ack {
						if ferr := plog.Flush(opCtx); ferr != nil {
							ok = false
							mu.Lock()
							lastFlushFailed = true
							mu.Unlock()
						} else {
							mu.Lock()
							lastFlushFailed = false
							mu.Unlock()
						}
					}
					mu.Lock()
					inFlight--
					cancels[w] = nil
					mu.Unlock()
					cancel()
					if ok && op.Ack {
						a := c01Ack{Worker: w, Op: i, Base: ar.BaseOffset, Tag: tag, Records: op.Records}
						msg := c01FindAcked(obj, a)
						mu.Lock()
						res.Acks = append(res.Acks, a)
						if msg != "" {
							res.Violations01 = append(res.Violations01, "at ack time: "+msg)
						}
						mu.Unlock()
					}
				}
			})
		}

		// controller
		prevPub := int64(0)
		checkC05 := func(step string) {
			mu.Lock()
			pub := published
			mu.Unlock()
			if pub < prevPub {
				res.Violations05 = append(res.Violations05, fmt.Sprintf("after %s: published end offset went down %d -> %d", step, prevPub, pub))
			}
			prevPub = pub
			if end := vfDurableEnd(obj, c01Prefix); pub > end {
				res.Violations05 = append(res.Violations05, fmt.Sprintf("after %s: published end offset %d exceeds 1+last offset stored in complete S3 segments (%d)", step, pub, end))
			}
		}
		pi := 0
		for {
			ps := sched.ParkedNow()
			if len(ps) == 0 {
				break
			}
			npub := 0
			for _, q := range ps {
				if q.Worker == "cb" {
					npub++
				}
			}
			if npub >= 2 {
				res.TwoPubParked = true
			}
			mu.Lock()
			if npub >= 1 && inFlight >= 2 {
				res.PubWithConcurrent = true
			}
			mu.Unlock()
			if pi < len(p.Cancels) && p.Cancels[pi] > 0 && p.Cancels[pi]-1 < len(cancels) {
				mu.Lock()
				c := cancels[p.Cancels[pi]-1]
				mu.Unlock()
				if c != nil {
					c()
					res.Cancelled = true
					sched.Trace = append(sched.Trace, fmt.Sprintf("cancel-ctx w%d", p.Cancels[pi]-1))
					synctest.Wait()
				}
			}
			k := 0
			if pi < len(p.Picks) {
				k = p.Picks[pi] % len(ps)
			}
			pi++
			lbl := ps[k].Worker + ":" + ps[k].Label
			sched.Release(ps[k].ID)
			checkC05(lbl)
		}
		res.Trace = sched.Trace
		res.Uploads = segN + idxN
		if sched.Running() != 0 {
			res.Violations01 = append(res.Violations01, fmt.Sprintf("harness: %d workers still running with nothing parked (blocked outside the harness seams)", sched.Running()))
			return
		}

		// C02 on the stored log: over all complete segments in key order the batches must have
		// strictly increasing, non-overlapping offset ranges, and every acked batch must sit
		// at exactly the base offset that was acknowledged (and nowhere else).
		{
			segs, bad := vfCompleteSegments(obj, c01Prefix)
			for _, b := range bad {
				res.Violations02 = append(res.Violations02, "complete segment does not decode: "+b)
			}
			next := int64(-1)
			where := map[string][]int64{}
			for _, sg := range segs {
				for _, b := range sg.Batches {
					if b.BaseOffset < next {
						res.Violations02 = append(res.Violations02, fmt.Sprintf("stored log is not strictly increasing: batch at base offset %d follows offsets up to %d (segment base %d)", b.BaseOffset, next-1, sg.BaseOffset))
					}
					next = b.BaseOffset + int64(len(b.Records))
					if len(b.Records) > 0 {
						v := string(b.Records[0].Value)
						if i := strings.LastIndex(v, "-"); i > 0 {
							where[v[:i]] = append(where[v[:i]], b.BaseOffset)
						}
					}
				}
			}
			for _, a := range res.Acks {
				at := where[a.Tag]
				if len(at) != 1 || at[0] != a.Base {
					res.Violations02 = append(res.Violations02, fmt.Sprintf("batch %s was acknowledged at base offset %d but the stored log holds it at %v", a.Tag, a.Base, at))
				}
			}
		}

		// restart: fresh log from the published offset, no faults, no gates
		obj.Fault, obj.OnOp = nil, nil
		mu.Lock()
		start := published
		mu.Unlock()
		nl := NewPartitionLog("default", "orders", 0, start, newVfS3(obj), nil, cfg, nil, nil, nil)
		if _, err := nl.RestoreFromS3(ctx); err != nil {
			if len(res.Acks) > 0 {
				res.Violations01 = append(res.Violations01, fmt.Sprintf("after restart: RestoreFromS3 failed (%v) with %d acknowledged batches unreadable; S3 keys %v", err, len(res.Acks), obj.Keys()))
			}
			return
		}
		for _, a := range res.Acks {
			data, err := nl.Read(ctx, a.Base, 1<<20)
			if err != nil {
				res.Violations01 = append(res.Violations01, fmt.Sprintf("after restart: Read(%d) for acked batch %s failed: %v", a.Base, a.Tag, err))
				continue
			}
			bs, _ := vfkit.DecodeBatchesLenient(data)
			found := false
			for _, b := range bs {
				if b.BaseOffset == a.Base && len(b.Records) == a.Records && len(b.Records) > 0 &&
					string(b.Records[0].Value) == a.Tag+"-0" {
					found = true
				}
			}
			if !found {
				res.Violations01 = append(res.Violations01, fmt.Sprintf("after restart: Read(%d) does not contain acked batch %s", a.Base, a.Tag))
			}
		}
	})
	return res
}

func c01Shape(p c01Plan) string {
	var sb strings.Builder
	for _, w := range p.Workers {
		for _, o := range w {
			fmt.Fprintf(&sb, "%d%v,", o.Records, o.Ack)
		}
		sb.WriteString("|")
	}
	fmt.Fprintf(&sb, "mb%d s%v i%v p%v c%v", p.MaxBytes, p.SegFaults, p.IdxFaults, p.Picks, p.Cancels)
	return sb.String()
}

// c01KnownMatch reports whether a C01 violation message belongs to a listed finding.
func c01Sample(p c01Plan, r c01Result) map[string]any {
	return map[string]any{"workers": p.Workers, "max_bytes": p.MaxBytes, "seg_faults": p.SegFaults, "idx_faults": p.IdxFaults,
		"picks": p.Picks, "trace": r.Trace, "acks": r.Acks, "published": r.Published}
}

func c01Check(t *testing.T, focus string) {
	leg := os.Getenv("VF_LEG")
	if leg == "" {
		leg = "logsched"
	}
	st := vfkit.NewStats(focus, leg)
	defer st.Flush()
	rapid.Check(t, func(rt *rapid.T) {
		p := c01DrawPlan(rt)
		st.Eval()
		r := c01Run(t, p)
		if r.FailedFlush {
			st.Class("upload-failed")
		}
		if r.WaiterBehind {
			st.Class("failure-with-2+-producers-in-flight")
		}
		if r.TwoPubParked {
			st.Class("two-publish-callbacks-parked")
		}
		if r.EmptyAfterFail {
			st.Class("empty-flush-after-failed-flush")
		}
		if r.EmptyFlush {
			st.Class("empty-flush")
		}
		if r.PubWithConcurrent {
			st.Class("publish-parked-with-concurrent-producer")
		}
		if r.Cancelled {
			st.Class("context-cancelled-in-flight")
		}
		if len(r.Acks) > 0 {
			st.Class("has-acks")
		}
		nt := false
		if focus == "C01" {
			nt = r.FailedFlush && r.WaiterBehind
		} else {
			nt = r.TwoPubParked || r.EmptyAfterFail || r.PubWithConcurrent || (r.EmptyFlush && r.FailedFlush)
		}
		if nt {
			if st.NonTrivial(c01Shape(p)) {
				st.Sample(c01Sample(p, r))
			}
		}
		for _, v := range append(append([]string{}, r.Violations01...), r.Violations05...) {
			if strings.HasPrefix(v, "harness:") {
				rt.Fatalf("%s", v)
			}
		}
		if focus == "C02" {
			if r.FailedFlush && len(r.Acks) > 0 {
				if st.NonTrivial(c01Shape(p)) {
					st.Sample(c01Sample(p, r))
				}
			}
			if len(r.Violations02) > 0 {
				rt.Fatalf("C02 violated: %s\ntrace: %v", strings.Join(r.Violations02, "\n"), r.Trace)
			}
		}
		if focus == "C01" && len(r.Violations01) > 0 {
			sort.Strings(r.Violations01)
			rt.Fatalf("C01 violated: %s\ntrace: %v", strings.Join(r.Violations01, "\n"), r.Trace)
		}
		if focus == "C05" && len(r.Violations05) > 0 {
			rt.Fatalf("C05 violated: %s\ntrace: %v\npublished: %v", strings.Join(r.Violations05, "\n"), r.Trace, r.Published)
		}
	})
}

func TestVF_C01_LogSched(t *testing.T) { c01Check(t, "C01") }
func TestVF_C05_LogSched(t *testing.T) { c01Check(t, "C05") }
func TestVF_C02_LogSched(t *testing.T) { c01Check(t, "C02") }

var _ = os.Getenv
