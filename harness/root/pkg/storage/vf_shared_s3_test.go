//go:build verif

package storage

import (
	"context"
	"errors"
	"sort"
	"strings"

	"verif.local/vfkit"
)

// vfS3 adapts the vfkit object-store model to storage.S3Client.
type vfS3 struct{ o *vfkit.ObjStore }

func newVfS3(o *vfkit.ObjStore) *vfS3 { return &vfS3{o: o} }

func vfMapErr(err error) error {
	if errors.Is(err, vfkit.ErrObjNotFound) {
		return ErrNotFound
	}
	return err
}

func (s *vfS3) UploadSegment(ctx context.Context, key string, body []byte) error {
	return s.o.PutIf("put-segment", key, body, ctx.Err)
}
func (s *vfS3) UploadIndex(ctx context.Context, key string, body []byte) error {
	return s.o.PutIf("put-index", key, body, ctx.Err)
}
func (s *vfS3) DeleteSegment(ctx context.Context, key string) error {
	return s.o.Delete("delete-segment", key)
}
func (s *vfS3) DeleteIndex(ctx context.Context, key string) error {
	return s.o.Delete("delete-index", key)
}
func (s *vfS3) DownloadSegment(ctx context.Context, key string, rng *ByteRange) ([]byte, error) {
	var r *[2]int64
	kind := "get-segment"
	if rng != nil {
		r = &[2]int64{rng.Start, rng.End}
		kind = "get-segment-range"
	}
	b, err := s.o.Get(kind, key, r)
	return b, vfMapErr(err)
}
func (s *vfS3) DownloadIndex(ctx context.Context, key string) ([]byte, error) {
	b, err := s.o.Get("get-index", key, nil)
	return b, vfMapErr(err)
}
func (s *vfS3) ListSegments(ctx context.Context, prefix string) ([]S3Object, error) {
	objs, err := s.o.List("list", prefix)
	if err != nil {
		return nil, err
	}
	out := make([]S3Object, 0, len(objs))
	for _, o := range objs {
		out = append(out, S3Object{Key: o.Key, Size: o.Size})
	}
	return out, nil
}
func (s *vfS3) EnsureBucket(ctx context.Context) error { return nil }

// vfCompleteSegments decodes (own codec) every .kfs object under prefix that has its
// .index sibling. Objects that do not decode are returned in bad.
func vfCompleteSegments(o *vfkit.ObjStore, prefix string) (segs []*vfkit.SegmentInfo, bad []string) {
	snap := o.Snapshot()
	keys := make([]string, 0, len(snap))
	for k := range snap {
		keys = append(keys, k)
	}
	sort.Strings(keys)
	for _, k := range keys {
		if !strings.HasPrefix(k, prefix) || !strings.HasSuffix(k, ".kfs") {
			continue
		}
		if _, ok := snap[strings.TrimSuffix(k, ".kfs")+".index"]; !ok {
			continue
		}
		si, err := vfkit.DecodeSegment(snap[k])
		if err != nil {
			bad = append(bad, k+": "+err.Error())
			continue
		}
		segs = append(segs, si)
	}
	return segs, bad
}

// vfDurableEnd returns 1 + the highest last offset over complete segments (0 if none).
func vfDurableEnd(o *vfkit.ObjStore, prefix string) int64 {
	segs, _ := vfCompleteSegments(o, prefix)
	var end int64
	for _, s := range segs {
		if s.LastOffset+1 > end {
			end = s.LastOffset + 1
		}
	}
	return end
}
