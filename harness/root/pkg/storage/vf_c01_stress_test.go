//go:build verif

package storage

import (
	"context"
	"fmt"
	"log/slog"
	"os"
	"runtime"
	"sort"
	"strconv"
	"strings"
	"sync"
	"sync/atomic"
	"testing"

	"verif.local/vfkit"
)

// C01/C02/C05, free-running leg: the scheduled machine only switches goroutines at S3 calls and at
// the end-offset callback; a window that opens between two lock sections of the log itself
// (no call out in between) is invisible to it. Here N producers run Append+Flush on real
// threads with no gates, for a fixed number of operations per configuration (no time
// limit, no wall clock in the oracle); the configurations are derived from VF_SEED.
// Oracle, evaluated inside the end-offset callback (callbacks are serialised by the log):
// the published end offset must not go down and must be <= 1 + the last offset of the S3
// segments that are complete (segment + index stored) at that moment. C01: when Append and
// Flush both returned nil (what the handler acknowledges), the batch's last offset is below
// the end of the complete S3 segments. C02: no two successful appends got overlapping
// offset ranges.

type c05sS3 struct {
	*vfS3
	mu   sync.Mutex
	seg  map[string]int64 // key stem -> last offset of the stored segment
	idx  map[string]bool
	end  int64
	fail func(n int64) bool
	n    atomic.Int64
}

func (s *c05sS3) note(stem string) {
	if last, ok := s.seg[stem]; ok && s.idx[stem] && last+1 > s.end {
		s.end = last + 1
	}
}

func (s *c05sS3) UploadSegment(ctx context.Context, key string, body []byte) error {
	if s.fail != nil && s.fail(s.n.Add(1)) {
		return fmt.Errorf("vf: injected upload failure")
	}
	if err := s.vfS3.UploadSegment(ctx, key, body); err != nil {
		return err
	}
	si, err := vfkit.DecodeSegment(body)
	if err != nil {
		return nil
	}
	s.mu.Lock()
	stem := strings.TrimSuffix(key, ".kfs")
	s.seg[stem] = si.LastOffset
	s.note(stem)
	s.mu.Unlock()
	return nil
}

func (s *c05sS3) UploadIndex(ctx context.Context, key string, body []byte) error {
	if s.fail != nil && s.fail(s.n.Add(1)) {
		return fmt.Errorf("vf: injected upload failure")
	}
	if err := s.vfS3.UploadIndex(ctx, key, body); err != nil {
		return err
	}
	s.mu.Lock()
	stem := strings.TrimSuffix(key, ".index")
	s.idx[stem] = true
	s.note(stem)
	s.mu.Unlock()
	return nil
}

func (s *c05sS3) durableEnd() int64 { s.mu.Lock(); defer s.mu.Unlock(); return s.end }

func TestVF_C01_Stress(t *testing.T) { c01Stress(t, "C01") }
func TestVF_C02_Stress(t *testing.T) { c01Stress(t, "C02") }
func TestVF_C05_Stress(t *testing.T) { c01Stress(t, "C05") }
func TestVF_C03_Stress(t *testing.T) { c01Stress(t, "C03") }

// C41: the same free-running workload under the race detector, with readers that keep
// reading the newest offsets (flushed, mid-flush and buffered) while uploads fail and succeed.
func TestVF_C41_LogStress(t *testing.T) { c01Stress(t, "C41") }

// c01SlowSink is a log sink that takes its time: every record yields the processor a few
// dozen times, which widens any window the code leaves open around a log call.
type c01SlowSink struct{ n atomic.Int64 }

func (h *c01SlowSink) Enabled(context.Context, slog.Level) bool { return true }
func (h *c01SlowSink) Handle(context.Context, slog.Record) error {
	h.n.Add(1)
	for i := 0; i < 40; i++ {
		runtime.Gosched()
	}
	return nil
}
func (h *c01SlowSink) WithAttrs([]slog.Attr) slog.Handler { return h }
func (h *c01SlowSink) WithGroup(string) slog.Handler      { return h }

func c01Stress(t *testing.T, focus string) {
	st := vfkit.NewStats(focus, "stress")
	defer st.Flush()
	seed, _ := strconv.ParseUint(os.Getenv("VF_SEED"), 10, 64)
	if seed == 0 {
		seed = 1
	}
	next := func() uint64 { // splitmix64 on VF_SEED: the configuration sequence is a function of the seed
		seed += 0x9e3779b97f4a7c15
		z := seed
		z = (z ^ (z >> 30)) * 0xbf58476d1ce4e5b9
		z = (z ^ (z >> 27)) * 0x94d049bb133111eb
		return z ^ (z >> 31)
	}
	rounds, opsPer := 14, 5000
	if vfkit.Tier() == "thorough" {
		rounds, opsPer = 300, 20000
	}
	if focus == "C41" { // race-detector build: an order of magnitude slower
		rounds, opsPer = 6, 1000
		if vfkit.Tier() == "thorough" {
			rounds, opsPer = 120, 3000
		}
	}
	for r := 0; r < rounds; r++ {
		producers := 3 + int(next()%10)
		failEvery := []int64{0, 0, 97, 13}[next()%4]
		bufMax := []int{1 << 30, 1 << 30, 400}[next()%3]
		slowLog := next()%2 == 0
		var logger *slog.Logger
		if slowLog {
			logger = slog.New(&c01SlowSink{})
		}
		obj := vfkit.NewObjStore()
		s3 := &c05sS3{vfS3: newVfS3(obj), seg: map[string]int64{}, idx: map[string]bool{}}
		if failEvery > 0 {
			s3.fail = func(n int64) bool { return n%failEvery == 0 }
		}
		var violation, violation01, violation02, violation03 atomic.Value
		owner := map[int64]int{} // base -> producer
		var stop atomic.Bool
		var rangesMu sync.Mutex
		ranges := map[int64]int64{} // base -> last of every successful append
		var acked, appendErrs atomic.Int64
		var publishes, emptyPublishes atomic.Int64
		var lastPub int64
		plog := NewPartitionLog("default", "orders", 0, 0, s3, nil, PartitionLogConfig{
			Buffer:  WriteBufferConfig{MaxBytes: bufMax},
			Segment: SegmentWriterConfig{IndexIntervalMessages: 1},
			Logger:  logger,
		}, func(_ context.Context, a *SegmentArtifact) {
			publishes.Add(1)
			if len(a.SegmentBytes) == 0 {
				emptyPublishes.Add(1)
			}
			pub := a.LastOffset + 1
			durable := s3.durableEnd()
			if pub > durable {
				if violation.CompareAndSwap(nil, fmt.Sprintf("published end offset %d but complete S3 segments only reach end offset %d (publish of a flush that drained nothing: %v)", pub, durable, len(a.SegmentBytes) == 0)) && focus == "C05" {
					stop.Store(true)
				}
			}
			if pub < atomic.LoadInt64(&lastPub) {
				if violation.CompareAndSwap(nil, fmt.Sprintf("published end offset went down %d -> %d", atomic.LoadInt64(&lastPub), pub)) && focus == "C05" {
					stop.Store(true)
				}
			}
			atomic.StoreInt64(&lastPub, pub)
		}, nil, nil)
		var wg sync.WaitGroup
		var readersWG sync.WaitGroup
		var producersDone atomic.Bool
		var newest atomic.Int64
		var reads atomic.Int64
		if focus == "C41" {
			for rd := 0; rd < 3; rd++ {
				readersWG.Add(1)
				go func(rd int) {
					defer readersWG.Done()
					ctx := context.Background()
					for i := 0; !producersDone.Load(); i++ {
						o := newest.Load() - int64((i+rd)%7)
						if o < 0 {
							o = 0
						}
						_, _ = plog.Read(ctx, o, 4096)
						reads.Add(1)
					}
				}(rd)
			}
		}
		per := opsPer / producers
		for p := 0; p < producers; p++ {
			wg.Add(1)
			go func(p int) {
				defer wg.Done()
				ctx := context.Background()
				rs := make([]vfkit.Record, 1+p%3)
				for i := range rs {
					rs[i] = vfkit.Record{TsDelta: int64(i), Key: []byte(fmt.Sprintf("p%d/%d", p, i)), Value: []byte("stress-v")}
				}
				raw := vfkit.NewBatch(0, 1_700_000_000_000, rs).Encode()
				for i := 0; i < per && !stop.Load(); i++ {
					b, err := NewRecordBatchFromBytes(append([]byte(nil), raw...))
					if err != nil {
						panic(err)
					}
					res, err := plog.AppendBatch(ctx, b)
					if err != nil {
						appendErrs.Add(1)
						continue // threshold flush failed (injected): allowed, the batch is kept or reported failed
					}
					rangesMu.Lock()
					if last, dup := ranges[res.BaseOffset]; dup {
						violation02.CompareAndSwap(nil, fmt.Sprintf("two appends were both assigned base offset %d (ranges %d..%d and %d..%d)", res.BaseOffset, res.BaseOffset, last, res.BaseOffset, res.LastOffset))
						if focus == "C02" {
							stop.Store(true)
						}
					}
					ranges[res.BaseOffset] = res.LastOffset
					owner[res.BaseOffset] = p
					rangesMu.Unlock()
					if res.BaseOffset > newest.Load() {
						newest.Store(res.BaseOffset)
					}
					if res.LastOffset-res.BaseOffset != int64(len(rs)-1) {
						violation02.CompareAndSwap(nil, fmt.Sprintf("a batch of %d records was assigned offsets %d..%d", len(rs), res.BaseOffset, res.LastOffset))
						if focus == "C02" {
							stop.Store(true)
						}
					}
					if err := plog.Flush(ctx); err == nil {
						acked.Add(1)
						if d := s3.durableEnd(); res.LastOffset >= d {
							violation01.CompareAndSwap(nil, fmt.Sprintf("Append and Flush returned nil for offsets %d..%d but complete S3 segments only reach end offset %d", res.BaseOffset, res.LastOffset, d))
							if focus == "C01" {
								stop.Store(true)
							}
						}
					}
				}
			}(p)
		}
		wg.Wait()
		producersDone.Store(true)
		readersWG.Wait()
		if focus == "C41" && reads.Load() > 100 && failEvery > 0 {
			st.Class("reads-concurrent-with-failing-uploads")
		}
		st.Eval()
		st.Class(fmt.Sprintf("producers-%d", producers))
		if emptyPublishes.Load() > 0 {
			st.Class("has-publish-of-empty-flush")
		}
		if failEvery > 0 {
			st.Class("with-upload-failures")
		}
		if slowLog {
			st.Class("slow-log-sink")
		}
		if (focus == "C05" && publishes.Load() > 0 && emptyPublishes.Load() > 0) || (focus != "C05" && acked.Load() > 0 && producers >= 2) {
			if st.NonTrivial(r, producers, failEvery, bufMax) {
				st.Sample(map[string]any{"producers": producers, "ops_per_producer": per, "fail_every": failEvery, "buffer_max": bufMax,
					"publishes": publishes.Load(), "publishes_of_empty_flush": emptyPublishes.Load(), "durable_end": s3.durableEnd()})
			}
		}
		// C02: the offset ranges of successful appends never overlap; when no append failed
		// (a failed append keeps its offsets but reports no range) they tile the log from 0
		if violation02.Load() == nil {
			bases := make([]int64, 0, len(ranges))
			for b := range ranges {
				bases = append(bases, b)
			}
			sort.Slice(bases, func(i, j int) bool { return bases[i] < bases[j] })
			for i := 1; i < len(bases); i++ {
				if ranges[bases[i-1]] >= bases[i] {
					violation02.CompareAndSwap(nil, fmt.Sprintf("appends were assigned overlapping offset ranges %d..%d and %d..%d", bases[i-1], ranges[bases[i-1]], bases[i], ranges[bases[i]]))
					break
				}
				if appendErrs.Load() == 0 && ranges[bases[i-1]]+1 != bases[i] {
					violation02.CompareAndSwap(nil, fmt.Sprintf("gap in the assigned offsets between %d..%d and %d..%d although no append failed", bases[i-1], ranges[bases[i-1]], bases[i], ranges[bases[i]]))
					break
				}
			}
		}
		// C03: after the run every recorded batch is read back at its base offset: the first
		// batch of the answer that reaches the offset must start exactly there and carry the
		// producer's key
		if focus == "C03" && !stop.Load() {
			ctx := context.Background()
			for try := 0; try < 20; try++ {
				if plog.Flush(ctx) == nil {
					break
				}
			}
			checked := 0
			for base, last := range ranges {
				checked++
				data, err := plog.Read(ctx, base, 4096)
				if err != nil {
					if last < s3.durableEnd() {
						violation03.CompareAndSwap(nil, fmt.Sprintf("read at offset %d (stored, below the end %d of the complete segments) failed: %v", base, s3.durableEnd(), err))
					}
					continue
				}
				bs, _ := vfkit.DecodeBatchesLenient(data)
				ok := false
				for _, b := range bs {
					if b.BaseOffset+int64(b.LastOffsetDelta) < base {
						continue
					}
					ok = b.BaseOffset == base && len(b.Records) > 0 && strings.HasPrefix(string(b.Records[0].Key), fmt.Sprintf("p%d/", owner[base]))
					if !ok {
						violation03.CompareAndSwap(nil, fmt.Sprintf("read at offset %d (batch %d..%d of producer %d): the first batch reaching the offset is %d..%d with key %q", base, base, last, owner[base], b.BaseOffset, b.BaseOffset+int64(b.LastOffsetDelta), func() string {
							if len(b.Records) > 0 {
								return string(b.Records[0].Key)
							}
							return ""
						}()))
					}
					break
				}
			}
		}
		if os.Getenv("VF_DEBUG") != "" {
			t.Logf("round %d producers=%d failEvery=%d bufMax=%d slow=%v s3ops=%d appendErrs=%d acked=%d ranges=%d emptyPub=%d", r, producers, failEvery, bufMax, slowLog, s3.n.Load(), appendErrs.Load(), acked.Load(), len(ranges), emptyPublishes.Load())
		}
		vs := map[string]any{"C05": violation.Load(), "C01": violation01.Load(), "C02": violation02.Load(), "C03": violation03.Load()}
		if v := vs[focus]; v != nil {
			t.Fatalf("%s violated (free-running producers=%d failEvery=%d bufMax=%d round=%d, %d acks): %s", focus, producers, failEvery, bufMax, r, acked.Load(), v)
		}
	}
}
