//go:build verif

package storage

import (
	"context"
	"fmt"
	"os"
	"strconv"
	"strings"
	"sync"
	"sync/atomic"
	"testing"

	"verif.local/vfkit"
)

// C01/C02/C05, free-running leg: the scheduled machine only switches goroutines at S3 calls and at
// the end-offset callback; a window that opens between two lock sections of the log itself
// (no call out in between) is invisible to it. Here N producers run Append+Flush on real
// threads with no gates, for a fixed number of operations per configuration (no time
// limit, no wall clock in the oracle); the configurations are derived from VF_SEED.
// Oracle, evaluated inside the end-offset callback (callbacks are serialised by the log):
// the published end offset must not go down and must be <= 1 + the last offset of the S3
// segments that are complete (segment + index stored) at that moment. C01: when Append and
// Flush both returned nil (what the handler acknowledges), the batch's last offset is below
// the end of the complete S3 segments. C02: no two successful appends got overlapping
// offset ranges.

type c05sS3 struct {
	*vfS3
	mu   sync.Mutex
	seg  map[string]int64 // key stem -> last offset of the stored segment
	idx  map[string]bool
	end  int64
	fail func(n int64) bool
	n    atomic.Int64
}

func (s *c05sS3) note(stem string) {
	if last, ok := s.seg[stem]; ok && s.idx[stem] && last+1 > s.end {
		s.end = last + 1
	}
}

func (s *c05sS3) UploadSegment(ctx context.Context, key string, body []byte) error {
	if s.fail != nil && s.fail(s.n.Add(1)) {
		return fmt.Errorf("vf: injected upload failure")
	}
	if err := s.vfS3.UploadSegment(ctx, key, body); err != nil {
		return err
	}
	si, err := vfkit.DecodeSegment(body)
	if err != nil {
		return nil
	}
	s.mu.Lock()
	stem := strings.TrimSuffix(key, ".kfs")
	s.seg[stem] = si.LastOffset
	s.note(stem)
	s.mu.Unlock()
	return nil
}

func (s *c05sS3) UploadIndex(ctx context.Context, key string, body []byte) error {
	if s.fail != nil && s.fail(s.n.Add(1)) {
		return fmt.Errorf("vf: injected upload failure")
	}
	if err := s.vfS3.UploadIndex(ctx, key, body); err != nil {
		return err
	}
	s.mu.Lock()
	stem := strings.TrimSuffix(key, ".index")
	s.idx[stem] = true
	s.note(stem)
	s.mu.Unlock()
	return nil
}

func (s *c05sS3) durableEnd() int64 { s.mu.Lock(); defer s.mu.Unlock(); return s.end }

func TestVF_C01_Stress(t *testing.T) { c01Stress(t, "C01") }
func TestVF_C02_Stress(t *testing.T) { c01Stress(t, "C02") }
func TestVF_C05_Stress(t *testing.T) { c01Stress(t, "C05") }

func c01Stress(t *testing.T, focus string) {
	st := vfkit.NewStats(focus, "stress")
	defer st.Flush()
	seed, _ := strconv.ParseUint(os.Getenv("VF_SEED"), 10, 64)
	if seed == 0 {
		seed = 1
	}
	next := func() uint64 { // splitmix64 on VF_SEED: the configuration sequence is a function of the seed
		seed += 0x9e3779b97f4a7c15
		z := seed
		z = (z ^ (z >> 30)) * 0xbf58476d1ce4e5b9
		z = (z ^ (z >> 27)) * 0x94d049bb133111eb
		return z ^ (z >> 31)
	}
	rounds, opsPer := 14, 5000
	if vfkit.Tier() == "thorough" {
		rounds, opsPer = 300, 20000
	}
	for r := 0; r < rounds; r++ {
		producers := 3 + int(next()%10)
		failEvery := []int64{0, 0, 97, 13}[next()%4]
		bufMax := []int{1 << 30, 1 << 30, 400}[next()%3]
		obj := vfkit.NewObjStore()
		s3 := &c05sS3{vfS3: newVfS3(obj), seg: map[string]int64{}, idx: map[string]bool{}}
		if failEvery > 0 {
			s3.fail = func(n int64) bool { return n%failEvery == 0 }
		}
		var violation, violation01, violation02 atomic.Value
		var stop atomic.Bool
		var rangesMu sync.Mutex
		ranges := map[int64]int64{} // base -> last of every successful append
		var acked atomic.Int64
		var publishes, emptyPublishes atomic.Int64
		var lastPub int64
		plog := NewPartitionLog("default", "orders", 0, 0, s3, nil, PartitionLogConfig{
			Buffer:  WriteBufferConfig{MaxBytes: bufMax},
			Segment: SegmentWriterConfig{IndexIntervalMessages: 1},
		}, func(_ context.Context, a *SegmentArtifact) {
			publishes.Add(1)
			if len(a.SegmentBytes) == 0 {
				emptyPublishes.Add(1)
			}
			pub := a.LastOffset + 1
			durable := s3.durableEnd()
			if pub > durable {
				if violation.CompareAndSwap(nil, fmt.Sprintf("published end offset %d but complete S3 segments only reach end offset %d (publish of a flush that drained nothing: %v)", pub, durable, len(a.SegmentBytes) == 0)) {
					stop.Store(true)
				}
			}
			if pub < atomic.LoadInt64(&lastPub) {
				if violation.CompareAndSwap(nil, fmt.Sprintf("published end offset went down %d -> %d", atomic.LoadInt64(&lastPub), pub)) {
					stop.Store(true)
				}
			}
			atomic.StoreInt64(&lastPub, pub)
		}, nil, nil)
		var wg sync.WaitGroup
		per := opsPer / producers
		for p := 0; p < producers; p++ {
			wg.Add(1)
			go func(p int) {
				defer wg.Done()
				ctx := context.Background()
				rs := make([]vfkit.Record, 1+p%3)
				for i := range rs {
					rs[i] = vfkit.Record{TsDelta: int64(i), Key: []byte(fmt.Sprintf("p%d/%d", p, i)), Value: []byte("stress-v")}
				}
				raw := vfkit.NewBatch(0, 1_700_000_000_000, rs).Encode()
				for i := 0; i < per && !stop.Load(); i++ {
					b, err := NewRecordBatchFromBytes(append([]byte(nil), raw...))
					if err != nil {
						panic(err)
					}
					res, err := plog.AppendBatch(ctx, b)
					if err != nil {
						continue // threshold flush failed (injected): allowed, the batch is kept or reported failed
					}
					rangesMu.Lock()
					if last, dup := ranges[res.BaseOffset]; dup {
						violation02.CompareAndSwap(nil, fmt.Sprintf("two appends were both assigned base offset %d (ranges %d..%d and %d..%d)", res.BaseOffset, res.BaseOffset, last, res.BaseOffset, res.LastOffset))
						stop.Store(true)
					}
					ranges[res.BaseOffset] = res.LastOffset
					rangesMu.Unlock()
					if res.LastOffset-res.BaseOffset != int64(len(rs)-1) {
						violation02.CompareAndSwap(nil, fmt.Sprintf("a batch of %d records was assigned offsets %d..%d", len(rs), res.BaseOffset, res.LastOffset))
						stop.Store(true)
					}
					if err := plog.Flush(ctx); err == nil {
						acked.Add(1)
						if d := s3.durableEnd(); res.LastOffset >= d {
							violation01.CompareAndSwap(nil, fmt.Sprintf("Append and Flush returned nil for offsets %d..%d but complete S3 segments only reach end offset %d", res.BaseOffset, res.LastOffset, d))
							stop.Store(true)
						}
					}
				}
			}(p)
		}
		wg.Wait()
		st.Eval()
		st.Class(fmt.Sprintf("producers-%d", producers))
		if emptyPublishes.Load() > 0 {
			st.Class("has-publish-of-empty-flush")
		}
		if failEvery > 0 {
			st.Class("with-upload-failures")
		}
		if (focus == "C05" && publishes.Load() > 0 && emptyPublishes.Load() > 0) || (focus != "C05" && acked.Load() > 0 && producers >= 2) {
			if st.NonTrivial(r, producers, failEvery, bufMax) {
				st.Sample(map[string]any{"producers": producers, "ops_per_producer": per, "fail_every": failEvery, "buffer_max": bufMax,
					"publishes": publishes.Load(), "publishes_of_empty_flush": emptyPublishes.Load(), "durable_end": s3.durableEnd()})
			}
		}
		// C02: the assigned ranges tile [0, next) without overlap
		if violation02.Load() == nil {
			next := int64(0)
			for next < int64(1)<<40 {
				last, ok := ranges[next]
				if !ok {
					break
				}
				next = last + 1
			}
			covered := 0
			for range ranges {
				covered++
			}
			n := 0
			for b := int64(0); b < next; {
				n++
				b = ranges[b] + 1
			}
			if n != covered {
				violation02.CompareAndSwap(nil, fmt.Sprintf("assigned offset ranges do not tile the log: %d ranges, %d reachable contiguously from 0 (end %d)", covered, n, next))
			}
		}
		vs := map[string]any{"C05": violation.Load(), "C01": violation01.Load(), "C02": violation02.Load()}
		if v := vs[focus]; v != nil {
			t.Fatalf("%s violated (free-running producers=%d failEvery=%d bufMax=%d round=%d, %d acks): %s", focus, producers, failEvery, bufMax, r, acked.Load(), v)
		}
	}
}
