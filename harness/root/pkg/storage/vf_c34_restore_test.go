//go:build verif

package storage

// C34, restore-scanner leg: buildRestorePlan / collectRecoverableBatches over
// broker-written segments whose client record bytes carry one hostile length/count field,
// valid segments with byte flips / truncations, and arbitrary bytes; the index bytes are
// the broker-written ones, damaged ones or arbitrary ones; the restore point is before,
// inside (so the per-record scanner runs) or after the batch timestamps.
// Oracle: (plan | error), no panic, bytes allocated <= 256*len(input)+4MiB.

import (
	"encoding/binary"
	"fmt"
	"math"
	"os"
	"testing"
	"time"

	"pgregory.net/rapid"
	"verif.local/vfkit"
)

const c34FirstTs = int64(1726000000000) // FirstTimestamp used by c34Batches; MaxTimestamp = +5000

func c34BrokerSegment(batches [][]byte) ([]byte, []byte, error) {
	rbs := make([]RecordBatch, 0, len(batches))
	next := int64(0)
	for _, enc := range batches {
		rb, err := NewRecordBatchFromBytes(enc)
		if err != nil {
			return nil, nil, err
		}
		PatchRecordBatchBaseOffset(&rb, next)
		next += int64(rb.LastOffsetDelta) + 1
		rbs = append(rbs, rb)
	}
	art, err := BuildSegment(SegmentWriterConfig{IndexIntervalMessages: 1}, rbs, time.UnixMilli(c34FirstTs))
	if err != nil {
		return nil, nil, err
	}
	return art.SegmentBytes, art.IndexBytes, nil
}

// c34ScannerReached reports whether the per-record scanner runs for some batch of seg at
// this cutoff (frame intact, a batch frame inside the body, first <= cutoff < max,
// uncompressed): the non-triviality rule "structurally valid up to a record header".
func c34ScannerReached(seg []byte, cutoff int64) bool {
	if len(seg) < 48 || string(seg[:4]) != "KAFS" {
		return false
	}
	body := seg[32 : len(seg)-16]
	for off := 0; off+12 <= len(body); {
		bl := int(binary.BigEndian.Uint32(body[off+8 : off+12]))
		if bl <= 0 || off+12+bl > len(body) || 12+bl < 61 {
			return false
		}
		b := body[off : off+12+bl]
		first := int64(binary.BigEndian.Uint64(b[27:35]))
		maxTs := int64(binary.BigEndian.Uint64(b[35:43]))
		if maxTs > cutoff {
			return first <= cutoff && binary.BigEndian.Uint16(b[21:23])&7 == 0 && int32(binary.BigEndian.Uint32(b[57:61])) > 0
		}
		off += 12 + bl
	}
	return false
}

type c34RestoreIn struct {
	Seg, Idx []byte
	Cutoff   int64
	D        c34Desc
	IdxClass string
}

func c34GenRestore(t *rapid.T) c34RestoreIn {
	var in c34RestoreIn
	d := &in.D
	d.Class = rapid.SampledFrom([]string{"hostile-field", "hostile-field", "hostile-field", "valid-flip", "valid-flip", "framed-arbitrary", "arbitrary", "short-frame", "valid", "compressed"}).Draw(t, "class")
	var idx []byte
	switch d.Class {
	case "compressed":
		seg, ix, err := c34BrokerSegment(c34CompressedBatches(t, d))
		if err != nil {
			t.Fatalf("harness: BuildSegment over client blobs failed: %v", err)
		}
		in.Seg, idx = seg, ix
	case "short-frame":
		in.Seg = append([]byte("KAFS"), c34Arbitrary(t, 120)...)
	case "hostile-field", "valid":
		seg, ix, err := c34BrokerSegment(c34Batches(t, d.Class == "hostile-field", d))
		if err != nil {
			t.Fatalf("harness: BuildSegment over client blobs failed: %v", err)
		}
		in.Seg, idx = seg, ix
	case "valid-flip":
		seg, ix, err := c34BrokerSegment(c34Batches(t, false, d))
		if err != nil {
			t.Fatalf("harness: %v", err)
		}
		body := c34Flip(t, seg[32:len(seg)-16], d)
		in.Seg = append(append(append([]byte(nil), seg[:32]...), body...), seg[len(seg)-16:]...)
		idx = ix
	case "framed-arbitrary":
		body := c34Arbitrary(t, 400)
		if rapid.Bool().Draw(t, "with-batch-header") {
			b := &vfkit.Batch{Magic: 2, FirstTimestamp: c34FirstTs, MaxTimestamp: c34FirstTs + 5000, NumRecords: int32(rapid.IntRange(1, 5).Draw(t, "nrec")), RawRecords: body}
			body = b.Encode()
		}
		in.Seg = c34WrapSegment(body)
	default:
		in.Seg = c34Arbitrary(t, 600)
	}
	if idx == nil {
		_, idx, _ = c34BrokerSegment([][]byte{vfkit.SimpleBatch(0, c34FirstTs, 2, "x")})
	}
	in.IdxClass = rapid.SampledFrom([]string{"valid", "valid", "valid", "flip", "arbitrary", "count"}).Draw(t, "index-class")
	switch in.IdxClass {
	case "flip":
		var dd c34Desc
		idx = c34Flip(t, idx, &dd)
	case "arbitrary":
		idx = append([]byte("IDX\x00\x00\x01"), c34Arbitrary(t, 40)...)
	case "count":
		idx = append([]byte(nil), idx...)
		v, _ := c34HostileLen(t, "count", int64(binary.BigEndian.Uint32(idx[6:10])), 16)
		binary.BigEndian.PutUint32(idx[6:10], uint32(v))
	}
	in.Idx = idx
	in.Cutoff = rapid.OneOf(
		rapid.SampledFrom([]int64{math.MinInt64, -1, 0, c34FirstTs - 1, c34FirstTs, c34FirstTs + 5000, math.MaxInt64}),
		rapid.Int64Range(c34FirstTs, c34FirstTs+5000),
		rapid.Int64Range(c34FirstTs, c34FirstTs+5000),
	).Draw(t, "cutoff")
	return in
}

func c34RestoreVerdicts(in c34RestoreIn) (string, c34Outcome, c34Outcome) {
	o1 := c34Run(func() (int, error) {
		bs, err := collectRecoverableBatches(in.Seg, in.Cutoff)
		return len(bs), err
	})
	if v := c34Verdict(o1, len(in.Seg)); v != "" {
		return "collectRecoverableBatches: " + v, o1, c34Outcome{}
	}
	o2 := c34Run(func() (int, error) {
		// restoreTo is a time.Time in production; UnixMilli round-trips for the whole range drawn
		plan, err := buildRestorePlan(in.Seg, in.Idx, time.UnixMilli(in.Cutoff), time.UnixMilli(c34FirstTs))
		if err != nil || plan == nil {
			return 0, err
		}
		return len(plan.segmentBytes), nil
	})
	if v := c34Verdict(o2, len(in.Seg)+len(in.Idx)); v != "" {
		return "buildRestorePlan: " + v, o1, o2
	}
	return "", o1, o2
}

func TestVF_C34_Restore(t *testing.T) {
	st := vfkit.NewStats("C34", "restore")
	defer st.Flush()
	rapid.Check(t, func(t *rapid.T) {
		st.Eval()
		in := c34GenRestore(t)
		st.Class("gen:" + in.D.Class)
		st.Class("index:" + in.IdxClass)
		if in.D.Field != "" {
			st.Class("field:" + in.D.Field)
		}
		v, o1, o2 := c34RestoreVerdicts(in)
		switch {
		case o1.Err != nil:
			st.Class("scan:error")
		case o1.N == 0:
			st.Class("scan:nothing-kept")
		default:
			st.Class("scan:kept")
		}
		if o2.Err != nil {
			st.Class("plan:error")
		} else {
			st.Class("plan:ok")
		}
		if v != "" {
			t.Fatalf("%s\nclass %s field %s=%d [%s] cutoff %d\nsegment: %x\nindex: %x", v, in.D.Class, in.D.Field, in.D.Value, in.D.ValClass, in.Cutoff, in.Seg, in.Idx)
		}
		if c34ScannerReached(in.Seg, in.Cutoff) {
			st.Class("scanner-reached")
			if st.NonTrivial(in.D.Class, in.D.Field, in.D.ValClass, in.IdxClass, len(in.Seg)/16, o1.N, o1.Err != nil, o2.Err != nil) {
				st.Sample(map[string]any{"class": in.D.Class, "field": in.D.Field, "value": in.D.Value, "value_class": in.D.ValClass, "index": in.IdxClass,
					"cutoff_minus_first": in.Cutoff - c34FirstTs, "kept_batches": o1.N, "scan_error": fmt.Sprint(o1.Err), "plan_error": fmt.Sprint(o2.Err), "len": len(in.Seg)})
			}
		}
	})
}

func c34RestoreFuzzOne(data []byte) string {
	// first 8 bytes choose the cutoff relative to the timestamps used by the seeds
	if len(data) < 9 {
		return ""
	}
	cut := c34FirstTs + int64(binary.BigEndian.Uint16(data[:2])) - 100
	split := int(data[2])
	rest := data[3:]
	if split > len(rest) {
		split = len(rest)
	}
	in := c34RestoreIn{Idx: rest[:split], Seg: rest[split:], Cutoff: cut}
	v, _, _ := c34RestoreVerdicts(in)
	return v
}

func FuzzVF_C34_Restore(f *testing.F) {
	mk := func(cutDelta uint16, seg, idx []byte) []byte {
		out := []byte{byte(cutDelta >> 8), byte(cutDelta), byte(len(idx))}
		out = append(out, idx...)
		return append(out, seg...)
	}
	seg, idx, _ := c34BrokerSegment([][]byte{vfkit.SimpleBatch(0, c34FirstTs, 3, "seed"), vfkit.SimpleBatch(0, c34FirstTs+10, 2, "b")})
	f.Add(mk(101, seg, idx))
	f.Add(mk(0, seg, idx))
	f.Add(mk(5000, seg, idx))
	hb := vfkit.NewBatch(0, c34FirstTs, []vfkit.Record{{TsDelta: 0, Value: []byte("a")}, {TsDelta: 50, Key: []byte("k"), Headers: []vfkit.RecHeader{{Key: "h"}}}})
	s2, i2, _ := c34BrokerSegment([][]byte{hb.Encode()})
	f.Add(mk(120, s2, i2))
	for _, v := range c34BatchLenEdges {
		f.Add(mk(120, c34WithBatchLen(s2, uint32(v)), i2))
	}
	f.Fuzz(func(t *testing.T, data []byte) {
		if len(data) > 1<<16 {
			return
		}
		if v := c34RestoreFuzzOne(data); v != "" {
			t.Fatalf("%s (input %d bytes)", v, len(data))
		}
	})
}

func TestVF_C34_ReplayFuzz(t *testing.T) {
	path := os.Getenv("VF_REPLAY_FILE")
	if path == "" {
		t.Skip("VF_REPLAY_FILE not set")
	}
	args, err := c34ReadCorpus(path)
	if err != nil || len(args) == 0 {
		fmt.Println("VF-INCONCLUSIVE: cannot read corpus file:", err)
		t.Fatalf("cannot read corpus file %s: %v", path, err)
	}
	if v := c34RestoreFuzzOne(args[0]); v != "" {
		t.Fatalf("%s\ninput: %x", v, args[0])
	}
}
