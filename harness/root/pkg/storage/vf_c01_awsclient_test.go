//go:build verif

package storage

import (
	"context"
	"errors"
	"fmt"
	"io"
	"testing"

	"github.com/aws/aws-sdk-go-v2/service/s3"
	"github.com/aws/smithy-go"
	"pgregory.net/rapid"
	"verif.local/vfkit"
)

// C01 below the S3Client interface: the other legs inject upload faults at the S3Client
// boundary; a PartitionLog that is told "uploaded" believes it. This leg drives the real
// AWS-compatible client (the one the broker runs with) against a scripted S3 API: every
// API call (PutObject, HeadBucket, CreateBucket) answers per a generated plan - ok, bucket
// missing, access denied, 5xx, bucket already owned - and a PutObject reads the request
// body the way an HTTP send does, sometimes only in part before it fails.
// Oracle: when UploadSegment/UploadIndex return nil the object stored under the key is
// byte for byte the body that was passed; when they return an error nothing is assumed.

type c01awsOutcome int

const (
	c01awsOK c01awsOutcome = iota
	c01awsNoBucket
	c01awsDenied
	c01aws5xx
	c01awsOwned
)

type c01awsErr struct{ code string }

func (e *c01awsErr) Error() string                 { return "scripted: " + e.code }
func (e *c01awsErr) ErrorCode() string             { return e.code }
func (e *c01awsErr) ErrorMessage() string          { return e.code }
func (e *c01awsErr) ErrorFault() smithy.ErrorFault { return smithy.FaultUnknown }

func c01awsError(o c01awsOutcome) error {
	switch o {
	case c01awsNoBucket:
		return &c01awsErr{"NoSuchBucket"}
	case c01awsDenied:
		return &c01awsErr{"AccessDenied"}
	case c01aws5xx:
		return &c01awsErr{"InternalError"}
	case c01awsOwned:
		return &c01awsErr{"BucketAlreadyOwnedByYou"}
	}
	return nil
}

type c01awsAPI struct {
	puts, heads, creates []c01awsOutcome
	readBefore           []int // bytes of the body a failing PutObject consumes first (-1: all)
	np, nh, nc           int
	objs                 map[string][]byte
	trace                []string
}

func (a *c01awsAPI) next(plan []c01awsOutcome, i *int) c01awsOutcome {
	o := c01awsOK
	if *i < len(plan) {
		o = plan[*i]
	}
	*i++
	return o
}

func (a *c01awsAPI) PutObject(ctx context.Context, in *s3.PutObjectInput, _ ...func(*s3.Options)) (*s3.PutObjectOutput, error) {
	idx := a.np
	o := a.next(a.puts, &a.np)
	if o == c01awsOK {
		body, err := io.ReadAll(in.Body) // a send transmits what the reader still holds
		if err != nil {
			return nil, err
		}
		a.objs[*in.Key] = body
		a.trace = append(a.trace, fmt.Sprintf("put#%d ok (%d bytes sent)", idx, len(body)))
		return &s3.PutObjectOutput{}, nil
	}
	n := -1
	if idx < len(a.readBefore) {
		n = a.readBefore[idx]
	}
	if n < 0 {
		_, _ = io.ReadAll(in.Body)
	} else {
		_, _ = io.CopyN(io.Discard, in.Body, int64(n))
	}
	a.trace = append(a.trace, fmt.Sprintf("put#%d %v", idx, c01awsError(o)))
	return nil, c01awsError(o)
}

func (a *c01awsAPI) HeadBucket(ctx context.Context, in *s3.HeadBucketInput, _ ...func(*s3.Options)) (*s3.HeadBucketOutput, error) {
	o := a.next(a.heads, &a.nh)
	a.trace = append(a.trace, fmt.Sprintf("head %v", c01awsError(o)))
	if o == c01awsOK || o == c01awsOwned {
		return &s3.HeadBucketOutput{}, nil
	}
	return nil, c01awsError(o)
}

func (a *c01awsAPI) CreateBucket(ctx context.Context, in *s3.CreateBucketInput, _ ...func(*s3.Options)) (*s3.CreateBucketOutput, error) {
	o := a.next(a.creates, &a.nc)
	a.trace = append(a.trace, fmt.Sprintf("create %v", c01awsError(o)))
	if o == c01awsOK {
		return &s3.CreateBucketOutput{}, nil
	}
	return nil, c01awsError(o)
}

func (a *c01awsAPI) GetObject(context.Context, *s3.GetObjectInput, ...func(*s3.Options)) (*s3.GetObjectOutput, error) {
	return nil, errors.New("not scripted")
}
func (a *c01awsAPI) DeleteObject(context.Context, *s3.DeleteObjectInput, ...func(*s3.Options)) (*s3.DeleteObjectOutput, error) {
	return &s3.DeleteObjectOutput{}, nil
}
func (a *c01awsAPI) ListObjectsV2(context.Context, *s3.ListObjectsV2Input, ...func(*s3.Options)) (*s3.ListObjectsV2Output, error) {
	return &s3.ListObjectsV2Output{}, nil
}

func TestVF_C01_AWSClient(t *testing.T) {
	st := vfkit.NewStats("C01", "awsclient")
	defer st.Flush()
	knownBody := vfkit.Known("C01-bucket-retry-sends-consumed-body")
	rapid.Check(t, func(t *rapid.T) {
		st.Eval()
		out := rapid.SampledFrom([]c01awsOutcome{c01awsOK, c01awsOK, c01awsNoBucket, c01awsNoBucket, c01awsDenied, c01aws5xx})
		api := &c01awsAPI{objs: map[string][]byte{},
			puts:       rapid.SliceOfN(out, 0, 6).Draw(t, "puts"),
			heads:      rapid.SliceOfN(rapid.SampledFrom([]c01awsOutcome{c01awsOK, c01awsNoBucket, c01awsDenied, c01aws5xx}), 0, 4).Draw(t, "heads"),
			creates:    rapid.SliceOfN(rapid.SampledFrom([]c01awsOutcome{c01awsOK, c01awsOwned, c01awsDenied, c01aws5xx}), 0, 4).Draw(t, "creates"),
			readBefore: rapid.SliceOfN(rapid.SampledFrom([]int{-1, -1, 0, 7}), 0, 6).Draw(t, "readbefore"),
		}
		client := newAWSClientWithAPI("bucket", rapid.SampledFrom([]string{"", "us-east-1", "eu-west-1"}).Draw(t, "region"), rapid.SampledFrom([]string{"", "kms-key"}).Draw(t, "kms"), api)
		nup := rapid.IntRange(1, 3).Draw(t, "uploads")
		nontrivial := false
		for i := 0; i < nup; i++ {
			key := fmt.Sprintf("default/orders/0/segment-%020d.%s", i, rapid.SampledFrom([]string{"kfs", "index"}).Draw(t, "ext"))
			body := rapid.SliceOfN(rapid.Byte(), 1, 64).Draw(t, "body")
			before := api.np
			retriedAfterMissing := before < len(api.puts) && api.puts[before] == c01awsNoBucket
			if knownBody && retriedAfterMissing {
				st.ExcludedCase("C01-bucket-retry-sends-consumed-body")
				api.puts[before] = c01aws5xx
				retriedAfterMissing = false
			}
			var err error
			if key[len(key)-3:] == "kfs" {
				err = client.UploadSegment(context.Background(), key, body)
			} else {
				err = client.UploadIndex(context.Background(), key, body)
			}
			if err != nil {
				st.Class("upload-error")
				continue
			}
			st.Class("upload-ok")
			if api.np-before > 1 {
				st.Class("upload-ok-after-retry")
				nontrivial = true
			}
			got, ok := api.objs[key]
			if !ok {
				t.Fatalf("C01 violated: upload of %s returned nil but no object is stored; api calls %v", key, api.trace)
			}
			if string(got) != string(body) {
				t.Fatalf("C01 violated: upload of %s returned nil but the stored object has %d bytes, the segment has %d (first differing content); api calls %v", key, len(got), len(body), api.trace)
			}
		}
		if nontrivial {
			if st.NonTrivial(api.trace) {
				st.Sample(api.trace)
			}
		}
	})
}
