//go:build verif

package protocol

// C10: for any bytes a client sends, frame reading and request header/body parsing return
// a request or an error, never a crash (legs hostile, mutated, frames, fuzz). The round
// trip half of the property lives in cmd/broker/vf_c10_roundtrip_test.go (it needs the
// broker's advertised version table).

import (
	"bytes"
	"encoding/binary"
	"errors"
	"fmt"
	"io"
	"math"
	"os"
	"runtime/metrics"
	"strconv"
	"strings"
	"testing"

	"github.com/KafScale/platform/internal/vfc10gen"
	"github.com/twmb/franz-go/pkg/kmsg"
	"pgregory.net/rapid"
	"verif.local/vfkit"
)

const c10FindingTagSize = "C10-header-tag-size-overflow"

// ---------------------------------------------------------------- allocation meter

var c10AllocSample = []metrics.Sample{{Name: "/gc/heap/allocs:bytes"}}

func c10Allocated() uint64 {
	metrics.Read(c10AllocSample)
	if c10AllocSample[0].Value.Kind() != metrics.KindUint64 {
		return 0
	}
	return c10AllocSample[0].Value.Uint64()
}

// c10AllocBound is deliberately loose: decoding may amplify (one input byte can announce
// one array element of a few hundred bytes) but must stay linear in the input; a length
// field must never be trusted for a multi-megabyte allocation.
func c10AllocBound(n int) uint64 { return uint64(n)*1024 + 8<<20 }

// ---------------------------------------------------------------- the listed finding's domain

// c10ScanHeader mirrors, independently of byteReader, how far ParseRequestHeader gets.
// overflow: it reaches a header tagged field whose size varint is >= 2^63 (which int(size)
// turns negative) - exactly the predicate of the listed finding. ok: the header is
// accepted and the body starts at bodyStart.
func c10ScanHeader(b []byte) (overflow bool, bodyStart int, flexible bool, ok bool) {
	if len(b) < 10 {
		return false, 0, false, false
	}
	key := int16(binary.BigEndian.Uint16(b[0:2]))
	ver := int16(binary.BigEndian.Uint16(b[2:4]))
	l := int16(binary.BigEndian.Uint16(b[8:10]))
	pos := 10
	if l < -1 {
		return false, 0, false, false
	}
	if l > 0 {
		if len(b)-pos < int(l) {
			return false, 0, false, false
		}
		pos += int(l)
	}
	req := kmsg.RequestForKey(key)
	if req == nil {
		return false, pos, false, true
	}
	req.SetVersion(ver)
	if !req.IsFlexible() {
		return false, pos, false, true
	}
	uv := func() (uint64, bool) {
		v, n := binary.Uvarint(b[pos:])
		if n <= 0 {
			return 0, false
		}
		pos += n
		return v, true
	}
	count, good := uv()
	if !good {
		return false, 0, true, false
	}
	for i := uint64(0); i < count; i++ {
		if _, good := uv(); !good {
			return false, 0, true, false
		}
		size, good := uv()
		if !good {
			return false, 0, true, false
		}
		if size == 0 {
			continue
		}
		if size >= 1<<63 {
			return true, 0, true, false
		}
		if uint64(len(b)-pos) < size {
			return false, 0, true, false
		}
		pos += int(size)
	}
	return false, pos, true, true
}

func c10TagOverflowDomain(b []byte) bool {
	overflow, _, _, _ := c10ScanHeader(b)
	return overflow
}

// c10Defuse bounds the COST of a case, not its outcome class: kmsg reads the tagged-field
// count of every flexible struct as a uvarint (up to 2^32-1) and loops that many times even
// after the input is exhausted (about 11 ns per iteration, i.e. up to ~47 s of CPU for an
// 18-byte request; recorded in notes/C10.md, not asserted because the statement is about
// crashes). So that a leg cannot stall, the BODY of a flexible request never contains a
// varint longer than 3 bytes: in every run of bytes with the high bit set the third one
// gets its high bit cleared. Header bytes (parsed by the repo's own code) are untouched.
func c10Defuse(b []byte) ([]byte, bool) {
	_, start, flexible, ok := c10ScanHeader(b)
	if !ok || !flexible {
		return b, false
	}
	out := b
	changed := false
	run := 0
	for i := start; i < len(b); i++ {
		if b[i]&0x80 == 0 {
			run = 0
			continue
		}
		run++
		if run == 3 {
			if !changed {
				out = append([]byte(nil), b...)
				changed = true
			}
			out[i] &= 0x7f
			run = 0
		}
	}
	return out, changed
}

// ---------------------------------------------------------------- running the parser

type c10Result struct {
	panicked  any
	hdr       *RequestHeader
	hdrBody   []byte
	hdrErr    error
	req       kmsg.Request
	reqHdr    *RequestHeader
	reqErr    error
	allocated uint64
}

func c10Parse(b []byte) (res c10Result) {
	defer func() {
		if r := recover(); r != nil {
			res.panicked = r
		}
	}()
	a0 := c10Allocated()
	res.hdr, res.hdrBody, res.hdrErr = ParseRequestHeader(b)
	res.reqHdr, res.req, res.reqErr = ParseRequest(b)
	res.allocated = c10Allocated() - a0
	return res
}

// c10JudgeParse: the "never a crash" half. Returns "" if fine.
func c10JudgeParse(b []byte, res c10Result) string {
	if res.panicked != nil {
		return fmt.Sprintf("ParseRequest panicked: %v", res.panicked)
	}
	if res.allocated > c10AllocBound(len(b)) {
		return fmt.Sprintf("parsing %d input bytes allocated %d bytes (bound %d): a length field is trusted for allocation", len(b), res.allocated, c10AllocBound(len(b)))
	}
	if res.hdrErr == nil && res.hdr == nil {
		return "ParseRequestHeader returned neither a header nor an error"
	}
	if res.reqErr == nil && (res.req == nil || res.reqHdr == nil) {
		return "ParseRequest returned neither a request nor an error"
	}
	if res.hdrErr != nil && res.reqErr == nil {
		return fmt.Sprintf("ParseRequest accepted bytes whose header ParseRequestHeader rejects (%v)", res.hdrErr)
	}
	if res.hdrErr == nil {
		// what was parsed must be what the first bytes say
		if len(b) < 8 {
			return fmt.Sprintf("header accepted from %d bytes", len(b))
		}
		if res.hdr.APIKey != int16(binary.BigEndian.Uint16(b[0:2])) || res.hdr.APIVersion != int16(binary.BigEndian.Uint16(b[2:4])) ||
			res.hdr.CorrelationID != int32(binary.BigEndian.Uint32(b[4:8])) {
			return fmt.Sprintf("header fields %+v do not match the first 8 bytes %x", *res.hdr, b[:8])
		}
		if len(res.hdrBody) > len(b) || !bytes.Equal(res.hdrBody, b[len(b)-len(res.hdrBody):]) {
			return "body returned by ParseRequestHeader is not a suffix of the payload"
		}
	}
	// a header that is well formed per the protocol (independent scan) of a request the broker
	// serves must be accepted, and the body must start where the scan says
	if _, bodyStart, _, ok := c10ScanHeader(b); ok {
		key, ver := int16(binary.BigEndian.Uint16(b[0:2])), int16(binary.BigEndian.Uint16(b[2:4]))
		if _, served := vfc10gen.FlexibleFrom[key]; served && ver >= 0 {
			if res.hdrErr != nil {
				return fmt.Sprintf("well-formed header of key %d v%d rejected: %v", key, ver, res.hdrErr)
			}
			if len(res.hdrBody) != len(b)-bodyStart {
				return fmt.Sprintf("key %d v%d: body starts at %d per the protocol but ParseRequestHeader returned the last %d of %d bytes", key, ver, bodyStart, len(res.hdrBody), len(b))
			}
		}
	}
	if res.reqErr == nil {
		if res.req.Key() != res.reqHdr.APIKey || res.req.GetVersion() != res.reqHdr.APIVersion {
			return fmt.Sprintf("parsed request is key %d v%d but header says key %d v%d", res.req.Key(), res.req.GetVersion(), res.reqHdr.APIKey, res.reqHdr.APIVersion)
		}
	}
	return ""
}

// ---------------------------------------------------------------- hostile structured frames

var c10Sizes = []uint64{0, 1, 2, 5, 127, 128, 300, math.MaxInt32 - 1, math.MaxInt32, 1 << 31, 1<<31 + 1, 1 << 32, 1<<62 + 3, 1<<63 - 1, 1 << 63, 1<<63 + 1, math.MaxUint64 - 1, math.MaxUint64}

func c10GenKeyVersion(t *rapid.T) (int16, int16) {
	var key int16
	if rapid.IntRange(0, 9).Draw(t, "key?") == 0 {
		key = rapid.SampledFrom([]int16{-1, kmsg.MaxKey + 1, 1000, math.MaxInt16, math.MinInt16}).Draw(t, "key")
	} else if rapid.Bool().Draw(t, "served-key") {
		keys := make([]int16, 0, len(vfc10gen.FlexibleFrom))
		for k := int16(0); k <= kmsg.MaxKey; k++ {
			if _, ok := vfc10gen.FlexibleFrom[k]; ok {
				keys = append(keys, k)
			}
		}
		key = rapid.SampledFrom(keys).Draw(t, "key")
	} else {
		key = int16(rapid.IntRange(0, int(kmsg.MaxKey)).Draw(t, "key"))
	}
	maxV := int16(0)
	if r := kmsg.RequestForKey(key); r != nil {
		maxV = r.MaxVersion()
	}
	firstFlex := maxV + 1
	if r := kmsg.RequestForKey(key); r != nil {
		for v := int16(0); v <= maxV; v++ {
			r.SetVersion(v)
			if r.IsFlexible() {
				firstFlex = v
				break
			}
		}
	}
	var ver int16
	switch k := rapid.IntRange(0, 9).Draw(t, "ver?"); {
	case k == 0:
		ver = rapid.SampledFrom([]int16{-1, math.MinInt16, math.MaxInt16, maxV + 1, maxV + 5}).Draw(t, "ver")
	case k <= 5 && firstFlex <= maxV:
		ver = int16(rapid.IntRange(int(firstFlex), int(maxV)).Draw(t, "ver"))
	default:
		ver = int16(rapid.IntRange(0, int(maxV)).Draw(t, "ver"))
	}
	return key, ver
}

type c10Hostile struct {
	Key, Version int16
	Flexible     bool
	Sizes        []uint64
	Count        uint64
	BodyKind     string
	Cut          int
	ClientLen    int
}

func c10GenHostile(t *rapid.T, st *vfkit.Stats, known bool) ([]byte, c10Hostile) {
	key, ver := c10GenKeyVersion(t)
	h := c10Hostile{Key: key, Version: ver, Cut: -1}
	req := kmsg.RequestForKey(key)
	if req != nil {
		req.SetVersion(ver)
		h.Flexible = req.IsFlexible()
	}
	var b []byte
	b = binary.BigEndian.AppendUint16(b, uint16(key))
	b = binary.BigEndian.AppendUint16(b, uint16(ver))
	b = binary.BigEndian.AppendUint32(b, uint32(rapid.Int32().Draw(t, "corr")))
	// client id
	switch rapid.IntRange(0, 7).Draw(t, "client?") {
	case 0:
		b = binary.BigEndian.AppendUint16(b, 0xffff)
		h.ClientLen = -1
	case 1:
		l := rapid.SampledFrom([]int16{-2, -32768, 32767, 1000, 255}).Draw(t, "client-len")
		b = binary.BigEndian.AppendUint16(b, uint16(l))
		n := rapid.IntRange(0, 12).Draw(t, "client-have")
		b = append(b, bytes.Repeat([]byte{'c'}, n)...)
		h.ClientLen = int(l)
	default:
		id := rapid.StringN(0, 10, 30).Draw(t, "client")
		b = binary.BigEndian.AppendUint16(b, uint16(len(id)))
		b = append(b, id...)
		h.ClientLen = len(id)
	}
	// tagged fields (written for flexible versions, and sometimes where they do not belong)
	writeTags := h.Flexible
	if rapid.IntRange(0, 9).Draw(t, "tags-anyway") == 0 {
		writeTags = !writeTags
	}
	if writeTags {
		ntags := rapid.IntRange(0, 3).Draw(t, "ntags")
		h.Count = uint64(ntags)
		switch rapid.IntRange(0, 7).Draw(t, "count?") {
		case 0:
			h.Count = rapid.SampledFrom([]uint64{uint64(ntags) + 1, 127, 128, 1 << 31, 1 << 63, math.MaxUint64}).Draw(t, "count")
		}
		b = binary.AppendUvarint(b, h.Count)
		for i := 0; i < ntags; i++ {
			b = binary.AppendUvarint(b, rapid.SampledFrom([]uint64{0, 1, uint64(i), 1 << 31, math.MaxUint64}).Draw(t, "tag"))
			var size uint64
			have := rapid.IntRange(0, 40).Draw(t, "have")
			switch rapid.IntRange(0, 3).Draw(t, "size?") {
			case 0:
				size = uint64(have) // honest
			case 1:
				size = uint64(have) + 1
			default:
				size = rapid.SampledFrom(c10Sizes).Draw(t, "size")
			}
			if known && size >= 1<<63 {
				st.ExcludedCase(c10FindingTagSize)
				size = 1<<63 - 1
			}
			h.Sizes = append(h.Sizes, size)
			if rapid.IntRange(0, 15).Draw(t, "overlong-varint") == 0 {
				// non-canonical / overflowing varint: 10 continuation bytes
				b = append(b, bytes.Repeat([]byte{0xff}, 10)...)
				b = append(b, 0x01)
			} else {
				b = binary.AppendUvarint(b, size)
			}
			b = append(b, bytes.Repeat([]byte{byte(0xa0 + i)}, have)...)
		}
	}
	// body
	switch rapid.IntRange(0, 3).Draw(t, "body?") {
	case 0:
		h.BodyKind = "empty"
	case 1:
		h.BodyKind = "random"
		n := rapid.IntRange(1, 120).Draw(t, "body-n")
		b = append(b, rapid.SliceOfN(rapid.Byte(), n, n).Draw(t, "body")...)
	default:
		h.BodyKind = "valid"
		if req != nil {
			vfc10gen.Fill(t, req, &vfc10gen.Env{Topics: []string{"orders", "t"}, Groups: []string{"g"}, Members: []string{"m"}})
			b = req.AppendTo(b)
		}
	}
	if rapid.IntRange(0, 2).Draw(t, "cut?") == 0 {
		h.Cut = rapid.IntRange(0, len(b)).Draw(t, "cut")
		b = b[:h.Cut]
	}
	return b, h
}

func TestVF_C10_Hostile(t *testing.T) {
	st := vfkit.NewStats("C10", "hostile")
	defer st.Flush()
	known := vfkit.Known(c10FindingTagSize)
	rapid.Check(t, func(t *rapid.T) {
		st.Eval()
		b, h := c10GenHostile(t, st, known)
		b, defused := c10Defuse(b)
		if defused {
			st.Class("cost-bounded(varint<=3B in flexible body)")
		}
		if known && c10TagOverflowDomain(b) {
			st.ExcludedCase(c10FindingTagSize)
			return
		}
		res := c10Parse(b)
		if msg := c10JudgeParse(b, res); msg != "" {
			t.Fatalf("%s\ncase=%+v\npayload(%d)=%x", msg, h, len(b), c10Clip(b))
		}
		if h.Flexible {
			st.Class("flexible")
		} else {
			st.Class("non-flexible")
		}
		st.Class("body:" + h.BodyKind)
		if res.hdrErr != nil {
			st.Class("header-rejected")
		} else if res.reqErr != nil {
			st.Class("body-rejected")
		} else {
			st.Class("accepted")
		}
		big := false
		for _, s := range h.Sizes {
			if s >= 1<<31 {
				big = true
				st.Class("tag-size>=2^31")
			} else if s > 40 {
				big = true
				st.Class("tag-size>remaining")
			}
		}
		if h.Cut >= 0 {
			st.Class("truncated")
		}
		if big && h.Flexible {
			if st.NonTrivial(h.Key, h.Version, h.Sizes, h.Count, h.Cut, h.BodyKind, h.ClientLen) {
				st.Sample(map[string]any{"case": fmt.Sprintf("%+v", h), "payload_hex": fmt.Sprintf("%x", c10Clip(b))})
			}
		}
	})
}

func c10Clip(b []byte) []byte {
	if len(b) > 200 {
		return b[:200]
	}
	return b
}

// ---------------------------------------------------------------- mutated valid requests and random bytes

func c10GenValidPayload(t *rapid.T) ([]byte, int16, int16) {
	key, ver := c10GenKeyVersion(t)
	req := kmsg.RequestForKey(key)
	if req == nil {
		key, ver = 3, 9
		req = kmsg.RequestForKey(key)
	}
	req.SetVersion(ver)
	vfc10gen.Fill(t, req, &vfc10gen.Env{Topics: []string{"orders"}, Groups: []string{"g"}, Members: []string{"m"}})
	cid := rapid.StringN(0, 8, 20).Draw(t, "client")
	frame := kmsg.NewRequestFormatter(kmsg.FormatterClientID(cid)).AppendRequest(nil, req, rapid.Int32().Draw(t, "corr"))
	return frame[4:], key, ver
}

func TestVF_C10_Mutated(t *testing.T) {
	st := vfkit.NewStats("C10", "mutated")
	defer st.Flush()
	known := vfkit.Known(c10FindingTagSize)
	rapid.Check(t, func(t *rapid.T) {
		st.Eval()
		var b []byte
		class := ""
		var key, ver int16
		if rapid.IntRange(0, 4).Draw(t, "random?") == 0 {
			n := rapid.IntRange(0, 200).Draw(t, "n")
			b = rapid.SliceOfN(rapid.Byte(), n, n).Draw(t, "bytes")
			class = "random"
		} else {
			b, key, ver = c10GenValidPayload(t)
			b = append([]byte(nil), b...)
			nm := rapid.IntRange(1, 4).Draw(t, "mutations")
			for i := 0; i < nm && len(b) > 0; i++ {
				lo := 0
				if _, bs, _, ok := c10ScanHeader(b); ok && bs < len(b) && rapid.IntRange(0, 3).Draw(t, "in-body") != 0 {
					lo = bs
				}
				pos := rapid.IntRange(lo, len(b)-1).Draw(t, "pos")
				switch rapid.IntRange(0, 5).Draw(t, "mut") {
				case 0:
					b[pos] ^= byte(rapid.IntRange(1, 255).Draw(t, "xor"))
					class += "flip,"
				case 1:
					b[pos] = rapid.SampledFrom([]byte{0, 0x7f, 0x80, 0xff}).Draw(t, "set")
					class += "set,"
				case 2:
					b = b[:pos]
					class += "cut,"
				case 3:
					ins := rapid.SampledFrom([][]byte{{0xff, 0xff, 0xff, 0xff}, {0x7f, 0xff, 0xff, 0xff}, {0x80, 0, 0, 0}, {0xff, 0xff, 0xff, 0xff, 0x0f}, {0xff, 0xff, 0xff, 0xff, 0xff, 0xff, 0xff, 0xff, 0xff, 0x01}}).Draw(t, "ins")
					b = append(b[:pos:pos], append(append([]byte(nil), ins...), b[pos:]...)...)
					class += "insert-len,"
				case 4:
					if pos+4 <= len(b) {
						binary.BigEndian.PutUint32(b[pos:], rapid.SampledFrom([]uint32{0x7fffffff, 0xffffffff, 0x80000000, 0x00ffffff, 0x0000ffff}).Draw(t, "len32"))
					}
					class += "len32,"
				default:
					b = append(b, rapid.SliceOfN(rapid.Byte(), 1, 16).Draw(t, "tail")...)
					class += "append,"
				}
			}
		}
		b, defused := c10Defuse(b)
		if defused {
			st.Class("cost-bounded(varint<=3B in flexible body)")
		}
		if known && c10TagOverflowDomain(b) {
			st.ExcludedCase(c10FindingTagSize)
			return
		}
		res := c10Parse(b)
		if msg := c10JudgeParse(b, res); msg != "" {
			t.Fatalf("%s\nclass=%s key=%d v=%d\npayload(%d)=%x", msg, class, key, ver, len(b), c10Clip(b))
		}
		switch {
		case res.hdrErr != nil:
			st.Class("header-rejected")
		case res.reqErr != nil:
			st.Class("body-rejected")
		default:
			st.Class("accepted")
		}
		if class == "random" {
			st.Class("random")
		} else {
			st.Class("mutated")
			if st.NonTrivial(key, ver, class, len(b), res.reqErr != nil) {
				st.Sample(map[string]any{"key": key, "version": ver, "mutations": class, "payload_hex": fmt.Sprintf("%x", c10Clip(b)), "rejected": res.reqErr != nil})
			}
		}
	})
}

// ---------------------------------------------------------------- frames

type c10ChunkReader struct {
	data   []byte
	pos    int
	chunk  int
	failAt int // -1: never; else return an error once pos reaches failAt
}

var c10ErrInjected = errors.New("injected read error")

func (r *c10ChunkReader) Read(p []byte) (int, error) {
	if r.failAt >= 0 && r.pos >= r.failAt {
		return 0, c10ErrInjected
	}
	if r.pos >= len(r.data) {
		return 0, io.EOF
	}
	n := len(r.data) - r.pos
	if r.chunk > 0 && n > r.chunk {
		n = r.chunk
	}
	if n > len(p) {
		n = len(p)
	}
	if r.failAt >= 0 && r.pos+n > r.failAt {
		n = r.failAt - r.pos
	}
	copy(p, r.data[r.pos:r.pos+n])
	r.pos += n
	return n, nil
}

func TestVF_C10_Frames(t *testing.T) {
	st := vfkit.NewStats("C10", "frames")
	defer st.Flush()
	rapid.Check(t, func(t *rapid.T) {
		st.Eval()
		nframes := rapid.IntRange(0, 4).Draw(t, "frames")
		var payloads [][]byte
		var wire bytes.Buffer
		for i := 0; i < nframes; i++ {
			var p []byte
			if rapid.IntRange(0, 39).Draw(t, "big?") == 17 {
				// large frames are legal and routine (Produce with > 1 MiB of batches): sizes around
				// and beyond 1 MiB, 2 MiB, ... with content that differs from MiB to MiB
				n := rapid.SampledFrom([]int{1<<20 - 1, 1 << 20, 1<<20 + 1, 1<<20 + 4096, 2 << 20, 2<<20 + 7, 3<<20 + 123}).Draw(t, "big-len")
				seed := rapid.Byte().Draw(t, "big-seed")
				p = make([]byte, n)
				for j := range p {
					p[j] = seed + byte(j*31) + byte(j>>8)*7 + byte(j>>16)*13 + byte(j>>20)*101
				}
				st.Class("frame>=1MiB")
			} else {
				n := rapid.OneOf(rapid.IntRange(0, 40), rapid.IntRange(0, 5000)).Draw(t, "len")
				p = rapid.SliceOfN(rapid.Byte(), n, n).Draw(t, "payload")
			}
			n := len(p)
			payloads = append(payloads, p)
			if err := WriteFrame(&wire, p); err != nil {
				t.Fatalf("WriteFrame(%d bytes): %v", n, err)
			}
		}
		// what follows the well-formed frames
		tailKind := rapid.SampledFrom([]string{"eof", "partial-length", "negative-length", "length-beyond-data", "read-error"}).Draw(t, "tail")
		stream := append([]byte(nil), wire.Bytes()...)
		failAt := -1
		switch tailKind {
		case "partial-length":
			stream = append(stream, rapid.SliceOfN(rapid.Byte(), 1, 3).Draw(t, "partial")...)
		case "negative-length":
			l := rapid.SampledFrom([]int32{-1, math.MinInt32, -2, -65536}).Draw(t, "neg")
			stream = binary.BigEndian.AppendUint32(stream, uint32(l))
			stream = append(stream, rapid.SliceOfN(rapid.Byte(), 0, 8).Draw(t, "after")...)
		case "length-beyond-data":
			have := rapid.IntRange(0, 64).Draw(t, "have")
			// bounded: ReadFrame allocates the announced length before reading (recorded in
			// notes, not asserted); keep the harness itself cheap
			l := have + rapid.SampledFrom([]int{1, 2, 1000, 1 << 16, 1 << 20}).Draw(t, "excess")
			stream = binary.BigEndian.AppendUint32(stream, uint32(l))
			stream = append(stream, bytes.Repeat([]byte{0xee}, have)...)
		case "read-error":
			if len(stream) > 0 {
				failAt = rapid.IntRange(0, len(stream)-1).Draw(t, "fail-at")
			} else {
				failAt = 0
			}
		}
		chunk := rapid.SampledFrom([]int{0, 1, 3, 4, 5, 7, 1000}).Draw(t, "chunk")
		if len(stream) > 1<<19 && chunk > 0 && chunk < 1000 {
			chunk = chunk*8192 + 1 // MiB-sized frames: keep the number of Read calls sane
		}
		rd := &c10ChunkReader{data: stream, chunk: chunk, failAt: failAt}
		st.Class("tail:" + tailKind)

		// frames that are completely in front of the failure point must come back exactly
		got := 0
		var lastErr error
		func() {
			defer func() {
				if r := recover(); r != nil {
					t.Fatalf("ReadFrame panicked: %v (stream %x)", r, c10Clip(stream))
				}
			}()
			for k := 0; k < nframes+2; k++ {
				f, err := ReadFrame(rd)
				if err != nil {
					lastErr = err
					if f != nil {
						t.Fatalf("ReadFrame returned both a frame and an error %v", err)
					}
					return
				}
				if f == nil {
					t.Fatalf("ReadFrame returned neither frame nor error")
				}
				if got >= nframes {
					t.Fatalf("ReadFrame produced frame #%d (%d bytes) but only %d complete frames were sent (tail=%s)", got, len(f.Payload), nframes, tailKind)
				}
				if int(f.Length) != len(f.Payload) || !bytes.Equal(f.Payload, payloads[got]) {
					d := 0
					for d < len(f.Payload) && d < len(payloads[got]) && f.Payload[d] == payloads[got][d] {
						d++
					}
					t.Fatalf("frame #%d: got %d bytes (Length=%d) that differ from the %d bytes written (first difference at byte %d)", got, len(f.Payload), f.Length, len(payloads[got]), d)
				}
				got++
			}
		}()
		if lastErr == nil {
			t.Fatalf("ReadFrame never reported the end of the stream")
		}
		wantFrames := nframes
		if failAt >= 0 {
			// only frames that end at or before failAt are guaranteed
			wantFrames = 0
			end := 0
			for _, p := range payloads {
				end += 4 + len(p)
				if end <= failAt {
					wantFrames++
				}
			}
		}
		if got < wantFrames {
			t.Fatalf("only %d of %d complete frames were returned before %v (tail=%s)", got, wantFrames, lastErr, tailKind)
		}
		if tailKind == "eof" && got == nframes && !errors.Is(lastErr, io.EOF) {
			t.Fatalf("clean end of stream after %d frames reported as %v, want an error wrapping io.EOF (the server loop relies on it)", got, lastErr)
		}
		if nframes > 0 || tailKind != "eof" {
			lens := make([]int, len(payloads))
			for i, p := range payloads {
				lens[i] = len(p)
			}
			st.NonTrivial(lens, tailKind, rd.chunk, failAt)
			st.Sample(map[string]any{"frame_lens": lens, "tail": tailKind, "chunk": rd.chunk, "fail_at": failAt})
		}
	})
}

// ---------------------------------------------------------------- witness

func c10WitnessPayload() []byte {
	// ApiVersions v3 (flexible header), correlation 7, client id "x", one header tagged
	// field: tag 0 with size 2^63.
	var b []byte
	b = binary.BigEndian.AppendUint16(b, 18)
	b = binary.BigEndian.AppendUint16(b, 3)
	b = binary.BigEndian.AppendUint32(b, 7)
	b = binary.BigEndian.AppendUint16(b, 1)
	b = append(b, 'x')
	b = binary.AppendUvarint(b, 1)     // one tagged field
	b = binary.AppendUvarint(b, 0)     // tag
	b = binary.AppendUvarint(b, 1<<63) // size
	return b
}

func TestVF_C10_Witness(t *testing.T) {
	st := vfkit.NewStats("C10", "witness")
	defer st.Flush()
	st.Eval()
	b := c10WitnessPayload()
	if !c10TagOverflowDomain(b) {
		t.Fatalf("HARNESS BUG: the witness is outside the exclusion predicate")
	}
	res := c10Parse(b)
	msg := c10JudgeParse(b, res)
	what := fmt.Sprintf("ParseRequest(%x) (ApiVersions v3 header, one tagged field of size 2^63): ", b)
	if msg != "" {
		what += msg
	} else {
		what += fmt.Sprintf("rejected cleanly (%v)", res.reqErr)
	}
	st.KnownResult(c10FindingTagSize, msg != "", what)
	if msg != "" && !vfkit.Known(c10FindingTagSize) {
		t.Fatalf("regression of a repaired finding (%s is not listed as known): %s", c10FindingTagSize, what)
	}
	st.NonTrivial("witness", msg != "")
	st.Sample(map[string]any{"payload_hex": fmt.Sprintf("%x", b), "result": what})
	t.Log(what)
}

// ---------------------------------------------------------------- native fuzz

func c10FuzzOne(b []byte) string {
	b, _ = c10Defuse(b)
	if vfkit.Known(c10FindingTagSize) && c10TagOverflowDomain(b) {
		return ""
	}
	if msg := c10JudgeParse(b, c10Parse(b)); msg != "" {
		return msg
	}
	// the same bytes as a wire stream: the length prefix is whatever the first 4 bytes say
	return c10FuzzFrame(b)
}

func c10FuzzFrame(b []byte) (msg string) {
	if len(b) >= 4 {
		// ReadFrame allocates the announced size before reading (see notes, not asserted):
		// keep the fuzz worker itself alive
		if l := int32(binary.BigEndian.Uint32(b[:4])); l > 1<<22 {
			return ""
		}
	}
	defer func() {
		if r := recover(); r != nil {
			msg = fmt.Sprintf("ReadFrame panicked: %v", r)
		}
	}()
	f, err := ReadFrame(bytes.NewReader(b))
	if err == nil {
		l := int(int32(binary.BigEndian.Uint32(b[:4])))
		if f == nil || len(f.Payload) != l || !bytes.Equal(f.Payload, b[4:4+l]) {
			return "ReadFrame returned a frame that is not the announced slice of the stream"
		}
	}
	return ""
}

func c10Seeds() [][]byte {
	seeds := [][]byte{c10WitnessPayload()}
	for _, kv := range [][2]int16{{18, 3}, {18, 0}, {3, 12}, {3, 0}, {0, 9}, {0, 3}, {1, 13}, {1, 11}, {2, 4}, {8, 3}, {9, 5}, {10, 3}, {11, 4}, {14, 4}, {15, 5}, {16, 5}, {19, 2}, {20, 2}, {23, 3}, {32, 4}, {33, 1}, {37, 3}, {42, 2}} {
		req := kmsg.RequestForKey(kv[0])
		req.SetVersion(kv[1])
		seeds = append(seeds, kmsg.NewRequestFormatter(kmsg.FormatterClientID("seed")).AppendRequest(nil, req, 1)[4:])
	}
	for _, s := range c10Sizes {
		b := []byte{0, 18, 0, 3, 0, 0, 0, 1, 0xff, 0xff}
		b = binary.AppendUvarint(b, 1)
		b = binary.AppendUvarint(b, 0)
		b = binary.AppendUvarint(b, s)
		seeds = append(seeds, append(b, 1, 2, 3))
	}
	return seeds
}

func FuzzVF_C10_Parse(f *testing.F) {
	for _, s := range c10Seeds() {
		f.Add(s)
	}
	f.Fuzz(func(t *testing.T, b []byte) {
		if len(b) > 1<<16 {
			return
		}
		if msg := c10FuzzOne(b); msg != "" {
			t.Fatalf("%s\ninput=%x", msg, c10Clip(b))
		}
	})
}

func TestVF_C10_ReplayFuzz(t *testing.T) {
	inputs := c10Seeds()
	if p := os.Getenv("VF_REPLAY_FILE"); p != "" {
		raw, err := os.ReadFile(p)
		if err != nil {
			fmt.Println("VF-INCONCLUSIVE: cannot read corpus file:", err)
			t.Fatalf("read %s: %v", p, err)
		}
		lines := strings.Split(strings.TrimSpace(string(raw)), "\n")
		if len(lines) < 2 || !strings.HasPrefix(lines[1], "[]byte(") {
			fmt.Println("VF-INCONCLUSIVE: not a fuzz corpus file")
			t.Fatalf("not a corpus file: %s", p)
		}
		l := strings.TrimSpace(lines[1])
		s, err := strconv.Unquote(l[len("[]byte(") : len(l)-1])
		if err != nil {
			fmt.Println("VF-INCONCLUSIVE: cannot unquote corpus entry")
			t.Fatalf("unquote: %v", err)
		}
		inputs = [][]byte{[]byte(s)}
	}
	for _, in := range inputs {
		if msg := c10FuzzOne(in); msg != "" {
			t.Fatalf("%s\ninput=%x", msg, c10Clip(in))
		}
	}
}
