//go:build verif

package idoc

import (
	"fmt"
	"reflect"
	"strings"
	"testing"

	"pgregory.net/rapid"
	"verif.local/vfkit"
)

// C45: ExplodeXML on a well-formed document = reference post-order traversal of the tree
// the harness generated (and serialized with its own writer).
//
// Oracle (only what the statement says):
//   * Segments has exactly one entry per element, in closing (post-) order, carrying that
//     element's local name, its path of local names, and its trimmed direct text;
//   * each routed list == the sub-sequence of Segments whose name is configured (entries of
//     the config are compared after trimming blanks; an XML name has no blanks);
//   * a routed segment's Fields keys == names of its direct children with non-empty trimmed
//     direct text, each value being the text of such a child.
// Attributes are asserted only for un-prefixed attributes whose name is unique inside the
// element (the statement is silent on namespaced/colliding ones).

const (
	c45FindTwoRoutes = "C45-name-in-two-routes"
	c45FindAutoClose = "C45-html-autoclose-name"
	c45FindEncoding  = "C45-declared-non-utf8-encoding"
)

// names encoding/xml's HTMLAutoClose table treats as void elements (case-insensitively)
var c45Void = []string{"basefont", "br", "area", "link", "img", "param", "hr", "input", "col", "frame", "isindex", "base", "meta"}

func c45IsVoid(name string) bool {
	for _, v := range c45Void {
		if strings.EqualFold(v, name) {
			return true
		}
	}
	return false
}

const (
	c45Text = iota
	c45CDATA
	c45Comment
	c45PI
	c45Elem
)

type c45Item struct {
	Kind int
	Text string // decoded text (Text/CDATA) or comment / PI body
	Raw  string // serialized form
	El   *c45Node
}

type c45Node struct {
	Prefix    string
	Name      string
	Attrs     [][2]string // serialized name (may carry a prefix), decoded value
	AttrRaw   []string    // serialized ` name="value"` pieces
	Kids      []c45Item
	SelfClose bool
	OpenPad   string
	ClosePad  string
}

func (n *c45Node) qname() string {
	if n.Prefix != "" {
		return n.Prefix + ":" + n.Name
	}
	return n.Name
}

func (n *c45Node) write(sb *strings.Builder) {
	sb.WriteString("<" + n.qname())
	for _, a := range n.AttrRaw {
		sb.WriteString(a)
	}
	sb.WriteString(n.OpenPad)
	if n.SelfClose && len(n.Kids) == 0 {
		sb.WriteString("/>")
		return
	}
	sb.WriteString(">")
	for _, k := range n.Kids {
		if k.Kind == c45Elem {
			k.El.write(sb)
		} else {
			sb.WriteString(k.Raw)
		}
	}
	sb.WriteString("</" + n.qname() + n.ClosePad + ">")
}

func (n *c45Node) directText() string {
	var sb strings.Builder
	for _, k := range n.Kids {
		if k.Kind == c45Text || k.Kind == c45CDATA {
			sb.WriteString(k.Text)
		}
	}
	return strings.TrimSpace(sb.String())
}

func (n *c45Node) children() []*c45Node {
	var out []*c45Node
	for _, k := range n.Kids {
		if k.Kind == c45Elem {
			out = append(out, k.El)
		}
	}
	return out
}

type c45Exp struct {
	node  *c45Node
	path  string
	depth int
}

func c45PostOrder(n *c45Node, prefix string, depth int, out *[]c45Exp) {
	p := n.Name
	if prefix != "" {
		p = prefix + "/" + n.Name
	}
	for _, c := range n.children() {
		c45PostOrder(c, p, depth+1, out)
	}
	*out = append(*out, c45Exp{node: n, path: p, depth: depth})
}

func c45Set(vals []string) map[string]bool {
	s := map[string]bool{}
	for _, v := range vals {
		v = strings.Trim(v, " \t\r\n")
		if v != "" {
			s[v] = true
		}
	}
	return s
}

// c45Oracle compares the result with the reference traversal; "" means the property holds.
func c45Oracle(root *c45Node, cfg ExplodeConfig, res Result) string {
	var exp []c45Exp
	c45PostOrder(root, "", 0, &exp)
	sets := []map[string]bool{c45Set(cfg.ItemSegments), c45Set(cfg.PartnerSegments), c45Set(cfg.StatusSegments), c45Set(cfg.DateSegments)}
	routeNames := []string{"Items", "Partners", "Statuses", "Dates"}
	lists := [][]Segment{res.Items, res.Partners, res.Statuses, res.Dates}
	if len(res.Segments) != len(exp) {
		names := make([]string, 0, len(res.Segments))
		for _, s := range res.Segments {
			names = append(names, s.Path)
		}
		want := make([]string, 0, len(exp))
		for _, e := range exp {
			want = append(want, e.path)
		}
		return fmt.Sprintf("document has %d elements but Segments has %d entries\n got paths: %q\nwant paths: %q", len(exp), len(res.Segments), names, want)
	}
	for i, e := range exp {
		got := res.Segments[i]
		if got.Name != e.node.Name || got.Path != e.path {
			return fmt.Sprintf("Segments[%d] = (name %q, path %q), want the %d-th closing element (name %q, path %q)", i, got.Name, got.Path, i, e.node.Name, e.path)
		}
		if want := e.node.directText(); got.Value != want {
			return fmt.Sprintf("Segments[%d] (%s) value %q, want trimmed direct text %q", i, e.path, got.Value, want)
		}
		// unambiguous attributes only
		cnt := map[string]int{}
		for _, a := range e.node.Attrs {
			local := a[0]
			if j := strings.IndexByte(local, ':'); j >= 0 {
				local = local[j+1:]
			}
			cnt[local]++
		}
		for _, a := range e.node.Attrs {
			if strings.Contains(a[0], ":") || a[0] == "xmlns" || cnt[a[0]] != 1 {
				continue
			}
			if gv, ok := got.Attributes[a[0]]; !ok || gv != a[1] {
				return fmt.Sprintf("Segments[%d] (%s) attribute %s=%q, got %q (present=%v)", i, e.path, a[0], a[1], gv, ok)
			}
		}
		routed := false
		for _, s := range sets {
			if s[e.node.Name] {
				routed = true
			}
		}
		if routed {
			wantVals := map[string]map[string]bool{}
			for _, c := range e.node.children() {
				if v := c.directText(); v != "" {
					if wantVals[c.Name] == nil {
						wantVals[c.Name] = map[string]bool{}
					}
					wantVals[c.Name][v] = true
				}
			}
			for k, v := range got.Fields {
				if !wantVals[k][v] {
					return fmt.Sprintf("routed segment %s (Segments[%d]) has field %s=%q which is not a direct child with that non-empty text (children with text: %v)", e.path, i, k, v, wantVals)
				}
			}
			for k := range wantVals {
				if _, ok := got.Fields[k]; !ok {
					return fmt.Sprintf("routed segment %s (Segments[%d]) lacks field %s although a direct child of that name has non-empty text; fields=%v", e.path, i, k, got.Fields)
				}
			}
		}
	}
	for r, set := range sets {
		var want []Segment
		for i, e := range exp {
			if set[e.node.Name] {
				want = append(want, res.Segments[i])
			}
		}
		got := lists[r]
		if len(got) != len(want) {
			gp := []string{}
			for _, s := range got {
				gp = append(gp, s.Path)
			}
			wp := []string{}
			for _, s := range want {
				wp = append(wp, s.Path)
			}
			return fmt.Sprintf("route %s holds %d segments %q, but %d segments have a name configured for it %q", routeNames[r], len(got), gp, len(want), wp)
		}
		for i := range want {
			if !reflect.DeepEqual(got[i], want[i]) {
				return fmt.Sprintf("route %s entry %d = %+v, want the segment %+v", routeNames[r], i, got[i], want[i])
			}
		}
	}
	return ""
}

// ---------------------------------------------------------------- generator

var c45SegNames = []string{"IDOC", "EDI_DC40", "E1EDK01", "E1EDP01", "E1EDP19", "E1EDKA1", "E1STATS", "E1EDK03", "E1EDS01",
	"Z1CUSTSEG", "e1edp01", "E1Edp01", "_X", "A.B", "A-B", "ORDERS05"}
var c45FieldNames = []string{"DOCNUM", "POSEX", "PARVW", "MENGE", "DATUM", "QUALF", "NAME1", "TABNAM", "BELNR"}
var c45VoidNames = []string{"LINK", "BASE", "AREA", "PARAM", "FRAME", "INPUT", "META", "COL", "HR", "IMG", "br", "Link"}
var c45TextPieces = []string{"10", "AG", " ", "  ", "\n  ", "\t", "\n", "Müller", "a&b", "x<y", "1 > 0", "日本", "'q'", "\"dq\"", "0001", "active", "]", "&amp;", "A B"}
var c45CDATAPieces = []string{"10", "a&b", "x<y", "<notatag>", " ", "\n", "raw ]] text", "&lt;", "AG"}
var c45AttrNames = []string{"SEGMENT", "BEGIN", "id", "SEGNUM", "x", "ns:x", "sap:SEGMENT", "lang"}
var c45AttrVals = []string{"1", "", "a b", "x<y", "a&b", "it's", "say \"hi\"", "Ü", " pad "}

type c45Gen struct {
	t        *rapid.T
	budget   int
	voidSeen bool
	voidSub  bool
	excl     bool
}

func c45EscapeText(t *rapid.T, s string) string {
	escGT := rapid.Bool().Draw(t, "escGT")
	escQ := rapid.Bool().Draw(t, "escQ")
	var sb strings.Builder
	for _, r := range s {
		switch {
		case r == '<':
			sb.WriteString("&lt;")
		case r == '&':
			sb.WriteString("&amp;")
		case r == '>' && escGT:
			sb.WriteString("&gt;")
		case r == '"' && escQ:
			sb.WriteString("&quot;")
		case r == '\'' && escQ:
			sb.WriteString("&apos;")
		case r == 'A' && escQ:
			sb.WriteString("&#65;")
		case r == 'ü' && escGT:
			sb.WriteString("&#xFC;")
		default:
			sb.WriteRune(r)
		}
	}
	return sb.String()
}

func c45EscapeAttr(s string, q byte) string {
	var sb strings.Builder
	for _, r := range s {
		switch {
		case r == '<':
			sb.WriteString("&lt;")
		case r == '&':
			sb.WriteString("&amp;")
		case r == '"' && q == '"':
			sb.WriteString("&quot;")
		case r == '\'' && q == '\'':
			sb.WriteString("&apos;")
		default:
			sb.WriteRune(r)
		}
	}
	return sb.String()
}

func (g *c45Gen) name() string {
	t := g.t
	var n string
	switch rapid.IntRange(0, 9).Draw(t, "nameKind") {
	case 0, 1, 2, 3:
		n = rapid.SampledFrom(c45SegNames).Draw(t, "seg")
	case 4, 5, 6, 7, 8:
		n = rapid.SampledFrom(c45FieldNames).Draw(t, "field")
	default:
		n = rapid.SampledFrom(c45VoidNames).Draw(t, "voidish")
		if vfkit.Known(c45FindAutoClose) {
			// excluded by construction: element names that encoding/xml's HTMLAutoClose treats as void
			g.excl = true
			n = rapid.SampledFrom(c45FieldNames).Draw(t, "field")
		} else {
			g.voidSeen = true
		}
	}
	return n
}

func (g *c45Gen) elem(depth int) *c45Node {
	t := g.t
	g.budget--
	n := &c45Node{Name: g.name()}
	if rapid.IntRange(0, 7).Draw(t, "prefixed") == 0 {
		n.Prefix = rapid.SampledFrom([]string{"ns", "sap"}).Draw(t, "prefix")
	}
	n.OpenPad = rapid.SampledFrom([]string{"", "", "", " ", "\n"}).Draw(t, "openPad")
	n.ClosePad = rapid.SampledFrom([]string{"", "", "", " "}).Draw(t, "closePad")
	na := rapid.SampledFrom([]int{0, 0, 0, 1, 1, 2, 3}).Draw(t, "nattrs")
	used := map[string]bool{}
	for i := 0; i < na; i++ {
		an := rapid.SampledFrom(c45AttrNames).Draw(t, "attrName")
		if used[an] {
			continue // a duplicate attribute is not well-formed
		}
		used[an] = true
		av := rapid.SampledFrom(c45AttrVals).Draw(t, "attrVal")
		q := rapid.SampledFrom([]byte{'"', '\''}).Draw(t, "quote")
		n.Attrs = append(n.Attrs, [2]string{an, av})
		n.AttrRaw = append(n.AttrRaw, fmt.Sprintf(" %s=%c%s%c", an, q, c45EscapeAttr(av, q), q))
	}
	shape := rapid.IntRange(0, 9).Draw(t, "shape")
	if depth <= 1 && shape < 9 && g.budget > 0 {
		shape = 5 + shape%5 // the root and its children are containers most of the time
	}
	switch {
	case shape == 0: // empty
		n.SelfClose = rapid.Bool().Draw(t, "selfClose")
		return n
	case shape <= 4 || depth >= 6 || g.budget <= 0: // leaf with text
		nch := rapid.IntRange(1, 3).Draw(t, "nchunks")
		for i := 0; i < nch; i++ {
			n.Kids = append(n.Kids, g.textItem())
		}
		return n
	}
	// container, possibly with mixed content
	mixed := rapid.IntRange(0, 3).Draw(t, "mixed") == 0
	fan := rapid.IntRange(1, 5).Draw(t, "fanout")
	indent := rapid.SampledFrom([]string{"", "\n  ", " "}).Draw(t, "indent")
	var prev *c45Node
	for i := 0; i < fan && g.budget > 0; i++ {
		if indent != "" {
			n.Kids = append(n.Kids, c45Item{Kind: c45Text, Text: indent, Raw: indent})
		}
		if mixed && rapid.Bool().Draw(t, "mixedText") {
			n.Kids = append(n.Kids, g.textItem())
		}
		c := g.elem(depth + 1)
		if prev != nil && rapid.IntRange(0, 3).Draw(t, "repeatName") == 0 {
			c.Name, c.Prefix = prev.Name, prev.Prefix // repeated sibling name
		}
		prev = c
		n.Kids = append(n.Kids, c45Item{Kind: c45Elem, El: c})
	}
	if mixed && rapid.Bool().Draw(t, "tailText") {
		n.Kids = append(n.Kids, g.textItem())
	}
	return n
}

// chain builds an element with `levels` further nesting levels below it.
func (g *c45Gen) chain(levels int) *c45Node {
	t := g.t
	n := &c45Node{Name: g.name()}
	if levels <= 0 {
		if rapid.Bool().Draw(t, "chainLeafText") {
			n.Kids = append(n.Kids, g.textItem())
		}
		return n
	}
	indent := rapid.SampledFrom([]string{"", "\n  ", "\n\t", " "}).Draw(t, "chainIndent")
	pad := func() {
		switch rapid.IntRange(0, 3).Draw(t, "chainPad") {
		case 0:
		case 1, 2:
			if indent != "" {
				n.Kids = append(n.Kids, c45Item{Kind: c45Text, Text: indent, Raw: indent})
			}
		default:
			n.Kids = append(n.Kids, g.textItem())
		}
	}
	leaves := func(tag string) {
		for i, k := 0, rapid.SampledFrom([]int{0, 0, 0, 1, 2}).Draw(t, tag); i < k; i++ {
			leaf := &c45Node{Name: g.name()}
			leaf.Kids = append(leaf.Kids, g.textItem())
			n.Kids = append(n.Kids, c45Item{Kind: c45Elem, El: leaf})
			pad()
		}
	}
	pad()
	leaves("chainLeavesBefore")
	n.Kids = append(n.Kids, c45Item{Kind: c45Elem, El: g.chain(levels - 1)})
	pad()
	leaves("chainLeavesAfter")
	return n
}

func (g *c45Gen) textItem() c45Item {
	t := g.t
	switch rapid.IntRange(0, 9).Draw(t, "textKind") {
	case 0:
		s := rapid.SampledFrom(c45CDATAPieces).Draw(t, "cdata")
		return c45Item{Kind: c45CDATA, Text: s, Raw: "<![CDATA[" + s + "]]>"}
	case 1:
		s := rapid.SampledFrom([]string{" note ", "E1EDP01", "<x>", ""}).Draw(t, "comment")
		return c45Item{Kind: c45Comment, Text: s, Raw: "<!--" + s + "-->"}
	case 2:
		return c45Item{Kind: c45PI, Text: "pi", Raw: "<?pi some data?>"}
	default:
		np := rapid.IntRange(1, 3).Draw(t, "npieces")
		var sb strings.Builder
		for i := 0; i < np; i++ {
			sb.WriteString(rapid.SampledFrom(c45TextPieces).Draw(t, "piece"))
		}
		s := sb.String()
		return c45Item{Kind: c45Text, Text: s, Raw: c45EscapeText(t, s)}
	}
}

type c45Case struct {
	root *c45Node
	raw  []byte // the bytes handed to ExplodeXML (xml in the declared encoding)
	enc  string
	xml  string
	cfg  ExplodeConfig
	excl map[string]bool
	void bool
	two  bool
}

// c45Encode renders the document text in a declared single-byte encoding: characters the
// encoding cannot represent are written as numeric character references (they only occur in
// text and attribute values: names, CDATA, comments and PIs of the generator are ASCII).
func c45Encode(doc string, maxRune rune) (string, []byte) {
	var text strings.Builder
	var raw []byte
	for _, r := range doc {
		if r > maxRune {
			ref := fmt.Sprintf("&#%d;", r)
			text.WriteString(ref)
			raw = append(raw, ref...)
			continue
		}
		text.WriteRune(r)
		raw = append(raw, byte(r))
	}
	return text.String(), raw
}

// c45Serialize returns the document as text, the bytes handed to ExplodeXML and the declared encoding.
func c45Serialize(t *rapid.T, root *c45Node, excl map[string]bool) (string, []byte, string) {
	var sb strings.Builder
	enc := ""
	if rapid.IntRange(0, 5).Draw(t, "declaredEncoding") == 3 {
		// documents exported by non-Unicode systems / XML file ports declare their code page
		enc = rapid.SampledFrom([]string{"US-ASCII", "ISO-8859-1", "iso-8859-1", "us-ascii"}).Draw(t, "encoding")
		if vfkit.Known(c45FindEncoding) {
			// excluded by construction: an XML declaration naming an encoding other than UTF-8
			excl[c45FindEncoding] = true
			enc = ""
		}
	}
	if enc != "" {
		sb.WriteString("<?xml version=\"1.0\" encoding=\"" + enc + "\"?>\n")
	} else {
		sb.WriteString(rapid.SampledFrom([]string{"", "<?xml version=\"1.0\"?>\n", "<?xml version=\"1.0\" encoding=\"UTF-8\"?>\n", "<?xml version=\"1.0\" encoding=\"utf-8\"?>\n", "\n", "<!-- exported -->\n"}).Draw(t, "prolog"))
	}
	root.write(&sb)
	sb.WriteString(rapid.SampledFrom([]string{"", "\n", "\n<!-- end -->\n"}).Draw(t, "epilog"))
	doc := sb.String()
	switch strings.ToUpper(enc) {
	case "US-ASCII":
		text, raw := c45Encode(doc, 0x7f)
		return text, raw, enc
	case "ISO-8859-1":
		text, raw := c45Encode(doc, 0xff)
		return text, raw, enc
	}
	return doc, []byte(doc), ""
}

func c45Draw(t *rapid.T) c45Case {
	g := &c45Gen{t: t, budget: rapid.IntRange(1, 40).Draw(t, "budget")}
	var root *c45Node
	if rapid.IntRange(0, 6).Draw(t, "deepChain") == 4 {
		// deeply nested (pretty-printed) document: a chain of 10-40 levels, every level may carry
		// indentation / text before and after its nested child and a few leaf siblings
		root = g.chain(rapid.IntRange(10, 40).Draw(t, "chainDepth"))
	} else {
		root = g.elem(0)
	}
	// namespace declarations so that prefixed names are namespace-well-formed
	decl := [][2]string{{"xmlns:ns", "urn:sap-com:document:sap:idoc"}, {"xmlns:sap", "urn:sap"}}
	if rapid.IntRange(0, 5).Draw(t, "defaultNS") == 0 {
		decl = append(decl, [2]string{"xmlns", "urn:default"})
	}
	for _, d := range decl {
		root.Attrs = append(root.Attrs, d)
		root.AttrRaw = append(root.AttrRaw, fmt.Sprintf(" %s=\"%s\"", d[0], d[1]))
	}
	var exp []c45Exp
	c45PostOrder(root, "", 0, &exp)
	var treeNames []string
	seen := map[string]bool{}
	for _, e := range exp {
		if !seen[e.node.Name] {
			seen[e.node.Name] = true
			treeNames = append(treeNames, e.node.Name)
		}
	}
	cs := c45Case{root: root, excl: map[string]bool{}, void: g.voidSeen}
	if g.excl {
		cs.excl[c45FindAutoClose] = true
	}
	taken := map[string]bool{}
	route := func(label string) []string {
		n := rapid.SampledFrom([]int{0, 1, 1, 2, 2, 3}).Draw(t, label+"N")
		var out []string
		for i := 0; i < n; i++ {
			var v string
			switch rapid.IntRange(0, 9).Draw(t, label+"Kind") {
			case 0:
				v = rapid.SampledFrom([]string{"E1NOPE", "", "  ", "IDOC/E1EDP01", "e1edka1"}).Draw(t, label+"Outside")
			default:
				v = rapid.SampledFrom(treeNames).Draw(t, label+"Name")
				if taken[v] && !c45Contains(out, v) && rapid.IntRange(0, 9).Draw(t, label+"Redraw") > 0 {
					// mostly prefer a name no other route uses yet (the overlap stays an occasional case)
					for _, cand := range treeNames {
						if !taken[cand] {
							v = cand
							break
						}
					}
				}
			}
			key := strings.TrimSpace(v)
			if key != "" && taken[key] && !c45Contains(out, key) {
				if vfkit.Known(c45FindTwoRoutes) {
					// excluded by construction: the same name configured for two different routes
					cs.excl[c45FindTwoRoutes] = true
					continue
				}
				cs.two = true
			}
			switch rapid.IntRange(0, 5).Draw(t, label+"Pad") {
			case 0:
				v = " " + v
			case 1:
				v = v + "\t "
			}
			out = append(out, v)
		}
		for _, v := range out {
			if k := strings.TrimSpace(v); k != "" {
				taken[k] = true
			}
		}
		return out
	}
	cs.cfg.ItemSegments = route("items")
	cs.cfg.PartnerSegments = route("partners")
	cs.cfg.StatusSegments = route("statuses")
	cs.cfg.DateSegments = route("dates")
	cs.xml, cs.raw, cs.enc = c45Serialize(t, root, cs.excl)
	return cs
}

func c45Contains(list []string, key string) bool {
	for _, v := range list {
		if strings.TrimSpace(v) == key {
			return true
		}
	}
	return false
}

func TestVF_C45_Explode(t *testing.T) {
	st := vfkit.NewStats("C45", "explode")
	defer st.Flush()
	rapid.Check(t, func(t *rapid.T) {
		cs := c45Draw(t)
		st.Eval()
		if cs.enc != "" {
			st.Class("declared-encoding-" + strings.ToUpper(cs.enc))
		}
		for id := range map[string]bool{c45FindAutoClose: true, c45FindTwoRoutes: true, c45FindEncoding: true} {
			if cs.excl[id] {
				st.ExcludedCase(id)
			}
		}
		res, err := ExplodeXML(cs.raw, cs.cfg)
		if err != nil {
			t.Fatalf("well-formed document rejected: %v\n%s", err, cs.xml)
		}
		// statistics / non-trivial rule
		var exp []c45Exp
		c45PostOrder(cs.root, "", 0, &exp)
		all := map[string]bool{}
		for _, l := range [][]string{cs.cfg.ItemSegments, cs.cfg.PartnerSegments, cs.cfg.StatusSegments, cs.cfg.DateSegments} {
			for k := range c45Set(l) {
				all[k] = true
			}
		}
		depths := map[int]bool{}
		routed, repeated, maxDepth, mixed, nested := 0, false, 0, false, false
		for _, e := range exp {
			if e.depth > maxDepth {
				maxDepth = e.depth
			}
			names := map[string]bool{}
			for _, c := range e.node.children() {
				if names[c.Name] {
					repeated = true
				}
				names[c.Name] = true
				if all[e.node.Name] && all[c.Name] {
					nested = true
				}
			}
			if len(e.node.children()) > 0 && e.node.directText() != "" {
				mixed = true
			}
			if all[e.node.Name] {
				routed++
				depths[e.depth] = true
			}
		}
		switch {
		case maxDepth >= 17:
			st.Class("depth-17+")
		case maxDepth >= 10:
			st.Class("depth-10..16")
		default:
			st.Class(fmt.Sprintf("depth-%d", maxDepth))
		}
		switch {
		case len(exp) == 1:
			st.Class("elements-1")
		case len(exp) <= 5:
			st.Class("elements-2..5")
		case len(exp) <= 15:
			st.Class("elements-6..15")
		default:
			st.Class("elements-16+")
		}
		if routed > 0 {
			st.Class("has-routed-segment")
		}
		if nested {
			st.Class("routed-inside-routed")
		}
		if repeated {
			st.Class("repeated-child-name")
		}
		if mixed {
			st.Class("mixed-content")
		}
		if strings.Contains(cs.xml, "<![CDATA[") {
			st.Class("cdata")
		}
		if cs.void {
			st.Class("html-void-like-name")
		}
		if cs.two {
			st.Class("name-in-two-routes")
		}
		if routed >= 2 && len(depths) >= 2 && repeated {
			if st.NonTrivial(cs.xml, cs.cfg) {
				st.Sample(map[string]any{"xml": cs.xml, "config": cs.cfg})
			}
		}
		if msg := c45Oracle(cs.root, cs.cfg, res); msg != "" {
			t.Fatalf("%s\nconfig: %+v\ndocument:\n%s", msg, cs.cfg, cs.xml)
		}
	})
}

// ---------------------------------------------------------------- witnesses of listed findings

func c45Leaf(name, text string) *c45Node {
	return &c45Node{Name: name, Kids: []c45Item{{Kind: c45Text, Text: text, Raw: text}}}
}

func c45Parent(name string, kids ...*c45Node) *c45Node {
	n := &c45Node{Name: name}
	for _, k := range kids {
		n.Kids = append(n.Kids, c45Item{Kind: c45Elem, El: k})
	}
	return n
}

func TestVF_C45_Witness(t *testing.T) {
	st := vfkit.NewStats("C45", "witness")
	defer st.Flush()
	run := func(id string, root *c45Node, cfg ExplodeConfig) {
		st.Eval()
		var sb strings.Builder
		root.write(&sb)
		res, err := ExplodeXML([]byte(sb.String()), cfg)
		msg := ""
		if err != nil {
			msg = "well-formed document rejected: " + err.Error()
		} else {
			msg = c45Oracle(root, cfg, res)
		}
		st.KnownResult(id, msg != "", fmt.Sprintf("%s with config %+v: %s", sb.String(), cfg, msg))
		t.Logf("%s: stillFails=%v %s", id, msg != "", msg)
	}
	// a well-formed document whose XML declaration names US-ASCII (pure ASCII content)
	{
		st.Eval()
		root := c45Parent("ORDERS05", c45Parent("IDOC", c45Parent("E1EDKA1", c45Leaf("NAME1", "ACME"))))
		cfg := ExplodeConfig{PartnerSegments: []string{"E1EDKA1"}}
		var sb strings.Builder
		sb.WriteString("<?xml version=\"1.0\" encoding=\"US-ASCII\"?>")
		root.write(&sb)
		res, err := ExplodeXML([]byte(sb.String()), cfg)
		msg := ""
		if err != nil {
			msg = "well-formed document rejected: " + err.Error()
		} else {
			msg = c45Oracle(root, cfg, res)
		}
		st.KnownResult(c45FindEncoding, msg != "", fmt.Sprintf("%s: %s", sb.String(), msg))
		t.Logf("%s: stillFails=%v %s", c45FindEncoding, msg != "", msg)
	}
	// the same segment name configured for items and partners: only Items receives it
	run(c45FindTwoRoutes, c45Parent("IDOC", c45Parent("E1EDKA1", c45Leaf("PARVW", "AG"))),
		ExplodeConfig{ItemSegments: []string{"E1EDKA1"}, PartnerSegments: []string{"E1EDKA1"}})
	// an element called LINK (HTML void name, compared case-insensitively) is auto-closed
	run(c45FindAutoClose, c45Parent("IDOC", c45Parent("E1EDP01", c45Leaf("LINK", "X1"), c45Leaf("POSEX", "10"))),
		ExplodeConfig{ItemSegments: []string{"E1EDP01"}})
}
