//go:build verif

package cache

import (
	"bytes"
	"fmt"
	"sync"
	"testing"

	"pgregory.net/rapid"
	"verif.local/vfkit"
)

// C09: capacity invariant after every operation, get == latest set or miss, bytes handed
// to a reader never change afterwards. Reference model: map key -> latest bytes (an entry
// may be absent in the cache because of eviction, so "miss" is always allowed).

type c09Key struct {
	topic string
	part  int32
	base  int64
}

func c09Payload(tag byte, n int) []byte {
	b := make([]byte, n)
	for i := range b {
		b[i] = tag + byte(i*7)
	}
	return b
}

type c09Handed struct {
	live []byte // slice returned by the cache
	copy []byte // private copy taken at hand-out time
	step int
}

func (h c09Handed) intact() bool { return bytes.Equal(h.live, h.copy) }

func c09CheckInternal(t *rapid.T, c *SegmentCache) {
	c.mu.Lock()
	defer c.mu.Unlock()
	sum := 0
	n := 0
	for e := c.ll.Front(); e != nil; e = e.Next() {
		ent := e.Value.(*cacheEntry)
		sum += len(ent.data)
		n++
		if c.items[ent.key] != e {
			t.Fatalf("list entry %q not indexed by items", ent.key)
		}
	}
	if n != len(c.items) {
		t.Fatalf("items has %d entries, list %d", len(c.items), n)
	}
	if sum != c.size {
		t.Fatalf("size accounting drift: size=%d but entries hold %d bytes", c.size, sum)
	}
	if sum > c.capacity {
		t.Fatalf("cache holds %d bytes > capacity %d", sum, c.capacity)
	}
}

func TestVF_C09_Model(t *testing.T) {
	st := vfkit.NewStats("C09", "model")
	defer st.Flush()
	rapid.Check(t, func(t *rapid.T) {
		st.Eval()
		capacity := rapid.SampledFrom([]int{1, 2, 8, 16, 64, 256, 1024, 4096}).Draw(t, "capacity")
		c := NewSegmentCache(capacity)
		nkeys := rapid.IntRange(1, 6).Draw(t, "nkeys")
		keys := make([]c09Key, nkeys)
		for i := range keys {
			// overlapping coordinates: same topic different partition / base and vice versa
			keys[i] = c09Key{topic: rapid.SampledFrom([]string{"a", "a:1", "b"}).Draw(t, "topic"),
				part: int32(rapid.IntRange(0, 1).Draw(t, "part")), base: int64(rapid.SampledFrom([]int{0, 1, 10}).Draw(t, "base"))}
		}
		model := map[c09Key][]byte{}
		var handed []c09Handed
		step := 0
		var trace []string
		nontrivial := false
		gotOf := map[c09Key]bool{}
		sizeGen := rapid.OneOf(rapid.IntRange(0, 4), rapid.IntRange(0, capacity), rapid.IntRange(capacity, 2*capacity+1))
		t.Repeat(map[string]func(*rapid.T){
			"set": func(t *rapid.T) {
				k := rapid.SampledFrom(keys).Draw(t, "k")
				n := sizeGen.Draw(t, "n")
				tag := rapid.Byte().Draw(t, "tag")
				data := c09Payload(tag, n)
				orig := append([]byte(nil), data...)
				c.SetSegment(k.topic, k.part, k.base, data)
				model[k] = orig
				// caller may reuse its buffer afterwards: the cache must have copied it
				for i := range data {
					data[i] ^= 0xff
				}
				if gotOf[k] {
					nontrivial = true
					st.Class("set-after-get")
				}
				if n > capacity {
					nontrivial = true
					st.Class("entry-larger-than-capacity")
				}
				trace = append(trace, fmt.Sprintf("set(%v,%d)", k, n))
			},
			"get": func(t *rapid.T) {
				k := rapid.SampledFrom(keys).Draw(t, "k")
				got, ok := c.GetSegment(k.topic, k.part, k.base)
				trace = append(trace, fmt.Sprintf("get(%v)=%v", k, ok))
				if !ok {
					st.Class("get-miss")
					return
				}
				st.Class("get-hit")
				want, present := model[k]
				if !present {
					t.Fatalf("get(%v) hit for a key never set", k)
				}
				if !bytes.Equal(got, want) {
					t.Fatalf("get(%v) returned %d bytes that differ from the latest set (%d bytes)", k, len(got), len(want))
				}
				gotOf[k] = true
				handed = append(handed, c09Handed{live: got, copy: append([]byte(nil), got...), step: step})
			},
			"": func(t *rapid.T) {
				step++
				c09CheckInternal(t, c)
				for _, h := range handed {
					if !h.intact() {
						t.Fatalf("bytes handed to a reader at step %d changed afterwards (now step %d)", h.step, step)
					}
				}
			},
		})
		if nontrivial {
			st.NonTrivial(capacity, trace)
			st.Sample(map[string]any{"capacity": capacity, "ops": trace})
		}
	})
}

// Concurrent leg (run under -race by C09's race leg and by C41): readers verify every
// slice they were handed stays self-consistent (payloads are a pure function of
// (tag,len), so a torn or overwritten slice is detectable) while writers re-set keys.
func TestVF_C09_Concurrent(t *testing.T) {
	st := vfkit.NewStats("C09", "concurrent")
	defer st.Flush()
	rapid.Check(t, func(t *rapid.T) {
		st.Eval()
		capacity := rapid.SampledFrom([]int{64, 256, 1024}).Draw(t, "capacity")
		c := NewSegmentCache(capacity)
		nw := rapid.IntRange(1, 3).Draw(t, "writers")
		nr := rapid.IntRange(1, 3).Draw(t, "readers")
		iters := rapid.IntRange(50, 400).Draw(t, "iters")
		sizes := rapid.SliceOfN(rapid.IntRange(1, capacity/2), 2, 6).Draw(t, "sizes")
		var wg sync.WaitGroup
		errs := make(chan string, nw+nr)
		for w := 0; w < nw; w++ {
			wg.Add(1)
			go func(w int) {
				defer wg.Done()
				for i := 0; i < iters; i++ {
					n := sizes[(i+w)%len(sizes)]
					c.SetSegment("t", int32(i%2), 0, c09Payload(byte(n), n))
				}
			}(w)
		}
		for r := 0; r < nr; r++ {
			wg.Add(1)
			go func(r int) {
				defer wg.Done()
				var held [][]byte
				for i := 0; i < iters; i++ {
					if b, ok := c.GetSegment("t", int32(i%2), 0); ok {
						held = append(held, b)
					}
					if len(held) > 8 {
						held = held[1:]
					}
					for _, b := range held {
						if len(b) > 0 && !bytes.Equal(b, c09Payload(byte(len(b)), len(b))) {
							select {
							case errs <- fmt.Sprintf("reader %d holds a %d-byte slice whose content is not a payload ever stored with that length", r, len(b)):
							default:
							}
							return
						}
					}
				}
			}(r)
		}
		wg.Wait()
		select {
		case e := <-errs:
			t.Fatalf("%s", e)
		default:
		}
		c09CheckInternal(t, c)
		st.NonTrivial(capacity, nw, nr, iters, sizes)
		st.Sample(map[string]any{"capacity": capacity, "writers": nw, "readers": nr, "iters": iters, "sizes": sizes})
	})
}
