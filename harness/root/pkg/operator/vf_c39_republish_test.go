//go:build verif

package operator

import (
	"context"
	"encoding/json"
	"fmt"
	"os"
	"strings"
	"testing"
	"time"

	clientv3 "go.etcd.io/etcd/client/v3"
	"pgregory.net/rapid"
	"sigs.k8s.io/controller-runtime/pkg/client"
	"sigs.k8s.io/controller-runtime/pkg/client/fake"
	"verif.local/vfkit"

	kafscalev1alpha1 "github.com/KafScale/platform/api/v1alpha1"
	"github.com/KafScale/platform/internal/testutil"
	"github.com/KafScale/platform/pkg/metadata"
)

// C39, republish leg: the metadata the operator publishes is not only the freshly rendered
// document - SnapshotPublisher.Publish merges it with the snapshot already in etcd (topics and
// partitions brokers added). This leg runs the real publish path over an EXISTING snapshot
// produced the way the system produces it: an earlier operator publish (possibly of an older
// resource state) followed by broker-side CreatePartitions / CreateTopic / DeleteTopic through a
// real metadata.EtcdStore, then publishes the current resources once or twice and asserts on
// the raw /kafscale/metadata/snapshot document what C39 states.

const c39FindStaleLeader = "C39-carried-over-leader-after-scale-down"

type c39TopicPlan struct {
	Name    string
	Prev    int32 // partitions in the earlier resource state (0 = resource did not exist)
	Cur     int32 // partitions in the current resource state (0 = resource deleted meanwhile)
	Foreign bool  // belongs to another cluster (must be ignored by Publish)
}

type c39BrokerOp struct {
	Kind  string // grow | create | delete
	Topic int    // index into the known topic names
	By    int32
	Parts int32
}

func c39TopicObjects(cluster *kafscalev1alpha1.KafscaleCluster, plans []c39TopicPlan, cur bool) ([]client.Object, []kafscalev1alpha1.KafscaleTopic) {
	var objs []client.Object
	var mine []kafscalev1alpha1.KafscaleTopic
	for _, p := range plans {
		n := p.Prev
		if cur {
			n = p.Cur
		}
		if n <= 0 {
			continue
		}
		tp := &kafscalev1alpha1.KafscaleTopic{}
		tp.Name, tp.Namespace = p.Name, cluster.Namespace
		tp.Spec.ClusterRef, tp.Spec.Partitions = cluster.Name, n
		if p.Foreign {
			tp.Spec.ClusterRef = "another-cluster"
		} else {
			mine = append(mine, *tp)
		}
		objs = append(objs, tp)
	}
	return objs, mine
}

func TestVF_C39_Republish(t *testing.T) {
	st := vfkit.NewStats("C39", "republish")
	defer st.Flush()
	inconclusive := func(format string, a ...any) {
		msg := "VF-INCONCLUSIVE: " + fmt.Sprintf(format, a...)
		fmt.Println(msg)
		t.Fatal(msg)
	}
	_ = os.Setenv(operatorEtcdSilenceLogsEnv, "true")
	scheme, err := c42Scheme()
	if err != nil {
		inconclusive("scheme: %v", err)
	}
	endpoints := testutil.StartEmbeddedEtcd(t)
	if len(endpoints) == 0 {
		inconclusive("embedded etcd did not start")
	}
	ctx := context.Background()
	raw, err := clientv3.New(clientv3.Config{Endpoints: endpoints, DialTimeout: 5 * time.Second})
	if err != nil {
		inconclusive("etcd client: %v", err)
	}
	defer func() { _ = raw.Close() }()
	const snapKey = "/kafscale/metadata/snapshot"

	rapid.Check(t, func(t *rapid.T) {
		envFail := func(format string, a ...any) {
			msg := "VF-INCONCLUSIVE: " + fmt.Sprintf(format, a...)
			fmt.Println(msg)
			t.Fatalf("%s", msg)
		}
		cluster := c42Cluster(t, c42Opts{})
		curReplicas := *cluster.Spec.Brokers.Replicas
		prevReplicas := curReplicas
		switch rapid.IntRange(0, 5).Draw(t, "replicasChanged") {
		case 2:
			prevReplicas = int32(rapid.IntRange(1, 7).Draw(t, "prevReplicas"))
		}
		var plans []c39TopicPlan
		used := map[string]bool{}
		for i, n := 0, rapid.IntRange(0, 4).Draw(t, "topics"); i < n; i++ {
			p := c39TopicPlan{Name: rapid.SampledFrom([]string{"orders", "payments.v1", "events", "a", "audit-log", "x0"}).Draw(t, "topicName")}
			if used[p.Name] {
				continue
			}
			used[p.Name] = true
			p.Cur = int32(rapid.SampledFrom([]int{1, 2, 3, 3, 4, 6}).Draw(t, "cur"))
			switch rapid.IntRange(0, 9).Draw(t, "history") {
			case 0, 1, 2, 3, 4:
				p.Prev = p.Cur // unchanged resource
			case 5:
				p.Prev = 0 // new resource
			case 6:
				p.Prev = int32(rapid.IntRange(1, int(p.Cur)).Draw(t, "prevFewer")) // resource grown
			case 7:
				p.Prev = p.Cur + int32(rapid.IntRange(1, 3).Draw(t, "prevMore")) // resource reduced by the user
			case 8:
				p.Prev, p.Cur = p.Cur, 0 // resource deleted meanwhile: the topic is now known only to brokers
			default:
				p.Prev, p.Foreign = p.Cur, true
			}
			plans = append(plans, p)
		}
		firstPublish := rapid.IntRange(0, 5).Draw(t, "noEarlierPublish") == 3
		var ops []c39BrokerOp
		for i, n := 0, rapid.IntRange(0, 3).Draw(t, "brokerOps"); i < n; i++ {
			op := c39BrokerOp{Topic: rapid.IntRange(0, 7).Draw(t, "opTopic")}
			switch rapid.IntRange(0, 5).Draw(t, "opKind") {
			case 0, 1, 2, 3:
				op.Kind, op.By = "grow", int32(rapid.IntRange(1, 4).Draw(t, "growBy"))
			case 4:
				op.Kind, op.Parts = "create", int32(rapid.IntRange(1, 4).Draw(t, "createParts"))
			default:
				op.Kind = "delete"
			}
			ops = append(ops, op)
		}
		republishes := rapid.IntRange(1, 3).Draw(t, "republishes")
		// external edits of the snapshot key between the operator's publishes (etcd restored from a
		// backup, key removed by an operator mistake, key overwritten with junk)
		edits := make([]string, republishes)
		for i := 1; i < republishes; i++ {
			edits[i] = rapid.SampledFrom([]string{"", "rollback-to-earlier-publish", "rollback-to-before-republish", "delete", "delete", "garbage"}).Draw(t, "externalEdit")
		}

		pods, _, problem := c39PodAddrs(ctx, cluster)
		if problem != "" {
			if strings.HasPrefix(problem, "VF-INCONCLUSIVE") {
				fmt.Println(problem)
			}
			t.Fatalf("%s", problem)
		}
		// --- history
		dctx, cancel := context.WithTimeout(ctx, 10*time.Second)
		_, err := raw.Delete(dctx, "/kafscale/", clientv3.WithPrefix())
		cancel()
		if err != nil {
			envFail("clear etcd: %v", err)
		}
		var trace []string
		pub := NewSnapshotPublisher(nil) // ONE publisher for the whole history, as in the operator process
		var valEarlier, valBefore []byte
		if !firstPublish {
			prev := cluster.DeepCopy()
			prev.Spec.Brokers.Replicas = &prevReplicas
			objs, _ := c39TopicObjects(cluster, plans, false)
			c := fake.NewClientBuilder().WithScheme(scheme).WithObjects(append([]client.Object{prev.DeepCopy()}, objs...)...).Build()
			pub.Client = c
			if err := pub.Publish(ctx, prev, endpoints); err != nil {
				envFail("earlier publish: %v", err)
			}
			trace = append(trace, fmt.Sprintf("publish(replicas=%d,%d topic resources)", prevReplicas, len(objs)))
			gctx, cancel := context.WithTimeout(ctx, 10*time.Second)
			if resp, err := raw.Get(gctx, snapKey); err == nil && len(resp.Kvs) > 0 {
				valEarlier = append([]byte(nil), resp.Kvs[0].Value...)
			}
			cancel()
		}
		grewBeyond, brokerOnly := false, false
		for _, op := range ops {
			store, err := metadata.NewEtcdStore(ctx, metadata.ClusterMetadata{}, metadata.EtcdStoreConfig{Endpoints: endpoints})
			if err != nil {
				envFail("broker store: %v", err)
			}
			meta, err := store.Metadata(ctx, nil)
			if err != nil {
				_ = store.Close()
				envFail("broker metadata: %v", err)
			}
			switch op.Kind {
			case "grow":
				if len(meta.Topics) > 0 {
					tp := meta.Topics[op.Topic%len(meta.Topics)]
					n := int32(len(tp.Partitions)) + op.By
					if err := store.CreatePartitions(ctx, *tp.Topic, n); err == nil {
						trace = append(trace, fmt.Sprintf("broker.CreatePartitions(%s,%d)", *tp.Topic, n))
						for _, p := range plans {
							if p.Name == *tp.Topic && !p.Foreign && p.Cur > 0 && n >= p.Cur+2 {
								grewBeyond = true
							}
						}
					}
				}
			case "create":
				name := fmt.Sprintf("made-by-broker-%d", op.Topic)
				if _, err := store.CreateTopic(ctx, metadata.TopicSpec{Name: name, NumPartitions: op.Parts, ReplicationFactor: 1}); err == nil {
					trace = append(trace, fmt.Sprintf("broker.CreateTopic(%s,%d)", name, op.Parts))
					brokerOnly = true
				}
			case "delete":
				if len(meta.Topics) > 0 {
					tp := meta.Topics[op.Topic%len(meta.Topics)]
					if err := store.DeleteTopic(ctx, *tp.Topic); err == nil {
						trace = append(trace, fmt.Sprintf("broker.DeleteTopic(%s)", *tp.Topic))
					}
				}
			}
			_ = store.Close()
		}
		// what the existing snapshot holds right before the republish
		existing := metadata.ClusterMetadata{}
		gctx, cancel := context.WithTimeout(ctx, 10*time.Second)
		resp, err := raw.Get(gctx, snapKey)
		cancel()
		if err != nil {
			envFail("read existing snapshot: %v", err)
		}
		if len(resp.Kvs) > 0 {
			valBefore = append([]byte(nil), resp.Kvs[0].Value...)
			if err := json.Unmarshal(resp.Kvs[0].Value, &existing); err != nil {
				envFail("existing snapshot does not decode: %v", err)
			}
		}
		// listed finding: a partition carried over from the existing snapshot (beyond the resource's
		// count, or of a topic without a resource) keeps a leader id >= the current replica count
		_, mine := c39TopicObjects(cluster, plans, true)
		declared := map[string]int32{}
		for _, tp := range mine {
			declared[tp.Name] = tp.Spec.Partitions
		}
		staleLeader := false
		for _, tp := range existing.Topics {
			if tp.Topic == nil || tp.ErrorCode != 0 {
				continue
			}
			for i, p := range tp.Partitions {
				if int32(i) >= declared[*tp.Topic] && p.Leader >= curReplicas {
					staleLeader = true
				}
			}
		}
		if staleLeader {
			st.Class("existing-snapshot-has-carry-over-leader-beyond-current-replicas")
			if vfkit.Known(c39FindStaleLeader) {
				st.ExcludedCase(c39FindStaleLeader)
				return
			}
		}
		// --- the operator publishes the current resources
		st.Eval()
		objs, _ := c39TopicObjects(cluster, plans, true)
		c := fake.NewClientBuilder().WithScheme(scheme).WithObjects(append([]client.Object{cluster.DeepCopy()}, objs...)...).Build()
		pub.Client = c
		for i := 0; i < republishes; i++ {
			if edits[i] != "" {
				ectx, cancel := context.WithTimeout(ctx, 10*time.Second)
				var eerr error
				applied := true
				switch edits[i] {
				case "rollback-to-earlier-publish":
					if valEarlier != nil {
						_, eerr = raw.Put(ectx, snapKey, string(valEarlier))
					} else {
						applied = false
					}
				case "rollback-to-before-republish":
					if valBefore != nil {
						_, eerr = raw.Put(ectx, snapKey, string(valBefore))
					} else {
						_, eerr = raw.Delete(ectx, snapKey)
					}
				case "delete":
					_, eerr = raw.Delete(ectx, snapKey)
				case "garbage":
					_, eerr = raw.Put(ectx, snapKey, "{not json")
				}
				cancel()
				if eerr != nil {
					envFail("external edit %s: %v", edits[i], eerr)
				}
				if applied {
					trace = append(trace, "external:"+edits[i])
					st.Class("external-edit:" + edits[i])
				}
			}
			if err := pub.Publish(ctx, cluster, endpoints); err != nil {
				envFail("publish: %v", err)
			}
			trace = append(trace, fmt.Sprintf("publish(replicas=%d,%d topic resources)", curReplicas, len(objs)))
			gctx, cancel := context.WithTimeout(ctx, 10*time.Second)
			resp, err := raw.Get(gctx, snapKey)
			cancel()
			if err != nil {
				envFail("read snapshot: %v", err)
			}
			if len(resp.Kvs) == 0 {
				t.Fatalf("after %v Publish returned success but /kafscale/metadata/snapshot does not exist\ncluster %s/%s replicas %d", trace, cluster.Namespace, cluster.Name, curReplicas)
			}
			var loaded metadata.ClusterMetadata
			if err := json.Unmarshal(resp.Kvs[0].Value, &loaded); err != nil {
				t.Fatalf("published snapshot does not decode: %v", err)
			}
			info := map[string]any{}
			if p := c39CheckPublished(loaded, cluster, pods, mine, false, info); p != "" {
				t.Fatalf("after %v the published snapshot violates the property: %s\ncluster %s/%s replicas %d (earlier %d)\ntopic plans %+v", trace, p, cluster.Namespace, cluster.Name, curReplicas, prevReplicas, plans)
			}
		}
		// statistics
		if firstPublish {
			st.Class("no-earlier-publish")
		}
		if prevReplicas != curReplicas {
			st.Class("replicas-changed-since-earlier-publish")
		}
		if grewBeyond {
			st.Class("broker-grew-declared-topic-by-2+")
		}
		if brokerOnly {
			st.Class("broker-created-topic")
		}
		more, fewer := false, false
		for _, tp := range existing.Topics {
			if tp.Topic == nil {
				continue
			}
			if d, ok := declared[*tp.Topic]; ok {
				if int32(len(tp.Partitions)) > d {
					more = true
				}
				if int32(len(tp.Partitions)) < d {
					fewer = true
				}
			} else {
				st.Class("existing-topic-unknown-to-operator")
			}
		}
		if more {
			st.Class("existing-has-more-partitions-than-resource")
		}
		if fewer {
			st.Class("existing-has-fewer-partitions-than-resource")
		}
		if more || len(existing.Topics) > len(declared) {
			if st.NonTrivial(trace, fmt.Sprint(plans), curReplicas, prevReplicas) {
				st.Sample(map[string]any{"history": trace, "replicas": curReplicas, "earlier_replicas": prevReplicas, "topic_plans": plans})
			}
		}
	})
}
