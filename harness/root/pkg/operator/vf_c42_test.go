//go:build verif

package operator

import (
	"context"
	"fmt"
	"os"
	"sort"
	"strings"
	"testing"
	"time"

	appsv1 "k8s.io/api/apps/v1"
	corev1 "k8s.io/api/core/v1"
	metav1 "k8s.io/apimachinery/pkg/apis/meta/v1"
	"k8s.io/apimachinery/pkg/runtime"
	"k8s.io/apimachinery/pkg/types"
	"k8s.io/apimachinery/pkg/util/intstr"
	"pgregory.net/rapid"
	"sigs.k8s.io/controller-runtime/pkg/client"
	"sigs.k8s.io/controller-runtime/pkg/client/fake"
	"sigs.k8s.io/controller-runtime/pkg/reconcile"
	"verif.local/vfkit"

	kafscalev1alpha1 "github.com/KafScale/platform/api/v1alpha1"
	"github.com/KafScale/platform/internal/testutil"
)

// C42: reconciling the same cluster resource again without changes leaves every generated
// object unchanged; rendered objects depend only on the cluster resource and the
// operator's environment.
//
// external / external-env mode: the real ClusterReconciler.Reconcile against a fake API
// server and an embedded etcd (S3 preflight skipped like the repo's own test).
// managed mode: the same step sequence as Reconcile (EnsureEtcd rendering the managed etcd
// objects, broker StatefulSet, services, LFS proxy, HPA, status) without the two steps that
// need a reachable managed etcd (health poll, snapshot publish).

var c42EnvChoices = map[string][]string{
	operatorEtcdImageEnv:                       {"", "", "quay.io/coreos/etcd:v3.5.9"},
	operatorEtcdReplicasEnv:                    {"", "", "1", "5", "abc", "0"},
	operatorEtcdStorageEnv:                     {"", "", "20Gi"},
	operatorEtcdClassEnv:                       {"", "", "fast-ssd"},
	operatorEtcdStorageMemoryEnv:               {"", "", "true"},
	operatorEtcdSnapshotBucketEnv:              {"", "", "my-snapshots"},
	operatorEtcdSnapshotPrefixEnv:              {"", "", "/custom/prefix/"},
	operatorEtcdSnapshotScheduleEnv:            {"", "", "*/30 * * * *"},
	operatorEtcdSnapshotEndpointEnv:            {"", "", "http://minio.minio:9000"},
	operatorEtcdSnapshotCreateBucketEnv:        {"", "", "true"},
	operatorEtcdSnapshotProtectBucketEnv:       {"", "", "true"},
	operatorEtcdSnapshotStaleAfterEnv:          {"", "", "60"},
	operatorEtcdQuotaBackendBytesEnv:           {"", "", "8589934592", "junk"},
	operatorEtcdAutoCompactionRetentionEnv:     {"", "", "10m"},
	operatorEtcdAutoCompactionModeEnv:          {"", "", "revision"},
	operatorEtcdMaintenanceScheduleEnv:         {"", "", "0 3 * * *"},
	operatorEtcdMaintenanceCheckScheduleEnv:    {"", "", "*/5 * * * *"},
	operatorEtcdMaintenanceEnabledEnv:          {"", "", "false", "true"},
	operatorEtcdMaintenanceSizeThresholdPctEnv: {"", "", "50"},
	operatorEtcdDefragScheduleEnv:              {"", "", "0 4 * * *"},
	operatorEtcdDefragEnabledEnv:               {"", "", "false"},
	"KAFSCALE_ACL_ENABLED":                     {"", "", "true"},
	"KAFSCALE_ACL_JSON":                        {"", "", `{"default":"deny"}`},
	"KAFSCALE_LOG_LEVEL":                       {"", "", "debug"},
	"KAFSCALE_PROXY_PROTOCOL":                  {"", "", "true"},
	"KAFSCALE_PRINCIPAL_SOURCE":                {"", "", "client_id"},
}

func c42EnvKeys() []string {
	keys := make([]string, 0, len(c42EnvChoices))
	for k := range c42EnvChoices {
		keys = append(keys, k)
	}
	sort.Strings(keys)
	return keys
}

// c42ApplyEnv sets the drawn operator environment and returns a restore func.
func c42ApplyEnv(env map[string]string) func() {
	type saved struct {
		val string
		ok  bool
	}
	old := map[string]saved{}
	keys := append(c42EnvKeys(), operatorEtcdEndpointsEnv, operatorEtcdSnapshotSkipPreflightEnv, operatorEtcdSilenceLogsEnv)
	for _, k := range keys {
		v, ok := os.LookupEnv(k)
		old[k] = saved{v, ok}
		_ = os.Unsetenv(k)
	}
	for k, v := range env {
		if v != "" {
			_ = os.Setenv(k, v)
		}
	}
	return func() {
		for k, s := range old {
			if s.ok {
				_ = os.Setenv(k, s.val)
			} else {
				_ = os.Unsetenv(k)
			}
		}
	}
}

type c42World struct {
	c      client.Client
	r      *ClusterReconciler
	scheme *runtime.Scheme
	key    types.NamespacedName
	mode   string
}

func c42NewWorld(scheme *runtime.Scheme, cluster *kafscalev1alpha1.KafscaleCluster, extras []client.Object, mode string) *c42World {
	objs := []client.Object{cluster.DeepCopy()}
	for _, e := range extras {
		objs = append(objs, e.DeepCopyObject().(client.Object))
	}
	c := fake.NewClientBuilder().WithScheme(scheme).WithStatusSubresource(&kafscalev1alpha1.KafscaleCluster{}).WithObjects(objs...).Build()
	return &c42World{c: c, scheme: scheme, mode: mode, key: types.NamespacedName{Namespace: cluster.Namespace, Name: cluster.Name},
		r: &ClusterReconciler{Client: c, Scheme: scheme, Publisher: NewSnapshotPublisher(c)}}
}

func (w *c42World) reconcile(ctx context.Context) error { return w.reconcileKey(ctx, w.key) }

// reconcileKey reconciles one of the cluster resources living in this fake API server.
func (w *c42World) reconcileKey(ctx context.Context, key types.NamespacedName) error {
	if w.mode != "managed" {
		_, err := w.r.Reconcile(ctx, reconcile.Request{NamespacedName: key})
		return err
	}
	var cluster kafscalev1alpha1.KafscaleCluster
	if err := w.c.Get(ctx, key, &cluster); err != nil {
		return err
	}
	res, err := EnsureEtcd(ctx, w.c, w.scheme, &cluster)
	if err != nil {
		return err
	}
	if err := w.r.verifySnapshotS3Access(ctx, &cluster, res); err != nil {
		return err
	}
	w.r.populateEtcdSnapshotStatus(ctx, &cluster, res)
	w.r.populateEtcdMaintenanceStatus(ctx, &cluster, res)
	if err := w.r.deleteLegacyBrokerDeployment(ctx, &cluster); err != nil {
		return err
	}
	if err := w.r.reconcileBrokerDeployment(ctx, &cluster, res.Endpoints); err != nil {
		return err
	}
	if err := w.r.reconcileBrokerHeadlessService(ctx, &cluster); err != nil {
		return err
	}
	if err := w.r.reconcileBrokerService(ctx, &cluster); err != nil {
		return err
	}
	if err := w.r.reconcileLfsProxyResources(ctx, &cluster, res.Endpoints); err != nil {
		return err
	}
	if err := w.r.reconcileBrokerHPA(ctx, &cluster); err != nil {
		return err
	}
	return w.r.updateStatus(ctx, &cluster, metav1.ConditionTrue, "Ready", "Reconciled")
}

// c42Sticky holds the first violation detected in this process. A violation caused by state
// that leaks between reconciles through package-level variables of the operator cannot be
// reproduced by re-running the same case in the same process (the leak has already happened),
// so once detected it is reported by every following evaluation from the same call site:
// rapid then reports a failure instead of "flaky".
var c42Sticky string

func c42BelongsTo(o client.Object, cl *kafscalev1alpha1.KafscaleCluster) bool {
	if o.GetNamespace() != cl.Namespace {
		return false
	}
	if kc, ok := o.(*kafscalev1alpha1.KafscaleCluster); ok {
		return kc.Name == cl.Name
	}
	for _, ref := range o.GetOwnerReferences() {
		if ref.Kind == "KafscaleCluster" && ref.Name == cl.Name {
			return true
		}
	}
	return false
}

// c42EndpointAliases returns distinct endpoint strings that all reach the same etcd server.
func c42EndpointAliases(ep string) []string {
	bare := strings.TrimPrefix(ep, "http://")
	return []string{ep, bare, ep + "/"}
}

const c42FindNotCleared = "C42-service-fields-not-cleared"

// c42HistoryDiff reconciles `earlier`, edits the resource to `final`, reconciles twice and compares
// the objects generated for the cluster with those of a fresh API server (`fresh` dump).
func c42HistoryDiff(ctx context.Context, scheme *runtime.Scheme, earlier, final *kafscalev1alpha1.KafscaleCluster, extras []client.Object, mode string, fresh c42Dump) string {
	hw := c42NewWorld(scheme, earlier, extras, mode)
	_ = hw.reconcile(ctx)
	var live kafscalev1alpha1.KafscaleCluster
	if err := hw.c.Get(ctx, hw.key, &live); err != nil {
		return "VF-INCONCLUSIVE: get cluster: " + err.Error()
	}
	live.Spec = *final.Spec.DeepCopy()
	if err := hw.c.Update(ctx, &live); err != nil {
		return "VF-INCONCLUSIVE: update cluster spec: " + err.Error()
	}
	_ = hw.reconcile(ctx)
	_ = hw.reconcile(ctx)
	dh, err := c42DumpAll(ctx, hw.c, scheme)
	if err != nil {
		return "VF-INCONCLUSIVE: dump: " + err.Error()
	}
	ownedByMe := func(o client.Object) bool { return c42Owned(o) && c42BelongsTo(o, final) }
	if d := c42DiffDumps(fresh, dh, ownedByMe); d != "" {
		return "generated objects depend on the resource's history (first: fresh API server; second: the same final spec after the resource was edited from an earlier spec): " + d
	}
	return ""
}

// c42OneCase generates and runs one case; it returns a violation message or "".
func c42OneCase(t *rapid.T, st *vfkit.Stats, ctx context.Context, scheme *runtime.Scheme, endpoints []string) string {
	cluster := c42Cluster(t, c42Opts{allowUnsetReplicas: true})
	mode := rapid.SampledFrom([]string{"external", "external", "external-env", "managed", "managed", "managed"}).Draw(t, "mode")
	env := map[string]string{}
	for _, k := range c42EnvKeys() {
		env[k] = rapid.SampledFrom(c42EnvChoices[k]).Draw(t, k)
	}
	env[operatorEtcdSnapshotSkipPreflightEnv] = "true"
	env[operatorEtcdSilenceLogsEnv] = "true"
	// other clusters managed by the same operator process, reconciled in between
	var others []*kafscalev1alpha1.KafscaleCluster
	for i, n := 0, rapid.SampledFrom([]int{0, 1, 1, 2, 2}).Draw(t, "otherClusters"); i < n; i++ {
		o := c42Cluster(t, c42Opts{})
		if rapid.Bool().Draw(t, "sameNamespace") {
			o.Namespace = cluster.Namespace
		}
		for clash := true; clash; {
			clash = o.Namespace == cluster.Namespace && o.Name == cluster.Name
			for _, p := range others {
				clash = clash || (o.Namespace == p.Namespace && o.Name == p.Name)
			}
			if clash {
				o.Name += fmt.Sprintf("-o%d", i)
			}
		}
		others = append(others, o)
	}
	all := append([]*kafscalev1alpha1.KafscaleCluster{cluster}, others...)
	switch mode {
	case "external", "external-env":
		// 1-3 DISTINCT endpoint strings, all reaching the one embedded etcd (URL with scheme, bare
		// host:port, trailing slash), in a drawn order
		aliases := c42EndpointAliases(endpoints[0])
		perm := rapid.Permutation(aliases).Draw(t, "endpointOrder")
		eps := perm[:rapid.SampledFrom([]int{1, 2, 2, 3, 3}).Draw(t, "endpointCount")]
		st.Class(fmt.Sprintf("external-endpoints-%d", len(eps)))
		if mode == "external" {
			for _, cl := range all {
				cl.Spec.Etcd.Endpoints = append([]string{" " + eps[0] + " "}, eps[1:]...)
			}
			if rapid.Bool().Draw(t, "dupEndpoint") {
				cluster.Spec.Etcd.Endpoints = append(cluster.Spec.Etcd.Endpoints, eps[0], "")
			}
		} else {
			env[operatorEtcdEndpointsEnv] = strings.Join(eps, ", ")
		}
	}
	var extras []client.Object
	for _, tp := range c42Topics(t, cluster) {
		tp := tp
		extras = append(extras, &tp)
	}
	if rapid.Bool().Draw(t, "secret") {
		extras = append(extras, &corev1.Secret{ObjectMeta: metav1.ObjectMeta{Name: "creds", Namespace: cluster.Namespace},
			Data: map[string][]byte{"AWS_ACCESS_KEY_ID": []byte("ak"), "AWS_SECRET_ACCESS_KEY": []byte("sk")}})
	}
	if rapid.IntRange(0, 3).Draw(t, "legacyDeployment") == 2 {
		extras = append(extras, &appsv1.Deployment{ObjectMeta: metav1.ObjectMeta{Name: cluster.Name + "-broker", Namespace: cluster.Namespace}})
	}
	adopted := rapid.IntRange(0, 4).Draw(t, "preexistingService") == 3
	if adopted {
		// an object of a generated name already exists (created by hand / an older operator version)
		extras = append(extras, &corev1.Service{ObjectMeta: metav1.ObjectMeta{Name: cluster.Name + "-broker", Namespace: cluster.Namespace,
			Labels: map[string]string{"owner": "someone"}, Annotations: map[string]string{"old": "annotation"}},
			Spec: corev1.ServiceSpec{Ports: []corev1.ServicePort{{Name: "legacy", Port: 1234, TargetPort: intstr.FromInt(1234)}}, Selector: map[string]string{"app": "old"}}})
	}
	// history: the same cluster resource had another spec earlier and was edited to the final one
	var earlier *kafscalev1alpha1.KafscaleCluster
	if !adopted && rapid.IntRange(0, 2).Draw(t, "withHistory") > 0 {
		earlier = c42Cluster(t, c42Opts{})
		earlier.Name, earlier.Namespace, earlier.UID = cluster.Name, cluster.Namespace, cluster.UID
		earlier.Spec.Etcd.Endpoints = append([]string(nil), cluster.Spec.Etcd.Endpoints...)
		if rapid.Bool().Draw(t, "historyKeepsLfsEnabled") {
			earlier.Spec.LfsProxy.Enabled = cluster.Spec.LfsProxy.Enabled
		}
		if vfkit.Known(c42FindNotCleared) {
			// excluded by construction: a Service field of the listed finding that the earlier spec set
			// and the final spec leaves empty
			es, fs := &earlier.Spec.Brokers.Service, &cluster.Spec.Brokers.Service
			steered := false
			if len(fs.Annotations) == 0 && len(es.Annotations) > 0 {
				es.Annotations, steered = nil, true
			}
			if strings.TrimSpace(fs.LoadBalancerIP) == "" && strings.TrimSpace(es.LoadBalancerIP) != "" {
				es.LoadBalancerIP, steered = "", true
			}
			if len(fs.LoadBalancerSourceRanges) == 0 && len(es.LoadBalancerSourceRanges) > 0 {
				es.LoadBalancerSourceRanges, steered = nil, true
			}
			if parseExternalTrafficPolicy(fs.ExternalTrafficPolicy) == "" && parseExternalTrafficPolicy(es.ExternalTrafficPolicy) != "" {
				es.ExternalTrafficPolicy, steered = "", true
			}
			if earlier.Spec.LfsProxy.Enabled && cluster.Spec.LfsProxy.Enabled &&
				len(cluster.Spec.LfsProxy.Service.LoadBalancerSourceRanges) == 0 && len(earlier.Spec.LfsProxy.Service.LoadBalancerSourceRanges) > 0 {
				earlier.Spec.LfsProxy.Service.LoadBalancerSourceRanges, steered = nil, true
			}
			if steered {
				st.ExcludedCase(c42FindNotCleared)
			}
		}
	}
	restore := c42ApplyEnv(env)
	defer restore()
	st.Eval()
	st.Class("mode-" + mode)
	st.Class(fmt.Sprintf("other-clusters-%d", len(others)))
	if cluster.Spec.LfsProxy.Enabled {
		st.Class("lfs-proxy-enabled")
	}
	if adopted {
		st.Class("preexisting-object-adopted")
	}
	describe := func() string {
		var sb strings.Builder
		fmt.Fprintf(&sb, "cluster %s/%s (mode %s) spec: %s\nenv: %v", cluster.Namespace, cluster.Name, mode, c42JSON(cluster.Spec), env)
		for _, o := range others {
			fmt.Fprintf(&sb, "\nother cluster %s/%s spec: %s", o.Namespace, o.Name, c42JSON(o.Spec))
		}
		return sb.String()
	}

	withOthers := append([]client.Object{}, extras...)
	for _, o := range others {
		withOthers = append(withOthers, o)
	}
	world := c42NewWorld(scheme, cluster, withOthers, mode)
	// everything that is not another cluster's resource or owned by another cluster
	mine := func(o client.Object) bool {
		for _, other := range others {
			if c42BelongsTo(o, other) {
				return false
			}
		}
		return true
	}
	var dumps []c42Dump
	for i := 0; i < 3; i++ {
		cctx, cancel := context.WithTimeout(ctx, 60*time.Second)
		err := world.reconcile(cctx)
		cancel()
		if err != nil {
			st.Class("reconcile-returned-error")
			st.Note("last_reconcile_error", err.Error())
		}
		d, derr := c42DumpAll(ctx, world.c, scheme)
		if derr != nil {
			t.Fatalf("VF-INCONCLUSIVE: dump: %v", derr)
		}
		dumps = append(dumps, d)
		// between the passes the operator reconciles the other clusters
		if i < 2 && len(others) > 0 {
			o := others[i%len(others)]
			cctx, cancel := context.WithTimeout(ctx, 60*time.Second)
			if err := world.reconcileKey(cctx, types.NamespacedName{Namespace: o.Namespace, Name: o.Name}); err != nil {
				st.Class("reconcile-returned-error")
			}
			cancel()
		}
	}
	owned := 0
	kinds := map[string]bool{}
	for k, o := range dumps[0] {
		if c42Owned(o) && c42BelongsTo(o, cluster) {
			owned++
			kinds[strings.Split(k, "/")[len(strings.Split(k, "/"))-3]] = true
		}
	}
	if owned == 0 {
		return fmt.Sprintf("reconcile generated no owned objects (mode %s): %d objects in the fake API server", mode, len(dumps[0]))
	}
	st.Class(fmt.Sprintf("generated-objects-%02d", owned))
	between := "second reconcile of the unchanged cluster"
	if len(others) > 0 {
		between = "second reconcile of the unchanged cluster (another cluster was reconciled in between)"
	}
	if d := c42DiffDumps(dumps[0], dumps[1], mine); d != "" {
		return fmt.Sprintf("%s changed an object: %s\n%s", between, d, describe())
	}
	if d := c42DiffDumps(dumps[1], dumps[2], mine); d != "" {
		return fmt.Sprintf("third reconcile of the unchanged cluster (others reconciled in between: %d) changed an object: %s\n%s", len(others), d, describe())
	}
	// determinism: a fresh API server with the same objects (and no other clusters) ends in the same state
	again := c42NewWorld(scheme, cluster, extras, mode)
	_ = again.reconcile(ctx)
	d2, derr := c42DumpAll(ctx, again.c, scheme)
	if derr != nil {
		t.Fatalf("VF-INCONCLUSIVE: dump: %v", derr)
	}
	if d := c42DiffDumps(dumps[0], d2, mine); d != "" {
		return fmt.Sprintf("two fresh API servers given the same cluster resource and environment ended differently (first: %d other cluster resources present, second: none): %s\n%s", len(others), d, describe())
	}
	// depends only on the cluster resource and the environment: without the unrelated objects
	// (topics, secret, legacy deployment, other clusters) the generated objects are the same
	if !adopted {
		bare := c42NewWorld(scheme, cluster, nil, mode)
		_ = bare.reconcile(ctx)
		d3, derr := c42DumpAll(ctx, bare.c, scheme)
		if derr != nil {
			t.Fatalf("VF-INCONCLUSIVE: dump: %v", derr)
		}
		ownedByMe := func(o client.Object) bool { return c42Owned(o) && c42BelongsTo(o, cluster) }
		if d := c42DiffDumps(dumps[2], d3, ownedByMe); d != "" {
			return fmt.Sprintf("generated objects depend on something other than the cluster resource and environment (unrelated objects removed: %d, other clusters: %d): %s\n%s", len(extras), len(others), d, describe())
		}
	}
	// depends only on the cluster resource: an API server where the resource had another spec first
	// (reconciled, then edited to the final spec and reconciled again) must end with the same
	// generated objects as a fresh one
	if earlier != nil {
		st.Class("spec-edit-history")
		if msg := c42HistoryDiff(ctx, scheme, earlier, cluster, extras, mode, d2); msg != "" {
			if strings.HasPrefix(msg, "VF-INCONCLUSIVE") {
				fmt.Println(msg)
				t.Fatalf("%s", msg)
			}
			return msg + "\n" + describe() + "\nearlier spec: " + c42JSON(earlier.Spec)
		}
	}
	if cluster.Spec.LfsProxy.Enabled || mode == "managed" {
		kl := make([]string, 0, len(kinds))
		for k := range kinds {
			kl = append(kl, k)
		}
		sort.Strings(kl)
		if st.NonTrivial(mode, c42JSON(cluster.Spec), cluster.Name, cluster.Namespace, fmt.Sprint(env), len(others)) {
			st.Sample(map[string]any{"mode": mode, "name": cluster.Namespace + "/" + cluster.Name, "generated_kinds": kl, "generated_objects": owned,
				"lfs": cluster.Spec.LfsProxy.Enabled, "other_clusters": len(others)})
		}
	}
	return ""
}

func TestVF_C42_Idempotent(t *testing.T) {
	st := vfkit.NewStats("C42", "idempotent")
	defer st.Flush()
	scheme, err := c42Scheme()
	if err != nil {
		fmt.Println("VF-INCONCLUSIVE: scheme:", err)
		t.Fatalf("VF-INCONCLUSIVE: scheme: %v", err)
	}
	endpoints := testutil.StartEmbeddedEtcd(t)
	if len(endpoints) == 0 {
		fmt.Println("VF-INCONCLUSIVE: embedded etcd did not start")
		t.Fatalf("VF-INCONCLUSIVE: embedded etcd did not start")
	}
	ctx := context.Background()

	rapid.Check(t, func(t *rapid.T) {
		msg := c42Sticky
		if msg == "" {
			if msg = c42OneCase(t, st, ctx, scheme, endpoints); msg != "" {
				fmt.Println("C42 violation detected:", msg)
				c42Sticky = "[first detected by an earlier evaluation in this process; operator state leaking between reconciles cannot be re-triggered, so the case printed by rapid below is not the witness] " + msg
			}
		}
		if msg != "" {
			t.Fatalf("%s", msg) // single call site: rapid compares tracebacks to tell a failure from a flaky test
		}
	})
}

// TestVF_C42_Witness replays the listed finding: Service fields removed from the spec stay on the live Service.
func TestVF_C42_Witness(t *testing.T) {
	st := vfkit.NewStats("C42", "witness")
	defer st.Flush()
	scheme, err := c42Scheme()
	if err != nil {
		fmt.Println("VF-INCONCLUSIVE: scheme:", err)
		t.Fatalf("VF-INCONCLUSIVE: scheme: %v", err)
	}
	restore := c42ApplyEnv(map[string]string{operatorEtcdSnapshotSkipPreflightEnv: "true", operatorEtcdSilenceLogsEnv: "true"})
	defer restore()
	ctx := context.Background()
	st.Eval()
	three := int32(3)
	final := &kafscalev1alpha1.KafscaleCluster{}
	final.Namespace, final.Name = "default", "demo"
	final.Spec.Brokers.Replicas = &three
	final.Spec.Brokers.Service.Type = "LoadBalancer"
	final.Spec.S3.Bucket, final.Spec.S3.Region = "bucket", "us-east-1"
	earlier := final.DeepCopy()
	earlier.Spec.Brokers.Service.Annotations = map[string]string{"cloud.example.com/lb-scheme": "internet-facing"}
	earlier.Spec.Brokers.Service.LoadBalancerIP = "203.0.113.10"
	earlier.Spec.Brokers.Service.LoadBalancerSourceRanges = []string{"203.0.113.0/24"}
	earlier.Spec.Brokers.Service.ExternalTrafficPolicy = "Local"
	fresh := c42NewWorld(scheme, final, nil, "managed")
	if err := fresh.reconcile(ctx); err != nil {
		t.Fatalf("VF-INCONCLUSIVE: reconcile: %v", err)
	}
	df, err := c42DumpAll(ctx, fresh.c, scheme)
	if err != nil {
		t.Fatalf("VF-INCONCLUSIVE: dump: %v", err)
	}
	msg := c42HistoryDiff(ctx, scheme, earlier, final, nil, "managed", df)
	if strings.HasPrefix(msg, "VF-INCONCLUSIVE") {
		fmt.Println(msg)
		t.Fatalf("%s", msg)
	}
	still := strings.Contains(msg, "depend on the resource's history")
	if len(msg) > 900 {
		msg = msg[:900] + "..."
	}
	st.KnownResult(c42FindNotCleared, still, "spec.brokers.service {annotations, loadBalancerIP, loadBalancerSourceRanges, externalTrafficPolicy} set, reconciled, removed, reconciled: "+msg)
	t.Logf("%s: stillFails=%v %s", c42FindNotCleared, still, msg)
}
