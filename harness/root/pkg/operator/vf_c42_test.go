//go:build verif

package operator

import (
	"context"
	"fmt"
	"os"
	"sort"
	"strings"
	"testing"
	"time"

	appsv1 "k8s.io/api/apps/v1"
	corev1 "k8s.io/api/core/v1"
	metav1 "k8s.io/apimachinery/pkg/apis/meta/v1"
	"k8s.io/apimachinery/pkg/runtime"
	"k8s.io/apimachinery/pkg/types"
	"k8s.io/apimachinery/pkg/util/intstr"
	"pgregory.net/rapid"
	"sigs.k8s.io/controller-runtime/pkg/client"
	"sigs.k8s.io/controller-runtime/pkg/client/fake"
	"sigs.k8s.io/controller-runtime/pkg/reconcile"
	"verif.local/vfkit"

	kafscalev1alpha1 "github.com/KafScale/platform/api/v1alpha1"
	"github.com/KafScale/platform/internal/testutil"
)

// C42: reconciling the same cluster resource again without changes leaves every generated
// object unchanged; rendered objects depend only on the cluster resource and the
// operator's environment.
//
// external / external-env mode: the real ClusterReconciler.Reconcile against a fake API
// server and an embedded etcd (S3 preflight skipped like the repo's own test).
// managed mode: the same step sequence as Reconcile (EnsureEtcd rendering the managed etcd
// objects, broker StatefulSet, services, LFS proxy, HPA, status) without the two steps that
// need a reachable managed etcd (health poll, snapshot publish).

var c42EnvChoices = map[string][]string{
	operatorEtcdImageEnv:                       {"", "", "quay.io/coreos/etcd:v3.5.9"},
	operatorEtcdReplicasEnv:                    {"", "", "1", "5", "abc", "0"},
	operatorEtcdStorageEnv:                     {"", "", "20Gi"},
	operatorEtcdClassEnv:                       {"", "", "fast-ssd"},
	operatorEtcdStorageMemoryEnv:               {"", "", "true"},
	operatorEtcdSnapshotBucketEnv:              {"", "", "my-snapshots"},
	operatorEtcdSnapshotPrefixEnv:              {"", "", "/custom/prefix/"},
	operatorEtcdSnapshotScheduleEnv:            {"", "", "*/30 * * * *"},
	operatorEtcdSnapshotEndpointEnv:            {"", "", "http://minio.minio:9000"},
	operatorEtcdSnapshotCreateBucketEnv:        {"", "", "true"},
	operatorEtcdSnapshotProtectBucketEnv:       {"", "", "true"},
	operatorEtcdSnapshotStaleAfterEnv:          {"", "", "60"},
	operatorEtcdQuotaBackendBytesEnv:           {"", "", "8589934592", "junk"},
	operatorEtcdAutoCompactionRetentionEnv:     {"", "", "10m"},
	operatorEtcdAutoCompactionModeEnv:          {"", "", "revision"},
	operatorEtcdMaintenanceScheduleEnv:         {"", "", "0 3 * * *"},
	operatorEtcdMaintenanceCheckScheduleEnv:    {"", "", "*/5 * * * *"},
	operatorEtcdMaintenanceEnabledEnv:          {"", "", "false", "true"},
	operatorEtcdMaintenanceSizeThresholdPctEnv: {"", "", "50"},
	operatorEtcdDefragScheduleEnv:              {"", "", "0 4 * * *"},
	operatorEtcdDefragEnabledEnv:               {"", "", "false"},
	"KAFSCALE_ACL_ENABLED":                     {"", "", "true"},
	"KAFSCALE_ACL_JSON":                        {"", "", `{"default":"deny"}`},
	"KAFSCALE_LOG_LEVEL":                       {"", "", "debug"},
	"KAFSCALE_PROXY_PROTOCOL":                  {"", "", "true"},
	"KAFSCALE_PRINCIPAL_SOURCE":                {"", "", "client_id"},
}

func c42EnvKeys() []string {
	keys := make([]string, 0, len(c42EnvChoices))
	for k := range c42EnvChoices {
		keys = append(keys, k)
	}
	sort.Strings(keys)
	return keys
}

// c42ApplyEnv sets the drawn operator environment and returns a restore func.
func c42ApplyEnv(env map[string]string) func() {
	type saved struct {
		val string
		ok  bool
	}
	old := map[string]saved{}
	keys := append(c42EnvKeys(), operatorEtcdEndpointsEnv, operatorEtcdSnapshotSkipPreflightEnv, operatorEtcdSilenceLogsEnv)
	for _, k := range keys {
		v, ok := os.LookupEnv(k)
		old[k] = saved{v, ok}
		_ = os.Unsetenv(k)
	}
	for k, v := range env {
		if v != "" {
			_ = os.Setenv(k, v)
		}
	}
	return func() {
		for k, s := range old {
			if s.ok {
				_ = os.Setenv(k, s.val)
			} else {
				_ = os.Unsetenv(k)
			}
		}
	}
}

type c42World struct {
	c      client.Client
	r      *ClusterReconciler
	scheme *runtime.Scheme
	key    types.NamespacedName
	mode   string
}

func c42NewWorld(scheme *runtime.Scheme, cluster *kafscalev1alpha1.KafscaleCluster, extras []client.Object, mode string) *c42World {
	objs := []client.Object{cluster.DeepCopy()}
	for _, e := range extras {
		objs = append(objs, e.DeepCopyObject().(client.Object))
	}
	c := fake.NewClientBuilder().WithScheme(scheme).WithStatusSubresource(&kafscalev1alpha1.KafscaleCluster{}).WithObjects(objs...).Build()
	return &c42World{c: c, scheme: scheme, mode: mode, key: types.NamespacedName{Namespace: cluster.Namespace, Name: cluster.Name},
		r: &ClusterReconciler{Client: c, Scheme: scheme, Publisher: NewSnapshotPublisher(c)}}
}

func (w *c42World) reconcile(ctx context.Context) error {
	if w.mode != "managed" {
		_, err := w.r.Reconcile(ctx, reconcile.Request{NamespacedName: w.key})
		return err
	}
	var cluster kafscalev1alpha1.KafscaleCluster
	if err := w.c.Get(ctx, w.key, &cluster); err != nil {
		return err
	}
	res, err := EnsureEtcd(ctx, w.c, w.scheme, &cluster)
	if err != nil {
		return err
	}
	if err := w.r.verifySnapshotS3Access(ctx, &cluster, res); err != nil {
		return err
	}
	w.r.populateEtcdSnapshotStatus(ctx, &cluster, res)
	w.r.populateEtcdMaintenanceStatus(ctx, &cluster, res)
	if err := w.r.deleteLegacyBrokerDeployment(ctx, &cluster); err != nil {
		return err
	}
	if err := w.r.reconcileBrokerDeployment(ctx, &cluster, res.Endpoints); err != nil {
		return err
	}
	if err := w.r.reconcileBrokerHeadlessService(ctx, &cluster); err != nil {
		return err
	}
	if err := w.r.reconcileBrokerService(ctx, &cluster); err != nil {
		return err
	}
	if err := w.r.reconcileLfsProxyResources(ctx, &cluster, res.Endpoints); err != nil {
		return err
	}
	if err := w.r.reconcileBrokerHPA(ctx, &cluster); err != nil {
		return err
	}
	return w.r.updateStatus(ctx, &cluster, metav1.ConditionTrue, "Ready", "Reconciled")
}

func TestVF_C42_Idempotent(t *testing.T) {
	st := vfkit.NewStats("C42", "idempotent")
	defer st.Flush()
	scheme, err := c42Scheme()
	if err != nil {
		fmt.Println("VF-INCONCLUSIVE: scheme:", err)
		t.Fatalf("VF-INCONCLUSIVE: scheme: %v", err)
	}
	endpoints := testutil.StartEmbeddedEtcd(t)
	if len(endpoints) == 0 {
		fmt.Println("VF-INCONCLUSIVE: embedded etcd did not start")
		t.Fatalf("VF-INCONCLUSIVE: embedded etcd did not start")
	}
	ctx := context.Background()

	rapid.Check(t, func(t *rapid.T) {
		cluster := c42Cluster(t, c42Opts{allowUnsetReplicas: true})
		mode := rapid.SampledFrom([]string{"external", "external", "external-env", "managed", "managed", "managed"}).Draw(t, "mode")
		env := map[string]string{}
		for _, k := range c42EnvKeys() {
			env[k] = rapid.SampledFrom(c42EnvChoices[k]).Draw(t, k)
		}
		env[operatorEtcdSnapshotSkipPreflightEnv] = "true"
		env[operatorEtcdSilenceLogsEnv] = "true"
		switch mode {
		case "external":
			cluster.Spec.Etcd.Endpoints = append([]string{" " + endpoints[0] + " "}, endpoints[1:]...)
			if rapid.Bool().Draw(t, "dupEndpoint") {
				cluster.Spec.Etcd.Endpoints = append(cluster.Spec.Etcd.Endpoints, endpoints[0], "")
			}
		case "external-env":
			env[operatorEtcdEndpointsEnv] = strings.Join(endpoints, ",")
		}
		var extras []client.Object
		for _, tp := range c42Topics(t, cluster) {
			tp := tp
			extras = append(extras, &tp)
		}
		if rapid.Bool().Draw(t, "secret") {
			extras = append(extras, &corev1.Secret{ObjectMeta: metav1.ObjectMeta{Name: "creds", Namespace: cluster.Namespace},
				Data: map[string][]byte{"AWS_ACCESS_KEY_ID": []byte("ak"), "AWS_SECRET_ACCESS_KEY": []byte("sk")}})
		}
		if rapid.IntRange(0, 3).Draw(t, "legacyDeployment") == 2 {
			extras = append(extras, &appsv1.Deployment{ObjectMeta: metav1.ObjectMeta{Name: cluster.Name + "-broker", Namespace: cluster.Namespace}})
		}
		adopted := rapid.IntRange(0, 4).Draw(t, "preexistingService") == 3
		if adopted {
			// an object of a generated name already exists (created by hand / an older operator version)
			extras = append(extras, &corev1.Service{ObjectMeta: metav1.ObjectMeta{Name: cluster.Name + "-broker", Namespace: cluster.Namespace,
				Labels: map[string]string{"owner": "someone"}, Annotations: map[string]string{"old": "annotation"}},
				Spec: corev1.ServiceSpec{Ports: []corev1.ServicePort{{Name: "legacy", Port: 1234, TargetPort: intstr.FromInt(1234)}}, Selector: map[string]string{"app": "old"}}})
		}
		restore := c42ApplyEnv(env)
		defer restore()
		st.Eval()
		st.Class("mode-" + mode)
		if cluster.Spec.LfsProxy.Enabled {
			st.Class("lfs-proxy-enabled")
		}
		if adopted {
			st.Class("preexisting-object-adopted")
		}

		world := c42NewWorld(scheme, cluster, extras, mode)
		var dumps []c42Dump
		for i := 0; i < 3; i++ {
			cctx, cancel := context.WithTimeout(ctx, 60*time.Second)
			err := world.reconcile(cctx)
			cancel()
			if err != nil {
				st.Class("reconcile-returned-error")
				st.Note("last_reconcile_error", err.Error())
			}
			d, derr := c42DumpAll(ctx, world.c, scheme)
			if derr != nil {
				t.Fatalf("VF-INCONCLUSIVE: dump: %v", derr)
			}
			dumps = append(dumps, d)
		}
		owned := 0
		kinds := map[string]bool{}
		for k, o := range dumps[0] {
			if c42Owned(o) {
				owned++
				kinds[strings.Split(k, "/")[len(strings.Split(k, "/"))-3]] = true
			}
		}
		if owned == 0 {
			t.Fatalf("reconcile generated no owned objects (mode %s): %d objects in the fake API server", mode, len(dumps[0]))
		}
		st.Class(fmt.Sprintf("generated-objects-%02d", owned))
		if d := c42DiffDumps(dumps[0], dumps[1], nil); d != "" {
			t.Fatalf("second reconcile of the unchanged cluster %s/%s (mode %s) changed an object: %s\nspec: %s\nenv: %v", cluster.Namespace, cluster.Name, mode, d, c42JSON(cluster.Spec), env)
		}
		if d := c42DiffDumps(dumps[1], dumps[2], nil); d != "" {
			t.Fatalf("third reconcile of the unchanged cluster %s/%s (mode %s) changed an object: %s\nspec: %s\nenv: %v", cluster.Namespace, cluster.Name, mode, d, c42JSON(cluster.Spec), env)
		}
		// determinism: a fresh API server with the same objects ends in the same state
		again := c42NewWorld(scheme, cluster, extras, mode)
		_ = again.reconcile(ctx)
		d2, derr := c42DumpAll(ctx, again.c, scheme)
		if derr != nil {
			t.Fatalf("VF-INCONCLUSIVE: dump: %v", derr)
		}
		if d := c42DiffDumps(dumps[0], d2, nil); d != "" {
			t.Fatalf("two fresh API servers given the same cluster resource and environment (mode %s) ended differently: %s\nspec: %s\nenv: %v", mode, d, c42JSON(cluster.Spec), env)
		}
		// depends only on the cluster resource and the environment: without the unrelated objects
		// (topics, secret, legacy deployment) the generated objects are the same
		if !adopted {
			bare := c42NewWorld(scheme, cluster, nil, mode)
			_ = bare.reconcile(ctx)
			d3, derr := c42DumpAll(ctx, bare.c, scheme)
			if derr != nil {
				t.Fatalf("VF-INCONCLUSIVE: dump: %v", derr)
			}
			if d := c42DiffDumps(dumps[0], d3, c42Owned); d != "" {
				t.Fatalf("generated objects depend on something other than the cluster resource and environment (mode %s; unrelated objects removed: %d): %s\nspec: %s\nenv: %v", mode, len(extras), d, c42JSON(cluster.Spec), env)
			}
		}
		if cluster.Spec.LfsProxy.Enabled || mode == "managed" {
			kl := make([]string, 0, len(kinds))
			for k := range kinds {
				kl = append(kl, k)
			}
			sort.Strings(kl)
			if st.NonTrivial(mode, c42JSON(cluster.Spec), cluster.Name, cluster.Namespace, fmt.Sprint(env)) {
				st.Sample(map[string]any{"mode": mode, "name": cluster.Namespace + "/" + cluster.Name, "generated_kinds": kl, "generated_objects": owned, "lfs": cluster.Spec.LfsProxy.Enabled})
			}
		}
	})
}
