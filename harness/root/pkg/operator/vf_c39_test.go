//go:build verif

package operator

import (
	"context"
	"encoding/json"
	"fmt"
	"net"
	"os"
	"strings"
	"testing"
	"time"

	clientv3 "go.etcd.io/etcd/client/v3"
	appsv1 "k8s.io/api/apps/v1"
	corev1 "k8s.io/api/core/v1"
	"pgregory.net/rapid"
	"sigs.k8s.io/controller-runtime/pkg/client"
	"sigs.k8s.io/controller-runtime/pkg/client/fake"
	"verif.local/vfkit"

	kafscalev1alpha1 "github.com/KafScale/platform/api/v1alpha1"
	"github.com/KafScale/platform/internal/testutil"
	"github.com/KafScale/platform/pkg/metadata"
	"github.com/KafScale/platform/pkg/protocol"
)

// C39: (a) BuildClusterMetadata lists one broker per broker replica of the spec, broker i
// carrying pod i's stable address; every partition leader is one of those brokers;
// partitions are numbered 0..k-1; (b) every bucket name the operator derives for etcd
// snapshots is a valid S3 bucket name.
//
// The stable pod address is not re-typed from the implementation: it is derived from the
// objects the reconciler itself renders into a fake API server (broker StatefulSet name and
// serviceName, the headless Service of that name, the namespace), i.e. the DNS name
// Kubernetes gives pod <statefulset>-<i> of a StatefulSet governed by a headless Service.

const c39FindBucketLen = "C39-snapshot-bucket-longer-than-63"
const c39FindNilReplicas = "C39-nil-replicas-publishes-one"

// c39BucketProblem validates against the S3 general-purpose bucket naming rules.
func c39BucketProblem(b string, checkMax bool) string {
	if len(b) < 3 || (checkMax && len(b) > 63) {
		return fmt.Sprintf("length %d is outside 3..63", len(b))
	}
	for _, r := range b {
		if !(r >= 'a' && r <= 'z' || r >= '0' && r <= '9' || r == '-' || r == '.') {
			return fmt.Sprintf("character %q is not allowed", r)
		}
	}
	alnum := func(c byte) bool { return c >= 'a' && c <= 'z' || c >= '0' && c <= '9' }
	if !alnum(b[0]) || !alnum(b[len(b)-1]) {
		return "does not begin and end with a letter or digit"
	}
	if strings.Contains(b, "..") {
		return "contains two adjacent periods"
	}
	if ip := net.ParseIP(b); ip != nil && ip.To4() != nil {
		return "is formatted as an IP address"
	}
	return ""
}

func c39DerivedLen(cluster *kafscalev1alpha1.KafscaleCluster) int {
	return len(defaultSnapshotBucketPrefix) + 1 + len(cluster.Namespace) + 1 + len(cluster.Name)
}

// c39PodAddrs renders the broker StatefulSet and headless Service with the reconciler's own
// code into a fake API server and derives the stable pod addresses from those objects.
// c39Pods is where the deployed broker pods can be reached, derived from the rendered objects.
type c39Pods struct {
	addr     func(int32) string // stable DNS name of pod i
	port     int32              // the port the pods listen on for Kafka clients (container port "kafka")
	replicas int32              // replicas of the rendered broker StatefulSet
}

func c39PodAddrs(ctx context.Context, cluster *kafscalev1alpha1.KafscaleCluster) (pods c39Pods, stsReplicas *int32, problem string) {
	scheme, err := c42Scheme()
	if err != nil {
		return c39Pods{}, nil, "VF-INCONCLUSIVE: scheme: " + err.Error()
	}
	c := fake.NewClientBuilder().WithScheme(scheme).WithObjects(cluster.DeepCopy()).Build()
	r := &ClusterReconciler{Client: c, Scheme: scheme}
	if err := r.reconcileBrokerDeployment(ctx, cluster, []string{"http://etcd:2379"}); err != nil {
		return c39Pods{}, nil, "VF-INCONCLUSIVE: reconcileBrokerDeployment: " + err.Error()
	}
	if err := r.reconcileBrokerHeadlessService(ctx, cluster); err != nil {
		return c39Pods{}, nil, "VF-INCONCLUSIVE: reconcileBrokerHeadlessService: " + err.Error()
	}
	var stsList appsv1.StatefulSetList
	if err := c.List(ctx, &stsList, client.InNamespace(cluster.Namespace)); err != nil || len(stsList.Items) != 1 {
		return c39Pods{}, nil, fmt.Sprintf("VF-INCONCLUSIVE: expected exactly one broker StatefulSet, got %d (%v)", len(stsList.Items), err)
	}
	sts := stsList.Items[0]
	var svc corev1.Service
	if err := c.Get(ctx, client.ObjectKey{Namespace: sts.Namespace, Name: sts.Spec.ServiceName}, &svc); err != nil {
		return c39Pods{}, nil, fmt.Sprintf("broker StatefulSet %s is governed by service %q which the operator does not render: %v", sts.Name, sts.Spec.ServiceName, err)
	}
	if svc.Spec.ClusterIP != corev1.ClusterIPNone {
		return c39Pods{}, nil, fmt.Sprintf("governing service %s is not headless (clusterIP %q): pods get no stable DNS names", svc.Name, svc.Spec.ClusterIP)
	}
	for k, v := range svc.Spec.Selector {
		if sts.Spec.Template.Labels[k] != v {
			return c39Pods{}, nil, fmt.Sprintf("headless service selector %v does not select the broker pods (labels %v)", svc.Spec.Selector, sts.Spec.Template.Labels)
		}
	}
	// the Kafka port of the pods: the container port named "kafka", which the headless Service's "kafka" port targets
	var kafkaPort int32
	for _, ct := range sts.Spec.Template.Spec.Containers {
		for _, cp := range ct.Ports {
			if cp.Name == "kafka" {
				kafkaPort = cp.ContainerPort
			}
		}
	}
	svcTargetsKafka := false
	for _, sp := range svc.Spec.Ports {
		if sp.TargetPort.String() == "kafka" || (kafkaPort != 0 && sp.TargetPort.IntValue() == int(kafkaPort)) {
			svcTargetsKafka = true
		}
	}
	if kafkaPort == 0 || !svcTargetsKafka {
		return c39Pods{}, nil, fmt.Sprintf("broker pods expose no container port named kafka (%d) targeted by the headless service %v", kafkaPort, svc.Spec.Ports)
	}
	deployed := int32(1) // Kubernetes default for an unset StatefulSet replica count
	if sts.Spec.Replicas != nil {
		deployed = *sts.Spec.Replicas
	}
	return c39Pods{port: kafkaPort, replicas: deployed, addr: func(i int32) string {
		return fmt.Sprintf("%s-%d.%s.%s.svc.cluster.local", sts.Name, i, sts.Spec.ServiceName, sts.Namespace)
	}}, sts.Spec.Replicas, ""
}

// c39CheckPublished asserts what C39 states on a published metadata document: one broker per
// spec replica, broker i at pod i's stable address (or the advertised host for a single
// replica); every partition leader of EVERY listed topic is one of those brokers; partition
// ids of every listed topic are exactly 0..k-1. For the declared topics k == declared
// (exactCount: freshly rendered) or k >= declared (republished over an existing snapshot:
// partition counts never shrink). n >= 1 is required.
func c39CheckPublished(meta metadata.ClusterMetadata, cluster *kafscalev1alpha1.KafscaleCluster, pods c39Pods, declared []kafscalev1alpha1.KafscaleTopic, exactCount bool, info map[string]any) string {
	podAddr := pods.addr
	// the replicas of the spec; when the spec leaves them unset, the replicas the operator deploys for it
	n := pods.replicas
	if r := cluster.Spec.Brokers.Replicas; r != nil {
		n = *r
	}
	if int32(len(meta.Brokers)) != n {
		return fmt.Sprintf("spec has %d broker replicas but the metadata lists %d brokers", n, len(meta.Brokers))
	}
	byID := map[int32]string{}
	portByID := map[int32]int32{}
	for _, b := range meta.Brokers {
		if _, dup := byID[b.NodeID]; dup {
			return fmt.Sprintf("metadata lists broker id %d twice", b.NodeID)
		}
		byID[b.NodeID] = b.Host
		portByID[b.NodeID] = b.Port
	}
	adv := strings.TrimSpace(cluster.Spec.Brokers.AdvertisedHost)
	advPort := int32(0)
	if p := cluster.Spec.Brokers.AdvertisedPort; p != nil && *p > 0 {
		advPort = *p
	}
	for i := int32(0); i < n; i++ {
		host, ok := byID[i]
		if !ok {
			return fmt.Sprintf("metadata has no broker for replica (pod ordinal) %d; ids: %v", i, byID)
		}
		if host == podAddr(i) {
			// a pod's stable address is <pod dns>:<kafka container port>; only an explicit
			// spec.brokers.advertisedPort may replace the port
			if port := portByID[i]; port != pods.port && (advPort == 0 || port != advPort) {
				return fmt.Sprintf("broker %d is published at %s:%d, but pod %d listens on port %d (advertisedPort %d, service type %q, kafkaNodePort %v)", i, host, port, i, pods.port, advPort,
					cluster.Spec.Brokers.Service.Type, c42JSON(cluster.Spec.Brokers.Service.KafkaNodePort))
			}
			continue
		}
		if n == 1 && adv != "" && host == adv {
			info["advertised"] = true
			if port := portByID[i]; advPort != 0 && port != advPort {
				return fmt.Sprintf("broker 0 is published at the advertised host %s with port %d although spec.brokers.advertisedPort is %d", host, port, advPort)
			}
			continue
		}
		return fmt.Sprintf("broker %d is published at %q, but pod %d's stable address is %q (advertised host %q, replicas %d)", i, host, i, podAddr(i), adv, n)
	}
	ids := func(tp protocol.MetadataTopic) []int32 {
		out := make([]int32, 0, len(tp.Partitions))
		for _, p := range tp.Partitions {
			out = append(out, p.Partition)
		}
		return out
	}
	for _, tp := range meta.Topics {
		name := "<nil>"
		if tp.Topic != nil {
			name = *tp.Topic
		}
		seen := map[int32]bool{}
		for _, p := range tp.Partitions {
			if _, ok := byID[p.Leader]; !ok {
				return fmt.Sprintf("topic %s partition %d has leader %d which is not one of the %d published brokers", name, p.Partition, p.Leader, n)
			}
			if seen[p.Partition] {
				return fmt.Sprintf("topic %s lists partition %d twice: %v", name, p.Partition, ids(tp))
			}
			seen[p.Partition] = true
		}
		for i := int32(0); i < int32(len(tp.Partitions)); i++ {
			if !seen[i] {
				return fmt.Sprintf("topic %s has %d partitions but no partition numbered %d (gap): %v", name, len(tp.Partitions), i, ids(tp))
			}
		}
	}
	for _, want := range declared {
		found := false
		for _, tp := range meta.Topics {
			if tp.Topic != nil && *tp.Topic == want.Name {
				found = true
				got := int32(len(tp.Partitions))
				if exactCount && got != want.Spec.Partitions {
					return fmt.Sprintf("topic %s is declared with %d partitions but published with %d", want.Name, want.Spec.Partitions, got)
				}
				if !exactCount && got < want.Spec.Partitions {
					return fmt.Sprintf("topic %s is declared with %d partitions but published with only %d", want.Name, want.Spec.Partitions, got)
				}
			}
		}
		if !found {
			info["topic_missing"] = want.Name // statement is silent: statistic only
		}
	}
	return ""
}

// c39Check runs the oracle on one cluster resource + topic set; "" = property holds.
// skipLen: do not assert the upper length bound of the bucket (listed finding).
func c39Check(ctx context.Context, cluster *kafscalev1alpha1.KafscaleCluster, topics []kafscalev1alpha1.KafscaleTopic, skipLen, skipNil bool) (problem string, info map[string]any) {
	info = map[string]any{}
	pods, stsReplicas, problem := c39PodAddrs(ctx, cluster)
	if problem != "" {
		return problem, info
	}
	// --- what the operator publishes (Publish feeds the topics whose clusterRef matches, same namespace)
	var mine []kafscalev1alpha1.KafscaleTopic
	for _, tp := range topics {
		if tp.Namespace == cluster.Namespace && tp.Spec.ClusterRef == cluster.Name {
			mine = append(mine, tp)
		}
	}
	meta := BuildClusterMetadata(cluster, mine)
	info["brokers"] = len(meta.Brokers)
	info["topics"] = len(meta.Topics)

	specReplicas := cluster.Spec.Brokers.Replicas
	switch {
	case specReplicas != nil && *specReplicas >= 1:
		if stsReplicas == nil || *stsReplicas != *specReplicas {
			return fmt.Sprintf("spec asks for %d broker replicas but the StatefulSet is rendered with %v", *specReplicas, stsReplicas), info
		}
		if p := c39CheckPublished(meta, cluster, pods, mine, true, info); p != "" {
			return p, info
		}
	case specReplicas == nil && !skipNil && pods.replicas >= 1:
		// replicas left to the operator: the published brokers must match the pods it deploys for this spec
		info["replicas_defaulted"] = true
		if p := c39CheckPublished(meta, cluster, pods, mine, true, info); p != "" {
			return fmt.Sprintf("spec.brokers.replicas is unset and the operator deploys %d broker pods, but: %s", pods.replicas, p), info
		}
	default:
		info["replicas_unset"] = true // explicit 0 is rejected by the CRD (minimum 1), or the unset case is a listed finding: crash-freedom only
	}

	// --- derived bucket name (environment override unset: the name is derived, not configured)
	bucket := snapshotBucket(cluster)
	info["bucket"] = bucket
	// for inputs of the listed finding only the upper length bound is waived; every other rule still applies
	if p := c39BucketProblem(bucket, !skipLen); p != "" {
		return fmt.Sprintf("derived etcd snapshot bucket %q for %s/%s is not a valid S3 bucket name: %s", bucket, cluster.Namespace, cluster.Name, p), info
	}
	return "", info
}

func TestVF_C39_Metadata(t *testing.T) {
	st := vfkit.NewStats("C39", "metadata")
	defer st.Flush()
	_ = os.Unsetenv(operatorEtcdSnapshotBucketEnv)
	ctx := context.Background()
	rapid.Check(t, func(t *rapid.T) {
		cluster := c42Cluster(t, c42Opts{allowUnsetReplicas: true})
		topics := c42Topics(t, cluster)
		st.Eval()
		skipLen := false
		if c39DerivedLen(cluster) > 63 {
			st.Class("derived-bucket-input-longer-than-63")
			if vfkit.Known(c39FindBucketLen) {
				// excluded: exactly the inputs whose derived name kafscale-etcd-<ns>-<name> exceeds 63 characters;
				// only the length assertion is dropped for them
				skipLen = true
				st.ExcludedCase(c39FindBucketLen)
			}
		}
		skipNil := false
		if cluster.Spec.Brokers.Replicas == nil {
			st.Class("replicas-unset")
			if vfkit.Known(c39FindNilReplicas) {
				// excluded: exactly the specs that leave spec.brokers.replicas unset (broker assertions dropped, bucket still checked)
				skipNil = true
				st.ExcludedCase(c39FindNilReplicas)
			}
		}
		problem, info := c39Check(ctx, cluster, topics, skipLen, skipNil)
		replicas := int32(-1)
		if cluster.Spec.Brokers.Replicas != nil {
			replicas = *cluster.Spec.Brokers.Replicas
		}
		switch {
		case replicas < 1:
			st.Class("replicas-unset-or-zero")
		case replicas == 1:
			st.Class("replicas-1")
		default:
			st.Class("replicas-2+")
		}
		if info["advertised"] == true {
			st.Class("single-replica-advertised-host")
		}
		if strings.Contains(cluster.Name, ".") {
			st.Class("dotted-cluster-name")
		}
		if n, _ := info["topics"].(int); n > 0 {
			st.Class("has-topics")
		}
		if _, ok := info["topic_missing"]; ok {
			st.Class("declared-topic-not-published")
		}
		nt := (replicas >= 2 && info["topics"] != nil && info["topics"].(int) > 0) || len(cluster.Namespace)+len(cluster.Name) > 40
		if nt {
			if st.NonTrivial(cluster.Namespace, cluster.Name, replicas, cluster.Spec.Brokers.AdvertisedHost, fmt.Sprint(topics)) {
				st.Sample(map[string]any{"namespace": cluster.Namespace, "name": cluster.Name, "replicas": replicas, "advertisedHost": cluster.Spec.Brokers.AdvertisedHost,
					"topics": info["topics"], "bucket": info["bucket"]})
			}
		}
		if strings.HasPrefix(problem, "VF-INCONCLUSIVE") {
			fmt.Println(problem)
		}
		if problem != "" {
			t.Fatalf("%s\ncluster %s/%s spec.brokers=%s", problem, cluster.Namespace, cluster.Name, c42JSON(cluster.Spec.Brokers))
		}
	})
}

func TestVF_C39_Witness(t *testing.T) {
	st := vfkit.NewStats("C39", "witness")
	defer st.Flush()
	_ = os.Unsetenv(operatorEtcdSnapshotBucketEnv)
	_ = os.Setenv(operatorEtcdSilenceLogsEnv, "true")
	ctx := context.Background()
	st.Eval()
	one := int32(1)
	cluster := &kafscalev1alpha1.KafscaleCluster{}
	cluster.Namespace = "production-streaming-platform" // 29 characters
	cluster.Name = "kafscale-orders-cluster"            // 23 characters
	cluster.Spec.Brokers.Replicas = &one
	problem, info := c39Check(ctx, cluster, nil, false, false)
	still := strings.Contains(problem, "not a valid S3 bucket name")
	st.KnownResult(c39FindBucketLen, still, fmt.Sprintf("namespace %q + cluster %q -> bucket %q (%d chars): %s", cluster.Namespace, cluster.Name, info["bucket"], len(fmt.Sprint(info["bucket"])), problem))
	if problem != "" && !still {
		t.Fatalf("witness failed for another reason: %s", problem)
	}
	t.Logf("%s: stillFails=%v %s", c39FindBucketLen, still, problem)

	// replicas unset: the operator deploys 3 pods but publishes 1 broker
	st.Eval()
	unset := &kafscalev1alpha1.KafscaleCluster{}
	unset.Namespace, unset.Name = "default", "demo"
	unset.Spec.Brokers.AdvertisedHost = "kafka.example.com"
	nilProblem, _ := c39Check(ctx, unset, nil, false, false)
	nilStill := strings.Contains(nilProblem, "spec.brokers.replicas is unset")
	st.KnownResult(c39FindNilReplicas, nilStill, "KafscaleCluster default/demo without spec.brokers.replicas, advertisedHost kafka.example.com: "+nilProblem)
	if nilProblem != "" && !nilStill {
		t.Fatalf("nil-replicas witness failed for another reason: %s", nilProblem)
	}
	t.Logf("%s: stillFails=%v %s", c39FindNilReplicas, nilStill, nilProblem)

	// scale-down after a topic resource was deleted: the topic is carried over from the existing
	// snapshot with the leaders it had under the old replica count
	st.Eval()
	scheme, err := c42Scheme()
	if err != nil {
		fmt.Println("VF-INCONCLUSIVE: scheme:", err)
		t.Fatalf("VF-INCONCLUSIVE: scheme: %v", err)
	}
	endpoints := testutil.StartEmbeddedEtcd(t)
	two := int32(2)
	demo := &kafscalev1alpha1.KafscaleCluster{}
	demo.Namespace, demo.Name = "default", "demo"
	demo.Spec.Brokers.Replicas = &two
	orders := &kafscalev1alpha1.KafscaleTopic{}
	orders.Namespace, orders.Name = "default", "orders"
	orders.Spec.ClusterRef, orders.Spec.Partitions = "demo", 2
	c1 := fake.NewClientBuilder().WithScheme(scheme).WithObjects(demo.DeepCopy(), orders).Build()
	if err := NewSnapshotPublisher(c1).Publish(ctx, demo, endpoints); err != nil {
		fmt.Println("VF-INCONCLUSIVE: publish:", err)
		t.Fatalf("VF-INCONCLUSIVE: publish: %v", err)
	}
	scaled := demo.DeepCopy()
	scaled.Spec.Brokers.Replicas = &one
	c2 := fake.NewClientBuilder().WithScheme(scheme).WithObjects(scaled.DeepCopy()).Build() // the orders resource is gone
	if err := NewSnapshotPublisher(c2).Publish(ctx, scaled, endpoints); err != nil {
		fmt.Println("VF-INCONCLUSIVE: publish:", err)
		t.Fatalf("VF-INCONCLUSIVE: publish: %v", err)
	}
	cli, err := clientv3.New(clientv3.Config{Endpoints: endpoints, DialTimeout: 5 * time.Second})
	if err != nil {
		t.Fatalf("VF-INCONCLUSIVE: etcd client: %v", err)
	}
	defer func() { _ = cli.Close() }()
	gctx, cancel := context.WithTimeout(ctx, 10*time.Second)
	defer cancel()
	resp, err := cli.Get(gctx, "/kafscale/metadata/snapshot")
	if err != nil || len(resp.Kvs) == 0 {
		t.Fatalf("VF-INCONCLUSIVE: read snapshot: %v", err)
	}
	var loaded metadata.ClusterMetadata
	if err := json.Unmarshal(resp.Kvs[0].Value, &loaded); err != nil {
		t.Fatalf("published snapshot does not decode: %v", err)
	}
	pods, _, p := c39PodAddrs(ctx, scaled)
	if p != "" {
		t.Fatalf("%s", p)
	}
	problem = c39CheckPublished(loaded, scaled, pods, nil, false, map[string]any{})
	still = strings.Contains(problem, "which is not one of the")
	st.KnownResult(c39FindStaleLeader, still, "publish(replicas=2, topic orders x2) ; orders resource deleted ; publish(replicas=1): "+problem)
	if problem != "" && !still {
		t.Fatalf("scale-down witness failed for another reason: %s", problem)
	}
	t.Logf("%s: stillFails=%v %s", c39FindStaleLeader, still, problem)
}
