//go:build verif

package operator

import (
	"context"
	"fmt"
	"net"
	"os"
	"strings"
	"testing"

	appsv1 "k8s.io/api/apps/v1"
	corev1 "k8s.io/api/core/v1"
	"pgregory.net/rapid"
	"sigs.k8s.io/controller-runtime/pkg/client"
	"sigs.k8s.io/controller-runtime/pkg/client/fake"
	"verif.local/vfkit"

	kafscalev1alpha1 "github.com/KafScale/platform/api/v1alpha1"
	"github.com/KafScale/platform/pkg/metadata"
)

// C39: (a) BuildClusterMetadata lists one broker per broker replica of the spec, broker i
// carrying pod i's stable address; every partition leader is one of those brokers;
// partitions are numbered 0..k-1; (b) every bucket name the operator derives for etcd
// snapshots is a valid S3 bucket name.
//
// The stable pod address is not re-typed from the implementation: it is derived from the
// objects the reconciler itself renders into a fake API server (broker StatefulSet name and
// serviceName, the headless Service of that name, the namespace), i.e. the DNS name
// Kubernetes gives pod <statefulset>-<i> of a StatefulSet governed by a headless Service.

const c39FindBucketLen = "C39-snapshot-bucket-longer-than-63"

// c39BucketProblem validates against the S3 general-purpose bucket naming rules.
func c39BucketProblem(b string, checkMax bool) string {
	if len(b) < 3 || (checkMax && len(b) > 63) {
		return fmt.Sprintf("length %d is outside 3..63", len(b))
	}
	for _, r := range b {
		if !(r >= 'a' && r <= 'z' || r >= '0' && r <= '9' || r == '-' || r == '.') {
			return fmt.Sprintf("character %q is not allowed", r)
		}
	}
	alnum := func(c byte) bool { return c >= 'a' && c <= 'z' || c >= '0' && c <= '9' }
	if !alnum(b[0]) || !alnum(b[len(b)-1]) {
		return "does not begin and end with a letter or digit"
	}
	if strings.Contains(b, "..") {
		return "contains two adjacent periods"
	}
	if ip := net.ParseIP(b); ip != nil && ip.To4() != nil {
		return "is formatted as an IP address"
	}
	return ""
}

func c39DerivedLen(cluster *kafscalev1alpha1.KafscaleCluster) int {
	return len(defaultSnapshotBucketPrefix) + 1 + len(cluster.Namespace) + 1 + len(cluster.Name)
}

// c39Check runs the oracle on one cluster resource + topic set; "" = property holds.
// skipLen: do not assert the upper length bound of the bucket (listed finding).
func c39Check(ctx context.Context, cluster *kafscalev1alpha1.KafscaleCluster, topics []kafscalev1alpha1.KafscaleTopic, skipLen bool) (problem string, info map[string]any) {
	info = map[string]any{}
	scheme, err := c42Scheme()
	if err != nil {
		return "VF-INCONCLUSIVE: scheme: " + err.Error(), info
	}
	// --- what the operator deploys
	c := fake.NewClientBuilder().WithScheme(scheme).WithObjects(cluster.DeepCopy()).Build()
	r := &ClusterReconciler{Client: c, Scheme: scheme}
	if err := r.reconcileBrokerDeployment(ctx, cluster, []string{"http://etcd:2379"}); err != nil {
		return "VF-INCONCLUSIVE: reconcileBrokerDeployment: " + err.Error(), info
	}
	if err := r.reconcileBrokerHeadlessService(ctx, cluster); err != nil {
		return "VF-INCONCLUSIVE: reconcileBrokerHeadlessService: " + err.Error(), info
	}
	var stsList appsv1.StatefulSetList
	if err := c.List(ctx, &stsList, client.InNamespace(cluster.Namespace)); err != nil || len(stsList.Items) != 1 {
		return fmt.Sprintf("VF-INCONCLUSIVE: expected exactly one broker StatefulSet, got %d (%v)", len(stsList.Items), err), info
	}
	sts := stsList.Items[0]
	var svc corev1.Service
	if err := c.Get(ctx, client.ObjectKey{Namespace: sts.Namespace, Name: sts.Spec.ServiceName}, &svc); err != nil {
		return fmt.Sprintf("broker StatefulSet %s is governed by service %q which the operator does not render: %v", sts.Name, sts.Spec.ServiceName, err), info
	}
	if svc.Spec.ClusterIP != corev1.ClusterIPNone {
		return fmt.Sprintf("governing service %s is not headless (clusterIP %q): pods get no stable DNS names", svc.Name, svc.Spec.ClusterIP), info
	}
	for k, v := range svc.Spec.Selector {
		if sts.Spec.Template.Labels[k] != v {
			return fmt.Sprintf("headless service selector %v does not select the broker pods (labels %v)", svc.Spec.Selector, sts.Spec.Template.Labels), info
		}
	}
	podAddr := func(i int32) string {
		return fmt.Sprintf("%s-%d.%s.%s.svc.cluster.local", sts.Name, i, sts.Spec.ServiceName, sts.Namespace)
	}

	// --- what the operator publishes (Publish feeds the topics whose clusterRef matches, same namespace)
	var mine []kafscalev1alpha1.KafscaleTopic
	for _, tp := range topics {
		if tp.Namespace == cluster.Namespace && tp.Spec.ClusterRef == cluster.Name {
			mine = append(mine, tp)
		}
	}
	var meta metadata.ClusterMetadata
	meta = BuildClusterMetadata(cluster, mine)
	info["brokers"] = len(meta.Brokers)
	info["topics"] = len(meta.Topics)

	specReplicas := cluster.Spec.Brokers.Replicas
	if specReplicas != nil && *specReplicas >= 1 {
		n := *specReplicas
		if sts.Spec.Replicas == nil || *sts.Spec.Replicas != n {
			return fmt.Sprintf("spec asks for %d broker replicas but the StatefulSet is rendered with %v", n, sts.Spec.Replicas), info
		}
		if int32(len(meta.Brokers)) != n {
			return fmt.Sprintf("spec has %d broker replicas but the metadata lists %d brokers", n, len(meta.Brokers)), info
		}
		byID := map[int32]string{}
		for _, b := range meta.Brokers {
			if _, dup := byID[b.NodeID]; dup {
				return fmt.Sprintf("metadata lists broker id %d twice", b.NodeID), info
			}
			byID[b.NodeID] = b.Host
		}
		adv := strings.TrimSpace(cluster.Spec.Brokers.AdvertisedHost)
		for i := int32(0); i < n; i++ {
			host, ok := byID[i]
			if !ok {
				return fmt.Sprintf("metadata has no broker for replica (pod ordinal) %d; ids: %v", i, byID), info
			}
			if host == podAddr(i) {
				continue
			}
			if n == 1 && adv != "" && host == adv {
				info["advertised"] = true
				continue
			}
			return fmt.Sprintf("broker %d is published at %q, but pod %d's stable address is %q (advertised host %q, replicas %d)", i, host, i, podAddr(i), adv, n), info
		}
		for _, tp := range meta.Topics {
			seen := map[int32]bool{}
			for _, p := range tp.Partitions {
				if _, ok := byID[p.Leader]; !ok {
					return fmt.Sprintf("topic %s partition %d has leader %d which is not one of the %d published brokers", *tp.Topic, p.Partition, p.Leader, n), info
				}
				if seen[p.Partition] {
					return fmt.Sprintf("topic %s lists partition %d twice", *tp.Topic, p.Partition), info
				}
				seen[p.Partition] = true
			}
			for i := int32(0); i < int32(len(tp.Partitions)); i++ {
				if !seen[i] {
					return fmt.Sprintf("topic %s has %d partitions but no partition numbered %d (gap)", *tp.Topic, len(tp.Partitions), i), info
				}
			}
		}
		for _, want := range mine {
			found := false
			for _, tp := range meta.Topics {
				if *tp.Topic == want.Name {
					found = true
					if int32(len(tp.Partitions)) != want.Spec.Partitions {
						return fmt.Sprintf("topic %s is declared with %d partitions but published with %d", want.Name, want.Spec.Partitions, len(tp.Partitions)), info
					}
				}
			}
			if !found {
				info["topic_missing"] = want.Name // statement is silent: statistic only
			}
		}
	} else {
		info["replicas_unset"] = true // below the CRD minimum / defaulted by the API server: crash-freedom only
	}

	// --- derived bucket name (environment override unset: the name is derived, not configured)
	bucket := snapshotBucket(cluster)
	info["bucket"] = bucket
	// for inputs of the listed finding only the upper length bound is waived; every other rule still applies
	if p := c39BucketProblem(bucket, !skipLen); p != "" {
		return fmt.Sprintf("derived etcd snapshot bucket %q for %s/%s is not a valid S3 bucket name: %s", bucket, cluster.Namespace, cluster.Name, p), info
	}
	return "", info
}

func TestVF_C39_Metadata(t *testing.T) {
	st := vfkit.NewStats("C39", "metadata")
	defer st.Flush()
	_ = os.Unsetenv(operatorEtcdSnapshotBucketEnv)
	ctx := context.Background()
	rapid.Check(t, func(t *rapid.T) {
		cluster := c42Cluster(t, c42Opts{allowUnsetReplicas: true})
		topics := c42Topics(t, cluster)
		st.Eval()
		skipLen := false
		if c39DerivedLen(cluster) > 63 {
			st.Class("derived-bucket-input-longer-than-63")
			if vfkit.Known(c39FindBucketLen) {
				// excluded: exactly the inputs whose derived name kafscale-etcd-<ns>-<name> exceeds 63 characters;
				// only the length assertion is dropped for them
				skipLen = true
				st.ExcludedCase(c39FindBucketLen)
			}
		}
		problem, info := c39Check(ctx, cluster, topics, skipLen)
		replicas := int32(-1)
		if cluster.Spec.Brokers.Replicas != nil {
			replicas = *cluster.Spec.Brokers.Replicas
		}
		switch {
		case replicas < 1:
			st.Class("replicas-unset-or-zero")
		case replicas == 1:
			st.Class("replicas-1")
		default:
			st.Class("replicas-2+")
		}
		if info["advertised"] == true {
			st.Class("single-replica-advertised-host")
		}
		if strings.Contains(cluster.Name, ".") {
			st.Class("dotted-cluster-name")
		}
		if n, _ := info["topics"].(int); n > 0 {
			st.Class("has-topics")
		}
		if _, ok := info["topic_missing"]; ok {
			st.Class("declared-topic-not-published")
		}
		nt := (replicas >= 2 && info["topics"] != nil && info["topics"].(int) > 0) || len(cluster.Namespace)+len(cluster.Name) > 40
		if nt {
			if st.NonTrivial(cluster.Namespace, cluster.Name, replicas, cluster.Spec.Brokers.AdvertisedHost, fmt.Sprint(topics)) {
				st.Sample(map[string]any{"namespace": cluster.Namespace, "name": cluster.Name, "replicas": replicas, "advertisedHost": cluster.Spec.Brokers.AdvertisedHost,
					"topics": info["topics"], "bucket": info["bucket"]})
			}
		}
		if strings.HasPrefix(problem, "VF-INCONCLUSIVE") {
			fmt.Println(problem)
		}
		if problem != "" {
			t.Fatalf("%s\ncluster %s/%s spec.brokers=%s", problem, cluster.Namespace, cluster.Name, c42JSON(cluster.Spec.Brokers))
		}
	})
}

func TestVF_C39_Witness(t *testing.T) {
	st := vfkit.NewStats("C39", "witness")
	defer st.Flush()
	_ = os.Unsetenv(operatorEtcdSnapshotBucketEnv)
	st.Eval()
	one := int32(1)
	cluster := &kafscalev1alpha1.KafscaleCluster{}
	cluster.Namespace = "production-streaming-platform" // 29 characters
	cluster.Name = "kafscale-orders-cluster"           // 23 characters
	cluster.Spec.Brokers.Replicas = &one
	problem, info := c39Check(context.Background(), cluster, nil, false)
	still := strings.Contains(problem, "not a valid S3 bucket name")
	st.KnownResult(c39FindBucketLen, still, fmt.Sprintf("namespace %q + cluster %q -> bucket %q (%d chars): %s", cluster.Namespace, cluster.Name, info["bucket"], len(fmt.Sprint(info["bucket"])), problem))
	if problem != "" && !still {
		t.Fatalf("witness failed for another reason: %s", problem)
	}
	t.Logf("%s: stillFails=%v %s", c39FindBucketLen, still, problem)
}
