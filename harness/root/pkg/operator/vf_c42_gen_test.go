//go:build verif

package operator

// Shared by C42 and C39 (C39 lists "files_from": ["C42"]): generator of Kubernetes-valid
// KafscaleCluster resources, topic resources, the scheme and a dump helper over the
// controller-runtime fake client.

import (
	"context"
	"encoding/json"
	"fmt"
	"sort"
	"strings"
	"sync"

	appsv1 "k8s.io/api/apps/v1"
	autoscalingv2 "k8s.io/api/autoscaling/v2"
	batchv1 "k8s.io/api/batch/v1"
	corev1 "k8s.io/api/core/v1"
	policyv1 "k8s.io/api/policy/v1"
	apiequality "k8s.io/apimachinery/pkg/api/equality"
	apimeta "k8s.io/apimachinery/pkg/api/meta"
	"k8s.io/apimachinery/pkg/api/resource"
	metav1 "k8s.io/apimachinery/pkg/apis/meta/v1"
	"k8s.io/apimachinery/pkg/runtime"
	"k8s.io/apimachinery/pkg/types"
	"pgregory.net/rapid"
	"sigs.k8s.io/controller-runtime/pkg/client"

	kafscalev1alpha1 "github.com/KafScale/platform/api/v1alpha1"
)

var (
	c42SchemeOnce sync.Once
	c42SchemeVal  *runtime.Scheme
	c42SchemeErr  error
)

// c42Scheme returns one shared scheme (building it registers several hundred types).
func c42Scheme() (*runtime.Scheme, error) {
	c42SchemeOnce.Do(func() { c42SchemeVal, c42SchemeErr = c42BuildScheme() })
	return c42SchemeVal, c42SchemeErr
}

func c42BuildScheme() (*runtime.Scheme, error) {
	scheme := runtime.NewScheme()
	for _, add := range []func(*runtime.Scheme) error{kafscalev1alpha1.AddToScheme, appsv1.AddToScheme, corev1.AddToScheme,
		policyv1.AddToScheme, batchv1.AddToScheme, autoscalingv2.AddToScheme} {
		if err := add(scheme); err != nil {
			return nil, err
		}
	}
	return scheme, nil
}

// ---------------------------------------------------------------- names

var c42Labels = []string{"a", "demo", "kafscale", "prod", "team-a", "x0", "0x", "orders-eu-west-1", "k8s", "streaming-platform", "v2", "z9-z9"}

// c42Label draws a DNS-1123 label (<= max characters).
func c42Label(t *rapid.T, max int, tag string) string {
	var s string
	switch rapid.IntRange(0, 5).Draw(t, tag+"Kind") {
	case 0, 1, 2:
		s = rapid.SampledFrom(c42Labels).Draw(t, tag+"Word")
	case 3:
		n := rapid.IntRange(1, 3).Draw(t, tag+"Parts")
		parts := make([]string, n)
		for i := range parts {
			parts[i] = rapid.SampledFrom(c42Labels).Draw(t, tag+"Part")
		}
		s = strings.Join(parts, "-")
	case 4: // long, up to the limit
		n := rapid.IntRange(20, max).Draw(t, tag+"Len")
		var sb strings.Builder
		for sb.Len() < n {
			sb.WriteString(rapid.SampledFrom(c42Labels).Draw(t, tag+"Chunk"))
			sb.WriteByte('-')
		}
		s = sb.String()[:n]
	default:
		s = rapid.StringMatching(`[a-z0-9]([a-z0-9-]{0,12}[a-z0-9])?`).Draw(t, tag+"Rand")
	}
	if len(s) > max {
		s = s[:max]
	}
	s = strings.Trim(s, "-")
	if s == "" {
		s = "a"
	}
	return s
}

// c42ClusterName draws a DNS-1123 subdomain (<= 253), usually a plain label.
func c42ClusterName(t *rapid.T) string {
	switch rapid.IntRange(0, 7).Draw(t, "nameShape") {
	case 3: // dotted
		n := rapid.IntRange(2, 3).Draw(t, "nameDots")
		parts := make([]string, n)
		for i := range parts {
			parts[i] = c42Label(t, 20, "nameDot")
		}
		return strings.Join(parts, ".")
	case 5: // long
		n := rapid.IntRange(2, 4).Draw(t, "nameLongParts")
		parts := make([]string, n)
		for i := range parts {
			parts[i] = c42Label(t, 63, "nameLong")
		}
		s := strings.Join(parts, ".")
		if len(s) > 253 {
			s = strings.TrimRight(s[:253], ".-")
		}
		return s
	default:
		return c42Label(t, 40, "name")
	}
}

// ---------------------------------------------------------------- cluster spec

func c42I32(t *rapid.T, tag string, vals ...int32) *int32 {
	i := rapid.IntRange(0, len(vals)).Draw(t, tag)
	if i == len(vals) {
		return nil
	}
	v := vals[i]
	return &v
}

func c42I64(t *rapid.T, tag string, vals ...int64) *int64 {
	i := rapid.IntRange(0, len(vals)).Draw(t, tag)
	if i == len(vals) {
		return nil
	}
	v := vals[i]
	return &v
}

func c42Bool(t *rapid.T, tag string) *bool {
	switch rapid.IntRange(0, 2).Draw(t, tag) {
	case 0:
		return nil
	case 1:
		v := false
		return &v
	}
	v := true
	return &v
}

func c42StrMap(t *rapid.T, tag string) map[string]string {
	n := rapid.IntRange(0, 3).Draw(t, tag+"N")
	if n == 0 {
		return nil
	}
	m := map[string]string{}
	for i := 0; i < n; i++ {
		k := rapid.SampledFrom([]string{"cloud.example.com/lb", "team", "service.beta.kubernetes.io/aws-load-balancer-type", "a/b", "owner", "zz"}).Draw(t, tag+"K")
		m[k] = rapid.SampledFrom([]string{"external", "nlb", "", "x y", "true"}).Draw(t, tag+"V")
	}
	return m
}

func c42Resources(t *rapid.T, tag string) corev1.ResourceList {
	n := rapid.IntRange(0, 2).Draw(t, tag+"N")
	if n == 0 {
		return nil
	}
	rl := corev1.ResourceList{}
	for i := 0; i < n; i++ {
		name := rapid.SampledFrom([]corev1.ResourceName{corev1.ResourceCPU, corev1.ResourceMemory, corev1.ResourceEphemeralStorage}).Draw(t, tag+"Res")
		rl[name] = resource.MustParse(rapid.SampledFrom([]string{"500m", "1", "2", "1Gi", "512Mi", "1500m", "0.5", "1e3"}).Draw(t, tag+"Qty"))
	}
	return rl
}

type c42Opts struct {
	// replicas below the CRD minimum (nil / 0) are generated only when allowed
	allowUnsetReplicas bool
}

func c42Cluster(t *rapid.T, o c42Opts) *kafscalev1alpha1.KafscaleCluster {
	c := &kafscalev1alpha1.KafscaleCluster{}
	c.Name = c42ClusterName(t)
	c.Namespace = c42Label(t, 63, "ns")
	if rapid.Bool().Draw(t, "hasUID") {
		c.UID = types.UID(rapid.SampledFrom([]string{"0f1e2d3c-0000-4000-8000-000000000001", "uid-42"}).Draw(t, "uid"))
	}
	b := &c.Spec.Brokers
	r := int32(rapid.SampledFrom([]int{1, 1, 2, 3, 3, 4, 5, 7}).Draw(t, "replicas"))
	b.Replicas = &r
	if o.allowUnsetReplicas {
		switch rapid.IntRange(0, 19).Draw(t, "replicasUnset") {
		case 7:
			b.Replicas = nil
		case 11:
			z := int32(0)
			b.Replicas = &z
		}
	}
	b.AdvertisedHost = rapid.SampledFrom([]string{"", "", "kafka.example.com", " padded.example.com ", "10.1.2.3"}).Draw(t, "advHost")
	b.AdvertisedPort = c42I32(t, "advPort", 0, 9092, 19092, 443)
	b.Resources.Requests = c42Resources(t, "req")
	b.Resources.Limits = c42Resources(t, "lim")
	b.Service.Type = rapid.SampledFrom([]string{"", "", "ClusterIP", "LoadBalancer", "NodePort", "NodePort", " NodePort ", "bogus", " LoadBalancer "}).Draw(t, "svcType")
	b.Service.Annotations = c42StrMap(t, "svcAnn")
	b.Service.LoadBalancerIP = rapid.SampledFrom([]string{"", "", "203.0.113.10", " 203.0.113.11 "}).Draw(t, "lbIP")
	if rapid.IntRange(0, 3).Draw(t, "lbRanges") == 2 {
		b.Service.LoadBalancerSourceRanges = []string{"203.0.113.0/24", "10.0.0.0/8"}[:rapid.IntRange(1, 2).Draw(t, "lbRangesN")]
	}
	b.Service.ExternalTrafficPolicy = rapid.SampledFrom([]string{"", "", "Local", "Cluster", "weird"}).Draw(t, "etp")
	b.Service.KafkaNodePort = c42I32(t, "kafkaNodePort", 0, 30092)
	b.Service.MetricsNodePort = c42I32(t, "metricsNodePort", 0, 30093)

	s3 := &c.Spec.S3
	s3.Bucket = rapid.SampledFrom([]string{"bucket", "kafscale-data", "b.with.dots"}).Draw(t, "s3Bucket")
	s3.Region = rapid.SampledFrom([]string{"us-east-1", "eu-central-1"}).Draw(t, "s3Region")
	s3.Endpoint = rapid.SampledFrom([]string{"", "", "http://minio.local:9000", "  "}).Draw(t, "s3Endpoint")
	s3.ReadBucket = rapid.SampledFrom([]string{"", "", "read-bucket"}).Draw(t, "s3ReadBucket")
	s3.ReadRegion = rapid.SampledFrom([]string{"", "", "us-west-2"}).Draw(t, "s3ReadRegion")
	s3.ReadEndpoint = rapid.SampledFrom([]string{"", "", "http://replica.local"}).Draw(t, "s3ReadEndpoint")
	s3.CredentialsSecretRef = rapid.SampledFrom([]string{"", "creds", "creds"}).Draw(t, "s3Creds")

	c.Spec.Config.SegmentBytes = int32(rapid.SampledFrom([]int{0, 0, 1048576}).Draw(t, "segBytes"))
	c.Spec.Config.FlushIntervalMs = int32(rapid.SampledFrom([]int{0, 0, 500}).Draw(t, "flushMs"))
	c.Spec.Config.CacheSize = rapid.SampledFrom([]string{"", "", "256Mi"}).Draw(t, "cacheSize")

	l := &c.Spec.LfsProxy
	l.Enabled = rapid.Bool().Draw(t, "lfsEnabled")
	if l.Enabled || rapid.IntRange(0, 3).Draw(t, "lfsFieldsAnyway") == 2 {
		l.Replicas = c42I32(t, "lfsReplicas", 0, 1, 3)
		l.Image = rapid.SampledFrom([]string{"", "", "registry.local/lfs:1", " padded:2 "}).Draw(t, "lfsImage")
		l.ImagePullPolicy = rapid.SampledFrom([]string{"", "", "Always", "Never", "bogus"}).Draw(t, "lfsPull")
		if rapid.Bool().Draw(t, "lfsBackends") {
			l.Backends = []string{"broker-0:9092", "broker-1:9092"}[:rapid.IntRange(1, 2).Draw(t, "lfsBackendsN")]
		}
		l.AdvertisedHost = rapid.SampledFrom([]string{"", "proxy.example.com"}).Draw(t, "lfsAdvHost")
		l.AdvertisedPort = c42I32(t, "lfsAdvPort", 0, 19092)
		l.BackendCacheTTLSeconds = c42I32(t, "lfsTTL", 0, 30)
		l.Service.Type = rapid.SampledFrom([]string{"", "ClusterIP", "LoadBalancer", "bogus"}).Draw(t, "lfsSvcType")
		l.Service.Annotations = c42StrMap(t, "lfsAnn")
		if rapid.IntRange(0, 3).Draw(t, "lfsRanges") == 2 {
			l.Service.LoadBalancerSourceRanges = []string{"198.51.100.0/24"}
		}
		l.Service.Port = c42I32(t, "lfsPort", 0, 19092)
		l.HTTP.Enabled = c42Bool(t, "lfsHTTP")
		l.HTTP.Port = c42I32(t, "lfsHTTPPort", 0, 18080)
		l.HTTP.APIKeySecretRef = rapid.SampledFrom([]string{"", "lfs-api"}).Draw(t, "lfsAPIKeyRef")
		l.HTTP.APIKeySecretKey = rapid.SampledFrom([]string{"", "token", " "}).Draw(t, "lfsAPIKeyKey")
		l.Metrics.Enabled = c42Bool(t, "lfsMetrics")
		l.Metrics.Port = c42I32(t, "lfsMetricsPort", 0, 19095)
		l.Health.Enabled = c42Bool(t, "lfsHealth")
		l.Health.Port = c42I32(t, "lfsHealthPort", 0, 19094)
		l.S3.Namespace = rapid.SampledFrom([]string{"", "lfs-ns", "  "}).Draw(t, "lfsS3NS")
		l.S3.MaxBlobSize = c42I64(t, "lfsMaxBlob", 0, 1048576)
		l.S3.ChunkSize = c42I64(t, "lfsChunk", 0, 262144)
		l.S3.ForcePathStyle = c42Bool(t, "lfsPathStyle")
		l.S3.EnsureBucket = c42Bool(t, "lfsEnsureBucket")
	}
	return c
}

// c42Topics draws 0-5 topic resources; some belong to another cluster or namespace.
func c42Topics(t *rapid.T, cluster *kafscalev1alpha1.KafscaleCluster) []kafscalev1alpha1.KafscaleTopic {
	n := rapid.IntRange(0, 5).Draw(t, "topics")
	var out []kafscalev1alpha1.KafscaleTopic
	used := map[string]bool{}
	for i := 0; i < n; i++ {
		tp := kafscalev1alpha1.KafscaleTopic{}
		tp.Name = rapid.SampledFrom([]string{"orders", "payments.v1", "events", "a", "audit-log", "x0"}).Draw(t, "topicName")
		tp.Namespace = cluster.Namespace
		tp.Spec.ClusterRef = cluster.Name
		switch rapid.IntRange(0, 7).Draw(t, "topicOwner") {
		case 3:
			tp.Spec.ClusterRef = "another-cluster"
		case 5:
			tp.Namespace = "zz-other-namespace"
		}
		if used[tp.Namespace+"/"+tp.Name] {
			continue
		}
		used[tp.Namespace+"/"+tp.Name] = true
		tp.Spec.Partitions = int32(rapid.SampledFrom([]int{1, 1, 2, 3, 6, 12, 7, 0}).Draw(t, "partitions"))
		out = append(out, tp)
	}
	return out
}

// ---------------------------------------------------------------- dump of everything the fake API server holds

type c42Dump map[string]client.Object

// c42DumpAll lists every list kind the scheme knows and returns the objects keyed by
// type/namespace/name with resourceVersion, managed fields and condition timestamps dropped.
func c42DumpAll(ctx context.Context, c client.Client, scheme *runtime.Scheme) (c42Dump, error) {
	out := c42Dump{}
	for gvk := range scheme.AllKnownTypes() {
		if !strings.HasSuffix(gvk.Kind, "List") {
			continue
		}
		itemGVK := gvk
		itemGVK.Kind = strings.TrimSuffix(gvk.Kind, "List")
		if !scheme.Recognizes(itemGVK) {
			continue
		}
		obj, err := scheme.New(gvk)
		if err != nil {
			continue
		}
		list, ok := obj.(client.ObjectList)
		if !ok {
			continue
		}
		if err := c.List(ctx, list); err != nil {
			continue // kinds the fake tracker cannot list (meta kinds) hold no generated objects
		}
		items, err := apimeta.ExtractList(list)
		if err != nil {
			return nil, err
		}
		for _, it := range items {
			o, ok := it.(client.Object)
			if !ok {
				continue
			}
			o.SetResourceVersion("")
			o.SetManagedFields(nil)
			if kc, ok := o.(*kafscalev1alpha1.KafscaleCluster); ok {
				for i := range kc.Status.Conditions {
					kc.Status.Conditions[i].LastTransitionTime = metav1.Time{}
				}
			}
			out[fmt.Sprintf("%s/%s/%s/%s", itemGVK.GroupVersion().String(), itemGVK.Kind, o.GetNamespace(), o.GetName())] = o
		}
	}
	return out, nil
}

func c42JSON(o any) string {
	b, err := json.Marshal(o)
	if err != nil {
		return fmt.Sprintf("%+v", o)
	}
	return string(b)
}

// c42DiffDumps returns "" when both dumps hold semantically equal objects under the same keys.
func c42DiffDumps(a, b c42Dump, only func(client.Object) bool) string {
	keys := map[string]bool{}
	for k, o := range a {
		if only == nil || only(o) {
			keys[k] = true
		}
	}
	for k, o := range b {
		if only == nil || only(o) {
			keys[k] = true
		}
	}
	sorted := make([]string, 0, len(keys))
	for k := range keys {
		sorted = append(sorted, k)
	}
	sort.Strings(sorted)
	for _, k := range sorted {
		oa, ina := a[k]
		ob, inb := b[k]
		switch {
		case !ina:
			return fmt.Sprintf("object %s exists only in the second dump: %s", k, c42JSON(ob))
		case !inb:
			return fmt.Sprintf("object %s exists only in the first dump: %s", k, c42JSON(oa))
		case !apiequality.Semantic.DeepEqual(oa, ob):
			return fmt.Sprintf("object %s differs:\n first: %s\nsecond: %s", k, c42JSON(oa), c42JSON(ob))
		}
	}
	return ""
}

func c42Owned(o client.Object) bool {
	for _, ref := range o.GetOwnerReferences() {
		if ref.Kind == "KafscaleCluster" {
			return true
		}
	}
	return false
}
