//go:build verif

package acl

import (
	"encoding/json"
	"fmt"
	"os"
	"strings"
	"testing"

	"pgregory.net/rapid"
	"verif.local/vfkit"
)

// C23: deny overrides, allow next, default last (also for unknown principals); adding an
// allow rule never removes access, adding a deny rule never grants it.
//
// The reference evaluator is written from the property statement and docs/security.md
// ("Allow/Deny rules with wildcard topic/group names (prefix `*`)"). Wherever neither
// defines whether a rule matches (empty fields, case variants, interior stars, padded
// names, padded / empty principals, garbage default policy) the reference is three-valued
// and accepts both outcomes; such cases are only counted. The two monotonicity laws need no
// definition of "matches" at all and are asserted for every request of the alphabet.

const c23FindingDup = "C23-duplicate-principal-last-wins"

type c23tri int8

const (
	c23F c23tri = iota
	c23T
	c23U
)

func c23Exact(rule, req string) c23tri {
	switch {
	case rule == "*":
		return c23T
	case rule == "":
		return c23T // an omitted field means "any" (acl.go actionMatches/resourceMatches, pinned by the repo's own tests)
	case rule == req:
		return c23T
	case strings.EqualFold(rule, req):
		return c23U // case-insensitive matching is an implementation choice
	}
	return c23F
}

func c23Name(rule, name string) c23tri {
	if rule == "*" || rule == "" { // omitted name = any (TestNameMatchesEmptyAndWildcard)
		return c23T
	}
	if rule != strings.TrimSpace(rule) {
		return c23U
	}
	stars := strings.Count(rule, "*")
	if stars == 0 {
		if rule == name {
			return c23T
		}
		return c23F
	}
	if stars == 1 && strings.HasSuffix(rule, "*") {
		if strings.HasPrefix(name, rule[:len(rule)-1]) {
			return c23T
		}
		return c23F
	}
	return c23U // interior / multiple stars: not documented
}

func c23RuleMatch(r Rule, action Action, res Resource, name string) c23tri {
	out := c23T
	for _, m := range []c23tri{c23Exact(string(r.Action), string(action)), c23Exact(string(r.Resource), string(res)), c23Name(r.Name, name)} {
		if m == c23F {
			return c23F
		}
		if m == c23U {
			out = c23U
		}
	}
	return out
}

func c23Any(rules []Rule, action Action, res Resource, name string) c23tri {
	out := c23F
	for _, r := range rules {
		switch c23RuleMatch(r, action, res, name) {
		case c23T:
			return c23T
		case c23U:
			out = c23U
		}
	}
	return out
}

func c23Default(policy string) c23tri {
	switch policy {
	case "allow":
		return c23T
	case "deny":
		return c23F
	}
	return c23U
}

// c23Lookup resolves the request principal against the configuration as the statement
// reads: the rules "for its principal" are all rules listed under that exact name.
// known=false, amb=false: unknown principal (default applies).
func c23Lookup(cfg Config, principal string) (allow, deny []Rule, known, amb bool) {
	eff := strings.TrimSpace(principal)
	exact := 0
	for _, p := range cfg.Principals {
		tn := strings.TrimSpace(p.Name)
		if p.Name == principal && principal != "" && principal == eff {
			allow = append(allow, p.Allow...)
			deny = append(deny, p.Deny...)
			exact++
			continue
		}
		if tn == eff || (eff == "" && tn == "anonymous") {
			amb = true // identity only equal after trimming / anonymous mapping: undocumented
		}
	}
	if amb {
		return nil, nil, false, true
	}
	if exact > 0 {
		return allow, deny, true, false
	}
	if eff == "" {
		// the empty principal; no entry could be meant => unknown
		return nil, nil, false, false
	}
	return nil, nil, false, false
}

type c23Verdict struct {
	canTrue, canFalse bool
	denyT, allowT     bool
	known, amb        bool
}

func c23Reference(cfg Config, principal string, action Action, res Resource, name string) c23Verdict {
	v := c23Verdict{}
	allow, deny, known, amb := c23Lookup(cfg, principal)
	v.known, v.amb = known, amb
	if amb {
		v.canTrue, v.canFalse = true, true
		return v
	}
	def := c23Default(cfg.DefaultPolicy)
	addDefault := func() {
		if def != c23F {
			v.canTrue = true
		}
		if def != c23T {
			v.canFalse = true
		}
	}
	if !known {
		addDefault()
		return v
	}
	d := c23Any(deny, action, res, name)
	a := c23Any(allow, action, res, name)
	v.denyT, v.allowT = d == c23T, a == c23T
	if d == c23T {
		v.canFalse = true
		return v
	}
	if d == c23U {
		v.canFalse = true
	}
	switch a {
	case c23T:
		v.canTrue = true
	case c23F:
		addDefault()
	case c23U:
		v.canTrue = true
		addDefault()
	}
	return v
}

// ---- alphabets ----

var (
	c23ReqPrincipals = []string{"p1", "p2", "p3", "", " p1 ", "anonymous"}
	c23ReqActions    = []Action{ActionProduce, ActionFetch, ActionGroupRead, ActionGroupWrite, ActionGroupAdmin, ActionAdmin}
	c23ReqResources  = []Resource{ResourceTopic, ResourceGroup, ResourceCluster}
	c23ReqNames      = []string{"orders", "orders-eu", "ord", "or", "x", "my-orders", "a*b", "axb", "cluster", ""}
)

type c23Req struct {
	P string
	A Action
	R Resource
	N string
}

func c23AllRequests() []c23Req {
	var out []c23Req
	for _, p := range c23ReqPrincipals {
		for _, a := range c23ReqActions {
			for _, r := range c23ReqResources {
				for _, n := range c23ReqNames {
					out = append(out, c23Req{p, a, r, n})
				}
			}
		}
	}
	return out
}

func c23RuleGen() *rapid.Generator[Rule] {
	actions := rapid.OneOf(
		rapid.SampledFrom([]Action{ActionProduce, ActionFetch, ActionGroupRead, ActionGroupWrite, ActionGroupAdmin, ActionAdmin, ActionAny}),
		rapid.SampledFrom([]Action{ActionProduce, ActionFetch, ActionAny, ActionAny}),
		rapid.SampledFrom([]Action{"", "", "PRODUCE", "Fetch"}),
	)
	resources := rapid.OneOf(
		rapid.SampledFrom([]Resource{ResourceTopic, ResourceGroup, ResourceCluster, ResourceAny}),
		rapid.SampledFrom([]Resource{ResourceTopic, ResourceTopic, ResourceAny}),
		rapid.SampledFrom([]Resource{"", "", "", "Topic"}),
	)
	names := rapid.OneOf(
		rapid.SampledFrom([]string{"orders", "orders-eu", "ord", "x", "ord*", "orders*", "orders-*", "*", "cluster"}),
		rapid.SampledFrom([]string{"orders", "ord*", "*"}),
		rapid.SampledFrom([]string{"a*b", "", "", " orders ", "*ord", "or**"}),
	)
	return rapid.Custom(func(t *rapid.T) Rule {
		return Rule{Action: actions.Draw(t, "action"), Resource: resources.Draw(t, "resource"), Name: names.Draw(t, "name")}
	})
}

func c23ConfigGen() *rapid.Generator[Config] {
	rule := c23RuleGen()
	return rapid.Custom(func(t *rapid.T) Config {
		cfg := Config{Enabled: true}
		cfg.DefaultPolicy = "deny"
		switch d := rapid.IntRange(0, 11).Draw(t, "default"); {
		case d < 5:
			cfg.DefaultPolicy = "allow"
		case d < 10:
			cfg.DefaultPolicy = "deny"
		default:
			cfg.DefaultPolicy = rapid.SampledFrom([]string{"", "garbage", "ALLOW", " allow "}).Draw(t, "oddDefault")
		}
		n := rapid.IntRange(0, 3).Draw(t, "nprincipals")
		pool := rapid.Permutation([]string{"p1", "p2", "anonymous"}).Draw(t, "names")
		for i := 0; i < n; i++ {
			name := pool[i]
			if rapid.IntRange(0, 9).Draw(t, "oddName") == 0 {
				// repeated / padded / empty names
				name = rapid.SampledFrom([]string{"p1", "p1", "p2", " p1 ", ""}).Draw(t, "pname")
			}
			cfg.Principals = append(cfg.Principals, PrincipalRules{
				Name:  name,
				Allow: rapid.SliceOfN(rule, 0, 4).Draw(t, "allow"),
				Deny:  rapid.SliceOfN(rule, 0, 4).Draw(t, "deny"),
			})
		}
		// the same principal listed again: a later "revocation" entry whose deny rule equals
		// an allow rule listed earlier (or a later grant equal to an earlier deny), plus
		// optional extra rules. In-domain: principals[] is a JSON list, names may repeat.
		if len(cfg.Principals) > 0 && rapid.IntRange(0, 2).Draw(t, "relist") == 0 {
			src := cfg.Principals[rapid.IntRange(0, len(cfg.Principals)-1).Draw(t, "relistOf")]
			e := PrincipalRules{Name: src.Name}
			pick := func(from []Rule, label string) Rule {
				if len(from) > 0 && rapid.IntRange(0, 3).Draw(t, label+"Copy") > 0 {
					return from[rapid.IntRange(0, len(from)-1).Draw(t, label+"Idx")]
				}
				return rule.Draw(t, label+"Fresh")
			}
			switch rapid.IntRange(0, 3).Draw(t, "relistKind") {
			case 0, 1: // revoke something granted earlier
				e.Deny = []Rule{pick(src.Allow, "revoke")}
			case 2: // grant something denied earlier
				e.Allow = []Rule{pick(src.Deny, "regrant")}
			default: // grant and revoke the same rule in the new entry
				r := pick(src.Allow, "both")
				e.Allow, e.Deny = []Rule{r}, []Rule{r}
			}
			e.Allow = append(e.Allow, rapid.SliceOfN(rule, 0, 1).Draw(t, "relistAllow")...)
			e.Deny = append(e.Deny, rapid.SliceOfN(rule, 0, 1).Draw(t, "relistDeny")...)
			cfg.Principals = append(cfg.Principals, e)
		}
		return cfg
	})
}

func c23HasDup(cfg Config) bool {
	seen := map[string]bool{}
	for _, p := range cfg.Principals {
		n := strings.TrimSpace(p.Name)
		if n == "" {
			continue
		}
		if seen[n] {
			return true
		}
		seen[n] = true
	}
	return false
}

func c23JSON(v any) string {
	b, _ := json.Marshal(v)
	return string(b)
}

func c23Clone(cfg Config) Config {
	out := Config{Enabled: cfg.Enabled, DefaultPolicy: cfg.DefaultPolicy}
	for _, p := range cfg.Principals {
		out.Principals = append(out.Principals, PrincipalRules{Name: p.Name,
			Allow: append([]Rule(nil), p.Allow...), Deny: append([]Rule(nil), p.Deny...)})
	}
	return out
}

func c23Insert(rules []Rule, pos int, r Rule) []Rule {
	if pos > len(rules) {
		pos = len(rules)
	}
	out := append([]Rule(nil), rules[:pos]...)
	out = append(out, r)
	return append(out, rules[pos:]...)
}

// c23CheckDirect compares the authorizer with the reference for every request.
// Returns a failure description or "".
func c23CheckDirect(cfg Config, auth *Authorizer, reqs []c23Req, count func(class string), nt func(kind string, r c23Req)) string {
	for _, r := range reqs {
		got := auth.Allows(r.P, r.A, r.R, r.N)
		v := c23Reference(cfg, r.P, r.A, r.R, r.N)
		switch {
		case v.amb:
			count("principal-identity-ambiguous")
		case v.canTrue && v.canFalse:
			count("match-or-default-ambiguous")
		case !v.known:
			count("unknown-principal-default")
			nt("unknown", r)
		case v.denyT && v.allowT:
			count("deny-and-allow-both-match")
			nt("both", r)
		case v.denyT:
			count("deny-match")
		case v.allowT:
			count("allow-match")
		default:
			count("known-principal-default")
		}
		if (got && !v.canTrue) || (!got && !v.canFalse) {
			why := "default policy applies"
			if v.denyT {
				why = "a deny rule of the principal matches"
			} else if v.allowT {
				why = "an allow rule matches and no deny rule does"
			}
			return fmt.Sprintf("Allows(%q,%s,%s,%q)=%v but %s (config %s)", r.P, r.A, r.R, r.N, got, why, c23JSON(cfg))
		}
	}
	return ""
}

func TestVF_C23_Authorizer(t *testing.T) {
	st := vfkit.NewStats("C23", "authorizer")
	defer st.Flush()
	reqs := c23AllRequests()
	dupKnown := vfkit.Known(c23FindingDup)
	rapid.Check(t, func(t *rapid.T) {
		st.Eval()
		cfg := c23ConfigGen().Draw(t, "config")
		if c23HasDup(cfg) {
			if dupKnown {
				// exclusion by construction of exactly the known finding: keep the first
				// entry of every repeated (trimmed) name
				st.ExcludedCase(c23FindingDup)
				seen := map[string]bool{}
				var keep []PrincipalRules
				for _, p := range cfg.Principals {
					n := strings.TrimSpace(p.Name)
					if n != "" && seen[n] {
						continue
					}
					seen[n] = true
					keep = append(keep, p)
				}
				cfg.Principals = keep
			} else {
				st.Class("config-with-repeated-principal")
			}
		}
		auth := NewAuthorizer(cfg)
		classes := map[string]int{}
		ntKinds := map[string]bool{}
		var ntSample *c23Req
		if msg := c23CheckDirect(cfg, auth, reqs, func(c string) { classes[c]++ }, func(kind string, r c23Req) {
			ntKinds[kind] = true
			if kind == "both" && ntSample == nil {
				rr := r
				ntSample = &rr
			}
		}); msg != "" {
			t.Fatalf("%s", msg)
		}
		for c, n := range classes {
			st.ClassN("pairs:"+c, n)
		}

		// ---- monotonicity ----
		kind := rapid.SampledFrom([]string{"allow", "deny"}).Draw(t, "addKind")
		r := c23RuleGen().Draw(t, "addedRule")
		cfg2 := c23Clone(cfg)
		where := "existing-entry"
		if len(cfg2.Principals) > 0 && rapid.IntRange(0, 4).Draw(t, "where") > 0 {
			i := rapid.IntRange(0, len(cfg2.Principals)-1).Draw(t, "entry")
			pos := rapid.IntRange(0, 4).Draw(t, "pos")
			if kind == "allow" {
				cfg2.Principals[i].Allow = c23Insert(cfg2.Principals[i].Allow, pos, r)
			} else {
				cfg2.Principals[i].Deny = c23Insert(cfg2.Principals[i].Deny, pos, r)
			}
		} else {
			// the rule arrives in a new principals entry
			name := rapid.SampledFrom([]string{"p1", "p2", "p3", "anonymous"}).Draw(t, "newEntryName")
			// often the new entry repeats a rule the principal already has on the other side
			var other []Rule
			for _, p := range cfg2.Principals {
				if p.Name == name {
					if kind == "deny" {
						other = append(other, p.Allow...)
					} else {
						other = append(other, p.Deny...)
					}
				}
			}
			if len(other) > 0 && rapid.Bool().Draw(t, "sameAsOtherSide") {
				r = other[rapid.IntRange(0, len(other)-1).Draw(t, "otherIdx")]
			}
			clash := false
			for _, p := range cfg2.Principals {
				if strings.TrimSpace(p.Name) == name {
					clash = true
				}
			}
			if clash && dupKnown {
				st.ExcludedCase(c23FindingDup)
				name = "p4"
				clash = false
			}
			where = "new-entry"
			if clash {
				where = "new-entry-for-listed-principal"
			}
			e := PrincipalRules{Name: name}
			if kind == "allow" {
				e.Allow = []Rule{r}
			} else {
				e.Deny = []Rule{r}
			}
			cfg2.Principals = append(cfg2.Principals, e)
		}
		st.Class("add-" + kind + "-" + where)
		auth2 := NewAuthorizer(cfg2)
		changed := 0
		for _, q := range reqs {
			before := auth.Allows(q.P, q.A, q.R, q.N)
			after := auth2.Allows(q.P, q.A, q.R, q.N)
			if before != after {
				changed++
			}
			if kind == "allow" && before && !after {
				t.Fatalf("adding allow rule %s (%s) REMOVED access for (%q,%s,%s,%q)\nbefore: %s\nafter:  %s", c23JSON(r), where, q.P, q.A, q.R, q.N, c23JSON(cfg), c23JSON(cfg2))
			}
			if kind == "deny" && !before && after {
				t.Fatalf("adding deny rule %s (%s) GRANTED access for (%q,%s,%s,%q)\nbefore: %s\nafter:  %s", c23JSON(r), where, q.P, q.A, q.R, q.N, c23JSON(cfg), c23JSON(cfg2))
			}
		}
		if changed > 0 {
			st.Class("added-rule-changed-some-decision")
		} else {
			st.Class("added-rule-changed-nothing")
		}
		if len(ntKinds) > 0 {
			kinds := ""
			for _, k := range []string{"both", "unknown"} {
				if ntKinds[k] {
					kinds += k + ","
				}
			}
			if st.NonTrivial(c23JSON(cfg), kinds) && ntSample != nil {
				st.Sample(map[string]any{"config": cfg, "request_with_deny_and_allow_match": ntSample, "added": map[string]any{"kind": kind, "rule": r, "where": where}})
			}
		}
	})
}

// TestVF_C23_Exhaustive enumerates every configuration with one principal, at most one
// allow and at most one deny rule over the rule alphabet, both default policies, and every
// request: direct oracle, plus both monotonicity laws relative to the configuration with
// the rule removed.
func TestVF_C23_Exhaustive(t *testing.T) {
	st := vfkit.NewStats("C23", "exhaustive")
	defer st.Flush()
	actions := []Action{ActionProduce, ActionFetch, ActionGroupRead, ActionGroupWrite, ActionGroupAdmin, ActionAdmin, ActionAny}
	resources := []Resource{ResourceTopic, ResourceGroup, ResourceCluster, ResourceAny}
	names := []string{"orders", "ord", "ord*", "orders*", "*", "x"}
	if vfkit.Tier() == "thorough" {
		names = []string{"orders", "orders-eu", "ord", "x", "ord*", "orders*", "orders-*", "*", "cluster", "a*b", ""}
		actions = append(actions, "", "PRODUCE")
		resources = append(resources, "")
	} else {
		actions = []Action{ActionProduce, ActionFetch, ActionAdmin, ActionAny, ""}
		resources = []Resource{ResourceTopic, ResourceCluster, ResourceAny, ""}
		names = append(names, "")
	}
	var rules []*Rule
	rules = append(rules, nil)
	for _, a := range actions {
		for _, r := range resources {
			for _, n := range names {
				rules = append(rules, &Rule{a, r, n})
			}
		}
	}
	var reqs []c23Req
	for _, p := range []string{"p1", "p3"} {
		for _, a := range c23ReqActions {
			for _, r := range c23ReqResources {
				for _, n := range c23ReqNames {
					reqs = append(reqs, c23Req{p, a, r, n})
				}
			}
		}
	}
	decide := func(cfg Config) []bool {
		auth := NewAuthorizer(cfg)
		out := make([]bool, len(reqs))
		for i, q := range reqs {
			out[i] = auth.Allows(q.P, q.A, q.R, q.N)
		}
		return out
	}
	// split form: the allow rule in a first entry for p1, the deny rule in a second one
	mkSplit := func(def string, a, d *Rule, denyFirst bool) Config {
		pa, pd := PrincipalRules{Name: "p1"}, PrincipalRules{Name: "p1"}
		if a != nil {
			pa.Allow = []Rule{*a}
		}
		if d != nil {
			pd.Deny = []Rule{*d}
		}
		if denyFirst {
			return Config{Enabled: true, DefaultPolicy: def, Principals: []PrincipalRules{pd, pa}}
		}
		return Config{Enabled: true, DefaultPolicy: def, Principals: []PrincipalRules{pa, pd}}
	}
	mk := func(def string, a, d *Rule) Config {
		p := PrincipalRules{Name: "p1"}
		if a != nil {
			p.Allow = []Rule{*a}
		}
		if d != nil {
			p.Deny = []Rule{*d}
		}
		return Config{Enabled: true, DefaultPolicy: def, Principals: []PrincipalRules{p}}
	}
	both := 0
	splitChecked := 0
	skipSplit := vfkit.Known(c23FindingDup)
	for _, def := range []string{"allow", "deny"} {
		noAllow := make([][]bool, len(rules)) // decisions of (def, no allow rule, deny rule di)
		noDeny := make([][]bool, len(rules))  // decisions of (def, allow rule ai, no deny rule)
		for i, r := range rules {
			noAllow[i] = decide(mk(def, nil, r))
			noDeny[i] = decide(mk(def, r, nil))
		}
		for ai, a := range rules {
			for di, d := range rules {
				st.Eval()
				cfg := mk(def, a, d)
				auth := NewAuthorizer(cfg)
				ntHit := false
				if msg := c23CheckDirect(cfg, auth, reqs, func(string) {}, func(kind string, _ c23Req) {
					if kind == "both" {
						ntHit = true
					}
				}); msg != "" {
					t.Fatalf("%s", msg)
				}
				got := decide(cfg)
				if a != nil && d != nil && !skipSplit {
					// listing p1 twice (allow entry + deny entry, either order) must decide
					// every request like the single merged entry
					for _, denyFirst := range []bool{false, true} {
						scfg := mkSplit(def, a, d, denyFirst)
						sgot := decide(scfg)
						for i := range reqs {
							if sgot[i] != got[i] {
								t.Fatalf("principal listed twice decides %+v = %v, the single entry with the same rules decides %v\nsplit: %s\nsingle: %s", reqs[i], sgot[i], got[i], c23JSON(scfg), c23JSON(cfg))
							}
						}
						splitChecked++
					}
				}
				if a != nil { // cfg = (no allow) + allow rule a
					for i := range reqs {
						if noAllow[di][i] && !got[i] {
							t.Fatalf("adding allow rule %s removed access for %+v (config %s)", c23JSON(a), reqs[i], c23JSON(cfg))
						}
					}
				}
				if d != nil { // cfg = (no deny) + deny rule d
					for i := range reqs {
						if !noDeny[ai][i] && got[i] {
							t.Fatalf("adding deny rule %s granted access for %+v (config %s)", c23JSON(d), reqs[i], c23JSON(cfg))
						}
					}
				}
				if ntHit {
					both++
					st.NonTrivial(def, ai, di)
					if both%997 == 1 {
						st.Sample(map[string]any{"config": cfg})
					}
				}
			}
		}
	}
	st.ClassN("configs-with-deny-and-allow-matching-one-request", both)
	st.ClassN("split-entry-configs-compared-with-merged", splitChecked)
	st.ClassN("rules-in-alphabet", len(rules)-1)
	st.ClassN("requests-per-config", len(reqs))
	st.SetExhaustive(true)
}

// TestVF_C23_Witness replays the minimal witness of each recorded finding through the
// same oracles.
func TestVF_C23_Witness(t *testing.T) {
	st := vfkit.NewStats("C23", "witness")
	defer st.Flush()
	st.Eval()
	rule := Rule{Action: ActionFetch, Resource: ResourceTopic, Name: "orders"}
	cfg := Config{Enabled: true, DefaultPolicy: "allow", Principals: []PrincipalRules{
		{Name: "p1", Deny: []Rule{rule}},
		{Name: "p1", Allow: []Rule{{Action: ActionProduce, Resource: ResourceTopic, Name: "x"}}},
	}}
	auth := NewAuthorizer(cfg)
	msg := c23CheckDirect(cfg, auth, []c23Req{{"p1", ActionFetch, ResourceTopic, "orders"}}, func(string) {}, func(string, c23Req) {})
	// metamorphic form: the deny rule arrives in a second entry for p1 and drops p1's allow-independent denies
	cfgA := Config{Enabled: true, DefaultPolicy: "allow", Principals: []PrincipalRules{{Name: "p1", Deny: []Rule{rule}}}}
	cfgB := c23Clone(cfgA)
	cfgB.Principals = append(cfgB.Principals, PrincipalRules{Name: "p1", Deny: []Rule{{Action: ActionAdmin, Resource: ResourceCluster, Name: "*"}}})
	granted := !NewAuthorizer(cfgA).Allows("p1", ActionFetch, ResourceTopic, "orders") && NewAuthorizer(cfgB).Allows("p1", ActionFetch, ResourceTopic, "orders")
	still := msg != "" || granted
	st.KnownResult(c23FindingDup, still, "principal listed twice: only the last entry is kept, so the first entry's deny rule {fetch,topic,orders} no longer denies (and adding a deny rule via a second entry grants access)")
	st.NonTrivial("dup-witness", still)
	st.Sample(map[string]any{"config": cfg, "direct_oracle": msg, "adding_deny_entry_granted": granted})
	if os.Getenv("VF_C23_VERBOSE") != "" {
		t.Logf("witness still fails=%v: %s", still, msg)
	}
}
