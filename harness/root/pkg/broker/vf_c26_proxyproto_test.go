//go:build verif

package broker

// C26: PROXY protocol parsing preserves the stream exactly.
//
//   - a connection that starts with a valid PROXY v1 / v2 header: ReadProxyProtocol
//     succeeds, reports exactly the encoded source / destination address and port (or
//     "local" for v1 UNKNOWN / v2 LOCAL) and the wrapped conn yields exactly the bytes
//     that follow the header;
//   - a connection without such a header: info == nil and the wrapped conn yields the
//     whole stream;
//   - no input panics.
//
// The expectation is built by construction (the generator encodes the header itself
// from drawn addresses, following the PROXY protocol specification 2020/03/05) and is
// cross-checked by an independent strict reference parser (c26RefParse) that is also the
// oracle of the native fuzz leg.

import (
	"bytes"
	"encoding/binary"
	"fmt"
	"io"
	"net"
	"net/netip"
	"os"
	"strconv"
	"strings"
	"testing"
	"time"

	"pgregory.net/rapid"
	"verif.local/vfkit"
)

const c26FindingFamily = "C26-v2-family-from-proto-nibble"

var c26Sig = []byte{'\r', '\n', '\r', '\n', 0x00, '\r', '\n', 'Q', 'U', 'I', 'T', '\n'}

// ---------------------------------------------------------------- chunked net.Conn

type c26Conn struct {
	data   []byte
	pos    int
	chunks []int
	ci     int
	reads  int
}

func (c *c26Conn) Read(p []byte) (int, error) {
	if len(p) == 0 {
		return 0, nil
	}
	if c.pos >= len(c.data) {
		return 0, io.EOF
	}
	n := len(c.data) - c.pos
	if len(c.chunks) > 0 {
		k := c.chunks[c.ci%len(c.chunks)]
		c.ci++
		if k < 1 {
			k = 1
		}
		if k < n {
			n = k
		}
	}
	if n > len(p) {
		n = len(p)
	}
	copy(p, c.data[c.pos:c.pos+n])
	c.pos += n
	c.reads++
	return n, nil
}
func (c *c26Conn) Write(p []byte) (int, error)      { return len(p), nil }
func (c *c26Conn) Close() error                     { return nil }
func (c *c26Conn) LocalAddr() net.Addr              { return &net.TCPAddr{IP: net.IPv4(127, 0, 0, 1), Port: 9092} }
func (c *c26Conn) RemoteAddr() net.Addr             { return &net.TCPAddr{IP: net.IPv4(127, 0, 0, 1), Port: 40000} }
func (c *c26Conn) SetDeadline(time.Time) error      { return nil }
func (c *c26Conn) SetReadDeadline(time.Time) error  { return nil }
func (c *c26Conn) SetWriteDeadline(time.Time) error { return nil }

// ---------------------------------------------------------------- expectation

type c26Expect struct {
	// Header: the stream starts with a PROXY header of HeaderLen bytes.
	Header    bool
	HeaderLen int
	// Strict: the header is valid per the specification and its meaning is unambiguous:
	// the parser must accept it. !Strict (spec says "receiver may accept or reject", or the
	// header deviates from the spec in a way receivers commonly tolerate): an error is
	// acceptable, but if it is accepted everything asserted below still has to hold.
	Strict bool
	// HasAddr: the header encodes IP addresses and ports that must be reported.
	HasAddr      bool
	Src, Dst     netip.Addr
	SPort, DPort int
	// Local: v1 UNKNOWN / v2 LOCAL: no proxied addresses may be reported.
	Local bool
	// AddrFree: info is not asserted at all (v2 PROXY with AF_UNSPEC / AF_UNIX / unspecified transport).
	AddrFree bool
	// NearMiss: not a PROXY header but starts like one; error acceptable; info not asserted
	// when the parser decides to consume something, except info==nil => unchanged.
	NearMiss bool
	Class    string
}

type c26Outcome struct {
	info     *ProxyInfo
	err      error
	rest     []byte
	restErr  error
	panicked any
}

func c26Run(stream []byte, chunks []int, readSizes ...int) (out c26Outcome) {
	defer func() {
		if r := recover(); r != nil {
			out.panicked = r
		}
	}()
	conn := &c26Conn{data: stream, chunks: chunks}
	wrapped, info, err := ReadProxyProtocol(conn)
	out.info, out.err = info, err
	if wrapped == nil {
		out.restErr = fmt.Errorf("ReadProxyProtocol returned a nil conn")
		return out
	}
	// read the rest through the wrapped conn with the consumer's buffer sizes (a Kafka reader
	// asks for 4 bytes, then for the whole frame: anything from 1 byte to many KiB per call)
	if len(readSizes) == 0 {
		readSizes = []int{1500}
	}
	var rest []byte
	big := make([]byte, 1<<16)
	for k := 0; ; k++ {
		sz := readSizes[k%len(readSizes)]
		if sz < 1 {
			sz = 1
		}
		if sz > len(big) {
			sz = len(big)
		}
		buf := big[:sz]
		n, rerr := wrapped.Read(buf)
		rest = append(rest, buf[:n]...)
		if rerr == io.EOF {
			break
		}
		if rerr != nil {
			out.restErr = rerr
			break
		}
		if n == 0 && len(rest) > len(stream)+16 {
			out.restErr = fmt.Errorf("wrapped conn returns more bytes than were sent")
			break
		}
	}
	out.rest = rest
	return out
}

func c26AddrEq(reported string, want netip.Addr) bool {
	got, err := netip.ParseAddr(reported)
	if err != nil {
		return false
	}
	return got.Unmap() == want.Unmap()
}

func c26HostPortEq(reported string, want netip.Addr, port int) bool {
	h, p, err := net.SplitHostPort(reported)
	if err != nil {
		return false
	}
	return c26AddrEq(h, want) && p == strconv.Itoa(port)
}

// c26Judge returns "" when the outcome satisfies the property for the expectation.
func c26Judge(stream []byte, exp c26Expect, out c26Outcome) string {
	if out.panicked != nil {
		return fmt.Sprintf("parser panicked: %v", out.panicked)
	}
	if out.restErr != nil && out.err == nil {
		return fmt.Sprintf("reading the wrapped conn failed: %v", out.restErr)
	}
	// universal: a successful parse hands the Kafka reader a suffix of the stream
	if out.err == nil {
		if len(out.rest) > len(stream) || !bytes.Equal(out.rest, stream[len(stream)-len(out.rest):]) {
			return fmt.Sprintf("bytes after the header were altered: wrapped conn yields %d bytes that are not a suffix of the %d-byte stream", len(out.rest), len(stream))
		}
		// nothing that could be taken for a complete header start was present: if the parser
		// says "no header" it must not have consumed anything
		fullStart := (len(stream) >= 12 && bytes.Equal(stream[:12], c26Sig)) || (len(stream) >= 5 && string(stream[:5]) == "PROXY")
		if out.info == nil && !fullStart && !bytes.Equal(out.rest, stream) {
			return fmt.Sprintf("no header reported (info==nil) but the stream was not passed through unchanged: %d of %d bytes", len(out.rest), len(stream))
		}
	}
	switch {
	case exp.Header:
		if out.err != nil {
			if exp.Strict {
				return fmt.Sprintf("valid %s header rejected: %v", exp.Class, out.err)
			}
			return ""
		}
		want := stream[exp.HeaderLen:]
		if !bytes.Equal(out.rest, want) {
			return fmt.Sprintf("%s header (%d bytes): wrapped conn yields %d bytes, want exactly the %d bytes after the header (first diff at %d)",
				exp.Class, exp.HeaderLen, len(out.rest), len(want), c26FirstDiff(out.rest, want))
		}
		if exp.AddrFree {
			return ""
		}
		if exp.Local {
			if out.info != nil && !out.info.Local && (out.info.SourceAddr != "" || out.info.SourceIP != "" || out.info.DestAddr != "" || out.info.DestIP != "") {
				return fmt.Sprintf("%s header encodes no proxied address but %+v was reported", exp.Class, *out.info)
			}
			return ""
		}
		if exp.HasAddr {
			if out.info == nil {
				if exp.Strict {
					return fmt.Sprintf("%s header: no ProxyInfo reported", exp.Class)
				}
				return ""
			}
			in := out.info
			if in.Local {
				return fmt.Sprintf("%s header reported as local: %+v", exp.Class, *in)
			}
			if !c26AddrEq(in.SourceIP, exp.Src) || !c26AddrEq(in.DestIP, exp.Dst) || in.SourcePort != exp.SPort || in.DestPort != exp.DPort {
				return fmt.Sprintf("%s header encodes src=%s:%d dst=%s:%d but ProxyInfo reports src=%s:%d dst=%s:%d",
					exp.Class, exp.Src, exp.SPort, exp.Dst, exp.DPort, in.SourceIP, in.SourcePort, in.DestIP, in.DestPort)
			}
			if !c26HostPortEq(in.SourceAddr, exp.Src, exp.SPort) || !c26HostPortEq(in.DestAddr, exp.Dst, exp.DPort) {
				return fmt.Sprintf("%s header encodes src=%s:%d dst=%s:%d but SourceAddr=%q DestAddr=%q",
					exp.Class, exp.Src, exp.SPort, exp.Dst, exp.DPort, in.SourceAddr, in.DestAddr)
			}
		}
		return ""
	case exp.NearMiss:
		return "" // universal checks only
	default:
		// clearly not a PROXY header: must pass through
		if out.err != nil {
			return fmt.Sprintf("stream without a PROXY header rejected: %v", out.err)
		}
		if out.info != nil {
			return fmt.Sprintf("stream without a PROXY header reported %+v", *out.info)
		}
		return ""
	}
}

func c26FirstDiff(a, b []byte) int {
	n := len(a)
	if len(b) < n {
		n = len(b)
	}
	for i := 0; i < n; i++ {
		if a[i] != b[i] {
			return i
		}
	}
	return n
}

// ---------------------------------------------------------------- encoders (spec side)

func c26V2Header(verCmd, famProto byte, payload []byte) []byte {
	h := make([]byte, 16, 16+len(payload))
	copy(h, c26Sig)
	h[12] = verCmd
	h[13] = famProto
	binary.BigEndian.PutUint16(h[14:16], uint16(len(payload)))
	return append(h, payload...)
}

func c26V2AddrBlock(src, dst netip.Addr, sport, dport int) []byte {
	var b []byte
	b = append(b, src.AsSlice()...)
	b = append(b, dst.AsSlice()...)
	b = binary.BigEndian.AppendUint16(b, uint16(sport))
	b = binary.BigEndian.AppendUint16(b, uint16(dport))
	return b
}

// ---------------------------------------------------------------- independent reference parser

// c26RefParse classifies a stream according to the PROXY protocol specification. It is
// deliberately strict: everything it calls a header with Strict=true is a header every
// conforming receiver must accept.
func c26RefParse(s []byte) c26Expect {
	if len(s) >= 12 && bytes.Equal(s[:12], c26Sig) {
		return c26RefV2(s)
	}
	if len(s) >= 5 && string(s[:5]) == "PROXY" {
		return c26RefV1(s)
	}
	if len(s) >= 5 && bytes.Equal(s[:5], c26Sig[:5]) {
		if len(s) >= 12 {
			// all 12 bytes are there and they are NOT the v2 signature: this is a connection
			// without a PROXY header, it must pass through untouched
			return c26Expect{Class: "lookalike-v2-signature"}
		}
		// fewer than 12 bytes before EOF: cannot be told apart from a cut-off header
		return c26Expect{NearMiss: true, Class: "nearmiss-v2-signature"}
	}
	if len(s) < 5 {
		// shorter than any header: "PROX"-like prefixes at EOF are near misses
		if bytes.HasPrefix([]byte("PROXY"), s) || bytes.HasPrefix(c26Sig, s) {
			if len(s) > 0 {
				return c26Expect{NearMiss: true, Class: "nearmiss-short-prefix"}
			}
		}
		return c26Expect{Class: "plain-short"}
	}
	return c26Expect{Class: "plain"}
}

func c26RefV2(s []byte) c26Expect {
	bad := c26Expect{NearMiss: true, Class: "nearmiss-v2-malformed"}
	if len(s) < 16 {
		return bad
	}
	ver, cmd := s[12]>>4, s[12]&0x0f
	fam, proto := s[13]>>4, s[13]&0x0f
	l := int(binary.BigEndian.Uint16(s[14:16]))
	if ver != 2 || cmd > 1 || fam > 3 || proto > 2 || len(s) < 16+l {
		return bad
	}
	e := c26Expect{Header: true, HeaderLen: 16 + l}
	if cmd == 0 {
		e.Local, e.Strict, e.Class = true, true, "v2-local"
		return e
	}
	p := s[16 : 16+l]
	switch {
	case fam == 1 && proto != 0:
		if l < 12 {
			return bad
		}
		e.HasAddr = true
		e.Src, _ = netip.AddrFromSlice(p[0:4])
		e.Dst, _ = netip.AddrFromSlice(p[4:8])
		e.SPort, e.DPort = int(binary.BigEndian.Uint16(p[8:10])), int(binary.BigEndian.Uint16(p[10:12]))
		e.Strict = proto == 1
		e.Class = map[byte]string{1: "v2-tcp4", 2: "v2-udp4"}[proto]
	case fam == 2 && proto != 0:
		if l < 36 {
			return bad
		}
		e.HasAddr = true
		e.Src, _ = netip.AddrFromSlice(p[0:16])
		e.Dst, _ = netip.AddrFromSlice(p[16:32])
		e.SPort, e.DPort = int(binary.BigEndian.Uint16(p[32:34])), int(binary.BigEndian.Uint16(p[34:36]))
		e.Strict = proto == 1
		e.Class = map[byte]string{1: "v2-tcp6", 2: "v2-udp6"}[proto]
	case fam == 3 && proto != 0:
		if l < 216 {
			return bad
		}
		e.AddrFree, e.Class = true, "v2-unix"
	default:
		// AF_UNSPEC and/or unspecified transport: receiver may accept (ignoring addresses) or reject
		e.AddrFree, e.Class = true, "v2-unspec"
	}
	return e
}

func c26DecPort(f string) (int, bool) {
	if f == "" || len(f) > 5 || (len(f) > 1 && f[0] == '0') {
		return 0, false
	}
	n := 0
	for i := 0; i < len(f); i++ {
		if f[i] < '0' || f[i] > '9' {
			return 0, false
		}
		n = n*10 + int(f[i]-'0')
	}
	return n, n <= 65535
}

func c26RefV1(s []byte) c26Expect {
	bad := c26Expect{NearMiss: true, Class: "nearmiss-v1-malformed"}
	lim := len(s)
	if lim > 107 {
		lim = 107
	}
	i := bytes.Index(s[:lim], []byte("\r\n"))
	if i < 0 {
		return bad
	}
	line := string(s[:i])
	if strings.ContainsAny(line, "\n\r\x00") {
		return bad
	}
	e := c26Expect{Header: true, HeaderLen: i + 2, Strict: true}
	if line == "PROXY UNKNOWN" || strings.HasPrefix(line, "PROXY UNKNOWN ") {
		e.Local, e.Class = true, "v1-unknown"
		return e
	}
	f := strings.Split(line, " ")
	if len(f) != 6 || f[0] != "PROXY" || (f[1] != "TCP4" && f[1] != "TCP6") {
		return bad
	}
	src, err1 := netip.ParseAddr(f[2])
	dst, err2 := netip.ParseAddr(f[3])
	if err1 != nil || err2 != nil || src.Zone() != "" || dst.Zone() != "" {
		return bad
	}
	if f[1] == "TCP4" && !(src.Is4() && dst.Is4()) {
		return bad
	}
	dotted := func(text string, a netip.Addr) bool { return strings.Contains(text, ".") && !a.Is4In6() }
	if f[1] == "TCP6" && !(src.Is6() && dst.Is6() && !dotted(f[2], src) && !dotted(f[3], dst)) {
		return bad
	}
	sp, ok1 := c26DecPort(f[4])
	dp, ok2 := c26DecPort(f[5])
	if !ok1 || !ok2 {
		return bad
	}
	e.HasAddr, e.Src, e.Dst, e.SPort, e.DPort = true, src, dst, sp, dp
	e.Class = "v1-" + strings.ToLower(f[1])
	return e
}

// c26KnownExcluded reports whether the stream is in the domain of the listed finding: a v2
// PROXY header for AF_INET/AF_INET6 whose transport nibble differs from its family nibble
// (TCP over IPv6 = 0x21, UDP over IPv4 = 0x12).
func c26KnownExcluded(s []byte) bool {
	if len(s) < 16 || !bytes.Equal(s[:12], c26Sig) {
		return false
	}
	if s[12]>>4 != 2 || s[12]&0x0f != 1 {
		return false
	}
	fam, proto := s[13]>>4, s[13]&0x0f
	return (fam == 1 || fam == 2) && (proto == 1 || proto == 2) && fam != proto
}

// ---------------------------------------------------------------- generators

func c26GenAddr4(t *rapid.T, label string) netip.Addr {
	b := rapid.SliceOfN(rapid.Byte(), 4, 4).Draw(t, label)
	a, _ := netip.AddrFromSlice(b)
	return a
}

func c26GenAddr6(t *rapid.T, label string) netip.Addr {
	kind := rapid.IntRange(0, 4).Draw(t, label+"-kind")
	var b [16]byte
	switch kind {
	case 0:
		copy(b[:], rapid.SliceOfN(rapid.Byte(), 16, 16).Draw(t, label))
	case 1: // ::1-like
		b[15] = rapid.Byte().Draw(t, label)
	case 2: // 2001:db8::x
		b[0], b[1], b[2], b[3] = 0x20, 0x01, 0x0d, 0xb8
		b[15] = rapid.Byte().Draw(t, label)
	case 3: // runs of zeros in the middle
		copy(b[:], rapid.SliceOfN(rapid.Byte(), 16, 16).Draw(t, label))
		for i := 4; i < 12; i++ {
			b[i] = 0
		}
	case 4: // fe80::
		b[0], b[1] = 0xfe, 0x80
		copy(b[8:], rapid.SliceOfN(rapid.Byte(), 8, 8).Draw(t, label))
	}
	a := netip.AddrFrom16(b)
	if a.Is4In6() {
		b[0] = 0x20
		a = netip.AddrFrom16(b)
	}
	if rapid.IntRange(0, 5).Draw(t, label+"-mapped") == 0 {
		// IPv4-mapped IPv6 (::ffff:a.b.c.d): what a dual-stack load balancer reports for IPv4 peers
		var m [16]byte
		m[10], m[11] = 0xff, 0xff
		copy(m[12:], rapid.SliceOfN(rapid.Byte(), 4, 4).Draw(t, label+"-v4"))
		a = netip.AddrFrom16(m)
	}
	return a
}

func c26GenPort(t *rapid.T, label string) int {
	return rapid.OneOf(rapid.IntRange(0, 65535), rapid.SampledFrom([]int{0, 1, 80, 255, 256, 9092, 32768, 65535, 0x1234})).Draw(t, label)
}

func c26GenTrailing(t *rapid.T) []byte {
	kind := rapid.IntRange(0, 9).Draw(t, "trail-kind")
	switch {
	case kind == 0:
		return nil
	case kind <= 3: // a Kafka-looking frame
		n := rapid.IntRange(8, 200).Draw(t, "trail-n")
		b := rapid.SliceOfN(rapid.Byte(), n, n).Draw(t, "trail")
		f := binary.BigEndian.AppendUint32(nil, uint32(n))
		return append(f, b...)
	case kind <= 5:
		n := rapid.IntRange(1, 64).Draw(t, "trail-n")
		return rapid.SliceOfN(rapid.Byte(), n, n).Draw(t, "trail")
	case kind == 6: // looks like another header: must not be consumed
		if rapid.Bool().Draw(t, "trail-v1") {
			return []byte("PROXY TCP4 9.9.9.9 8.8.8.8 1 2\r\nrest")
		}
		return append(c26V2Header(0x21, 0x11, c26V2AddrBlock(netip.MustParseAddr("9.9.9.9"), netip.MustParseAddr("8.8.8.8"), 1, 2)), []byte("rest")...)
	case kind == 7: // larger than bufio's 4096 buffer
		n := rapid.IntRange(4097, 9000).Draw(t, "trail-n")
		seed := rapid.Byte().Draw(t, "trail-seed")
		b := make([]byte, n)
		for i := range b {
			b[i] = seed + byte(i*31) + byte(i>>8)
		}
		return b
	default:
		n := rapid.IntRange(65, 4096).Draw(t, "trail-n")
		seed := rapid.Byte().Draw(t, "trail-seed")
		b := make([]byte, n)
		for i := range b {
			b[i] = seed ^ byte(i*7) ^ byte(i>>8)
		}
		return b
	}
}

func c26GenChunks(t *rapid.T) ([]int, string) {
	switch rapid.IntRange(0, 4).Draw(t, "chunk-kind") {
	case 0:
		return nil, "all-at-once"
	case 1:
		return []int{1}, "byte-by-byte"
	case 2:
		k := rapid.IntRange(2, 40).Draw(t, "chunk")
		return []int{k}, "fixed-small"
	case 3:
		return rapid.SliceOfN(rapid.IntRange(1, 30), 1, 8).Draw(t, "chunks"), "varying"
	default:
		return rapid.SliceOfN(rapid.SampledFrom([]int{1, 4, 5, 11, 12, 13, 15, 16, 17, 28, 52, 4095, 4096, 4097}), 1, 5).Draw(t, "chunks"), "boundary"
	}
}

// c26GenReadSizes draws the buffer sizes the consumer passes to Read, call by call.
func c26GenReadSizes(t *rapid.T) ([]int, string) {
	sizes := []int{1, 3, 4, 512, 1500, 4095, 4096, 4097, 8192, 65536}
	switch rapid.IntRange(0, 3).Draw(t, "read-kind") {
	case 0:
		return []int{rapid.SampledFrom(sizes).Draw(t, "read-size")}, "fixed"
	case 1: // the Kafka reader: 4-byte length, then the frame in one call
		return []int{4, rapid.SampledFrom([]int{4096, 8192, 65536, 200, 5000}).Draw(t, "frame-read")}, "length-then-frame"
	case 2:
		return []int{rapid.SampledFrom([]int{4096, 8192, 65536}).Draw(t, "read-size")}, "large"
	default:
		return rapid.SliceOfN(rapid.SampledFrom(sizes), 2, 6).Draw(t, "read-sizes"), "mixed"
	}
}

// c26GenTLVs draws the TLV section that follows an address block of blockLen bytes. One case
// in eight pads the header with a NOOP TLV so that the v2 length field lands around the sizes
// where buffering matters: 4080 (16+4080 = bufio's 4096), 8192, and the 65535 limit.
func c26GenTLVs(t *rapid.T, blockLen int) []byte {
	if rapid.IntRange(0, 7).Draw(t, "tlv-big?") == 3 {
		payloadLen := rapid.SampledFrom([]int{4079, 4080, 4081, 4096, 4100, 8176, 8192, 8193, 20000, 65534, 65535}).Draw(t, "tlv-payload-len")
		var out []byte
		if rapid.Bool().Draw(t, "tlv-authority-first") {
			out = append(out, 0x02, 0x00, 0x0b)
			out = append(out, "kafka.local"...)
		}
		l := payloadLen - blockLen - len(out) - 3
		if l >= 0 {
			typ := rapid.SampledFrom([]byte{0x04, 0x04, 0xEA, 0xE0}).Draw(t, "tlv-big-type")
			out = append(out, typ, byte(l>>8), byte(l))
			pad := make([]byte, l)
			if typ != 0x04 {
				for i := range pad {
					pad[i] = byte(i*7) + byte(i>>8)
				}
			}
			return append(out, pad...)
		}
	}
	if rapid.IntRange(0, 2).Draw(t, "tlv?") == 0 {
		return nil
	}
	var out []byte
	n := rapid.IntRange(1, 3).Draw(t, "tlvs")
	for i := 0; i < n; i++ {
		typ := rapid.SampledFrom([]byte{0x01, 0x02, 0x03, 0x04, 0x05, 0x20, 0x30, 0xE0, 0xEA}).Draw(t, "tlv-type")
		l := rapid.IntRange(0, 66).Draw(t, "tlv-len")
		v := rapid.SliceOfN(rapid.Byte(), l, l).Draw(t, "tlv-val")
		out = append(out, typ, byte(l>>8), byte(l))
		out = append(out, v...)
	}
	return out
}

// c26GenHeader draws one header (or a non-header prefix) and returns its bytes plus the
// expectation derived from the drawn values (not from parsing the bytes).
func c26GenHeader(t *rapid.T, st *vfkit.Stats) ([]byte, c26Expect) {
	known := vfkit.Known(c26FindingFamily)
	kind := rapid.SampledFrom([]string{
		"v1-tcp4", "v1-tcp6", "v1-unknown", "v1-lenient",
		"v2-proxy", "v2-proxy", "v2-proxy", "v2-local", "v2-addrfree",
		"plain", "nearmiss", "nearmiss", "random",
	}).Draw(t, "kind")
	switch kind {
	case "v1-tcp4", "v1-tcp6":
		var src, dst netip.Addr
		fam := "TCP4"
		if kind == "v1-tcp4" {
			src, dst = c26GenAddr4(t, "src"), c26GenAddr4(t, "dst")
		} else {
			fam = "TCP6"
			src, dst = c26GenAddr6(t, "src"), c26GenAddr6(t, "dst")
		}
		sp, dp := c26GenPort(t, "sport"), c26GenPort(t, "dport")
		ss, ds := src.String(), dst.String()
		if fam == "TCP6" {
			spell := func(a netip.Addr, how int) string {
				switch how {
				case 1:
					return a.StringExpanded()
				case 2:
					return strings.ToUpper(a.String())
				case 3: // compressed form, every group written with its leading zeros
					parts := strings.Split(a.String(), ":")
					for i, p := range parts {
						if p != "" && !strings.Contains(p, ".") {
							parts[i] = strings.Repeat("0", 4-len(p)) + p
						}
					}
					return strings.Join(parts, ":")
				case 4: // IPv4-mapped in pure hex spelling (::ffff:c000:20a)
					if a.Is4In6() {
						b := a.As16()
						return fmt.Sprintf("::ffff:%x:%x", uint16(b[12])<<8|uint16(b[13]), uint16(b[14])<<8|uint16(b[15]))
					}
				}
				return a.String() // canonical; dotted tail for IPv4-mapped
			}
			ss, ds = spell(src, rapid.IntRange(0, 4).Draw(t, "v6-text-src")), spell(dst, rapid.IntRange(0, 4).Draw(t, "v6-text-dst"))
			if src.Is4In6() || dst.Is4In6() {
				kind = "v1-tcp6-v4mapped"
			}
		}
		line := fmt.Sprintf("PROXY %s %s %s %d %d\r\n", fam, ss, ds, sp, dp)
		return []byte(line), c26Expect{Header: true, HeaderLen: len(line), Strict: len(line) <= 107, HasAddr: true,
			Src: src, Dst: dst, SPort: sp, DPort: dp, Class: kind}
	case "v1-unknown":
		line := "PROXY UNKNOWN"
		if rapid.Bool().Draw(t, "unknown-extra") {
			n := rapid.IntRange(1, 107-2-len(line)-1).Draw(t, "extra-n")
			extra := rapid.SliceOfN(rapid.SampledFrom(c26Printable), n, n).Draw(t, "extra")
			line += " " + string(extra)
		}
		line += "\r\n"
		return []byte(line), c26Expect{Header: true, HeaderLen: len(line), Strict: true, Local: true, Class: kind}
	case "v1-lenient":
		// deviations receivers commonly tolerate: bare LF terminator, or a line longer than
		// 107 bytes. Error acceptable; if accepted the addresses and the stream must be right.
		src, dst := c26GenAddr4(t, "src"), c26GenAddr4(t, "dst")
		sp, dp := c26GenPort(t, "sport"), c26GenPort(t, "dport")
		if rapid.Bool().Draw(t, "lf-only") {
			line := fmt.Sprintf("PROXY TCP4 %s %s %d %d\n", src, dst, sp, dp)
			return []byte(line), c26Expect{Header: true, HeaderLen: len(line), HasAddr: true, Src: src, Dst: dst, SPort: sp, DPort: dp, Class: "v1-lf-only"}
		}
		n := rapid.IntRange(100, 400).Draw(t, "long-n")
		line := "PROXY UNKNOWN " + strings.Repeat("x", n) + "\r\n"
		return []byte(line), c26Expect{Header: true, HeaderLen: len(line), Local: true, Class: "v1-overlong"}
	case "v2-proxy":
		type fp struct {
			b      byte
			strict bool
			class  string
		}
		combos := []fp{{0x11, true, "v2-tcp4"}, {0x21, true, "v2-tcp6"}, {0x12, false, "v2-udp4"}, {0x22, false, "v2-udp6"}}
		c := rapid.SampledFrom(combos).Draw(t, "famproto")
		if known && (c.b == 0x21 || c.b == 0x12) {
			// listed finding: family taken from the transport nibble. Steer to the two
			// combinations that are not affected.
			st.ExcludedCase(c26FindingFamily)
			if c.b == 0x21 {
				c = combos[3]
			} else {
				c = combos[0]
			}
		}
		var src, dst netip.Addr
		if c.b>>4 == 1 {
			src, dst = c26GenAddr4(t, "src"), c26GenAddr4(t, "dst")
		} else {
			src, dst = c26GenAddr6(t, "src"), c26GenAddr6(t, "dst")
		}
		sp, dp := c26GenPort(t, "sport"), c26GenPort(t, "dport")
		payload := c26V2AddrBlock(src, dst, sp, dp)
		tlv := c26GenTLVs(t, len(payload))
		payload = append(payload, tlv...)
		cmdHigh := byte(0x20)
		h := c26V2Header(cmdHigh|0x01, c.b, payload)
		cl := c.class
		if len(tlv) > 0 {
			cl += "+tlv"
		}
		if len(payload) >= 4000 {
			cl += "+big"
		}
		return h, c26Expect{Header: true, HeaderLen: len(h), Strict: c.strict, HasAddr: true, Src: src, Dst: dst, SPort: sp, DPort: dp, Class: cl}
	case "v2-local":
		// LOCAL: address block may be absent, or present and to be ignored
		var payload []byte
		fb := byte(0x00)
		switch rapid.IntRange(0, 3).Draw(t, "local-shape") {
		case 1:
			fb = 0x11
			payload = c26V2AddrBlock(c26GenAddr4(t, "src"), c26GenAddr4(t, "dst"), c26GenPort(t, "sport"), c26GenPort(t, "dport"))
		case 2:
			fb = 0x21
			payload = c26V2AddrBlock(c26GenAddr6(t, "src"), c26GenAddr6(t, "dst"), c26GenPort(t, "sport"), c26GenPort(t, "dport"))
		case 3:
			payload = c26GenTLVs(t, 0)
		}
		h := c26V2Header(0x20, fb, payload)
		cl := "v2-local"
		if len(payload) > 0 {
			cl += "+payload"
		}
		return h, c26Expect{Header: true, HeaderLen: len(h), Strict: true, Local: true, Class: cl}
	case "v2-addrfree":
		// PROXY command with AF_UNSPEC / unspecified transport / AF_UNIX: the receiver may ignore
		// the addresses or reject; only the stream is asserted.
		fb := rapid.SampledFrom([]byte{0x00, 0x10, 0x20, 0x01, 0x02, 0x31, 0x32}).Draw(t, "famproto")
		var payload []byte
		cl := "v2-unspec"
		if fb>>4 == 3 {
			payload = make([]byte, 216)
			copy(payload, "/var/run/src.sock")
			copy(payload[108:], "/var/run/dst.sock")
			cl = "v2-unix"
		} else if rapid.Bool().Draw(t, "unspec-payload") {
			n := rapid.IntRange(1, 60).Draw(t, "unspec-n")
			payload = rapid.SliceOfN(rapid.Byte(), n, n).Draw(t, "unspec-bytes")
		}
		h := c26V2Header(0x21, fb, payload)
		return h, c26Expect{Header: true, HeaderLen: len(h), AddrFree: true, Class: cl}
	case "plain":
		// what a Kafka client sends first: a request frame
		n := rapid.IntRange(0, 300).Draw(t, "plain-n")
		b := rapid.SliceOfN(rapid.Byte(), n, n).Draw(t, "plain")
		if rapid.Bool().Draw(t, "kafka-frame") {
			b = append(binary.BigEndian.AppendUint32(nil, uint32(len(b))), b...)
		}
		return b, c26Expect{}
	case "nearmiss":
		switch rapid.IntRange(0, 7).Draw(t, "nearmiss-kind") {
		case 0: // every proper prefix of "PROXY" / "PROXY " followed by something else
			k := rapid.IntRange(1, 5).Draw(t, "prefix")
			n := rapid.IntRange(0, 40).Draw(t, "n")
			b := append([]byte("PROXY "[:k]), rapid.SliceOfN(rapid.Byte(), n, n).Draw(t, "b")...)
			if len(b) > k && b[k] == "PROXY "[k] {
				b[k] ^= 0x20
			}
			return b, c26Expect{}
		case 6, 7: // every proper prefix (1..11 bytes) of the v2 signature followed by other bytes
			k := rapid.IntRange(1, 11).Draw(t, "prefix")
			n := rapid.SampledFrom([]int{0, 1, 5, 7, 11, 12, 16, 28, 40, 300}).Draw(t, "n")
			b := append(append([]byte(nil), c26Sig[:k]...), rapid.SliceOfN(rapid.Byte(), n, n).Draw(t, "b")...)
			if len(b) > k && b[k] == c26Sig[k] {
				b[k] ^= 0x55
			}
			return b, c26Expect{}
		case 1: // signature with one byte altered
			s := append([]byte(nil), c26Sig...)
			i := rapid.IntRange(0, 11).Draw(t, "i")
			s[i] ^= byte(rapid.IntRange(1, 255).Draw(t, "x"))
			n := rapid.IntRange(0, 40).Draw(t, "n")
			return append(s, rapid.SliceOfN(rapid.Byte(), n, n).Draw(t, "b")...), c26Expect{}
		case 2: // truncated v2 header
			full := c26V2Header(0x21, 0x11, c26V2AddrBlock(c26GenAddr4(t, "src"), c26GenAddr4(t, "dst"), 1, 2))
			k := rapid.IntRange(0, len(full)-1).Draw(t, "cut")
			return full[:k], c26Expect{}
		case 3: // truncated v1 line
			full := []byte("PROXY TCP4 10.1.2.3 10.4.5.6 1000 2000\r\n")
			k := rapid.IntRange(0, len(full)-1).Draw(t, "cut")
			return full[:k], c26Expect{}
		case 4: // v1 garbage fields
			n := rapid.IntRange(0, 300).Draw(t, "n")
			g := rapid.SliceOfN(rapid.SampledFrom([]byte(" \r\n\t0123456789.:abcTCPUNKOW46-")), n, n).Draw(t, "b")
			return append([]byte("PROXY"), g...), c26Expect{}
		default: // v2 with wrong version / command / huge length
			vc := rapid.Byte().Draw(t, "vercmd")
			fb := rapid.Byte().Draw(t, "famproto")
			l := rapid.SampledFrom([]int{0, 1, 11, 12, 35, 36, 215, 216, 1000, 65535}).Draw(t, "len")
			have := rapid.IntRange(0, 300).Draw(t, "have")
			h := make([]byte, 16)
			copy(h, c26Sig)
			h[12], h[13] = vc, fb
			binary.BigEndian.PutUint16(h[14:], uint16(l))
			return append(h, rapid.SliceOfN(rapid.Byte(), have, have).Draw(t, "b")...), c26Expect{}
		}
	default:
		n := rapid.IntRange(0, 64).Draw(t, "rand-n")
		return rapid.SliceOfN(rapid.Byte(), n, n).Draw(t, "rand"), c26Expect{}
	}
}

// printable ASCII without CR/LF for the ignored part of an UNKNOWN line
var c26Printable = func() []byte {
	var b []byte
	for c := byte(0x20); c < 0x7f; c++ {
		b = append(b, c)
	}
	return b
}()

func TestVF_C26_Stream(t *testing.T) {
	st := vfkit.NewStats("C26", "stream")
	defer st.Flush()
	rapid.Check(t, func(t *rapid.T) {
		st.Eval()
		head, exp := c26GenHeader(t, st)
		byConstruction := exp.Header
		var stream []byte
		if byConstruction {
			stream = append(append([]byte(nil), head...), c26GenTrailing(t)...)
		} else {
			stream = head
		}
		chunks, chunkClass := c26GenChunks(t)
		readSizes, readClass := c26GenReadSizes(t)

		// The reference parser must agree with the construction (guards the harness itself)
		ref := c26RefParse(stream)
		if byConstruction && exp.Strict {
			if !ref.Header || ref.HeaderLen != exp.HeaderLen || ref.HasAddr != exp.HasAddr || ref.Local != exp.Local ||
				(exp.HasAddr && (ref.Src != exp.Src || ref.Dst != exp.Dst || ref.SPort != exp.SPort || ref.DPort != exp.DPort)) {
				t.Fatalf("HARNESS BUG: reference parser disagrees with the generator: gen=%+v ref=%+v stream=%q", exp, ref, c26Clip(stream))
			}
		}
		if !byConstruction {
			// classify generated non-headers with the reference parser (a "near miss" draw may by
			// chance be a valid header, e.g. an altered byte restored)
			exp = ref
		}
		if vfkit.Known(c26FindingFamily) && c26KnownExcluded(stream) {
			st.ExcludedCase(c26FindingFamily)
			t.Skip("excluded: listed finding")
		}
		cl := exp.Class
		if cl == "" {
			cl = "plain"
		}
		st.Class(cl)
		st.Class("chunks:" + chunkClass)

		st.Class("reads:" + readClass)
		out := c26Run(stream, chunks, readSizes...)
		if out.err != nil {
			st.Class("outcome:error")
		} else if out.info == nil {
			st.Class("outcome:passthrough")
		} else {
			st.Class("outcome:header")
		}
		if !exp.Header && out.err == nil && out.info != nil {
			st.Class("note:non-spec-header-accepted")
		}
		if exp.Class == "v2-unix" && out.err == nil && out.info != nil && !out.info.Local {
			st.Class("note:unix-reported-as-ip")
		}
		if msg := c26Judge(stream, exp, out); msg != "" {
			t.Fatalf("%s\nstream(%d)=%q chunks=%v consumer read sizes=%v", msg, len(stream), c26Clip(stream), chunks, readSizes)
		}

		trailing := 0
		if exp.Header {
			trailing = len(stream) - exp.HeaderLen
		}
		split := exp.Header && len(chunks) > 0 && chunks[0] < exp.HeaderLen
		nt := exp.Header && (strings.Contains(exp.Class, "tlv") || strings.Contains(exp.Class, "6") || split || trailing > 4096)
		if nt {
			if split {
				st.Class("nt:header-split-across-reads")
			}
			if trailing > 4096 {
				st.Class("nt:trailing>bufio")
			}
			if trailing > 0 && len(chunks) == 0 {
				st.Class("nt:header+trailing-in-one-read")
				for _, rs := range readSizes {
					if rs >= 4096 && trailing > 4096 {
						st.Class("nt:large-consumer-read-while-bytes-buffered")
						break
					}
				}
			}
			if st.NonTrivial(exp.Class, string(stream[:exp.HeaderLen]), trailing, chunks, readSizes) {
				st.Sample(map[string]any{"class": exp.Class, "header_hex": fmt.Sprintf("%x", c26Clip(stream[:exp.HeaderLen])), "trailing": trailing, "chunks": chunks})
			}
		}
	})
}

func c26Clip(b []byte) []byte {
	if len(b) > 160 {
		return b[:160]
	}
	return b
}

// ---------------------------------------------------------------- witness of the listed finding

func c26WitnessStream() ([]byte, c26Expect) {
	src, dst := netip.MustParseAddr("2001:db8::1"), netip.MustParseAddr("2001:db8::2")
	h := c26V2Header(0x21, 0x21, c26V2AddrBlock(src, dst, 1234, 5678)) // v2, PROXY, AF_INET6 + STREAM
	stream := append(h, []byte("\x00\x00\x00\x08rest-of-stream")...)
	return stream, c26Expect{Header: true, HeaderLen: len(h), Strict: true, HasAddr: true, Src: src, Dst: dst, SPort: 1234, DPort: 5678, Class: "v2-tcp6"}
}

func TestVF_C26_Witness(t *testing.T) {
	st := vfkit.NewStats("C26", "witness")
	defer st.Flush()
	st.Eval()
	stream, exp := c26WitnessStream()
	if ref := c26RefParse(stream); !ref.Header || ref.Src != exp.Src || ref.HeaderLen != exp.HeaderLen {
		t.Fatalf("HARNESS BUG: witness is not a valid header for the reference parser: %+v", ref)
	}
	out := c26Run(stream, nil)
	msg := c26Judge(stream, exp, out)
	what := "PROXY v2 header with byte 13 = 0x21 (TCP over IPv6, 36-byte address block 2001:db8::1:1234 -> 2001:db8::2:5678): "
	if msg != "" {
		what += msg
	} else {
		what += "addresses reported correctly"
	}
	st.KnownResult(c26FindingFamily, msg != "", what)
	if msg != "" && !vfkit.Known(c26FindingFamily) {
		t.Fatalf("regression of a repaired finding (%s is not listed as known): %s", c26FindingFamily, what)
	}
	st.NonTrivial("witness", msg != "")
	st.Sample(map[string]any{"witness_hex": fmt.Sprintf("%x", stream), "result": what})
	t.Log(what)
}

// ---------------------------------------------------------------- native fuzz (thorough tier)

func c26FuzzOne(data []byte) string {
	if len(data) == 0 {
		return ""
	}
	chunk := int(data[0] & 0x3f)
	stream := data[1:]
	var chunks []int
	if chunk > 0 {
		chunks = []int{chunk}
	}
	readSize := []int{1500, 4, 4096, 65536}[data[0]>>6]
	exp := c26RefParse(stream)
	if vfkit.Known(c26FindingFamily) && c26KnownExcluded(stream) {
		return ""
	}
	out := c26Run(stream, chunks, readSize)
	return c26Judge(stream, exp, out)
}

func c26Seeds() [][]byte {
	var seeds [][]byte
	add := func(chunk byte, b []byte) { seeds = append(seeds, append([]byte{chunk}, b...)) }
	add(0, []byte("PROXY TCP4 192.168.0.1 192.168.0.11 56324 443\r\nGET"))
	add(1, []byte("PROXY TCP6 2001:db8::1 ::1 1 65535\r\n\x00\x00\x00\x04abcd"))
	add(3, []byte("PROXY UNKNOWN\r\nxyz"))
	add(0, []byte("PROXY UNKNOWN ffff:f...f:ffff ffff:f...f:ffff 65535 65535\r\n"))
	add(0, append(c26V2Header(0x21, 0x11, c26V2AddrBlock(netip.MustParseAddr("10.0.0.1"), netip.MustParseAddr("10.0.0.2"), 1234, 5678)), []byte("rest")...))
	add(5, append(c26V2Header(0x21, 0x22, append(c26V2AddrBlock(netip.MustParseAddr("::1"), netip.MustParseAddr("::2"), 8080, 9090), 0x04, 0x00, 0x02, 0xaa, 0xbb)), []byte("rest")...))
	add(0, append(c26V2Header(0x20, 0x00, nil), []byte("rest")...))
	add(0, append(c26V2Header(0x21, 0x00, []byte{1, 2, 3}), []byte("rest")...))
	w, _ := c26WitnessStream()
	add(0, w)
	add(0, []byte("\x00\x00\x00\x10\x00\x12\x00\x03\x00\x00\x00\x01\x00\x04test\x00"))
	add(0, []byte("\r\n\r\n\x00\r\nQUI"))
	add(0, []byte("PROX"))
	return seeds
}

func FuzzVF_C26_Parse(f *testing.F) {
	for _, s := range c26Seeds() {
		f.Add(s)
	}
	f.Fuzz(func(t *testing.T, data []byte) {
		if len(data) > 1<<16 {
			return
		}
		if msg := c26FuzzOne(data); msg != "" {
			t.Fatalf("%s\ninput=%q", msg, c26Clip(data))
		}
	})
}

// TestVF_C26_ReplayFuzz replays a native-fuzz corpus file (VF_REPLAY_FILE) or, without one,
// the seed corpus.
func TestVF_C26_ReplayFuzz(t *testing.T) {
	inputs := c26Seeds()
	if p := os.Getenv("VF_REPLAY_FILE"); p != "" {
		b, err := c26ReadCorpusFile(p)
		if err != nil {
			fmt.Println("VF-INCONCLUSIVE: cannot read corpus file:", err)
			t.Fatalf("cannot read corpus file %s: %v", p, err)
		}
		inputs = [][]byte{b}
	}
	for _, in := range inputs {
		if msg := c26FuzzOne(in); msg != "" {
			t.Fatalf("%s\ninput=%q", msg, c26Clip(in))
		}
	}
}

func c26ReadCorpusFile(path string) ([]byte, error) {
	raw, err := os.ReadFile(path)
	if err != nil {
		return nil, err
	}
	lines := strings.Split(strings.TrimSpace(string(raw)), "\n")
	if len(lines) < 2 || !strings.HasPrefix(lines[0], "go test fuzz v1") {
		return nil, fmt.Errorf("not a go fuzz corpus file")
	}
	l := strings.TrimSpace(lines[1])
	if !strings.HasPrefix(l, "[]byte(") || !strings.HasSuffix(l, ")") {
		return nil, fmt.Errorf("unexpected corpus line %q", l)
	}
	s, err := strconv.Unquote(l[len("[]byte(") : len(l)-1])
	if err != nil {
		return nil, err
	}
	return []byte(s), nil
}
