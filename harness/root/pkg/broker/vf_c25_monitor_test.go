//go:build verif

package broker

import (
	"errors"
	"fmt"
	"testing"
	"testing/synctest"
	"time"

	"pgregory.net/rapid"
	"verif.local/vfkit"
)

// C25, monitor leg: the health rating is a function of the error rate and mean latency of
// the samples inside the window (reference recomputation), it is monotone (a pointwise
// worse history never rates better), window-local (samples older than the window do not
// matter) and independent of anything else (operation labels).
//
// Not fixed by the statement or docs and therefore accepted either way: a value exactly ON
// a threshold (>= vs >), and a sample exactly one window old.

type c25Ev struct {
	DtMs   int64 `json:"dt_ms"`
	LatMs  int64 `json:"lat_ms"`
	Err    bool  `json:"err"`
	WorseL int64 `json:"worse_extra_lat_ms"`
	WorseE bool  `json:"worse_err"`
}

type c25Cfg struct {
	WindowMs         int64
	LatWarn, LatCrit int64 // ms
	ErrWarnNum       int64 // thresholds as k/20
	ErrCritNum       int64
	MaxSamples       int // 0 = default (512)
}

const c25Den = 20

func (c c25Cfg) monitorConfig() S3HealthConfig {
	return S3HealthConfig{
		Window:      time.Duration(c.WindowMs) * time.Millisecond,
		LatencyWarn: time.Duration(c.LatWarn) * time.Millisecond,
		LatencyCrit: time.Duration(c.LatCrit) * time.Millisecond,
		ErrorWarn:   float64(c.ErrWarnNum) / float64(c25Den),
		ErrorCrit:   float64(c.ErrCritNum) / float64(c25Den),
		MaxSamples:  c.MaxSamples,
	}
}

func c25Rank(s S3HealthState) int {
	switch s {
	case S3StateHealthy:
		return 0
	case S3StateDegraded:
		return 1
	case S3StateUnavailable:
		return 2
	}
	return -1
}

type c25Sample struct {
	atMs  int64
	latMs int64
	err   bool
}

// c25RefRating: rating of a sample set; onThreshold decides whether a value exactly on a
// threshold counts as reaching it.
func c25RefRating(c c25Cfg, set []c25Sample, onThreshold bool) int {
	n := int64(len(set))
	if n == 0 {
		return 0
	}
	var sum, errs int64
	for _, s := range set {
		sum += s.latMs
		if s.err {
			errs++
		}
	}
	reach := func(lhs, rhs int64) bool { // lhs/.. >= rhs/.. on a common denominator
		if onThreshold {
			return lhs >= rhs
		}
		return lhs > rhs
	}
	// mean latency = sum/n vs threshold T  <=> sum vs T*n ; error rate = errs/n vs k/20 <=> errs*20 vs k*n
	if reach(sum, c.LatCrit*n) || reach(errs*c25Den, c.ErrCritNum*n) {
		return 2
	}
	if reach(sum, c.LatWarn*n) || reach(errs*c25Den, c.ErrWarnNum*n) {
		return 1
	}
	return 0
}

// c25Allowed returns the set of ratings the statement permits at time nowMs.
func c25Allowed(c c25Cfg, all []c25Sample, nowMs int64) (allowed [3]bool, inWindow int, ambiguous bool) {
	var strict, withEdge []c25Sample
	for _, s := range all {
		age := nowMs - s.atMs
		if age < c.WindowMs {
			strict = append(strict, s)
			withEdge = append(withEdge, s)
		} else if age == c.WindowMs {
			withEdge = append(withEdge, s)
		}
	}
	// the MaxSamples knob: only the newest MaxSamples samples are kept
	capN := c.MaxSamples
	if capN <= 0 {
		capN = 512
	}
	if len(strict) > capN {
		strict = strict[len(strict)-capN:]
	}
	if len(withEdge) > capN {
		withEdge = withEdge[len(withEdge)-capN:]
	}
	for _, set := range [][]c25Sample{strict, withEdge} {
		for _, on := range []bool{true, false} {
			allowed[c25RefRating(c, set, on)] = true
		}
	}
	k := 0
	for _, a := range allowed {
		if a {
			k++
		}
	}
	return allowed, len(strict), k > 1
}

func TestVF_C25_Monitor(t *testing.T) {
	st := vfkit.NewStats("C25", "monitor")
	defer st.Flush()
	rapid.Check(t, func(rt *rapid.T) {
		st.Eval()
		c := c25Cfg{}
		c.WindowMs = rapid.SampledFrom([]int64{1000, 10000, 60000}).Draw(rt, "windowMs")
		c.LatWarn = rapid.SampledFrom([]int64{1, 10, 100, 500}).Draw(rt, "latWarnMs")
		c.LatCrit = c.LatWarn * rapid.SampledFrom([]int64{2, 3, 6, 10}).Draw(rt, "latCritFactor")
		c.ErrWarnNum = int64(rapid.IntRange(1, 12).Draw(rt, "errWarnNum"))
		c.ErrCritNum = c.ErrWarnNum + int64(rapid.IntRange(1, 20-int(c.ErrWarnNum)).Draw(rt, "errCritExtra"))
		if rapid.IntRange(0, 2).Draw(rt, "smallCap") > 0 {
			c.MaxSamples = rapid.IntRange(3, 20).Draw(rt, "maxSamples")
		}
		ordered := true
		if rapid.IntRange(0, 11).Draw(rt, "oddThresholds") == 0 {
			// warn >= crit: the statement does not say what wins; only the metamorphic laws apply
			ordered = false
			c.LatCrit = c.LatWarn / rapid.SampledFrom([]int64{1, 2}).Draw(rt, "latCritDiv")
			if c.LatCrit == 0 {
				c.LatCrit = 1
			}
			c.ErrCritNum = int64(rapid.IntRange(1, int(c.ErrWarnNum)).Draw(rt, "errCritOdd"))
		}
		latAlphabet := []int64{0, 1, c.LatWarn - 1, c.LatWarn, c.LatWarn + 1, c.LatCrit - 1, c.LatCrit, c.LatCrit + 1, 2 * c.LatCrit, 10 * c.LatCrit, c.LatWarn / 2}
		for i, v := range latAlphabet {
			if v < 0 {
				latAlphabet[i] = 0
			}
		}
		dtAlphabet := []int64{0, 0, 1, 7, c.WindowMs / 10, c.WindowMs / 4, c.WindowMs / 2, c.WindowMs - 1, c.WindowMs, c.WindowMs + 1}
		errBias := rapid.SampledFrom([]int{0, 1, 3, 6, 9}).Draw(rt, "errBias") // of 10
		latBias := rapid.IntRange(0, len(latAlphabet)-1).Draw(rt, "latBias")
		n := rapid.IntRange(1, 40).Draw(rt, "n")
		dense := c.MaxSamples > 0 && rapid.IntRange(0, 3).Draw(rt, "dense") > 0 // many samples inside one window
		// S3 behaviour changes at some point of the history (outage / recovery)
		phaseAt := rapid.IntRange(0, n).Draw(rt, "phaseAt")
		errBias2 := rapid.SampledFrom([]int{0, 10, 10, 5}).Draw(rt, "errBiasAfter")
		latBias2 := rapid.IntRange(0, len(latAlphabet)-1).Draw(rt, "latBiasAfter")
		evs := make([]c25Ev, n)
		worseCount := 0
		overCap := false
		for i := range evs {
			e := c25Ev{}
			e.DtMs = rapid.SampledFrom(dtAlphabet).Draw(rt, "dt")
			if dense {
				e.DtMs = rapid.SampledFrom([]int64{0, 1, 1, 2, c.WindowMs / 100}).Draw(rt, "denseDt")
			}
			if i >= phaseAt {
				errBias, latBias = errBias2, latBias2
			}
			if c.MaxSamples > 0 && i >= c.MaxSamples {
				overCap = true
			}
			if rapid.IntRange(0, 2).Draw(rt, "latKind") == 0 {
				e.LatMs = latAlphabet[latBias]
			} else {
				e.LatMs = rapid.SampledFrom(latAlphabet).Draw(rt, "lat")
			}
			e.Err = rapid.IntRange(0, 9).Draw(rt, "errRoll") < errBias
			switch rapid.IntRange(0, 7).Draw(rt, "worse") {
			case 0:
				e.WorseL = rapid.SampledFrom([]int64{1, c.LatWarn, c.LatCrit, 20 * c.LatCrit}).Draw(rt, "worseLat")
			case 1:
				e.WorseE = true
			}
			if e.WorseL > 0 || (e.WorseE && !e.Err) {
				worseCount++
			}
			evs[i] = e
		}
		nPrefix := rapid.IntRange(0, 12).Draw(rt, "nPrefix")
		prefixLat := rapid.SampledFrom(latAlphabet).Draw(rt, "prefixLat")
		prefixErr := rapid.Bool().Draw(rt, "prefixErr")
		prefixGapMs := c.WindowMs + rapid.SampledFrom([]int64{1, 5, c.WindowMs}).Draw(rt, "prefixGap")
		finalWaits := []int64{rapid.SampledFrom(dtAlphabet).Draw(rt, "finalWait1"), c.WindowMs + 1}

		var fail string
		var ratings []int
		ambiguousObs, decidedObs := 0, 0
		synctest.Test(t, func(t *testing.T) {
			base := NewS3HealthMonitor(c.monitorConfig())
			worse := NewS3HealthMonitor(c.monitorConfig())
			aged := NewS3HealthMonitor(c.monitorConfig()) // same history + old samples + other labels
			t0 := time.Now()
			nowMs := func() int64 { return int64(time.Since(t0) / time.Millisecond) }
			someErr := errors.New("injected s3 error")
			toErr := func(b bool) error {
				if b {
					return someErr
				}
				return nil
			}
			for i := 0; i < nPrefix; i++ {
				aged.RecordOperation("prefix", time.Duration(prefixLat)*time.Millisecond, toErr(prefixErr))
				time.Sleep(time.Millisecond)
			}
			time.Sleep(time.Duration(prefixGapMs) * time.Millisecond)
			var hist []c25Sample
			observe := func(where string) {
				now := nowMs()
				sb, sw, sa := base.State(), worse.State(), aged.State()
				rb, rw := c25Rank(sb), c25Rank(sw)
				if rb < 0 || rw < 0 {
					fail = fmt.Sprintf("%s: unknown state %q / %q", where, sb, sw)
					return
				}
				ratings = append(ratings, rb)
				if ordered {
					allowed, inWin, amb := c25Allowed(c, hist, now)
					if amb {
						ambiguousObs++
					} else {
						decidedObs++
					}
					if !allowed[rb] {
						fail = fmt.Sprintf("%s (t=%dms, %d samples in window): state %q but the error rate / mean latency of the window permit only %v (healthy,degraded,unavailable)", where, now, inWin, sb, allowed)
						return
					}
				}
				if rw < rb {
					fail = fmt.Sprintf("%s (t=%dms): pointwise-worse history is rated %q, better than %q", where, now, sw, sb)
					return
				}
				if sa != sb {
					fail = fmt.Sprintf("%s (t=%dms): state %q becomes %q when %d samples older than the window precede the history / op labels differ", where, now, sb, sa, nPrefix)
					return
				}
				snapB, snapA := base.Snapshot(), aged.Snapshot()
				if snapB.AvgLatency != snapA.AvgLatency || snapB.ErrorRate != snapA.ErrorRate {
					fail = fmt.Sprintf("%s (t=%dms): aggregates differ with out-of-window prefix: %v/%v vs %v/%v", where, now, snapB.AvgLatency, snapB.ErrorRate, snapA.AvgLatency, snapA.ErrorRate)
				}
			}
			for i, e := range evs {
				time.Sleep(time.Duration(e.DtMs) * time.Millisecond)
				lat := time.Duration(e.LatMs) * time.Millisecond
				base.RecordOperation("upload", lat, toErr(e.Err))
				worse.RecordOperation("upload", lat+time.Duration(e.WorseL)*time.Millisecond, toErr(e.Err || e.WorseE))
				aged.RecordOperation([]string{"download", "list", "upload"}[i%3], lat, toErr(e.Err))
				hist = append(hist, c25Sample{atMs: nowMs(), latMs: e.LatMs, err: e.Err})
				if observe(fmt.Sprintf("after sample %d", i)); fail != "" {
					return
				}
			}
			for i, w := range finalWaits {
				time.Sleep(time.Duration(w) * time.Millisecond)
				if observe(fmt.Sprintf("after final wait %d (%dms)", i, w)); fail != "" {
					return
				}
			}
		})
		if fail != "" {
			rt.Fatalf("%s\nconfig %+v ordered=%v\nhistory %+v", fail, c, ordered, evs)
		}
		distinct := map[int]bool{}
		trans := 0
		for i, r := range ratings {
			distinct[r] = true
			if i > 0 && ratings[i-1] != r {
				trans++
			}
		}
		st.ClassN("observations-decided", decidedObs)
		st.ClassN("observations-on-threshold-or-window-edge", ambiguousObs)
		if !ordered {
			st.Class("thresholds-warn>=crit(metamorphic-only)")
		}
		for r := range distinct {
			st.Class([]string{"reached-healthy", "reached-degraded", "reached-unavailable"}[r])
		}
		if worseCount == 1 {
			st.Class("worse-history-differs-in-exactly-one-sample")
		} else if worseCount > 1 {
			st.Class("worse-history-differs-in-several-samples")
		}
		if nPrefix > 0 {
			st.Class("with-out-of-window-prefix")
		}
		if c.MaxSamples > 0 {
			st.Class("small-MaxSamples")
			if overCap && dense {
				st.Class("more-than-MaxSamples-samples-inside-one-window")
			}
		}
		if trans > 0 {
			st.Class("crossed-a-threshold")
			if st.NonTrivial(fmt.Sprint(c), fmt.Sprint(ratings)) {
				st.Sample(map[string]any{"config": c, "events": evs, "ratings_after_each_observation": ratings})
			}
		}
	})
}
