//go:build verif

package broker

import (
	"context"
	"fmt"
	"net"
	"net/url"
	"os"
	"path"
	"path/filepath"
	"regexp"
	"sort"
	"strings"
	"testing"
	"time"

	"github.com/twmb/franz-go/pkg/kmsg"
	clientv3 "go.etcd.io/etcd/client/v3"
	"go.etcd.io/etcd/server/v3/embed"
	"pgregory.net/rapid"
	"verif.local/vfkit"

	"github.com/KafScale/platform/internal/testutil"
	"github.com/KafScale/platform/pkg/metadata"
	"github.com/KafScale/platform/pkg/protocol"
)

// C16: an OffsetFetch returns, per (group, topic, partition), offset+metadata of the last
// successful commit; commits to one key never affect another whatever the names contain;
// a key with no commit reads -1.
//
// Reference model: map (group,topic,partition) -> set of allowed outcomes. A successful
// commit makes the set {value}; a commit answered with an error code *by a valid member*
// adds the value (may or may not have been applied); deleting topic T adds "absent" to the
// keys of T only (the statement is silent about deletion of the key's own topic). Commits
// rejected for a wrong generation / unknown member must not change anything.
//
// Everything goes through the real GroupCoordinator (OffsetCommit needs a joined member).

const (
	c16FindZero     = "C16-uncommitted-reads-zero"
	c16FindMemAlias = "C16-mem-key-aliasing"
	c16FindEtcdAli  = "C16-etcd-key-aliasing"
	c16FindEtcdDel  = "C16-etcd-delete-topic-substring"
	c16FindFetchAll = "C16-fetch-all-returns-nothing"
)

type c16Key struct {
	Group string
	Topic string
	Part  int32
}

type c16Val struct {
	Present bool
	Off     int64
	Meta    string
}

type c16Entry struct {
	Topic   string `json:"topic"`
	Part    int32  `json:"part"`
	Off     int64  `json:"off,omitempty"`
	Meta    string `json:"meta,omitempty"`
	NilMeta bool   `json:"nilmeta,omitempty"`
}

type c16Op struct {
	Kind    string     `json:"kind"`            // commit | fetch | delete | create
	Coord   int        `json:"coord,omitempty"` // which of the two coordinators over the same store gets the request
	Group   string     `json:"group,omitempty"`
	Ctx     string     `json:"ctx,omitempty"` // commit only: "" | cancelled | expired request context (client gone / shutdown)
	Bad     string     `json:"bad,omitempty"` // "", "gen", "member": commit that must be rejected
	Entries []c16Entry `json:"entries,omitempty"`
	Topic   string     `json:"topic,omitempty"` // delete, create
}

type c16Script struct {
	Groups []string         `json:"groups"`
	Create map[string]int32 `json:"create"` // topics created in the store before the ops
	Ops    []c16Op          `json:"ops"`
}

type c16Info struct {
	absentFetch, presentFetch, fetchErr, commitErr, rejected, deletes int
	setupFailed                                                       string
	zeroForAbsent                                                     int
	faultCommits, faultAcked                                          int
	fetchAll                                                          int
}

func c16Has(vals []c16Val, v c16Val) bool {
	for _, x := range vals {
		if x == v {
			return true
		}
	}
	return false
}

// c16Exec runs a script against a store through a fresh coordinator and returns the first
// violation ("" if none). tolerateZero: an absent key may also read (0,"") (listed finding).
func c16Exec(store metadata.Store, sc c16Script, tolerateZero bool) (string, c16Info) {
	var info c16Info
	ctx := context.Background()
	// two coordinator instances over the same store (a group's lease can move between brokers;
	// the second one loads the group from the store on its first request). Joins go to the first.
	coords := [2]*GroupCoordinator{}
	for i := range coords {
		coords[i] = NewGroupCoordinator(store, protocol.MetadataBroker{NodeID: int32(i + 1), Host: "h", Port: 9092}, &CoordinatorConfig{CleanupInterval: time.Hour})
		defer coords[i].Stop()
	}
	coord := coords[0]

	topics := make([]string, 0, len(sc.Create))
	for name := range sc.Create {
		topics = append(topics, name)
	}
	sort.Strings(topics)
	for _, name := range topics {
		if _, err := store.CreateTopic(ctx, metadata.TopicSpec{Name: name, NumPartitions: sc.Create[name], ReplicationFactor: 1}); err != nil {
			info.setupFailed = fmt.Sprintf("CreateTopic(%q): %v", name, err)
			return "", info
		}
	}
	type memb struct {
		id  string
		gen int32
	}
	members := map[string]memb{}
	for _, g := range sc.Groups {
		req := kmsg.NewPtrJoinGroupRequest()
		req.Group = g
		req.ProtocolType = "consumer"
		req.SessionTimeoutMillis = 600000
		req.RebalanceTimeoutMillis = 600000
		p := kmsg.NewJoinGroupRequestProtocol()
		p.Name = "range"
		p.Metadata = coord.encodeSubscription([]string{"x"})
		req.Protocols = append(req.Protocols, p)
		resp, err := coord.JoinGroup(ctx, req)
		if err != nil || resp.ErrorCode != protocol.NONE {
			info.setupFailed = fmt.Sprintf("JoinGroup(%q): err=%v resp=%+v", g, err, resp)
			return "", info
		}
		members[g] = memb{id: resp.MemberID, gen: resp.Generation}
	}

	model := map[c16Key][]c16Val{}
	allowed := func(k c16Key) []c16Val {
		if v, ok := model[k]; ok {
			return v
		}
		return []c16Val{{}}
	}
	for i, op := range sc.Ops {
		switch op.Kind {
		case "commit":
			m := members[op.Group]
			req := kmsg.NewPtrOffsetCommitRequest()
			req.Group = op.Group
			req.MemberID = m.id
			req.Generation = m.gen
			switch op.Bad {
			case "gen":
				req.Generation = m.gen + 1
			case "member":
				req.MemberID = m.id + "-x"
			}
			idx := map[string]int{}
			for _, e := range op.Entries {
				j, ok := idx[e.Topic]
				if !ok {
					rt := kmsg.NewOffsetCommitRequestTopic()
					rt.Topic = e.Topic
					req.Topics = append(req.Topics, rt)
					j = len(req.Topics) - 1
					idx[e.Topic] = j
				}
				rp := kmsg.NewOffsetCommitRequestTopicPartition()
				rp.Partition = e.Part
				rp.Offset = e.Off
				if !e.NilMeta {
					meta := e.Meta
					rp.Metadata = &meta
				}
				req.Topics[j].Partitions = append(req.Topics[j].Partitions, rp)
			}
			cctx := ctx
			switch op.Ctx {
			case "cancelled":
				c2, cancel := context.WithCancel(ctx)
				cancel()
				cctx = c2
			case "expired":
				c2, cancel := context.WithDeadline(ctx, time.Unix(1, 0))
				defer cancel()
				cctx = c2
			}
			if op.Ctx != "" {
				info.faultCommits++
			}
			resp, err := coords[op.Coord&1].OffsetCommit(cctx, req)
			if err != nil {
				// rejected as a whole: nothing may have been applied for a bad request;
				// for a good one every entry may or may not be applied
				info.commitErr++
				if op.Bad == "" {
					for _, e := range op.Entries {
						k := c16Key{op.Group, e.Topic, e.Part}
						model[k] = append(append([]c16Val(nil), allowed(k)...), c16Val{true, e.Off, c16MetaOf(e)})
					}
				}
				continue
			}
			if len(resp.Topics) != len(req.Topics) {
				return fmt.Sprintf("op %d commit: response has %d topics for %d requested", i, len(resp.Topics), len(req.Topics)), info
			}
			for ti, rt := range req.Topics {
				if resp.Topics[ti].Topic != rt.Topic || len(resp.Topics[ti].Partitions) != len(rt.Partitions) {
					return fmt.Sprintf("op %d commit: response topic %d is %q/%d partitions, requested %q/%d", i, ti, resp.Topics[ti].Topic, len(resp.Topics[ti].Partitions), rt.Topic, len(rt.Partitions)), info
				}
				for pi, rp := range rt.Partitions {
					got := resp.Topics[ti].Partitions[pi]
					if got.Partition != rp.Partition {
						return fmt.Sprintf("op %d commit: response partition %d for requested %d", i, got.Partition, rp.Partition), info
					}
					k := c16Key{op.Group, rt.Topic, rp.Partition}
					meta := ""
					if rp.Metadata != nil {
						meta = *rp.Metadata
					}
					v := c16Val{true, rp.Offset, meta}
					if op.Bad != "" {
						info.rejected++
						if got.ErrorCode == protocol.NONE {
							return fmt.Sprintf("op %d commit with bad %s for %+v was acknowledged with NONE", i, op.Bad, k), info
						}
						continue // must not be applied: model unchanged
					}
					if got.ErrorCode == protocol.NONE {
						if op.Ctx != "" {
							info.faultAcked++
						}
						model[k] = []c16Val{v}
					} else {
						info.commitErr++
						model[k] = append(append([]c16Val(nil), allowed(k)...), v)
					}
				}
			}
		case "fetchall":
			// OffsetFetch v2+ with a null topic array: every committed offset of the group
			req := kmsg.NewPtrOffsetFetchRequest()
			req.Group = op.Group
			req.Topics = nil
			resp, err := coords[op.Coord&1].OffsetFetch(ctx, req)
			if err != nil || resp.ErrorCode != protocol.NONE {
				info.fetchErr++
				continue
			}
			info.fetchAll++
			got := map[c16Key]c16Val{}
			for _, rt := range resp.Topics {
				for _, rp := range rt.Partitions {
					if rp.ErrorCode != protocol.NONE {
						continue
					}
					meta := ""
					if rp.Metadata != nil {
						meta = *rp.Metadata
					}
					k := c16Key{op.Group, rt.Topic, rp.Partition}
					if rp.Offset == -1 {
						got[k] = c16Val{}
					} else {
						got[k] = c16Val{true, rp.Offset, meta}
					}
				}
			}
			for k, v := range got {
				want := allowed(k)
				if !c16Has(want, v) && !(tolerateZero && c16Has(want, c16Val{}) && v == c16Val{true, 0, ""}) {
					return fmt.Sprintf("op %d fetch-all of group %q lists %+v as offset=%d metadata=%q; last successful commit says %s", i, op.Group, k, v.Off, v.Meta, c16Show(want)), info
				}
			}
			var missing []string
			for k, want := range model {
				if k.Group != op.Group || c16Has(want, c16Val{}) {
					continue // other group, or possibly not committed
				}
				if _, ok := got[k]; !ok {
					missing = append(missing, fmt.Sprintf("%q/%d (%s)", k.Topic, k.Part, c16Show(want)))
				}
			}
			if len(missing) > 0 {
				sort.Strings(missing)
				return fmt.Sprintf("op %d fetch-all (null topic list) of group %q returned %d partitions and omits committed ones: %v", i, op.Group, len(got), missing), info
			}
		case "fetch":
			req := kmsg.NewPtrOffsetFetchRequest()
			req.Group = op.Group
			idx := map[string]int{}
			for _, e := range op.Entries {
				j, ok := idx[e.Topic]
				if !ok {
					rt := kmsg.NewOffsetFetchRequestTopic()
					rt.Topic = e.Topic
					req.Topics = append(req.Topics, rt)
					j = len(req.Topics) - 1
					idx[e.Topic] = j
				}
				req.Topics[j].Partitions = append(req.Topics[j].Partitions, e.Part)
			}
			resp, err := coords[op.Coord&1].OffsetFetch(ctx, req)
			if err != nil || resp.ErrorCode != protocol.NONE {
				info.fetchErr++
				continue
			}
			if len(resp.Topics) != len(req.Topics) {
				return fmt.Sprintf("op %d fetch: response has %d topics for %d requested", i, len(resp.Topics), len(req.Topics)), info
			}
			for ti, rt := range req.Topics {
				if resp.Topics[ti].Topic != rt.Topic || len(resp.Topics[ti].Partitions) != len(rt.Partitions) {
					return fmt.Sprintf("op %d fetch: response topic %d is %q/%d partitions, requested %q/%d", i, ti, resp.Topics[ti].Topic, len(resp.Topics[ti].Partitions), rt.Topic, len(rt.Partitions)), info
				}
				for pi, part := range rt.Partitions {
					got := resp.Topics[ti].Partitions[pi]
					if got.Partition != part {
						return fmt.Sprintf("op %d fetch: response partition %d for requested %d", i, got.Partition, part), info
					}
					if got.ErrorCode != protocol.NONE {
						info.fetchErr++
						continue
					}
					k := c16Key{op.Group, rt.Topic, part}
					want := allowed(k)
					gotMeta := ""
					if got.Metadata != nil {
						gotMeta = *got.Metadata
					}
					ok := false
					if got.Offset == -1 {
						// Kafka's "no committed offset"; metadata is not asserted for it
						ok = c16Has(want, c16Val{})
						// unless -1 itself was committed (never generated)
					} else {
						ok = c16Has(want, c16Val{true, got.Offset, gotMeta})
					}
					if c16Has(want, c16Val{}) {
						info.absentFetch++
					} else {
						info.presentFetch++
					}
					if !ok && tolerateZero && c16Has(want, c16Val{}) && got.Offset == 0 && gotMeta == "" {
						info.zeroForAbsent++
						ok = true
					}
					if !ok {
						return fmt.Sprintf("op %d fetch %+v returned offset=%d metadata=%q; last successful commit says %s", i, k, got.Offset, gotMeta, c16Show(want)), info
					}
				}
			}
		case "create":
			_, _ = store.CreateTopic(ctx, metadata.TopicSpec{Name: op.Topic, NumPartitions: 2, ReplicationFactor: 1})
		case "delete":
			info.deletes++
			_ = store.DeleteTopic(ctx, op.Topic) // success or not: only keys of this topic become unspecified
			for k := range model {
				if k.Topic == op.Topic {
					model[k] = append(append([]c16Val(nil), model[k]...), c16Val{})
				}
			}
		}
	}
	return "", info
}

func c16MetaOf(e c16Entry) string {
	if e.NilMeta {
		return ""
	}
	return e.Meta
}

func c16Show(vals []c16Val) string {
	var parts []string
	for _, v := range vals {
		if !v.Present {
			parts = append(parts, "no commit (-1)")
		} else {
			parts = append(parts, fmt.Sprintf("offset=%d metadata=%q", v.Off, v.Meta))
		}
	}
	return strings.Join(parts, " or ")
}

// ---- naive joins used by the two stores (only to *classify* generated cases and to
// steer away from listed findings; never used by the oracle) ----

func c16ColonJoin(k c16Key) string { return fmt.Sprintf("%s:%s:%d", k.Group, k.Topic, k.Part) }
func c16PathJoin(k c16Key) string {
	return fmt.Sprintf("/kafscale/consumers/%s/offsets/%s/%d", k.Group, k.Topic, k.Part)
}

var c16LegalTopic = regexp.MustCompile(`^[a-zA-Z0-9._-]+$`)

func c16NameGen() *rapid.Generator[string] {
	pieces := []string{"a", "b", "g", "t", "0", "1", ":", "/", "/offsets/", "offsets", "/metadata", ".", "-", "_", " ", "\t", "é", "☃", "\x00", "%s", "\"", "<&>", " ", "A"}
	return rapid.Custom(func(t *rapid.T) string {
		n := rapid.IntRange(1, 4).Draw(t, "npieces")
		var sb strings.Builder
		for i := 0; i < n; i++ {
			sb.WriteString(rapid.SampledFrom(pieces).Draw(t, "piece"))
		}
		return sb.String()
	})
}

func c16Dedup(in []string) []string {
	seen := map[string]bool{}
	var out []string
	for _, s := range in {
		if s != "" && !seen[s] {
			seen[s] = true
			out = append(out, s)
		}
	}
	return out
}

type c16Gen struct {
	script      c16Script
	collide     bool // two distinct generated keys share a naive join of this leg's store
	anyCollide  bool // ... of either store
	normalize   bool // ... of a join that path-cleans / case-folds / trims the names
	mode        string
	recommit    bool // commit, delete+re-create the topic, commit the same value again, fetch
	twoCoord    bool // commit via A, different commit via B, first value again via A, fetch
	prefixFetch bool // a never-committed key whose key text is a proper prefix of a committed key's text is fetched
	excluded    map[string]bool
	trace       []string
}

// c16Generate draws a script. join is the naive key join of the store under test; known
// flags steer away from listed findings (and only from them).
func c16Generate(t *rapid.T, join func(c16Key) string, knownAlias string, etcd bool) c16Gen {
	var g c16Gen
	g.excluded = map[string]bool{}
	// Topic names are validated by the coordinator ([a-zA-Z0-9._-]); group ids are not
	// validated anywhere, so the hostile and the constructed-collision names are GROUP names
	// and most topics are legal (a few hostile ones stay in to exercise the rejection path).
	small := rapid.SampledFrom([]string{"a", "b", "g", "t", "0", "1", "team", "Orders"})
	legalTopic := rapid.SampledFrom([]string{"t", "c", "orders", "a.b", "t-1", "T", "0", "a_b", "offsets", "metadata"})
	mode := rapid.SampledFrom([]string{"clean", "norm", "free", "colon", "path", "delalias", "prefix"}).Draw(t, "mode")
	var groups, topics []string
	a, b, c := small.Draw(t, "a"), small.Draw(t, "b"), legalTopic.Draw(t, "c")
	topics = []string{c, legalTopic.Draw(t, "c2")}
	switch mode {
	case "clean":
		// ids that differ only in forms a path cleaner / splitter would collapse
		base := a + "/" + b
		variants := []string{a + "//" + b, a + "/./" + b, a + "/x/../" + b, base + "/", "/" + base, "./" + base, a + "/" + b + "/.",
			a + "/../" + a + "/" + b, "//" + base, base + "//"}
		groups = append([]string{base}, rapid.SliceOfNDistinct(rapid.SampledFrom(variants), 1, 3, func(s string) string { return s }).Draw(t, "variants")...)
	case "norm":
		// ids that differ only under case folding, trimming, unicode or percent/plus decoding
		base := a + " " + b + "é"
		variants := []string{strings.ToUpper(base), strings.ToLower(base), base + " ", " " + base, a + "%20" + b + "é", a + "+" + b + "é",
			a + " " + b + "e\u0301", a + "\u00a0" + b + "é", base + "\x00", a + "  " + b + "é", a + "%2F" + b, a + "/" + b, base + "\n"}
		groups = append([]string{base}, rapid.SliceOfNDistinct(rapid.SampledFrom(variants), 1, 3, func(s string) string { return s }).Draw(t, "variants")...)
	case "colon":
		groups = []string{a + ":" + b, a, a + ":" + b + ":" + c, a + ":" + c}
		topics = append(topics, b+":"+c)
	case "path":
		groups = []string{a + "/offsets/" + b, a, a + "/offsets/" + c, a + "/offsets/" + c + "/" + rapid.SampledFrom([]string{"0", "1", "1/x", "10", "2", "20/"}).Draw(t, "keytail")}
		topics = append(topics, b+"/offsets/"+c)
	case "delalias":
		groups = []string{a + "/offsets/" + c, a + "/offsets/" + c + "/" + b, a, c}
	case "prefix":
		groups = []string{a, a + b, a + ":", a + "/", a + "/metadata"}
		topics = append(topics, c+b)
	}
	nfree := rapid.IntRange(0, 2).Draw(t, "nfree")
	if mode == "free" {
		nfree++
	}
	for i := 0; i < nfree; i++ {
		groups = append(groups, c16NameGen().Draw(t, "group"))
		if rapid.IntRange(0, 3).Draw(t, "hostile-topic") == 0 {
			topics = append(topics, c16NameGen().Draw(t, "topic"))
		}
	}
	groups, topics = c16Dedup(groups), c16Dedup(topics)
	g.script.Groups = groups
	g.script.Create = map[string]int32{}
	for _, tp := range topics {
		if c16LegalTopic.MatchString(tp) && tp != "." && tp != ".." && rapid.Bool().Draw(t, "create") {
			g.script.Create[tp] = int32(rapid.IntRange(1, 4).Draw(t, "nparts"))
		}
	}
	// partition numbers: families with decimal-prefix relations (1 / 10..19 / 100.., 2 / 20 / 2147483647)
	// so that one key's text can be a proper prefix of a sibling's key text
	parts := rapid.SampledFrom([][]int32{
		{1, 10, 11, 12, 19, 100, 101},
		{2, 20, 21, 2147483647, 0},
		{0, 1, 2, 10, 20},
		{0, 1, 2, 3},
	}).Draw(t, "partition-family")
	// key universe and collision classes
	var keys []c16Key
	byJoin := map[string]c16Key{}
	usable := map[c16Key]bool{}
	for _, gr := range groups {
		for _, tp := range topics {
			for _, p := range parts {
				k := c16Key{gr, tp, p}
				keys = append(keys, k)
				j := join(k)
				if first, dup := byJoin[j]; dup && first != k {
					g.collide = true
					if vfkit.Known(knownAlias) {
						g.excluded[knownAlias] = true
						continue
					}
				} else {
					byJoin[j] = k
				}
				usable[k] = true
			}
		}
	}
	g.mode = mode
	seenN := map[string]bool{}
	for _, k := range keys {
		n := strings.ToLower(path.Clean("/" + strings.TrimSpace(k.Group) + "/offsets/" + k.Topic + fmt.Sprintf("/%d", k.Part)))
		if seenN[n] {
			g.normalize = true
		}
		seenN[n] = true
	}
	seenC, seenP := map[string]bool{}, map[string]bool{}
	for _, k := range keys {
		if seenC[c16ColonJoin(k)] || seenP[c16PathJoin(k)] {
			g.anyCollide = true
		}
		seenC[c16ColonJoin(k)], seenP[c16PathJoin(k)] = true, true
	}
	var pool []c16Key
	for _, k := range keys {
		if usable[k] {
			pool = append(pool, k)
		}
	}
	offGen := rapid.OneOf(rapid.Int64Range(0, 3), rapid.Int64Range(0, 1<<62), rapid.Just(int64(1<<63-1)))
	metaGen := rapid.OneOf(rapid.Just(""), rapid.SampledFrom([]string{"m", "meta-1", "{\"a\":1}", "é☃", "<&> ", "\x00", " "}), c16NameGen())
	committed := map[c16Key]bool{}
	lastVal := map[c16Key]c16Entry{}
	deleted := map[string]bool{}
	nops := rapid.IntRange(2, 24).Draw(t, "nops")
	for i := 0; i < nops; i++ {
		kind := rapid.SampledFrom([]string{"commit", "fetch", "recommit-after-recreate", "two-coordinators", "fetchall", "commit", "fetch", "delete", "commit", "fetch"}).Draw(t, "kind")
		if kind == "fetchall" {
			if vfkit.Known(c16FindFetchAll) {
				g.excluded[c16FindFetchAll] = true
				kind = "fetch"
			} else {
				k := rapid.SampledFrom(pool).Draw(t, "fagroup")
				op := c16Op{Kind: "fetchall", Group: k.Group, Coord: rapid.IntRange(0, 1).Draw(t, "coord")}
				g.script.Ops = append(g.script.Ops, op)
				g.trace = append(g.trace, fmt.Sprintf("fetchall@%d %q", op.Coord, op.Group))
				continue
			}
		}
		if kind == "recommit-after-recreate" || kind == "two-coordinators" {
			// scenarios around re-committing a value a coordinator already wrote once
			var legalKeys []c16Key
			for _, k := range pool {
				if c16LegalTopic.MatchString(k.Topic) && k.Topic != "." && k.Topic != ".." {
					legalKeys = append(legalKeys, k)
				}
			}
			if len(legalKeys) == 0 {
				kind = "commit"
			} else {
				k := rapid.SampledFrom(legalKeys).Draw(t, "skey")
				e := c16Entry{Topic: k.Topic, Part: k.Part, Off: offGen.Draw(t, "off"), Meta: metaGen.Draw(t, "meta")}
				ca := rapid.IntRange(0, 1).Draw(t, "coord")
				emit := func(op c16Op) {
					g.script.Ops = append(g.script.Ops, op)
					g.trace = append(g.trace, fmt.Sprintf("%s@%d %q %v %s", op.Kind, op.Coord, op.Group, op.Entries, op.Topic))
				}
				first := c16Op{Kind: "commit", Group: k.Group, Coord: ca, Entries: []c16Entry{e}}
				fetch := c16Op{Kind: "fetch", Group: k.Group, Coord: rapid.IntRange(0, 1).Draw(t, "fetchcoord"), Entries: []c16Entry{{Topic: k.Topic, Part: k.Part}}}
				if kind == "recommit-after-recreate" {
					hit := false
					if etcd && vfkit.Known(c16FindEtcdDel) {
						for c := range committed {
							if c.Topic != k.Topic && strings.Contains(c16PathJoin(c), "/offsets/"+k.Topic+"/") {
								hit = true
							}
						}
					}
					if hit {
						g.excluded[c16FindEtcdDel] = true
						kind = "commit"
					} else {
						if _, ok := g.script.Create[k.Topic]; !ok {
							g.script.Create[k.Topic] = 1 // created before the ops so that it can be deleted
						}
						emit(first)
						emit(c16Op{Kind: "delete", Topic: k.Topic})
						emit(c16Op{Kind: "create", Topic: k.Topic})
						delete(deleted, k.Topic)
						emit(first) // the very same position and metadata, acknowledged again
						emit(fetch)
						committed[k] = true
						g.recommit = true
						continue
					}
				} else {
					e2 := e
					e2.Off = offGen.Draw(t, "off2")
					e2.Meta = metaGen.Draw(t, "meta2")
					emit(first)
					emit(c16Op{Kind: "commit", Group: k.Group, Coord: 1 - ca, Entries: []c16Entry{e2}})
					emit(first)
					emit(fetch)
					committed[k] = true
					g.twoCoord = true
					continue
				}
			}
		}
		if kind == "delete" {
			var cands []string
			for tp := range g.script.Create {
				if !deleted[tp] {
					cands = append(cands, tp)
				}
			}
			sort.Strings(cands)
			if len(cands) == 0 {
				kind = "fetch"
			} else {
				tp := rapid.SampledFrom(cands).Draw(t, "deltopic")
				if etcd && vfkit.Known(c16FindEtcdDel) {
					hit := false
					for k := range committed {
						if k.Topic != tp && strings.Contains(c16PathJoin(k), "/offsets/"+tp+"/") {
							hit = true
						}
					}
					if hit {
						g.excluded[c16FindEtcdDel] = true
						kind = "fetch"
					}
				}
				if kind == "delete" {
					deleted[tp] = true
					g.script.Ops = append(g.script.Ops, c16Op{Kind: "delete", Topic: tp})
					g.trace = append(g.trace, "delete "+tp)
					continue
				}
			}
		}
		// pick a group, then 1..3 distinct keys of that group
		k0 := rapid.SampledFrom(pool).Draw(t, "key")
		if kind == "fetch" && len(committed) > 0 {
			var ck, pk []c16Key
			for _, k := range pool { // pool order is deterministic
				if committed[k] {
					ck = append(ck, k)
					continue
				}
				// never committed, but its key text is a proper prefix of a committed key's text
				for c := range committed {
					if strings.HasPrefix(c16PathJoin(c), c16PathJoin(k)) || strings.HasPrefix(c16ColonJoin(c), c16ColonJoin(k)) {
						pk = append(pk, k)
						break
					}
				}
			}
			switch rapid.IntRange(0, 2).Draw(t, "fetch-target") {
			case 0:
				if len(pk) > 0 {
					k0 = rapid.SampledFrom(pk).Draw(t, "pkey")
				}
			case 1:
				if len(ck) > 0 {
					k0 = rapid.SampledFrom(ck).Draw(t, "ckey")
				}
			}
			for _, k := range pk {
				if k == k0 {
					g.prefixFetch = true
				}
			}
		}
		var mine []c16Key
		for _, k := range pool {
			if k.Group == k0.Group {
				mine = append(mine, k)
			}
		}
		n := rapid.IntRange(1, 3).Draw(t, "nentries")
		chosen := []c16Key{k0}
		for len(chosen) < n {
			k := rapid.SampledFrom(mine).Draw(t, "key2")
			dup := false
			for _, x := range chosen {
				if x == k {
					dup = true
				}
			}
			if dup {
				break
			}
			chosen = append(chosen, k)
		}
		op := c16Op{Kind: kind, Group: k0.Group}
		if rapid.IntRange(0, 3).Draw(t, "second-coordinator") == 0 {
			op.Coord = 1
		}
		if kind == "commit" && rapid.IntRange(0, 4).Draw(t, "dead-context") == 0 {
			// the request context is already dead when the store is asked to write: whatever is
			// answered, a NONE must mean the value is readable afterwards
			op.Ctx = rapid.SampledFrom([]string{"cancelled", "expired"}).Draw(t, "ctx")
		}
		if kind == "commit" {
			op.Bad = rapid.SampledFrom([]string{"", "", "", "", "", "", "gen", "member"}).Draw(t, "bad")
		}
		for _, k := range chosen {
			e := c16Entry{Topic: k.Topic, Part: k.Part}
			if kind == "commit" {
				e.Off = offGen.Draw(t, "off")
				e.Meta = metaGen.Draw(t, "meta")
				if e.Meta == "" {
					e.NilMeta = rapid.Bool().Draw(t, "nilmeta")
				}
				if prev, ok := lastVal[k]; ok && rapid.IntRange(0, 2).Draw(t, "repeat-value") == 0 {
					e.Off, e.Meta, e.NilMeta = prev.Off, prev.Meta, prev.NilMeta // idle consumer re-commits its position
				}
				if op.Bad == "" {
					committed[k] = true
					lastVal[k] = e
				}
			}
			op.Entries = append(op.Entries, e)
		}
		g.script.Ops = append(g.script.Ops, op)
		g.trace = append(g.trace, fmt.Sprintf("%s%s%s@%d %q %v", kind, op.Bad, op.Ctx, op.Coord, op.Group, op.Entries))
	}
	return g
}

func c16Record(st *vfkit.Stats, leg string, g c16Gen, info c16Info) {
	for id := range g.excluded {
		st.ExcludedCase(id)
	}
	if g.collide {
		st.Class("keys-colliding-under-this-store-join")
	}
	st.Class("mode-" + g.mode)
	if g.recommit {
		st.Class("recommit-same-value-after-topic-recreate")
	}
	if g.twoCoord {
		st.Class("recommit-same-value-after-other-coordinator-wrote")
	}
	if g.prefixFetch {
		st.Class("fetch-of-uncommitted-key-that-prefixes-a-committed-key")
	}
	if g.normalize {
		st.Class("keys-colliding-under-a-normalizing-join")
	}
	if g.anyCollide {
		st.Class("keys-colliding-under-some-join")
	}
	if info.absentFetch > 0 {
		st.Class("fetch-of-never-committed")
	}
	if info.presentFetch > 0 {
		st.Class("fetch-of-committed")
	}
	if info.rejected > 0 {
		st.Class("rejected-commit")
	}
	if info.deletes > 0 {
		st.Class("topic-delete")
	}
	if info.fetchAll > 0 {
		st.Class("fetch-all-null-topic-list")
	}
	if info.faultCommits > 0 {
		st.Class("commit-under-dead-request-context")
	}
	if info.faultAcked > 0 {
		st.Class("commit-under-dead-request-context-acknowledged")
	}
	if info.fetchErr > 0 {
		st.Class("fetch-answered-with-error")
	}
	if info.commitErr > 0 {
		st.Class("commit-answered-with-error")
	}
	if info.zeroForAbsent > 0 {
		st.ExcludedCase(c16FindZero)
	}
	if g.anyCollide || g.normalize || info.absentFetch > 0 {
		st.NonTrivial(leg, g.script.Groups, g.trace)
		st.Sample(g.script)
	}
}

func c16MemStore() *metadata.InMemoryStore {
	return metadata.NewInMemoryStore(metadata.ClusterMetadata{
		Brokers: []protocol.MetadataBroker{{NodeID: 1, Host: "h", Port: 9092}}, ControllerID: 1})
}

func TestVF_C16_Mem(t *testing.T) {
	st := vfkit.NewStats("C16", "mem")
	defer st.Flush()
	rapid.Check(t, func(t *rapid.T) {
		st.Eval()
		g := c16Generate(t, c16ColonJoin, c16FindMemAlias, false)
		viol, info := c16Exec(c16MemStore(), g.script, vfkit.Known(c16FindZero))
		if info.setupFailed != "" {
			st.Class("setup-failed")
			t.Fatalf("harness setup failed on the in-memory store: %s", info.setupFailed)
		}
		c16Record(st, "mem", g, info)
		if viol != "" {
			t.Fatalf("%s\nscript: %+v", viol, g.script)
		}
	})
}

// ---- etcd ----

type c16Etcd struct {
	endpoints []string
	cli       *clientv3.Client
}

func c16StartEtcd(t *testing.T) *c16Etcd {
	endpoints := c16StartFastEtcd(t)
	cli, err := clientv3.New(clientv3.Config{Endpoints: endpoints, DialTimeout: 5 * time.Second})
	if err != nil {
		fmt.Println("VF-INCONCLUSIVE: cannot connect to embedded etcd:", err)
		t.Fatalf("etcd client: %v", err)
	}
	t.Cleanup(func() { _ = cli.Close() })
	return &c16Etcd{endpoints: endpoints, cli: cli}
}

// fresh wipes every key and opens a new EtcdStore (own snapshot, own watcher).
func (e *c16Etcd) fresh() (*metadata.EtcdStore, error) {
	ctx, cancel := context.WithTimeout(context.Background(), 10*time.Second)
	defer cancel()
	if _, err := e.cli.Delete(ctx, "", clientv3.WithPrefix()); err != nil {
		return nil, err
	}
	return metadata.NewEtcdStore(ctx, metadata.ClusterMetadata{
		Brokers: []protocol.MetadataBroker{{NodeID: 1, Host: "h", Port: 9092}}, ControllerID: 1},
		metadata.EtcdStoreConfig{Endpoints: e.endpoints})
}

func TestVF_C16_Etcd(t *testing.T) {
	st := vfkit.NewStats("C16", "etcd")
	defer st.Flush()
	etcd := c16StartEtcd(t)
	rapid.Check(t, func(t *rapid.T) {
		st.Eval()
		g := c16Generate(t, c16PathJoin, c16FindEtcdAli, true)
		store, err := etcd.fresh()
		if err != nil {
			fmt.Println("VF-INCONCLUSIVE: embedded etcd unusable:", err)
			t.Fatalf("etcd: %v", err)
		}
		defer store.Close()
		viol, info := c16Exec(store, g.script, vfkit.Known(c16FindZero))
		if info.setupFailed != "" {
			st.Class("setup-failed")
			st.Note("setup-failed-example", info.setupFailed)
			return
		}
		c16Record(st, "etcd", g, info)
		if viol != "" {
			t.Fatalf("%s\nscript: %+v", viol, g.script)
		}
	})
}

// ---- witnesses of the listed findings (replayed through the same oracle) ----

func TestVF_C16_Witness(t *testing.T) {
	st := vfkit.NewStats("C16", "witness")
	defer st.Flush()
	etcd := c16StartEtcd(t)
	commit := func(g, tp string, p int32, off int64, meta string) c16Op {
		return c16Op{Kind: "commit", Group: g, Entries: []c16Entry{{Topic: tp, Part: p, Off: off, Meta: meta}}}
	}
	fetch := func(g, tp string, p int32) c16Op {
		return c16Op{Kind: "fetch", Group: g, Entries: []c16Entry{{Topic: tp, Part: p}}}
	}
	type wit struct {
		id     string
		etcd   bool
		tolZ   bool
		script c16Script
	}
	wits := []wit{
		{c16FindFetchAll, false, true, c16Script{Groups: []string{"g"}, Ops: []c16Op{commit("g", "t", 0, 7, "m1"), {Kind: "fetchall", Group: "g"}}}},
		{c16FindFetchAll + "#etcd", true, true, c16Script{Groups: []string{"g"}, Ops: []c16Op{commit("g", "t", 0, 7, "m1"), {Kind: "fetchall", Group: "g"}}}},
		{c16FindZero, false, false, c16Script{Groups: []string{"g"}, Ops: []c16Op{fetch("g", "t", 0)}}},
		{c16FindZero + "#etcd", true, false, c16Script{Groups: []string{"g"}, Ops: []c16Op{fetch("g", "t", 0)}}},
		{c16FindMemAlias, false, true, c16Script{Groups: []string{"a:b", "a"}, Ops: []c16Op{
			commit("a:b", "c", 0, 7, "m1"), commit("a", "b:c", 0, 9, "m2"), fetch("a:b", "c", 0)}}},
		{c16FindEtcdAli, true, true, c16Script{Groups: []string{"a/offsets/b", "a"}, Ops: []c16Op{
			commit("a/offsets/b", "c", 0, 7, "m1"), commit("a", "b/offsets/c", 0, 9, "m2"), fetch("a/offsets/b", "c", 0)}}},
		{c16FindEtcdDel, true, true, c16Script{Groups: []string{"a/offsets/t"}, Create: map[string]int32{"t": 1}, Ops: []c16Op{
			commit("a/offsets/t", "u", 0, 7, "m1"), {Kind: "delete", Topic: "t"}, {Kind: "commit", Group: "a/offsets/t", Entries: []c16Entry{{Topic: "v", Part: 0, Off: 1}}},
			fetch("a/offsets/t", "u", 0)}}},
	}
	// the delete witness must not be confused with "reads 0": offset 7 was committed, so a
	// (0,"") answer is only tolerated for absent keys and this key is not absent.
	results := map[string]string{}
	defer func() {
		for id, what := range results {
			st.KnownResult(id, what != "", what)
		}
	}()
	for _, w := range wits {
		st.Eval()
		var store metadata.Store
		if w.etcd {
			es, err := etcd.fresh()
			if err != nil {
				fmt.Println("VF-INCONCLUSIVE: embedded etcd unusable:", err)
				t.Fatalf("etcd: %v", err)
			}
			defer es.Close()
			store = es
		} else {
			store = c16MemStore()
		}
		viol, info := c16Exec(store, w.script, w.tolZ)
		if info.setupFailed != "" {
			t.Fatalf("witness %s: setup failed: %s", w.id, info.setupFailed)
		}
		id := strings.TrimSuffix(w.id, "#etcd")
		if viol != "" {
			results[id] = viol + " [" + w.id + "]"
		} else if _, ok := results[id]; !ok {
			results[id] = ""
		}
		t.Logf("witness %s: %q", w.id, viol)
		st.NonTrivial("witness", w.id)
		st.Sample(map[string]any{"witness": w.id, "script": w.script, "violation": viol})
	}
}

// c16StartFastEtcd is internal/testutil.StartEmbeddedEtcd with UnsafeNoFsync (the checks
// never restart etcd, so durability of its WAL is irrelevant and the shared machine's disk
// latency stays out of the 3 s operation timeouts of EtcdStore). Falls back to the repo's
// own starter if this one cannot start.
func c16StartFastEtcd(t *testing.T) []string {
	for attempt := 0; attempt < 4; attempt++ {
		cfg := embed.NewConfig()
		cfg.Dir = t.TempDir()
		cfg.Logger = "zap"
		cfg.LogLevel = "error"
		cfg.LogOutputs = []string{filepath.Join(os.TempDir(), fmt.Sprintf("etcd-vf-c16-%d.log", attempt))}
		cfg.UnsafeNoFsync = true
		ports := [2]int{}
		ok := true
		for i := range ports {
			ln, err := net.Listen("tcp", "127.0.0.1:0")
			if err != nil {
				ok = false
				break
			}
			ports[i] = ln.Addr().(*net.TCPAddr).Port
			_ = ln.Close()
		}
		if !ok {
			continue
		}
		cu, _ := url.Parse(fmt.Sprintf("http://127.0.0.1:%d", ports[0]))
		pu, _ := url.Parse(fmt.Sprintf("http://127.0.0.1:%d", ports[1]))
		cfg.ListenClientUrls, cfg.AdvertiseClientUrls = []url.URL{*cu}, []url.URL{*cu}
		cfg.ListenPeerUrls, cfg.AdvertisePeerUrls = []url.URL{*pu}, []url.URL{*pu}
		cfg.InitialCluster = cfg.InitialClusterFromName(cfg.Name)
		e, err := embed.StartEtcd(cfg)
		if err != nil {
			continue
		}
		select {
		case <-e.Server.ReadyNotify():
		case <-time.After(20 * time.Second):
			e.Server.Stop()
			e.Close()
			continue
		}
		t.Cleanup(func() { e.Close() })
		return []string{"http://" + e.Clients[0].Addr().String()}
	}
	return testutil.StartEmbeddedEtcd(t)
}
