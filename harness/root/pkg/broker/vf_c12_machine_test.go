//go:build verif

package broker

// C12 / C13 / C14 — one stateful machine over a real GroupCoordinator (InMemoryStore)
// running inside a testing/synctest bubble (cleanupLoop and expiry on virtual time).
//
// A case is a pre-drawn script (pure data, so rapid can shrink/replay it) that is
// interpreted against the coordinator. Every primitive call (join / sync / heartbeat /
// leave / commit) goes through a wrapper that applies the three oracles:
//
//   C12  every SyncGroup answered NONE is decoded with an own decoder; topics must be in the
//        member's latest subscription; answers of one (incarnation, generation) must be
//        pairwise disjoint and repeatable; once every current member has synced, every
//        partition (count snapshotted by the harness when the generation's first sync
//        succeeded) of every topic subscribed by >=1 current member has exactly one owner.
//   C13  heartbeat / sync / commit from a non-member or with a generation != current must
//        be answered with an error and leave the committed offsets unchanged; generations in
//        join replies never decrease while the group exists.
//   C14  a join answered NONE => every current member's latest join reply carried that
//        generation; LeaderID is a current member; Members non-empty only in the leader's
//        NONE reply (and then it lists exactly the current members); once all members have
//        joined generation g and the leader's sync succeeded, a sync of a member of g succeeds.
//
// "Current member", "current generation" and the phase are read white-box from the
// coordinator (under its mutex). Everything else (who joined which generation, latest
// subscriptions, partition counts, which generation numbers were reported, who left) is
// tracked by the harness from the requests it sent and the replies it got.
//
// VF_FOCUS (C12|C13|C14) selects which oracle's violations fail the test; the others are
// still computed and counted. Unset = all three.

import (
	"context"
	"encoding/binary"
	"fmt"
	"math/rand"
	"os"
	"sort"
	"strings"
	"testing"
	"testing/synctest"
	"time"

	"github.com/twmb/franz-go/pkg/kmsg"
	"pgregory.net/rapid"
	"verif.local/vfkit"

	"github.com/KafScale/platform/pkg/metadata"
	"github.com/KafScale/platform/pkg/protocol"
)

const c12FindingStableRejoin = "C12-stable-rejoin-subscription-change"

const (
	c12FindingMetaErr = "C12-metadata-error-assigns-partition-zero"
	c12FindingGrowth  = "C12-leader-rejoin-after-partition-growth"
)

const c12Group = "vfg"

var c12TopicNames = []string{"ta", "tb", "tc", "tu"} // "tu" is never created (unknown topic)

const (
	c12KJoinNew = iota
	c12KRejoin
	c12KSync
	c12KHeartbeat
	c12KLeave
	c12KCommit
	c12KAdvance
	c12KTopic
	c12KRound
	c12KGhost
	c12KInterleave // only drawn by the interleave leg (vf_c12_interleave_test.go)
	c12KRestart    // coordinator restart over the same store (optionally: first request hits a store read fault)
)

var c12KindNames = []string{"joinNew", "rejoin", "sync", "hb", "leave", "commit", "advance", "topic", "round", "ghost", "interleave", "restart"}

type c12Act struct {
	Kind    int   `json:"k"`
	Who     int   `json:"w,omitempty"`
	SubMode int   `json:"sm,omitempty"` // 0 = same subscription as before, 1 = Sub mask
	Sub     int   `json:"s,omitempty"`  // bitmask over c12TopicNames
	GenSel  int   `json:"g,omitempty"`  // 0 own, 1 current, 2 stale, 3 future, 4 -1
	GenOff  int   `json:"go,omitempty"`
	Sess    int   `json:"se,omitempty"` // ms
	Reb     int   `json:"rb,omitempty"` // ms
	Topic   int   `json:"t,omitempty"`
	Part    int   `json:"p,omitempty"`
	Off     int64 `json:"o,omitempty"`
	TMode   int   `json:"tm,omitempty"`
	TAmt    int   `json:"ta,omitempty"`
	R1      int   `json:"r1,omitempty"` // interleave: request that is parked at a store call
	R2      int   `json:"r2,omitempty"` // interleave: request run while R1 is parked
	Gate    int   `json:"gt,omitempty"` // interleave: which store call of R1 is the scheduling point
	Nth     int   `json:"n,omitempty"`
	Who2    int   `json:"w2,omitempty"`
}

type c12Env struct {
	Seed      int64  `json:"seed"`
	CleanupMs int    `json:"cleanup_ms"`
	Parts     [3]int `json:"parts"` // initial partition count of ta,tb,tc; 0 = not created yet
	Script    []c12Act
}

type c12Opts struct {
	excludeStableRejoin bool
	excludeMetaFault    bool   // listed finding: do not make store.Metadata fail during the leader's sync
	excludeGrowth       bool   // listed finding: leader re-join after partition growth keeps the old partition counts
	focus               string // stop the script at the first violation of this property ("" = any)
}

type c12Client struct {
	id       string   // member id assigned by the coordinator
	sub      []string // latest subscription sent
	ownGen   int32    // generation in the latest join reply
	sess     int
	reb      int
	left     bool      // LeaveGroup answered NONE for this id
	ghost    bool      // never joined
	replaced bool      // a later join with this id was answered with a different id
	gone     bool      // the id was seen as a member and later seen absent (left, expired, dropped)
	lastReq  time.Time // instant of the latest request sent with this identity
}

type c12GenRec struct {
	assign       map[string]map[string][]int32
	raw          map[string]string
	snap         map[string]int
	haveSnap     bool
	leader       string
	leaderSynced bool
	covered      bool
	pendSnap     map[string]int // partition counts at the leader's successful re-join in Stable ...
	pendBy       string         // ... applied when that leader syncs
	armed        bool           // all members joined this generation and the leader's sync succeeded ...
	armedEvents  int            // ... when the membership-event counter had this value
}

type c12WB struct {
	exists   bool
	gen      int32
	phase    groupPhase
	leader   string
	members  map[string]int32 // id -> joinGeneration
	lastHB   map[string]time.Time
	sess     map[string]time.Duration
	deadline time.Time
}

type c12Result struct {
	viol     map[string][]string
	trace    []string
	feats    map[string]bool
	classes  map[string]int
	excluded int
	excl     map[string]int // per finding id: generated cases steered away / not judged
	maxLive  int
	rejects  int
	fullGens int // generations with >=2 members whose assignment was observed completely
	okJoins2 int // join NONE with >=2 members
	phantom  int
}

type c12Run struct {
	t        *testing.T
	c        *GroupCoordinator
	store    *metadata.InMemoryStore
	gs       *c12GateStore // what the coordinator talks to: store + scheduling points
	inside   int           // requests that ran inside another request's store call (interleave leg)
	events   int           // membership events seen by the harness: member set changed, subscription changed
	lastSet  map[string]bool
	lastLoad time.Time // instant of the first request after the latest restart (the group is only loaded, and its sessions only swept, from then on)
	unloaded bool      // restarted and no request has loaded the group yet
	dirty    bool      // an injected store write fault left the persisted group behind the in-memory one
	brk      protocol.MetadataBroker
	ctx      context.Context
	opts     c12Opts
	env      c12Env
	parts    map[string]int // harness's own record of partition counts
	cl       []*c12Client
	inc      int   // group incarnation (bumped whenever the group is observed absent)
	maxGen   int32 // highest generation reported by a join reply in this incarnation
	joined   map[string]int32
	gens     map[string]*c12GenRec
	rebal    int // generation bumps observed in this incarnation beyond the first
	res      *c12Result
}

func c12EncodeSub(topics []string) []byte {
	b := []byte{0, 0}
	b = binary.BigEndian.AppendUint32(b, uint32(len(topics)))
	for _, t := range topics {
		b = binary.BigEndian.AppendUint16(b, uint16(len(t)))
		b = append(b, t...)
	}
	b = binary.BigEndian.AppendUint32(b, 0)
	return b
}

// c12DecodeAssignment is an independent strict decoder of the consumer-protocol
// MemberAssignment: version int16, [topic string, [partition int32]], userdata bytes.
func c12DecodeAssignment(b []byte) (map[string][]int32, error) {
	pos := 0
	need := func(n int) error {
		if n < 0 || pos+n > len(b) {
			return fmt.Errorf("truncated at %d (need %d of %d)", pos, n, len(b))
		}
		return nil
	}
	if err := need(2); err != nil {
		return nil, err
	}
	pos += 2
	if err := need(4); err != nil {
		return nil, err
	}
	n := int(int32(binary.BigEndian.Uint32(b[pos:])))
	pos += 4
	if n < 0 || n > 1<<16 {
		return nil, fmt.Errorf("bad topic count %d", n)
	}
	out := map[string][]int32{}
	for i := 0; i < n; i++ {
		if err := need(2); err != nil {
			return nil, err
		}
		l := int(int16(binary.BigEndian.Uint16(b[pos:])))
		pos += 2
		if err := need(l); err != nil {
			return nil, err
		}
		name := string(b[pos : pos+l])
		pos += l
		if err := need(4); err != nil {
			return nil, err
		}
		pc := int(int32(binary.BigEndian.Uint32(b[pos:])))
		pos += 4
		if pc < 0 || pc > 1<<16 {
			return nil, fmt.Errorf("bad partition count %d", pc)
		}
		for j := 0; j < pc; j++ {
			if err := need(4); err != nil {
				return nil, err
			}
			out[name] = append(out[name], int32(binary.BigEndian.Uint32(b[pos:])))
			pos += 4
		}
		if pc == 0 {
			if _, ok := out[name]; !ok {
				out[name] = nil
			}
		}
	}
	if err := need(4); err != nil {
		return nil, err
	}
	ul := int(int32(binary.BigEndian.Uint32(b[pos:])))
	pos += 4
	if ul > 0 {
		if err := need(ul); err != nil {
			return nil, err
		}
		pos += ul
	}
	if pos != len(b) {
		return nil, fmt.Errorf("%d trailing bytes", len(b)-pos)
	}
	return out, nil
}

func c12SetOf(ss []string) map[string]bool {
	m := map[string]bool{}
	for _, s := range ss {
		m[s] = true
	}
	return m
}

func c12SameSet(a, b []string) bool {
	x, y := c12SetOf(a), c12SetOf(b)
	if len(x) != len(y) {
		return false
	}
	for k := range x {
		if !y[k] {
			return false
		}
	}
	return true
}

func c12MaskTopics(mask int) []string {
	var out []string
	for i, n := range c12TopicNames {
		if mask&(1<<i) != 0 {
			out = append(out, n)
		}
	}
	return out
}

func c12Peek(c *GroupCoordinator) c12WB {
	c.mu.Lock()
	defer c.mu.Unlock()
	w := c12WB{members: map[string]int32{}, lastHB: map[string]time.Time{}, sess: map[string]time.Duration{}}
	st, ok := c.groups[c12Group]
	if !ok {
		// not loaded (after a coordinator restart): the group is what the store says, this is
		// exactly what the next request will load
		if rec, err := c.store.FetchConsumerGroup(context.Background(), c12Group); err == nil && rec != nil {
			st, ok = restoreGroupState(rec), true
		}
	}
	if !ok || st == nil || len(st.members) == 0 {
		return w
	}
	w.exists = true
	w.gen = st.generationID
	w.phase = st.state
	w.leader = st.leaderID
	w.deadline = st.rebalanceDeadline
	for id, m := range st.members {
		w.members[id] = m.joinGeneration
		w.lastHB[id] = m.lastHeartbeat
		w.sess[id] = m.sessionTimeout
	}
	return w
}

func (r *c12Run) offsets() map[string]int64 {
	out := map[string]int64{}
	offs, err := r.store.ListConsumerOffsets(r.ctx)
	if err != nil {
		return out
	}
	for _, o := range offs {
		out[fmt.Sprintf("%s|%s|%d", o.Group, o.Topic, o.Partition)] = o.Offset
	}
	return out
}

func c12OffsetsEqual(a, b map[string]int64) bool {
	if len(a) != len(b) {
		return false
	}
	for k, v := range a {
		if w, ok := b[k]; !ok || w != v {
			return false
		}
	}
	return true
}

func (r *c12Run) violate(prop, format string, args ...any) {
	msg := fmt.Sprintf("[step %d] ", len(r.res.trace)) + fmt.Sprintf(format, args...)
	if len(r.res.viol[prop]) < 8 {
		r.res.viol[prop] = append(r.res.viol[prop], msg)
	}
}

func (r *c12Run) tr(format string, args ...any) {
	r.res.trace = append(r.res.trace, fmt.Sprintf(format, args...))
}

func (r *c12Run) class(name string) { r.res.classes[name]++ }

func (r *c12Run) genKey(gen int32) string { return fmt.Sprintf("%d/%d", r.inc, gen) }

func (r *c12Run) rec(gen int32) *c12GenRec {
	k := r.genKey(gen)
	g := r.gens[k]
	if g == nil {
		g = &c12GenRec{assign: map[string]map[string][]int32{}, raw: map[string]string{}}
		r.gens[k] = g
	}
	return g
}

// observe is called after every primitive and every time advance: it notices the end of a
// group incarnation (generation monotonicity only holds "while the group exists").
func (r *c12Run) observe(w c12WB) {
	changed := len(w.members) != len(r.lastSet)
	for id := range w.members {
		if !r.lastSet[id] {
			changed = true
		}
	}
	if changed {
		r.events++
		for id := range r.lastSet {
			if _, ok := w.members[id]; !ok {
				if c := r.clientByID(id); c != nil {
					c.gone = true
				}
			}
		}
		r.lastSet = map[string]bool{}
		for id := range w.members {
			r.lastSet[id] = true
		}
	}
	if !w.exists {
		if r.maxGen != 0 || len(r.joined) != 0 {
			r.inc++
		}
		r.maxGen = 0
		r.rebal = 0
		r.joined = map[string]int32{}
		return
	}
	if len(w.members) > r.res.maxLive {
		r.res.maxLive = len(w.members)
	}
	if len(w.members) >= 2 {
		r.res.feats["multi"] = true
	}
}

func (r *c12Run) clientByID(id string) *c12Client {
	for _, c := range r.cl {
		if c.id == id {
			return c
		}
	}
	return nil
}

func c12Phase(p groupPhase) string {
	switch p {
	case groupStateEmpty:
		return "E"
	case groupStatePreparingRebalance:
		return "P"
	case groupStateCompletingRebalance:
		return "C"
	case groupStateStable:
		return "S"
	}
	return "D"
}

// ---------------------------------------------------------------- primitives

// doJoin sends a JoinGroup with the given member id ("" = new member). cl may be nil (new).
func (r *c12Run) doJoin(cl *c12Client, sendID string, sub []string, sess, reb int) *c12Client {
	pre := c12Peek(r.c)
	r.observe(pre)
	req := kmsg.NewPtrJoinGroupRequest()
	req.Group = c12Group
	req.MemberID = sendID
	req.ProtocolType = "consumer"
	req.SessionTimeoutMillis = int32(sess)
	req.RebalanceTimeoutMillis = int32(reb)
	p := kmsg.NewJoinGroupRequestProtocol()
	p.Name = "range"
	p.Metadata = c12EncodeSub(sub)
	req.Protocols = append(req.Protocols, p)

	faultsBefore := r.gs.faultCount()
	r.markLoaded()
	resp, err := r.c.JoinGroup(r.ctx, req)
	post := c12Peek(r.c)
	if err != nil || resp == nil {
		r.tr("join %q -> err %v", sendID, err)
		if r.gs.faultCount() > faultsBefore {
			r.class("fault/join-rejected-with-error") // a clean rejection is always acceptable
			r.observe(post)
			return cl
		}
		r.violate("C14", "JoinGroup returned error %v", err)
		return cl
	}
	if cl != nil && cl.id == resp.MemberID && !c12SameSet(cl.sub, sub) {
		r.events++ // a changed subscription is a membership event (it may legitimately restart the rebalance)
	}
	code := resp.ErrorCode
	r.tr("join %s sub=%v ph=%s -> code=%d gen=%d id=%s leader=%s members=%d", c12Short(sendID), sub, c12Phase(pre.phase), code, resp.Generation, c12Short(resp.MemberID), c12Short(resp.LeaderID), len(resp.Members))
	r.class(fmt.Sprintf("join/%s/code%d", c12Phase(pre.phase), code))
	if pre.exists && pre.phase == groupStateCompletingRebalance {
		r.res.feats["join-during-completing"] = true
	}

	// --- model update
	if resp.MemberID == "" {
		r.violate("C14", "join reply without a member id")
		return cl
	}
	if cl == nil || cl.id != resp.MemberID {
		if cl != nil && cl.id != "" {
			cl.replaced = true // the old id is dead from the client's point of view
		}
		ncl := &c12Client{id: resp.MemberID}
		r.cl = append(r.cl, ncl)
		cl = ncl
	}
	cl.sub = append([]string(nil), sub...)
	cl.ownGen = resp.Generation
	cl.lastReq = time.Now()
	writeFault := r.gs.faultCount() > faultsBefore
	if writeFault {
		// the store write of this join failed: any reply is acceptable, but the persisted group
		// now lags behind the in-memory one until the next successful write
		r.dirty = true
		r.class(fmt.Sprintf("fault/join-write-failed/%s/code%d", c12Phase(pre.phase), code))
		r.res.feats["write-fault"] = true
	} else if code != protocol.UNKNOWN_SERVER_ERROR {
		r.dirty = false
	}
	if sess > 0 {
		cl.sess = sess
	}
	cl.reb = reb
	r.joined[cl.id] = resp.Generation

	// --- C13: generation numbers never decrease while the group exists
	if resp.Generation < r.maxGen {
		r.violate("C13", "join reply reports generation %d after generation %d was reported (group existed throughout)", resp.Generation, r.maxGen)
	}
	if resp.Generation > r.maxGen {
		if r.maxGen != 0 {
			r.rebal++
		}
		r.maxGen = resp.Generation
	}

	// --- C14
	if writeFault && code != protocol.NONE {
		// an error reply caused by the injected write fault is accepted as it is
		r.class("fault/join-error-reply-accepted")
	} else if _, ok := post.members[resp.LeaderID]; !ok {
		r.violate("C14", "join reply names leader %q which is not a current member %v", resp.LeaderID, c12Keys(post.members))
	}
	if len(resp.Members) > 0 {
		if code != protocol.NONE && !writeFault {
			r.violate("C14", "join reply with error %d carries a member list", code)
		}
		if resp.MemberID != resp.LeaderID {
			r.violate("C14", "member list sent to non-leader %s (leader %s)", resp.MemberID, resp.LeaderID)
		}
	}
	if code == protocol.NONE {
		for id := range post.members {
			if g, ok := r.joined[id]; !ok || g != resp.Generation {
				r.violate("C14", "join answered NONE for generation %d but current member %s last joined generation %d (known=%v)", resp.Generation, id, g, ok)
			}
		}
		if resp.MemberID == resp.LeaderID {
			got := map[string]bool{}
			for _, m := range resp.Members {
				got[m.MemberID] = true
			}
			if len(got) != len(post.members) {
				r.violate("C14", "leader's successful join reply lists %d members, group has %d", len(got), len(post.members))
			}
			for id := range post.members {
				if !got[id] {
					r.violate("C14", "leader's successful join reply omits current member %s", id)
				}
			}
		}
		if len(post.members) >= 2 {
			r.res.okJoins2++
		}
		r.rec(resp.Generation).leader = resp.LeaderID
		// the leader re-joined a Stable group (this is how clients ask for newly created partitions
		// to be assigned) and was told the round is complete in the same generation: the assignment
		// it is about to fetch must cover the partitions that exist now
		if g := r.rec(resp.Generation); pre.exists && pre.phase == groupStateStableRebalanceNone(pre) && resp.MemberID == resp.LeaderID && resp.Generation == pre.gen && g.haveSnap {
			grown := false
			for t, n := range r.parts {
				if n > g.snap[t] {
					for id := range post.members {
						if c := r.clientByID(id); c != nil && c12SetOf(c.sub)[t] {
							grown = true
						}
					}
				}
			}
			if grown {
				if r.opts.excludeGrowth {
					r.res.excl[c12FindingGrowth]++
				} else {
					g.pendSnap = map[string]int{}
					for t, n := range r.parts {
						g.pendSnap[t] = n
					}
					g.pendBy = cl.id
					r.class("c12/leader-rejoin-after-growth")
				}
			}
		}
	}
	r.observe(post)
	return cl
}

// groupStateStableRebalanceNone only exists to keep the condition above readable.
func groupStateStableRebalanceNone(c12WB) groupPhase { return groupStateStable }

func c12Short(id string) string {
	if len(id) > 8 {
		return id[len(id)-6:]
	}
	return id
}

func c12Keys(m map[string]int32) []string {
	out := make([]string, 0, len(m))
	for k := range m {
		out = append(out, k)
	}
	sort.Strings(out)
	return out
}

// mustReject: the C13 predicate "not in the group's current generation".
func (r *c12Run) mustReject(pre c12WB, cl *c12Client, id string, gen int32) (bool, string) {
	if !pre.exists {
		return true, "no-group"
	}
	if _, ok := pre.members[id]; !ok {
		return true, "not-member"
	}
	if cl != nil && (cl.left || cl.ghost) {
		return true, "left-or-ghost"
	}
	if cl != nil && cl.gone && cl.id == id {
		return true, "removed-earlier"
	}
	if cl != nil && !cl.lastReq.IsZero() && cl.id == id {
		// silent for longer than its announced session timeout plus one full cleanup interval
		// (counted from the coordinator's latest start): it must have been expired, whatever
		// phase the group was in
		sess := time.Duration(cl.sess) * time.Millisecond
		if cl.sess <= 0 {
			sess = defaultSessionTimeout
		}
		base := cl.lastReq.Add(sess)
		if r.lastLoad.After(base) {
			base = r.lastLoad
		}
		if !r.unloaded && !time.Now().Before(base.Add(time.Duration(r.env.CleanupMs)*time.Millisecond+time.Millisecond)) {
			return true, "session-lapsed"
		}
	}
	if gen != pre.gen {
		if gen < r.maxGen {
			return true, "stale-gen"
		}
		return true, "other-gen"
	}
	return false, ""
}

// markLoaded: the request being sent makes a freshly restarted coordinator load the group.
func (r *c12Run) markLoaded() {
	if r.unloaded {
		r.unloaded = false
		r.lastLoad = time.Now()
	}
}

func (r *c12Run) noteReject(why string) {
	r.res.rejects++
	r.class("mustreject/" + why)
	if r.rebal > 0 && (why == "stale-gen" || why == "not-member" || why == "left-or-ghost" || why == "removed-earlier" || why == "session-lapsed") {
		r.res.feats["stale-after-rebalance"] = true
	}
}

func (r *c12Run) doSync(cl *c12Client, gen int32) {
	pre := c12Peek(r.c)
	r.observe(pre)
	offBefore := r.offsets()
	snap := map[string]int{}
	for k, v := range r.parts {
		snap[k] = v
	}
	req := kmsg.NewPtrSyncGroupRequest()
	req.Group = c12Group
	req.Generation = gen
	req.MemberID = cl.id
	// the fencing predicate is decided at the instant the request is issued (a request that
	// is parked in a store call by the interleave leg must not be judged by later events)
	rej, why := r.mustReject(pre, cl, cl.id, gen)
	cl.lastReq = time.Now()
	r.markLoaded()
	insideBefore := r.inside
	faultsBefore := r.gs.faultCount()
	// generation gen was completed (everybody joined it, leader synced) and the harness has
	// seen no membership event since: this member's sync must succeed
	expectOK := false
	if g := r.gens[r.genKey(gen)]; g != nil && g.armed && g.armedEvents == r.events && !cl.left && !cl.gone && !cl.ghost && r.joined[cl.id] == gen {
		expectOK = true
	}
	resp, err := r.c.SyncGroup(r.ctx, req)
	post := c12Peek(r.c)
	if err != nil || resp == nil {
		if r.gs.faultCount() > faultsBefore {
			r.tr("sync %s gen=%d -> err %v (injected store fault)", c12Short(cl.id), gen, err)
			r.class("fault/sync-rejected-with-error")
			r.observe(post)
			return
		}
		r.violate("C13", "SyncGroup returned error %v", err)
		return
	}
	if expectOK && r.inside == insideBefore && r.gs.faultCount() == faultsBefore {
		r.class("c14/sync-in-completed-generation-without-membership-event")
		if resp.ErrorCode != protocol.NONE {
			r.violate("C14", "generation %d was completed (all members joined, leader synced) and no member joined, left, expired or changed its subscription since, but sync of member %s for that generation got error %d (group now generation %d phase %s)", gen, cl.id, resp.ErrorCode, post.gen, c12Phase(post.phase))
		}
	}
	code := resp.ErrorCode
	r.tr("sync %s gen=%d ph=%s -> code=%d", c12Short(cl.id), gen, c12Phase(pre.phase), code)
	r.class(fmt.Sprintf("sync/%s/code%d", c12Phase(pre.phase), code))

	if r.inside == insideBefore && !c12OffsetsEqual(offBefore, r.offsets()) {
		r.violate("C13", "SyncGroup changed committed offsets")
	}
	if rej {
		r.noteReject(why)
		if code == protocol.NONE {
			r.violate("C13", "sync from %s with generation %d accepted although %s (current generation %d, members %v)", cl.id, gen, why, pre.gen, c12Keys(pre.members))
		}
	}

	// --- C14, third clause
	if pre.exists && gen == pre.gen {
		if _, ok := pre.members[cl.id]; ok && !cl.left {
			all := true
			for id := range pre.members {
				if r.joined[id] != gen {
					all = false
				}
			}
			g := r.gens[r.genKey(gen)]
			if all && g != nil && g.leaderSynced {
				r.class("c14/sync-after-leader")
				if code != protocol.NONE {
					r.violate("C14", "all members joined generation %d and the leader synced, but sync of %s got error %d", gen, cl.id, code)
				}
			}
		}
	}

	if code != protocol.NONE {
		r.observe(post)
		return
	}

	r.dirty = false // a successful sync wrote the whole group back
	// --- C12
	g := r.rec(gen)
	if !g.haveSnap {
		g.snap, g.haveSnap = snap, true
	}
	if g.pendSnap != nil && g.pendBy == cl.id {
		g.snap, g.pendSnap, g.pendBy = g.pendSnap, nil, ""
		r.class("c12/assignment-judged-against-grown-topic")
	}
	if g.leader == cl.id || post.leader == cl.id {
		g.leaderSynced = true
	}
	if g.leaderSynced && !g.armed && post.exists && post.gen == gen {
		all := true
		for id := range post.members {
			if r.joined[id] != gen {
				all = false
			}
		}
		if all {
			g.armed, g.armedEvents = true, r.events
		}
	}
	asg, derr := c12DecodeAssignment(resp.MemberAssignment)
	if derr != nil {
		r.violate("C12", "sync NONE for %s carries an undecodable assignment: %v (%x)", cl.id, derr, resp.MemberAssignment)
		r.observe(post)
		return
	}
	subs := c12SetOf(cl.sub)
	for topic, ps := range asg {
		if !subs[topic] {
			r.violate("C12", "member %s (latest subscription %v) received partitions %v of topic %q it does not subscribe to (generation %d)", cl.id, cl.sub, ps, topic, gen)
		}
		seen := map[int32]bool{}
		for _, p := range ps {
			if seen[p] {
				r.violate("C12", "member %s received partition %s/%d twice", cl.id, topic, p)
			}
			seen[p] = true
		}
		if n, ok := g.snap[topic]; !ok || n == 0 {
			if len(ps) > 0 {
				r.res.phantom++
				r.class("c12/phantom-partition-of-unknown-topic")
			}
		}
	}
	rawKey := fmt.Sprintf("%x", resp.MemberAssignment)
	if prev, ok := g.raw[cl.id]; ok {
		r.class("c12/resync-same-generation")
		if !c12AssignEqual(g.assign[cl.id], asg) {
			r.violate("C12", "member %s got two different assignments in generation %d: %s then %s", cl.id, gen, prev, rawKey)
		}
	} else {
		g.raw[cl.id] = rawKey
		g.assign[cl.id] = asg
	}
	// pairwise disjoint within the generation
	for other, oa := range g.assign {
		if other == cl.id {
			continue
		}
		for topic, ps := range asg {
			for _, p := range ps {
				for _, q := range oa[topic] {
					if p == q {
						r.violate("C12", "partition %s/%d assigned to both %s and %s in generation %d", topic, p, cl.id, other, gen)
					}
				}
			}
		}
	}
	// coverage once every current member has an observed assignment of this generation
	if post.exists && post.gen == gen {
		all := true
		for id := range post.members {
			if _, ok := g.assign[id]; !ok {
				all = false
			}
		}
		if all {
			if !g.covered {
				g.covered = true
				if len(post.members) >= 2 {
					r.res.fullGens++
				}
				r.class(fmt.Sprintf("c12/full-generation/members%d", len(post.members)))
			}
			for topic, n := range g.snap {
				if n == 0 {
					continue
				}
				subscribed := false
				for id := range post.members {
					if c := r.clientByID(id); c != nil && c12SetOf(c.sub)[topic] {
						subscribed = true
					}
				}
				if !subscribed {
					continue
				}
				for p := 0; p < n; p++ {
					owners := []string{}
					for id := range post.members {
						for _, q := range g.assign[id][topic] {
							if int(q) == p {
								owners = append(owners, id)
							}
						}
					}
					if len(owners) != 1 {
						sort.Strings(owners)
						r.violate("C12", "generation %d complete: partition %s/%d (of %d) has %d owners %v; members=%v", gen, topic, p, n, len(owners), owners, r.describeMembers(post))
					}
				}
			}
		}
	}
	r.observe(post)
}

func (r *c12Run) describeMembers(w c12WB) string {
	var parts []string
	for _, id := range c12Keys(w.members) {
		c := r.clientByID(id)
		if c == nil {
			parts = append(parts, id+":?")
			continue
		}
		parts = append(parts, fmt.Sprintf("%s:%v", c12Short(id), c.sub))
	}
	return strings.Join(parts, " ")
}

func c12AssignEqual(a, b map[string][]int32) bool {
	norm := func(m map[string][]int32) string {
		var ks []string
		for k, v := range m {
			if len(v) == 0 {
				continue
			}
			vv := append([]int32(nil), v...)
			sort.Slice(vv, func(i, j int) bool { return vv[i] < vv[j] })
			ks = append(ks, fmt.Sprintf("%s=%v", k, vv))
		}
		sort.Strings(ks)
		return strings.Join(ks, ";")
	}
	return norm(a) == norm(b)
}

func (r *c12Run) doHeartbeat(cl *c12Client, gen int32) {
	pre := c12Peek(r.c)
	r.observe(pre)
	offBefore := r.offsets()
	req := kmsg.NewPtrHeartbeatRequest()
	req.Group = c12Group
	req.Generation = gen
	req.MemberID = cl.id
	rej, why := r.mustReject(pre, cl, cl.id, gen)
	cl.lastReq = time.Now()
	r.markLoaded()
	insideBefore := r.inside
	resp := r.c.Heartbeat(r.ctx, req)
	post := c12Peek(r.c)
	if resp == nil {
		r.violate("C13", "Heartbeat returned nil")
		return
	}
	r.tr("hb %s gen=%d ph=%s -> code=%d", c12Short(cl.id), gen, c12Phase(pre.phase), resp.ErrorCode)
	r.class(fmt.Sprintf("hb/%s/code%d", c12Phase(pre.phase), resp.ErrorCode))
	if r.inside == insideBefore && !c12OffsetsEqual(offBefore, r.offsets()) {
		r.violate("C13", "Heartbeat changed committed offsets")
	}
	if resp.ErrorCode == protocol.NONE {
		r.dirty = false
	}
	if rej {
		r.noteReject(why)
		if resp.ErrorCode == protocol.NONE {
			r.violate("C13", "heartbeat from %s with generation %d accepted although %s (current generation %d, members %v)", cl.id, gen, why, pre.gen, c12Keys(pre.members))
		}
	}
	r.observe(post)
}

func (r *c12Run) doCommit(cl *c12Client, gen int32, topic string, part int32, off int64, second bool) {
	pre := c12Peek(r.c)
	r.observe(pre)
	offBefore := r.offsets()
	req := kmsg.NewPtrOffsetCommitRequest()
	req.Group = c12Group
	req.Generation = gen
	req.MemberID = cl.id
	rt := kmsg.NewOffsetCommitRequestTopic()
	rt.Topic = topic
	rp := kmsg.NewOffsetCommitRequestTopicPartition()
	rp.Partition = part
	rp.Offset = off
	rt.Partitions = append(rt.Partitions, rp)
	if second {
		rp2 := kmsg.NewOffsetCommitRequestTopicPartition()
		rp2.Partition = part + 1
		rp2.Offset = off + 7
		rt.Partitions = append(rt.Partitions, rp2)
	}
	req.Topics = append(req.Topics, rt)
	rej, why := r.mustReject(pre, cl, cl.id, gen)
	joinedGen := r.joined[cl.id]
	cl.lastReq = time.Now()
	r.markLoaded()
	insideBefore := r.inside
	faultsBefore := r.gs.faultCount()
	resp, err := r.c.OffsetCommit(r.ctx, req)
	post := c12Peek(r.c)
	if (err != nil || resp == nil) && r.gs.faultCount() > faultsBefore {
		r.tr("commit %s gen=%d -> err %v (injected store fault)", c12Short(cl.id), gen, err)
		r.class("fault/commit-rejected-with-error")
		if !c12OffsetsEqual(offBefore, r.offsets()) {
			r.violate("C13", "commit rejected with an error changed committed offsets")
		}
		r.observe(post)
		return
	}
	if err != nil || resp == nil {
		r.violate("C13", "OffsetCommit returned error %v", err)
		return
	}
	anyOK, n := false, 0
	codes := []int16{}
	for _, t := range resp.Topics {
		for _, p := range t.Partitions {
			n++
			codes = append(codes, p.ErrorCode)
			if p.ErrorCode == protocol.NONE {
				anyOK = true
			}
		}
	}
	r.tr("commit %s gen=%d %s/%d@%d ph=%s -> codes=%v", c12Short(cl.id), gen, topic, part, off, c12Phase(pre.phase), codes)
	first := int16(-1)
	if len(codes) > 0 {
		first = codes[0]
	}
	r.class(fmt.Sprintf("commit/%s/code%d", c12Phase(pre.phase), first))
	offAfter := r.offsets()
	if rej {
		r.noteReject(why)
		if anyOK || n != len(rt.Partitions) {
			r.violate("C13", "commit from %s with generation %d not rejected for every partition (codes %v) although %s (current generation %d, members %v)", cl.id, gen, codes, why, pre.gen, c12Keys(pre.members))
		}
		if r.inside == insideBefore && !c12OffsetsEqual(offBefore, offAfter) {
			r.violate("C13", "rejected commit from %s (generation %d, %s) changed committed offsets: before=%v after=%v", cl.id, gen, why, offBefore, offAfter)
		}
	} else if joinedGen != gen {
		r.class("c13/current-gen-guessed-without-joining")
	} else if anyOK {
		r.class("c13/commit-accepted-from-current-member")
	}
	r.observe(post)
}

func (r *c12Run) doLeave(cl *c12Client) {
	pre := c12Peek(r.c)
	r.observe(pre)
	req := kmsg.NewPtrLeaveGroupRequest()
	req.Group = c12Group
	req.MemberID = cl.id
	cl.lastReq = time.Now()
	r.markLoaded()
	resp := r.c.LeaveGroup(r.ctx, req)
	post := c12Peek(r.c)
	if resp == nil {
		return
	}
	r.tr("leave %s ph=%s -> code=%d", c12Short(cl.id), c12Phase(pre.phase), resp.ErrorCode)
	r.class(fmt.Sprintf("leave/%s/code%d", c12Phase(pre.phase), resp.ErrorCode))
	if resp.ErrorCode == protocol.NONE {
		cl.left = true
		r.dirty = false
		delete(r.joined, cl.id)
		if len(post.members) >= 1 {
			r.res.feats["leave-rebalance"] = true
		}
	}
	r.observe(post)
}

func (r *c12Run) advance(d time.Duration) {
	if d <= 0 {
		d = time.Millisecond
	}
	pre := c12Peek(r.c)
	time.Sleep(d)
	synctest.Wait()
	post := c12Peek(r.c)
	r.tr("advance %s ph=%s members %d->%d gen %d->%d", d, c12Phase(pre.phase), len(pre.members), len(post.members), pre.gen, post.gen)
	if pre.exists && len(post.members) < len(pre.members) {
		for id := range pre.members {
			if _, ok := post.members[id]; !ok {
				delete(r.joined, id)
			}
		}
		if post.exists {
			r.res.feats["expiry-rebalance"] = true
			r.class("advance/expired-some")
		} else {
			r.class("advance/expired-all")
		}
	} else {
		r.class("advance/no-expiry")
	}
	r.observe(post)
}

// ---------------------------------------------------------------- interpreter

func (r *c12Run) live() []*c12Client {
	w := c12Peek(r.c)
	var out []*c12Client
	for _, c := range r.cl {
		if _, ok := w.members[c.id]; ok && !c.ghost {
			out = append(out, c)
		}
	}
	return out
}

func (r *c12Run) pick(who int) *c12Client {
	if len(r.cl) == 0 {
		return nil
	}
	live := r.live()
	n := len(r.cl)
	if who < 0 {
		who = -who
	}
	// two thirds of the selector space address live members, the rest anybody (dead, ghost)
	if len(live) > 0 && who%3 != 2 {
		return live[(who/3)%len(live)]
	}
	return r.cl[(who/3)%n]
}

func (r *c12Run) resolveGen(cl *c12Client, sel, off int) int32 {
	w := c12Peek(r.c)
	switch sel {
	case 0:
		return cl.ownGen
	case 1:
		return w.gen
	case 2:
		g := cl.ownGen - int32(1+off%2)
		if w.exists && cl.ownGen == 0 {
			g = w.gen - int32(1+off%2)
		}
		return g
	case 3:
		return w.gen + int32(1+off%2)
	default:
		return -1
	}
}

func (r *c12Run) step(a c12Act) {
	r.class("act/" + c12KindNames[a.Kind])
	switch a.Kind {
	case c12KJoinNew:
		if len(r.live()) >= 4 || len(r.cl) >= 9 {
			r.class("act/joinNew-skipped-full")
			return
		}
		if a.Nth == 1 {
			r.writeFaulted(func() { r.doJoin(nil, "", c12MaskTopics(a.Sub), a.Sess, a.Reb) })
			return
		}
		r.doJoin(nil, "", c12MaskTopics(a.Sub), a.Sess, a.Reb)
	case c12KRejoin:
		cl := r.pick(a.Who)
		if cl == nil {
			r.doJoin(nil, "", c12MaskTopics(a.Sub), a.Sess, a.Reb)
			return
		}
		sub := cl.sub
		if a.SubMode == 1 {
			sub = c12MaskTopics(a.Sub)
		}
		w := c12Peek(r.c)
		_, isMember := w.members[cl.id]
		if isMember && !c12SameSet(sub, cl.sub) {
			if w.phase == groupStateStable {
				if r.opts.excludeStableRejoin {
					r.res.excluded++
					sub = cl.sub
				} else {
					r.res.feats["changed-sub-rejoin"] = true
					r.class("rejoin/changed-sub-in-stable")
				}
			} else {
				r.res.feats["changed-sub-rejoin"] = true
				r.class("rejoin/changed-sub-in-rebalance")
			}
		}
		if !isMember {
			if len(r.live()) >= 4 || len(r.cl) >= 9 {
				return
			}
			r.class("rejoin/with-dead-id")
		}
		sess := a.Sess
		if a.Nth == 1 {
			r.writeFaulted(func() { r.doJoin(cl, cl.id, sub, sess, a.Reb) })
			return
		}
		r.doJoin(cl, cl.id, sub, sess, a.Reb)
	case c12KSync:
		if cl := r.pick(a.Who); cl != nil {
			r.doSync(cl, r.resolveGen(cl, a.GenSel, a.GenOff))
		}
	case c12KHeartbeat:
		if cl := r.pick(a.Who); cl != nil {
			r.doHeartbeat(cl, r.resolveGen(cl, a.GenSel, a.GenOff))
		}
	case c12KLeave:
		if cl := r.pick(a.Who); cl != nil {
			if a.GenOff == 1 {
				r.doLeaveV4(cl)
			} else {
				r.doLeave(cl)
			}
		}
	case c12KCommit:
		if cl := r.pick(a.Who); cl != nil {
			r.doCommit(cl, r.resolveGen(cl, a.GenSel, a.GenOff), c12TopicNames[a.Topic%len(c12TopicNames)], int32(a.Part), a.Off, a.GenOff%3 == 0)
		}
	case c12KGhost:
		gh := &c12Client{id: fmt.Sprintf("%s-ghost-%d", c12Group, a.Who%3), ghost: true, ownGen: 1}
		if c := r.clientByID(gh.id); c != nil {
			gh = c
		} else {
			r.cl = append(r.cl, gh)
		}
		g := r.resolveGen(gh, a.GenSel, a.GenOff)
		switch a.TMode % 4 {
		case 3:
			r.doLeave(gh) // goodbye from somebody who never was a member
		case 0:
			r.doHeartbeat(gh, g)
		case 1:
			r.doSync(gh, g)
		default:
			r.doCommit(gh, g, c12TopicNames[a.Topic%len(c12TopicNames)], int32(a.Part), a.Off, false)
		}
	case c12KAdvance:
		r.advance(r.resolveAdvance(a))
	case c12KTopic:
		name := c12TopicNames[a.Topic%3]
		if r.parts[name] == 0 {
			n := 1 + a.Part%6
			if _, err := r.store.CreateTopic(r.ctx, metadata.TopicSpec{Name: name, NumPartitions: int32(n), ReplicationFactor: 1}); err == nil {
				r.parts[name] = n
				r.tr("create %s parts=%d", name, n)
				r.class("topic/create")
			}
		} else if r.parts[name] < 6 {
			n := r.parts[name] + 1 + a.Part%(6-r.parts[name])
			if err := r.store.CreatePartitions(r.ctx, name, int32(n)); err == nil {
				r.parts[name] = n
				r.tr("grow %s parts=%d", name, n)
				r.class("topic/grow")
			}
		}
	case c12KRound:
		r.round(a)
	case c12KInterleave:
		r.interleaveAct(a)
	case c12KRestart:
		r.restartAct(a)
	}
}

func (r *c12Run) resolveAdvance(a c12Act) time.Duration {
	w := c12Peek(r.c)
	now := time.Now()
	interval := time.Duration(r.env.CleanupMs) * time.Millisecond
	earliest := time.Time{}
	for id, hb := range w.lastHB {
		s := w.sess[id]
		if s == 0 {
			s = defaultSessionTimeout
		}
		dl := hb.Add(s)
		if earliest.IsZero() || dl.Before(earliest) {
			earliest = dl
		}
	}
	switch a.TMode {
	case 1: // just before the earliest session deadline
		if !earliest.IsZero() && earliest.Sub(now) > 2*time.Millisecond {
			return earliest.Sub(now) - time.Millisecond
		}
	case 2: // past the earliest session deadline and the following cleanup tick
		if !earliest.IsZero() {
			d := earliest.Sub(now)
			if d < 0 {
				d = 0
			}
			return d + interval + time.Millisecond
		}
	case 3: // just before the rebalance deadline
		if !w.deadline.IsZero() && w.deadline.Sub(now) > 2*time.Millisecond {
			return w.deadline.Sub(now) - time.Millisecond
		}
	case 4: // past the rebalance deadline and the following cleanup tick
		if !w.deadline.IsZero() {
			d := w.deadline.Sub(now)
			if d < 0 {
				d = 0
			}
			return d + interval + time.Millisecond
		}
	case 5:
		return interval
	case 6:
		return time.Duration(31+a.TAmt%30) * time.Second
	}
	return time.Duration(1+a.TAmt%999) * time.Millisecond
}

// round: every live member re-joins (twice, so that the early ones see the completed
// generation), then the leader syncs, then everybody syncs.
func (r *c12Run) round(a c12Act) {
	live := r.live()
	if len(live) == 0 {
		return
	}
	k := a.Who
	if k < 0 {
		k = -k
	}
	rot := append(append([]*c12Client(nil), live[k%len(live):]...), live[:k%len(live)]...)
	joins := 0
	for pass := 0; pass < 2; pass++ {
		for _, cl := range rot {
			w := c12Peek(r.c)
			if _, ok := w.members[cl.id]; !ok {
				continue
			}
			if pass == 1 && w.exists && r.joined[cl.id] == w.gen && w.phase != groupStatePreparingRebalance && a.TAmt%2 == 0 {
				continue
			}
			joins++
			if a.Nth > 0 && joins == a.Nth {
				cl := cl
				r.writeFaulted(func() { r.doJoin(cl, cl.id, cl.sub, 0, cl.reb) })
				continue
			}
			r.doJoin(cl, cl.id, cl.sub, 0, cl.reb)
		}
	}
	w := c12Peek(r.c)
	if !w.exists {
		return
	}
	if a.Part%4 == 3 && (w.phase == groupStateCompletingRebalance || w.phase == groupStatePreparingRebalance) {
		// everybody re-joined and then falls silent while the rebalance is still open: once the
		// sessions (plus a cleanup interval) have lapsed, nobody may heartbeat or commit any more
		var until time.Time
		for _, cl := range rot {
			sess := time.Duration(cl.sess) * time.Millisecond
			if cl.sess <= 0 {
				sess = defaultSessionTimeout
			}
			if t := cl.lastReq.Add(sess); t.After(until) {
				until = t
			}
		}
		r.class("round/all-silent-during-open-rebalance")
		r.res.feats["expiry-during-rebalance"] = true
		r.advance(time.Until(until) + time.Duration(r.env.CleanupMs)*time.Millisecond + time.Millisecond)
		for _, cl := range rot {
			r.doCommit(cl, cl.ownGen, c12TopicNames[0], 0, 41, false)
			r.doHeartbeat(cl, cl.ownGen)
		}
		return
	}
	if a.Part%4 == 2 && w.phase == groupStateCompletingRebalance {
		// a known member changes its subscription while the rebalance is in progress, then the
		// coordinator is restarted before anybody syncs: the assignment must follow the LATEST
		// subscriptions
		cl := rot[(k/2)%len(rot)]
		if _, ok := w.members[cl.id]; ok {
			sub := c12MaskTopics(a.Sub)
			if !c12SameSet(sub, cl.sub) {
				r.res.feats["changed-sub-rejoin"] = true
				r.class("rejoin/changed-sub-in-completing-then-restart")
			}
			r.doJoin(cl, cl.id, sub, 0, cl.reb)
			r.restart()
			w = c12Peek(r.c)
			if !w.exists {
				return
			}
		}
	}
	if a.TMode%4 != 3 { // sometimes followers go first
		if lc := r.clientByID(w.leader); lc != nil {
			if a.GenOff == 1 && r.opts.excludeMetaFault {
				r.res.excl[c12FindingMetaErr]++
			}
			if a.GenOff == 1 && !r.opts.excludeMetaFault {
				// the topic-metadata lookup of the store fails once while the leader syncs
				r.metaFaulted(func() { r.doSync(lc, lc.ownGen) })
			} else {
				r.doSync(lc, lc.ownGen)
			}
		}
	}
	if a.Part%4 == 1 {
		r.staleLeave(a.Who)
	}
	for _, cl := range rot {
		r.doSync(cl, cl.ownGen)
	}
	if a.TMode%4 == 3 {
		if lc := r.clientByID(w.leader); lc != nil {
			r.doSync(lc, lc.ownGen)
		}
		for _, cl := range rot {
			r.doSync(cl, cl.ownGen)
		}
	}
}

func c12Execute(t *testing.T, env c12Env, opts c12Opts) *c12Result {
	res := &c12Result{viol: map[string][]string{}, feats: map[string]bool{}, classes: map[string]int{}, excl: map[string]int{}}
	rand.Seed(env.Seed) // member ids come from the global math/rand source (needs GODEBUG=randseednop=0)
	synctest.Test(t, func(t *testing.T) {
		defer func() {
			if p := recover(); p != nil {
				res.viol["PANIC"] = append(res.viol["PANIC"], fmt.Sprintf("panic: %v", p))
			}
		}()
		var topics []protocol.MetadataTopic
		parts := map[string]int{}
		for i, n := range env.Parts {
			parts[c12TopicNames[i]] = n
			if n == 0 {
				continue
			}
			ps := make([]protocol.MetadataPartition, n)
			for j := range ps {
				ps[j] = protocol.MetadataPartition{Partition: int32(j), Leader: 1, Replicas: []int32{1}, ISR: []int32{1}}
			}
			topics = append(topics, protocol.MetadataTopic{Topic: kmsg.StringPtr(c12TopicNames[i]), Partitions: ps})
		}
		brk := protocol.MetadataBroker{NodeID: 1, Host: "localhost", Port: 9092}
		store := metadata.NewInMemoryStore(metadata.ClusterMetadata{Brokers: []protocol.MetadataBroker{brk}, ControllerID: 1, Topics: topics})
		gs := &c12GateStore{InMemoryStore: store}
		c := NewGroupCoordinator(gs, brk, &CoordinatorConfig{CleanupInterval: time.Duration(env.CleanupMs) * time.Millisecond})
		r := &c12Run{t: t, c: c, store: store, gs: gs, brk: brk, lastSet: map[string]bool{}, ctx: context.Background(), opts: opts, env: env, parts: parts,
			joined: map[string]int32{}, gens: map[string]*c12GenRec{}, res: res}
		defer func() { r.c.Stop() }()
		// odd sub-millisecond start so that harness actions never coincide with a cleanup tick
		time.Sleep(137 * time.Microsecond)
		for _, a := range env.Script {
			r.step(a)
			if len(res.viol["PANIC"]) > 0 || (opts.focus == "" && len(res.viol) > 0) || (opts.focus != "" && len(res.viol[opts.focus]) > 0) {
				break
			}
		}
	})
	return res
}

func c12DrawEnv(t *rapid.T) c12Env {
	env := c12Env{
		Seed:      rapid.Int64Range(1, 1<<40).Draw(t, "seed"),
		CleanupMs: rapid.SampledFrom([]int{1000, 2000, 5000}).Draw(t, "cleanup"),
	}
	for i := range env.Parts {
		env.Parts[i] = rapid.SampledFrom([]int{0, 1, 2, 3, 4, 6}).Draw(t, "parts")
	}
	if env.Parts[0] == 0 {
		env.Parts[0] = 1 + rapid.IntRange(0, 5).Draw(t, "parts0")
	}
	kinds := []int{
		c12KJoinNew, c12KJoinNew, c12KJoinNew,
		c12KRejoin, c12KRejoin, c12KRejoin, c12KRejoin,
		c12KSync, c12KSync, c12KSync, c12KSync,
		c12KHeartbeat, c12KHeartbeat, c12KHeartbeat,
		c12KLeave,
		c12KCommit, c12KCommit, c12KCommit,
		c12KAdvance, c12KAdvance, c12KAdvance,
		c12KTopic,
		c12KRound, c12KRound, c12KRound, c12KRound,
		c12KGhost,
		c12KRestart,
	}
	n := rapid.IntRange(4, 40).Draw(t, "steps")
	for i := 0; i < n; i++ {
		a := c12Act{Kind: rapid.SampledFrom(kinds).Draw(t, "kind")}
		c12DrawActFields(t, &a)
		env.Script = append(env.Script, a)
	}
	return env
}

func c12RandSeedWorks() bool {
	rand.Seed(12345)
	a := rand.Int63()
	rand.Seed(12345)
	return a == rand.Int63()
}

func c12Focus() string {
	f := strings.ToUpper(strings.TrimSpace(os.Getenv("VF_FOCUS")))
	switch f {
	case "C12", "C13", "C14":
		return f
	}
	return ""
}

func TestVF_C12_Machine(t *testing.T) {
	focus := c12Focus()
	prop := os.Getenv("VF_PROP")
	if prop == "" {
		prop = "C12"
		if focus != "" {
			prop = focus
		}
	}
	st := vfkit.NewStats(prop, "machine")
	defer st.Flush()
	if !c12RandSeedWorks() {
		fmt.Println("VF-INCONCLUSIVE: math/rand.Seed is a no-op (run with GODEBUG=randseednop=0); member ids would not be reproducible")
		t.Fatalf("rand.Seed has no effect")
	}
	exclude := vfkit.Known(c12FindingStableRejoin)
	st.Note("focus", focus)
	st.Note("exclude_"+c12FindingStableRejoin, exclude)
	rapid.Check(t, func(rt *rapid.T) {
		env := c12DrawEnv(rt)
		st.Eval()
		res := c12Execute(t, env, c12Opts{excludeStableRejoin: exclude, excludeMetaFault: vfkit.Known(c12FindingMetaErr), excludeGrowth: vfkit.Known(c12FindingGrowth), focus: focus})
		for k, v := range res.classes {
			st.ClassN(k, v)
		}
		for id, n := range res.excl {
			for i := 0; i < n; i++ {
				st.ExcludedCase(id)
			}
		}
		for i := 0; i < res.excluded; i++ {
			st.ExcludedCase(c12FindingStableRejoin)
		}
		trigger := res.feats["expiry-rebalance"] || res.feats["changed-sub-rejoin"] || res.feats["stale-after-rebalance"] || res.feats["join-during-completing"]
		nt := res.feats["multi"] && trigger
		switch prop {
		case "C12":
			nt = nt && res.fullGens > 0
		case "C13":
			nt = nt && res.rejects > 0
		case "C14":
			nt = nt && res.okJoins2 > 0
		}
		for f := range res.feats {
			st.Class("feat/" + f)
		}
		if nt {
			st.Class("nontrivial")
			if st.NonTrivial(strings.Join(res.trace, "\n")) {
				tr := res.trace
				if len(tr) > 40 {
					tr = tr[:40]
				}
				st.Sample(map[string]any{"cleanup_ms": env.CleanupMs, "parts": env.Parts, "features": c12FeatList(res.feats), "trace": tr})
			}
		}
		if v := res.viol["PANIC"]; len(v) > 0 {
			rt.Fatalf("coordinator panicked: %v\ntrace:\n%s", v, strings.Join(res.trace, "\n"))
		}
		for _, p := range []string{"C12", "C13", "C14"} {
			if focus != "" && focus != p {
				if len(res.viol[p]) > 0 {
					st.Class("other-focus-violation/" + p)
				}
				continue
			}
			if v := res.viol[p]; len(v) > 0 {
				rt.Fatalf("%s violated (details after the trace)\ntrace:\n%s\n%s violated:\n%s", p, strings.Join(res.trace, "\n"), p, strings.Join(v, "\n"))
			}
		}
	})
}

func c12FeatList(m map[string]bool) []string {
	var out []string
	for k := range m {
		out = append(out, k)
	}
	sort.Strings(out)
	return out
}

// TestVF_C12_Witness replays the minimal history of the listed finding through the same
// interpreter and oracle (exclusion switched off).
func TestVF_C12_Witness(t *testing.T) {
	st := vfkit.NewStats("C12", "witness")
	defer st.Flush()
	if !c12RandSeedWorks() {
		fmt.Println("VF-INCONCLUSIVE: math/rand.Seed is a no-op (run with GODEBUG=randseednop=0)")
		t.Fatalf("rand.Seed has no effect")
	}
	env := c12Env{Seed: 7, CleanupMs: 1000, Parts: [3]int{2, 3, 0}, Script: []c12Act{
		{Kind: c12KJoinNew, Sub: 1, Sess: 10000, Reb: 10000},                // m1 subscribes {ta}
		{Kind: c12KSync, Who: 0, GenSel: 0},                                 // leader sync -> Stable, owns ta/0, ta/1
		{Kind: c12KRejoin, Who: 0, SubMode: 1, Sub: 2, Sess: 0, Reb: 10000}, // m1 re-subscribes to {tb} in Stable
		{Kind: c12KSync, Who: 0, GenSel: 0},                                 // still receives ta/0, ta/1; tb unowned
	}}
	st.Eval()
	res := c12Execute(t, env, c12Opts{excludeStableRejoin: false})
	fails := len(res.viol["C12"]) > 0
	what := "re-join in Stable with a changed subscription is answered NONE without a rebalance; next sync still hands out the old topic's partitions"
	if fails {
		what = res.viol["C12"][0]
	}
	st.NonTrivial("witness", c12FindingStableRejoin)
	st.Sample(map[string]any{"trace": res.trace, "violations": res.viol})
	st.KnownResult(c12FindingStableRejoin, fails, what)
	t.Logf("witness %s still fails: %v\n%s", c12FindingStableRejoin, fails, strings.Join(res.trace, "\n"))
	if v := res.viol["PANIC"]; len(v) > 0 {
		t.Fatalf("panic in witness: %v", v)
	}
	// store.Metadata fails once while the only member (leader) syncs: a 4-partition topic
	envM := c12Env{Seed: 7, CleanupMs: 1000, Parts: [3]int{4, 0, 0}, Script: []c12Act{
		{Kind: c12KJoinNew, Sub: 1, Sess: 10000, Reb: 10000},
		{Kind: c12KRound, GenOff: 1},
	}}
	st.Eval()
	rm := c12Execute(t, envM, c12Opts{})
	failsM := len(rm.viol["C12"]) > 0
	whatM := "not reproduced"
	if failsM {
		whatM = rm.viol["C12"][0]
	}
	st.KnownResult(c12FindingMetaErr, failsM, whatM)
	t.Logf("witness %s still fails: %v\n%s", c12FindingMetaErr, failsM, strings.Join(rm.trace, "\n"))
	// topic grows from 2 to more partitions, the leader re-joins (same subscription) and syncs
	envG := c12Env{Seed: 7, CleanupMs: 1000, Parts: [3]int{2, 0, 0}, Script: []c12Act{
		{Kind: c12KJoinNew, Sub: 1, Sess: 10000, Reb: 10000},
		{Kind: c12KSync, Who: 0, GenSel: 0},
		{Kind: c12KTopic, Topic: 0, Part: 1},
		{Kind: c12KRejoin, Who: 0, SubMode: 0, Reb: 10000},
		{Kind: c12KSync, Who: 0, GenSel: 0},
	}}
	st.Eval()
	rg := c12Execute(t, envG, c12Opts{})
	failsG := len(rg.viol["C12"]) > 0
	whatG := "not reproduced"
	if failsG {
		whatG = rg.viol["C12"][0]
	}
	st.KnownResult(c12FindingGrowth, failsG, whatG)
	t.Logf("witness %s still fails: %v\n%s", c12FindingGrowth, failsG, strings.Join(rg.trace, "\n"))
	for _, rr := range []*c12Result{rm, rg} {
		if v := rr.viol["PANIC"]; len(v) > 0 {
			t.Fatalf("panic in witness: %v", v)
		}
	}
}

var c12Sessions = []int{0, 3000, 5000, 10000, 30000}

var c12Rebs = []int{0, 5000, 10000, 60000}

var c12Gensel = []int{0, 0, 0, 0, 1, 1, 2, 2, 3, 4}

// c12DrawActFields draws the parameters of one action of the given kind.
func c12DrawActFields(t *rapid.T, ap *c12Act) {
	a := *ap
	switch a.Kind {
	case c12KJoinNew:
		a.Sub = rapid.IntRange(0, 15).Draw(t, "sub")
		a.Sess = rapid.SampledFrom(c12Sessions).Draw(t, "sess")
		a.Reb = rapid.SampledFrom(c12Rebs).Draw(t, "reb")
		a.Nth = rapid.SampledFrom([]int{0, 0, 0, 0, 0, 1}).Draw(t, "wfault")
	case c12KRejoin:
		a.Who = rapid.IntRange(0, 23).Draw(t, "who")
		a.SubMode = rapid.SampledFrom([]int{0, 0, 1}).Draw(t, "submode")
		if a.SubMode == 1 {
			a.Sub = rapid.IntRange(0, 15).Draw(t, "sub")
		}
		a.Sess = rapid.SampledFrom(c12Sessions).Draw(t, "sess")
		a.Reb = rapid.SampledFrom(c12Rebs).Draw(t, "reb")
		a.Nth = rapid.SampledFrom([]int{0, 0, 0, 0, 0, 1}).Draw(t, "wfault")
	case c12KSync, c12KHeartbeat:
		a.Who = rapid.IntRange(0, 23).Draw(t, "who")
		a.GenSel = rapid.SampledFrom(c12Gensel).Draw(t, "gensel")
		a.GenOff = rapid.IntRange(0, 1).Draw(t, "genoff")
	case c12KLeave:
		a.Who = rapid.IntRange(0, 23).Draw(t, "who")
		a.GenOff = rapid.SampledFrom([]int{0, 0, 1}).Draw(t, "v4shape")
	case c12KCommit:
		a.Who = rapid.IntRange(0, 23).Draw(t, "who")
		a.GenSel = rapid.SampledFrom(c12Gensel).Draw(t, "gensel")
		a.GenOff = rapid.IntRange(0, 2).Draw(t, "genoff")
		a.Topic = rapid.IntRange(0, 3).Draw(t, "topic")
		a.Part = rapid.IntRange(0, 5).Draw(t, "part")
		a.Off = int64(rapid.IntRange(0, 1000).Draw(t, "off"))
	case c12KGhost:
		a.Who = rapid.IntRange(0, 2).Draw(t, "who")
		a.GenSel = rapid.SampledFrom(c12Gensel).Draw(t, "gensel")
		a.TMode = rapid.IntRange(0, 3).Draw(t, "op")
		a.Topic = rapid.IntRange(0, 3).Draw(t, "topic")
		a.Off = int64(rapid.IntRange(0, 1000).Draw(t, "off"))
	case c12KAdvance:
		a.TMode = rapid.SampledFrom([]int{0, 0, 0, 1, 1, 2, 2, 2, 3, 4, 4, 5, 5, 6}).Draw(t, "tmode")
		a.TAmt = rapid.IntRange(0, 998).Draw(t, "tamt")
	case c12KTopic:
		a.Topic = rapid.IntRange(0, 2).Draw(t, "topic")
		a.Part = rapid.IntRange(0, 5).Draw(t, "part")
	case c12KRound:
		a.Who = rapid.IntRange(0, 3).Draw(t, "rot")
		a.TMode = rapid.IntRange(0, 3).Draw(t, "order")
		a.TAmt = rapid.IntRange(0, 1).Draw(t, "rejoinall")
		a.Part = rapid.IntRange(0, 3).Draw(t, "staleleave")
		a.Sub = rapid.IntRange(0, 15).Draw(t, "resub")
		a.Nth = rapid.SampledFrom([]int{0, 0, 0, 0, 1, 2, 3, 4}).Draw(t, "wfault")
		a.GenOff = rapid.SampledFrom([]int{0, 0, 0, 0, 1}).Draw(t, "metafault")
	case c12KRestart:
		a.TMode = rapid.SampledFrom([]int{0, 0, 1, 1, 2, 3}).Draw(t, "first")
		a.Who = rapid.IntRange(0, 23).Draw(t, "who")
		a.Sub = rapid.IntRange(0, 15).Draw(t, "sub")
		a.TAmt = rapid.IntRange(0, 2).Draw(t, "op")
	}
	*ap = a
}
