//go:build verif

package broker

import (
	"context"
	"encoding/binary"
	"fmt"
	"sort"
	"strings"
	"sync"
	"testing"
	"testing/synctest"
	"time"

	"github.com/twmb/franz-go/pkg/kmsg"
	"pgregory.net/rapid"
	"verif.local/vfkit"

	metadatapb "github.com/KafScale/platform/pkg/gen/metadata"
	"github.com/KafScale/platform/pkg/metadata"
	"github.com/KafScale/platform/pkg/protocol"
)

// C15: a coordinator B created over the metadata store content left by coordinator A
// reports the same generation / state / leader / members / subscriptions / assignments and
// current-generation members keep working against it.
//
// A runs a generated history on store SA. At the failover point the content of SA is
// copied through the public Store API into a fresh store SB, every group additionally
// round-tripped through EncodeConsumerGroup/DecodeConsumerGroup (the bytes etcd keeps).
// B is a new coordinator over SB. The same probe suffix is then sent to A and to B and the
// answers are compared. Both coordinators run with a 1h cleanup interval, so wall-clock
// time never influences the main leg; expiry after failover is the synctest leg.

const c15FindTimeouts = "C15-inmem-store-loses-session-timeout"
const c15FindJoined = "C15-restore-marks-all-joined"

const c15Group = "grp"

type c15Client struct {
	id        string // member id ("" = not a member)
	gen       int32
	subs      []string
	sessionMs int32
}

type c15Op struct {
	Kind      string   `json:"kind"`
	Client    int      `json:"client"`
	Subs      []string `json:"subs,omitempty"`
	SessionMs int32    `json:"session_ms,omitempty"`
	RebalMs   int32    `json:"rebalance_ms,omitempty"`
	Topic     string   `json:"topic,omitempty"`
	Part      int32    `json:"part,omitempty"`
	Off       int64    `json:"off,omitempty"`
}

type c15Script struct {
	Store  string           `json:"store"`           // inmem | codec
	Probe  []string         `json:"probe"`           // order of the first request kinds sent after the failover
	Fault  string           `json:"fault,omitempty"` // request kind whose store read fails once on B, before the probes
	Topics map[string]int32 `json:"topics"`
	Ops    []c15Op          `json:"ops"`
}

func c15EncodeSubs(topics []string) []byte {
	buf := []byte{0, 0}
	buf = binary.BigEndian.AppendUint32(buf, uint32(len(topics)))
	for _, tp := range topics {
		buf = binary.BigEndian.AppendUint16(buf, uint16(len(tp)))
		buf = append(buf, tp...)
	}
	return binary.BigEndian.AppendUint32(buf, 0)
}

// c15DecodeTopicLists decodes the consumer-protocol subscription (topics only) or
// assignment (topic -> partitions) wire form; ok=false when malformed.
func c15DecodeSubs(b []byte) ([]string, bool) {
	if len(b) < 6 {
		return nil, false
	}
	n := int(binary.BigEndian.Uint32(b[2:6]))
	pos := 6
	var out []string
	for i := 0; i < n; i++ {
		if pos+2 > len(b) {
			return nil, false
		}
		l := int(binary.BigEndian.Uint16(b[pos:]))
		pos += 2
		if pos+l > len(b) {
			return nil, false
		}
		out = append(out, string(b[pos:pos+l]))
		pos += l
	}
	return out, true
}

func c15DecodeAssignment(b []byte) (string, bool) {
	if len(b) < 6 {
		return "", false
	}
	n := int(binary.BigEndian.Uint32(b[2:6]))
	pos := 6
	var rows []string
	for i := 0; i < n; i++ {
		if pos+2 > len(b) {
			return "", false
		}
		l := int(binary.BigEndian.Uint16(b[pos:]))
		pos += 2
		if pos+l+4 > len(b) {
			return "", false
		}
		name := string(b[pos : pos+l])
		pos += l
		np := int(binary.BigEndian.Uint32(b[pos:]))
		pos += 4
		if pos+4*np > len(b) {
			return "", false
		}
		parts := make([]int, np)
		for j := range parts {
			parts[j] = int(int32(binary.BigEndian.Uint32(b[pos:])))
			pos += 4
		}
		sort.Ints(parts)
		rows = append(rows, fmt.Sprintf("%s%v", name, parts))
	}
	sort.Strings(rows)
	return strings.Join(rows, " "), true
}

// c15CodecStore keeps consumer groups the way EtcdStore does (EncodeConsumerGroup bytes per
// group id, decoded on every read) and delegates everything else to an InMemoryStore.
type c15CodecStore struct {
	*metadata.InMemoryStore
	mu     sync.Mutex
	groups map[string][]byte
}

func (s *c15CodecStore) PutConsumerGroup(ctx context.Context, g *metadatapb.ConsumerGroup) error {
	if g == nil || g.GroupId == "" {
		return fmt.Errorf("consumer group id required")
	}
	raw, err := metadata.EncodeConsumerGroup(g)
	if err != nil {
		return err
	}
	s.mu.Lock()
	defer s.mu.Unlock()
	s.groups[g.GroupId] = raw
	return nil
}

func (s *c15CodecStore) FetchConsumerGroup(ctx context.Context, id string) (*metadatapb.ConsumerGroup, error) {
	s.mu.Lock()
	raw, ok := s.groups[id]
	s.mu.Unlock()
	if !ok {
		return nil, nil
	}
	return metadata.DecodeConsumerGroup(raw)
}

func (s *c15CodecStore) ListConsumerGroups(ctx context.Context) ([]*metadatapb.ConsumerGroup, error) {
	s.mu.Lock()
	defer s.mu.Unlock()
	ids := make([]string, 0, len(s.groups))
	for id := range s.groups {
		ids = append(ids, id)
	}
	sort.Strings(ids)
	var out []*metadatapb.ConsumerGroup
	for _, id := range ids {
		g, err := metadata.DecodeConsumerGroup(s.groups[id])
		if err != nil {
			return nil, err
		}
		out = append(out, g)
	}
	return out, nil
}

func (s *c15CodecStore) DeleteConsumerGroup(ctx context.Context, id string) error {
	s.mu.Lock()
	defer s.mu.Unlock()
	delete(s.groups, id)
	return nil
}

// c15FaultStore fails the next n FetchConsumerGroup calls (a transient metadata store read
// error, e.g. an etcd timeout) and passes everything else through.
type c15FaultStore struct {
	metadata.Store
	mu    sync.Mutex
	left  int
	fired bool
}

func (s *c15FaultStore) arm(n int) { s.mu.Lock(); s.left, s.fired = n, false; s.mu.Unlock() }
func (s *c15FaultStore) disarm() bool {
	s.mu.Lock()
	defer s.mu.Unlock()
	s.left = 0
	return s.fired
}

func (s *c15FaultStore) FetchConsumerGroup(ctx context.Context, id string) (*metadatapb.ConsumerGroup, error) {
	s.mu.Lock()
	if s.left > 0 {
		s.left--
		s.fired = true
		s.mu.Unlock()
		return nil, fmt.Errorf("injected: metadata store read timed out")
	}
	s.mu.Unlock()
	return s.Store.FetchConsumerGroup(ctx, id)
}

// c15Wrap returns the store flavour: "inmem" = plain InMemoryStore, "codec" = groups kept as
// protobuf bytes like the etcd store does.
func c15Wrap(kind string, m *metadata.InMemoryStore) metadata.Store {
	if kind == "codec" {
		return &c15CodecStore{InMemoryStore: m, groups: map[string][]byte{}}
	}
	return m
}

func c15NewStore(topics map[string]int32) *metadata.InMemoryStore {
	cm := metadata.ClusterMetadata{Brokers: []protocol.MetadataBroker{{NodeID: 1, Host: "h", Port: 9092}}, ControllerID: 1}
	names := make([]string, 0, len(topics))
	for n := range topics {
		names = append(names, n)
	}
	sort.Strings(names)
	for _, n := range names {
		name := n
		parts := make([]protocol.MetadataPartition, topics[n])
		for p := range parts {
			parts[p] = protocol.MetadataPartition{Partition: int32(p), Leader: 1, Replicas: []int32{1}, ISR: []int32{1}}
		}
		cm.Topics = append(cm.Topics, protocol.MetadataTopic{Topic: &name, Partitions: parts})
	}
	return metadata.NewInMemoryStore(cm)
}

func c15Join(ctx context.Context, c *GroupCoordinator, memberID string, subs []string, sessionMs, rebalMs int32) *kmsg.JoinGroupResponse {
	req := kmsg.NewPtrJoinGroupRequest()
	req.Group = c15Group
	req.MemberID = memberID
	req.ProtocolType = "consumer"
	req.SessionTimeoutMillis = sessionMs
	req.RebalanceTimeoutMillis = rebalMs
	p := kmsg.NewJoinGroupRequestProtocol()
	p.Name = "range"
	p.Metadata = c15EncodeSubs(subs)
	req.Protocols = append(req.Protocols, p)
	resp, err := c.JoinGroup(ctx, req)
	if err != nil || resp == nil {
		r := kmsg.NewPtrJoinGroupResponse()
		r.ErrorCode = -999
		return r
	}
	return resp
}

func c15Sync(ctx context.Context, c *GroupCoordinator, memberID string, gen int32) (int16, string) {
	req := kmsg.NewPtrSyncGroupRequest()
	req.Group = c15Group
	req.MemberID = memberID
	req.Generation = gen
	resp, err := c.SyncGroup(ctx, req)
	if err != nil || resp == nil {
		return -999, ""
	}
	if resp.ErrorCode != protocol.NONE {
		return resp.ErrorCode, ""
	}
	a, ok := c15DecodeAssignment(resp.MemberAssignment)
	if !ok {
		return resp.ErrorCode, fmt.Sprintf("malformed(%x)", resp.MemberAssignment)
	}
	return resp.ErrorCode, a
}

func c15Heartbeat(ctx context.Context, c *GroupCoordinator, memberID string, gen int32) int16 {
	req := kmsg.NewPtrHeartbeatRequest()
	req.Group = c15Group
	req.MemberID = memberID
	req.Generation = gen
	return c.Heartbeat(ctx, req).ErrorCode
}

func c15Commit(ctx context.Context, c *GroupCoordinator, memberID string, gen int32, topic string, part int32, off int64) int16 {
	req := kmsg.NewPtrOffsetCommitRequest()
	req.Group = c15Group
	req.MemberID = memberID
	req.Generation = gen
	rt := kmsg.NewOffsetCommitRequestTopic()
	rt.Topic = topic
	rp := kmsg.NewOffsetCommitRequestTopicPartition()
	rp.Partition = part
	rp.Offset = off
	rt.Partitions = append(rt.Partitions, rp)
	req.Topics = append(req.Topics, rt)
	resp, err := c.OffsetCommit(ctx, req)
	if err != nil || len(resp.Topics) != 1 || len(resp.Topics[0].Partitions) != 1 {
		return -999
	}
	return resp.Topics[0].Partitions[0].ErrorCode
}

func c15FetchOffset(ctx context.Context, c *GroupCoordinator, topic string, part int32) string {
	req := kmsg.NewPtrOffsetFetchRequest()
	req.Group = c15Group
	rt := kmsg.NewOffsetFetchRequestTopic()
	rt.Topic = topic
	rt.Partitions = []int32{part}
	req.Topics = append(req.Topics, rt)
	resp, err := c.OffsetFetch(ctx, req)
	if err != nil || len(resp.Topics) != 1 || len(resp.Topics[0].Partitions) != 1 {
		return "error"
	}
	p := resp.Topics[0].Partitions[0]
	return fmt.Sprintf("code=%d off=%d", p.ErrorCode, p.Offset)
}

func c15Describe(ctx context.Context, c *GroupCoordinator, rename func(string) string) string {
	req := kmsg.NewPtrDescribeGroupsRequest()
	req.Groups = []string{c15Group}
	resp, err := c.DescribeGroups(ctx, req)
	if err != nil || len(resp.Groups) != 1 {
		return "error"
	}
	g := resp.Groups[0]
	var ids []string
	for _, m := range g.Members {
		ids = append(ids, rename(m.MemberID))
	}
	sort.Strings(ids)
	lreq := kmsg.NewPtrListGroupsRequest()
	lresp, err := c.ListGroups(ctx, lreq)
	list := "error"
	if err == nil {
		var rows []string
		for _, e := range lresp.Groups {
			rows = append(rows, e.Group+"/"+e.GroupState+"/"+e.ProtocolType)
		}
		sort.Strings(rows)
		list = fmt.Sprintf("%d%v", lresp.ErrorCode, rows)
	}
	return fmt.Sprintf("describe{code=%d state=%s ptype=%s proto=%s members=%v} list=%s", g.ErrorCode, g.State, g.ProtocolType, g.Protocol, ids, list)
}

// c15CopyStore copies what the Store API exposes into a fresh in-memory store; groups go
// through the protobuf codec as they would through etcd.
func c15CopyStore(ctx context.Context, kind string, src metadata.Store) (metadata.Store, error) {
	meta, err := src.Metadata(ctx, nil)
	if err != nil {
		return nil, err
	}
	dst := c15Wrap(kind, metadata.NewInMemoryStore(*meta))
	groups, err := src.ListConsumerGroups(ctx)
	if err != nil {
		return nil, err
	}
	for _, g := range groups {
		raw, err := metadata.EncodeConsumerGroup(g)
		if err != nil {
			return nil, err
		}
		back, err := metadata.DecodeConsumerGroup(raw)
		if err != nil {
			return nil, err
		}
		if err := dst.PutConsumerGroup(ctx, back); err != nil {
			return nil, err
		}
	}
	offs, err := src.ListConsumerOffsets(ctx)
	if err != nil {
		return nil, err
	}
	for _, o := range offs {
		off, m, err := src.FetchConsumerOffset(ctx, o.Group, o.Topic, o.Partition)
		if err != nil {
			return nil, err
		}
		if err := dst.CommitConsumerOffset(ctx, o.Group, o.Topic, o.Partition, off, m); err != nil {
			return nil, err
		}
	}
	return dst, nil
}

type c15Outcome struct {
	violation   string
	classes     []string
	failState   string
	failMembers int
	hasAssign   bool
	harnessErr  string
	excluded    []string
}

// c15Run plays the history on A, fails over, probes A and B.
func c15Run(sc c15Script, tolerateJoined bool) c15Outcome {
	var out c15Outcome
	ctx := context.Background()
	cfg := &CoordinatorConfig{CleanupInterval: time.Hour}
	sa := c15Wrap(sc.Store, c15NewStore(sc.Topics))
	a := NewGroupCoordinator(sa, protocol.MetadataBroker{NodeID: 1, Host: "h", Port: 9092}, cfg)
	defer a.Stop()
	clients := make([]*c15Client, 4)
	for i := range clients {
		clients[i] = &c15Client{}
	}
	for _, op := range sc.Ops {
		cl := clients[op.Client]
		switch op.Kind {
		case "join":
			if op.Subs != nil {
				cl.subs = op.Subs
			}
			if op.SessionMs != 0 {
				cl.sessionMs = op.SessionMs
			}
			resp := c15Join(ctx, a, cl.id, cl.subs, cl.sessionMs, op.RebalMs)
			if resp.MemberID != "" {
				cl.id = resp.MemberID
			}
			cl.gen = resp.Generation
		case "sync":
			if cl.id != "" {
				c15Sync(ctx, a, cl.id, cl.gen)
			}
		case "heartbeat":
			if cl.id != "" {
				c15Heartbeat(ctx, a, cl.id, cl.gen)
			}
		case "staleHeartbeat":
			if cl.id != "" {
				c15Heartbeat(ctx, a, cl.id, cl.gen-1)
			}
		case "leave":
			if cl.id != "" {
				req := kmsg.NewPtrLeaveGroupRequest()
				req.Group = c15Group
				req.MemberID = cl.id
				if a.LeaveGroup(ctx, req).ErrorCode == protocol.NONE {
					cl.id = ""
				}
			}
		case "commit":
			if cl.id != "" {
				c15Commit(ctx, a, cl.id, cl.gen, op.Topic, op.Part, op.Off)
			}
		case "settle":
			// every current member rejoins, then everybody syncs (leader first does not matter:
			// the coordinator answers REBALANCE_IN_PROGRESS to non-leaders until the leader synced)
			for round := 0; round < 2; round++ {
				for _, c := range clients {
					if c.id != "" {
						resp := c15Join(ctx, a, c.id, c.subs, c.sessionMs, op.RebalMs)
						c.gen = resp.Generation
					}
				}
			}
			for round := 0; round < 2; round++ {
				for _, c := range clients {
					if c.id != "" {
						c15Sync(ctx, a, c.id, c.gen)
					}
				}
			}
		case "createPartitions":
			_ = sa.CreatePartitions(ctx, op.Topic, op.Part)
		}
	}

	// ---- failover ----
	persisted, err := sa.FetchConsumerGroup(ctx, c15Group)
	if err != nil {
		out.harnessErr = "fetch persisted group: " + err.Error()
		return out
	}
	sb, err := c15CopyStore(ctx, sc.Store, sa)
	if err != nil {
		out.harnessErr = "copy store: " + err.Error()
		return out
	}
	faulty := &c15FaultStore{Store: sb}
	b := NewGroupCoordinator(faulty, protocol.MetadataBroker{NodeID: 2, Host: "h2", Port: 9092}, cfg)
	defer b.Stop()

	curGen := int32(0)
	leader := ""
	if persisted != nil {
		curGen = persisted.GenerationId
		leader = persisted.Leader
		out.failState = persisted.State
		out.failMembers = len(persisted.Members)
		for _, m := range persisted.Members {
			if len(m.Assignments) > 0 {
				out.hasAssign = true
			}
		}
	} else {
		out.failState = "none"
	}
	// members as the harness knows them (from A's own answers), in client order
	type probeM struct {
		id   string
		subs []string
		sess int32
	}
	var ms []probeM
	for _, c := range clients {
		if c.id != "" {
			ms = append(ms, probeM{c.id, c.subs, c.sessionMs})
		}
	}
	ms = append(ms, probeM{id: "ghost-member"})
	firstTopic := ""
	for n := range sc.Topics {
		if firstTopic == "" || n < firstTopic {
			firstTopic = n
		}
	}
	sides := []*GroupCoordinator{a, b}
	// ids handed to a brand-new consumer after the failover differ between A and B (random);
	// they are compared up to renaming
	newID := map[*GroupCoordinator]string{}
	idsDiverged := false
	ren := func(c *GroupCoordinator) func(string) string {
		return func(id string) string {
			if n := newID[c]; n != "" && id == n {
				return "<new-member>"
			}
			return id
		}
	}
	where := func() string {
		return fmt.Sprintf("after failover (store=%s persisted state=%s gen=%d leader=%q members=%d, probe order %v)", sc.Store, out.failState, curGen, leader, out.failMembers, sc.Probe)
	}
	cmp := func(what string, f func(c *GroupCoordinator) string) bool {
		ra, rb := f(sides[0]), f(sides[1])
		if ra != rb {
			out.violation = fmt.Sprintf("%s: %s\n  old coordinator A: %s\n  new coordinator B: %s", where(), what, ra, rb)
			return false
		}
		return true
	}
	describe := func(what string) bool {
		return cmp(what, func(c *GroupCoordinator) string { return c15Describe(ctx, c, ren(c)) })
	}
	renderJoin := func(c *GroupCoordinator, r *kmsg.JoinGroupResponse, full bool) string {
		rn := ren(c)
		s := fmt.Sprintf("gen=%d leader=%q member=%q", r.Generation, rn(r.LeaderID), rn(r.MemberID))
		if full {
			var rows []string
			for _, jm := range r.Members {
				subs, ok := c15DecodeSubs(jm.ProtocolMetadata)
				sort.Strings(subs)
				rows = append(rows, fmt.Sprintf("%s%v%v", rn(jm.MemberID), subs, ok))
			}
			sort.Strings(rows)
			s += fmt.Sprintf(" code=%d members=%v", r.ErrorCode, rows)
		}
		return s
	}
	// compareJoin reports whether the comparison can go on. Which members already rejoined
	// during a PreparingRebalance is not persisted. B must not complete that rebalance before
	// A does (it would hand out a generation some member never joined: listed finding
	// C15-restore-marks-all-joined, tolerated only while listed). The opposite - B waits for
	// members that A already counted - is a legitimate conservative restore: statistic, and
	// the comparison stops there.
	compareJoin := func(what string, ra, rb *kmsg.JoinGroupResponse) bool {
		if tolerateJoined && out.failState == groupStatePreparingStr && ra.ErrorCode == protocol.REBALANCE_IN_PROGRESS && rb.ErrorCode == protocol.NONE {
			// listed finding: a group restored in PreparingRebalance treats every member as
			// already rejoined, so B completes the rebalance on the first join while A waits
			out.excluded = append(out.excluded, c15FindJoined)
			if renderJoin(a, ra, false) != renderJoin(b, rb, false) {
				out.violation = fmt.Sprintf("%s: %s\n  A: %s\n  B: %s", where(), what, renderJoin(a, ra, false), renderJoin(b, rb, false))
			}
			return false
		}
		if out.failState == groupStatePreparingStr && ra.ErrorCode == protocol.NONE && rb.ErrorCode == protocol.REBALANCE_IN_PROGRESS && renderJoin(a, ra, false) == renderJoin(b, rb, false) {
			out.classes = append(out.classes, "stat:restored-coordinator-waits-for-members-to-rejoin")
			return false
		}
		if renderJoin(a, ra, true) != renderJoin(b, rb, true) {
			out.violation = fmt.Sprintf("%s: %s\n  A: %s\n  B: %s", where(), what, renderJoin(a, ra, true), renderJoin(b, rb, true))
			return false
		}
		return true
	}
	phase := func(kind string) bool {
		switch kind {
		case "heartbeat":
			for _, m := range ms {
				m := m
				if !cmp(fmt.Sprintf("Heartbeat(member=%s gen=%d)", m.id, curGen), func(c *GroupCoordinator) string {
					return fmt.Sprintf("code=%d", c15Heartbeat(ctx, c, m.id, curGen))
				}) {
					return false
				}
			}
		case "sync":
			for _, m := range ms {
				m := m
				if !cmp(fmt.Sprintf("SyncGroup(member=%s gen=%d)", m.id, curGen), func(c *GroupCoordinator) string {
					code, asg := c15Sync(ctx, c, m.id, curGen)
					if idsDiverged {
						// a new member with a side-specific random id may take part in the
						// round-robin: only the outcome class is comparable
						return fmt.Sprintf("code=%d", code)
					}
					return fmt.Sprintf("code=%d assignment=[%s]", code, asg)
				}) {
					return false
				}
			}
		case "commit":
			for i, m := range ms {
				m, i := m, i
				if !cmp(fmt.Sprintf("OffsetCommit(member=%s gen=%d)+OffsetFetch", m.id, curGen), func(c *GroupCoordinator) string {
					code := c15Commit(ctx, c, m.id, curGen, firstTopic, 0, int64(100+i))
					return fmt.Sprintf("code=%d then %s", code, c15FetchOffset(ctx, c, firstTopic, 0))
				}) {
					return false
				}
			}
		case "newjoin":
			// a brand-new consumer (empty member id) joins through both coordinators
			subs := []string{firstTopic}
			ra := c15Join(ctx, a, "", subs, 30000, 30000)
			rb := c15Join(ctx, b, "", subs, 30000, 30000)
			for side, r := range []*kmsg.JoinGroupResponse{ra, rb} {
				if r.ErrorCode != protocol.NONE && r.ErrorCode != protocol.REBALANCE_IN_PROGRESS {
					continue
				}
				for _, m := range ms {
					if r.MemberID == m.id {
						out.violation = fmt.Sprintf("%s: a new consumer joining with an empty member id through coordinator %c was handed the id %q of an existing member", where(), "AB"[side], r.MemberID)
						return false
					}
				}
				if r.MemberID == "" {
					out.violation = fmt.Sprintf("%s: JoinGroup with empty member id through coordinator %c answered code %d without a member id", where(), "AB"[side], r.ErrorCode)
					return false
				}
			}
			newID[a], newID[b] = ra.MemberID, rb.MemberID
			idsDiverged = true
			out.classes = append(out.classes, "new-member-joins-after-failover")
			if !compareJoin("JoinGroup(empty member id) by a new consumer", ra, rb) {
				return false
			}
		}
		return true
	}
	if !describe("DescribeGroups/ListGroups") {
		return out
	}
	if sc.Fault != "" {
		// One-shot read fault: the store read behind the very first request that reaches B fails
		// once. The request goes to B only; an error answer is fine. If B nevertheless processed
		// it, A gets the same request. Either way A and B must agree afterwards - in particular
		// B must not have replaced the persisted group.
		m := ms[0] // first known member, or the unknown one when the group has no members
		send := func(c *GroupCoordinator) int16 {
			switch sc.Fault {
			case "join-known":
				return c15Join(ctx, c, m.id, m.subs, m.sess, 30000).ErrorCode
			case "join-new":
				return c15Join(ctx, c, "", []string{firstTopic}, 30000, 30000).ErrorCode
			case "heartbeat":
				return c15Heartbeat(ctx, c, m.id, curGen)
			case "sync":
				code, _ := c15Sync(ctx, c, m.id, curGen)
				return code
			default:
				return c15Commit(ctx, c, m.id, curGen, firstTopic, 0, 77)
			}
		}
		faulty.arm(1)
		code := send(b)
		fired := faulty.disarm()
		if fired {
			out.classes = append(out.classes, "read-fault-on-first-"+sc.Fault)
		}
		if code != -999 && code != protocol.UNKNOWN_SERVER_ERROR {
			out.classes = append(out.classes, "stat:request-under-read-fault-processed")
			if sc.Fault == "join-new" {
				// cannot be mirrored (ids are random): the comparison below would be meaningless
				// unless B really lost the group, which the describe below shows
				if !describe("DescribeGroups/ListGroups after a new consumer's join hit a store read fault on B (B answered " + fmt.Sprint(code) + ")") {
					return out
				}
			} else {
				send(a)
			}
		}
		if !describe("DescribeGroups/ListGroups after the first request on B hit a one-shot store read fault (B answered " + fmt.Sprint(code) + ")") {
			return out
		}
	}
	for _, kind := range sc.Probe {
		if !phase(kind) {
			return out
		}
	}
	if !describe("DescribeGroups/ListGroups after the first probes") || !phase("heartbeat") {
		return out
	}
	// every known member rejoins, leader first
	order := append([]probeM(nil), ms[:len(ms)-1]...)
	sort.SliceStable(order, func(i, j int) bool { return order[i].id == leader && order[j].id != leader })
	for _, m := range order {
		ra := c15Join(ctx, a, m.id, m.subs, m.sess, 30000)
		rb := c15Join(ctx, b, m.id, m.subs, m.sess, 30000)
		if !compareJoin(fmt.Sprintf("JoinGroup(member=%s) as a known member", m.id), ra, rb) {
			return out
		}
	}
	if !describe("DescribeGroups/ListGroups after rejoin") {
		return out
	}
	if !idsDiverged {
		phase("newjoin")
		if out.violation == "" {
			describe("DescribeGroups/ListGroups after a new member joined")
		}
	}
	return out
}

func c15Generate(t *rapid.T) c15Script {
	var sc c15Script
	sc.Store = rapid.SampledFrom([]string{"inmem", "codec"}).Draw(t, "store")
	// which kind of request reaches the new coordinator first: any order of heartbeat / sync /
	// commit; a brand-new consumer joins either somewhere in between or after everything else
	sc.Probe = rapid.Permutation([]string{"commit", "heartbeat", "sync"}).Draw(t, "probe-order")
	if pos := rapid.IntRange(0, 7).Draw(t, "newjoin-position"); pos <= 3 {
		sc.Probe = append(sc.Probe[:pos:pos], append([]string{"newjoin"}, sc.Probe[pos:]...)...)
	}
	sc.Fault = rapid.SampledFrom([]string{"", "join-known", "", "join-new", "heartbeat", "", "sync", "commit"}).Draw(t, "read-fault")
	sc.Topics = map[string]int32{}
	topicPool := []string{"t1", "t2", "t3"}
	nt := rapid.IntRange(1, 3).Draw(t, "ntopics")
	for i := 0; i < nt; i++ {
		sc.Topics[topicPool[i]] = int32(rapid.IntRange(1, 4).Draw(t, "nparts"))
	}
	subsGen := rapid.Custom(func(t *rapid.T) []string {
		var s []string
		for i := 0; i < nt; i++ {
			if rapid.IntRange(0, 3).Draw(t, "sub") > 0 {
				s = append(s, topicPool[i])
			}
		}
		if len(s) == 0 && rapid.Bool().Draw(t, "nonempty") {
			s = []string{topicPool[0]}
		}
		if s == nil {
			s = []string{}
		}
		return s
	})
	ms := rapid.SampledFrom([]int32{10000, 30000, 45000, 60000, 0})
	kinds := []string{"join", "join", "join", "sync", "sync", "heartbeat", "staleHeartbeat", "leave", "commit", "settle", "settle", "createPartitions"}
	n := rapid.IntRange(1, 16).Draw(t, "nops")
	for i := 0; i < n; i++ {
		op := c15Op{Kind: rapid.SampledFrom(kinds).Draw(t, "kind"), Client: rapid.IntRange(0, 3).Draw(t, "client")}
		switch op.Kind {
		case "join":
			if rapid.IntRange(0, 2).Draw(t, "newsubs") > 0 {
				op.Subs = subsGen.Draw(t, "subs")
			}
			op.SessionMs = ms.Draw(t, "session_ms")
			op.RebalMs = ms.Draw(t, "rebalance_ms")
		case "settle":
			op.RebalMs = ms.Draw(t, "rebalance_ms")
		case "commit":
			op.Topic = topicPool[rapid.IntRange(0, nt-1).Draw(t, "topic")]
			op.Part = int32(rapid.IntRange(0, 3).Draw(t, "part"))
			op.Off = rapid.Int64Range(0, 1000).Draw(t, "off")
		case "createPartitions":
			op.Topic = topicPool[rapid.IntRange(0, nt-1).Draw(t, "topic")]
			op.Part = int32(rapid.IntRange(2, 6).Draw(t, "count"))
		}
		sc.Ops = append(sc.Ops, op)
	}
	return sc
}

func TestVF_C15_Failover(t *testing.T) {
	st := vfkit.NewStats("C15", "failover")
	defer st.Flush()
	rapid.Check(t, func(t *rapid.T) {
		st.Eval()
		sc := c15Generate(t)
		out := c15Run(sc, vfkit.Known(c15FindJoined))
		if out.harnessErr != "" {
			t.Fatalf("harness: %s", out.harnessErr)
		}
		st.Class(fmt.Sprintf("failover-in-%s", out.failState))
		st.Class("store-" + sc.Store)
		st.Class("first-request-" + sc.Probe[0])
		for _, c := range out.classes {
			st.Class(c)
		}
		for _, id := range out.excluded {
			st.ExcludedCase(id)
		}
		midRebalance := out.failState == groupStatePreparingStr || out.failState == groupStateCompletingStr
		if (out.failState == groupStateStableStr && out.hasAssign) || (midRebalance && out.failMembers >= 2) {
			if out.failState == groupStateStableStr {
				st.Class(fmt.Sprintf("nt-stable-%d-members", out.failMembers))
			} else {
				st.Class(fmt.Sprintf("nt-%s-%d-members", out.failState, out.failMembers))
			}
			st.NonTrivial(sc.Store, sc.Probe, sc.Fault, sc.Topics, fmt.Sprintf("%+v", sc.Ops))
			st.Sample(sc)
		}
		if out.violation != "" {
			t.Fatalf("%s\nscript: %+v", out.violation, sc)
		}
	})
}

// ---- expiry after failover (fake clock) ----
//
// One member joins with session timeout S and syncs (Stable). Failover. Nobody talks to
// either coordinator for `idle` (< S, so the member is alive by its own contract); the
// cleanup loops of A and B tick every second meanwhile. Then the member heartbeats both:
// it must not have been expired by B ("keeps working without rejoining").

type c15ExpiryCase struct {
	Store     string `json:"store"`
	SessionMs int32  `json:"session_ms"`
	IdleMs    int64  `json:"idle_ms"`
	PreIdleMs int64  `json:"pre_failover_idle_ms"`
	Members   int    `json:"members"`
}

func c15RunExpiry(t *testing.T, c c15ExpiryCase) (violation, harnessErr string) {
	synctest.Test(t, func(t *testing.T) {
		ctx := context.Background()
		cfg := &CoordinatorConfig{CleanupInterval: time.Second}
		sa := c15Wrap(c.Store, c15NewStore(map[string]int32{"t1": 2}))
		a := NewGroupCoordinator(sa, protocol.MetadataBroker{NodeID: 1, Host: "h", Port: 9092}, cfg)
		defer a.Stop()
		var ids []string
		gen := int32(0)
		for i := 0; i < c.Members; i++ {
			r := c15Join(ctx, a, "", []string{"t1"}, c.SessionMs, 30000)
			ids = append(ids, r.MemberID)
		}
		for round := 0; round < 2; round++ {
			for _, id := range ids {
				gen = c15Join(ctx, a, id, []string{"t1"}, c.SessionMs, 30000).Generation
			}
		}
		for round := 0; round < 2; round++ {
			for _, id := range ids {
				c15Sync(ctx, a, id, gen)
			}
		}
		for _, id := range ids {
			if code := c15Heartbeat(ctx, a, id, gen); code != protocol.NONE {
				harnessErr = fmt.Sprintf("setup: heartbeat of %s answered %d", id, code)
				return
			}
		}
		time.Sleep(time.Duration(c.PreIdleMs) * time.Millisecond)
		for _, id := range ids {
			if code := c15Heartbeat(ctx, a, id, gen); code != protocol.NONE {
				harnessErr = fmt.Sprintf("setup: heartbeat of %s after %dms answered %d", id, c.PreIdleMs, code)
				return
			}
		}
		sb, err := c15CopyStore(ctx, c.Store, sa)
		if err != nil {
			harnessErr = err.Error()
			return
		}
		b := NewGroupCoordinator(sb, protocol.MetadataBroker{NodeID: 2, Host: "h2", Port: 9092}, cfg)
		defer b.Stop()
		// B learns about the group with the first request it gets for it
		if code := c15Heartbeat(ctx, b, ids[0], gen); code != protocol.NONE {
			violation = fmt.Sprintf("first heartbeat of %s on the new coordinator right after failover answered %d", ids[0], code)
			return
		}
		if code := c15Heartbeat(ctx, a, ids[0], gen); code != protocol.NONE {
			harnessErr = fmt.Sprintf("A refused heartbeat %d", code)
			return
		}
		time.Sleep(time.Duration(c.IdleMs) * time.Millisecond)
		synctest.Wait()
		for _, id := range ids {
			ca, cb := c15Heartbeat(ctx, a, id, gen), c15Heartbeat(ctx, b, id, gen)
			if ca != protocol.NONE {
				harnessErr = fmt.Sprintf("old coordinator expired %s itself after %dms idle with session %dms (code %d)", id, c.IdleMs, c.SessionMs, ca)
				return
			}
			if cb != protocol.NONE {
				violation = fmt.Sprintf("member %s (session timeout %dms) heartbeats %dms after its last heartbeat: old coordinator answers NONE, restored coordinator answers %d", id, c.SessionMs, c.IdleMs, cb)
				return
			}
		}
	})
	return
}

func TestVF_C15_Expiry(t *testing.T) {
	st := vfkit.NewStats("C15", "expiry")
	defer st.Flush()
	rapid.Check(t, func(rt *rapid.T) {
		st.Eval()
		c := c15ExpiryCase{
			Store:     rapid.SampledFrom([]string{"inmem", "codec"}).Draw(rt, "store"),
			SessionMs: rapid.SampledFrom([]int32{60000, 45000, 10000, 120000, 20000, 30000, 6000}).Draw(rt, "session_ms"),
			Members:   rapid.IntRange(1, 3).Draw(rt, "members"),
		}
		// idle strictly inside the session timeout, with 2.5 s slack for the 1 s cleanup tick;
		// half of the cases sit in the last 10 s before the session would expire
		hi := int64(c.SessionMs) - 2500
		lo := hi - 10000
		if lo < 0 {
			lo = 0
		}
		c.IdleMs = rapid.OneOf(rapid.Int64Range(lo, hi), rapid.Int64Range(0, hi)).Draw(rt, "idle_ms")
		c.PreIdleMs = rapid.OneOf(rapid.Int64Range(0, hi), rapid.Int64Range(lo, hi)).Draw(rt, "pre_idle_ms")
		defSess := int64(defaultSessionTimeout / time.Millisecond)
		if vfkit.Known(c15FindTimeouts) && c.Store == "inmem" && int64(c.SessionMs) > defSess && c.IdleMs > defSess-2500 {
			// listed finding: the in-memory store drops session_timeout_ms, B falls back to 30 s
			st.ExcludedCase(c15FindTimeouts)
			c.IdleMs = defSess - 2500
		}
		viol, herr := c15RunExpiry(t, c)
		if herr != "" {
			rt.Fatalf("harness: %s (case %+v)", herr, c)
		}
		switch {
		case c.IdleMs >= 1000:
			st.Class("idle-spans-cleanup-ticks")
			st.NonTrivial(c)
			st.Sample(c)
		default:
			st.Class("idle-below-one-tick")
		}
		st.Class("store-" + c.Store)
		if int64(c.SessionMs) > defSess && c.IdleMs > defSess {
			st.Class("session-and-idle-above-default-" + c.Store)
		}
		if int64(c.SessionMs) > defSess {
			st.Class("session-above-default")
		} else if int64(c.SessionMs) < defSess {
			st.Class("session-below-default")
		}
		if viol != "" {
			rt.Fatalf("%s (case %+v)", viol, c)
		}
	})
}

func TestVF_C15_Witness(t *testing.T) {
	st := vfkit.NewStats("C15", "witness")
	defer st.Flush()
	st.Eval()
	c := c15ExpiryCase{Store: "inmem", SessionMs: 60000, IdleMs: 40000, Members: 1}
	viol, herr := c15RunExpiry(t, c)
	if herr != "" {
		t.Fatalf("harness: %s", herr)
	}
	st.KnownResult(c15FindTimeouts, viol != "", viol)
	st.NonTrivial("witness", c)
	st.Sample(map[string]any{"witness": c15FindTimeouts, "case": c, "violation": viol})
	t.Logf("witness: %s", viol)

	// two members stable, a third joins (PreparingRebalance), failover, first member rejoins:
	// A waits for the second member, B answers NONE
	st.Eval()
	sc := c15Script{Store: "codec", Probe: []string{"heartbeat", "sync", "commit"}, Topics: map[string]int32{"t1": 2}, Ops: []c15Op{
		{Kind: "join", Client: 0, Subs: []string{"t1"}, SessionMs: 30000, RebalMs: 30000},
		{Kind: "join", Client: 1, Subs: []string{"t1"}, SessionMs: 30000, RebalMs: 30000},
		{Kind: "settle", RebalMs: 30000},
		{Kind: "join", Client: 2, Subs: []string{"t1"}, SessionMs: 30000, RebalMs: 30000},
	}}
	out := c15Run(sc, false)
	if out.harnessErr != "" {
		t.Fatalf("harness: %s", out.harnessErr)
	}
	st.KnownResult(c15FindJoined, out.violation != "", out.violation)
	st.NonTrivial("witness", c15FindJoined)
	st.Sample(map[string]any{"witness": c15FindJoined, "script": sc, "violation": out.violation})
	t.Logf("witness %s (failover in %s): %s", c15FindJoined, out.failState, out.violation)
}
