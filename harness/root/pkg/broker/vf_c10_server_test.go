//go:build verif

package broker

// C10, leg "server": the decoding path as the broker really runs it. Hostile frames go
// through the real connection loop Server.handleConnection (ReadFrame -> ParseRequest ->
// error handling / Handler -> reply or close) over a net.Pipe connection with a stub
// Handler. Oracle (what C10 states): never a crash - a panic that reaches the top of the
// connection goroutine (ListenAndServe starts it without recover, so in production it
// kills the broker) is the violation; a clean close or an error reply is fine. After every
// probe connection a valid ApiVersions request on a NEW connection must be answered.
//
// handleConnection is called on a goroutine of the harness, so such a panic is recovered
// there and reported as an ordinary (shrinkable) rapid failure. Panics on goroutines the
// harness does not own would kill the test process: the leg sets crash_is_violation and
// prints every case's frames (one hex line) before sending, so the last line is the witness.

import (
	"bytes"
	"context"
	"encoding/binary"
	"encoding/hex"
	"errors"
	"fmt"
	"io"
	"log"
	"math"
	"net"
	"os"
	"runtime/debug"
	"strings"
	"sync"
	"testing"
	"time"

	"github.com/KafScale/platform/internal/vfc10gen"
	"github.com/KafScale/platform/pkg/protocol"
	"github.com/twmb/franz-go/pkg/kmsg"
	"pgregory.net/rapid"
	"verif.local/vfkit"
)

const c10SrvFindingTagSize = "C10-header-tag-size-overflow"

// c10SrvHandler answers like a broker would, in a mode chosen per case.
type c10SrvHandler struct {
	mu    sync.Mutex
	mode  string // reply | none | error
	calls int
	got   []c10SrvSeen
}

type c10SrvSeen struct {
	Key, Version int16
	Corr         int32
}

func (h *c10SrvHandler) Handle(ctx context.Context, header *protocol.RequestHeader, req kmsg.Request) ([]byte, error) {
	h.mu.Lock()
	mode := h.mode
	h.calls++
	h.got = append(h.got, c10SrvSeen{req.Key(), req.GetVersion(), header.CorrelationID})
	h.mu.Unlock()
	if header.ClientID != nil && *header.ClientID == "vf-sentinel" {
		mode = "reply"
	}
	switch mode {
	case "none":
		return nil, nil
	case "error":
		return nil, errors.New("vf: stub handler refuses")
	}
	return protocol.EncodeResponse(header.CorrelationID, header.APIVersion, req.ResponseKind()), nil
}

type c10SrvFrame struct {
	// Want: for a well-formed request of a served key: what the Handler must receive
	Want  *c10SrvSeen
	Kind  string
	Wire  []byte // bytes written for this frame (may be a partial frame)
	Close bool   // close the connection right after these bytes
}

var c10SrvKeys = []int16{0, 1, 2, 3, 8, 9, 10, 11, 12, 13, 14, 15, 16, 18, 19, 20, 23, 32, 33, 37, 42}

func c10SrvFrameOf(payload []byte) []byte {
	return append(binary.BigEndian.AppendUint32(nil, uint32(len(payload))), payload...)
}

// c10SrvTame keeps the cost of a flexible body bounded (see c10Defuse in pkg/protocol and
// notes/C10.md: kmsg loops `tag count` times): no byte with the high bit set.
func c10SrvTame(b []byte) []byte {
	for i := range b {
		b[i] &= 0x7f
	}
	return b
}

func c10SrvGenFrame(t *rapid.T, known bool, i int, last bool) c10SrvFrame {
	lbl := func(s string) string { return fmt.Sprintf("f%d-%s", i, s) }
	key := rapid.SampledFrom(c10SrvKeys).Draw(t, lbl("key"))
	if rapid.IntRange(0, 5).Draw(t, lbl("badkey?")) == 0 {
		key = rapid.SampledFrom([]int16{-1, 17, 93, 1000, math.MaxInt16, math.MinInt16}).Draw(t, lbl("badkey"))
	}
	maxV := int16(3)
	if r := kmsg.RequestForKey(key); r != nil {
		maxV = r.MaxVersion()
	}
	ver := int16(rapid.IntRange(0, int(maxV)).Draw(t, lbl("ver")))
	if rapid.IntRange(0, 7).Draw(t, lbl("badver?")) == 0 {
		ver = rapid.SampledFrom([]int16{-1, maxV + 1, math.MaxInt16, math.MinInt16}).Draw(t, lbl("badver"))
	}
	corr := rapid.Int32().Draw(t, lbl("corr"))
	// a full, valid request payload to start from
	valid := func() []byte {
		req := kmsg.RequestForKey(key)
		if req == nil {
			req = kmsg.RequestForKey(18)
			req.SetVersion(0)
		} else {
			req.SetVersion(ver)
		}
		vfc10gen.Fill(t, req, &vfc10gen.Env{Bounded: true, Topics: []string{"orders"}, Groups: []string{"g"}, Members: []string{"m"}})
		return kmsg.NewRequestFormatter(kmsg.FormatterClientID("vf")).AppendRequest(nil, req, corr)[4:]
	}
	head := func() []byte { // key, version, correlation, client id "vf"
		var b []byte
		b = binary.BigEndian.AppendUint16(b, uint16(key))
		b = binary.BigEndian.AppendUint16(b, uint16(ver))
		b = binary.BigEndian.AppendUint32(b, uint32(corr))
		b = binary.BigEndian.AppendUint16(b, 2)
		return append(b, 'v', 'f')
	}
	kind := rapid.SampledFrom([]string{"short-payload", "short-payload", "truncated-header", "truncated-body", "valid", "valid",
		"random-body", "hostile-tags", "bad-client-len", "declared-beyond-data", "negative-length", "partial-length"}).Draw(t, lbl("kind"))
	if !last && rapid.Bool().Draw(t, lbl("valid-first")) {
		kind = "valid" // so that hostile frames are also met by a loop that already served requests
	}
	switch kind {
	case "short-payload": // well-framed payloads of 0..16 bytes that start like a request
		n := rapid.IntRange(0, 16).Draw(t, lbl("n"))
		p := append(head(), 0, 0, 0, 0, 0, 0)
		if rapid.IntRange(0, 3).Draw(t, lbl("raw?")) == 0 {
			p = rapid.SliceOfN(rapid.Byte(), 18, 18).Draw(t, lbl("raw"))
			if len(p) > 4 {
				c10SrvTame(p[4:])
			}
		}
		return c10SrvFrame{Kind: fmt.Sprintf("short-payload-%d", n), Wire: c10SrvFrameOf(p[:n])}
	case "truncated-header":
		full := valid()
		hl := 12
		if hl > len(full) {
			hl = len(full)
		}
		n := rapid.IntRange(0, hl).Draw(t, lbl("n"))
		return c10SrvFrame{Kind: fmt.Sprintf("truncated-header-%d", n), Wire: c10SrvFrameOf(full[:n])}
	case "truncated-body":
		full := valid()
		n := rapid.IntRange(0, len(full)).Draw(t, lbl("n"))
		return c10SrvFrame{Kind: "truncated-body", Wire: c10SrvFrameOf(full[:n])}
	case "valid":
		f := c10SrvFrame{Kind: "valid", Wire: c10SrvFrameOf(valid())}
		served := false
		for _, k := range c10SrvKeys {
			served = served || k == key
		}
		if served && ver >= 0 && ver <= maxV {
			f.Want = &c10SrvSeen{key, ver, corr}
		}
		return f
	case "random-body":
		n := rapid.IntRange(0, 60).Draw(t, lbl("n"))
		body := c10SrvTame(rapid.SliceOfN(rapid.Byte(), n, n).Draw(t, lbl("body")))
		return c10SrvFrame{Kind: "random-body", Wire: c10SrvFrameOf(append(head(), body...))}
	case "hostile-tags":
		sizes := []uint64{0, 1, 5, 127, 128, math.MaxInt32, 1 << 31, 1 << 32, 1<<63 - 1}
		if !known {
			sizes = append(sizes, 1<<63, 1<<63+1, math.MaxUint64)
		}
		p := head()
		p = binary.AppendUvarint(p, rapid.SampledFrom([]uint64{1, 2, 127, 1 << 31, math.MaxUint64}).Draw(t, lbl("count")))
		p = binary.AppendUvarint(p, 0)
		p = binary.AppendUvarint(p, rapid.SampledFrom(sizes).Draw(t, lbl("size")))
		n := rapid.IntRange(0, 8).Draw(t, lbl("n"))
		p = append(p, bytes.Repeat([]byte{1}, n)...)
		return c10SrvFrame{Kind: "hostile-tags", Wire: c10SrvFrameOf(p)}
	case "bad-client-len":
		var p []byte
		p = binary.BigEndian.AppendUint16(p, uint16(key))
		p = binary.BigEndian.AppendUint16(p, uint16(ver))
		p = binary.BigEndian.AppendUint32(p, uint32(corr))
		p = binary.BigEndian.AppendUint16(p, uint16(rapid.SampledFrom([]int16{-1, -2, math.MinInt16, math.MaxInt16, 300, 3}).Draw(t, lbl("clen"))))
		n := rapid.IntRange(0, 6).Draw(t, lbl("n"))
		p = append(p, bytes.Repeat([]byte{'c'}, n)...)
		return c10SrvFrame{Kind: "bad-client-len", Wire: c10SrvFrameOf(p)}
	case "declared-beyond-data":
		// the connection ends inside the frame. (ReadFrame allocates the declared size up front,
		// see notes; keep it <= 1 MiB here)
		have := rapid.IntRange(0, 40).Draw(t, lbl("have"))
		excess := rapid.SampledFrom([]int{1, 2, 100, 1 << 16, 1 << 20}).Draw(t, lbl("excess"))
		full := valid()
		if have > len(full) {
			have = len(full)
		}
		w := binary.BigEndian.AppendUint32(nil, uint32(have+excess))
		return c10SrvFrame{Kind: "declared-beyond-data", Wire: append(w, full[:have]...), Close: true}
	case "negative-length":
		l := rapid.SampledFrom([]int32{-1, -2, math.MinInt32, -65536}).Draw(t, lbl("len"))
		w := binary.BigEndian.AppendUint32(nil, uint32(l))
		n := rapid.IntRange(0, 12).Draw(t, lbl("n"))
		return c10SrvFrame{Kind: "negative-length", Wire: append(w, bytes.Repeat([]byte{0}, n)...)}
	default: // partial-length
		n := rapid.IntRange(0, 3).Draw(t, lbl("n"))
		return c10SrvFrame{Kind: "partial-length", Wire: []byte{0, 0, 0, 9}[:n], Close: true}
	}
}

var c10SrvProxySig = []byte{'\r', '\n', '\r', '\n', 0x00, '\r', '\n', 'Q', 'U', 'I', 'T', '\n'}

// c10SrvGenProxyPrefix draws what a peer may send first to a PROXY-protocol listener.
func c10SrvGenProxyPrefix(t *rapid.T) ([]byte, string) {
	v2 := func(verCmd, famProto byte, declared int, have []byte) []byte {
		h := append([]byte(nil), c10SrvProxySig...)
		h = append(h, verCmd, famProto, byte(declared>>8), byte(declared))
		return append(h, have...)
	}
	switch rapid.IntRange(0, 6).Draw(t, "proxy-kind") {
	case 0:
		return []byte("PROXY TCP4 10.0.0.1 10.0.0.2 1000 2000\r\n"), "v1-valid"
	case 1:
		// address block followed by 0-3 TLVs as seen in the field (NOOP padding, authority, AWS
		// VPC endpoint id, unique id)
		block := []byte{10, 0, 0, 1, 10, 0, 0, 2, 0x03, 0xe8, 0x07, 0xd0}
		fp := byte(0x11)
		if rapid.Bool().Draw(t, "proxy-v6") {
			fp = 0x21
			block = append(append(append(bytes.Repeat([]byte{0x20}, 1), bytes.Repeat([]byte{1}, 15)...), append([]byte{0x20}, bytes.Repeat([]byte{2}, 15)...)...), 0x03, 0xe8, 0x07, 0xd0)
		}
		kind := "v2-valid"
		ntlv := rapid.IntRange(0, 3).Draw(t, "proxy-tlvs")
		for i := 0; i < ntlv; i++ {
			var typ byte
			var val []byte
			switch rapid.IntRange(0, 3).Draw(t, "proxy-tlv-kind") {
			case 0:
				typ, val = 0x04, make([]byte, rapid.OneOf(rapid.IntRange(0, 20), rapid.SampledFrom([]int{4040, 4064, 4065, 4066, 8200, 65000})).Draw(t, "proxy-noop"))
			case 1:
				typ, val = 0x02, []byte("broker.kafka.example.com")
			case 2:
				typ, val = 0xEA, append([]byte{0x01}, "vpce-08d2bf15fac5001c9"...)
			default:
				typ, val = 0x05, rapid.SliceOfN(rapid.Byte(), 1, 16).Draw(t, "proxy-tlv-val")
			}
			if len(block)+3+len(val) > 65535 {
				continue // the v2 length field is 16 bits
			}
			block = append(append(block, typ, byte(len(val)>>8), byte(len(val))), val...)
			kind = "v2-valid+tlv"
		}
		return v2(0x21, fp, len(block), block), kind
	case 2:
		return v2(0x20, 0x00, 0, nil), "v2-local"
	case 3: // address block of every declared length around the family's size, fully present
		fp := rapid.SampledFrom([]byte{0x11, 0x21, 0x12, 0x22, 0x31, 0x00}).Draw(t, "proxy-famproto")
		n := rapid.IntRange(0, 40).Draw(t, "proxy-declared")
		cmd := rapid.SampledFrom([]byte{0x21, 0x21, 0x20, 0x2f}).Draw(t, "proxy-cmd")
		return v2(cmd, fp, n, bytes.Repeat([]byte{7}, n)), "v2-short-block"
	case 4: // declared length beyond what is sent; the connection ends there (see caller)
		fp := rapid.SampledFrom([]byte{0x11, 0x21}).Draw(t, "proxy-famproto")
		n := rapid.SampledFrom([]int{12, 36, 300, 65535}).Draw(t, "proxy-declared")
		have := rapid.IntRange(0, n-1).Draw(t, "proxy-have")
		if have > 20 {
			have = 20
		}
		return v2(0x21, fp, n, bytes.Repeat([]byte{9}, have)), "v2-truncated"
	case 5:
		// one v1 line of junk. It ends with its own CRLF and contains no other LF, so whatever
		// the parser decides, the Kafka frames that follow start on a frame boundary. (A
		// misaligned stream would make ReadFrame allocate whatever 4 junk bytes announce, up to
		// 2 GiB - see notes; this leg must not do that to a shared machine.)
		n := rapid.IntRange(0, 300).Draw(t, "proxy-n")
		g := rapid.SliceOfN(rapid.SampledFrom([]byte(" \r\t0123456789.:abcTCPUNKOW46-")), n, n).Draw(t, "proxy-v1-garbage")
		return append(append([]byte("PROXY"), g...), '\r', '\n'), "v1-garbage"
	default:
		return nil, "none" // a Kafka client that does not speak PROXY at all
	}
}

// c10SrvServe runs the real connection loop on one end of a pipe; a panic that reaches the
// top of the connection goroutine is returned.
func c10SrvServe(srv *Server, conn net.Conn) <-chan string {
	done := make(chan string, 1)
	go func() {
		defer func() {
			if r := recover(); r != nil {
				done <- fmt.Sprintf("%v\n%s", r, c10SrvTrimStack(debug.Stack()))
				return
			}
			done <- ""
		}()
		srv.handleConnection(conn)
	}()
	return done
}

func c10SrvTrimStack(b []byte) string {
	lines := strings.Split(string(b), "\n")
	var keep []string
	for _, l := range lines {
		if strings.Contains(l, "KafScale/platform") && !strings.Contains(l, "vf_c10_") {
			keep = append(keep, strings.TrimSpace(l))
		}
		if len(keep) >= 8 {
			break
		}
	}
	return strings.Join(keep, "\n")
}

// c10SrvSentinel: a valid ApiVersions v0 request on a NEW connection must be answered.
func c10SrvSentinel(srv *Server, proxyListener bool) string {
	cli, sv := net.Pipe()
	done := c10SrvServe(srv, sv)
	_ = cli.SetDeadline(time.Now().Add(30 * time.Second))
	req := kmsg.NewPtrApiVersionsRequest()
	req.SetVersion(0)
	frame := kmsg.NewRequestFormatter(kmsg.FormatterClientID("vf-sentinel")).AppendRequest(nil, req, 0x5e971e1)
	if proxyListener {
		// a well-behaved load balancer in front: v2 LOCAL header, then the request
		local := append(append([]byte(nil), c10SrvProxySig...), 0x20, 0x00, 0x00, 0x00)
		frame = append(local, frame...)
	}
	if _, err := cli.Write(frame); err != nil {
		_ = cli.Close()
		return fmt.Sprintf("sentinel request could not be written: %v (%s)", err, <-done)
	}
	f, err := protocol.ReadFrame(cli)
	_ = cli.Close()
	if p := <-done; p != "" {
		return "sentinel connection panicked: " + p
	}
	if err != nil {
		return fmt.Sprintf("sentinel ApiVersions request on a new connection was not answered: %v", err)
	}
	if len(f.Payload) < 4 || binary.BigEndian.Uint32(f.Payload[:4]) != 0x5e971e1 {
		return fmt.Sprintf("sentinel reply %x does not carry the sentinel's correlation id", f.Payload)
	}
	return ""
}

func TestVF_C10_Server(t *testing.T) {
	st := vfkit.NewStats("C10", "server")
	defer st.Flush()
	log.SetOutput(io.Discard)
	known := vfkit.Known(c10SrvFindingTagSize)
	inconclusive := ""
	defer func() {
		if inconclusive != "" {
			fmt.Println("VF-INCONCLUSIVE:", inconclusive)
		}
	}()
	rapid.Check(t, func(t *rapid.T) {
		if inconclusive != "" {
			t.Skip(inconclusive)
		}
		st.Eval()
		h := &c10SrvHandler{mode: rapid.SampledFrom([]string{"reply", "reply", "error", "none"}).Draw(t, "handler")}
		srv := &Server{Handler: h}
		var prefix []byte
		prefixKind := ""
		switch rapid.IntRange(0, 3).Draw(t, "conn-context") {
		case 1:
			srv.ConnContextFunc = func(c net.Conn) (net.Conn, *ConnContext, error) {
				return c, &ConnContext{Principal: "vf", RemoteAddr: "pipe"}, nil
			}
		case 2, 3:
			// the listener as cmd/broker wires it with KAFSCALE_PROXY_PROTOCOL=true: the first
			// client bytes go through ReadProxyProtocol inside the connection goroutine
			srv.ConnContextFunc = func(c net.Conn) (net.Conn, *ConnContext, error) {
				wrapped, info, err := ReadProxyProtocol(c)
				if err != nil {
					return c, nil, err
				}
				if info == nil {
					return c, nil, errors.New("proxy protocol required but header missing")
				}
				cc := &ConnContext{RemoteAddr: "pipe"}
				if !info.Local && info.SourceAddr != "" {
					cc.RemoteAddr, cc.ProxyAddr = info.SourceAddr, info.SourceAddr
				}
				return wrapped, cc, nil
			}
			prefix, prefixKind = c10SrvGenProxyPrefix(t)
		}
		n := rapid.IntRange(1, 4).Draw(t, "frames")
		var frames []c10SrvFrame
		var kinds []string
		var wire []string
		for i := 0; i < n; i++ {
			f := c10SrvGenFrame(t, known, i, i == n-1)
			frames = append(frames, f)
			kinds = append(kinds, f.Kind)
			wire = append(wire, hex.EncodeToString(f.Wire))
			if f.Close {
				break
			}
		}
		if prefixKind == "v2-truncated" {
			// the header swallows what follows: end the connection inside it
			frames, kinds, wire = nil, nil, nil
		}
		if prefixKind != "" {
			frames = append([]c10SrvFrame{{Kind: "proxy:" + prefixKind, Wire: prefix, Close: prefixKind == "v2-truncated"}}, frames...)
			kinds = append([]string{"proxy:" + prefixKind}, kinds...)
			wire = append([]string{hex.EncodeToString(prefix)}, wire...)
		}
		// the witness line, should the process die
		fmt.Fprintf(os.Stdout, "C10-server-frames handler=%s %s\n", h.mode, strings.Join(wire, " | "))

		cli, sv := net.Pipe()
		done := c10SrvServe(srv, sv)
		_ = cli.SetDeadline(time.Now().Add(30 * time.Second))
		// drain replies concurrently (net.Pipe is unbuffered)
		var replies bytes.Buffer
		drained := make(chan error, 1)
		go func() {
			_, err := io.Copy(&replies, cli)
			drained <- err
		}()
		open := true
		for _, f := range frames {
			if _, err := cli.Write(f.Wire); err != nil {
				open = false // the server closed the connection: fine
				break
			}
		}
		if open && !frames[len(frames)-1].Close {
			// the pipe is synchronous: this byte is only taken once the server is back in
			// ReadFrame, i.e. after it finished (and answered) the previous frame
			_, _ = cli.Write([]byte{0})
		}
		_ = cli.Close()
		panicked := <-done
		derr := <-drained
		if panicked != "" {
			t.Fatalf("the connection goroutine panicked (no recover in Server.ListenAndServe: the broker process dies): %s\nhandler=%s frames=%v\nwire=%s",
				panicked, h.mode, kinds, strings.Join(wire, " | "))
		}
		if derr != nil && errors.Is(derr, os.ErrDeadlineExceeded) {
			inconclusive = fmt.Sprintf("connection loop did not finish within the 30s guard: frames=%v wire=%s", kinds, strings.Join(wire, " | "))
			t.Skip(inconclusive)
		}
		// replies, if any, are whole frames
		rb := replies.Bytes()
		nrep := 0
		for len(rb) >= 4 {
			l := int(int32(binary.BigEndian.Uint32(rb[:4])))
			if l < 0 || len(rb) < 4+l {
				break
			}
			rb = rb[4+l:]
			nrep++
		}
		if len(rb) != 0 {
			st.Class("note:partial-reply-frame")
		}
		// round trip through the real connection loop: a well-formed request of a served key that
		// is the first thing on the connection (after a valid PROXY header, if the listener wants
		// one) must arrive at the Handler as the same key, version and correlation id
		first := 0
		validPrefix := prefixKind == "" || prefixKind == "v1-valid" || prefixKind == "v2-local" || strings.HasPrefix(prefixKind, "v2-valid")
		if prefixKind != "" {
			first = 1
		}
		if validPrefix && prefixKind != "none" && len(frames) > first && frames[first].Want != nil {
			w := *frames[first].Want
			h.mu.Lock()
			got := append([]c10SrvSeen(nil), h.got...)
			h.mu.Unlock()
			if len(got) == 0 || got[0] != w {
				t.Fatalf("a well-formed %s v%d request (correlation %d) sent first on the connection (listener prefix %q) did not reach the Handler as such: handler saw %+v\nwire=%s",
					kmsg.NameForKey(w.Key), w.Version, w.Corr, prefixKind, got, strings.Join(wire, " | "))
			}
			st.Class("first-request-reached-handler")
		}
		if msg := c10SrvSentinel(srv, prefixKind != ""); msg != "" {
			if strings.Contains(msg, "deadline") || strings.Contains(msg, "timeout") {
				inconclusive = msg
				t.Skip(msg)
			}
			t.Fatalf("after frames %v: %s\nwire=%s", kinds, msg, strings.Join(wire, " | "))
		}
		for _, k := range kinds {
			if strings.HasPrefix(k, "proxy:") {
				st.Class("proxy-protocol-listener")
				st.Class(k)
			} else if strings.HasPrefix(k, "short-payload") {
				st.Class("short-payload")
			} else if strings.HasPrefix(k, "truncated-header") {
				st.Class("truncated-header")
			} else {
				st.Class(k)
			}
		}
		st.Class("handler:" + h.mode)
		st.Class(fmt.Sprintf("replies:%d", nrep))
		hostile := false
		for _, k := range kinds {
			if k != "valid" {
				hostile = true
			}
		}
		if hostile {
			if st.NonTrivial(h.mode, kinds, wire) {
				st.Sample(map[string]any{"handler": h.mode, "frames": kinds, "wire_hex": wire, "replies": nrep})
			}
		}
	})
	if inconclusive != "" {
		t.Fatalf("inconclusive: %s", inconclusive)
	}
}
