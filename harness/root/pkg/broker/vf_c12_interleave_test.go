//go:build verif

package broker

// Interleave leg of the C12/C13/C14 machine: the store handed to the coordinator is wrapped
// so that Metadata / PutConsumerGroup / FetchConsumerGroup / DeleteConsumerGroup /
// CommitConsumerOffset are scheduling points for ONE tagged request (R1). R1 runs in its own
// goroutine inside the synctest bubble and parks at the chosen store call. The controller
// then probes the coordinator mutex with TryLock:
//
//   * mutex free  -> the code made that store call outside its critical section: a second
//                    request R2 for the same group (join of a new member, re-join, leave,
//                    heartbeat, sync, commit) is run to completion inside the window, then R1
//                    is released;
//   * mutex held  -> no other request can make progress while R1 is in the store call (this is
//                    the unchanged tree for join/sync/heartbeat/leave): R1 is released first
//                    and R2 runs after it.
//
// No goroutine is ever left blocked on the (not durably blocking) sync.Mutex, so
// synctest.Wait is only called when every other goroutine is parked on a channel or timer.
// Every reply of R1 and R2 goes through the same oracle wrappers as the sequential machine,
// and the script continues afterwards (usually with a full join+sync round), so a state
// that was corrupted inside the window is observed by the following replies.

import (
	"context"
	"errors"
	"fmt"
	"os"
	"strings"
	"sync"
	"testing"
	"testing/synctest"
	"time"

	"github.com/twmb/franz-go/pkg/kmsg"
	"pgregory.net/rapid"
	"verif.local/vfkit"

	metadatapb "github.com/KafScale/platform/pkg/gen/metadata"
	"github.com/KafScale/platform/pkg/metadata"
)

type c12WorkerKey struct{}

var c12GateLabels = []string{"Metadata", "PutConsumerGroup", "FetchConsumerGroup", "CommitConsumerOffset", "DeleteConsumerGroup"}

type c12GateArm struct {
	label   string
	nth     int
	seen    int
	hit     bool
	fail    bool // instead of parking, make the store call fail once (injected read fault)
	release chan struct{}
}

type c12GateStore struct {
	*metadata.InMemoryStore
	mu     sync.Mutex
	armed  *c12GateArm
	faults int
}

var errC12Injected = errors.New("vf: injected transient store error")

func (g *c12GateStore) faultCount() int { g.mu.Lock(); defer g.mu.Unlock(); return g.faults }

func (g *c12GateStore) gate(ctx context.Context, label string) error {
	if ctx == nil || ctx.Value(c12WorkerKey{}) == nil {
		return nil
	}
	g.mu.Lock()
	a := g.armed
	if a == nil || a.label != label || a.hit {
		g.mu.Unlock()
		return nil
	}
	a.seen++
	if a.seen != a.nth {
		g.mu.Unlock()
		return nil
	}
	a.hit = true
	if a.fail {
		g.faults++
		g.mu.Unlock()
		return errC12Injected
	}
	g.mu.Unlock()
	<-a.release
	return nil
}

func (g *c12GateStore) arm(a *c12GateArm) { g.mu.Lock(); g.armed = a; g.mu.Unlock() }

func (g *c12GateStore) wasHit(a *c12GateArm) bool { g.mu.Lock(); defer g.mu.Unlock(); return a.hit }

func (g *c12GateStore) Metadata(ctx context.Context, topics []string) (*metadata.ClusterMetadata, error) {
	if err := g.gate(ctx, "Metadata"); err != nil {
		return nil, err
	}
	return g.InMemoryStore.Metadata(ctx, topics)
}

func (g *c12GateStore) PutConsumerGroup(ctx context.Context, group *metadatapb.ConsumerGroup) error {
	if err := g.gate(ctx, "PutConsumerGroup"); err != nil {
		return err
	}
	return g.InMemoryStore.PutConsumerGroup(ctx, group)
}

func (g *c12GateStore) FetchConsumerGroup(ctx context.Context, id string) (*metadatapb.ConsumerGroup, error) {
	if err := g.gate(ctx, "FetchConsumerGroup"); err != nil {
		return nil, err
	}
	return g.InMemoryStore.FetchConsumerGroup(ctx, id)
}

func (g *c12GateStore) DeleteConsumerGroup(ctx context.Context, id string) error {
	_ = g.gate(ctx, "DeleteConsumerGroup")
	return g.InMemoryStore.DeleteConsumerGroup(ctx, id)
}

func (g *c12GateStore) CommitConsumerOffset(ctx context.Context, group, topic string, partition int32, offset int64, meta string) error {
	_ = g.gate(ctx, "CommitConsumerOffset")
	return g.InMemoryStore.CommitConsumerOffset(ctx, group, topic, partition, offset, meta)
}

// interleave runs r1 in its own goroutine with the gate armed and r2 either inside the
// window (if the coordinator mutex is free while r1 is parked) or after r1.
func (r *c12Run) interleave(label string, nth int, r1, r2 func()) {
	arm := &c12GateArm{label: label, nth: nth, release: make(chan struct{})}
	r.gs.arm(arm)
	done := make(chan struct{})
	r.ctx = context.WithValue(context.Background(), c12WorkerKey{}, "R1")
	go func() {
		defer close(done)
		defer func() {
			if p := recover(); p != nil {
				r.res.viol["PANIC"] = append(r.res.viol["PANIC"], fmt.Sprintf("panic in R1: %v", p))
			}
		}()
		r1()
	}()
	// R1 either finishes or parks on the gate channel; nothing else is runnable.
	synctest.Wait()
	r.ctx = context.Background()
	ranInside := false
	if r.gs.wasHit(arm) {
		if r.c.mu.TryLock() {
			r.c.mu.Unlock()
			r.tr("interleave: R1 parked in store.%s#%d with the coordinator mutex FREE -> R2 runs inside the window", label, nth)
			r.class("interleave/window-open/" + label)
			r.res.feats["window-open"] = true
			ranInside = true
			r.inside++
			r2()
		} else {
			r.class("interleave/mutex-held/" + label)
			r.res.feats["gate-hit"] = true
		}
		r.gs.arm(nil)
		close(arm.release)
	} else {
		r.gs.arm(nil)
		r.class("interleave/gate-not-reached/" + label)
	}
	<-done
	if !ranInside {
		r2()
	}
}

func (r *c12Run) interleaveAct(a c12Act) {
	live := r.live()
	// optional set-up: everybody re-joins so that the group is in CompletingRebalance
	if a.TMode&1 == 1 && len(live) > 0 && (a.R1 == 4 || a.R1 == 6) {
		// heartbeat / commit as R1: bring the group to Stable first
		r.round(c12Act{Who: a.Who, TMode: a.TAmt, TAmt: 1})
	} else if a.TMode&1 == 1 && len(live) > 0 {
		for pass := 0; pass < 2; pass++ {
			for _, cl := range live {
				w := c12Peek(r.c)
				if _, ok := w.members[cl.id]; ok {
					r.doJoin(cl, cl.id, cl.sub, 0, cl.reb)
				}
			}
		}
	}
	w := c12Peek(r.c)
	var r1, r2 func()
	r1name, r2name := "", ""
	switch a.R1 {
	case 0: // the leader's sync
		lc := r.clientByID(w.leader)
		if lc == nil {
			return
		}
		r1, r1name = func() { r.doSync(lc, lc.ownGen) }, "leader-sync"
	case 1:
		cl := r.pick(a.Who)
		if cl == nil {
			return
		}
		g := r.resolveGen(cl, a.GenSel, a.GenOff)
		r1, r1name = func() { r.doSync(cl, g) }, "sync"
	case 2:
		cl := r.pick(a.Who)
		if cl == nil {
			return
		}
		if _, ok := w.members[cl.id]; !ok {
			return
		}
		r1, r1name = func() { r.doJoin(cl, cl.id, cl.sub, 0, cl.reb) }, "rejoin"
	case 3:
		if len(live) >= 4 || len(r.cl) >= 9 {
			return
		}
		r1, r1name = func() { r.doJoin(nil, "", c12MaskTopics(a.Sub), a.Sess, a.Reb) }, "joinNew"
	case 4:
		cl := r.pick(a.Who)
		if cl == nil {
			return
		}
		g := r.resolveGen(cl, a.GenSel, a.GenOff)
		r1, r1name = func() { r.doHeartbeat(cl, g) }, "hb"
	case 5:
		cl := r.pick(a.Who)
		if cl == nil {
			return
		}
		r1, r1name = func() { r.doLeave(cl) }, "leave"
	default:
		cl := r.pick(a.Who)
		if cl == nil {
			return
		}
		g := r.resolveGen(cl, a.GenSel, a.GenOff)
		r1, r1name = func() {
			r.doCommit(cl, g, c12TopicNames[a.Topic%len(c12TopicNames)], int32(a.Part), a.Off, false)
		}, "commit"
	}
	switch a.R2 {
	case 0:
		r2name = "joinNew"
		r2 = func() {
			if len(r.live()) >= 4 || len(r.cl) >= 9 {
				return
			}
			r.doJoin(nil, "", c12MaskTopics(a.Sub|1), a.Sess, a.Reb)
		}
	case 1:
		r2name = "leave"
		r2 = func() {
			if cl := r.pick(a.Who2); cl != nil {
				r.doLeave(cl)
			}
		}
	case 2:
		r2name = "rejoin"
		r2 = func() {
			if cl := r.pick(a.Who2); cl != nil {
				if _, ok := c12Peek(r.c).members[cl.id]; ok {
					r.doJoin(cl, cl.id, cl.sub, 0, cl.reb)
				}
			}
		}
	case 3:
		r2name = "hb"
		r2 = func() {
			if cl := r.pick(a.Who2); cl != nil {
				r.doHeartbeat(cl, cl.ownGen)
			}
		}
	case 4:
		r2name = "sync"
		r2 = func() {
			if cl := r.pick(a.Who2); cl != nil {
				r.doSync(cl, cl.ownGen)
			}
		}
	default:
		r2name = "commit"
		r2 = func() {
			if cl := r.pick(a.Who2); cl != nil {
				r.doCommit(cl, cl.ownGen, c12TopicNames[a.Topic%len(c12TopicNames)], int32(a.Part), a.Off+1, false)
			}
		}
	}
	label := c12GateLabels[a.Gate%len(c12GateLabels)]
	nth := 1 + a.Nth%2
	r.tr("interleave: R1=%s gated at store.%s#%d, R2=%s (phase %s)", r1name, label, nth, r2name, c12Phase(w.phase))
	r.class(fmt.Sprintf("interleave/r1-%s/r2-%s", r1name, r2name))
	r.interleave(label, nth, r1, r2)
	// follow-up A: the coordinator is restarted from the store and every identity the harness
	// knows (also the ones that left / expired) heartbeats and commits with its own generation
	if a.TMode&4 == 4 {
		if r.restart() {
			for _, cl := range append([]*c12Client(nil), r.cl...) {
				if cl.ghost {
					continue
				}
				r.doHeartbeat(cl, cl.ownGen)
				r.doCommit(cl, cl.ownGen, c12TopicNames[a.Topic%len(c12TopicNames)], int32(a.Part), a.Off+3, false)
			}
		}
	}
	// follow-up B: everybody re-joins and syncs, so a corrupted state shows in the replies
	if a.TMode&2 == 2 {
		r.round(c12Act{Who: a.Who2, TMode: a.TAmt, TAmt: 1})
	}
}

// restart replaces the coordinator by a new one over the same store (broker restart /
// coordinator hand-over). Only done when the persisted group is Stable, Completing or absent.
func (r *c12Run) restart() bool {
	rec, err := r.store.FetchConsumerGroup(context.Background(), c12Group)
	// Stable, or CompletingRebalance (every member has joined the generation, which is what the
	// restore assumes); a group persisted in PreparingRebalance is C15's subject.
	if err != nil || (rec != nil && rec.GetState() != groupStateStableStr && rec.GetState() != groupStateCompletingStr) {
		r.class("restart/skipped-persisted-group-preparing")
		return false
	}
	if r.dirty {
		// an injected write fault left the store behind the memory: what a restart does to such
		// a group is C15's subject
		r.class("restart/skipped-store-behind-after-write-fault")
		return false
	}
	if rec != nil {
		r.class("restart/persisted-" + rec.GetState())
	}
	pre := c12Peek(r.c)
	r.observe(pre)
	r.c.Stop()
	r.unloaded = true
	r.c = NewGroupCoordinator(r.gs, r.brk, &CoordinatorConfig{CleanupInterval: time.Duration(r.env.CleanupMs) * time.Millisecond})
	synctest.Wait()
	post := c12Peek(r.c)
	r.tr("restart: coordinator rebuilt from the store (persisted gen=%d members=%d; in-memory before gen=%d members=%d)", post.gen, len(post.members), pre.gen, len(pre.members))
	r.class("restart/done")
	r.res.feats["restart"] = true
	r.observe(post)
	return true
}

// metaFaulted runs one request whose first store.Metadata call fails with a transient error.
func (r *c12Run) metaFaulted(f func()) {
	arm := &c12GateArm{label: "Metadata", nth: 1, fail: true}
	r.gs.arm(arm)
	r.ctx = context.WithValue(context.Background(), c12WorkerKey{}, "M")
	f()
	r.ctx = context.Background()
	r.gs.arm(nil)
	if r.gs.wasHit(arm) {
		r.class("fault/metadata-lookup-failed-during-sync")
		r.res.feats["metadata-fault"] = true
	}
}

// doLeaveV4 sends the leave the way every real client has to (the broker advertises LeaveGroup
// v4 only): the member id travels in Members[], the request goes through kmsg's own v4 wire
// encoding and decoding. No statement of C12/C13/C14 obliges the coordinator to honour a leave,
// so the outcome is only counted (and the model follows whatever the reply says).
func (r *c12Run) doLeaveV4(cl *c12Client) {
	pre := c12Peek(r.c)
	r.observe(pre)
	out := kmsg.NewPtrLeaveGroupRequest()
	out.Version = 4
	out.Group = c12Group
	m := kmsg.NewLeaveGroupRequestMember()
	m.MemberID = cl.id
	out.Members = append(out.Members, m)
	req := kmsg.NewPtrLeaveGroupRequest()
	req.Version = 4
	if err := req.ReadFrom(out.AppendTo(nil)); err != nil {
		r.class("leave-v4/encode-decode-error")
		return
	}
	cl.lastReq = time.Now()
	r.markLoaded()
	resp := r.c.LeaveGroup(r.ctx, req)
	post := c12Peek(r.c)
	if resp == nil {
		return
	}
	_, wasMember := pre.members[cl.id]
	r.tr("leave(v4 Members[]) %s ph=%s member=%v -> code=%d", c12Short(cl.id), c12Phase(pre.phase), wasMember, resp.ErrorCode)
	r.class(fmt.Sprintf("leave-v4/member-%v/code%d", wasMember, resp.ErrorCode))
	if _, still := post.members[cl.id]; wasMember && !still {
		cl.left = true
		r.dirty = false
		delete(r.joined, cl.id)
	}
	r.observe(post)
}

// writeFaulted runs one request whose first PutConsumerGroup fails with a transient error.
func (r *c12Run) writeFaulted(f func()) {
	arm := &c12GateArm{label: "PutConsumerGroup", nth: 1, fail: true}
	r.gs.arm(arm)
	r.ctx = context.WithValue(context.Background(), c12WorkerKey{}, "W")
	f()
	r.ctx = context.Background()
	r.gs.arm(nil)
}

// faulted runs one request whose first FetchConsumerGroup fails with a transient error.
func (r *c12Run) faulted(f func()) {
	arm := &c12GateArm{label: "FetchConsumerGroup", nth: 1, fail: true}
	r.gs.arm(arm)
	r.ctx = context.WithValue(context.Background(), c12WorkerKey{}, "F")
	f()
	r.ctx = context.Background()
	r.gs.arm(nil)
	if r.gs.wasHit(arm) {
		r.unloaded = true // the load failed: the group is still only in the store
		r.class("fault/fetch-consumer-group-failed-once")
		r.res.feats["read-fault"] = true
	}
}

func (r *c12Run) restartAct(a c12Act) {
	if !r.restart() {
		return
	}
	switch a.TMode {
	case 1: // first request after the restart: an existing member re-joins, the store read fails
		if cl := r.pick(a.Who); cl != nil {
			if _, ok := c12Peek(r.c).members[cl.id]; ok {
				r.faulted(func() { r.doJoin(cl, cl.id, cl.sub, 0, cl.reb) })
			}
		}
	case 2: // ... a new member joins, the store read fails
		if len(r.live()) < 4 && len(r.cl) < 9 {
			r.faulted(func() { r.doJoin(nil, "", c12MaskTopics(a.Sub), 10000, 10000) })
		}
	case 3: // ... heartbeat / sync / commit, the store read fails
		if cl := r.pick(a.Who); cl != nil {
			switch a.TAmt % 3 {
			case 0:
				r.faulted(func() { r.doHeartbeat(cl, cl.ownGen) })
			case 1:
				r.faulted(func() { r.doSync(cl, cl.ownGen) })
			default:
				r.faulted(func() { r.doCommit(cl, cl.ownGen, c12TopicNames[0], 0, 77, false) })
			}
		}
	}
}

// staleLeave sends a LeaveGroup with an id that is not a member: an identity that already
// left / expired if there is one, a never-joined id otherwise.
func (r *c12Run) staleLeave(who int) {
	w := c12Peek(r.c)
	var cands []*c12Client
	for _, c := range r.cl {
		if _, ok := w.members[c.id]; !ok && !c.ghost {
			cands = append(cands, c)
		}
	}
	if who < 0 {
		who = -who
	}
	if len(cands) > 0 {
		r.class("leave/stale-identity")
		r.doLeave(cands[who%len(cands)])
		return
	}
	gh := &c12Client{id: fmt.Sprintf("%s-ghost-%d", c12Group, who%3), ghost: true, ownGen: 1}
	if c := r.clientByID(gh.id); c != nil {
		gh = c
	} else {
		r.cl = append(r.cl, gh)
	}
	r.class("leave/never-joined-identity")
	r.doLeave(gh)
}

func c12DrawInterleaveEnv(t *rapid.T) c12Env {
	env := c12Env{
		Seed:      rapid.Int64Range(1, 1<<40).Draw(t, "seed"),
		CleanupMs: rapid.SampledFrom([]int{1000, 2000, 5000}).Draw(t, "cleanup"),
	}
	for i := range env.Parts {
		env.Parts[i] = rapid.SampledFrom([]int{0, 1, 2, 3, 4, 6}).Draw(t, "parts")
	}
	if env.Parts[0] == 0 {
		env.Parts[0] = 1 + rapid.IntRange(0, 5).Draw(t, "parts0")
	}
	kinds := []int{
		c12KJoinNew, c12KJoinNew, c12KJoinNew,
		c12KRejoin, c12KSync, c12KHeartbeat, c12KLeave, c12KCommit, c12KAdvance, c12KTopic,
		c12KRound, c12KRound,
		c12KInterleave, c12KInterleave, c12KInterleave, c12KInterleave, c12KInterleave, c12KInterleave,
		c12KRestart, c12KRestart,
	}
	n := rapid.IntRange(3, 24).Draw(t, "steps")
	for i := 0; i < n; i++ {
		a := c12Act{Kind: rapid.SampledFrom(kinds).Draw(t, "kind")}
		if a.Kind != c12KInterleave {
			c12DrawActFields(t, &a)
			env.Script = append(env.Script, a)
			continue
		}
		a.R1 = rapid.SampledFrom([]int{0, 0, 0, 0, 1, 2, 2, 3, 4, 4, 4, 5, 6}).Draw(t, "r1")
		a.R2 = rapid.SampledFrom([]int{0, 0, 1, 1, 2, 3, 4, 5}).Draw(t, "r2")
		// the store call that matches R1 most of the time, any of them otherwise
		def := map[int]int{0: 0, 1: 0, 2: 1, 3: 1, 4: 1, 5: 1, 6: 3}[a.R1]
		a.Gate = rapid.SampledFrom([]int{def, def, def, 0, 1, 2, 3, 4}).Draw(t, "gate")
		a.Nth = rapid.SampledFrom([]int{0, 0, 0, 1}).Draw(t, "nth")
		a.Who = rapid.IntRange(0, 23).Draw(t, "who")
		a.Who2 = rapid.IntRange(0, 23).Draw(t, "who2")
		a.TMode = rapid.SampledFrom([]int{3, 3, 7, 7, 5, 2, 1, 0}).Draw(t, "setup")
		a.TAmt = rapid.IntRange(0, 3).Draw(t, "order")
		a.GenSel = rapid.SampledFrom([]int{0, 0, 0, 1, 2}).Draw(t, "gensel")
		a.Sub = rapid.IntRange(0, 15).Draw(t, "sub")
		a.Sess = rapid.SampledFrom(c12Sessions).Draw(t, "sess")
		a.Reb = rapid.SampledFrom(c12Rebs).Draw(t, "reb")
		a.Topic = rapid.IntRange(0, 3).Draw(t, "topic")
		a.Part = rapid.IntRange(0, 5).Draw(t, "part")
		a.Off = int64(rapid.IntRange(0, 1000).Draw(t, "off"))
		env.Script = append(env.Script, a)
	}
	return env
}

func TestVF_C12_Interleave(t *testing.T) {
	focus := c12Focus()
	prop := os.Getenv("VF_PROP")
	if prop == "" {
		prop = "C12"
		if focus != "" {
			prop = focus
		}
	}
	st := vfkit.NewStats(prop, "interleave")
	defer st.Flush()
	if !c12RandSeedWorks() {
		fmt.Println("VF-INCONCLUSIVE: math/rand.Seed is a no-op (run with GODEBUG=randseednop=0); member ids would not be reproducible")
		t.Fatalf("rand.Seed has no effect")
	}
	exclude := vfkit.Known(c12FindingStableRejoin)
	st.Note("focus", focus)
	rapid.Check(t, func(rt *rapid.T) {
		env := c12DrawInterleaveEnv(rt)
		st.Eval()
		res := c12Execute(t, env, c12Opts{excludeStableRejoin: exclude, excludeMetaFault: vfkit.Known(c12FindingMetaErr), excludeGrowth: vfkit.Known(c12FindingGrowth), focus: focus})
		for id, n := range res.excl {
			for i := 0; i < n; i++ {
				st.ExcludedCase(id)
			}
		}
		for k, v := range res.classes {
			st.ClassN(k, v)
		}
		for f := range res.feats {
			st.Class("feat/" + f)
		}
		if (res.feats["gate-hit"] || res.feats["window-open"]) && res.feats["multi"] {
			st.Class("nontrivial")
			if st.NonTrivial(strings.Join(res.trace, "\n")) {
				tr := res.trace
				if len(tr) > 40 {
					tr = tr[:40]
				}
				st.Sample(map[string]any{"cleanup_ms": env.CleanupMs, "parts": env.Parts, "features": c12FeatList(res.feats), "trace": tr})
			}
		}
		if v := res.viol["PANIC"]; len(v) > 0 {
			rt.Fatalf("coordinator panicked: %v\ntrace:\n%s", v, strings.Join(res.trace, "\n"))
		}
		for _, p := range []string{"C12", "C13", "C14"} {
			if focus != "" && focus != p {
				if len(res.viol[p]) > 0 {
					st.Class("other-focus-violation/" + p)
				}
				continue
			}
			if v := res.viol[p]; len(v) > 0 {
				rt.Fatalf("%s violated (details after the trace)\ntrace:\n%s\n%s violated:\n%s", p, strings.Join(res.trace, "\n"), p, strings.Join(v, "\n"))
			}
		}
	})
}
