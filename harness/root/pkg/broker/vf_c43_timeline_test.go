//go:build verif

package broker

// C43 — group members expire exactly when their session lapses (virtual time).
//
// A case is a pre-drawn timeline: cleanup interval, 1-4 clients with session timeout S,
// rebalance timeout RT, heartbeat period h, reaction latency lat, join-poll period r, a
// start instant and a fate (keeps running | goes silent at T | leaves at T). The timeline
// is simulated event by event inside a testing/synctest bubble against a real
// GroupCoordinator (its cleanupLoop runs on the bubble's fake clock). Every client follows
// the client protocol: join (poll while REBALANCE_IN_PROGRESS), sync, heartbeat every h;
// on ILLEGAL_GENERATION / REBALANCE_IN_PROGRESS / UNKNOWN_MEMBER_ID it re-joins after lat.
//
// Oracles (bounds are computed by the harness from the requests it sent):
//   liveness-session  a client silent since its last request t must be gone from the group
//                     at t + S + cleanupInterval + 1ms, and if the group still exists its
//                     generation must be higher than it was at t ("the group rebalances").
//   liveness-rebalance every cleanup tick is an observation point. The harness keeps an upper
//                     bound D on the rebalance deadline: (instant at which it saw a rebalance
//                     start / the generation change / a member join the current generation for
//                     the first time) + max(RT of all clients). Polls of members that already
//                     joined do not move D. At a tick T with D < T every member of the group
//                     before the tick that had not joined the current generation (by the join
//                     replies the harness received) must be gone right after the tick, whatever
//                     else that cleanup pass did (e.g. also expiring a session).
//   safety            a client whose consecutive requests are never further apart than
//                     min(S, smallest RT) is a member at every observation, never gets
//                     UNKNOWN_MEMBER_ID and never has its member id replaced by a join.
//
// All client instants carry an odd sub-millisecond offset while cleanup ticks fall on whole
// milliseconds, so no comparison is ever evaluated exactly at a boundary (the statement
// does not say whether "has passed" is > or >=).

import (
	"context"
	"errors"
	"fmt"
	"os"
	"sort"
	"strings"
	"sync"
	"testing"
	"testing/synctest"
	"time"

	"github.com/twmb/franz-go/pkg/kmsg"
	"pgregory.net/rapid"
	"verif.local/vfkit"

	metadatapb "github.com/KafScale/platform/pkg/gen/metadata"
	"github.com/KafScale/platform/pkg/metadata"
	"github.com/KafScale/platform/pkg/protocol"
)

const (
	c43FindingHB  = "C43-session-not-refreshed-by-heartbeat-during-rebalance"
	c43FindingReb = "C43-rebalance-timeout-postponed-by-every-join"
)

const c43Group = "vft"

const (
	c43FateRun = iota
	c43FateDie
	c43FateLeave
)

const (
	c43StNew = iota
	c43StJoining
	c43StSyncing
	c43StStable
	c43StDead
	c43StLeft
)

type c43Spec struct {
	SessMs  int `json:"sess_ms"`
	RebMs   int `json:"reb_ms"`
	HMs     int `json:"hb_ms"`
	LatMs   int `json:"lat_ms"`
	RetryMs int `json:"retry_ms"`
	ReactMs int `json:"react_ms,omitempty"` // >0: after a rejected heartbeat keep heartbeating every hb_ms and re-join only after this delay
	StartMs int `json:"start_ms"`
	Fate    int `json:"fate"`
	FateMs  int `json:"fate_ms"`
	// voluntary re-join of the (by then known) member id at ReJoinAtMs: optionally announcing a
	// different session timeout (and heartbeating at ReHMs from then on), optionally with the
	// store's PutConsumerGroup failing once during that JoinGroup
	ReJoinAtMs int  `json:"rejoin_at_ms,omitempty"`
	ReSessMs   int  `json:"resess_ms,omitempty"`
	ReHMs      int  `json:"rehb_ms,omitempty"`
	ReFault    bool `json:"refault,omitempty"`
}

type c43Env struct {
	CleanupMs int       `json:"cleanup_ms"`
	Clients   []c43Spec `json:"clients"`
	// coordinator restart / fail-over at this instant (0 = never): a new GroupCoordinator over the
	// same store; the group is re-loaded (with its persisted heartbeat times) by the next request
	RestartAtMs int `json:"restart_at_ms,omitempty"`
}

type c43Opts struct {
	excludeReb bool // do not assert liveness-rebalance (listed finding)
}

type c43Client struct {
	c43Spec
	idx        int
	off        time.Duration // odd sub-ms offset of this client's instants
	id         string
	gen        int32
	st         int
	next       time.Duration
	lastReq    time.Duration
	lastRefReq time.Duration // last join or heartbeat request
	rejoinAt   time.Duration // slow re-join pending (ReactMs > 0)
	reDone     bool          // the voluntary re-join instant has passed
	rePending  bool          // ... and its session change / write fault apply to the next JoinGroup
	joinedOnce bool
	safe       bool
	// recorded at the last request of a client that goes silent
	genAtLast   int32
	incAtLast   int
	checkAt     time.Duration
	checked     bool
	gone        bool
	exclCounted bool
}

type c43Result struct {
	viol     []string
	trace    []string
	classes  map[string]int
	feats    map[string]bool
	exclReb  int
	events   int
	deathCls []string
}

type c43Sim struct {
	c         *GroupCoordinator
	fs        *c43FaultStore
	brk       protocol.MetadataBroker
	restarted bool
	unloaded  bool          // restarted and no request has re-loaded the group yet (nothing sweeps it)
	lastLoad  time.Duration // instant of the request that re-loaded the group
	dirty     bool          // an injected write fault left the store behind the memory
	ctx       context.Context
	env       c43Env
	opts      c43Opts
	t0        time.Time
	cl        []*c43Client
	res       *c43Result
	interval  time.Duration
	rtMax     time.Duration
	rtMin     time.Duration
	inc       int
	existed   bool
	prev      c43WB         // white-box state at the previous observation
	dUp       time.Duration // upper bound of the current rebalance deadline (0 = none)
	nextTick  time.Duration
	firstJoin bool // the request just sent was a member's first join of the generation
}

func c43Ms(n int) time.Duration { return time.Duration(n) * time.Millisecond }

func (s *c43Sim) now() time.Duration { return time.Since(s.t0) }

func (s *c43Sim) violate(format string, args ...any) {
	if len(s.res.viol) < 6 {
		s.res.viol = append(s.res.viol, fmt.Sprintf("[t=%s] ", s.now())+fmt.Sprintf(format, args...))
	}
}

func (s *c43Sim) tr(format string, args ...any) {
	if len(s.res.trace) < 6000 {
		s.res.trace = append(s.res.trace, fmt.Sprintf("%9.3fs ", s.now().Seconds())+fmt.Sprintf(format, args...))
	}
}

type c43TagKey struct{}

// c43FaultStore fails ONE PutConsumerGroup of a tagged request when armed.
type c43FaultStore struct {
	*metadata.InMemoryStore
	mu     sync.Mutex
	armed  bool
	faults int
}

func (f *c43FaultStore) PutConsumerGroup(ctx context.Context, g *metadatapb.ConsumerGroup) error {
	if ctx != nil && ctx.Value(c43TagKey{}) != nil {
		f.mu.Lock()
		if f.armed {
			f.armed = false
			f.faults++
			f.mu.Unlock()
			return errors.New("vf: injected transient store write error")
		}
		f.mu.Unlock()
	}
	return f.InMemoryStore.PutConsumerGroup(ctx, g)
}

type c43WB struct {
	exists  bool
	gen     int32
	phase   groupPhase
	members map[string]int32
}

func (s *c43Sim) peek() c43WB {
	s.c.mu.Lock()
	defer s.c.mu.Unlock()
	w := c43WB{members: map[string]int32{}}
	st, ok := s.c.groups[c43Group]
	if !ok && s.unloaded {
		// after a restart the group is what the store holds until a request loads it
		if rec, err := s.fs.InMemoryStore.FetchConsumerGroup(context.Background(), c43Group); err == nil && rec != nil {
			st, ok = restoreGroupState(rec), true
		}
	}
	if !ok || st == nil || len(st.members) == 0 {
		return w
	}
	w.exists, w.gen, w.phase = true, st.generationID, st.state
	for id, m := range st.members {
		w.members[id] = m.joinGeneration
	}
	return w
}

// observe: incarnation tracking, rebalance-deadline bound and the continuous assertions.
// tickAt >= 0 marks the observation that directly follows the cleanup tick at that instant.
func (s *c43Sim) observe(tickAt time.Duration) c43WB {
	w := s.peek()
	now := s.now()
	if tickAt >= 0 {
		s.checkLaggers(w, tickAt)
	}
	first := s.firstJoin
	s.firstJoin = false
	switch {
	case !w.exists || w.phase != groupStatePreparingRebalance:
		s.dUp = 0
	case !s.prev.exists || s.prev.phase != groupStatePreparingRebalance || s.prev.gen != w.gen || first:
		s.dUp = now + s.rtMax
	}
	s.prev = w
	if !w.exists {
		if s.existed {
			s.inc++
		}
		s.existed = false
		return w
	}
	s.existed = true
	for _, c := range s.cl {
		_, member := w.members[c.id]
		switch c.st {
		case c43StJoining, c43StSyncing, c43StStable:
			if c.safe && c.id != "" && !member {
				s.violate("safety: client %d (S=%dms h=%dms lat=%dms retry=%dms, last request %s ago, last join/heartbeat %s ago) is no longer a member", c.idx, c.SessMs, c.HMs, c.LatMs, c.RetryMs, now-c.lastReq, now-c.lastRefReq)
			}
		case c43StDead:
			if c.id == "" || c.gone {
				continue
			}
			if !member {
				c.gone = true
				s.res.classes[fmt.Sprintf("removed-after/%s", c43Bucket(now-c.lastReq, c43Ms(c.SessMs)))]++
			}
		}
	}
	return w
}

func (s *c43Sim) clientByID(id string) *c43Client {
	for _, c := range s.cl {
		if c.id == id && id != "" {
			return c
		}
	}
	return nil
}

// checkLaggers runs right after the cleanup tick at instant T. s.prev / s.dUp still describe
// the state before the tick.
func (s *c43Sim) checkLaggers(w c43WB, T time.Duration) {
	if !s.prev.exists || s.prev.phase != groupStatePreparingRebalance || s.dUp == 0 || s.dUp >= T {
		return
	}
	s.res.classes["tick/rebalance-deadline-passed"]++
	laggers, validLagger, freshLapse := 0, false, false
	for id := range s.prev.members {
		c := s.clientByID(id)
		if c == nil {
			continue
		}
		lapsed := T-c.lastReq > c43Ms(c.SessMs)
		if lapsed && T-s.interval-c.lastReq <= c43Ms(c.SessMs) {
			freshLapse = true
		}
		if c.gen == s.prev.gen {
			continue
		}
		laggers++
		if !lapsed {
			validLagger = true
		}
		if _, still := w.members[id]; !still {
			continue
		}
		if s.opts.excludeReb {
			if !c.exclCounted {
				c.exclCounted = true
				s.res.exclReb++
			}
			continue
		}
		s.violate("liveness-rebalance: cleanup tick at %s: the rebalance of generation %d had its deadline no later than %s (last rebalance start / first-time join + max rebalance timeout %s), client %d (last request at %s, session %dms) never joined that generation but is still a member after the tick (generation now %d, phase %s)", T, s.prev.gen, s.dUp, s.rtMax, c.idx, c.lastReq, c.SessMs, w.gen, c43Phase(w.phase))
	}
	if laggers > 0 {
		s.res.classes["tick/rebalance-deadline-passed/with-laggers"]++
		s.res.feats["lagger-at-deadline"] = true
	}
	if validLagger && freshLapse {
		// the coincidence: a session lapse first visible in the very cleanup pass that must
		// also drop a rebalance laggard whose own session is still valid
		s.res.classes["tick/deadline-and-session-expiry-coincide"]++
		s.res.feats["deadline-expiry-coincidence"] = true
	}
}

func c43Bucket(d, sess time.Duration) string {
	switch {
	case d < sess/2:
		return "lt-half-session"
	case d < sess:
		return "lt-session"
	default:
		return "ge-session"
	}
}

func (s *c43Sim) join(c *c43Client) {
	now := s.now()
	ctx := s.ctx
	if c.rePending {
		c.rePending = false
		if c.ReSessMs > 0 {
			// from this request on the announced session timeout is the new one
			s.tr("c%d announces session %dms (was %dms), heartbeat %dms", c.idx, c.ReSessMs, c.SessMs, c.ReHMs)
			s.res.classes[fmt.Sprintf("rejoin/session-%s", c43Cmp(c.ReSessMs, c.SessMs))]++
			s.res.feats["session-changed-on-rejoin"] = true
			c.SessMs, c.HMs = c.ReSessMs, c.ReHMs
		}
		if _, known := s.prev.members[c.id]; c.ReFault && c.id != "" && known {
			s.fs.mu.Lock()
			s.fs.armed = true
			s.fs.mu.Unlock()
			ctx = context.WithValue(s.ctx, c43TagKey{}, c.idx)
			s.res.classes["rejoin/store-write-fault-armed"]++
			s.res.feats["write-fault-on-rejoin"] = true
		}
	}
	req := kmsg.NewPtrJoinGroupRequest()
	req.Group = c43Group
	req.MemberID = c.id
	req.ProtocolType = "consumer"
	req.SessionTimeoutMillis = int32(c.SessMs)
	req.RebalanceTimeoutMillis = int32(c.RebMs)
	p := kmsg.NewJoinGroupRequestProtocol()
	p.Name = "range"
	p.Metadata = []byte{0, 0, 0, 0, 0, 1, 0, 2, 't', 'a', 0, 0, 0, 0}
	req.Protocols = append(req.Protocols, p)
	_, wasMember := s.prev.members[c.id]
	s.firstJoin = c.id == "" || !wasMember || c.gen != s.prev.gen
	s.markLoaded()
	faultsBefore := s.fs.faults
	resp, err := s.c.JoinGroup(ctx, req)
	s.fs.mu.Lock()
	s.fs.armed = false
	s.fs.mu.Unlock()
	c.lastReq, c.lastRefReq = now, now
	if err != nil || resp == nil {
		s.violate("JoinGroup error %v", err)
		return
	}
	s.tr("c%d join id=%s -> code=%d gen=%d id=%s", c.idx, c43Short(c.id), resp.ErrorCode, resp.Generation, c43Short(resp.MemberID))
	s.res.classes[fmt.Sprintf("join/code%d", resp.ErrorCode)]++
	if c.id != "" && resp.MemberID != c.id {
		s.res.classes["join/member-id-replaced"]++
		if c.safe {
			s.violate("safety: client %d re-joined with id %s but was given a new id %s (it had been removed)", c.idx, c.id, resp.MemberID)
		}
	}
	c.id = resp.MemberID
	c.gen = resp.Generation
	c.joinedOnce = true
	if s.fs.faults > faultsBefore {
		s.dirty = true
	} else if resp.ErrorCode != protocol.UNKNOWN_SERVER_ERROR {
		s.dirty = false
	}
	switch resp.ErrorCode {
	case protocol.NONE:
		c.st, c.next = c43StSyncing, now+c43Ms(c.LatMs)
	default:
		c.st, c.next = c43StJoining, now+c43Ms(c.RetryMs)
	}
}

func c43Cmp(a, b int) string {
	switch {
	case a < b:
		return "shorter"
	case a > b:
		return "longer"
	}
	return "same"
}

func c43Phase(p groupPhase) string {
	switch p {
	case groupStateEmpty:
		return "E"
	case groupStatePreparingRebalance:
		return "P"
	case groupStateCompletingRebalance:
		return "C"
	case groupStateStable:
		return "S"
	}
	return "D"
}

func c43Short(id string) string {
	if len(id) > 6 {
		return id[len(id)-5:]
	}
	return id
}

func (s *c43Sim) unknownMember(c *c43Client, what string) {
	s.res.classes[what+"/unknown-member"]++
	if c.safe {
		s.violate("safety: client %d got UNKNOWN_MEMBER_ID on %s although its requests were never further apart than its session timeout (S=%dms h=%dms lat=%dms)", c.idx, what, c.SessMs, c.HMs, c.LatMs)
	}
	c.id = ""
}

func (s *c43Sim) sync(c *c43Client) {
	now := s.now()
	req := kmsg.NewPtrSyncGroupRequest()
	req.Group = c43Group
	req.Generation = c.gen
	req.MemberID = c.id
	s.markLoaded()
	resp, err := s.c.SyncGroup(s.ctx, req)
	c.lastReq = now
	if err != nil || resp == nil {
		s.violate("SyncGroup error %v", err)
		return
	}
	s.tr("c%d sync gen=%d -> code=%d", c.idx, c.gen, resp.ErrorCode)
	s.res.classes[fmt.Sprintf("sync/code%d", resp.ErrorCode)]++
	switch resp.ErrorCode {
	case protocol.NONE:
		s.dirty = false
		c.st = c43StStable
		c.next = c.lastRefReq + c43Ms(c.HMs)
		if c.next <= now {
			c.next = now + time.Millisecond
		}
	case protocol.UNKNOWN_MEMBER_ID:
		s.unknownMember(c, "sync")
		c.st, c.next = c43StJoining, now+c43Ms(c.LatMs)
	default:
		c.st, c.next = c43StJoining, now+c43Ms(c.LatMs)
	}
}

func (s *c43Sim) heartbeat(c *c43Client) {
	now := s.now()
	req := kmsg.NewPtrHeartbeatRequest()
	req.Group = c43Group
	req.Generation = c.gen
	req.MemberID = c.id
	s.markLoaded()
	resp := s.c.Heartbeat(s.ctx, req)
	c.lastReq, c.lastRefReq = now, now
	if resp == nil {
		s.violate("Heartbeat nil")
		return
	}
	s.tr("c%d hb gen=%d -> code=%d", c.idx, c.gen, resp.ErrorCode)
	s.res.classes[fmt.Sprintf("hb/code%d", resp.ErrorCode)]++
	switch resp.ErrorCode {
	case protocol.NONE:
		s.dirty = false
		c.rejoinAt = 0
		c.next = now + c43Ms(c.HMs)
	case protocol.UNKNOWN_MEMBER_ID:
		c.rejoinAt = 0
		s.unknownMember(c, "heartbeat")
		c.st, c.next = c43StJoining, now+c43Ms(c.LatMs)
	default:
		if c.ReactMs > 0 {
			// slow client: it noticed the rebalance but needs ReactMs to get back with a
			// JoinGroup; meanwhile its heartbeat thread keeps heartbeating every hb_ms.
			if c.rejoinAt == 0 {
				c.rejoinAt = now + c43Ms(c.ReactMs)
				s.res.classes["hb/slow-rejoin-started"]++
				if c.ReactMs > c.SessMs {
					s.res.feats["slow-rejoin-longer-than-session"] = true
				}
			}
			c.next = now + c43Ms(c.HMs)
			if c.rejoinAt < c.next {
				c.next = c.rejoinAt
			}
			return
		}
		c.st, c.next = c43StJoining, now+c43Ms(c.LatMs)
	}
}

func (s *c43Sim) leave(c *c43Client) {
	req := kmsg.NewPtrLeaveGroupRequest()
	req.Group = c43Group
	req.MemberID = c.id
	s.markLoaded()
	resp := s.c.LeaveGroup(s.ctx, req)
	code := int16(-1)
	if resp != nil {
		code = resp.ErrorCode
	}
	s.tr("c%d leave -> code=%d", c.idx, code)
	s.res.classes[fmt.Sprintf("leave/code%d", code)]++
	c.st = c43StLeft
}

func (s *c43Sim) die(c *c43Client, w c43WB) {
	c.st = c43StDead
	if !c.joinedOnce || c.id == "" {
		s.res.classes["death/before-join"]++
		c.checked = true
		return
	}
	_, member := w.members[c.id]
	if !member {
		s.res.classes["death/not-a-member"]++
		c.checked = true
		c.gone = true
		return
	}
	c.genAtLast, c.incAtLast = w.gen, s.inc
	c.checkAt = c.lastReq + c43Ms(c.SessMs) + s.interval + time.Millisecond
	survivors := 0
	for _, o := range s.cl {
		if o != c && (o.st == c43StJoining || o.st == c43StSyncing || o.st == c43StStable) {
			if _, ok := w.members[o.id]; ok {
				survivors++
			}
		}
	}
	cls := fmt.Sprintf("death/%s/survivors%d", c43Phase(w.phase), min(survivors, 2))
	s.res.classes[cls]++
	s.res.deathCls = append(s.res.deathCls, cls)
	if w.phase == groupStateStable && survivors > 0 {
		s.res.feats["death-in-stable-with-survivor"] = true
	}
	if w.phase != groupStateStable {
		s.res.feats["death-during-rebalance"] = true
	}
	s.tr("c%d goes silent (last request at %s, phase %s, survivors %d)", c.idx, c.lastReq, c43Phase(w.phase), survivors)
}

// markLoaded: the request about to be sent makes a restarted coordinator load the group.
// Silent members are judged by their real last request, but the sweep can only run from now.
func (s *c43Sim) markLoaded() {
	if !s.unloaded {
		return
	}
	s.unloaded = false
	s.lastLoad = s.now()
	s.res.classes["restart/group-reloaded-by-request"]++
	for _, c := range s.cl {
		if c.st == c43StDead && !c.gone && c.id != "" {
			at := s.lastLoad + s.interval + time.Millisecond
			if b := c.lastReq + c43Ms(c.SessMs) + s.interval + time.Millisecond; b > at {
				at = b
			}
			c.checkAt, c.checked = at, false
			s.res.classes["restart/dead-member-rechecked-after-reload"]++
			s.res.feats["dead-member-across-restart"] = true
		}
	}
}

func (s *c43Sim) restart() {
	s.restarted = true
	rec, err := s.fs.InMemoryStore.FetchConsumerGroup(context.Background(), c43Group)
	// VF_C43_RESTART_ANY=1 (exploration only, not used by any leg) also restarts in mid-rebalance
	if err != nil || (rec != nil && rec.GetState() != groupStateStableStr && os.Getenv("VF_C43_RESTART_ANY") == "") {
		s.res.classes["restart/skipped-persisted-group-in-rebalance"]++
		return
	}
	if s.dirty {
		s.res.classes["restart/skipped-store-behind-after-write-fault"]++
		return
	}
	s.c.Stop()
	s.c = NewGroupCoordinator(s.fs, s.brk, &CoordinatorConfig{CleanupInterval: s.interval})
	synctest.Wait()
	s.unloaded = rec != nil
	s.nextTick = s.now() + s.interval
	s.tr("coordinator restarted (persisted group: %v)", rec != nil)
	s.res.classes["restart/done"]++
	s.res.feats["restart"] = true
}

func (s *c43Sim) checkGone(c *c43Client, w c43WB) {
	c.checked = true
	if s.unloaded {
		s.res.classes["liveness-check/deferred-group-not-loaded"]++
		return
	}
	if _, member := w.members[c.id]; member {
		s.violate("liveness-session: client %d sent its last request at %s with session timeout %dms; at %s (+cleanup interval %s +1ms) it is still a member", c.idx, c.lastReq, c.SessMs, s.now(), s.interval)
		return
	}
	s.res.classes["liveness-check/gone"]++
	if w.exists && s.inc == c.incAtLast {
		if w.gen <= c.genAtLast {
			s.violate("liveness-session: client %d was removed but the group did not rebalance (generation %d at its last request, %d now)", c.idx, c.genAtLast, w.gen)
		} else {
			s.res.classes["liveness-check/rebalanced"]++
		}
	} else {
		s.res.classes["liveness-check/group-gone"]++
	}
}

func c43Simulate(t *testing.T, env c43Env, opts c43Opts) *c43Result {
	res := &c43Result{classes: map[string]int{}, feats: map[string]bool{}}
	synctest.Test(t, func(t *testing.T) {
		defer func() {
			if p := recover(); p != nil {
				res.viol = append(res.viol, fmt.Sprintf("panic: %v", p))
			}
		}()
		brk := protocol.MetadataBroker{NodeID: 1, Host: "localhost", Port: 9092}
		ps := []protocol.MetadataPartition{{Partition: 0, Leader: 1}, {Partition: 1, Leader: 1}}
		store := metadata.NewInMemoryStore(metadata.ClusterMetadata{Brokers: []protocol.MetadataBroker{brk}, ControllerID: 1,
			Topics: []protocol.MetadataTopic{{Topic: kmsg.StringPtr("ta"), Partitions: ps}}})
		s := &c43Sim{ctx: context.Background(), env: env, opts: opts, res: res, t0: time.Now(), interval: c43Ms(env.CleanupMs)}
		s.nextTick = s.interval
		s.fs = &c43FaultStore{InMemoryStore: store}
		s.brk = brk
		s.c = NewGroupCoordinator(s.fs, brk, &CoordinatorConfig{CleanupInterval: s.interval})
		defer func() { s.c.Stop() }()
		horizon := time.Duration(0)
		for i, sp := range env.Clients {
			c := &c43Client{c43Spec: sp, idx: i, off: time.Duration(137+13*i) * time.Microsecond}
			c.next = c43Ms(sp.StartMs) + c.off
			s.cl = append(s.cl, c)
			rt := c43Ms(sp.RebMs)
			if rt > s.rtMax {
				s.rtMax = rt
			}
			if s.rtMin == 0 || rt < s.rtMin {
				s.rtMin = rt
			}
			end := c43Ms(sp.StartMs)
			if sp.Fate != c43FateRun && c43Ms(sp.FateMs) > end {
				end = c43Ms(sp.FateMs)
			}
			if sp.ReJoinAtMs > 0 && c43Ms(sp.ReJoinAtMs) > end {
				end = c43Ms(sp.ReJoinAtMs)
			}
			end += c43Ms(max(sp.SessMs, sp.ReSessMs)) + s.interval + 3*time.Second
			if end > horizon {
				horizon = end
			}
		}
		horizon += s.rtMax / 4
		if horizon > 240*time.Second {
			horizon = 240 * time.Second
		}
		for _, c := range s.cl {
			// "safe" (literal reading of the statement): no two consecutive requests are as far
			// apart as the session timeout, and after a failed heartbeat the client is back
			// with a JoinGroup well inside the smallest rebalance timeout (otherwise dropping
			// it as a rebalance laggard is allowed by the statement).
			sess := c43Ms(c.SessMs)
			c.safe = c43Ms(c.HMs) < sess && c43Ms(c.LatMs) < sess && c43Ms(c.RetryMs) < sess &&
				c43Ms(c.HMs+c.LatMs) < s.rtMin && c43Ms(c.RetryMs+c.LatMs) < s.rtMin
			if c.ReSessMs > 0 {
				s2 := c43Ms(c.ReSessMs)
				c.safe = c.safe && c43Ms(c.ReHMs) < s2 && c43Ms(c.LatMs) < s2 && c43Ms(c.RetryMs) < s2 && c43Ms(c.ReHMs+c.LatMs) < s.rtMin
			}
			if c.ReactMs > 0 {
				// keeps heartbeating every h < S while it takes ReactMs to re-join: the session
				// clause protects it as long as the re-join still beats every rebalance deadline
				c.safe = c.safe && c43Ms(c.HMs+c.ReactMs)+500*time.Millisecond < s.rtMin
				res.classes["client/slow-rejoin"]++
			}
			if c.HMs+c.LatMs >= c.SessMs {
				res.classes["client/hb-plus-latency-ge-session"]++
			}
			if c.safe {
				res.classes["client/safe"]++
			} else {
				res.classes["client/not-asserted-safe"]++
			}
		}
		for {
			// next event: earliest client action, fate instant or liveness check
			var who *c43Client
			kind := ""
			at := time.Duration(-1)
			consider := func(c *c43Client, k string, t time.Duration) {
				if at < 0 || t < at {
					who, kind, at = c, k, t
				}
			}
			for _, c := range s.cl {
				switch c.st {
				case c43StNew, c43StJoining, c43StSyncing, c43StStable:
					if c.Fate != c43FateRun {
						consider(c, "fate", c43Ms(c.FateMs)+c.off)
					}
					if c.ReJoinAtMs > 0 && !c.reDone {
						consider(c, "rejoin", c43Ms(c.ReJoinAtMs)+c.off)
					}
					consider(c, "act", c.next)
				case c43StDead:
					if !c.checked {
						consider(c, "check", c.checkAt)
					}
				}
			}
			if kind == "" || at > horizon {
				break
			}
			if ra := c43Ms(env.RestartAtMs) + 71*time.Microsecond; env.RestartAtMs > 0 && !s.restarted && ra < at {
				who, kind, at = nil, "restart", ra
			}
			if tk := s.nextTick + 7*time.Microsecond; tk < at {
				who, kind, at = nil, "tick", tk
			}
			if d := at - s.now(); d > 0 {
				time.Sleep(d)
			}
			synctest.Wait()
			res.events++
			if kind == "tick" {
				s.observe(s.nextTick)
				s.nextTick += s.interval
				if len(res.viol) > 0 || res.events > 30000 {
					break
				}
				continue
			}
			w := s.observe(-1)
			switch kind {
			case "restart":
				s.restart()
			case "fate":
				if who.Fate == c43FateDie {
					s.die(who, w)
				} else {
					if who.id != "" {
						s.leave(who)
					} else {
						who.st = c43StLeft
					}
				}
			case "check":
				s.checkGone(who, w)
			case "rejoin":
				who.reDone, who.rePending = true, true
				if who.st == c43StStable && who.rejoinAt == 0 {
					s.res.classes["rejoin/voluntary-in-stable"]++
					s.join(who)
				} else {
					s.res.classes["rejoin/applies-to-next-join"]++
				}
			case "act":
				switch who.st {
				case c43StNew, c43StJoining:
					s.join(who)
				case c43StSyncing:
					s.sync(who)
				case c43StStable:
					if who.rejoinAt > 0 && s.now() >= who.rejoinAt {
						who.rejoinAt = 0
						s.res.classes["join/after-slow-reaction"]++
						s.join(who)
					} else {
						s.heartbeat(who)
					}
				}
			}
			s.observe(-1)
			if len(res.viol) > 0 || res.events > 30000 {
				break
			}
		}
	})
	return res
}

// c43DrawCoincidence draws the timeline family in which a session expiry and a passed
// rebalance deadline tend to be seen by the same cleanup tick: members with mixed session
// timeouts form a group; X (long session) and Y (session a little longer than the rebalance
// timeout) go silent around the instant a late joiner N starts a rebalance; A (optional)
// keeps running and re-joins quickly.
func c43DrawCoincidence(t *rapid.T) c43Env {
	env := c43Env{CleanupMs: rapid.SampledFrom([]int{5000, 5000, 3000, 2000, 1000, 1000}).Draw(t, "cleanup")}
	rt := rapid.SampledFrom([]int{5000, 10000}).Draw(t, "reb")
	tN := rapid.SampledFrom([]int{6000, 8000, 11000, 15000}).Draw(t, "tN") + rapid.IntRange(0, 999).Draw(t, "tNjit")
	mk := func(sess, frac, start int) c43Spec {
		base := sess
		if rt-500 < base {
			base = rt - 500
		}
		return c43Spec{SessMs: sess, RebMs: rt, HMs: base * frac / 100,
			LatMs: rapid.SampledFrom([]int{5, 20, 50, 100}).Draw(t, "lat"),
			// join polls up to several cleanup passes apart (still far inside session and rebalance timeout)
			RetryMs: rapid.SampledFrom([]int{100, 200, 500, 1000, 1500, 2500, 3500}).Draw(t, "retry"),
			StartMs: start}
	}
	dieAt := func() int {
		d := tN - rapid.SampledFrom([]int{0, 200, 600, 1200, 2500}).Draw(t, "diebefore")
		if rapid.IntRange(0, 4).Draw(t, "dieafter") == 0 {
			d = tN + rapid.IntRange(1, 400).Draw(t, "dieafterms")
		}
		return d
	}
	if rapid.IntRange(0, 3).Draw(t, "withA") > 0 {
		a := mk(rapid.SampledFrom([]int{10000, 30000}).Draw(t, "sessA"), rapid.SampledFrom([]int{10, 20, 33}).Draw(t, "fracA"), rapid.IntRange(0, 999).Draw(t, "startA"))
		env.Clients = append(env.Clients, a)
	}
	x := mk(30000, rapid.SampledFrom([]int{10, 33, 70}).Draw(t, "fracX"), rapid.IntRange(0, 999).Draw(t, "startX"))
	x.Fate, x.FateMs = c43FateDie, dieAt()
	y := mk(rt+rapid.SampledFrom([]int{500, 1000, 2000, 3000, 4000}).Draw(t, "sessYextra"), rapid.SampledFrom([]int{10, 33, 70}).Draw(t, "fracY"), rapid.IntRange(0, 999).Draw(t, "startY"))
	y.Fate, y.FateMs = c43FateDie, dieAt()
	n := mk(rapid.SampledFrom([]int{10000, 30000}).Draw(t, "sessN"), 33, tN)
	env.Clients = append(env.Clients, x, y, n)
	return env
}

// c43DrawSlowRejoin draws the family "rebalance timeout >> session timeout, members keep
// heartbeating but take longer than their session timeout to re-join an open rebalance".
func c43DrawSlowRejoin(t *rapid.T, clampHB bool, excluded *int) c43Env {
	env := c43Env{CleanupMs: rapid.SampledFrom([]int{1000, 1000, 2000, 3000}).Draw(t, "cleanup")}
	rt := rapid.SampledFrom([]int{30000, 60000}).Draw(t, "reb")
	n := rapid.IntRange(2, 4).Draw(t, "clients")
	for i := 0; i < n; i++ {
		sess := rapid.SampledFrom([]int{3000, 3000, 5000, 10000}).Draw(t, "sess")
		sp := c43Spec{SessMs: sess, RebMs: rt}
		sp.HMs = sess * rapid.SampledFrom([]int{5, 10, 20, 33, 50}).Draw(t, "hbfrac") / 100
		sp.LatMs = rapid.SampledFrom([]int{5, 20, 50, 100}).Draw(t, "lat")
		sp.RetryMs = rapid.SampledFrom([]int{100, 200, 500, 1000}).Draw(t, "retry")
		slow := rapid.IntRange(0, 3).Draw(t, "slow") > 0
		if slow && clampHB {
			*excluded++
		}
		if slow && !clampHB {
			// (while the heartbeat finding is listed this behaviour is the excluded predicate)
			sp.ReactMs = rapid.SampledFrom([]int{sess + 300, sess + 1500, 2 * sess, 3 * sess, rt / 3}).Draw(t, "react")
			if lim := rt - sp.HMs - 1500; sp.ReactMs > lim {
				sp.ReactMs = lim
			}
		}
		if i > 0 {
			sp.StartMs = rapid.SampledFrom([]int{0, 300, 4000, 9000, 15000}).Draw(t, "start")
		}
		sp.StartMs += rapid.IntRange(0, 999).Draw(t, "startjit")
		sp.Fate = rapid.SampledFrom([]int{c43FateRun, c43FateRun, c43FateRun, c43FateDie, c43FateLeave}).Draw(t, "fate")
		if sp.Fate != c43FateRun {
			sp.FateMs = sp.StartMs + rapid.SampledFrom([]int{500, 3000, 8000, 15000, 30000}).Draw(t, "fateafter") + rapid.IntRange(0, 2999).Draw(t, "fatejit")
		}
		env.Clients = append(env.Clients, sp)
	}
	return env
}

func c43DrawEnv(t *rapid.T, clampHB bool, excluded *int) c43Env {
	switch fam := rapid.IntRange(0, 19).Draw(t, "family"); {
	case fam < 6:
		return c43DrawCoincidence(t)
	case fam < 11:
		return c43DrawSlowRejoin(t, clampHB, excluded)
	}
	env := c43Env{CleanupMs: rapid.SampledFrom([]int{1000, 2000, 3000, 5000}).Draw(t, "cleanup")}
	n := rapid.IntRange(1, 4).Draw(t, "clients")
	rebs := make([]int, n)
	rtMin := 0
	for i := range rebs {
		rebs[i] = rapid.SampledFrom([]int{5000, 5000, 10000, 30000, 60000}).Draw(t, "reb")
		if rtMin == 0 || rebs[i] < rtMin {
			rtMin = rebs[i]
		}
	}
	for i := 0; i < n; i++ {
		sp := c43Spec{RebMs: rebs[i]}
		sp.SessMs = rapid.SampledFrom([]int{3000, 5000, 10000, 30000}).Draw(t, "sess")
		base := sp.SessMs
		if rtMin-500 < base {
			base = rtMin - 500
		}
		frac := rapid.SampledFrom([]int{10, 20, 33, 33, 50, 70, 90, 97}).Draw(t, "hbfrac")
		sp.HMs = base * frac / 100
		sp.LatMs = rapid.SampledFrom([]int{5, 20, 50, 100, 200, 400}).Draw(t, "lat")
		sp.RetryMs = rapid.SampledFrom([]int{100, 200, 500, 1000}).Draw(t, "retry")
		if clampHB && sp.HMs+sp.LatMs >= sp.SessMs-50 {
			// listed finding: heartbeat answered REBALANCE_IN_PROGRESS/ILLEGAL_GENERATION does not
			// refresh the session, so the effective gap is h+lat; keep it inside the session.
			*excluded++
			sp.LatMs = 5
			if sp.HMs+sp.LatMs >= sp.SessMs-50 {
				sp.HMs = sp.SessMs - 100
			}
		}
		sp.StartMs = rapid.SampledFrom([]int{0, 0, 0, 300, 1500, 4000, 9000, 20000}).Draw(t, "start") + rapid.IntRange(0, 999).Draw(t, "startjit")
		if rj := rapid.SampledFrom([]int{0, 0, 0, 1, 1, 2, 3}).Draw(t, "rejoinkind"); rj > 0 {
			// 1: new session timeout, 2: store write fault, 3: both
			sp.ReJoinAtMs = sp.StartMs + rapid.SampledFrom([]int{1500, 3000, 6000, 10000, 16000}).Draw(t, "rejoinafter") + rapid.IntRange(0, 999).Draw(t, "rejoinjit")
			if rj != 2 {
				sp.ReSessMs = rapid.SampledFrom([]int{3000, 5000, 10000, 30000}).Draw(t, "resess")
				b2 := sp.ReSessMs
				if rtMin-500 < b2 {
					b2 = rtMin - 500
				}
				sp.ReHMs = b2 * frac / 100
				if clampHB && sp.ReHMs+sp.LatMs >= sp.ReSessMs-50 {
					sp.ReHMs = sp.ReSessMs - sp.LatMs - 100
				}
			}
			sp.ReFault = rj >= 2
		}
		sp.Fate = rapid.SampledFrom([]int{c43FateRun, c43FateRun, c43FateDie, c43FateDie, c43FateDie, c43FateLeave}).Draw(t, "fate")
		if sp.Fate != c43FateRun {
			sp.FateMs = sp.StartMs + rapid.SampledFrom([]int{0, 50, 500, 2000, 6000, 12000, 25000, 40000}).Draw(t, "fateafter") + rapid.IntRange(0, 2999).Draw(t, "fatejit")
		}
		env.Clients = append(env.Clients, sp)
	}
	// coordinator restart: never | shortly after some client went silent | anywhere
	switch rapid.SampledFrom([]int{0, 0, 0, 1, 1, 2}).Draw(t, "restart") {
	case 1:
		for _, sp := range env.Clients {
			if sp.Fate == c43FateDie {
				env.RestartAtMs = sp.FateMs + rapid.SampledFrom([]int{300, 1000, 2500, 6000, 12000}).Draw(t, "restartafter")
				break
			}
		}
	case 2:
		env.RestartAtMs = rapid.SampledFrom([]int{3000, 8000, 15000, 25000, 40000}).Draw(t, "restartat") + rapid.IntRange(0, 999).Draw(t, "restartjit")
	}
	return env
}

func TestVF_C43_Timeline(t *testing.T) {
	st := vfkit.NewStats("C43", "timeline")
	defer st.Flush()
	knownHB := vfkit.Known(c43FindingHB)
	knownReb := vfkit.Known(c43FindingReb)
	st.Note("exclude_"+c43FindingHB, knownHB)
	st.Note("exclude_"+c43FindingReb, knownReb)
	rapid.Check(t, func(rt *rapid.T) {
		excl := 0
		env := c43DrawEnv(rt, knownHB, &excl)
		st.Eval()
		for i := 0; i < excl; i++ {
			st.ExcludedCase(c43FindingHB)
		}
		res := c43Simulate(t, env, c43Opts{excludeReb: knownReb})
		for k, v := range res.classes {
			st.ClassN(k, v)
		}
		for i := 0; i < res.exclReb; i++ {
			st.ExcludedCase(c43FindingReb)
		}
		for f := range res.feats {
			st.Class("feat/" + f)
		}
		st.Class(fmt.Sprintf("clients/%d", len(env.Clients)))
		if res.feats["death-in-stable-with-survivor"] || res.feats["death-during-rebalance"] {
			st.Class("nontrivial")
			sort.Strings(res.deathCls)
			if st.NonTrivial(fmt.Sprintf("%+v", env), strings.Join(res.deathCls, ",")) {
				tr := res.trace
				if len(tr) > 30 {
					tr = tr[:30]
				}
				st.Sample(map[string]any{"env": env, "deaths": res.deathCls, "events": res.events, "trace_head": tr})
			}
		}
		if len(res.viol) > 0 {
			tr := res.trace
			if len(tr) > 45 {
				tr = tr[len(tr)-45:]
			}
			rt.Fatalf("C43 violated (details after the trace)\ntrace (tail):\n%s\nenv: %+v\nC43 violated:\n%s", strings.Join(tr, "\n"), env, strings.Join(res.viol, "\n"))
		}
	})
}

// TestVF_C43_Witness replays one hard-coded timeline per listed finding through the same
// simulator and oracle with the exclusions switched off.
func TestVF_C43_Witness(t *testing.T) {
	st := vfkit.NewStats("C43", "witness")
	defer st.Flush()
	// (A) c0: S=3s, heartbeat every 2.9s, reacts after 400ms. c1 joins at 4.0s (rebalance).
	// c0's heartbeat at 5.8s is answered ILLEGAL_GENERATION and does not refresh its session;
	// the cleanup tick at 6.0s removes it (last refresh 2.9s) before its re-join at 6.2s.
	envA := c43Env{CleanupMs: 1000, Clients: []c43Spec{
		{SessMs: 3000, RebMs: 60000, HMs: 2900, LatMs: 400, RetryMs: 500, StartMs: 0, Fate: c43FateRun},
		{SessMs: 10000, RebMs: 60000, HMs: 3000, LatMs: 20, RetryMs: 500, StartMs: 4000, Fate: c43FateRun},
	}}
	st.Eval()
	ra := c43Simulate(t, envA, c43Opts{})
	failsA := false
	for _, v := range ra.viol {
		if strings.Contains(v, "safety:") {
			failsA = true
		}
	}
	whatA := "not reproduced"
	if failsA {
		whatA = ra.viol[0]
	}
	st.KnownResult(c43FindingHB, failsA, whatA)
	t.Logf("witness %s still fails: %v %v\n%s", c43FindingHB, failsA, ra.viol, strings.Join(ra.trace, "\n"))

	// (B) c0: S=30s, RT=5s, silent from 10s. c1 joins at 12s (rebalance, RT=5s) and polls
	// JoinGroup every 500ms; every poll pushes the rebalance deadline, so c0 is only removed
	// by its session (~40s) instead of after the 5s rebalance timeout.
	envB := c43Env{CleanupMs: 1000, Clients: []c43Spec{
		{SessMs: 30000, RebMs: 5000, HMs: 3000, LatMs: 20, RetryMs: 500, StartMs: 0, Fate: c43FateDie, FateMs: 10000},
		{SessMs: 30000, RebMs: 5000, HMs: 3000, LatMs: 20, RetryMs: 500, StartMs: 12000, Fate: c43FateRun},
	}}
	st.Eval()
	rb := c43Simulate(t, envB, c43Opts{})
	failsB := false
	for _, v := range rb.viol {
		if strings.Contains(v, "liveness-rebalance:") {
			failsB = true
		}
	}
	whatB := "not reproduced"
	if failsB {
		whatB = rb.viol[0]
	}
	st.KnownResult(c43FindingReb, failsB, whatB)
	st.NonTrivial("witness")
	st.Sample(map[string]any{"A": ra.viol, "B": rb.viol})
	t.Logf("witness %s still fails: %v %v", c43FindingReb, failsB, rb.viol)
	for _, v := range append(append([]string{}, ra.viol...), rb.viol...) {
		if strings.HasPrefix(v, "panic") {
			t.Fatalf("panic in witness: %s", v)
		}
	}
}
